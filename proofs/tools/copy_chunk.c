/* VERIF-UNIT
{
 "name": "copy_file_chunk",
 "props": ["C18"],
 "level": "U/iter",
 "tier": "quick",
 "tier_after_hooks": "quick",
 "harness": "h_copy_file_chunk",
 "loop_contracts": true,
 "includes": ["misc"],
 "unwind": 6,
 "unwindset": {"__CPROVER_contracts_write_set_check_assigns_clause_inclusion.0": 18},
 "backend": "cadical",
 "unwind_reason": "all three loops of copy_file_chunk (64 KiB windows, blocks of a window, partial writes of a block) are cut by in-place loop contracts (hooks-pending/tools.diff); the bound only serves the DFCC library's write-set loops (unwinding assertions on)",
 "functions": ["misc/create_inode.c:copy_file_chunk"],
 "assumes": ["NEEDS the hooks in hooks-pending/tools.diff (three loop contracts in copy_file_chunk)",
             "no contract is ENFORCED on copy_file_chunk (no frame obligations): harness CHECKs + protocol monitor in the stubs of pread64, memcmp, ext2fs_file_llseek, ext2fs_file_write",
             "pread64 is a stub: -1 (errno chosen by the harness, > 0) or an arbitrary count 0..65536 (short reads included); the 64 KiB buffer holds ARBITRARY bytes which stand for the bytes delivered (the stub does not rewrite the buffer)",
             "the statement is relative to the bytes pread DELIVERS: a short read before end-of-file is not retried by the code (the rest of that 64 KiB window is not copied) - Linux regular files do not produce such reads",
             "memcmp is a stub with an ARBITRARY result that never reads the bytes; what is proved is that it is called on exactly the block at the frontier against zerobuf over exactly the block length and that result 0 <=> the block is skipped; that result 0 <=> all bytes zero is libc's contract plus zerobuf holding zeros (copy_file: ext2fs_get_memzero(blocksize))",
             "ext2fs_file_llseek may fail with a harness-chosen code; ext2fs_file_write may fail or accept an ARBITRARY number 0..nbytes of bytes",
             "zerobuf is blocksize zero bytes (copy_file: ext2fs_get_memzero); fs->blocksize a power of two 1024..65536; 0 <= start, end <= 2^62 (offsets produced by try_lseek_copy / FIEMAP / st_size on a host whose files are smaller than 2^62)",
             "U/iter: statement proved for one arbitrary window, one arbitrary block of it, one arbitrary partial write, each from an arbitrary state satisfying the (proved inductive) loop invariants"],
 "native": false
}
*/
/*
 * C18 "byte content and length with holes kept as holes": the block copier of mke2fs -d.
 *
 * Ghost monitor (generic registers, also named by the in-place loop contracts):
 *   verif_g0  source offset of the latest pread            verif_g1  number of bytes it delivered
 *   verif_g2  frontier F: every delivered byte at a source offset in [g0, F) has been dealt with - it belongs to a block
 *             that was zero-tested and skipped, or it was written to the destination AT THE SAME OFFSET
 *   verif_g3  0 at a block boundary, 1 the block at F tested non-zero (seek to F due), 2 destination positioned at F
 *   verif_g4  end offset of the block being written         verif_g5  number of preads
 *   verif_g7  error code handed out by a failing callee stub
 *
 * Statement, for B = fs->blocksize, per 64 KiB window [off, off+got) delivered by pread(fd, buf, 65536, off),
 * off = start + 65536*i:
 *   the window is cut into blocks [F, min(F+B, off+got)); each block is compared with zerobuf over exactly its length;
 *   equal (all zero): nothing is written (the destination keeps a hole);
 *   different: ext2fs_file_llseek(e2_file, F, SET) and then writes whose source pointer is buf + (P - off) for the
 *   current destination position P, never reaching beyond the block, until P == end of block (a write that accepts 0
 *   bytes is an error EIO, any callee error stops the copy and is returned);
 *   a new window is read only when the previous one is completely dealt with; success means start + 65536*n >= end.
 */
#include "verif.h"

#define _LARGEFILE64_SOURCE 1
#define _GNU_SOURCE 1
#include "config.h"
#include <sys/stat.h>
#include <sys/types.h>
#include <unistd.h>
#include <string.h>
#include <errno.h>
#include <ext2fs/ext2fs.h>
#include "create_inode.h"

struct in_s {
	long long start, end;
	long long got[8];	/* pread results */
	unsigned int lg;
	int fd, err;
	int cmp[8];		/* memcmp results */
	long seek_ret[8], write_ret[8];
	unsigned int wrote[8];
};
struct in_s IN;
#include "verif_in.h"

unsigned long long verif_k;
int verif_old_bit;
unsigned long long verif_g0, verif_g1, verif_g2, verif_g3, verif_g4, verif_g5, verif_g6, verif_g7;
const unsigned char *verif_p0, *verif_p1, *verif_p2, *verif_p3;

static unsigned int g_bs;
static int g_fd;
static char *g_buf, *g_zerobuf;
static char g_file_obj;
/*
 * Stub results: IN.<array>[verif_g6 & 7], verif_g6 = number of stub calls so far.  DFCC runs the first iteration of a cut loop
 * from the real initial state and then one iteration from the havocked state, on the same path; verif_g6 is havocked with
 * the loop state, so the arbitrary iteration draws results that are independent of the first iteration's.
 */
#define DRAW(arr) (IN.arr[verif_g6 & 7])

#define SPEC_POS_MAX (1LL << 62)
#define SPEC_WINDOW 65536

ssize_t pread64(int fd, void *buf, size_t count, off64_t offset)
{
	long long got = DRAW(got);
	verif_g6++;
	CHECK(fd == g_fd && buf == (void *)g_buf && count == SPEC_WINDOW, "pread: 64 KiB from the source file into the copy buffer");
	CHECK(verif_g3 == 0 && verif_g2 == verif_g0 + verif_g1, "pread: the previous window has been dealt with completely");
	CHECK(offset >= 0 && (unsigned long long)offset == (unsigned long long)IN.start + verif_g5 * SPEC_WINDOW, "pread: windows are consecutive from start");
	verif_g5++;
	if (got < 0) {
		verif_g7 = IN.err;	/* errno of the failing pread: the result the caller must see */
		return -1;
	}
	ASSUME(got <= SPEC_WINDOW);
	verif_g0 = offset;
	verif_g1 = got;
	verif_g2 = offset;
	return got;
}

int memcmp(const void *a, const void *b, size_t n)
{
	int r = DRAW(cmp);
	verif_g6++;
	unsigned long long left = verif_g0 + verif_g1 - verif_g2;
	CHECK(verif_g3 == 0 && verif_g2 < verif_g0 + verif_g1, "zero test: at a block boundary inside the delivered window");
	CHECK(a == (const void *)(g_buf + (verif_g2 - verif_g0)) && b == (const void *)g_zerobuf, "zero test: the block at the frontier against zerobuf");
	CHECK(n == (left < g_bs ? left : g_bs), "zero test: over exactly the block (the last one of a short window is shorter)");
	/*
	 * libc: the result is 0 iff the n bytes at a equal the n bytes at b - with a, b, n as checked above and zerobuf
	 * holding zeros: iff every byte of the block is zero.  The stub does not look at the bytes (arbitrary result).
	 */
	if (r == 0) {
		verif_g2 += n;		/* all zero: skipped, the destination keeps a hole */
	} else {
		verif_g3 = 1;		/* some byte is non-zero: the block has to be written */
		verif_g4 = verif_g2 + n;
	}
	return r;
}

errcode_t ext2fs_file_llseek(ext2_file_t file, __u64 offset, int whence, __u64 *ret_pos)
{
	long e = DRAW(seek_ret);
	verif_g6++;
	CHECK((char *)file == &g_file_obj && whence == EXT2_SEEK_SET, "seek: absolute, on the destination file");
	CHECK(verif_g3 == 1 && offset == verif_g2, "seek: a non-zero block is written at its own offset (source offset == destination offset, 64 bits)");
	if (e > 0) {
		verif_g7 = e;
		return e;
	}
	verif_g3 = 2;
	return 0;
}

errcode_t ext2fs_file_write(ext2_file_t file, const void *buf, unsigned int nbytes, unsigned int *written)
{
	long e = DRAW(write_ret);
	unsigned int w = DRAW(wrote);
	verif_g6++;
	CHECK((char *)file == &g_file_obj, "write: to the destination file");
	CHECK(verif_g3 == 2, "write: only after the destination was positioned");
	CHECK(buf == (const void *)(g_buf + (verif_g2 - verif_g0)), "write: the byte for destination offset P is the byte read from source offset P");
	CHECK(nbytes > 0 && verif_g2 + nbytes == verif_g4, "write: exactly the rest of the block, never beyond it");
	if (e > 0) {
		verif_g7 = e;
		return e;
	}
	ASSUME(w <= nbytes);
	*written = w;
	if (w == 0)
		verif_g7 = EIO;	/* nothing accepted: the copy has to stop with an I/O error */
	verif_g2 += w;
	if (verif_g2 == verif_g4)
		verif_g3 = 0;
	return 0;
}

#include "misc/create_inode.c"

void h_copy_file_chunk(void)
{
	LOAD_IN();
	struct struct_ext2_filsys *fs = malloc(sizeof(*fs));
	ASSUME(fs != 0);
	ASSUME(IN.lg >= 10 && IN.lg <= 16);
	ASSUME(IN.start >= 0 && IN.start <= SPEC_POS_MAX && IN.end >= 0 && IN.end <= SPEC_POS_MAX);
	ASSUME(IN.err > 0);
	fs->blocksize = g_bs = 1u << IN.lg;
	g_buf = malloc(SPEC_WINDOW);			/* arbitrary contents */
	g_zerobuf = malloc(65536);			/* never read: the zero test is memcmp's contract */
	ASSUME(g_buf && g_zerobuf);
	g_fd = IN.fd;
	errno = IN.err;
	verif_g0 = verif_g1 = verif_g2 = verif_g3 = verif_g4 = verif_g5 = verif_g6 = verif_g7 = 0;

	errcode_t r = copy_file_chunk(fs, IN.fd, (ext2_file_t)&g_file_obj, IN.start, IN.end, g_buf, g_zerobuf);

	if (r == 0) {
		CHECK(verif_g7 == 0, "success: no callee failed");
		CHECK(verif_g3 == 0 && verif_g2 == verif_g0 + verif_g1, "success: the last window was dealt with completely");
		CHECK(IN.start >= IN.end || (unsigned long long)IN.start + verif_g5 * SPEC_WINDOW >= (unsigned long long)IN.end, "success: the windows cover [start, end)");
		if (verif_g5 > 0) REACH("copied");
		if (IN.start >= IN.end) REACH("empty");
	} else {
		/* verif_g7: the callee's error code / errno of the failing pread / EIO for a write that accepted nothing */
		CHECK(verif_g7 != 0, "failure only if a callee failed");
		CHECK((unsigned long long)r == verif_g7, "the error of pread (errno) / ext2fs_file_llseek / ext2fs_file_write is passed on; a write that accepts nothing gives EIO");
		if (r == EIO) REACH("eio");
		REACH("error");
	}
	CHECK(verif_g7 == 0 || r != 0, "no callee failure is swallowed");
	REACH("end");
}
