/* VERIF-UNIT
{
 "name": "qcow2_cluster_ownership",
 "props": ["C19"],
 "level": "U/iter",
 "tier": "quick",
 "tier_after_hooks": "quick",
 "harness": "h_qcow2_blocks",
 "loop_contracts": true,
 "replace": ["ext2fs_get_mem", "ext2fs_free_mem", "initialize_qcow2_image", "write_header", "update_refcount", "add_l2_item",
             "flush_l2_cache", "sync_refcount", "seek_set", "generic_write", "free_qcow2_image", "scramble_dir_block",
             "check_zero_block"],
 "sources": ["lib/ext2fs/blknum.c"],
 "includes": ["misc", "lib/support"],
 "unwind": 6,
 "unwindset": {"__CPROVER_contracts_write_set_check_assigns_clause_inclusion.0": 24},
 "cbmc_flags": ["--object-bits", "12"],
 "unwind_reason": "both loops of output_qcow2_meta_data_blocks (refcounting of the image's own header clusters; the loop over all blocks) are cut by in-place loop contracts (named anchors VERIF_INV_OUTPUT_QCOW2_PREFIX / VERIF_INV_OUTPUT_QCOW2_BLOCKS, hooks-pending/q2.diff); the bound serves the DFCC library loops (unwinding assertions on)",
 "functions": ["misc/e2image.c:output_qcow2_meta_data_blocks"],
 "assumes": ["NEEDS the hooks in hooks-pending/q2.diff (named anchors on the two loops of output_qcow2_meta_data_blocks)",
             "no contract enforced on output_qcow2_meta_data_blocks (1750-line TU): ghost monitor moved by the contracts of the replaced callees + loop invariants + harness CHECKs; violated REQUIRES of a replaced callee are the monitor's obligations",
             "update_refcount is replaced by the statement proved by unit update_refcount: it answers 1 exactly when the cluster lies in another refcount block than the previous one (offset >> (2*cluster_bits-1) differs from the running 32-bit table index) and then puts the new block at rfblk_pos; its precondition 'clusters are accounted in increasing order without gaps' is CHECKED at every call (REQUIRES offset == next cluster to account)",
             "add_l2_item is replaced by the statement proved by unit add_l2_item, with an ARBITRARY answer (whether block blk starts a new L2 table is not modelled: over-approximation): the L2 entry of blk points to `data`; exactly when it answers 1 the offset `next` becomes the place of the next L2 table (cache->next_offset); the file position is unchanged (flush_l2_cache inside get_free_table restores it - not verified here)",
             "initialize_qcow2_image is replaced by a contract: arbitrary result; on success cluster_size == fs->blocksize == 1 << cluster_bits, cluster_bits 10..16, the first refcount block lies at an ARBITRARY cluster-aligned offset < 2^56 (all of the image's own header structures lie in front of it); write_header, flush_l2_cache, sync_refcount, free_qcow2_image, scramble_dir_block: contracts without effect on the monitor; check_zero_block (unit e2image_check_zero_block), the bitmap tests and io_channel_read_blk64: ARBITRARY answers; seek_set / generic_write: contracts that move the monitor's file position (they exit on I/O errors; nop_flag off: generic_write advances the position by the bytes written)",
             "ext2fs_get_mem / ext2fs_free_mem (inline malloc wrappers) are replaced by contracts handing out harness objects (the image descriptor, then the block buffer, whose bytes no stub reads) or failing",
             "ASSUMPTION (as a postcondition of the update_refcount contract): the image file stays below 2^61 bytes, i.e. no wrap-around of offset + 2 * cluster_size (the host's files are smaller; unit update_refcount needs offset < 2^(2*cluster_bits+31) for its 32-bit table index anyway)",
             "U/iter: the statement is proved for one iteration starting in an arbitrary state satisfying the (proved inductive) invariant; the final update_refcount / sync_refcount after the loop are only checked against the callee preconditions",
             "exit(1) (allocation failure, 'Programming error: multiple sequential refcount blocks') ends the run"],
 "native": false
}
*/
/*
 * C19 "converting a qcow2 image back to raw equals the directly produced raw image" - writer, allocation of the image file.
 *
 * qcow2 format (QEMU docs/interop/qcow2.txt): the image file is a sequence of clusters of 1 << cluster_bits bytes; every
 * host cluster in use has exactly ONE owner - it is the target of one L2 entry (a data cluster: here the copy of one
 * file-system block), or an L2 table (target of one L1 entry), or a refcount block (target of one refcount-table
 * entry), or part of the header / L1 table / refcount table - and its refcount entry is the number of references (1).
 * A reader follows L1 -> L2 -> data; were an L2 table's cluster also used as a refcount block or as a data cluster, the
 * bytes written last win and the mapping (or the data) read back differs from the file system's.
 *
 * Stated for ONE arbitrary cluster-aligned ghost offset q_G of the image file and the three producers of the writer's
 * block loop (independent of how the loop advances `offset`):
 *   data:   add_l2_item(img, blk, data, next) makes `data` the target of blk's L2 entry         (q_data  counts data == q_G)
 *   L2:     add_l2_item answering 1 makes `next` the place of the next L2 table                 (q_l2    counts next == q_G);
 *           answering 0 it has not consumed `next`
 *   refblk: update_refcount(fd, img, offset, rfblk_pos) answering 1 puts the new refcount block at rfblk_pos
 *                                                                                               (q_rf    counts rfblk_pos == q_G)
 *   refcount: update_refcount(.., offset, ..) sets the refcount of cluster `offset` to 1        (q_refd  counts offset == q_G)
 * At the head of every iteration, with `offset` the end of the image so far:
 *   (O1) q_data + q_l2 + q_rf <= 1                     at most one owner
 *   (O2) q_G >= offset: no owner, not refcounted       nothing is handed out beyond the end
 *   (O3) q_G <  offset: refcounted exactly once        every cluster handed out has refcount 1 (with O2: by the time the
 *                                                      next block is looked at)
 *   (O4) q_G behind the first refcount block and < offset: exactly one owner    (no cluster is leaked: refcount == references)
 *   (O5) offset is cluster aligned, equals the file position and is the next cluster to account (clusters are accounted
 *        one by one in increasing order - checked at every update_refcount - so offset never decreases)
 *   (O6) every block written was written at the offset its L2 entry names, in a cluster accounted just before, and was
 *        entered into the L2 table before the next block is looked at
 */
#include <stdio.h>
#include "verif.h"
#include "config.h"
#include "ext2fs/ext2_fs.h"
#include "ext2fs/ext2fs.h"

#define fprintf(...) (0)

unsigned long long verif_k;
int verif_old_bit;
unsigned long long verif_g0, verif_g1, verif_g2, verif_g3, verif_g4, verif_g5, verif_g6, verif_g7;
const unsigned char *verif_p0, *verif_p1, *verif_p2, *verif_p3;

struct in_s {
	unsigned int cb;		/* cluster_bits */
	unsigned long long G;		/* ghost cluster offset */
	unsigned long long end0;	/* offset of the first refcount block */
	unsigned long long blocks;
	unsigned int first_data_block;
	int test_meta, test_scramble, have_scramble;
	long read_ret;
	int fd;
};
struct in_s IN;
#include "verif_in.h"

/* ---- ghost monitor ---- */
struct ext2_qcow2_image;
static struct ext2_qcow2_image *q_img;
static char *q_buf;
static struct struct_ext2_filsys *q_fs;
static int q_fd;
static unsigned int q_allocs;
static unsigned int q_cb;			/* cluster_bits */
static unsigned long long q_cs;			/* cluster size */
static unsigned long long q_G;			/* the observed cluster offset */
static unsigned long long q_end0;		/* offset of the first refcount block (end of the header structures) */
static unsigned long long q_data, q_l2, q_rf;	/* owners of q_G handed out by the three producers */
static unsigned long long q_refd;		/* refcount updates of q_G */
static unsigned long long q_expect;		/* next cluster to be accounted (update_refcount's precondition) */
static unsigned int q_tabidx;			/* index of the current refcount block */
static unsigned long long q_pos;		/* file position */
static unsigned long long q_wpos, q_wblk;	/* last data block written: where, which */
static unsigned int q_wpending;			/* written, not yet entered into the L2 table */

#define Q_ALIGNED(x) (((x) & (q_cs - 1)) == 0)
#define Q_NOBLK (~0ULL)
#define Q_MAXOFF (1ULL << 61)

errcode_t ext2fs_get_mem(unsigned long size, void *ptr)
	ENSURES(RET >= 0 && q_allocs == OLD(q_allocs) + 1)
	/* (__CPROVER_pointer_equals: a plain == on a havocked pointer leaves it undereferenceable for CBMC) */
	ENSURES(RET != 0 || __CPROVER_pointer_equals(*(char **)ptr, (OLD(q_allocs) == 0 ? (char *)q_img : q_buf)))
	ASSIGNS(*(char **)ptr, q_allocs);
errcode_t ext2fs_free_mem(void *ptr)
	ENSURES(RET == 0 && *(char **)ptr == 0)
	ASSIGNS(*(char **)ptr);

/* the ownership discipline at q_G, with `off` the end of the image so far */
#define Q_OWNERS (q_data + q_l2 + q_rf)
#define Q_DISCIPLINE(off) \
	(Q_OWNERS <= 1 && \
	 (q_G < (off) || (Q_OWNERS == 0 && q_refd == 0)) && \
	 (q_G >= (off) || q_refd == 1))

/* refcounting of the header structures: `end` is the last cluster to account, new refcount blocks are appended behind it */
#define VERIF_INV_OUTPUT_QCOW2_PREFIX \
	__CPROVER_assigns(offset, blk, end, q_expect, q_tabidx, q_refd, q_rf) \
	__CPROVER_loop_invariant(img == q_img && img->cluster_size == q_cs && img->cluster_bits == q_cb) \
	__CPROVER_loop_invariant(Q_ALIGNED(offset) && Q_ALIGNED(end) && blk == end + q_cs && offset <= end + q_cs && \
				 end >= q_end0 && offset < Q_MAXOFF && end <= q_end0 + offset) \
	__CPROVER_loop_invariant(offset == q_expect && q_data == 0 && q_l2 == 0 && q_wpending == 0) \
	/* (refcount blocks appended behind `end` are accounted when the loop gets there: O2 holds at the exit, offset == end + cluster) */ \
	__CPROVER_loop_invariant(q_rf <= 1 && q_refd == (q_G < offset ? 1u : 0u) && (q_rf == 1) == (q_G > q_end0 && q_G <= end))

#define VERIF_INV_OUTPUT_QCOW2_BLOCKS \
	__CPROVER_assigns(retval, blk, offset, q_expect, q_tabidx, q_refd, q_rf, q_data, q_l2, q_pos, q_wpos, q_wblk, \
			  q_wpending) \
	__CPROVER_loop_invariant(img == q_img && img->cluster_size == q_cs && img->cluster_bits == q_cb && buf == q_buf) \
	__CPROVER_loop_invariant(Q_ALIGNED(offset) && offset > q_end0 && offset < Q_MAXOFF)			/* O5 */ \
	__CPROVER_loop_invariant(offset == q_expect && offset == q_pos)			/* O5 */ \
	__CPROVER_loop_invariant(q_wpending == 0)								/* O6 */ \
	__CPROVER_loop_invariant(Q_DISCIPLINE(offset))								/* O1-O3 */ \
	__CPROVER_loop_invariant(!(q_G > q_end0 && q_G < offset) || Q_OWNERS == 1)				/* O4 */

#include "misc/e2image.c"

/* ---- contracts of the replaced callees (after the real file: they name its types) ---- */
static errcode_t initialize_qcow2_image(int fd, ext2_filsys fs, struct ext2_qcow2_image *image)
	REQUIRES(fd == q_fd && fs == q_fs && image == q_img)
	ENSURES(RET != 0 || (image->fd == fd && image->cluster_bits == q_cb && image->cluster_size == q_cs &&
			     image->l2_size == (q_cs >> 3) && image->refcount.refcount_block_offset == q_end0 && image->l1_offset < q_end0))
	ASSIGNS(*image);
static void write_header(int fd, void *hdr, int hdr_size, int wrt_size)
	REQUIRES(fd == q_fd)
	ASSIGNS();
static void free_qcow2_image(struct ext2_qcow2_image *img)
	REQUIRES(img == q_img)
	ASSIGNS();
static void flush_l2_cache(struct ext2_qcow2_image *image)
	REQUIRES(image == q_img)
	ASSIGNS();
static int sync_refcount(int fd, struct ext2_qcow2_image *img)
	REQUIRES(fd == q_fd && img == q_img)
	ENSURES(RET == 0)
	ASSIGNS();
static void scramble_dir_block(ext2_filsys fs, blk64_t blk, char *buf)
	REQUIRES(fs == q_fs && buf == q_buf)
	ASSIGNS();
static int check_zero_block(char *buf, int blocksize)
	REQUIRES(buf == q_buf && blocksize == (int)q_cs)
	ASSIGNS();

static ext2_loff_t seek_set(int fd, ext2_loff_t offset)
	REQUIRES(fd == q_fd && offset >= 0)
	ENSURES(q_pos == (unsigned long long)offset && RET == offset)
	ASSIGNS(q_pos);

/* block == NO_BLK: a table (not a block of the file system) */
static void generic_write(int fd, void *buf, int blocksize, blk64_t block)
	REQUIRES(fd == q_fd)
	/* (O6) a block goes into the cluster accounted last, after the previous block was entered into its L2 table */
	REQUIRES(block == Q_NOBLK || (buf == (void *)q_buf && (unsigned long long)blocksize == q_cs &&
				      q_wpending == 0 && q_pos + q_cs == q_expect))
	ENSURES(block == Q_NOBLK || q_pos == OLD(q_pos) + q_cs)
	ENSURES(block == Q_NOBLK ? (q_wpending == OLD(q_wpending) && q_wpos == OLD(q_wpos) && q_wblk == OLD(q_wblk))
				 : (q_wpending == 1 && q_wpos == OLD(q_pos) && q_wblk == block))
	ASSIGNS(q_pos, q_wpos, q_wblk, q_wpending);

static int update_refcount(int fd, struct ext2_qcow2_image *img, blk64_t offset, blk64_t rfblk_pos)
	REQUIRES(fd == q_fd && img == q_img)
	/* precondition of unit update_refcount: clusters are accounted in increasing order without gaps */
	REQUIRES(offset == q_expect && Q_ALIGNED(offset) && Q_ALIGNED(rfblk_pos))
	ENSURES(q_expect == OLD(q_expect) + q_cs)
	ENSURES(q_expect < Q_MAXOFF)		/* ASSUMPTION: the image file stays below 2^61 bytes */
	ENSURES(q_tabidx == (unsigned int)(offset >> (2 * q_cb - 1)))
	ENSURES(RET == (((unsigned int)(offset >> (2 * q_cb - 1)) != OLD(q_tabidx)) ? 1 : 0))
	ENSURES(q_refd == OLD(q_refd) + (offset == q_G ? 1 : 0))
	ENSURES(q_rf == OLD(q_rf) + ((RET == 1 && rfblk_pos == q_G) ? 1 : 0))
	ASSIGNS(q_expect, q_tabidx, q_refd, q_rf);

static int add_l2_item(struct ext2_qcow2_image *img, blk64_t blk, blk64_t data, blk64_t next)
	REQUIRES(img == q_img && Q_ALIGNED(data) && Q_ALIGNED(next))
	/* (O6) the L2 entry of blk names the place where blk was just written */
	REQUIRES(q_wpending == 1 && data == q_wpos && blk == q_wblk)
	ENSURES(RET == 0 || RET == 1)
	ENSURES(q_data == OLD(q_data) + (data == q_G ? 1 : 0))
	ENSURES(q_l2 == OLD(q_l2) + ((RET == 1 && next == q_G) ? 1 : 0))
	ENSURES(q_wpending == 0)
	ASSIGNS(q_data, q_l2, q_wpending);


int ext2fs_test_generic_bmap(ext2fs_generic_bitmap bitmap, __u64 arg)
{
	return bitmap == meta_block_map ? IN.test_meta : IN.test_scramble;
}
errcode_t io_channel_read_blk64(io_channel channel, unsigned long long block, int count, void *data)
{
	CHECK(data == (void *)q_buf && count == 1, "blocks are read one at a time into the block buffer");
	return IN.read_ret;
}
void com_err(const char *whoami, long code, const char *fmt, ...) { }
char *gettext(const char *msgid) { return (char *)msgid; }

static char g_meta_obj, g_scramble_obj;

void h_qcow2_blocks(void)
{
	LOAD_IN();
	ASSUME(IN.cb >= 10 && IN.cb <= 16);
	struct struct_ext2_filsys *fs = malloc(sizeof(*fs));
	struct ext2_super_block *sb = malloc(sizeof(*sb));
	q_img = malloc(sizeof(*q_img));
	q_buf = malloc(16);			/* the block buffer: no stub reads or writes its bytes */
	ASSUME(fs && sb && q_img && q_buf);
	fs->super = sb;
	fs->blocksize = 1u << IN.cb;
	fs->io = 0;
	sb->s_blocks_count = (unsigned int)IN.blocks;
	sb->s_blocks_count_hi = (unsigned int)(IN.blocks >> 32);
	sb->s_feature_incompat = 0x0080;	/* 64bit: the high half counts */
	sb->s_first_data_block = IN.first_data_block;
	meta_block_map = (ext2fs_block_bitmap)&g_meta_obj;
	scramble_block_map = IN.have_scramble ? (ext2fs_block_bitmap)&g_scramble_obj : 0;
	q_fs = fs; q_fd = IN.fd;
	q_cb = IN.cb; q_cs = 1ULL << IN.cb;
	q_G = IN.G; q_end0 = IN.end0;
	ASSUME(Q_ALIGNED(q_G) && Q_ALIGNED(q_end0) && q_end0 < (1ULL << 56));
	q_allocs = 0;
	q_data = q_l2 = q_rf = q_refd = 0;
	q_expect = 0; q_tabidx = 0;		/* init_refcount: refcount_table_index = 0, nothing accounted */
	q_pos = 0; q_wpos = 0; q_wblk = 0; q_wpending = 0;

	output_qcow2_meta_data_blocks(fs, IN.fd);

	/* the loop's exit state satisfies the invariant; after it one more cluster is accounted (the place of the last
	   refcount block, should one start there) */
	CHECK(Q_OWNERS <= 1, "at most one owner per cluster at the end of the image");
	CHECK(q_wpending == 0, "every block written is in its L2 table");
	REACH("end");
}
