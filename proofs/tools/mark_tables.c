/* VERIF-UNIT
{
 "name": "mark_table_blocks",
 "backend": "cadical",
 "props": ["C19"],
 "level": "U/iter",
 "tier": "quick",
 "tier_after_hooks": "quick",
 "harness": "h_mark_table_blocks",
 "loop_contracts": true,
 "includes": ["misc", "lib/support"],
 "unwind": 6,
 "unwindset": {"__CPROVER_contracts_write_set_check_assigns_clause_inclusion.0": 10},
 "cbmc_flags": ["--object-bits", "12"],
 "unwind_reason": "the three loops of mark_table_blocks (descriptor blocks, groups, inode-table blocks of a group) are cut by in-place loop contracts (hooks-pending/tools.diff); the bound serves the DFCC library loops (unwinding assertions on)",
 "functions": ["misc/e2image.c:mark_table_blocks"],
 "assumes": ["NEEDS the hooks in hooks-pending/tools.diff (loop contracts in mark_table_blocks)",
             "no contract enforced (1750-line TU); statement via one ARBITRARY block number (verif_g7), one arbitrary group (verif_k) and one arbitrary descriptor-block index (verif_g4): sound for 'every table block of every group'",
             "group-descriptor accessors (ext2fs_bg_flags_test, ext2fs_inode_table_loc, ext2fs_block_bitmap_loc, ext2fs_inode_bitmap_loc, ext2fs_bg_itable_unused) and ext2fs_descriptor_block_loc2 are stubs answering harness-chosen ARBITRARY values (one set for the ghost group / ghost descriptor index, other arbitrary values elsewhere, the same answer for the same group every time); ext2fs_mark_generic_bmap records marks of the ghost block",
             "block size 1024<<(0..6), inode size a power of two 128..min(block size, 32768), s_rev_level >= 1 (dynamic inode size), inode_blocks_per_group <= 2^16, inodes per group == inode_blocks_per_group * inodes per block, bg_itable_unused <= inodes per group (ext2fs_open2 / e2fsck-clean group descriptors) - otherwise `end` underflows; inode table locations below 2^63 (location + length never wraps: ext2fs_check_desc)",
             "U/iter: each loop's step is proved from an arbitrary state satisfying its (proved inductive) invariant"],
 "native": false
}
*/
/* VERIF-UNIT
{
 "name": "e2image_check_zero_block",
 "props": ["C19"],
 "level": "U",
 "tier": "quick",
 "tier_after_hooks": "quick",
 "harness": "h_check_zero_block",
 "enforce": ["check_zero_block"],
 "loop_contracts": true,
 "includes": ["misc", "lib/support"],
 "unwind": 6,
 "cbmc_flags": ["--object-bits", "12"],
 "unwind_reason": "the byte loop is closed by its in-place loop contract (with a decreases clause); the bound serves the DFCC library loops",
 "functions": ["misc/e2image.c:check_zero_block"],
 "assumes": ["NEEDS the hook in hooks-pending/tools.diff (loop contract in check_zero_block)",
             "buffer of exactly blocksize bytes, 0 <= blocksize <= 65536",
             "'some byte is non-zero' is stated through a witness index chosen by the harness (arbitrary), 'all zero' through a calloc-ed buffer"],
 "native": false
}
*/
/*
 * C19: the group-table part of "metadata block discovery: table blocks plus ...".
 *
 * Statement (ext4 on-disk format: layout of a block group, group descriptor flags), for an arbitrary block B:
 *   B is put into meta_block_map if it is
 *   - the primary superblock's block (s_first_data_block), or a primary group-descriptor block (any index below
 *     desc_blocks, location as ext2fs_descriptor_block_loc2 reports it), or the MMP block when the feature is on;
 *   - for any group g: the block bitmap unless BLOCK_UNINIT, the inode bitmap unless INODE_UNINIT, and every block of
 *     the inode table that can hold an inode in use: all of it unless INODE_UNINIT (or always when writing to a
 *     block device), minus - when group descriptors are checksummed and the output is a file - the trailing blocks
 *     that lie completely inside the bg_itable_unused tail.
 * check_zero_block: 1 iff every byte of the block is zero (never when writing to a block device).
 */
#include "verif.h"

unsigned long long verif_k;
int verif_old_bit;
unsigned long long verif_g0, verif_g1, verif_g2, verif_g3, verif_g4, verif_g5, verif_g6, verif_g7;
const unsigned char *verif_p0, *verif_p1, *verif_p2, *verif_p3;

#include "config.h"
#include "ext2fs/ext2_fs.h"

struct in_s {
	unsigned long long gb;			/* the arbitrary block */
	unsigned int k, kd;			/* arbitrary group, arbitrary descriptor-block index */
	unsigned int groups, desc_blocks, first_data_block, ipgb;
	unsigned int lbs, lg_isz;
	unsigned int feat_incompat, feat_ro;
	unsigned long long mmp_block;
	char output_is_blk;
	/* answers for the ghost group / ghost descriptor index */
	unsigned short flags_k;
	unsigned long long it_k, bb_k, ib_k, desc_kd;
	unsigned int unused_k;
	/* answers elsewhere */
	unsigned short flags_o[4];
	unsigned long long it_o[4], bb_o[4], ib_o[4], desc_o[4];
	unsigned int unused_o[4];
	/* check_zero_block */
	int blocksize, allzero;
	unsigned int w;
};
struct in_s IN;
#include "verif_in.h"

static int check_zero_block(char *buf, int blocksize);

#include "misc/e2image.c"

static int check_zero_block(char *buf, int blocksize)
	REQUIRES(blocksize >= 0 && blocksize <= 65536)
	/* 1 => the byte at the arbitrary index is zero (so: every byte) */
	ENSURES(RET == 0 || RET == 1)
	ENSURES(RET == 0 || !(verif_k < (unsigned long long)blocksize) || buf[verif_k] == 0)
	ENSURES(RET == 0 || !output_is_blk)
	ASSIGNS();

static struct struct_ext2_filsys *g_fs;
static char g_meta_obj;

/* ---- stubs: group descriptor accessors, same answer for the same group ---- */
int ext2fs_bg_flags_test(ext2_filsys fs, dgrp_t group, __u16 bg_flag)
{
	return ((group == IN.k ? IN.flags_k : IN.flags_o[group & 3]) & bg_flag) != 0;
}
blk64_t ext2fs_inode_table_loc(ext2_filsys fs, dgrp_t group)
{
	verif_g2 = (group == IN.k ? IN.it_k : IN.it_o[group & 3]);
	return verif_g2;
}
blk64_t ext2fs_block_bitmap_loc(ext2_filsys fs, dgrp_t group) { return group == IN.k ? IN.bb_k : IN.bb_o[group & 3]; }
blk64_t ext2fs_inode_bitmap_loc(ext2_filsys fs, dgrp_t group) { return group == IN.k ? IN.ib_k : IN.ib_o[group & 3]; }
__u32 ext2fs_bg_itable_unused(ext2_filsys fs, dgrp_t group) { return group == IN.k ? IN.unused_k : IN.unused_o[group & 3]; }
blk64_t ext2fs_descriptor_block_loc2(ext2_filsys fs, blk64_t group_block, dgrp_t i)
{
	__CPROVER_assert(group_block == IN.first_data_block, "CHECK:descriptor blocks of the primary superblock");
	return i == IN.kd ? IN.desc_kd : IN.desc_o[i & 3];
}
int ext2fs_mark_generic_bmap(ext2fs_generic_bitmap bitmap, __u64 arg)
{
	__CPROVER_assert((char *)bitmap == &g_meta_obj, "CHECK:marks go to meta_block_map");
	if (arg == verif_g7 && verif_g0 == 0)
		verif_g0 = 1;		/* >= 1: marked (the loop cuts only keep "never taken back") */
	return 0;
}

void h_mark_table_blocks(void)
{
	LOAD_IN();
	struct struct_ext2_filsys *fs = malloc(sizeof(*fs));
	struct ext2_super_block *sb = malloc(sizeof(*sb));
	ASSUME(fs && sb);
	ASSUME(IN.lbs <= 6 && IN.lg_isz >= 7 && IN.lg_isz <= 10 + IN.lbs && IN.lg_isz <= 15);	/* s_inode_size is 16 bits */
	ASSUME(IN.ipgb <= 65536);
	const unsigned int sh = 10 + IN.lbs - IN.lg_isz;	/* log2(inodes per block) */
	ASSUME(IN.unused_k <= ((unsigned long long)IN.ipgb << sh));
	ASSUME(IN.unused_o[0] <= ((unsigned long long)IN.ipgb << sh) && IN.unused_o[1] <= ((unsigned long long)IN.ipgb << sh) &&
	       IN.unused_o[2] <= ((unsigned long long)IN.ipgb << sh) && IN.unused_o[3] <= ((unsigned long long)IN.ipgb << sh));
	ASSUME(IN.k < IN.groups);
	/* the inode tables lie inside the file system: location + length does not wrap (ext2fs_check_desc) */
	ASSUME(IN.it_k < (1ULL << 63) && IN.it_o[0] < (1ULL << 63) && IN.it_o[1] < (1ULL << 63) && IN.it_o[2] < (1ULL << 63) && IN.it_o[3] < (1ULL << 63));
	fs->super = sb;
	fs->group_desc_count = IN.groups;
	fs->desc_blocks = IN.desc_blocks;
	fs->inode_blocks_per_group = IN.ipgb;
	fs->blocksize = 1024u << IN.lbs;
	sb->s_first_data_block = IN.first_data_block;
	sb->s_log_block_size = IN.lbs;
	sb->s_rev_level = 1;
	sb->s_inode_size = 1u << IN.lg_isz;
	sb->s_feature_incompat = IN.feat_incompat;
	sb->s_feature_ro_compat = IN.feat_ro;
	sb->s_mmp_block = IN.mmp_block;
	g_fs = fs;
	output_is_blk = IN.output_is_blk;
	meta_block_map = (ext2fs_block_bitmap)&g_meta_obj;
	meta_blocks_count = 0;

	/* ---- independent statement: must the arbitrary block be kept because of the ghost group? ---- */
	const int csum = (IN.feat_ro & (0x0010 /* GDT_CSUM */ | 0x0400 /* METADATA_CSUM */)) != 0;
	const int ino_uninit = (IN.flags_k & 0x0001) != 0, blk_uninit = (IN.flags_k & 0x0002) != 0;
	int req = 0;
	if (IN.it_k != 0 && (IN.output_is_blk || !ino_uninit) && IN.gb >= IN.it_k && IN.gb - IN.it_k < IN.ipgb) {
		unsigned long long j = IN.gb - IN.it_k;			/* index of the block inside the inode table */
		unsigned long long in_use_limit = ((unsigned long long)IN.ipgb << sh) - IN.unused_k;	/* inodes below it may be in use */
		if (!(csum && !IN.output_is_blk) || (j << sh) < in_use_limit)
			req = 1;
	}
	if (!blk_uninit && IN.bb_k != 0 && IN.gb == IN.bb_k)
		req = 1;
	if (!ino_uninit && IN.ib_k != 0 && IN.gb == IN.ib_k)
		req = 1;

	verif_k = IN.k;
	verif_g0 = 0; verif_g1 = req; verif_g2 = 0; verif_g3 = IN.desc_kd; verif_g4 = IN.kd; verif_g5 = 0; verif_g6 = 0; verif_g7 = IN.gb;

	mark_table_blocks(fs);

	CHECK(IN.gb != IN.first_data_block || verif_g0 >= 1, "the primary superblock's block is kept");
	CHECK(!(IN.kd < IN.desc_blocks && IN.gb == IN.desc_kd) || verif_g0 >= 1, "every primary group-descriptor block is kept (arbitrary index)");
	CHECK(!((IN.feat_incompat & 0x0100 /* MMP */) && IN.gb == IN.mmp_block) || verif_g0 >= 1, "the MMP block is kept when the feature is on");
	CHECK(!req || verif_g0 >= 1, "bitmaps and inode table of every group (arbitrary group, arbitrary block) are kept unless the UNINIT flags / the unused-inode tail allow skipping");
	if (req && IN.gb == IN.ib_k) REACH("inode-bitmap");
	if (req && IN.gb > IN.it_k && IN.gb - IN.it_k < IN.ipgb && csum && IN.unused_k > 0) REACH("itable-with-unused-tail");
	if (req && IN.k > 0) REACH("later-group");
	REACH("end");
}

void h_check_zero_block(void)
{
	LOAD_IN();
	ASSUME(IN.blocksize >= 0 && IN.blocksize <= 65536);
	char *buf = IN.allzero ? calloc(IN.blocksize, 1) : malloc(IN.blocksize);
	ASSUME(buf != 0);
	output_is_blk = IN.output_is_blk;
	verif_k = IN.w;
	if (!IN.allzero)
		ASSUME(IN.w < (unsigned int)IN.blocksize && buf[IN.w] != 0);	/* witness: some byte is not zero */
	int r = check_zero_block(buf, IN.blocksize);
	if (IN.allzero) {
		CHECK(r == (IN.output_is_blk ? 0 : 1), "an all-zero block is recognised (and never skipped on a block device)");
		REACH("zero");
	} else {
		CHECK(r == 0, "a block with a non-zero byte is never taken for a hole");
		REACH("nonzero");
	}
	REACH("end");
}
