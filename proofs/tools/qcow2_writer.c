/* VERIF-UNIT
{
 "name": "add_l2_item",
 "props": ["C19"],
 "level": "U",
 "tier": "quick",
 "harness": "h_add_l2_item",
 "replace": ["get_free_table"],
 "includes": ["misc", "lib/support"],
 "unwind": 6,
 "unwind_reason": "add_l2_item is loop-free; the bound serves the DFCC library loops",
 "functions": ["misc/e2image.c:add_l2_item"],
 "assumes": ["no contract enforced (1750-line TU): harness CHECKs on the real function; get_free_table is replaced by a contract that hands out an arbitrary table with its own data array and makes it the tail of the used list (units l2_cache_tables)",
             "cluster_bits 9..16 (e2image: log2 of the block size, 10..16), l2_size == cluster_size / 8; blk / l2_size < l1_size <= 4096 (initialize_qcow2_image sizes the L1 table from the block count; the cap is the harness's object size) - in particular the L1 index fits the 32-bit l1_index field",
             "little-endian host (ext2fs_cpu_to_be64 swaps)"],
 "native": false
}
*/
/* VERIF-UNIT
{
 "name": "update_refcount",
 "props": ["C19"],
 "level": "U",
 "tier": "quick",
 "harness": "h_update_refcount",
 "replace": ["seek_set", "generic_write"],
 "includes": ["misc", "lib/support"],
 "unwind": 6,
 "cbmc_flags": ["--object-bits", "12"],
 "unwind_reason": "update_refcount is loop-free; the bound serves the DFCC library loops",
 "functions": ["misc/e2image.c:update_refcount"],
 "assumes": ["no contract enforced: harness CHECKs on the real function; seek_set / generic_write are replaced by recording contracts (they exit on I/O errors)",
             "cluster_bits 9..16; clusters are accounted in increasing order without gaps (the call sites advance the offset by one cluster per call): before the call for cluster c the image's refcount state describes clusters 0..c-1 - refcount_table_index == (c-1) >> (cluster_bits-1) (0 for c == 0) and refcount_block_index == c - (refcount_table_index << (cluster_bits-1)); the offset is cluster aligned and below 2^(2*cluster_bits-1) * 2^32 (the table index is 32 bits)",
             "refcount_table has more than refcount_table_index entries (init_refcount's sizing), refcount_block is one cluster",
             "little-endian host"],
 "native": false
}
*/
/*
 * C19 "converting a qcow2 image back to raw equals the directly produced raw image" - writer half.
 *
 * qcow2 format (QEMU docs/interop/qcow2.txt): cluster_size = 1 << cluster_bits; an L2 table is one cluster of
 * 8-byte big-endian entries (l2_size = cluster_size / 8); guest cluster number n is described by
 * L2 entry (n % l2_size) of the L2 table whose offset is L1 entry (n / l2_size); bit 63 (COPIED) marks refcount 1.
 * Refcounts: 16-bit big-endian entries, refcount block = one cluster = cluster_size / 2 entries; the refcount of host
 * cluster c is entry (c % (cluster_size/2)) of the refcount block whose offset is refcount-table entry
 * (c / (cluster_size/2)).
 * e2image writes block blk of the file system as guest cluster blk (cluster_size == block size).
 *
 * add_l2_item(img, blk, data, next): afterwards the L2 table at the tail of the used list is the one for L1 index
 * blk / l2_size, its entry blk % l2_size is data|COPIED big-endian, no other entry of it changed; a table is taken from
 * the cache iff the tail was not already that table: then it gets the cache's next_offset, the L1 entry is that
 * offset|COPIED big-endian, next_offset becomes `next`, and 1 is returned.
 * update_refcount(fd, img, offset, rfblk_pos) for host cluster c = offset >> cluster_bits: the current refcount block
 * becomes block c / (cluster_size/2); its entry c % (cluster_size/2) is 1 big-endian; when the block changes the old
 * one is written out at its offset, entered in the refcount table big-endian, and the new (zeroed) one lives at
 * rfblk_pos; 1 is returned exactly then; the entry index never leaves the block.
 */
#include "verif.h"
#include "config.h"
#include "parsers_spec_le.h"

unsigned long long verif_k;
int verif_old_bit;
unsigned long long verif_g0, verif_g1, verif_g2, verif_g3, verif_g4, verif_g5, verif_g6, verif_g7;
const unsigned char *verif_p0, *verif_p1, *verif_p2, *verif_p3;

struct in_s {
	unsigned int cb;			/* cluster_bits */
	unsigned long long blk, data, next;
	unsigned int l1_size;
	int have_tail;
	unsigned int tail_l1_index;
	unsigned long long tail_offset, next_offset, new_offset_old;
	unsigned int k;				/* ghost L2 entry index */
	/* update_refcount */
	unsigned long long c, rfblk_pos, old_block_offset;
	unsigned int table_entries;
	int fd;
};
struct in_s IN;
#include "verif_in.h"

#include "misc/e2image.c"

#define SPEC_COPIED (1ULL << 63)

static struct ext2_qcow2_l2_table *g_new_table;
static unsigned int g_get_calls;

static void get_free_table(struct ext2_qcow2_image *image, struct ext2_qcow2_l2_table **l2_table)
	/* (__CPROVER_pointer_equals: a plain == on a havocked pointer leaves it undereferenceable for CBMC) */
	ENSURES(__CPROVER_pointer_equals(*l2_table, g_new_table) && __CPROVER_pointer_equals(image->l2_cache->used_tail, g_new_table))
	ENSURES(g_get_calls == OLD(g_get_calls) + 1)
	ASSIGNS(*l2_table, image->l2_cache->used_tail, image->l2_cache->used_head, image->l2_cache->free_head, image->l2_cache->free, g_get_calls);

/* recording contracts for the two I/O helpers of update_refcount */
static unsigned int g_seeks, g_writes;
static long long g_seek_to;
static void *g_write_buf;
static int g_write_len;
static unsigned int g_write_after_seek;
static unsigned char g_written_byte_k;	/* byte k of the buffer at the time of the write */

static ext2_loff_t seek_set(int fd, ext2_loff_t offset)
	REQUIRES(fd == IN.fd)
	ENSURES(g_seeks == OLD(g_seeks) + 1 && g_seek_to == offset && RET == offset)
	ASSIGNS(g_seeks, g_seek_to);
static void generic_write(int fd, void *buf, int blocksize, blk64_t block)
	REQUIRES(fd == IN.fd && g_seeks == 1)
	ENSURES(g_writes == OLD(g_writes) + 1 && g_write_buf == buf && g_write_len == blocksize &&
		g_written_byte_k == ((unsigned char *)buf)[IN.k & 511])
	ASSIGNS(g_writes, g_write_buf, g_write_len, g_written_byte_k);

void h_add_l2_item(void)
{
	LOAD_IN();
	ASSUME(IN.cb >= 9 && IN.cb <= 16);
	const unsigned int l2_size = 1u << (IN.cb - 3);
	/* independent statement of the position: guest cluster blk -> (L1 index, L2 index) */
	const unsigned long long L1 = IN.blk >> (IN.cb - 3);
	const unsigned long long L2 = IN.blk - (L1 << (IN.cb - 3));
	ASSUME(IN.l1_size >= 1 && IN.l1_size <= 4096 && L1 < IN.l1_size);

	struct ext2_qcow2_image *img = malloc(sizeof(*img));
	struct ext2_qcow2_l2_cache *cache = malloc(sizeof(*cache));
	struct ext2_qcow2_l2_table *tail = malloc(sizeof(*tail));
	struct ext2_qcow2_l2_table *fresh = malloc(sizeof(*fresh));
	ASSUME(img && cache && tail && fresh);
	img->cluster_bits = IN.cb;
	img->cluster_size = 1u << IN.cb;
	img->l2_size = l2_size;
	img->l1_size = IN.l1_size;
	img->l1_table = malloc((size_t)IN.l1_size * 8);
	img->l2_cache = cache;
	tail->data = malloc((size_t)l2_size * 8);
	fresh->data = malloc((size_t)l2_size * 8);
	ASSUME(img->l1_table && tail->data && fresh->data);
	tail->l1_index = IN.tail_l1_index; tail->offset = IN.tail_offset; tail->next = 0;
	fresh->l1_index = 0; fresh->offset = IN.new_offset_old; fresh->next = 0;
	cache->used_tail = IN.have_tail ? tail : 0;
	cache->used_head = cache->used_tail;
	cache->free_head = fresh;
	cache->free = 1; cache->count = 2;
	cache->next_offset = IN.next_offset;
	g_new_table = fresh; g_get_calls = 0;
	const unsigned int k = IN.k & (l2_size - 1);
	const __u64 old_tail_k = tail->data[k], old_fresh_k = fresh->data[k];
	const __u64 old_l1_k = img->l1_table[IN.k % IN.l1_size];

	int r = add_l2_item(img, IN.blk, IN.data, IN.next);

	struct ext2_qcow2_l2_table *t = cache->used_tail;
	const int same = IN.have_tail && IN.tail_l1_index == L1;
	CHECK(r == (same ? 0 : 1) && g_get_calls == (same ? 0u : 1u), "a table is taken from the cache iff the current one is not the table of this L1 index");
	CHECK(t == (same ? tail : fresh), "the table written is the tail of the used list");
	CHECK(t->l1_index == L1, "it is the table of L1 index blk / l2_size");
	CHECK(PSPEC_BE64(&t->data[L2], 0) == (IN.data | SPEC_COPIED), "L2 entry blk % l2_size holds the data offset with the COPIED bit, big-endian");
	CHECK(k == L2 || t->data[k] == (same ? old_tail_k : old_fresh_k), "no other entry of the table changes (arbitrary entry k)");
	if (same) {
		CHECK(t->offset == IN.tail_offset && cache->next_offset == IN.next_offset, "same table: its place in the file and the next free place stay");
		CHECK(img->l1_table[IN.k % IN.l1_size] == old_l1_k, "same table: the L1 table is not touched");
		REACH("same-table");
	} else {
		CHECK(t->offset == IN.next_offset && cache->next_offset == IN.next, "new table: placed at the cache's next offset; the following one goes to `next`");
		CHECK(PSPEC_BE64(&img->l1_table[L1], 0) == (IN.next_offset | SPEC_COPIED), "new table: L1 entry blk / l2_size points to it (COPIED bit, big-endian)");
		CHECK((IN.k % IN.l1_size) == L1 || img->l1_table[IN.k % IN.l1_size] == old_l1_k, "new table: no other L1 entry changes");
		CHECK(!IN.have_tail || (tail->data[k] == old_tail_k && tail->offset == IN.tail_offset && tail->l1_index == IN.tail_l1_index), "new table: the previous table is left as it is");
		REACH("new-table");
	}
	if (IN.blk >= (1ULL << 20)) REACH("big-blk");
	REACH("end");
}

void h_update_refcount(void)
{
	LOAD_IN();
	ASSUME(IN.cb >= 9 && IN.cb <= 16);
	const unsigned int cap_bits = IN.cb - 1;			/* log2(entries per refcount block) */
	const unsigned long long cap = 1ULL << cap_bits;
	/* host cluster c; format position: block c / cap, entry c % cap */
	const unsigned long long c = IN.c;
	ASSUME(c < (1ULL << 32) * cap);				/* the table index is 32 bits */
	const unsigned long long blk_new = c >> cap_bits, ent = c - (blk_new << cap_bits);
	const unsigned long long blk_old = c == 0 ? 0 : (c - 1) >> cap_bits;
	ASSUME(IN.table_entries >= 1 && IN.table_entries <= 1024 && blk_old < IN.table_entries);

	struct ext2_qcow2_image *img = malloc(sizeof(*img));
	ASSUME(img != 0);
	img->cluster_bits = IN.cb;
	img->cluster_size = 1u << IN.cb;
	struct ext2_qcow2_refcount *ref = &img->refcount;
	ref->refcount_table = malloc((size_t)IN.table_entries * 8);
	ref->refcount_block = malloc((size_t)1 << IN.cb);
	ASSUME(ref->refcount_table && ref->refcount_block);
	ref->refcount_table_index = blk_old;
	ref->refcount_block_index = c - (blk_old << cap_bits);	/* clusters of the current block accounted so far (may equal cap) */
	ref->refcount_block_offset = IN.old_block_offset;
	g_seeks = g_writes = 0; g_write_buf = 0; g_write_len = 0; g_seek_to = -1;
	const unsigned int k = IN.k & 511;				/* ghost byte of the refcount block (first 512 bytes) */
	const unsigned int ke = IN.k & (cap - 1);			/* ghost entry */
	const unsigned char old_byte_k = ((unsigned char *)ref->refcount_block)[k];
	const __u16 old_ent_ke = ref->refcount_block[ke];
	const __u64 old_tab_k = ref->refcount_table[IN.k % IN.table_entries];

	int r = update_refcount(IN.fd, img, c << IN.cb, IN.rfblk_pos);

	const int sw = blk_new != blk_old;
	CHECK(r == (sw ? 1 : 0), "1 exactly when the cluster is the first of another refcount block");
	CHECK(ref->refcount_table_index == blk_new, "the current refcount block is block c / (cluster_size/2)");
	CHECK(PSPEC_BE16(&ref->refcount_block[ent], 0) == 1, "entry c % (cluster_size/2) is 1, big-endian");
	CHECK(ref->refcount_block_index == ent + 1 && ref->refcount_block_index <= cap, "the running index is one past that entry and never leaves the block");
	if (sw) {
		CHECK(ent == 0, "blocks switch exactly at block boundaries");
		CHECK(g_seeks == 1 && g_seek_to == (long long)IN.old_block_offset && g_writes == 1 && g_write_buf == (void *)ref->refcount_block && g_write_len == (int)(1u << IN.cb),
		      "the full old block is written at its own offset");
		CHECK(g_written_byte_k == old_byte_k, "... with its contents (arbitrary byte k), before it is cleared");
		CHECK(PSPEC_BE64(&ref->refcount_table[blk_old], 0) == IN.old_block_offset, "the refcount table entry of the old block is its offset, big-endian");
		CHECK((IN.k % IN.table_entries) == blk_old || ref->refcount_table[IN.k % IN.table_entries] == old_tab_k, "no other table entry changes");
		CHECK(ref->refcount_block_offset == IN.rfblk_pos, "the new block will live at rfblk_pos");
		CHECK(ke == 0 || ref->refcount_block[ke] == 0, "the new block starts zeroed (arbitrary entry)");
		REACH("switch");
	} else {
		CHECK(g_seeks == 0 && g_writes == 0 && ref->refcount_block_offset == IN.old_block_offset, "same block: nothing written, block stays where it is");
		CHECK(ke == ent || ref->refcount_block[ke] == old_ent_ke, "same block: no other entry changes");
		CHECK(ref->refcount_table[IN.k % IN.table_entries] == old_tab_k, "same block: the table is not touched");
		REACH("same-block");
	}
	REACH("end");
}
