/* VERIF-UNIT
{
 "name": "l2_cache_tables",
 "props": ["C19"],
 "level": "B(3)",
 "tier": "quick",
 "harness": "h_l2_cache",
 "includes": ["misc", "lib/support"],
 "unwind": 5,
 "unwind_reason": "get_free_table / put_used_table are loop-free; the harness drives a cache of 3 tables through at most 3 gets and 3 puts and walks lists of at most 3 nodes (its own loops, bound 3 + exit test); B(3): a bounded stand-in for the list shape, the counter statements hold for every count",
 "functions": ["misc/e2image.c:get_free_table", "misc/e2image.c:put_used_table"],
 "assumes": ["bounded scenario, NOT counted as proved for arbitrary cache sizes: a cache of 3 tables in the state init_l2_cache leaves it in, then n <= 3 calls of get_free_table (never on an exhausted cache: that path runs flush_l2_cache and its I/O), then m <= n calls of put_used_table in the way flush_l2_cache issues them",
             "cluster size 512 (64 entries per table) - only the memset length depends on it",
             "OBSERVATION, not checked because it does not hold: get_free_table leaves the `next` link of the moved table pointing into the free list, so used_head/used_tail are only meaningful through the counters (the first count-free nodes from used_head); after a flush of a partially used cache used_head and used_tail are stale. e2image only flushes a full cache or at the very end, where this is harmless"],
 "native": false
}
*/
/*
 * C19, qcow2 writer: the cache of L2 tables.  A table handed out by get_free_table is filled by add_l2_item and
 * written to the image by flush_l2_cache, which returns tables with put_used_table oldest first.
 * Statement (count-based view: used tables = the first count - free nodes from used_head):
 *   get: returns the head of the free list, which becomes the newest used table (used_tail); free decreases by one;
 *        the remaining free list is the old one without its head; the older used tables keep their order;
 *   put: takes the OLDEST used table (so tables are flushed in the order they were created = increasing file offset),
 *        clears its entries, makes it the head of the free list, free increases by one and the caller is handed the
 *        next oldest used table; when the last table of a fully used cache is returned both used pointers are NULL.
 */
#include "verif.h"
#include "config.h"

unsigned long long verif_k;
int verif_old_bit;
unsigned long long verif_g0, verif_g1, verif_g2, verif_g3, verif_g4, verif_g5, verif_g6, verif_g7;
const unsigned char *verif_p0, *verif_p1, *verif_p2, *verif_p3;

struct in_s {
	unsigned int n_get, n_put, k;
};
struct in_s IN;
#include "verif_in.h"

#include "misc/e2image.c"

#define NT 3
#define CS 512

void h_l2_cache(void)
{
	LOAD_IN();
	ASSUME(IN.n_get <= NT && IN.n_put <= IN.n_get);
	struct ext2_qcow2_image *img = malloc(sizeof(*img));
	struct ext2_qcow2_l2_cache *cache = malloc(sizeof(*cache));
	ASSUME(img && cache);
	struct ext2_qcow2_l2_table *t[NT], *got[NT];
	unsigned int i, j;
	img->cluster_size = CS; img->cluster_bits = 9; img->l2_size = CS / 8;
	img->l2_cache = cache;
	/* the state init_l2_cache produces */
	cache->used_head = cache->used_tail = cache->free_head = 0;
	cache->count = cache->free = NT;
	for (i = 0; i < NT; i++) {
		t[i] = malloc(sizeof(*t[i]));
		ASSUME(t[i] != 0);
		t[i]->data = malloc(CS);		/* arbitrary contents */
		ASSUME(t[i]->data != 0);
		t[i]->next = cache->free_head;
		cache->free_head = t[i];
	}
	/* free list now: t[2] -> t[1] -> t[0] -> NULL */

	for (i = 0; i < NT; i++) {
		if (i >= IN.n_get)
			break;
		struct ext2_qcow2_l2_table *expect = cache->free_head, *rest = expect->next, *ret = 0;
		get_free_table(img, &ret);
		got[i] = ret;
		CHECK(ret == expect && ret == t[NT - 1 - i], "get: hands out the head of the free list");
		CHECK(cache->used_tail == ret, "get: it is the newest used table");
		CHECK(cache->free == NT - 1 - i && cache->count == NT, "get: one table less is free");
		CHECK(cache->free_head == rest, "get: the free list loses exactly its head");
		CHECK(cache->used_head == got[0], "get: the oldest used table stays the oldest");
		CHECK(i == 0 || got[i - 1]->next == ret, "get: the previous newest table is followed by the new one");
	}
	/* the first n_get nodes from used_head are the tables handed out, in that order */
	{
		struct ext2_qcow2_l2_table *p = cache->used_head;
		for (j = 0; j < NT; j++) {
			if (j >= IN.n_get)
				break;
			CHECK(p == got[j], "used list: creation order");
			p = p->next;
		}
		/* free list: exactly `free` nodes, then NULL */
		p = cache->free_head;
		for (j = 0; j < NT; j++) {
			if (j >= cache->free)
				break;
			CHECK(p != 0, "free list: as long as the counter says");
			p = p->next;
		}
		CHECK(p == 0, "free list: ends after `free` nodes");
	}
	if (IN.n_get == NT) REACH("cache-full");

	for (i = 0; i < NT; i++) {
		if (i >= IN.n_put)
			break;
		struct ext2_qcow2_l2_table *ret = 0, *old_free = cache->free_head;
		put_used_table(img, &ret);
		CHECK(cache->free_head == got[i], "put: the OLDEST used table goes back (tables leave in creation order)");
		CHECK(got[i]->next == old_free, "put: ... to the head of the free list");
		CHECK(((unsigned char *)got[i]->data)[IN.k % CS] == 0, "put: its entries are cleared (arbitrary byte)");
		CHECK(cache->free == NT - IN.n_get + i + 1 && cache->count == NT, "put: one more table is free");
		if (i + 1 < IN.n_get)
			CHECK(ret == got[i + 1] && cache->used_head == got[i + 1], "put: the caller continues with the next oldest used table");
	}
	if (IN.n_get == NT && IN.n_put == NT) {
		CHECK(cache->used_head == 0 && cache->used_tail == 0 && cache->free == cache->count, "a fully used cache that is flushed completely is empty again");
		REACH("full-cycle");
	}
	REACH("end");
}
