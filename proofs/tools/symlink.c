/* VERIF-UNIT
{
 "name": "ext2fs_symlink",
 "props": ["C18"],
 "level": "P",
 "tier": "quick",
 "harness": "h_symlink",
 "sources": ["lib/ext2fs/blknum.c", "lib/ext2fs/i_block.c"],
 "unwind": 6,
 "unwindset": {"strcpy.0": 62, "strlen.0": 6, "ext2fs_inline_data_set.0": 17},
 "unwind_reason": "ext2fs_symlink has no loop; strcpy into i_block is the unit's own byte loop, bounded by the code's own fast-link condition (target_len < sizeof(i_block) == 60, so at most 60 bytes incl. NUL: unwinding assertion on - a longer copy is a violation); strlen(name) runs over the 3-character link name the harness passes; the inline-data stub copies the 15 i_block words; the rest serves the DFCC library loops",
 "functions": ["lib/ext2fs/symlink.c:ext2fs_symlink"],
 "assumes": ["no contract is ENFORCED on ext2fs_symlink (no frame obligations); harness CHECKs + ghost monitor in the callee stubs",
             "the target is a C string of ARBITRARY length 0..70000 (> the largest block size) with arbitrary non-NUL bytes; libc string functions are replaced by their contracts: strnlen (knows the ghost length), strncpy and memset of the block buffer pointwise at the arbitrary ghost index k, strcpy as a byte loop",
             "callee stubs with harness-chosen results (0 or an error): ext2fs_new_block2, ext2fs_new_inode, ext2fs_write_new_inode, ext2fs_write_inode, ext2fs_read_inode, ext2fs_inline_data_set, ext2fs_bmap2, io_channel_write_blk64, ext2fs_lookup, ext2fs_link; ext2fs_find_inode_goal returns an arbitrary goal; the alloc_stats functions only count",
             "ext2fs_inline_data_set's stub rewrites the stored inode's i_block/i_size arbitrarily (what it really stores is property C11/C09 territory); ext2fs_inode_size_set and ext2fs_iblk_set are the REAL functions (blknum.c, i_block.c)",
             "block size a power of two 1024..65536, cluster ratio 1..2^16 (bigalloc), features inline_data / extents / huge_file arbitrary; ino == 0 (allocate) or a caller-supplied inode number; the link name is the fixed 3-character name \"lnk\" or NULL"],
 "native": false
}
*/
/*
 * C18 "symlink targets ... for every tree shape (long/short symlinks) and feature configuration": where
 * ext2fs_symlink (used by mke2fs -d and debugfs symlink through do_symlink_internal) stores the target.
 *
 * On-disk format (kernel Documentation/filesystems/ext4 "Symbolic Links", fs/ext4/namei.c ext4_symlink,
 * ext4_inode_is_fast_symlink): the target of a symlink is stored in i_block itself when it is shorter than
 * sizeof(i_block) == 60 bytes ("fast" symlink: no data block, i_blocks == 0), otherwise in the first data block
 * (or as inline data); i_size is the length of the target without the NUL; a target must be shorter than a block.
 *
 * Statement checked on the real function, for target length L = strlen(target), block size B:
 *   L >= B                  -> EXT2_ET_INVALID_ARGUMENT, nothing allocated or written;
 *   success, L < 60         -> the inode written has i_size == L, i_block bytes 0..L == target bytes incl. NUL (ghost k),
 *                              rest of i_block zero, i_blocks == 0, neither EXTENTS_FL nor INLINE_DATA_FL; no block is
 *                              allocated, mapped, written or accounted;
 *   success, L >= 60, slow  -> exactly one block: obtained from ext2fs_new_block2, mapped at logical block 0 with
 *                              BMAP_SET after the inode was written, written with byte k == (k < L ? target[k] : 0),
 *                              accounted +1; i_size == L, i_blocks == one cluster in 512-byte units, EXTENTS_FL iff
 *                              the extents feature;
 *   success, L >= 60, inline-> inode written with INLINE_DATA_FL, ext2fs_inline_data_set(buffer, L), the inode
 *                              read back is written unchanged; no block mapped/written/accounted; if
 *                              ext2fs_inline_data_set fails the slow form is used instead;
 *   inode mode S_IFLNK|0777, one link, inode accounted +1 exactly once, linked under `name` with EXT2_FT_SYMLINK
 *   after a failed lookup; any failure after the accounting takes both counts back.
 */
#include "verif.h"
#include "config.h"
#include <stdio.h>
#include <string.h>
#include <stdlib.h>
#include <errno.h>
#include "ext2_fs.h"
#include "ext2fs.h"

struct in_s {
	unsigned int len;		/* strlen(target) */
	unsigned int k;			/* ghost byte index */
	unsigned int lg, crb;
	unsigned int feat_incompat, feat_ro;
	unsigned int ino_arg, parent, new_ino;
	int have_name;
	unsigned long long goal, new_blk;
	long r_new_block, r_new_inode, r_wni, r_wi, r_ri, r_ids, r_bmap, r_io, r_lookup, r_link;
	__u32 inl_iblock[EXT2_N_BLOCKS];
	__u32 inl_size;
};
struct in_s IN;
#include "verif_in.h"

unsigned long long verif_k;

static char *g_target;
static unsigned int g_len;
static unsigned int g_k;
static struct struct_ext2_filsys *g_fs;
static struct struct_io_channel g_io;
static char *g_block_buf;		/* the block buffer as seen by strncpy */

/* ghost monitor */
static struct ext2_inode G_INODE;	/* the inode as stored */
static struct ext2_inode G_READ;	/* what ext2fs_read_inode handed out */
static unsigned int g_seq;		/* event counter */
static unsigned int g_new_block, g_new_inode, g_wni, g_wi, g_ri, g_ids, g_bmap, g_io_w, g_lookup, g_link;
static unsigned int s_wni, s_wi, s_bmap, s_io_w, s_blk_stat, s_ino_stat, s_link, s_ids;	/* sequence stamps */
static int g_blk_count, g_ino_count;	/* net accounting */
static unsigned int g_blk_stat_calls, g_ino_stat_calls;
static ext2_ino_t g_ino;		/* inode number in use */
static unsigned int g_wni_flags;	/* i_flags of the inode given to ext2fs_write_new_inode */
static int g_bad;			/* a stub saw an argument it must not see */
static unsigned char g_io_byte_k;	/* byte k of the data block written */

#define EXPECT(c) do { if (!(c)) g_bad = 1; } while (0)

/* ---- libc by contract ---- */
size_t strnlen(const char *s, size_t maxlen)
{
	EXPECT(s == g_target);
	return g_len < maxlen ? g_len : maxlen;
}
char *strncpy(char *dst, const char *src, size_t n)
{
	EXPECT(src == g_target);
	g_block_buf = dst;
	if (g_k < n)
		dst[g_k] = (g_k <= g_len) ? src[g_k] : 0;	/* pointwise at the ghost index: copy up to the NUL, pad with NULs */
	return dst;
}
char *strcpy(char *dst, const char *src)
{
	unsigned int i;
	EXPECT(src == g_target);
	for (i = 0; i <= g_len; i++)
		dst[i] = src[i];
	return dst;
}
void *memset(void *s, int c, size_t n)
{
	if (n == sizeof(struct ext2_inode)) {
		static const struct ext2_inode zero_inode;
		EXPECT(c == 0);
		*(struct ext2_inode *)s = zero_inode;
	} else if (g_k < n)
		((char *)s)[g_k] = c;	/* pointwise at the ghost index */
	return s;
}

/* ---- library callees ---- */
blk64_t ext2fs_find_inode_goal(ext2_filsys fs, ext2_ino_t ino, struct ext2_inode *inode, blk64_t lblk) { return IN.goal; }
errcode_t ext2fs_new_block2(ext2_filsys fs, blk64_t goal, ext2fs_block_bitmap map, blk64_t *ret)
{
	g_new_block++; g_seq++;
	if (IN.r_new_block) return IN.r_new_block;
	*ret = IN.new_blk;
	return 0;
}
errcode_t ext2fs_new_inode(ext2_filsys fs, ext2_ino_t dir, int mode, ext2fs_inode_bitmap map, ext2_ino_t *ret)
{
	g_new_inode++; g_seq++;
	EXPECT(dir == IN.parent && LINUX_S_ISLNK(mode));
	if (IN.r_new_inode) return IN.r_new_inode;
	*ret = g_ino = IN.new_ino;
	return 0;
}
errcode_t ext2fs_write_new_inode(ext2_filsys fs, ext2_ino_t ino, struct ext2_inode *inode)
{
	g_wni++; s_wni = ++g_seq;
	EXPECT(ino == g_ino);
	g_wni_flags = inode->i_flags;
	if (IN.r_wni) return IN.r_wni;
	G_INODE = *inode;
	return 0;
}
errcode_t ext2fs_write_inode(ext2_filsys fs, ext2_ino_t ino, struct ext2_inode *inode)
{
	g_wi++; s_wi = ++g_seq;
	EXPECT(ino == g_ino);
	if (IN.r_wi) return IN.r_wi;
	G_INODE = *inode;
	return 0;
}
errcode_t ext2fs_read_inode(ext2_filsys fs, ext2_ino_t ino, struct ext2_inode *inode)
{
	g_ri++; g_seq++;
	EXPECT(ino == g_ino);
	if (IN.r_ri) return IN.r_ri;
	*inode = G_INODE;
	G_READ = G_INODE;
	return 0;
}
errcode_t ext2fs_inline_data_set(ext2_filsys fs, ext2_ino_t ino, struct ext2_inode *inode, void *buf, size_t size)
{
	int i;
	g_ids++; s_ids = ++g_seq;
	EXPECT(ino == g_ino && size == g_len && buf == (void *)g_block_buf);
	EXPECT(g_wni == 1 && (G_INODE.i_flags & EXT4_INLINE_DATA_FL));	/* works on the stored inode, which must carry the flag */
	EXPECT(g_k >= g_len || ((char *)buf)[g_k] == g_target[g_k]);	/* the data handed over is the target */
	if (IN.r_ids) return IN.r_ids;
	for (i = 0; i < EXT2_N_BLOCKS; i++)
		G_INODE.i_block[i] = IN.inl_iblock[i];
	G_INODE.i_size = IN.inl_size;
	return 0;
}
errcode_t ext2fs_bmap2(ext2_filsys fs, ext2_ino_t ino, struct ext2_inode *inode, char *block_buf, int bmap_flags,
		       blk64_t block, int *ret_flags, blk64_t *phys_blk)
{
	g_bmap++; s_bmap = ++g_seq;
	EXPECT(ino == g_ino && bmap_flags == BMAP_SET && block == 0 && phys_blk && *phys_blk == IN.new_blk);
	return IN.r_bmap;
}
errcode_t io_channel_write_blk64(io_channel channel, unsigned long long block, int count, const void *data)
{
	g_io_w++; s_io_w = ++g_seq;
	EXPECT(channel == &g_io && block == IN.new_blk && count == 1 && data == (const void *)g_block_buf);
	if (g_k < g_fs->blocksize)
		g_io_byte_k = ((const unsigned char *)data)[g_k];
	return IN.r_io;
}
void ext2fs_block_alloc_stats2(ext2_filsys fs, blk64_t blk, int inuse)
{
	g_blk_stat_calls++; s_blk_stat = ++g_seq;
	EXPECT(blk == IN.new_blk && (inuse == 1 || inuse == -1));
	g_blk_count += inuse;
}
void ext2fs_inode_alloc_stats2(ext2_filsys fs, ext2_ino_t ino, int inuse, int isdir)
{
	g_ino_stat_calls++; s_ino_stat = ++g_seq;
	EXPECT(ino == g_ino && isdir == 0 && (inuse == 1 || inuse == -1));
	g_ino_count += inuse;
}
errcode_t ext2fs_lookup(ext2_filsys fs, ext2_ino_t dir, const char *name, int namelen, char *buf, ext2_ino_t *inode)
{
	g_lookup++; g_seq++;
	EXPECT(dir == IN.parent && namelen == 3);
	return IN.r_lookup;
}
errcode_t ext2fs_link(ext2_filsys fs, ext2_ino_t dir, const char *name, ext2_ino_t ino, int flags)
{
	g_link++; s_link = ++g_seq;
	EXPECT(dir == IN.parent && ino == g_ino && flags == EXT2_FT_SYMLINK);
	return IN.r_link;
}

#include "lib/ext2fs/symlink.c"

void h_symlink(void)
{
	LOAD_IN();
	struct struct_ext2_filsys *fs = malloc(sizeof(*fs));
	struct ext2_super_block *sb = malloc(sizeof(*sb));
	ASSUME(fs && sb);
	ASSUME(IN.lg >= 10 && IN.lg <= 16 && IN.crb <= 16);
	ASSUME(IN.len <= 70000);
	fs->magic = EXT2_ET_MAGIC_EXT2FS_FILSYS;
	fs->super = sb;
	fs->io = &g_io;
	fs->blocksize = 1u << IN.lg;
	fs->cluster_ratio_bits = IN.crb;
	sb->s_feature_incompat = IN.feat_incompat;
	sb->s_feature_ro_compat = IN.feat_ro;
	sb->s_feature_compat = 0;
	g_fs = fs;
	g_target = malloc((size_t)IN.len + 1);
	ASSUME(g_target != 0);
	g_len = IN.len; g_k = IN.k;
	ASSUME(g_target[g_len] == 0);
	ASSUME(g_k >= g_len || g_target[g_k] != 0);	/* strlen(target) == len, stated at the ghost index */
	g_block_buf = 0;
	g_seq = g_new_block = g_new_inode = g_wni = g_wi = g_ri = g_ids = g_bmap = g_io_w = g_lookup = g_link = 0;
	s_wni = s_wi = s_bmap = s_io_w = s_blk_stat = s_ino_stat = s_link = s_ids = 0;
	g_blk_count = g_ino_count = 0; g_blk_stat_calls = g_ino_stat_calls = 0; g_bad = 0; g_wni_flags = 0;
	g_ino = IN.ino_arg;
	ASSUME(IN.new_ino != 0);
	const unsigned int B = 1u << IN.lg;
	const int f_inline = (IN.feat_incompat & EXT4_FEATURE_INCOMPAT_INLINE_DATA) != 0;
	const int f_extents = (IN.feat_incompat & EXT3_FEATURE_INCOMPAT_EXTENTS) != 0;

	errcode_t r = ext2fs_symlink(fs, IN.parent, IN.ino_arg, IN.have_name ? "lnk" : (const char *)0, g_target);

	CHECK(!g_bad, "every callee was given the arguments of this symlink (inode, parent, block, buffer, target)");
	CHECK(g_blk_count >= 0 && g_blk_count <= 1 && g_ino_count >= 0 && g_ino_count <= 1, "accounting never goes negative or double");
	if (IN.len >= B) {
		CHECK(r == EXT2_ET_INVALID_ARGUMENT, "a target that does not fit a block with its NUL is refused");
		CHECK(g_seq == 0, "refused: nothing allocated, written or accounted");
		REACH("too-long");
		return;
	}
	if (r != 0) {
		CHECK(g_blk_count == 0 && g_ino_count == 0, "failure: block and inode accounting are taken back");
		if (g_ino_stat_calls == 2) REACH("rolled-back");
		REACH("failed");
		return;
	}
	/* ---- success ---- */
	const struct ext2_inode *ino = &G_INODE;
	const int fast = IN.len < 60;				/* format: sizeof(i_block) == 15 * 4 */
	const int inl = !fast && f_inline && g_ids == 1 && IN.r_ids == 0;
	CHECK(g_new_inode == (IN.ino_arg == 0 ? 1u : 0u), "an inode is allocated iff the caller did not supply one");
	CHECK(g_ino_count == 1 && g_ino_stat_calls == 1, "the inode is accounted exactly once");
	/* (when ext2fs_inline_data_set refuses, the inode is written a second time without the inline flag) */
	CHECK(g_wni == ((!fast && f_inline && IN.r_ids != 0) ? 2u : 1u) && s_wni < s_ino_stat, "the new inode is written by write_new_inode before it is accounted");
	CHECK(LINUX_S_ISLNK(ino->i_mode) && (ino->i_mode & 07777) == 0777 && ino->i_links_count == 1, "a symlink inode, mode 0777, one link");
	if (IN.have_name) {
		CHECK(g_lookup == 1 && g_link == 1 && s_link > s_ino_stat && IN.r_lookup == EXT2_ET_FILE_NOT_FOUND, "linked under the name (once, as EXT2_FT_SYMLINK, after the inode exists) only if the name was free");
		REACH("named");
	} else
		CHECK(g_lookup == 0 && g_link == 0, "no name: no directory entry");
	if (!inl) {
		CHECK(ino->i_size == IN.len && ino->i_size_high == 0, "i_size == strlen(target)");
		CHECK(g_wi == 0 && g_ri == 0, "fast/slow: the inode is written exactly once");
	}
	if (fast) {
		unsigned int k = IN.k;
		const unsigned char *ib = (const unsigned char *)ino->i_block;
		CHECK(k >= 60 || ib[k] == (k < IN.len ? (unsigned char)g_target[k] : 0), "fast: i_block holds the target, NUL-padded (arbitrary byte k)");
		CHECK(ino->i_blocks == 0 && ino->osd2.linux2.l_i_blocks_hi == 0, "fast: no blocks charged");
		CHECK((ino->i_flags & (EXT4_EXTENTS_FL | EXT4_INLINE_DATA_FL)) == 0, "fast: i_block is data, not an extent tree or inline-data area");
		CHECK(g_new_block == 0 && g_bmap == 0 && g_io_w == 0 && g_blk_stat_calls == 0 && g_ids == 0, "fast: no block allocated, mapped, written or accounted");
		if (IN.len == 59) REACH("fast-59");
		if (IN.len == 0) REACH("fast-empty");
	} else if (inl) {
		CHECK((g_wni_flags & EXT4_INLINE_DATA_FL) != 0 && s_ids > s_wni, "inline: inode stored with INLINE_DATA_FL before the data is attached");
		CHECK(g_ri == 1 && g_wi == 1 && s_wi > s_ids, "inline: inode read back after ext2fs_inline_data_set and written once more");
		CHECK(ino->i_size == G_READ.i_size && ino->i_flags == G_READ.i_flags && ino->i_block[IN.k % EXT2_N_BLOCKS] == G_READ.i_block[IN.k % EXT2_N_BLOCKS] &&
		      ino->i_blocks == G_READ.i_blocks && ino->i_mode == G_READ.i_mode, "inline: what ext2fs_inline_data_set stored is written back unchanged");
		CHECK(g_bmap == 0 && g_io_w == 0 && g_blk_stat_calls == 0, "inline: no block mapped, written or accounted");
		REACH("inline");
	} else {
		unsigned int k = IN.k;
		CHECK(g_new_block == 1 && g_bmap == 1 && g_io_w == 1 && g_blk_stat_calls == 1 && g_blk_count == 1, "slow: exactly one block allocated, mapped at logical 0, written and accounted");
		CHECK(s_wni < s_bmap && s_bmap < s_io_w && s_io_w < s_blk_stat, "slow: inode first (generation), then mapping, data, accounting");
		CHECK(k >= B || g_io_byte_k == (k < IN.len ? (unsigned char)g_target[k] : 0), "slow: the data block holds the target, NUL-padded to the block (arbitrary byte k)");
		CHECK((((unsigned long long)ino->osd2.linux2.l_i_blocks_hi << 32) | ino->i_blocks) == ((unsigned long long)(B >> 9) << IN.crb), "slow: i_blocks is one cluster in 512-byte units");
		CHECK(((ino->i_flags & EXT4_EXTENTS_FL) != 0) == f_extents && (ino->i_flags & EXT4_INLINE_DATA_FL) == 0, "slow: extent-mapped iff the feature is on, not inline");
		CHECK(ino->i_block[IN.k % EXT2_N_BLOCKS] == 0, "slow: i_block is left for the block mapper (no target bytes in it)");
		if (f_inline) REACH("slow-after-inline-failed");
		if (IN.len == 60) REACH("slow-60");
	}
	REACH("end");
}
