/* VERIF-UNIT
{
 "name": "fix_perms",
 "props": ["C18"],
 "level": "P",
 "tier": "quick",
 "harness": "h_fix_perms",
 "includes": ["debugfs", "lib/ss"],
 "unwind": 11,
 "static_keep": ["mode_table"],
 "unwind_reason": "fix_perms is loop-free; mode_xlate (real) walks the constant 9-entry mode_table + terminator, unwinding assertions on",
 "functions": ["debugfs/dump.c:fix_perms", "debugfs/dump.c:mode_xlate"],
 "assumes": ["no contract enforced; fchmod/chmod/fchown/chown/utime are recording stubs with harness-chosen results (0 or -1), com_err a no-op",
             "mode_table keeps its initialiser (static_keep; nothing in dump.c writes it); Linux host: S_I* are the POSIX octal values, uid_t/gid_t 32 bits"],
 "native": false
}
*/
/* VERIF-UNIT
{
 "name": "dump_file",
 "props": ["C18"],
 "level": "U/iter",
 "tier": "quick",
 "tier_after_hooks": "quick",
 "harness": "h_dump_file",
 "loop_contracts": true,
 "replace": ["fix_perms"],
 "includes": ["debugfs", "lib/ss"],
 "unwind": 6,
 "unwindset": {"__CPROVER_contracts_write_set_check_assigns_clause_inclusion.0": 12},
 "unwind_reason": "the read/write loop of dump_file is cut by its in-place loop contract (hooks-pending/tools.diff); the bound serves the DFCC library loops only (unwinding assertions on)",
 "functions": ["debugfs/dump.c:dump_file"],
 "assumes": ["NEEDS the hook in hooks-pending/tools.diff (loop contract on the while(1) loop of dump_file)",
             "no contract enforced on dump_file; fix_perms is replaced by a counting contract whose precondition pins its arguments (what it does: unit fix_perms)",
             "debugfs_read_inode, ext2fs_file_open, ext2fs_file_read, ext2fs_file_close, write(2) are stubs: the read delivers an ARBITRARY count 0..blocksize and may report an error at the same time; write returns an arbitrary value (a short or failed write is only reported through com_err by the code and NOT retried - the statement is about what is handed to write)",
             "block size a power of two 1024..65536; buffer contents are not modelled (the same buffer that ext2fs_file_read filled is handed to write, with the count read)",
             "U/iter: statement proved for an iteration starting in an arbitrary state satisfying the proved invariant (nothing pending, bytes handed to write == bytes read)"],
 "native": false
}
*/
/*
 * C18, extraction: "Extracting with debugfs rdump/dump/cat returns, for every regular file ... the same bytes,
 * lengths, ... read/write/execute permission bits and owners."
 *
 * fix_perms (dump -p, rdump): the host file gets
 *   mode  = the nine rwx bits of i_mode and nothing else (chmod on the descriptor if there is one, else on the name),
 *   owner = the full 32-bit uid/gid: low 16 bits i_uid/i_gid, high 16 bits l_i_uid_high/l_i_gid_high (ext4 inode),
 *   times = i_atime / i_mtime (whole seconds),
 *   each exactly once, in that order, whatever the earlier ones returned.
 * dump_file: every chunk ext2fs_file_read delivers (count got > 0) is handed to write(fd, same buffer, got) before
 *   the next read; the loop ends only when a read delivers 0 bytes; then the file is closed once and, iff -p was given,
 *   fix_perms(inode as read, fd, outname) is called once.
 */
#include "verif.h"

unsigned long long verif_k;
int verif_old_bit;
unsigned long long verif_g0, verif_g1, verif_g2, verif_g3, verif_g4, verif_g5, verif_g6, verif_g7;
const unsigned char *verif_p0, *verif_p1, *verif_p2, *verif_p3;

struct in_s {
	unsigned short i_mode, i_uid, i_gid, uid_high, gid_high;
	unsigned int i_atime, i_mtime;
	int fd, r_chmod, r_chown, r_utime;
	/* dump_file */
	unsigned int lg, ino;
	int preserve, r_read_inode;
	long r_open, r_close;
	long rd_err[8];
	unsigned int rd_got[8];
	long wr_ret[8];
};
struct in_s IN;
#include "verif_in.h"

#include <sys/types.h>
#include <sys/stat.h>
#include <utime.h>
#include <unistd.h>

/* recording stubs for the host calls of fix_perms */
static unsigned int g_seq, g_bad;
static unsigned int s_chmod, s_chown, s_utime;
static unsigned int n_chmod, n_fchmod, n_chown, n_fchown, n_utime;
static mode_t g_mode;
static uid_t g_uid;
static gid_t g_gid;
static long g_atime, g_mtime;
static const char *g_name_seen;
static int g_fd_seen;
static const char g_outname[] = "out";

#define EXPECT(c) do { if (!(c)) g_bad = 1; } while (0)

int fchmod(int fd, mode_t mode) { n_fchmod++; s_chmod = ++g_seq; g_mode = mode; g_fd_seen = fd; return IN.r_chmod; }
int chmod(const char *path, mode_t mode) { n_chmod++; s_chmod = ++g_seq; g_mode = mode; g_name_seen = path; return IN.r_chmod; }
int fchown(int fd, uid_t owner, gid_t group) { n_fchown++; s_chown = ++g_seq; g_uid = owner; g_gid = group; EXPECT(fd == g_fd_seen); return IN.r_chown; }
int chown(const char *path, uid_t owner, gid_t group) { n_chown++; s_chown = ++g_seq; g_uid = owner; g_gid = group; EXPECT(path == g_name_seen); return IN.r_chown; }
int utime(const char *path, const struct utimbuf *t) { n_utime++; s_utime = ++g_seq; g_atime = t->actime; g_mtime = t->modtime; EXPECT(path == g_outname); return IN.r_utime; }
void com_err(const char *whoami, long code, const char *fmt, ...) { }

/* ---- dump_file environment ---- */
struct ext2_inode;
static char g_file_obj;
static char *g_buf;
static unsigned int g_opens, g_closes, g_fix, g_read_inodes;
static unsigned int g_bs;
static int g_out_fd;
static const struct ext2_inode *g_inode_ptr;	/* dump_file's inode buffer */

#include "debugfs/dump.c"

ext2_filsys current_fs;

static void fix_perms(const char *cmd, const struct ext2_inode *inode, int fd, const char *name)
	REQUIRES(inode == g_inode_ptr && fd == g_out_fd && name == g_outname && g_closes == 1)
	ENSURES(g_fix == OLD(g_fix) + 1)
	ASSIGNS(g_fix);

#define DRAW(arr) (IN.arr[verif_g5 & 7])

int debugfs_read_inode(ext2_ino_t ino, struct ext2_inode *inode, const char *cmd)
{
	g_read_inodes++;
	EXPECT(ino == IN.ino && g_opens == 0);
	g_inode_ptr = inode;
	return IN.r_read_inode;
}
errcode_t ext2fs_file_open(ext2_filsys fs, ext2_ino_t ino, int flags, ext2_file_t *ret)
{
	g_opens++;
	EXPECT(fs == current_fs && ino == IN.ino && flags == 0);	/* read-only: extraction never modifies the image */
	if (IN.r_open) return IN.r_open;
	*ret = (ext2_file_t)&g_file_obj;
	return 0;
}
errcode_t ext2fs_file_read(ext2_file_t file, void *buf, unsigned int wanted, unsigned int *got)
{
	long e = DRAW(rd_err);
	unsigned int n = DRAW(rd_got);
	verif_g5++;
	CHECK((char *)file == &g_file_obj && wanted == g_bs, "read: one block from the opened file");
	CHECK(verif_g0 == 0, "read: only after the previous chunk was handed to write");
	ASSUME(n <= wanted);
	verif_p0 = (const unsigned char *)buf;
	*got = n;
	verif_g1 = n;
	verif_g2 += n;
	if (n > 0)
		verif_g0 = 1;
	return e;
}
ssize_t write(int fd, const void *buf, size_t count)
{
	long r = DRAW(wr_ret);
	verif_g5++;
	CHECK(fd == g_out_fd, "write: to the output descriptor");
	CHECK(verif_g0 == 1 && buf == (const void *)verif_p0 && count == verif_g1, "write: the chunk just read - same buffer, exactly the count read");
	verif_g3 += count;
	verif_g0 = 0;
	return r;
}
errcode_t ext2fs_file_close(ext2_file_t file)
{
	g_closes++;
	EXPECT((char *)file == &g_file_obj);
	return IN.r_close;
}

void h_fix_perms(void)
{
	LOAD_IN();
	struct ext2_inode *inode = malloc(sizeof(*inode));
	ASSUME(inode != 0);
	ASSUME(IN.r_chmod >= -1 && IN.r_chmod <= 0 && IN.r_chown >= -1 && IN.r_chown <= 0 && IN.r_utime >= -1 && IN.r_utime <= 0);
	inode->i_mode = IN.i_mode;
	inode->i_uid = IN.i_uid; inode->i_gid = IN.i_gid;
	inode->osd2.linux2.l_i_uid_high = IN.uid_high; inode->osd2.linux2.l_i_gid_high = IN.gid_high;
	inode->i_atime = IN.i_atime; inode->i_mtime = IN.i_mtime;
	g_seq = g_bad = 0; s_chmod = s_chown = s_utime = 0;
	n_chmod = n_fchmod = n_chown = n_fchown = n_utime = 0;
	g_name_seen = g_outname; g_fd_seen = IN.fd;

	fix_perms("t", inode, IN.fd, g_outname);

	CHECK(!g_bad, "host calls name the output file / its descriptor");
	if (IN.fd != -1) {
		CHECK(n_fchmod == 1 && n_chmod == 0 && n_fchown == 1 && n_chown == 0 && g_fd_seen == IN.fd, "with a descriptor: fchmod and fchown on it, once each");
		REACH("by-fd");
	} else {
		CHECK(n_chmod == 1 && n_fchmod == 0 && n_chown == 1 && n_fchown == 0 && g_name_seen == g_outname, "without a descriptor: chmod and chown on the name, once each");
		REACH("by-name");
	}
	CHECK(n_utime == 1 && s_chmod < s_chown && s_chown < s_utime, "mode, owner, times: each once, in this order, regardless of earlier failures");
	CHECK(g_mode == (mode_t)(IN.i_mode & 0777), "mode: exactly the nine rwx bits of i_mode");
	CHECK(g_uid == (((unsigned int)IN.uid_high << 16) | IN.i_uid) && g_gid == (((unsigned int)IN.gid_high << 16) | IN.i_gid), "owner: the full 32-bit uid and gid");
	CHECK(g_atime == (long)IN.i_atime && g_mtime == (long)IN.i_mtime, "times: i_atime / i_mtime seconds (unsigned 32 bits, no sign extension)");
	if (IN.uid_high) REACH("uid-high");
	REACH("end");
}

void h_dump_file(void)
{
	LOAD_IN();
	struct struct_ext2_filsys *fs = malloc(sizeof(*fs));
	ASSUME(fs != 0);
	ASSUME(IN.lg >= 10 && IN.lg <= 16);
	fs->blocksize = g_bs = 1u << IN.lg;
	current_fs = fs;
	g_out_fd = IN.fd;
	g_opens = g_closes = g_fix = g_read_inodes = g_bad = 0;
	g_inode_ptr = 0;
	verif_g0 = verif_g1 = verif_g2 = verif_g3 = verif_g4 = verif_g5 = verif_g6 = verif_g7 = 0;
	verif_p0 = 0;

	dump_file("t", IN.ino, IN.fd, IN.preserve, (char *)g_outname);

	CHECK(!g_bad, "callees get this inode / this file system / the opened file");
	CHECK(g_read_inodes == 1, "the inode is read once");
	if (IN.r_read_inode || IN.r_open) {
		CHECK(verif_g2 == 0 && verif_g3 == 0 && g_fix == 0 && g_closes == 0, "inode or open failure: nothing is read, written or chmod-ed");
		REACH("open-failed");
		return;
	}
	/* (a failed buffer allocation returns as well; then nothing was read either) */
	if (g_closes == 1) {
		CHECK(verif_g0 == 0 && verif_g1 == 0, "the copy ends only when a read delivers 0 bytes, with nothing pending");
		CHECK(verif_g3 == verif_g2, "every byte read was handed to write");
		CHECK(g_fix == ((IN.preserve && IN.r_close == 0) ? 1u : 0u), "permissions/owner/times are fixed iff -p was given (and the file closed cleanly), after the data");
		if (g_fix) REACH("preserved");
		REACH("dumped");
	} else {
		CHECK(g_closes == 0 && verif_g2 == 0 && g_fix == 0, "not closed: only when the buffer could not be allocated, before any read");
	}
	REACH("end");
}
