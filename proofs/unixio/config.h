/*
 * Shadows the generated lib/config.h for the unixio units only (this directory precedes the repository on the include
 * path).  With -DCFG_NO_PTHREAD the real unix_io.c is verified in its configuration without POSIX threads
 * (HAVE_PTHREAD undefined, as when configure finds no pthread library): struct unix_private_data then carries no mutexes,
 * which is what keeps CBMC's field-sensitive symbolic execution of writes through `struct unix_cache *` tractable.
 * The units assume IO_FLAG_THREADS clear anyway (schedules are outside the technique, DESIGN §C17), and with that flag
 * clear mutex_lock()/mutex_unlock() are no-ops in either configuration.
 */
#include_next "config.h"
#ifdef CFG_NO_PTHREAD
#undef HAVE_PTHREAD
#endif
