/*
 * The remaining operations of the unix I/O manager (lib/ext2fs/unix_io.c) against the single-cell coherence abstraction
 * of cache_common.h: unix_flush, unix_write_byte, unix_zeroout, unix_discard, unix_set_option("cache"), unix_set_blksize,
 * unix_close.  flush_cached_blocks is REPLACED by the contract that unit unixio/flush_cached_blocks enforces; the system
 * calls are stubs that move the one ghost device byte (g_addr = g_bstar*block_size + g_ostar + data->offset) and record
 * the ORDER of events (fsync / close after the last device write).
 */
/* VERIF-UNIT
{
 "name": "unix_flush",
 "props": ["C17", "C04"],
 "level": "U",
 "tier": "quick",
 "harness": "h_flush_sync",
 "enforce": ["unix_flush"],
 "replace": ["flush_cached_blocks"],
 "unwind": 40,
 "unwindset": {"build_channel.0": 9},
 "unwind_reason": "only the harness loop that builds the 8 cache entries and the DFCC library loops over assigns targets are unwound; unix_flush is loop-free",
 "defines": ["CFG_BS=16", "CFG_NO_PTHREAD"],
 "functions": ["lib/ext2fs/unix_io.c:unix_flush"],
 "assumes": ["no write_error handler installed", "IO_FLAG_THREADS clear; built without HAVE_PTHREAD", "a failing fsync sets errno to a non-zero value (POSIX)"],
 "backend": "cadical",
 "timeout": 300,
 "native": false
}
*/
/* VERIF-UNIT
{
 "name": "unix_write_byte",
 "props": ["C17"],
 "level": "U",
 "tier": "quick",
 "harness": "h_write_byte",
 "enforce": ["unix_write_byte"],
 "replace": ["flush_cached_blocks"],
 "unwind": 40,
 "unwindset": {"build_channel.0": 9},
 "unwind_reason": "only the harness loop that builds the 8 cache entries and the DFCC library loops are unwound; unix_write_byte is loop-free",
 "defines": ["CFG_BS=1024", "CFG_NO_PTHREAD"],
 "functions": ["lib/ext2fs/unix_io.c:unix_write_byte"],
 "assumes": ["no write_error handler installed", "IO_FLAG_THREADS clear; built without HAVE_PTHREAD", "block size 1024 (only used to place the ghost byte)", "0 <= size <= 4096, offset + data->offset below 2^62", "failing system calls set errno to a non-zero value"],
 "backend": "cadical",
 "timeout": 300,
 "native": false
}
*/
/* VERIF-UNIT
{
 "name": "unix_zeroout",
 "props": ["C17"],
 "level": "U",
 "tier": "quick",
 "harness": "h_zeroout",
 "enforce": ["unix_zeroout"],
 "replace": ["flush_cached_blocks"],
 "unwind": 40,
 "unwindset": {"build_channel.0": 9},
 "unwind_reason": "only the harness loop that builds the 8 cache entries and the DFCC library loops are unwound; unix_zeroout is loop-free",
 "defines": ["CFG_BS=1024", "CFG_NO_PTHREAD"],
 "functions": ["lib/ext2fs/unix_io.c:unix_zeroout", "lib/ext2fs/unix_io.c:__unix_zeroout"],
 "assumes": ["no write_error handler installed", "IO_FLAG_THREADS clear; built without HAVE_PTHREAD", "block size 1024", "block + count below 2^46", "a successful fallocate(ZERO_RANGE / PUNCH_HOLE) makes the range read as zeroes, a failing one changes nothing"],
 "backend": "cadical",
 "timeout": 300,
 "native": false
}
*/
/* VERIF-UNIT
{
 "name": "unix_discard",
 "props": ["C17"],
 "level": "U",
 "tier": "quick",
 "harness": "h_discard",
 "enforce": ["unix_discard"],
 "unwind": 40,
 "unwindset": {"build_channel.0": 9},
 "unwind_reason": "only the harness loop that builds the 8 cache entries and the DFCC library loops are unwound; unix_discard is loop-free",
 "defines": ["CFG_BS=1024", "CFG_NO_PTHREAD"],
 "functions": ["lib/ext2fs/unix_io.c:unix_discard"],
 "assumes": ["IO_FLAG_THREADS clear; built without HAVE_PTHREAD", "block size 1024", "block + count below 2^46", "the content of a discarded range is unspecified (callers discard free space only): nothing is claimed for a range that covers L*"],
 "backend": "cadical",
 "timeout": 300,
 "native": false
}
*/
/* VERIF-UNIT
{
 "name": "unix_set_option_cache",
 "props": ["C17"],
 "level": "U",
 "tier": "quick",
 "harness": "h_set_option",
 "enforce": ["unix_set_option"],
 "replace": ["flush_cached_blocks"],
 "unwind": 40,
 "unwindset": {"build_channel.0": 9},
 "unwind_reason": "only the harness loop that builds the 8 cache entries, strcmp on the two short constant option strings and the DFCC library loops are unwound",
 "defines": ["CFG_BS=16", "CFG_NO_PTHREAD"],
 "functions": ["lib/ext2fs/unix_io.c:unix_set_option"],
 "assumes": ["no write_error handler installed", "IO_FLAG_THREADS clear; built without HAVE_PTHREAD", "options \"cache=on\" and \"cache=off\" only (\"offset=\" is parsed by strtoull and is not part of this unit)", "WIP BECAUSE OF A GENUINE DEFECT of the pinned tree: postcondition.2 fails (cache=off leaves entries valid), findings/C17_nocache_stale; passes with its proposed-fix.patch"],
 "backend": "cadical",
 "timeout": 300,
 "native": false
}
*/
/* VERIF-UNIT
{
 "name": "unix_set_blksize",
 "props": ["C17"],
 "level": "U/k",
 "tier": "quick",
 "harness": "h_set_blksize",
 "enforce": ["unix_set_blksize"],
 "replace": ["flush_cached_blocks"],
 "sources": ["lib/ext2fs/io_manager.c"],
 "unwind": 40,
 "unwindset": {"build_channel.0": 9, "free_cache.0": 9, "alloc_cache.0": 9},
 "unwind_reason": "CACHE_SIZE is the constant 8 (free_cache, alloc_cache); unwinding assertions on",
 "defines": ["CFG_NO_PTHREAD", "CFG_HEAP"],
 "functions": ["lib/ext2fs/unix_io.c:unix_set_blksize", "lib/ext2fs/unix_io.c:free_cache", "lib/ext2fs/unix_io.c:alloc_cache"],
 "assumes": ["no write_error handler installed", "IO_FLAG_THREADS clear; built without HAVE_PTHREAD", "no O_DIRECT alignment (channel->align == 0), IO_FLAG_FORCE_BOUNCE clear", "1 <= old and new block size <= 65536"],
 "backend": "cadical",
 "timeout": 300,
 "native": false
}
*/
/* VERIF-UNIT
{
 "name": "unix_close",
 "props": ["C17", "C04"],
 "level": "U/k",
 "tier": "thorough",
 "harness": "h_close",
 "enforce": ["unix_close"],
 "replace": ["flush_cached_blocks"],
 "unwind": 40,
 "unwindset": {"build_channel.0": 9, "free_cache.0": 9},
 "unwind_reason": "CACHE_SIZE is the constant 8 (free_cache); unwinding assertions on",
 "defines": ["CFG_NO_PTHREAD", "CFG_HEAP"],
 "functions": ["lib/ext2fs/unix_io.c:unix_close", "lib/ext2fs/unix_io.c:free_cache"],
 "assumes": ["no write_error handler installed", "IO_FLAG_THREADS clear; built without HAVE_PTHREAD", "a failing close sets errno to a non-zero value"],
 "backend": "cadical",
 "timeout": 300,
 "native": false
}
*/
/*
 * ioctl() is variadic, and DFCC cannot thread its write set through a variadic call: the libc name is re-bound to a
 * three-argument stub for the real file (the headers that declare ioctl are included first, so only calls are affected).
 */
/* the feature-test macros of unix_io.c, which must precede the first system header */
#define _XOPEN_SOURCE 600
#define _DARWIN_C_SOURCE
#define _LARGEFILE_SOURCE
#define _LARGEFILE64_SOURCE
#define _GNU_SOURCE
#include <sys/ioctl.h>
int verif_ioctl(int fd, unsigned long req, void *arg);
#define ioctl(fd, req, arg) verif_ioctl((fd), (req), (void *)(arg))
#define IN_EXTRA long long pos; unsigned long boff; int bsize; int newbs; int refcount; unsigned char file_is_short, optsel;
#include "cache_common.h"

#define PD(ch) ((struct unix_private_data *)(ch)->private_data)

/* ---- the device as seen by these operations (one struct = one DFCC assigns target) ---- */
struct sys_model {
	long long pos;			/* file position */
	int err;			/* errno */
	unsigned int nfsync, nclose, ndevwrite, nfalloc, nioctl;
	int fsync_ok;			/* fsync returned 0 ... */
	int fsync_saw_durable;		/* ... and when it was called nothing was dirty and the device held the current byte */
	int close_saw_durable;
	int zero_done;			/* a range covering L* has been zeroed */
	unsigned long long fa_off, fa_len; int fa_mode;
	unsigned long long ioctl_range[2];
} GS;
#define g_pos GS.pos
#define g_errno GS.err
#define g_nfsync GS.nfsync
#define g_nclose GS.nclose
#define g_ndevwrite GS.ndevwrite
#define g_nfalloc GS.nfalloc
#define g_nioctl GS.nioctl
#define g_fsync_ok GS.fsync_ok
#define g_fsync_saw_durable GS.fsync_saw_durable
#define g_close_saw_durable GS.close_saw_durable
#define g_zero_done GS.zero_done
#define g_fa_off GS.fa_off
#define g_fa_len GS.fa_len
#define g_fa_mode GS.fa_mode
#define g_ioctl_range GS.ioctl_range
unsigned long long g_addr;	/* byte address of L* on the device */
struct unix_private_data *g_data;	/* the private data, for the event recorders (still valid when they run) */

int *__errno_location(void) { return &g_errno; }
int nondet_int(void);
long nondet_long(void);

static int fail_with_errno(void)
{
	g_errno = nondet_int();
	ASSUME(g_errno > 0);
	return -1;
}

#define ADDR_IN(lo, hi) ((long long)g_addr >= (long long)(lo) && (long long)g_addr < (long long)(hi))
static int durable_now(void)
{
	struct unix_private_data *data = g_data;
	return !any_dirty(data) && g_disk == g_logical;
}

int fsync(int fd)
{
	g_nfsync++;
	g_fsync_saw_durable = durable_now();
	if (nondet_int()) { g_fsync_ok = 0; return fail_with_errno(); }
	g_fsync_ok = 1;
	return 0;
}

int close(int fd)
{
	g_nclose++;
	g_close_saw_durable = durable_now();
	if (nondet_int()) return fail_with_errno();
	return 0;
}

off_t lseek(int fd, off_t off, int whence)
{
	if (nondet_int()) return fail_with_errno();
	g_pos = off;
	return off;
}

ssize_t write(int fd, const void *buf, size_t n)
{
	long r = nondet_long();
	g_ndevwrite++;
	ASSUME(r >= -1 && (unsigned long)(r < 0 ? 0 : r) <= n);
	if (r < 0) return fail_with_errno();
	if (r > 0 && ADDR_IN(g_pos, g_pos + r))
		g_disk = ((const unsigned char *)buf)[(long long)g_addr - g_pos];
	g_pos += r;
	return r;
}

int fstat(int fd, struct stat *st)
{
	if (nondet_int()) return fail_with_errno();
	st->st_size = nondet_long();
	ASSUME(st->st_size >= 0);
	st->st_mode = S_IFREG;
	return 0;
}

int ftruncate(int fd, off_t len)	/* only ever used to EXTEND the file: no byte below the old size changes */
{
	if (nondet_int()) return fail_with_errno();
	return 0;
}

int fallocate(int fd, int mode, off_t off, off_t len)
{
	g_nfalloc++; g_fa_mode = mode; g_fa_off = off; g_fa_len = len;
	if (nondet_int()) {
		g_errno = nondet_int();		/* EOPNOTSUPP or anything else */
		ASSUME(g_errno > 0);
		return -1;
	}
	if (ADDR_IN(off, off + len)) {
		g_disk = 0;
		g_zero_done = 1;
	}
	return 0;
}

int verif_ioctl(int fd, unsigned long req, void *arg)
{
	g_nioctl++;
	if (req == BLKDISCARD) {
		unsigned long long *r = arg;
		g_ioctl_range[0] = r[0]; g_ioctl_range[1] = r[1];
	}
	if (nondet_int()) {
		g_errno = nondet_int();
		ASSUME(g_errno > 0);
		return -1;
	}
	return 0;
}

#ifdef CFG_HEAP
/* lib/ext2fs/inline.c; only reachable with an O_DIRECT alignment, which these units exclude */
errcode_t ext2fs_get_memalign(unsigned long size, unsigned long align, void *ptr)
{
	void *p = malloc(size);
	if (!p) return EXT2_ET_NO_MEMORY;
	*(void **)ptr = p;
	return 0;
}
#endif

#define CHAN_BASICS(ch) ((ch)->magic == EXT2_ET_MAGIC_IO_CHANNEL && PD(ch)->magic == EXT2_ET_MAGIC_UNIX_IO_CHANNEL && \
	!(PD(ch)->flags & IO_FLAG_THREADS) && (ch)->write_error == 0 && g_data == PD(ch) && cache_range_ok(ch, PD(ch)))
#define FLUSH_FRAME(ch) ALL_ENTRY_BITS_OF(PD(ch)), PD(ch)->io_stats.bytes_written, (ch)->align, g_disk, g_nwrites, g_wfail
#define EB(d, i) (d)->cache[i].dirty, (d)->cache[i].in_use, (d)->cache[i].write_err
#define ALL_ENTRY_BITS_OF(d) EB(d, 0), EB(d, 1), EB(d, 2), EB(d, 3), EB(d, 4), EB(d, 5), EB(d, 6), EB(d, 7)
#define SYS_FRAME GS

/*
 * C17 "durable on flush" / C04 "replayed blocks are flushed and the device synced before recovery returns":
 * unix_flush returning 0 means no dirty entry remains, the device holds the most recently written byte at L* (L* is
 * arbitrary: every dirty block went to raw_write_blk), and fsync was called AFTER that and returned 0.
 */
static errcode_t unix_flush(io_channel channel)
	REQUIRES(CHAN_BASICS(channel) && coherent(PD(channel)) && g_wfail == 0 && g_nfsync == 0)
	ENSURES(coherent(PD(channel)))
	ENSURES(RET != 0 || (!any_dirty(PD(channel)) && g_disk == g_logical))
	ENSURES(RET != 0 || (g_nfsync == 1 && g_fsync_ok && g_fsync_saw_durable))
	ENSURES(!g_wfail || RET != 0)
	ASSIGNS(FLUSH_FRAME(channel), SYS_FRAME);

/*
 * Byte-granular write: bypasses the cache, so the cache is written back and emptied first.  Success => the device holds
 * the caller's byte at L* when [offset, offset+size) covers it and no cache entry can serve stale data.
 */
static errcode_t unix_write_byte(io_channel channel, unsigned long offset, int size, const void *buf)
	REQUIRES(CHAN_BASICS(channel) && coherent(PD(channel)) && g_wfail == 0)
	REQUIRES(size >= 0 && size <= 4096 && offset < (1UL << 61))
	REQUIRES(g_covered == ADDR_IN(offset + PD(channel)->offset, offset + PD(channel)->offset + size) &&
		 (!g_covered || g_new == ((const unsigned char *)buf)[(long long)g_addr - (long long)(offset + PD(channel)->offset)]))
	ENSURES(RET != 0 || coherent_l(PD(channel), g_covered ? g_new : g_logical))
	ENSURES(RET != 0 || !g_covered || g_disk == g_new)
	/* once the device has been touched no entry is left that could be stale */
	ENSURES(g_ndevwrite == 0 ? coherent(PD(channel)) : !any_inuse(PD(channel)))
	ENSURES(!g_wfail || RET != 0)
	ASSIGNS(FLUSH_FRAME(channel), SYS_FRAME);

/* zeroing a block range bypasses the cache as well */
static errcode_t unix_zeroout(io_channel channel, unsigned long long block, unsigned long long count)
	REQUIRES(CHAN_BASICS(channel) && coherent(PD(channel)) && g_wfail == 0 && g_zero_done == 0)
	REQUIRES(block < BLK_MAX && count <= BLK_MAX)
	REQUIRES(g_covered == (g_bstar >= block && g_bstar - block < count))
	ENSURES(RET != 0 || coherent_l(PD(channel), g_covered ? 0 : g_logical))
	ENSURES(RET != 0 || !g_covered || g_disk == 0)
	ENSURES(g_zero_done ? !any_inuse(PD(channel)) : coherent(PD(channel)))
	ENSURES(!g_zero_done || g_covered)
	ENSURES(!g_wfail || RET != 0)
	ASSIGNS(FLUSH_FRAME(channel), SYS_FRAME, channel->flags);

/* discard: byte range handed to the kernel; the cache is untouched, L* outside the range stays coherent */
static errcode_t unix_discard(io_channel channel, unsigned long long block, unsigned long long count)
	REQUIRES(CHAN_BASICS(channel) && coherent(PD(channel)))
	REQUIRES(block < BLK_MAX && count <= BLK_MAX)
	REQUIRES(g_covered == (g_bstar >= block && g_bstar - block < count))
	ENSURES(g_covered || coherent(PD(channel)))
	ENSURES(RET != 0 || (channel->flags & CHANNEL_FLAGS_BLOCK_DEVICE) == 0 ||
		(g_nioctl == 1 && g_ioctl_range[0] == block * channel->block_size + (unsigned long long)PD(channel)->offset &&
		 g_ioctl_range[1] == count * channel->block_size))
	ENSURES(RET != 0 || (channel->flags & CHANNEL_FLAGS_BLOCK_DEVICE) != 0 ||
		(g_nfalloc == 1 && g_fa_off == block * channel->block_size + (unsigned long long)PD(channel)->offset &&
		 g_fa_len == count * channel->block_size))
	ASSIGNS(SYS_FRAME, g_disk, channel->flags);

/*
 * "cache=off" / "cache=on".  Between calls: IO_FLAG_NOCACHE set => no entry in use (reads and writes bypass the cache
 * while it is off, so an entry left valid would be stale when the cache is switched on again).
 */
static errcode_t unix_set_option(io_channel channel, const char *option, const char *arg)
	REQUIRES(CHAN_BASICS(channel) && coherent(PD(channel)) && g_wfail == 0)
	REQUIRES(!(PD(channel)->flags & IO_FLAG_NOCACHE) || !any_inuse(PD(channel)))
	ENSURES(coherent(PD(channel)))
	ENSURES(!(PD(channel)->flags & IO_FLAG_NOCACHE) || !any_inuse(PD(channel)))
	ENSURES(!g_wfail || RET != 0)
	ASSIGNS(FLUSH_FRAME(channel), PD(channel)->flags, PD(channel)->offset);

/*
 * Changing the block size: everything dirty reaches the device first; on success the cache is empty (the ghost location
 * (block, byte) is tied to the OLD geometry, so "device == most recently written, nothing cached" is the statement that
 * carries over to any location of the new geometry); on a flush error nothing changes.
 */
static errcode_t unix_set_blksize(io_channel channel, int blksize)
	REQUIRES(CHAN_BASICS(channel) && coherent(PD(channel)) && g_wfail == 0)
	REQUIRES(blksize >= 1 && blksize <= 65536 && channel->align == 0 && !(PD(channel)->flags & IO_FLAG_FORCE_BOUNCE))
	ENSURES(!g_wfail || RET != 0)
	ENSURES(channel->block_size == OLD(channel->block_size) ? coherent(PD(channel)) :
		(channel->block_size == blksize && !any_inuse(PD(channel)) && g_disk == g_logical))
	ENSURES(RET != 0 || channel->block_size == blksize)
	ASSIGNS(__CPROVER_object_whole(channel->private_data), channel->block_size, channel->align, g_disk, g_nwrites, g_wfail, SYS_FRAME)
	__CPROVER_frees(g_cbuf[0], g_cbuf[1], g_cbuf[2], g_cbuf[3], g_cbuf[4], g_cbuf[5], g_cbuf[6], g_cbuf[7]);

/* close: the last reference writes everything back before the descriptor is closed; errors are reported */
static errcode_t unix_close(io_channel channel)
	REQUIRES(CHAN_BASICS(channel) && coherent(PD(channel)) && g_wfail == 0 && g_nclose == 0 && channel->refcount >= 1)
	ENSURES(!g_wfail || RET != 0)
	ENSURES(OLD(channel->refcount) > 1 ? g_nclose == 0 : g_nclose == 1)
	ENSURES(RET != 0 || g_nclose == 0 || (g_close_saw_durable && g_disk == g_logical))
	ASSIGNS(__CPROVER_object_whole(channel), __CPROVER_object_whole(channel->private_data), g_disk, g_nwrites, g_wfail, SYS_FRAME)
	__CPROVER_frees(channel, channel->private_data, channel->name,
			g_cbuf[0], g_cbuf[1], g_cbuf[2], g_cbuf[3], g_cbuf[4], g_cbuf[5], g_cbuf[6], g_cbuf[7]);

static void place_device_byte(void)
{
	g_addr = IN.bstar * CH.block_size + IN.ostar + (unsigned long long)IN.offset;
	ASSUME(IN.pos >= 0 && IN.pos < (1LL << 61));
	GS = (struct sys_model){ 0 };
	g_pos = IN.pos;
	g_data = &DATA;
}

void h_flush_sync(void)
{
	build_channel();
	place_device_byte();
	struct unix_private_data *data = &DATA;
	errcode_t r = unix_flush(&CH);
	CHECK(r != 0 || (!any_dirty(data) && g_disk == g_logical), "flush returned 0: nothing dirty, the device holds the most recently written byte");
	CHECK(r != 0 || (g_nfsync == 1 && g_fsync_ok && g_fsync_saw_durable), "flush returned 0: fsync was called after the last write-back and returned 0");
	CHECK(!g_wfail || r != 0, "a failed write-back is reported");
	CHECK(coherent(data), "flush keeps coherence");
	REACH("end");
}

static unsigned char *UBUF;

void h_write_byte(void)
{
	build_channel();
	place_device_byte();
	struct unix_private_data *data = &DATA;
	CH.align = IN.align;
	ASSUME(IN.align >= 0 && IN.align <= 65536);
	ASSUME(IN.bsize >= 0 && IN.bsize <= 4096 && IN.boff < (1UL << 61));
	UBUF = malloc(IN.bsize);
	ASSUME(UBUF != 0);
	long long dev0 = (long long)(IN.boff + (unsigned long)IN.offset);
	g_covered = ADDR_IN(dev0, dev0 + IN.bsize);
	if (g_covered) {
		UBUF[(long long)g_addr - dev0] = IN.newbyte;
		g_new = IN.newbyte;
	} else
		g_new = 0;
	errcode_t r = unix_write_byte(&CH, IN.boff, IN.bsize, UBUF);
	if (r == 0 && g_covered)
		g_logical = g_new;
	CHECK(r != 0 || coherent(data), "after a successful byte write a read of L* returns the byte just written");
	CHECK(r != 0 || g_disk == g_logical, "a successful byte write is on the device");
	CHECK(g_ndevwrite == 0 || !any_inuse(data), "the cache was emptied before the device was written behind its back");
	CHECK(!g_wfail || r != 0, "a failed write-back is reported");
	REACH("end");
}

void h_zeroout(void)
{
	build_channel();
	place_device_byte();
	struct unix_private_data *data = &DATA;
	ASSUME(IN.block < BLK_MAX && IN.count64 <= BLK_MAX);
	g_covered = (g_bstar >= IN.block && g_bstar - IN.block < IN.count64);
	errcode_t r = unix_zeroout(&CH, IN.block, IN.count64);
	if (r == 0 && g_covered)
		g_logical = 0;
	CHECK(r != 0 || coherent(data), "after a successful zeroout a read of L* returns 0 inside the range, the old byte outside");
	CHECK(!g_zero_done || !any_inuse(data), "the cache was emptied before the device was zeroed behind its back");
	CHECK(!g_wfail || r != 0, "a failed write-back is reported");
	REACH("end");
}

void h_discard(void)
{
	build_channel();
	place_device_byte();
	struct unix_private_data *data = &DATA;
	ASSUME(IN.block < BLK_MAX && IN.count64 <= BLK_MAX);
	g_covered = (g_bstar >= IN.block && g_bstar - IN.block < IN.count64);
	errcode_t r = unix_discard(&CH, IN.block, IN.count64);
	CHECK(g_covered || coherent(data), "discarding elsewhere leaves L* coherent");
	REACH("end");
}

void h_set_option(void)
{
	build_channel();
	place_device_byte();
	struct unix_private_data *data = &DATA;
	ASSUME(!(DATA.flags & IO_FLAG_NOCACHE) || !any_inuse(data));
	errcode_t r = unix_set_option(&CH, "cache", (IN.optsel & 1) ? "off" : "on");
	CHECK(coherent(data), "switching the cache keeps coherence");
	CHECK(!(DATA.flags & IO_FLAG_NOCACHE) || !any_inuse(data), "while the cache is off no entry stays valid (it would be stale when the cache comes back)");
	CHECK(r != 0 || ((DATA.flags & IO_FLAG_NOCACHE) != 0) == ((IN.optsel & 1) != 0), "the option is applied");
	CHECK(!g_wfail || r != 0, "a failed write-back is reported");
	REACH("end");
}

#ifdef CFG_HEAP
void h_set_blksize(void)
{
	build_channel();
	place_device_byte();
	struct unix_private_data *data = &DATA;
	int old = CH.block_size;
	DATA.flags &= ~IO_FLAG_FORCE_BOUNCE;
	DATA.bounce = 0;
	ASSUME(IN.newbs >= 1 && IN.newbs <= 65536);
	errcode_t r = unix_set_blksize(&CH, IN.newbs);
	CHECK(!g_wfail || r != 0, "a failed write-back is reported");
	CHECK(CH.block_size != old || coherent(data), "block size unchanged: coherence kept");
	CHECK(CH.block_size == old || (!any_inuse(data) && g_disk == g_logical), "block size changed: everything dirty reached the device first and the cache is empty");
	CHECK(r != 0 || CH.block_size == IN.newbs, "success: the new block size is in force");
	REACH("end");
}

void h_close(void)
{
	build_channel();
	place_device_byte();
	/* the channel, its private data and its name live on the heap: unix_close frees them */
	io_channel ch = malloc(sizeof(*ch));
	struct unix_private_data *data = malloc(sizeof(*data));
	ASSUME(ch != 0 && data != 0);
	*data = DATA;
	*ch = CH;
	ch->private_data = data;
	ch->name = malloc(4);
	ch->refcount = IN.refcount;
	ASSUME(IN.refcount >= 1);
	data->bounce = 0;
	g_data = data;
	int last = ch->refcount == 1;
	errcode_t r = unix_close(ch);
	CHECK(!g_wfail || r != 0, "a failed write-back is reported by close");
	CHECK(last ? g_nclose == 1 : g_nclose == 0, "the descriptor is closed by the last reference only");
	CHECK(r != 0 || !last || (g_close_saw_durable && g_disk == g_logical), "close returned 0: every dirty block reached the device before the descriptor was closed");
	REACH("end");
}
#endif
