/*
 * Shared by the unix_io cache units (C17, C04).
 * Single-cell abstraction (DESIGN §C17): one ghost location L* = (block g_bstar, byte g_ostar);
 *   g_logical = the byte most recently written to L* through the channel,
 *   g_disk    = the byte the device holds at L* (moved only by the raw_write_blk contract).
 * coherent(data): at most one in-use cache entry labelled g_bstar; if there is one its buffer holds
 *   g_logical at g_ostar and (clean => g_disk == g_logical); if there is none g_disk == g_logical.
 */
#include "verif.h"

struct in_cache_entry {
	unsigned long long block;
	int access_time;
	unsigned char dirty, in_use, write_err;
	unsigned char byte_at_ostar;	/* buffer content at g_ostar (rest of the buffer is unconstrained) */
};
struct in_unixio {
	struct in_cache_entry e[8];
	int data_flags, channel_flags, access_time;
	unsigned int block_size;
	unsigned long long bstar;
	unsigned int ostar;
	unsigned char disk, logical;
	int flush_flags;
	unsigned long long block;
	int count;
	unsigned char ret_choice[12];	/* results of the device stubs, consumed in order */
	unsigned char newbyte;		/* content of the caller's buffer at the ghost location */
	unsigned int which;
};
struct in_unixio IN;
#include "verif_in.h"

unsigned long long g_bstar;
unsigned int g_ostar;
unsigned char g_disk, g_logical;
unsigned int g_nwrites;		/* number of raw_write_blk calls so far (ghost) */
unsigned int g_choice;
unsigned int g_nreads;
int g_wfail;			/* ghost: some device write has failed */		/* next ret_choice to consume */

#include "lib/ext2fs/unix_io.c"

static struct struct_io_channel CH;
static struct unix_private_data DATA;

#define E(i) (data->cache[i])
#define MATCH(i) (E(i).in_use && E(i).block == g_bstar)
#define ENTRY_OK(i, L) (!MATCH(i) || (E(i).buf[g_ostar] == (char)(L) && (E(i).dirty || g_disk == (L))))
#define NMATCH (MATCH(0) + MATCH(1) + MATCH(2) + MATCH(3) + MATCH(4) + MATCH(5) + MATCH(6) + MATCH(7))
#define COHERENT_L(L) (NMATCH <= 1 && ENTRY_OK(0, L) && ENTRY_OK(1, L) && ENTRY_OK(2, L) && ENTRY_OK(3, L) && ENTRY_OK(4, L) && \
		  ENTRY_OK(5, L) && ENTRY_OK(6, L) && ENTRY_OK(7, L) && (NMATCH == 1 || g_disk == (L)))
#define COHERENT COHERENT_L(g_logical)
#define ANY(f) (f(0) || f(1) || f(2) || f(3) || f(4) || f(5) || f(6) || f(7))
#define INUSE_DIRTY(i) (E(i).in_use && E(i).dirty)
#define INUSE(i) (E(i).in_use)

static int coherent(struct unix_private_data *data) { return COHERENT; }
/* coherent w.r.t. an explicitly given 'most recently written' byte */
static int coherent_l(struct unix_private_data *data, unsigned char l) { return COHERENT_L(l); }
static int any_dirty(struct unix_private_data *data) { return ANY(INUSE_DIRTY); }
static int any_inuse(struct unix_private_data *data) { return ANY(INUSE); }

/* byte range [block*bs, block*bs+size) covers L* ?  (count < 0 means -count bytes) */
#define WR_SIZE(ch, count) ((count) < 0 ? (unsigned long long)(-(long long)(count)) : (unsigned long long)(count) * (ch)->block_size)
/* the single-block case is kept free of multiplications (SAT back ends do not cope with symbolic products) */
#define COVERS(ch, block, count) ((count) == 1 ? g_bstar == (block) : (g_bstar >= (block) && \
	(g_bstar - (block)) < 0x100000ULL && \
	(g_bstar - (block)) * (ch)->block_size + g_ostar < WR_SIZE(ch, count)))
#define BUF_AT(ch, block, count, buf) ((count) == 1 ? ((const unsigned char *)(buf))[g_ostar] : \
	((const unsigned char *)(buf))[(g_bstar - (block)) * (ch)->block_size + g_ostar])

/* the device: contract of the real raw_write_blk as seen by the cache layer (enforced in unit raw_write_blk) */
static errcode_t raw_write_blk(io_channel channel, struct unix_private_data *data,
			       unsigned long long block, int count, const void *bufv, int flags)
	REQUIRES(count != 0)
	ASSIGNS(g_disk, g_nwrites, g_wfail, data->io_stats.bytes_written)
	ENSURES(g_nwrites == OLD(g_nwrites) + 1)
	ENSURES(RET == 0 ? g_wfail == OLD(g_wfail) : g_wfail == 1)
	ENSURES(COVERS(channel, block, count) ?
		(RET != 0 || g_disk == BUF_AT(channel, block, count, bufv)) : g_disk == OLD(g_disk));

#ifdef CFG_BS
static char CBUFS[8][CFG_BS];	/* content unconstrained under the verifier: see build_channel */
#endif

/* the device, read side: a successful read delivers the device byte at L* when the range covers it */
static errcode_t raw_read_blk(io_channel channel, struct unix_private_data *data,
			      unsigned long long block, int count, void *bufv)
	REQUIRES(count != 0)
	ASSIGNS(__CPROVER_object_whole(bufv), data->io_stats.bytes_read, g_nreads)
	ENSURES(g_nreads == OLD(g_nreads) + 1)
	ENSURES(RET != 0 || !COVERS(channel, block, count) || BUF_AT(channel, block, count, bufv) == g_disk);

/* contract of flush_cached_blocks (enforced in unit unixio/flush_cached_blocks, used at call sites elsewhere) */
static errcode_t flush_cached_blocks(io_channel channel, struct unix_private_data *data, int flags)
	REQUIRES(coherent(data) && channel->write_error == 0 && !(data->flags & IO_FLAG_THREADS))
	ENSURES(coherent(data))
	ENSURES(RET != 0 || (!any_dirty(data) && g_disk == g_logical))
	ENSURES(RET != 0 || !(flags & FLUSH_INVALIDATE) || !any_inuse(data))
	ENSURES(RET == 0 || g_nwrites > 0)
	ENSURES(RET == 0 ? g_wfail == OLD(g_wfail) : g_wfail == 1)
	ASSIGNS(__CPROVER_object_whole(data), g_disk, g_nwrites, g_wfail);

static void build_channel(void)
{
	LOAD_IN();
#ifdef CFG_BS
	/* configuration bound: these functions never compute with the block size, only pass buffers on */
	ASSUME(IN.block_size == CFG_BS);
#else
	ASSUME(IN.block_size >= 1 && IN.block_size <= 65536);
#endif
	ASSUME(IN.ostar < IN.block_size);
	memset(&CH, 0, sizeof(CH));
	memset(&DATA, 0, sizeof(DATA));
	CH.magic = EXT2_ET_MAGIC_IO_CHANNEL;
	CH.block_size = IN.block_size;
	CH.flags = IN.channel_flags;
	CH.private_data = &DATA;
	CH.write_error = 0;		/* assumption: no write-error handler installed */
	CH.read_error = 0;
	DATA.magic = EXT2_ET_MAGIC_UNIX_IO_CHANNEL;
	DATA.flags = IN.data_flags & ~IO_FLAG_THREADS;	/* threads: not applicable (DESIGN §C17) */
	DATA.access_time = IN.access_time;
	ASSUME(IN.access_time >= 0 && IN.access_time < 0x7fffff00);	/* assumption: < 2^31 cache accesses per channel (int counter) */
	g_bstar = IN.bstar; g_ostar = IN.ostar; g_disk = IN.disk; g_logical = IN.logical;
	g_nwrites = 0; g_nreads = 0; g_choice = 0; g_wfail = 0;
#if defined(CFG_BS) && !defined(VERIF_NATIVE)
	__CPROVER_havoc_object(CBUFS);
#endif
	for (int i = 0; i < CACHE_SIZE; i++) {
#ifdef CFG_BS
		DATA.cache[i].buf = CBUFS[i];
#else
		DATA.cache[i].buf = malloc(IN.block_size);
		ASSUME(DATA.cache[i].buf != 0);
#endif
		DATA.cache[i].buf[IN.ostar] = IN.e[i].byte_at_ostar;
		DATA.cache[i].block = IN.e[i].block;
		DATA.cache[i].access_time = IN.e[i].access_time;
		DATA.cache[i].dirty = IN.e[i].dirty & 1;
		DATA.cache[i].in_use = IN.e[i].in_use & 1;
		DATA.cache[i].write_err = 0;
	}
	ASSUME(coherent(&DATA));
}
