/*
 * Shared by the unix_io units (C17, C04).
 * Single-cell abstraction (DESIGN §C17): one ghost location L* = (block g_bstar, byte g_ostar), g_ostar < block_size;
 *   g_logical = the byte most recently written to L* through the channel,
 *   g_disk    = the byte the device holds at L* (moved only by the raw_write_blk contract / the pwrite stubs).
 * coherent(data): at most one in-use cache entry labelled g_bstar; if there is one its buffer holds
 *   g_logical at g_ostar and (clean => g_disk == g_logical); if there is none g_disk == g_logical.
 *
 * Every callee contract used by more than one unit lives here, so that the unit that ENFORCES a contract and the
 * units that REPLACE calls by it read the very same text.
 *   find_cached_block, reuse_cache, flush_cached_blocks : enforced in cache.c; replaced in rw.c (reuse, flush), chan.c (flush)
 *   raw_read_blk, raw_write_blk                          : enforced in raw.c;   replaced in cache.c, rw.c
 * (unix_read_blk64, unix_write_blk64: rw.c; the other channel operations: chan.c; open mode, C13: open.c;
 *  io_channel_* wrappers: iomgr.c)
 *
 * Configuration macros (per unit, through "defines"):
 *   CFG_BS=n      block size fixed to n, the eight cache buffers are eight static arrays of exactly n bytes
 *   CFG_BS_SET    block size in {16, 1024}, cache buffers are eight separate heap objects of exactly block_size bytes
 *                 (16 is a configuration bound for tractability: the code is parametric in the block size and only ever
 *                 adds it to cursors / passes it on as a length; 1024 is the smallest real ext2 block size)
 *   neither       1 <= block_size <= 65536, heap buffers
 */
#include "verif.h"

struct in_cache_entry {
	unsigned long long block;
	int access_time;
	unsigned char dirty, in_use, write_err;
	unsigned char byte_at_ostar;	/* buffer content at g_ostar (rest of the buffer is unconstrained) */
};
struct in_unixio {
	struct in_cache_entry e[8];
	int data_flags, channel_flags, access_time;
	unsigned int block_size;
	unsigned long long bstar;
	unsigned int ostar;
	unsigned char disk, logical;
	int flush_flags;
	unsigned long long block;
	int count;
	unsigned char ret_choice[12];	/* results of the device stubs, consumed in order */
	unsigned char newbyte;		/* content of the caller's buffer at the ghost location */
	unsigned int which;
	long long offset;		/* data->offset */
	int align;			/* channel->align */
	unsigned long long count64;
	unsigned int misalign;		/* start of the caller's buffer inside its object */
#ifdef IN_EXTRA
	IN_EXTRA
#endif
};
struct in_unixio IN;
#include "verif_in.h"

unsigned long long g_bstar;
unsigned int g_ostar;
#ifndef g_disk		/* raw.c keeps the device byte inside its one-struct device model (fewer DFCC assigns targets) */
unsigned char g_disk;
#endif
unsigned char g_logical;
unsigned int g_nwrites;		/* number of raw_write_blk calls so far (ghost) */
unsigned int g_choice;		/* next ret_choice to consume */
unsigned int g_nreads;
int g_wfail;			/* ghost: some device write has failed */
char *g_cbuf[8];		/* ghost: the eight cache buffers as allocated */
const unsigned char *g_keep;	/* ghost: address of the byte of the CALLER's buffer that corresponds to L* (0: none) */
int g_covered;			/* the request covers L* */
unsigned char g_new;		/* the byte the caller writes at L* */

#define E(i) (data->cache[i])
#define MATCH(i) (E(i).in_use && E(i).block == g_bstar)
/*
 * The tracked byte of entry i is read through the ghost copy g_cbuf[i] of the buffer pointer (set when the channel is
 * built, never assigned afterwards), not through E(i).buf: CBMC re-assembles pointer fields of `struct unix_private_data`
 * from bytes after every write through a `struct unix_cache *`, and dereferencing such a pointer is very expensive.  That
 * the functions never change the buffer pointers is a separate, cheap obligation (bufs_tied).
 */
#define CBYTE(i) (g_cbuf[i][g_ostar])
#define ENTRY_OK(i, L) (!MATCH(i) || (CBYTE(i) == (char)(L) && (E(i).dirty || g_disk == (L))))
#define NMATCH (MATCH(0) + MATCH(1) + MATCH(2) + MATCH(3) + MATCH(4) + MATCH(5) + MATCH(6) + MATCH(7))
#define COHERENT_L(L) (NMATCH <= 1 && ENTRY_OK(0, L) && ENTRY_OK(1, L) && ENTRY_OK(2, L) && ENTRY_OK(3, L) && ENTRY_OK(4, L) && \
		  ENTRY_OK(5, L) && ENTRY_OK(6, L) && ENTRY_OK(7, L) && (NMATCH == 1 || g_disk == (L)))
#define COHERENT COHERENT_L(g_logical)
#define ANY(f) (f(0) || f(1) || f(2) || f(3) || f(4) || f(5) || f(6) || f(7))
#define ALL(f) (f(0) && f(1) && f(2) && f(3) && f(4) && f(5) && f(6) && f(7))
#define INUSE_DIRTY(i) (E(i).in_use && E(i).dirty)
#define INUSE(i) (E(i).in_use)
#define BUF_TIED(i) (E(i).buf == g_cbuf[i])

/*
 * n * bs without a symbolic product for the small n that the cached paths use (SAT back ends do not cope with
 * symbolic * symbolic; constant * symbolic is a shift/add).
 */
#define MULSMALL(n, bs) ((n) == 0 ? 0ULL : (n) == 1 ? (unsigned long long)(bs) : (n) == 2 ? 2ULL * (bs) : (n) == 3 ? 3ULL * (bs) : \
			 (n) == 4 ? 4ULL * (bs) : (unsigned long long)(n) * (bs))
#define REL(block) (g_bstar - (block))
/* number of bytes of a request (count < 0 means -count bytes) */
#define WR_SIZE(ch, count) ((count) < 0 ? (unsigned long long)(-(long long)(count)) : MULSMALL(count, (ch)->block_size))
/*
 * byte range [block*bs, block*bs+size) covers L* ?  For count > 0 (whole blocks) this is block <= b* < block+count
 * because g_ostar < block_size.
 */
#define COVERS(ch, block, count) ((count) > 0 ? (g_bstar >= (block) && REL(block) < (unsigned long long)(count)) : \
	(g_bstar >= (block) && REL(block) < 0x100000ULL && REL(block) * (ch)->block_size + g_ostar < WR_SIZE(ch, count)))
/* offset of L* inside a request that starts at `block`, and the byte of the request's buffer there */
#define OFF_AT(ch, block) (MULSMALL(REL(block), (ch)->block_size) + g_ostar)
#define BUF_AT(ch, block, count, buf) (((const unsigned char *)(buf))[OFF_AT(ch, block)])

/* g_keep lies in the object of p but outside [p, p+n) */
#define KEEP_OUTSIDE(p, n) (g_keep != 0 && __CPROVER_same_object(g_keep, (p)) && \
	!(__CPROVER_POINTER_OFFSET(g_keep) >= __CPROVER_POINTER_OFFSET(p) && \
	  (unsigned long long)(__CPROVER_POINTER_OFFSET(g_keep) - __CPROVER_POINTER_OFFSET(p)) < (unsigned long long)(n)))

/* frames: the state bits of an entry; the eight cache buffers */
#define ENTRY_BITS(i) E(i).dirty, E(i).in_use, E(i).write_err
#define ALL_ENTRY_BITS ENTRY_BITS(0), ENTRY_BITS(1), ENTRY_BITS(2), ENTRY_BITS(3), ENTRY_BITS(4), ENTRY_BITS(5), ENTRY_BITS(6), ENTRY_BITS(7)
#define ALL_CBUFS __CPROVER_object_whole(g_cbuf[0]), __CPROVER_object_whole(g_cbuf[1]), __CPROVER_object_whole(g_cbuf[2]), \
	__CPROVER_object_whole(g_cbuf[3]), __CPROVER_object_whole(g_cbuf[4]), __CPROVER_object_whole(g_cbuf[5]), \
	__CPROVER_object_whole(g_cbuf[6]), __CPROVER_object_whole(g_cbuf[7])
#define IDX_OK(c) ((c) == &E(0) || (c) == &E(1) || (c) == &E(2) || (c) == &E(3) || (c) == &E(4) || (c) == &E(5) || \
		   (c) == &E(6) || (c) == &E(7))
/* same fact as IDX_OK's disjunction, in the constructive form that tells the symbolic executor which object the pointer is in */
#define IN_CACHE(c) __CPROVER_pointer_in_range_dfcc(&E(0), (c), &E(7))
#define NOT_THIS(i) (!(E(i).in_use && E(i).block == block))
#define UNUSED_OR_OLDER(i, c) (!E(i).in_use || (c)->access_time <= E(i).access_time)
/* every block number held by the cache is one a caller passed in (below BLK_MAX) */
#define LABEL_OK(i) (E(i).block < BLK_MAX)
#define CACHE_RANGE_OK(ch, data) (ALL(LABEL_OK) && RAW_RANGE_OK(ch, data, 0ULL, 1))
#define ATIME_OK(data) ((data)->access_time >= 0 && (data)->access_time < 0x7fffff00)

#ifdef CFG_BS
static char CB0[CFG_BS], CB1[CFG_BS], CB2[CFG_BS], CB3[CFG_BS], CB4[CFG_BS], CB5[CFG_BS], CB6[CFG_BS], CB7[CFG_BS];
#endif
/* ---- the macros above are plain text: they are defined before the real file so that named loop-invariant anchors (raw.c) can use them ---- */
#include "lib/ext2fs/unix_io.c"

static struct struct_io_channel CH;
static struct unix_private_data DATA;

static int coherent(struct unix_private_data *data) { return COHERENT; }
/* coherent w.r.t. an explicitly given 'most recently written' byte */
static int coherent_l(struct unix_private_data *data, unsigned char l) { return COHERENT_L(l); }
static int any_dirty(struct unix_private_data *data) { return ANY(INUSE_DIRTY); }
static int any_inuse(struct unix_private_data *data) { return ANY(INUSE); }
static int bufs_tied(struct unix_private_data *data) { return ALL(BUF_TIED); }

/* ------------------------------------------------------------------ the device (enforced in raw.c) */
/*
 * Ranges every caller guarantees (block numbers come from a file system of at most 2^32 blocks of at most 64 KiB, the
 * "offset=" option is a non-negative byte offset, one request is below 2 GiB): they keep block*block_size+offset inside
 * ext2_loff_t and the byte count inside the `int actual` that raw_*_blk compare it with.
 */
/* the only thing that ever happens to channel->align after open: raw_*_blk normalise 0 to 1 when IO_FLAG_FORCE_BOUNCE is set */
#define ALIGN_STEP(ch) ((ch)->align == OLD((ch)->align) || (OLD((ch)->align) == 0 && (ch)->align == 1))
#define BLK_MAX (1ULL << 46)
#define OFF_MAX (1LL << 50)
#define RAW_RANGE_OK(ch, d, block, count) ((count) != 0 && (count) > -0x40000000 && (block) < BLK_MAX && \
	(d)->offset >= 0 && (d)->offset < OFF_MAX && WR_SIZE(ch, count) <= 0x7fffffffULL && \
	(ch)->block_size >= 1 && (ch)->block_size <= 65536 && (ch)->align >= 0 && (ch)->align <= 65536)
/*
 * g_nwrites / g_nreads / g_wfail are recorders of the CALL EVENT itself (number of raw_*_blk calls so far, "some
 * raw_write_blk call returned non-zero").  They have no counterpart inside the function body, so the unit that enforces
 * the contract against the real body (raw.c, -DRAW_NO_CALL_EVENTS) leaves these clauses out; everything about the device
 * content and the caller's buffer is the same text in both uses.
 */
#ifdef RAW_NO_CALL_EVENTS
#define RAW_WRITE_EVENTS
#define RAW_READ_EVENTS
#define RAW_WRITE_EVENT_FRAME
#define RAW_READ_EVENT_FRAME
#else
#define RAW_WRITE_EVENTS ENSURES(g_nwrites == OLD(g_nwrites) + 1) ENSURES(RET == 0 ? g_wfail == OLD(g_wfail) : g_wfail == 1)
#define RAW_READ_EVENTS ENSURES(g_nreads == OLD(g_nreads) + 1)
#define RAW_WRITE_EVENT_FRAME , g_nwrites, g_wfail
#define RAW_READ_EVENT_FRAME , g_nreads
#endif
#ifndef RAW_DEVICE_FRAME	/* raw.c: the ghost state of its device model (file position, size, request log, bounce buffer) */
#define RAW_DEVICE_FRAME
#endif
/*
 * raw_write_blk as seen by the cache layer: success => the device holds the caller's byte at L* when the request
 * covers L*; a request that does not cover L* leaves the device byte alone, whether it succeeds or not (this is the
 * read-modify-write obligation of the bounce-buffer path: L* is arbitrary, so it speaks of every byte outside the range).
 */
static errcode_t raw_write_blk(io_channel channel, struct unix_private_data *data,
			       unsigned long long block, int count, const void *bufv, int flags)
	REQUIRES(RAW_RANGE_OK(channel, data, block, count) && channel->write_error == 0)
	ASSIGNS(g_disk, data->io_stats.bytes_written, channel->align RAW_WRITE_EVENT_FRAME RAW_DEVICE_FRAME)
	RAW_WRITE_EVENTS
	ENSURES(COVERS(channel, block, count) ?
		(RET != 0 || g_disk == BUF_AT(channel, block, count, bufv)) : g_disk == OLD(g_disk))
	ENSURES(ALIGN_STEP(channel));

/* the device, read side: a successful read delivers the device byte at L* when the range covers it */
static errcode_t raw_read_blk(io_channel channel, struct unix_private_data *data,
			      unsigned long long block, int count, void *bufv)
	REQUIRES(RAW_RANGE_OK(channel, data, block, count) && channel->read_error == 0)
	ASSIGNS(__CPROVER_object_whole(bufv), data->io_stats.bytes_read, channel->align RAW_READ_EVENT_FRAME RAW_DEVICE_FRAME)
	RAW_READ_EVENTS
	ENSURES(RET != 0 || !COVERS(channel, block, count) || BUF_AT(channel, block, count, bufv) == g_disk)
	/* the tracked byte of the caller's buffer object is not touched when it lies outside the request's buffer range */
	ENSURES(!KEEP_OUTSIDE(bufv, WR_SIZE(channel, count)) || *g_keep == OLD(*g_keep))
	ENSURES(ALIGN_STEP(channel));

static int cache_range_ok(io_channel channel, struct unix_private_data *data) { return CACHE_RANGE_OK(channel, data); }

/* ------------------------------------------------------------------ the cache (enforced in cache.c) */
/*
 * hit: the in-use entry labelled `block`; miss: NULL and *eldest = an unused entry if there is one, else the LRU one.
 * Frame: ONLY access times (and *eldest) change - labels, dirty bits, buffers stay, hence coherence is kept for
 * whatever byte counts as 'most recently written'.
 */
static struct unix_cache *find_cached_block(struct unix_private_data *data, unsigned long long block,
					    struct unix_cache **eldest)
	REQUIRES(eldest == 0 || __CPROVER_w_ok(eldest, sizeof(*eldest)))
	REQUIRES(ATIME_OK(data))
	ENSURES(RET == 0 || (IN_CACHE(RET) && IDX_OK(RET) && RET->in_use && RET->block == block))
	ENSURES(RET != 0 || ALL(NOT_THIS))
	ENSURES(RET != 0 || eldest == 0 || (IN_CACHE(*eldest) && IDX_OK(*eldest) &&
		(!(*eldest)->in_use || (ALL(INUSE) &&
		 UNUSED_OR_OLDER(0, *eldest) && UNUSED_OR_OLDER(1, *eldest) && UNUSED_OR_OLDER(2, *eldest) && UNUSED_OR_OLDER(3, *eldest) &&
		 UNUSED_OR_OLDER(4, *eldest) && UNUSED_OR_OLDER(5, *eldest) && UNUSED_OR_OLDER(6, *eldest) && UNUSED_OR_OLDER(7, *eldest)))))
	ENSURES(data->access_time >= OLD(data->access_time) && data->access_time <= OLD(data->access_time) + 1)
	ASSIGNS(data->access_time, E(0).access_time, E(1).access_time, E(2).access_time, E(3).access_time,
		E(4).access_time, E(5).access_time, E(6).access_time, E(7).access_time; eldest != 0: *eldest);

/*
 * Re-label `cache` for `block`.  Frame: only that entry's label and state (not its buffer, not its buffer pointer), the access clock and
 * the device.  A dirty victim reaches the device under its OWN block number first; on a write error nothing is
 * re-labelled and the victim stays dirty.  Stated without reference to g_logical, so that callers in the middle of an
 * update (unix_write_blk64's loop) can use it.
 */
#define VICTIM_AT_LSTAR (OLD(cache->in_use) && OLD(cache->dirty) && OLD(cache->block) == g_bstar)
static errcode_t reuse_cache(io_channel channel, struct unix_private_data *data, struct unix_cache *cache,
			     unsigned long long block)
	REQUIRES(ATIME_OK(data) && RAW_RANGE_OK(channel, data, cache->block, 1) && channel->write_error == 0)
	REQUIRES(IDX_OK(cache) && ALL(NOT_THIS))
	ENSURES(RET != 0 || (cache->in_use && !cache->dirty && cache->block == block))
	ENSURES(RET == 0 || (cache->in_use && cache->dirty && cache->block == OLD(cache->block) && cache->write_err))
	/* it can only fail by failing to write back a dirty victim */
	ENSURES(RET == 0 || (OLD(cache->in_use) && OLD(cache->dirty)))
	ENSURES((OLD(cache->in_use) && OLD(cache->dirty)) ? g_nwrites == OLD(g_nwrites) + 1 : g_nwrites == OLD(g_nwrites))
	ENSURES(VICTIM_AT_LSTAR ? (RET != 0 || g_disk == (unsigned char)cache->buf[g_ostar]) : g_disk == OLD(g_disk))
	ENSURES(RET == 0 ? g_wfail == OLD(g_wfail) : g_wfail == 1)
	ENSURES(data->access_time >= OLD(data->access_time) && data->access_time <= OLD(data->access_time) + 1)
	ENSURES(ALIGN_STEP(channel))
	/* one slice = block, access_time and the three state bits of *cache (everything but the buffer pointer) */
	ASSIGNS(__CPROVER_object_upto((char *)&cache->block, sizeof(struct unix_cache) - __builtin_offsetof(struct unix_cache, block)),
		data->access_time, data->io_stats.bytes_written, channel->align, g_disk, g_nwrites, g_wfail);

/*
 * flush_cached_blocks.  Frame: the state bits of the eight entries (labels, buffers and buffer pointers stay), the device.
 */
#define BITS_SHRINK(i) ((!E(i).dirty || OLD(E(i).dirty)) && (!E(i).in_use || OLD(E(i).in_use)))
static errcode_t flush_cached_blocks(io_channel channel, struct unix_private_data *data, int flags)
	REQUIRES(coherent(data) && channel->write_error == 0 && !(data->flags & IO_FLAG_THREADS))
	REQUIRES(CACHE_RANGE_OK(channel, data))
	ENSURES(coherent(data))
	ENSURES(RET != 0 || (!any_dirty(data) && g_disk == g_logical))
	ENSURES(RET != 0 || !(flags & FLUSH_INVALIDATE) || !any_inuse(data))
	ENSURES(RET == 0 || g_nwrites > 0)
	ENSURES(RET == 0 ? g_wfail == OLD(g_wfail) : g_wfail == 1)
	ENSURES(ALIGN_STEP(channel))
	/* flushing only ever CLEARS state bits: no entry becomes dirty or valid */
	ENSURES(BITS_SHRINK(0) && BITS_SHRINK(1) && BITS_SHRINK(2) && BITS_SHRINK(3) && BITS_SHRINK(4) && BITS_SHRINK(5) &&
		BITS_SHRINK(6) && BITS_SHRINK(7))
	ASSIGNS(ALL_ENTRY_BITS, data->io_stats.bytes_written, channel->align, g_disk, g_nwrites, g_wfail);

static void build_channel(void)
{
	LOAD_IN();
#if defined(CFG_BS)
	/* configuration bound: these functions never compute with the block size, only pass buffers on */
	ASSUME(IN.block_size == CFG_BS);
#elif defined(CFG_BS_SET)
	ASSUME(IN.block_size == 16 || IN.block_size == 1024);
#else
	ASSUME(IN.block_size >= 1 && IN.block_size <= 65536);
#endif
	ASSUME(IN.ostar < IN.block_size);
	memset(&CH, 0, sizeof(CH));
	memset(&DATA, 0, sizeof(DATA));
	CH.magic = EXT2_ET_MAGIC_IO_CHANNEL;
#ifdef CFG_BS
	CH.block_size = CFG_BS;		/* a constant for the symbolic executor, not only an assumption */
#else
	CH.block_size = IN.block_size;
#endif
	CH.flags = IN.channel_flags;
	CH.private_data = &DATA;
	CH.write_error = 0;		/* assumption: no write-error handler installed */
	CH.read_error = 0;
	DATA.magic = EXT2_ET_MAGIC_UNIX_IO_CHANNEL;
	DATA.flags = IN.data_flags & ~IO_FLAG_THREADS;	/* threads: not applicable (DESIGN §C17) */
	DATA.access_time = IN.access_time;
	DATA.offset = IN.offset;
	ASSUME(IN.offset >= 0 && IN.offset < OFF_MAX);
	ASSUME(IN.bstar < BLK_MAX);
	ASSUME(IN.access_time >= 0 && IN.access_time < 0x7ffffe00);	/* assumption: < 2^31 cache accesses per channel (int counter) */
	g_bstar = IN.bstar; g_ostar = IN.ostar; g_disk = IN.disk; g_logical = IN.logical;
	g_nwrites = 0; g_nreads = 0; g_choice = 0; g_wfail = 0; g_keep = 0;
#if defined(CFG_BS)
	char *cbs[8] = { CB0, CB1, CB2, CB3, CB4, CB5, CB6, CB7 };
#if !defined(VERIF_NATIVE)
	/* content unconstrained under the verifier */
	__CPROVER_havoc_object(CB0); __CPROVER_havoc_object(CB1); __CPROVER_havoc_object(CB2); __CPROVER_havoc_object(CB3);
	__CPROVER_havoc_object(CB4); __CPROVER_havoc_object(CB5); __CPROVER_havoc_object(CB6); __CPROVER_havoc_object(CB7);
#endif
#endif
	for (int i = 0; i < CACHE_SIZE; i++) {
#ifdef CFG_BS
		DATA.cache[i].buf = cbs[i];
#else
		DATA.cache[i].buf = malloc(IN.block_size);
		ASSUME(DATA.cache[i].buf != 0);
#endif
		g_cbuf[i] = DATA.cache[i].buf;
		DATA.cache[i].buf[IN.ostar] = IN.e[i].byte_at_ostar;
		DATA.cache[i].block = IN.e[i].block;
		ASSUME(IN.e[i].block < BLK_MAX);	/* labels are block numbers callers passed in */
		DATA.cache[i].access_time = IN.e[i].access_time;
		DATA.cache[i].dirty = IN.e[i].dirty & 1;
		DATA.cache[i].in_use = IN.e[i].in_use & 1;
		DATA.cache[i].write_err = 0;
	}
	ASSUME(coherent(&DATA));
}
