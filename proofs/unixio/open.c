/*
 * C13 "read-only invocations never modify the device", at the place where the open mode is decided
 * (lib/ext2fs/unix_io.c): a device opened O_RDONLY cannot be written by any later call, so the units pin down that
 *   unix_open   hands open() O_RDWR iff the caller asked for IO_FLAG_RW, O_RDONLY otherwise, and never O_CREAT, O_TRUNC
 *               or O_APPEND (opening never changes the target by itself);
 *   unixfd_open derives the channel's flags from the ACCESS MODE of the descriptor it is given.
 * unix_open_channel (which receives an already open descriptor and does not open anything) is replaced by a contract
 * that only records its arguments.
 *
 * open64() and fcntl() are variadic; DFCC cannot thread its write set through a variadic call, so the two libc names are
 * re-bound to fixed-arity stubs for the real file (their headers are included first: only the calls are affected).
 */
/* VERIF-UNIT
{
 "name": "unix_open",
 "props": ["C13"],
 "level": "U",
 "tier": "quick",
 "harness": "h_unix_open",
 "enforce": ["unix_open"],
 "replace": ["unix_open_channel"],
 "unwind": 12,
 "unwind_reason": "loop-free; the bound only serves DFCC library loops",
 "defines": ["CFG_NO_PTHREAD"],
 "functions": ["lib/ext2fs/unix_io.c:unix_open", "lib/ext2fs/unix_io.c:ext2fs_open_file"],
 "assumes": ["unix_open_channel by contract (records descriptor and flags; it receives an open descriptor and opens nothing itself)", "Linux open flags (O_RDONLY 0, O_RDWR 2)"],
 "backend": "cadical",
 "timeout": 200,
 "native": false
}
*/
/* VERIF-UNIT
{
 "name": "unixfd_open",
 "props": ["C13"],
 "level": "U",
 "tier": "quick",
 "harness": "h_unixfd_open",
 "enforce": ["unixfd_open"],
 "replace": ["unix_open_channel"],
 "unwind": 12,
 "unwind_reason": "loop-free; the bound only serves DFCC library loops",
 "defines": ["CFG_NO_PTHREAD"],
 "functions": ["lib/ext2fs/unix_io.c:unixfd_open"],
 "assumes": ["unix_open_channel by contract (records descriptor and flags)", "fcntl model: F_GETFD yields the descriptor flags (FD_CLOEXEC or 0), F_GETFL the file status flags including the access mode, -1 for a bad descriptor", "atoi by stub", "the access mode reported by F_GETFL is O_RDONLY, O_WRONLY or O_RDWR (not the Linux-only value 3)"],
 "backend": "cadical",
 "timeout": 200,
 "native": false
}
*/
/* VERIF-UNIT
{
 "name": "unixfd_open_rw",
 "props": ["C13"],
 "level": "U",
 "tier": "obs",
 "harness": "h_unixfd_open_rw",
 "enforce": ["unixfd_open"],
 "replace": ["unix_open_channel"],
 "unwind": 12,
 "unwind_reason": "loop-free; the bound only serves DFCC library loops",
 "defines": ["CFG_NO_PTHREAD"],
 "functions": ["lib/ext2fs/unix_io.c:unixfd_open"],
 "assumes": ["as unixfd_open; EXPECTED TO FAIL on the pinned tree: unixfd_open asks fcntl for F_GETFD (descriptor flags) instead of F_GETFL (status flags), see findings/C13_unixfd_open_flags"],
 "backend": "cadical",
 "timeout": 200,
 "native": false
}
*/
#define _XOPEN_SOURCE 600
#define _DARWIN_C_SOURCE
#define _LARGEFILE_SOURCE
#define _LARGEFILE64_SOURCE
#define _GNU_SOURCE
#include <fcntl.h>
#include <stdlib.h>
int verif_open(const char *path, int flags);
int verif_fcntl(int fd, int cmd);
#define open64(path, flags, ...) verif_open((path), (flags))
#define fcntl(fd, cmd, ...) verif_fcntl((fd), (cmd))

#include "verif.h"
struct in_open {
	int flags;		/* IO_FLAG_* asked for by the caller */
	int open_result;	/* descriptor returned by open(), or < 0 */
	int err;
	int fd;			/* descriptor named by the string handed to unixfd_open */
	int fd_valid;
	int fd_descflags;	/* FD_CLOEXEC or 0 */
	int fd_statusflags;	/* access mode | O_DIRECT | O_EXCL ... as F_GETFL reports them */
	int oc_result;
	unsigned char name_null;
};
struct in_open IN;
#include "verif_in.h"

unsigned int g_nopen, g_noc, g_nfcntl;
int g_open_flags, g_open_fd;
int g_oc_fd, g_oc_flags;
int g_fcntl_cmd;
int g_errno;

#include "lib/ext2fs/unix_io.c"

int *__errno_location(void) { return &g_errno; }

int verif_open(const char *path, int flags)
{
	g_nopen++;
	g_open_flags = flags;
	g_open_fd = IN.open_result;
	if (IN.open_result < 0) {
		g_errno = IN.err;
		return -1;
	}
	return IN.open_result;
}

int verif_fcntl(int fd, int cmd)
{
	g_nfcntl++;
	g_fcntl_cmd = cmd;
	if (!IN.fd_valid || fd != IN.fd) {
		g_errno = EBADF;
		return -1;
	}
	if (cmd == F_GETFD)
		return IN.fd_descflags;
	if (cmd == F_GETFL)
		return IN.fd_statusflags;
	return 0;
}

int atoi(const char *s) { return IN.fd; }

/* receives an OPEN descriptor: recorded, nothing else is known about it here */
static errcode_t unix_open_channel(const char *name, int fd, int flags, io_channel *channel, io_manager io_mgr)
	ASSIGNS(*channel, g_noc, g_oc_fd, g_oc_flags)
	ENSURES(g_noc == OLD(g_noc) + 1 && g_oc_fd == fd && g_oc_flags == flags);

#define ACC(f) ((f) & O_ACCMODE)
#define NEVER_MODIFYING (O_CREAT | O_TRUNC | O_APPEND)

static errcode_t unix_open(const char *name, int flags, io_channel *channel)
	REQUIRES(g_nopen == 0 && g_noc == 0)
	/* the access mode handed to open() is decided by IO_FLAG_RW alone */
	ENSURES(g_nopen <= 1 && (name != 0 || g_nopen == 0))
	ENSURES(g_nopen == 0 || ACC(g_open_flags) == ((flags & IO_FLAG_RW) ? O_RDWR : O_RDONLY))
	ENSURES(g_nopen == 0 || (g_open_flags & NEVER_MODIFYING) == 0)
	ENSURES(g_nopen == 0 || ((g_open_flags & O_EXCL) != 0) == ((flags & IO_FLAG_EXCLUSIVE) != 0))
	/* the channel is built on exactly that descriptor, with exactly the caller's flags */
	ENSURES(g_noc <= 1 && (g_noc == 0 || (g_nopen == 1 && g_open_fd >= 0 && g_oc_fd == g_open_fd && g_oc_flags == flags)))
	ENSURES(g_nopen == 0 || g_open_fd >= 0 || (g_noc == 0 && RET == (errcode_t)g_errno))
	ASSIGNS(*channel, g_nopen, g_open_flags, g_open_fd, g_errno, g_noc, g_oc_fd, g_oc_flags);

static errcode_t unixfd_open(const char *str_fd, int flags, io_channel *channel)
	REQUIRES(g_noc == 0 && g_nopen == 0)
	ENSURES(g_nopen == 0)		/* never opens anything itself */
	ENSURES(g_noc <= 1 && (IN.fd_valid || g_noc == 0))
	/* the channel may write only if the descriptor can */
	ENSURES(g_noc == 0 || !(g_oc_flags & IO_FLAG_RW) || ACC(IN.fd_statusflags) == O_RDWR)
	ENSURES(g_noc == 0 || g_oc_fd == IN.fd)
	ASSIGNS(*channel, g_nfcntl, g_fcntl_cmd, g_errno, g_noc, g_oc_fd, g_oc_flags);

static io_channel CHP;

void h_unix_open(void)
{
	LOAD_IN();
	g_nopen = g_noc = g_nfcntl = 0; g_errno = 0;
	errcode_t r = unix_open(IN.name_null ? 0 : "/dev/x", IN.flags, &CHP);
	CHECK(g_nopen == 0 || ACC(g_open_flags) == ((IN.flags & IO_FLAG_RW) ? O_RDWR : O_RDONLY), "open() gets O_RDWR iff IO_FLAG_RW, else O_RDONLY");
	CHECK(g_nopen == 0 || (g_open_flags & (O_CREAT | O_TRUNC | O_APPEND)) == 0, "open() never gets O_CREAT / O_TRUNC / O_APPEND");
	CHECK(g_noc == 0 || (g_oc_fd == g_open_fd && g_oc_flags == IN.flags), "the channel is built on the descriptor just opened, with the caller's flags");
	REACH("end");
}

void h_unixfd_open(void)
{
	LOAD_IN();
	g_nopen = g_noc = g_nfcntl = 0; g_errno = 0;
	ASSUME(IN.fd >= 0);
	ASSUME(IN.fd_descflags == 0 || IN.fd_descflags == FD_CLOEXEC);
	ASSUME(IN.fd_statusflags >= 0 && ACC(IN.fd_statusflags) != 3);	/* POSIX: the access mode is O_RDONLY, O_WRONLY or O_RDWR */
	errcode_t r = unixfd_open("7", IN.flags, &CHP);
	CHECK(g_noc == 0 || !(g_oc_flags & IO_FLAG_RW) || ACC(IN.fd_statusflags) == O_RDWR, "IO_FLAG_RW only for a descriptor opened read-write");
	REACH("end");
}

/* the converse (functional, not needed for C13): FAILS on the pinned tree, see findings/C13_unixfd_open_flags */
void h_unixfd_open_rw(void)
{
	LOAD_IN();
	g_nopen = g_noc = g_nfcntl = 0; g_errno = 0;
	ASSUME(IN.fd >= 0);
	ASSUME(IN.fd_descflags == 0 || IN.fd_descflags == FD_CLOEXEC);
	ASSUME(IN.fd_statusflags >= 0 && ACC(IN.fd_statusflags) != 3);	/* POSIX: the access mode is O_RDONLY, O_WRONLY or O_RDWR */
	errcode_t r = unixfd_open("7", IN.flags, &CHP);
	CHECK(g_noc == 0 || ACC(IN.fd_statusflags) != O_RDWR || (g_oc_flags & IO_FLAG_RW), "a read-write descriptor gives a read-write channel");
	CHECK(g_noc == 0 || !(IN.fd_statusflags & O_DIRECT) || (g_oc_flags & IO_FLAG_DIRECT_IO), "an O_DIRECT descriptor gives a direct-I/O channel (alignment is then honoured)");
	REACH("end");
}
