/* VERIF-UNIT
{
 "name": "flush_cached_blocks",
 "props": ["C17", "C04"],
 "level": "U/k",
 "tier": "quick",
 "harness": "h_flush",
 "enforce": ["flush_cached_blocks"],
 "replace": ["raw_write_blk"],
 "unwind": 6,
 "unwindset": {"build_channel.0": 9, "flush_cached_blocks.0": 9, "flush_cached_blocks.1": 9, "flush_cached_blocks.2": 3},
 "unwind_reason": "CACHE_SIZE is the constant 8; without a write-error handler the retry loop runs at most twice; --unwinding-assertions on, so the bounds are complete",
 "functions": ["lib/ext2fs/unix_io.c:flush_cached_blocks"],
 "assumes": ["no channel->write_error handler installed", "IO_FLAG_THREADS clear (schedules are outside this technique)"],
 "native": false
}
*/
#include "cache_common.h"

static errcode_t flush_cached_blocks(io_channel channel, struct unix_private_data *data, int flags)
	REQUIRES(coherent(data) && channel->write_error == 0 && !(data->flags & IO_FLAG_THREADS))
	ENSURES(coherent(data))
	ENSURES(RET != 0 || (!any_dirty(data) && g_disk == g_logical))
	ENSURES(RET != 0 || !(flags & FLUSH_INVALIDATE) || !any_inuse(data))
	ENSURES(RET == 0 || g_nwrites > 0)
	ASSIGNS(__CPROVER_object_whole(data), g_disk, g_nwrites);

void h_flush(void)
{
	build_channel();
	errcode_t r = flush_cached_blocks(&CH, &DATA, IN.flush_flags);
	struct unix_private_data *data = &DATA;
	CHECK(coherent(data), "flush keeps the cache coherent with the device");
	CHECK(r != 0 || (!any_dirty(data) && g_disk == g_logical), "flush returning 0: device holds the most recently written byte, nothing dirty");
	CHECK(r != 0 || !(IN.flush_flags & FLUSH_INVALIDATE) || !any_inuse(data), "flush+invalidate returning 0: no cache entry stays valid");
	REACH("end");
}
