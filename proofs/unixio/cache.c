/* VERIF-UNIT
{
 "name": "flush_cached_blocks",
 "props": ["C17", "C04"],
 "level": "U/k",
 "tier": "quick",
 "harness": "h_flush",
 "enforce": ["flush_cached_blocks"],
 "replace": ["raw_write_blk"],
 "unwind": 6,
 "unwindset": {"build_channel.0": 9, "flush_cached_blocks.0": 9, "flush_cached_blocks.1": 9, "flush_cached_blocks.2": 3},
 "unwind_reason": "CACHE_SIZE is the constant 8; without a write-error handler the retry loop runs at most twice; --unwinding-assertions on, so the bounds are complete",
 "functions": ["lib/ext2fs/unix_io.c:flush_cached_blocks"],
 "assumes": ["no channel->write_error handler installed", "IO_FLAG_THREADS clear (schedules are outside this technique)"],
 "backend": "cadical",
 "native": false
}
*/
#include "cache_common.h"

void h_flush(void)
{
	build_channel();
	errcode_t r = flush_cached_blocks(&CH, &DATA, IN.flush_flags);
	struct unix_private_data *data = &DATA;
	CHECK(coherent(data), "flush keeps the cache coherent with the device");
	CHECK(r != 0 || (!any_dirty(data) && g_disk == g_logical), "flush returning 0: device holds the most recently written byte, nothing dirty");
	CHECK(r != 0 || !(IN.flush_flags & FLUSH_INVALIDATE) || !any_inuse(data), "flush+invalidate returning 0: no cache entry stays valid");
	REACH("end");
}

/* ------------------------------------------------------------------ find_cached_block, reuse_cache */
/* VERIF-UNIT
{
 "name": "find_cached_block",
 "props": ["C17"],
 "level": "U/k",
 "tier": "quick",
 "harness": "h_find",
 "enforce": ["find_cached_block"],
 "unwind": 6,
 "unwindset": {"build_channel.0": 9, "find_cached_block.0": 9},
 "unwind_reason": "CACHE_SIZE is the constant 8",
 "defines": ["CFG_BS=16"],
 "functions": ["lib/ext2fs/unix_io.c:find_cached_block"],
 "assumes": ["IO_FLAG_THREADS clear", "fewer than 2^31 cache accesses per channel (data->access_time is a signed int that is incremented without a guard)"],
 "backend": "cadical",
 "native": false
}
*/
/* VERIF-UNIT
{
 "name": "reuse_cache",
 "props": ["C17"],
 "level": "U",
 "tier": "quick",
 "harness": "h_reuse",
 "enforce": ["reuse_cache"],
 "replace": ["raw_write_blk"],
 "unwind": 6,
 "unwindset": {"build_channel.0": 9},
 "unwind_reason": "only the harness loop that builds the 8 cache entries is unwound; reuse_cache itself is loop-free",
 "defines": ["CFG_BS=16"],
 "functions": ["lib/ext2fs/unix_io.c:reuse_cache"],
 "assumes": ["IO_FLAG_THREADS clear", "fewer than 2^31 cache accesses per channel (data->access_time is a signed int that is incremented without a guard)"],
 "backend": "cadical",
 "native": false
}
*/
/* the contracts of find_cached_block, reuse_cache and flush_cached_blocks are in cache_common.h (shared with the units that replace calls by them) */

void h_find(void)
{
	build_channel();
	struct unix_private_data *data = &DATA;
	struct unix_cache *eld = 0;
	unsigned long long block = IN.block;
	int t0 = DATA.access_time;
	ASSUME(t0 < 0x7fffffff);
	struct unix_cache *r = find_cached_block(&DATA, block, (IN.which & 1) ? &eld : 0);
	CHECK(r == 0 || (r->in_use && r->block == block), "a hit is the in-use entry labelled with the block");
	CHECK(r != 0 || (NOT_THIS(0) && NOT_THIS(1) && NOT_THIS(2) && NOT_THIS(3) && NOT_THIS(4) && NOT_THIS(5) && NOT_THIS(6) && NOT_THIS(7)),
	      "a miss means no in-use entry carries the block");
	CHECK(coherent(data), "lookup keeps coherence");
	REACH("end");
}

void h_reuse(void)
{
	build_channel();
	struct unix_private_data *data = &DATA;
	unsigned long long block = IN.block;
	ASSUME(IN.which < CACHE_SIZE);
	ASSUME(NOT_THIS(0) && NOT_THIS(1) && NOT_THIS(2) && NOT_THIS(3) && NOT_THIS(4) && NOT_THIS(5) && NOT_THIS(6) && NOT_THIS(7));
	struct unix_cache *c = &DATA.cache[IN.which];
	unsigned long long oldblk = c->block;
	int was_match = c->in_use && c->block == g_bstar, was_dirty = c->in_use && c->dirty;
	unsigned char bufbyte = c->buf[g_ostar];
	errcode_t r = reuse_cache(&CH, &DATA, c, block);
	CHECK(r != 0 || !(was_match && was_dirty) || g_disk == bufbyte, "a dirty victim is written to its own block before the entry is re-labelled");
	CHECK(r != 0 || (c->in_use && !c->dirty && c->block == block), "re-labelled entry is clean and in use");
	CHECK(r == 0 || (c->block == oldblk && c->dirty), "on a write error nothing is re-labelled");
	/* what the logical-free contract gives a caller that starts from a coherent cache */
	CHECK(r != 0 || block == g_bstar || coherent(data), "re-labelling for another block keeps coherence at L*");
	CHECK(r != 0 || block != g_bstar || g_disk == g_logical, "re-labelling for L*'s block: the device holds the current byte, the caller fills the buffer");
	CHECK(r == 0 || coherent(data), "a failed eviction keeps coherence");
	CHECK((r != 0) == (g_wfail != 0), "a failed device write is reported");
	REACH("end");
}
