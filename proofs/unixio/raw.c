/*
 * raw_read_blk / raw_write_blk (lib/ext2fs/unix_io.c) against a one-byte model of the device.
 *
 * Device model (stubs below): ONE ghost byte address g_addr = g_bstar*block_size + g_ostar + data->offset with content
 * g_disk; the device is g_eof bytes long and bytes at or beyond g_eof read as end-of-file (and are 0 once the device is
 * extended over them).  pread64/pwrite64/read/write/ext2fs_llseek are stubs that move g_disk / the caller's buffer at that
 * one address, log offset and length of the request, and fail or come back short on demand.  g_addr is arbitrary, so
 * "g_disk unchanged when the request does not cover L*" is the statement that EVERY byte outside the requested range
 * keeps its old device value - the read-modify-write obligation of the bounce-buffer path - and "g_disk == caller's byte
 * when it does" that every byte inside arrives.
 *
 * The contracts enforced here are the ones in cache_common.h that the cache layer (cache.c, rw.c, chan.c) replaces calls
 * by, minus the call-event recorders (see RAW_NO_CALL_EVENTS there).
 *
 * Configurations (block_size, O_DIRECT alignment) are enumerated, because align_size divides byte offsets: the code is
 * parametric in both, the small values are a configuration bound for tractability (bounce buffer of 16..64 bytes for the
 * built-in memcpy/memset), chosen to hit the three shapes of the arithmetic: align_size == block_size (align divides it),
 * align_size == align > block_size (several blocks per aligned unit: `offset` non-zero with a full-size request), and the
 * forced bounce without alignment (align becomes 1).
 */
/* VERIF-UNIT
{
 "name": "raw_write_blk_direct",
 "props": ["C17"],
 "level": "U",
 "tier": "quick",
 "harness": "h_raw_write",
 "enforce": ["raw_write_blk"],
 "replace": ["memcpy", "memset"],
 "unwind": 24,
 "unwind_reason": "loop-free path (no alignment, no forced bounce: the bounce loop is dead); the bound only serves DFCC library loops",
 "defines": ["CFG_BS=1024", "CFG_ALIGN=0", "CFG_FORCE=0", "RAW_NO_CALL_EVENTS", "CFG_NO_PTHREAD"],
 "functions": ["lib/ext2fs/unix_io.c:raw_write_blk"],
 "assumes": ["no write_error handler installed", "block < 2^46, 0 <= data->offset < 2^50, request below 2 GiB", "failing system calls set errno to a non-zero value (POSIX)", "block size 1024 (the path does not depend on it)"],
 "backend": "cadical",
 "timeout": 300,
 "native": false
}
*/
/* VERIF-UNIT
{
 "name": "raw_write_blk_bounce_a8",
 "props": [
  "C17"
 ],
 "level": "U",
 "tier": "thorough",
 "harness": "h_raw_write",
 "enforce": [
  "raw_write_blk"
 ],
 "replace": [
  "memcpy",
  "memset"
 ],
 "loop_contracts": true,
 "unwind": 24,
 "unwind_reason": "the bounce loop is closed by its in-place loop contract; the bound only serves DFCC library loops",
 "defines": [
  "CFG_BS=16",
  "CFG_ALIGN=8",
  "CFG_FORCE=0",
  "RAW_NO_CALL_EVENTS",
  "CFG_NO_PTHREAD"
 ],
 "functions": [
  "lib/ext2fs/unix_io.c:raw_write_blk"
 ],
 "assumes": [
  "no write_error handler installed",
  "block < 2^46, 0 <= data->offset < 2^50, request below 2 GiB",
  "WIP ONLY BECAUSE IT NEEDS hooks-pending/uio.diff (loop-contract anchors); green with it, thorough tier",
  "failing system calls set errno to a non-zero value (POSIX)",
  "read() on the device comes back short only at end of device (the code zero-fills the rest of the bounce buffer on that assumption)",
  "configuration bound: block_size 16, alignment 8 (align_size 16)"
 ],
 "backend": "cadical",
 "timeout": 300,
 "native": false,
 "no_cross_check": true
}
*/
/* VERIF-UNIT
{
 "name": "raw_write_blk_bounce_a64",
 "props": [
  "C17"
 ],
 "level": "U",
 "tier": "thorough",
 "harness": "h_raw_write",
 "enforce": [
  "raw_write_blk"
 ],
 "replace": [
  "memcpy",
  "memset"
 ],
 "loop_contracts": true,
 "unwind": 24,
 "unwind_reason": "the bounce loop is closed by its in-place loop contract; the bound only serves DFCC library loops",
 "defines": [
  "CFG_BS=16",
  "CFG_ALIGN=64",
  "CFG_FORCE=0",
  "RAW_NO_CALL_EVENTS",
  "CFG_NO_PTHREAD"
 ],
 "functions": [
  "lib/ext2fs/unix_io.c:raw_write_blk"
 ],
 "assumes": [
  "no write_error handler installed",
  "block < 2^46, 0 <= data->offset < 2^50, request below 2 GiB",
  "WIP ONLY BECAUSE IT NEEDS hooks-pending/uio.diff (loop-contract anchors); green with it, thorough tier",
  "failing system calls set errno to a non-zero value (POSIX)",
  "read() on the device comes back short only at end of device",
  "configuration bound: block_size 16, alignment 64 (align_size 64: four blocks per aligned unit)"
 ],
 "backend": "cadical",
 "timeout": 300,
 "native": false,
 "no_cross_check": true
}
*/
/* VERIF-UNIT
{
 "name": "raw_write_blk_bounce_force",
 "props": [
  "C17"
 ],
 "level": "U",
 "tier": "thorough",
 "harness": "h_raw_write",
 "enforce": [
  "raw_write_blk"
 ],
 "replace": [
  "memcpy",
  "memset"
 ],
 "loop_contracts": true,
 "unwind": 24,
 "unwind_reason": "the bounce loop is closed by its in-place loop contract; the bound only serves DFCC library loops",
 "defines": [
  "CFG_BS=16",
  "CFG_ALIGN=0",
  "CFG_FORCE=1",
  "RAW_NO_CALL_EVENTS",
  "CFG_NO_PTHREAD"
 ],
 "functions": [
  "lib/ext2fs/unix_io.c:raw_write_blk"
 ],
 "assumes": [
  "no write_error handler installed",
  "block < 2^46, 0 <= data->offset < 2^50, request below 2 GiB",
  "WIP ONLY BECAUSE IT NEEDS hooks-pending/uio.diff (loop-contract anchors); green with it, thorough tier",
  "failing system calls set errno to a non-zero value (POSIX)",
  "read() on the device comes back short only at end of device",
  "configuration bound: block_size 16, IO_FLAG_FORCE_BOUNCE without alignment (align becomes 1, align_size 16)"
 ],
 "backend": "cadical",
 "timeout": 300,
 "native": false,
 "no_cross_check": true
}
*/
/* VERIF-UNIT
{
 "name": "raw_read_blk_direct",
 "props": ["C17"],
 "level": "U",
 "tier": "quick",
 "harness": "h_raw_read",
 "enforce": ["raw_read_blk"],
 "replace": ["memcpy", "memset"],
 "unwind": 24,
 "unwind_reason": "loop-free path (no alignment, no forced bounce); the bound only serves DFCC library loops",
 "defines": ["CFG_BS=1024", "CFG_ALIGN=0", "CFG_FORCE=0", "RAW_NO_CALL_EVENTS", "CFG_NO_PTHREAD"],
 "functions": ["lib/ext2fs/unix_io.c:raw_read_blk"],
 "assumes": ["no read_error handler installed", "block < 2^46, 0 <= data->offset < 2^50, request below 2 GiB", "failing system calls set errno to a non-zero value (POSIX)", "requests of at most 64 KiB here (built-in memset of the error path)"],
 "backend": "cadical",
 "timeout": 300,
 "native": false
}
*/
/* VERIF-UNIT
{
 "name": "raw_read_blk_bounce_a8",
 "props": [
  "C17"
 ],
 "level": "U",
 "tier": "thorough",
 "harness": "h_raw_read",
 "enforce": [
  "raw_read_blk"
 ],
 "replace": [
  "memcpy",
  "memset"
 ],
 "loop_contracts": true,
 "unwind": 24,
 "unwind_reason": "the bounce loop is closed by its in-place loop contract; the bound only serves DFCC library loops",
 "defines": [
  "CFG_BS=16",
  "CFG_ALIGN=8",
  "CFG_FORCE=0",
  "RAW_NO_CALL_EVENTS",
  "CFG_NO_PTHREAD"
 ],
 "functions": [
  "lib/ext2fs/unix_io.c:raw_read_blk"
 ],
 "assumes": [
  "WIP ONLY BECAUSE IT NEEDS hooks-pending/uio.diff (loop-contract anchors); green with it, thorough tier",
  "no read_error handler installed",
  "block < 2^46, 0 <= data->offset < 2^50",
  "failing system calls set errno to a non-zero value (POSIX)",
  "read() comes back short only at end of device",
  "configuration bound: block_size 16, alignment 8; requests of at most 4 KiB",
  "memcpy/memset replaced by contracts that are faithful at the tracked addresses (stated on the libc functions, not enforced)"
 ],
 "backend": "cadical",
 "timeout": 300,
 "native": false,
 "no_cross_check": true
}
*/
/* VERIF-UNIT
{
 "name": "raw_read_blk_bounce_a64",
 "props": [
  "C17"
 ],
 "level": "U",
 "tier": "thorough",
 "harness": "h_raw_read",
 "enforce": [
  "raw_read_blk"
 ],
 "replace": [
  "memcpy",
  "memset"
 ],
 "loop_contracts": true,
 "unwind": 24,
 "unwind_reason": "the bounce loop is closed by its in-place loop contract; the bound only serves DFCC library loops",
 "defines": [
  "CFG_BS=16",
  "CFG_ALIGN=64",
  "CFG_FORCE=0",
  "RAW_NO_CALL_EVENTS",
  "CFG_NO_PTHREAD"
 ],
 "functions": [
  "lib/ext2fs/unix_io.c:raw_read_blk"
 ],
 "assumes": [
  "WIP ONLY BECAUSE IT NEEDS hooks-pending/uio.diff (loop-contract anchors); green with it, thorough tier",
  "no read_error handler installed",
  "block < 2^46, 0 <= data->offset < 2^50",
  "failing system calls set errno to a non-zero value (POSIX)",
  "read() comes back short only at end of device",
  "configuration bound: block_size 16, alignment 64; requests of at most 4 KiB",
  "memcpy/memset replaced by contracts that are faithful at the tracked addresses (stated on the libc functions, not enforced)"
 ],
 "backend": "cadical",
 "timeout": 300,
 "native": false,
 "no_cross_check": true
}
*/

/* ---- ghost state of the device model: ONE object, so that it is one DFCC assigns target ---- */
struct dev_model {
	long long eof;		/* device size in bytes */
	long long pos;		/* file position (lseek/read/write) */
	long long log_off;	/* offset of the last positioned request (pread64/pwrite64/llseek) */
	unsigned long log_len;	/* length of the last transfer request */
	unsigned int npread, npwrite, nseek;
	int err;		/* errno */
	unsigned char disk;	/* device byte at L* */
	int last_write_short;	/* the most recent write()/pwrite64() came back short (0 <= r < n) */
	unsigned char *btrack;	/* the byte of the bounce buffer that corresponds to L* in the current aligned unit (set by read()) */
} GD;
#define g_btrack GD.btrack
#define g_last_write_short GD.last_write_short
const unsigned char *g_utrack;	/* the byte of the caller's buffer that corresponds to L* (0: request does not cover L*) */
#define g_disk GD.disk
#define g_eof GD.eof
#define g_pos GD.pos
#define g_log_off GD.log_off
#define g_log_len GD.log_len
#define g_npread GD.npread
#define g_npwrite GD.npwrite
#define g_nseek GD.nseek
#define g_errno GD.err
unsigned long long g_addr;	/* byte address of L* on the device */
unsigned char g_disk0;		/* device byte at L* on entry */
/* entry values of raw_*_blk's byte cursor, for the loop invariants */
long long g_loc0;
long g_size0;
const unsigned char *g_buf0;

#define RAW_DEVICE_FRAME , GD; data->bounce != 0: __CPROVER_object_whole(data->bounce)
#define RAW_DEVICE_GHOST_IS_STRUCT
#define IN_EXTRA long long eof, pos;

/*
 * Invariants of the two bounce loops (expanded inside the real functions; size, buf, location, aligned_blk, align_size,
 * offset, actual, really_read are their variables).  [g_loc0, cur) is the part of the request already transferred.
 */
#define DONE ((long long)(g_size0 - size))
#define BTRACK_OK (g_btrack == 0 || (__CPROVER_same_object(g_btrack, data->bounce) && \
	__CPROVER_POINTER_OFFSET(g_btrack) >= 0 && __CPROVER_POINTER_OFFSET(g_btrack) < align_size))
#define POS_OK (g_pos >= 0 && g_pos < (1LL << 61) && g_eof >= 0 && g_eof < (1LL << 62))
#define ADDR_IN(lo, hi) ((long long)g_addr >= (lo) && (long long)g_addr < (hi))
#define VERIF_INV_RAW_WRITE_BLK_BOUNCE \
	__CPROVER_assigns(size, buf, location, aligned_blk, offset, actual, retval, __CPROVER_object_whole(data->bounce), GD) \
	__CPROVER_loop_invariant(0 <= size && size <= g_size0 && buf == g_buf0 + DONE && location == g_loc0 + DONE) \
	__CPROVER_loop_invariant(0 <= offset && offset < align_size && (size == g_size0 || offset == 0)) \
	__CPROVER_loop_invariant(size == 0 || (long long)(aligned_blk * align_size) + offset == location) \
	__CPROVER_loop_invariant(POS_OK && BTRACK_OK && g_last_write_short == 0) \
	__CPROVER_loop_invariant(ADDR_IN(g_loc0, location) ? g_disk == g_buf0[(long long)g_addr - g_loc0] : g_disk == g_disk0) \
	__CPROVER_loop_invariant((long long)g_addr < g_eof || g_disk == 0 || ADDR_IN(g_loc0, location)) \
	__CPROVER_decreases(size)
#define VERIF_INV_RAW_READ_BLK_BOUNCE \
	__CPROVER_assigns(size, buf, aligned_blk, offset, actual, really_read, __CPROVER_object_whole(data->bounce), \
		__CPROVER_object_whole(g_buf0), GD) \
	__CPROVER_loop_invariant(0 <= size && size <= g_size0 && really_read == DONE && buf == g_buf0 + DONE) \
	__CPROVER_loop_invariant(0 <= offset && offset < align_size && (size == g_size0 || offset == 0)) \
	__CPROVER_loop_invariant(size == 0 || (long long)(aligned_blk * align_size) + offset == g_loc0 + DONE) \
	__CPROVER_loop_invariant(POS_OK && BTRACK_OK && g_pos == (long long)(aligned_blk * align_size)) \
	__CPROVER_loop_invariant(!ADDR_IN(g_loc0, g_loc0 + DONE) || g_buf0[(long long)g_addr - g_loc0] == g_disk) \
	__CPROVER_loop_invariant(g_keep == 0 || *g_keep == g_keep0) \
	__CPROVER_loop_invariant(g_disk == g_disk0) \
	__CPROVER_decreases(size)
unsigned char g_keep0;

#include "cache_common.h"

/*
 * libc memcpy / memset as seen by the bounce-buffer paths (CBMC's own models take a symbolic length through array
 * comprehensions, which made one loop step cost 8 minutes).  Source readable / destination writable are obligations at
 * every call.  The copy is faithful at the two tracked addresses (true of memcpy at every address); the destination
 * OBJECT is otherwise unconstrained afterwards, except that a tracked byte outside [dst, dst+n) keeps its value.
 */
#define P_OFF(p) __CPROVER_POINTER_OFFSET(p)
#define P_IN(p, base, n) ((p) != 0 && __CPROVER_same_object((p), (base)) && P_OFF(p) >= P_OFF(base) && \
	(unsigned long long)(P_OFF(p) - P_OFF(base)) < (unsigned long long)(n))
#define P_OUT(p, base, n) ((p) != 0 && __CPROVER_same_object((p), (base)) && !(P_OFF(p) >= P_OFF(base) && \
	(unsigned long long)(P_OFF(p) - P_OFF(base)) < (unsigned long long)(n)))
#define AT(dst, p, src) (((unsigned char *)(dst))[P_OFF(p) - P_OFF(src)])
void *memcpy(void *dst, const void *src, size_t n)
	REQUIRES(__CPROVER_r_ok(src, n) && __CPROVER_w_ok(dst, n))
	ASSIGNS(__CPROVER_object_whole(dst))
	ENSURES(RET == dst)
	ENSURES(!P_IN(g_utrack, src, n) || AT(dst, g_utrack, src) == *g_utrack)
	ENSURES(!P_IN(g_btrack, src, n) || AT(dst, g_btrack, src) == *g_btrack)
	ENSURES(!P_OUT(g_utrack, dst, n) || *g_utrack == OLD(*g_utrack))
	ENSURES(!P_OUT(g_btrack, dst, n) || *g_btrack == OLD(*g_btrack))
	ENSURES(!P_OUT(g_keep, dst, n) || *g_keep == OLD(*g_keep));
void *memset(void *s, int c, size_t n)
	REQUIRES(__CPROVER_w_ok(s, n))
	ASSIGNS(__CPROVER_object_whole(s))
	ENSURES(RET == s)
	ENSURES(!P_IN(g_btrack, s, n) || *g_btrack == (unsigned char)c)
	ENSURES(!P_OUT(g_btrack, s, n) || *g_btrack == OLD(*g_btrack))
	ENSURES(!P_OUT(g_utrack, s, n) || *g_utrack == OLD(*g_utrack))
	ENSURES(!P_OUT(g_keep, s, n) || *g_keep == OLD(*g_keep));

/* ---- the system calls ---- */
int *__errno_location(void) { return &g_errno; }

int nondet_int(void);
long nondet_long(void);

/* result of a transfer request of n bytes: n, -1 (errno set), or short */
static long xfer_result(unsigned long n)
{
	long r = nondet_long();
	ASSUME(r >= -1 && (unsigned long)(r < 0 ? 0 : r) <= n);
	if (r < 0) {
		g_errno = nondet_int();
		ASSUME(g_errno > 0);
	}
	return r;
}

static void dev_write(const void *buf, long r, long long off)
{
	if (r > 0) {
		if (ADDR_IN(off, off + r))
			g_disk = ((const unsigned char *)buf)[(long long)g_addr - off];
		if (off + r > g_eof)
			g_eof = off + r;	/* a gap between the old end and `off` reads as zeroes: g_disk is 0 there already */
	}
}

static void dev_read(void *buf, long r, long long off)
{
	if (r > 0 && ADDR_IN(off, off + r))
		((unsigned char *)buf)[(long long)g_addr - off] = g_disk;
}

ssize_t pwrite64(int fd, const void *buf, size_t n, __off64_t off)
{
	g_npwrite++; g_log_off = off; g_log_len = n;
	long r = xfer_result(n);
	g_last_write_short = (r >= 0 && (unsigned long)r < n);
	dev_write(buf, r, off);
	return r;
}

ssize_t pread64(int fd, void *buf, size_t n, __off64_t off)
{
	g_npread++; g_log_off = off; g_log_len = n;
	long r = xfer_result(n);
	if (r > 0 && off + r > g_eof)		/* nothing is read beyond the end of the device */
		r = g_eof > off ? g_eof - off : 0;
	dev_read(buf, r, off);
	return r;
}

ext2_loff_t ext2fs_llseek(int fd, ext2_loff_t off, int whence)
{
	g_nseek++; g_log_off = off;
	g_last_write_short = 0;		/* a later device call */
	if (nondet_int()) {
		g_errno = nondet_int();		/* may be 0: the code then reports EXT2_ET_LLSEEK_FAILED */
		ASSUME(g_errno >= 0);
		return -1;
	}
	g_pos = off;
	return off;
}

ssize_t write(int fd, const void *buf, size_t n)
{
	g_log_len = n;
	long r = xfer_result(n);
	g_last_write_short = (r >= 0 && (unsigned long)r < n);
	dev_write(buf, r, g_pos);
	if (r > 0)
		g_pos += r;
	return r;
}

/* read(): short only at the end of the device (assumption of the code's zero-fill), or -1 */
ssize_t read(int fd, void *buf, size_t n)
{
	g_log_len = n;
	g_last_write_short = 0;		/* a later device call */
	long r;
	if (nondet_int()) {
		g_errno = nondet_int();
		ASSUME(g_errno > 0);
		return -1;
	}
	r = (long long)n <= g_eof - g_pos ? (long)n : (g_eof > g_pos ? (long)(g_eof - g_pos) : 0);
	/* the byte of the REQUESTED range that corresponds to L* (the caller may zero-fill it after a short read) */
	g_btrack = ADDR_IN(g_pos, g_pos + (long long)n) ? (unsigned char *)buf + ((long long)g_addr - g_pos) : 0;
	dev_read(buf, r, g_pos);
	g_pos += r;
	return r;
}

/* ---- harnesses ---- */
#define AS_CFG ((CFG_ALIGN == 0) ? CFG_BS : ((CFG_BS > CFG_ALIGN && CFG_BS % CFG_ALIGN == 0) ? CFG_BS : CFG_ALIGN))
#define MARGIN 8
static unsigned char *UOBJ;	/* the caller's buffer object: MARGIN bytes, [misalign], the buffer, MARGIN bytes */

static void build_raw(unsigned long maxreq)
{
	struct unix_private_data *data = &DATA;
	LOAD_IN();
	CH = (struct struct_io_channel){ 0 };	/* (memset is replaced by its contract in these units) */
	DATA = (struct unix_private_data){ 0 };
	CH.magic = EXT2_ET_MAGIC_IO_CHANNEL;
	CH.block_size = CFG_BS;
	CH.align = CFG_ALIGN;
	CH.private_data = &DATA;
	DATA.magic = EXT2_ET_MAGIC_UNIX_IO_CHANNEL;
	DATA.flags = CFG_FORCE ? IO_FLAG_FORCE_BOUNCE : 0;
	DATA.dev = 3;
	DATA.offset = IN.offset;
	ASSUME(IN.offset >= 0 && IN.offset < OFF_MAX);
	ASSUME(IN.block < BLK_MAX && IN.bstar < BLK_MAX && IN.ostar < CFG_BS);
	ASSUME(RAW_RANGE_OK(&CH, &DATA, IN.block, IN.count));
	ASSUME(WR_SIZE(&CH, IN.count) <= maxreq);
	if (CFG_ALIGN || CFG_FORCE) {
		/* alloc_cache: io_channel_alloc_buf(channel, 0, &data->bounce) = max(block_size, align) bytes */
		DATA.bounce = malloc(CFG_BS > CFG_ALIGN ? CFG_BS : CFG_ALIGN);
		ASSUME(DATA.bounce != 0);
	}
	GD = (struct dev_model){ 0 };
	g_bstar = IN.bstar; g_ostar = IN.ostar; g_disk = IN.disk;
	g_addr = IN.bstar * CFG_BS + IN.ostar + (unsigned long long)IN.offset;
	g_eof = IN.eof; g_pos = IN.pos;
	ASSUME(IN.eof >= 0 && IN.eof < (1LL << 61) && IN.pos >= 0 && IN.pos < (1LL << 61));
	ASSUME((long long)g_addr < g_eof || g_disk == 0);	/* beyond the end of the device there are only zeroes to come */
	g_disk0 = g_disk;
	g_npread = g_npwrite = g_nseek = 0; g_errno = 0; g_keep = 0; g_btrack = 0; g_utrack = 0;
	g_loc0 = (long long)(IN.block * CFG_BS) + IN.offset;
	g_size0 = (long)WR_SIZE(&CH, IN.count);
	ASSUME(IN.misalign < 8);
	UOBJ = malloc(MARGIN + 8 + g_size0 + MARGIN);
	ASSUME(UOBJ != 0);
	g_buf0 = UOBJ + MARGIN + IN.misalign;
}

void h_raw_write(void)
{
	build_raw(1UL << 20);
	int covers = COVERS(&CH, IN.block, IN.count) != 0;
	unsigned char mine = 0;
	if (covers) {
		mine = IN.newbyte;
		UOBJ[MARGIN + IN.misalign + OFF_AT(&CH, IN.block)] = mine;
		g_utrack = &g_buf0[OFF_AT(&CH, IN.block)];
	}
	errcode_t r = raw_write_blk(&CH, &DATA, IN.block, IN.count, g_buf0, IN.which & RAW_WRITE_NO_HANDLER);
	/* the request covers L* exactly when g_addr lies in [location, location+size): ties the (block, byte) view to byte addresses */
	CHECK(covers == ADDR_IN(g_loc0, g_loc0 + g_size0), "COVERS is the byte range [block*block_size + offset, +size)");
	CHECK(r != 0 || !covers || g_disk == mine, "success: the caller's byte is on the device");
	CHECK(covers || g_disk == g_disk0, "a byte outside the requested range keeps its device value (read-modify-write of partial aligned units), whatever the outcome");
#if CFG_ALIGN == 0 && !CFG_FORCE
	{
		CHECK(g_npwrite == 1 && g_log_off == g_loc0 && g_log_len == (unsigned long)g_size0, "pwrite64 (and the lseek+write retry) is handed block*block_size + data->offset and the request size");
		REACH("direct");
	}
#endif
	CHECK(r == 0 || r == EXT2_ET_SHORT_WRITE || r == EXT2_ET_LLSEEK_FAILED || r == g_errno, "failure codes: errno of the failing call, SHORT_WRITE or LLSEEK_FAILED");
	CHECK(!g_last_write_short || r == EXT2_ET_SHORT_WRITE, "a short write ends the request with EXT2_ET_SHORT_WRITE");
	REACH("end");
}

void h_raw_read(void)
{
	build_raw(CFG_ALIGN || CFG_FORCE ? 4096 : 65536);
	int covers = COVERS(&CH, IN.block, IN.count) != 0;
	/* one tracked byte of the caller's object OUTSIDE the buffer (the margins / misalignment gap) */
	ASSUME(IN.which < MARGIN + 8 + (unsigned long)g_size0 + MARGIN);
	g_keep = UOBJ + IN.which;
	ASSUME(g_keep < g_buf0 || g_keep >= g_buf0 + g_size0);
	UOBJ[IN.which] = IN.newbyte; g_keep0 = IN.newbyte;
	g_utrack = covers ? &g_buf0[OFF_AT(&CH, IN.block)] : 0;
	errcode_t r = raw_read_blk(&CH, &DATA, IN.block, IN.count, (void *)g_buf0);
	CHECK(r != 0 || !covers || g_buf0[OFF_AT(&CH, IN.block)] == g_disk, "success: the buffer holds the device byte at L*");
	CHECK(*g_keep == IN.newbyte, "nothing outside the caller's buffer range is written");
	CHECK(g_disk == g_disk0, "reading does not change the device");
#if CFG_ALIGN == 0 && !CFG_FORCE
	{
		CHECK(g_npread == 1 && g_log_off == g_loc0 && g_log_len == (unsigned long)g_size0, "pread64 (and the lseek+read retry) is handed block*block_size + data->offset and the request size");
		REACH("direct");
	}
#endif
	CHECK(r == 0 || r == EXT2_ET_SHORT_READ || r == EXT2_ET_LLSEEK_FAILED || r == g_errno, "failure codes");
	REACH("end");
}
