/*
 * lib/ext2fs/io_manager.c: the io_channel_* wrappers every caller goes through.  They dispatch to the manager's 64-bit
 * entry point when it exists, else to the 32-bit one after a range check, else report the documented error.  The
 * manager's entry points are stubs that record which one was called with what.
 */
/* VERIF-UNIT
{
 "name": "io_channel_wrappers",
 "props": ["C17"],
 "level": "U",
 "tier": "quick",
 "harness": "h_wrappers",
 "enforce": ["io_channel_read_blk64", "io_channel_write_blk64", "io_channel_write_byte", "io_channel_discard", "io_channel_zeroout", "io_channel_cache_readahead"],
 "unwind": 12,
 "unwind_reason": "loop-free; the bound only serves DFCC library loops",
 "functions": ["lib/ext2fs/io_manager.c:io_channel_read_blk64", "lib/ext2fs/io_manager.c:io_channel_write_blk64", "lib/ext2fs/io_manager.c:io_channel_write_byte", "lib/ext2fs/io_manager.c:io_channel_discard", "lib/ext2fs/io_manager.c:io_channel_zeroout", "lib/ext2fs/io_manager.c:io_channel_cache_readahead"],
 "assumes": ["a manager always provides the 32-bit read_blk / write_blk entry points (every manager in the tree does)"],
 "backend": "cadical",
 "timeout": 200,
 "native": false
}
*/
#include "verif.h"
struct in_iomgr {
	unsigned long long block, count64;
	int count;
	unsigned long offset;
	unsigned char have64r, have64w, have_wb, have_discard, have_zero, have_ra, bad_magic;
	unsigned int which;
	long ret;
};
struct in_iomgr IN;
#include "verif_in.h"

/* recorders */
unsigned int g_n64, g_n32, g_nother;
unsigned long long g_blk, g_cnt64;
int g_cnt;
unsigned long g_off;
const void *g_buf;
long g_ret;

#include "lib/ext2fs/io_manager.c"

static errcode_t m_read_blk(io_channel c, unsigned long block, int count, void *data)
{ g_n32++; g_blk = block; g_cnt = count; g_buf = data; return g_ret; }
static errcode_t m_write_blk(io_channel c, unsigned long block, int count, const void *data)
{ g_n32++; g_blk = block; g_cnt = count; g_buf = data; return g_ret; }
static errcode_t m_read_blk64(io_channel c, unsigned long long block, int count, void *data)
{ g_n64++; g_blk = block; g_cnt = count; g_buf = data; return g_ret; }
static errcode_t m_write_blk64(io_channel c, unsigned long long block, int count, const void *data)
{ g_n64++; g_blk = block; g_cnt = count; g_buf = data; return g_ret; }
static errcode_t m_write_byte(io_channel c, unsigned long offset, int count, const void *data)
{ g_nother++; g_off = offset; g_cnt = count; g_buf = data; return g_ret; }
static errcode_t m_discard(io_channel c, unsigned long long block, unsigned long long count)
{ g_nother++; g_blk = block; g_cnt64 = count; return g_ret; }
static errcode_t m_zeroout(io_channel c, unsigned long long block, unsigned long long count)
{ g_nother++; g_blk = block; g_cnt64 = count; return g_ret; }
static errcode_t m_readahead(io_channel c, unsigned long long block, unsigned long long count)
{ g_nother++; g_blk = block; g_cnt64 = count; return g_ret; }

#define MAGIC_OK(ch) ((ch)->magic == EXT2_ET_MAGIC_IO_CHANNEL)
#define NONE_CALLED (g_n64 == 0 && g_n32 == 0 && g_nother == 0)
#define FRAME g_n64, g_n32, g_nother, g_blk, g_cnt64, g_cnt, g_off, g_buf
#define FRESH_COUNTERS (g_n64 == 0 && g_n32 == 0 && g_nother == 0)

/* 64-bit block numbers: the 64-bit entry when there is one; else the 32-bit entry, but only for numbers that fit */
#define BLK64_DISPATCH(entry64) \
	ENSURES(MAGIC_OK(channel) || (RET == EXT2_ET_MAGIC_IO_CHANNEL && NONE_CALLED)) \
	ENSURES(!MAGIC_OK(channel) || !(channel->manager->entry64) || \
		(g_n64 == 1 && g_n32 == 0 && g_blk == block && g_cnt == count && g_buf == data && RET == g_ret)) \
	ENSURES(!MAGIC_OK(channel) || (channel->manager->entry64) || (block >> 32) == 0 || \
		(RET == EXT2_ET_IO_CHANNEL_NO_SUPPORT_64 && NONE_CALLED)) \
	ENSURES(!MAGIC_OK(channel) || (channel->manager->entry64) || (block >> 32) != 0 || \
		(g_n32 == 1 && g_n64 == 0 && g_blk == block && g_cnt == count && g_buf == data && RET == g_ret))

errcode_t io_channel_read_blk64(io_channel channel, unsigned long long block, int count, void *data)
	REQUIRES(FRESH_COUNTERS && channel->manager->read_blk != 0)
	BLK64_DISPATCH(read_blk64)
	ASSIGNS(FRAME);

errcode_t io_channel_write_blk64(io_channel channel, unsigned long long block, int count, const void *data)
	REQUIRES(FRESH_COUNTERS && channel->manager->write_blk != 0)
	BLK64_DISPATCH(write_blk64)
	ASSIGNS(FRAME);

/* optional operations: the manager's entry with the very arguments, or EXT2_ET_UNIMPLEMENTED */
#define OPTIONAL_DISPATCH(entry, ARGS_OK) \
	ENSURES(MAGIC_OK(channel) || (RET == EXT2_ET_MAGIC_IO_CHANNEL && NONE_CALLED)) \
	ENSURES(!MAGIC_OK(channel) || !(channel->manager->entry) || (g_nother == 1 && g_n64 == 0 && g_n32 == 0 && (ARGS_OK) && RET == g_ret)) \
	ENSURES(!MAGIC_OK(channel) || (channel->manager->entry) || (RET == EXT2_ET_UNIMPLEMENTED && NONE_CALLED))

errcode_t io_channel_write_byte(io_channel channel, unsigned long offset, int count, const void *data)
	REQUIRES(FRESH_COUNTERS)
	OPTIONAL_DISPATCH(write_byte, g_off == offset && g_cnt == count && g_buf == data)
	ASSIGNS(FRAME);

errcode_t io_channel_discard(io_channel channel, unsigned long long block, unsigned long long count)
	REQUIRES(FRESH_COUNTERS)
	OPTIONAL_DISPATCH(discard, g_blk == block && g_cnt64 == count)
	ASSIGNS(FRAME);

errcode_t io_channel_zeroout(io_channel channel, unsigned long long block, unsigned long long count)
	REQUIRES(FRESH_COUNTERS)
	OPTIONAL_DISPATCH(zeroout, g_blk == block && g_cnt64 == count)
	ASSIGNS(FRAME);

/* read-ahead is a hint: no magic check, EXT2_ET_OP_NOT_SUPPORTED when the manager has none */
errcode_t io_channel_cache_readahead(io_channel io, unsigned long long block, unsigned long long count)
	REQUIRES(FRESH_COUNTERS)
	ENSURES(!(io->manager->cache_readahead) || (g_nother == 1 && g_blk == block && g_cnt64 == count && RET == g_ret))
	ENSURES((io->manager->cache_readahead) || (RET == EXT2_ET_OP_NOT_SUPPORTED && NONE_CALLED))
	ASSIGNS(FRAME);

static struct struct_io_manager MGR;
static struct struct_io_channel CH;
static char BUF[8];

void h_wrappers(void)
{
	LOAD_IN();
	MGR.magic = EXT2_ET_MAGIC_IO_MANAGER;
	MGR.read_blk = m_read_blk;
	MGR.write_blk = m_write_blk;
	MGR.read_blk64 = IN.have64r ? m_read_blk64 : 0;
	MGR.write_blk64 = IN.have64w ? m_write_blk64 : 0;
	MGR.write_byte = IN.have_wb ? m_write_byte : 0;
	MGR.discard = IN.have_discard ? m_discard : 0;
	MGR.zeroout = IN.have_zero ? m_zeroout : 0;
	MGR.cache_readahead = IN.have_ra ? m_readahead : 0;
	CH.magic = IN.bad_magic ? 0 : EXT2_ET_MAGIC_IO_CHANNEL;
	CH.manager = &MGR;
	g_n64 = g_n32 = g_nother = 0; g_ret = IN.ret;
	errcode_t r;
	switch (IN.which % 6) {
	case 0:
		r = io_channel_read_blk64(&CH, IN.block, IN.count, BUF);
		CHECK(IN.bad_magic || IN.have64r || (IN.block >> 32) == 0 || (r == EXT2_ET_IO_CHANNEL_NO_SUPPORT_64 && g_n32 == 0),
		      "a block number beyond 32 bits is never truncated into the 32-bit entry point");
		REACH("read");
		break;
	case 1:
		r = io_channel_write_blk64(&CH, IN.block, IN.count, BUF);
		CHECK(IN.bad_magic || IN.have64w || (IN.block >> 32) == 0 || (r == EXT2_ET_IO_CHANNEL_NO_SUPPORT_64 && g_n32 == 0),
		      "a block number beyond 32 bits is never truncated into the 32-bit entry point");
		CHECK(IN.bad_magic || (g_n64 + g_n32 == 0) || (g_blk == IN.block && r == g_ret), "the write goes to the block asked for and its result is the caller's result");
		REACH("write");
		break;
	case 2:
		r = io_channel_write_byte(&CH, IN.offset, IN.count, BUF);
		CHECK(IN.bad_magic || IN.have_wb || r == EXT2_ET_UNIMPLEMENTED, "no byte-write entry: EXT2_ET_UNIMPLEMENTED");
		REACH("write_byte");
		break;
	case 3:
		r = io_channel_discard(&CH, IN.block, IN.count64);
		CHECK(IN.bad_magic || IN.have_discard || r == EXT2_ET_UNIMPLEMENTED, "no discard entry: EXT2_ET_UNIMPLEMENTED");
		REACH("discard");
		break;
	case 4:
		r = io_channel_zeroout(&CH, IN.block, IN.count64);
		CHECK(IN.bad_magic || IN.have_zero || r == EXT2_ET_UNIMPLEMENTED, "no zeroout entry: EXT2_ET_UNIMPLEMENTED");
		REACH("zeroout");
		break;
	default:
		r = io_channel_cache_readahead(&CH, IN.block, IN.count64);
		REACH("readahead");
		break;
	}
	REACH("end");
}
