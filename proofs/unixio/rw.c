/*
 * unix_write_blk64 / unix_read_blk64 / unix_write_byte / unix_flush / unix_zeroout against the
 * single-cell coherence abstraction (see cache_common.h).  The device (raw_read_blk, raw_write_blk)
 * and flush_cached_blocks are replaced by the contracts their own units enforce; find_cached_block
 * and reuse_cache are the REAL functions.  Loop bounds: WRITE_DIRECT_SIZE = 4 blocks go through the
 * cache, CACHE_SIZE = 8 entries (constants of the code) => complete with unwinding assertions.
 */
/* VERIF-UNIT
{
 "name": "unix_write_blk64",
 "props": ["C17"],
 "level": "U/k",
 "tier": "wip",
 "harness": "h_write",
 "enforce": ["unix_write_blk64"],
 "replace": ["raw_write_blk", "flush_cached_blocks"],
 "unwind": 9,
 "unwindset": {"build_channel.0": 9, "find_cached_block.0": 9, "unix_write_blk64.0": 5},
 "unwind_reason": "cached path only for 1..WRITE_DIRECT_SIZE(4) blocks; CACHE_SIZE is 8",
 "defines": ["CFG_BS=16"],
 "functions": ["lib/ext2fs/unix_io.c:unix_write_blk64", "lib/ext2fs/unix_io.c:find_cached_block", "lib/ext2fs/unix_io.c:reuse_cache"],
 "assumes": ["IO_FLAG_THREADS clear", "no write_error handler installed", "block size fixed to 16 bytes for this unit (the function only scales buffer offsets by it)", "fewer than 2^31 cache accesses", "caller's buffer does not alias a cache buffer"],
 "backend": "cadical",
 "timeout": 400,
 "cbmc_flags": ["--object-bits", "12"],
 "native": false
}
*/
/* VERIF-UNIT
{
 "name": "unix_read_blk64",
 "props": ["C17"],
 "level": "U/k",
 "tier": "wip",
 "harness": "h_read",
 "enforce": ["unix_read_blk64"],
 "replace": ["raw_write_blk", "raw_read_blk", "flush_cached_blocks"],
 "unwind": 9,
 "unwindset": {"build_channel.0": 9, "find_cached_block.0": 9, "unix_read_blk64.0": 5, "unix_read_blk64.1": 5, "unix_read_blk64.2": 5},
 "unwind_reason": "cached path only for 1..READ/WRITE_DIRECT_SIZE(4) blocks; CACHE_SIZE is 8",
 "defines": ["CFG_BS=16"],
 "functions": ["lib/ext2fs/unix_io.c:unix_read_blk64", "lib/ext2fs/unix_io.c:find_cached_block", "lib/ext2fs/unix_io.c:reuse_cache"],
 "assumes": ["IO_FLAG_THREADS clear", "no read_error/write_error handler installed", "block size fixed to 16 bytes for this unit", "fewer than 2^31 cache accesses"],
 "backend": "cadical",
 "timeout": 400,
 "cbmc_flags": ["--object-bits", "12"],
 "native": false
}
*/
#include "cache_common.h"

int g_covered;		/* ghost: the write range covers L* */
unsigned char g_new;	/* ghost: the byte the caller writes at L* */

#define MAXBLK 8
static unsigned char UBUF[MAXBLK * CFG_BS];	/* the caller's buffer */

static errcode_t unix_write_blk64(io_channel channel, unsigned long long block, int count, const void *buf)
	REQUIRES(coherent((struct unix_private_data *)channel->private_data) && channel->write_error == 0)
	REQUIRES(g_covered == (COVERS(channel, block, count) != 0) && (!g_covered || g_new == BUF_AT(channel, block, count, buf)))
	/* success: the cache/device pair is coherent w.r.t. the byte just written (g_new) when the range covers L* */
	ENSURES(RET != 0 || coherent_l((struct unix_private_data *)channel->private_data, g_covered ? g_new : g_logical))
	ENSURES(RET != 0 || !(channel->flags & CHANNEL_FLAGS_WRITETHROUGH) || !g_covered || g_disk == g_new)
	/* a failed device write is reported to the caller */
	ENSURES(!g_wfail || RET != 0)
	ASSIGNS(__CPROVER_object_whole(channel->private_data), g_disk, g_nwrites, g_wfail);

void h_write(void)
{
	build_channel();
	struct unix_private_data *data = &DATA;
	ASSUME(IN.count != 0 && IN.count >= -(MAXBLK * CFG_BS) && IN.count <= MAXBLK);
	ASSUME(IN.block < 0x1000000ULL);
#ifndef VERIF_NATIVE
	__CPROVER_havoc_object(UBUF);
#endif
	g_covered = COVERS(&CH, IN.block, IN.count);
	g_new = g_covered ? BUF_AT(&CH, IN.block, IN.count, UBUF) : 0;
	errcode_t r = unix_write_blk64(&CH, IN.block, IN.count, UBUF);
	if (r == 0 && g_covered)
		g_logical = g_new;
	CHECK(r != 0 || coherent(data), "after a successful write a read of L* returns the byte just written (cache coherent with device)");
	CHECK(r != 0 || !(CH.flags & CHANNEL_FLAGS_WRITETHROUGH) || g_disk == g_logical, "write-through: the device holds the data on return");
	CHECK(!g_wfail || r != 0, "a failed device write is reported to the caller");
	REACH("end");
}

static errcode_t unix_read_blk64(io_channel channel, unsigned long long block, int count, void *buf)
	REQUIRES(coherent((struct unix_private_data *)channel->private_data) && channel->write_error == 0 && channel->read_error == 0)
	ENSURES(RET != 0 || coherent((struct unix_private_data *)channel->private_data))
	ENSURES(RET != 0 || !COVERS(channel, block, count) || BUF_AT(channel, block, count, buf) == g_logical)
	ENSURES(!g_wfail || RET != 0)
	ASSIGNS(__CPROVER_object_whole(channel->private_data), __CPROVER_object_whole(buf), g_disk, g_nwrites, g_nreads, g_wfail);

void h_read(void)
{
	build_channel();
	struct unix_private_data *data = &DATA;
	ASSUME(IN.count != 0 && IN.count >= -(MAXBLK * CFG_BS) && IN.count <= MAXBLK);
	ASSUME(IN.block < 0x1000000ULL);
	errcode_t r = unix_read_blk64(&CH, IN.block, IN.count, UBUF);
	CHECK(r != 0 || !COVERS(&CH, IN.block, IN.count) || BUF_AT(&CH, IN.block, IN.count, UBUF) == g_logical,
	      "a read returns the most recently written byte at L*");
	CHECK(r != 0 || coherent(data), "read keeps the cache coherent");
	CHECK(!g_wfail || r != 0, "a failed device write (eviction) is reported to the caller");
	REACH("end");
}
