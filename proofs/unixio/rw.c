/*
 * unix_write_blk64 / unix_read_blk64 against the single-cell coherence abstraction (see cache_common.h), STRICTLY
 * modular: find_cached_block, reuse_cache, flush_cached_blocks, raw_read_blk, raw_write_blk and memcpy are all replaced
 * by the contracts their own units enforce (cache.c, raw.c); the `while (count > 0)` loops carry in-place loop contracts
 * (named anchors in lib/ext2fs/unix_io.c, invariant text below).
 *
 * Each function has ONE contract; it is enforced by several harnesses that partition the requests:
 *   *_cached : 1 <= count <= WRITE_DIRECT_SIZE (4), cache on        -> the loop
 *   *_direct : count < 0 (byte count) or count > 4, or IO_FLAG_NOCACHE -> flush (+invalidate) and one device request
 */
/* VERIF-UNIT
{
 "name": "unix_write_blk64",
 "props": ["C17"],
 "level": "U",
 "tier": "wip",
 "harness": "h_write_cached",
 "enforce": ["unix_write_blk64"],
 "replace": ["find_cached_block", "reuse_cache", "flush_cached_blocks", "raw_write_blk", "memcpy"],
 "loop_contracts": true,
 "unwind": 64,
 "unwindset": {"build_channel.0": 9},
 "unwind_reason": "only the harness loop that builds the 8 cache entries and DFCC library loops are unwound; the function's loop is closed by its loop contract",
 "defines": ["CFG_BS=16", "CFG_NO_PTHREAD"],
 "functions": ["lib/ext2fs/unix_io.c:unix_write_blk64"],
 "assumes": ["IO_FLAG_THREADS clear", "no write_error handler installed", "block size in {16, 1024}: 16 is a configuration bound for tractability (the function only adds the block size to a cursor and passes it on as a length), 1024 the smallest real block size", "fewer than 2^31-512 cache accesses per channel (int access clock)", "caller's buffer does not alias a cache buffer", "block numbers below 2^46", "CHANNEL_FLAGS_WRITETHROUGH is set before any block is dirtied (nothing in the tree toggles it)"],
 "backend": "cadical",
 "timeout": 300,
 "cbmc_flags": ["--object-bits", "10"],
 "native": false
}
*/
/* VERIF-UNIT
{
 "name": "unix_write_blk64_direct",
 "props": ["C17"],
 "level": "U",
 "tier": "wip",
 "harness": "h_write_direct",
 "enforce": ["unix_write_blk64"],
 "replace": ["find_cached_block", "reuse_cache", "flush_cached_blocks", "raw_write_blk", "memcpy"],
 "loop_contracts": true,
 "unwind": 64,
 "unwindset": {"build_channel.0": 9},
 "unwind_reason": "only the harness loop that builds the 8 cache entries and DFCC library loops are unwound",
 "defines": ["CFG_BS=16", "CFG_NO_PTHREAD"],
 "functions": ["lib/ext2fs/unix_io.c:unix_write_blk64"],
 "assumes": ["IO_FLAG_THREADS clear", "no write_error handler installed", "block size in {16, 1024} (16: configuration bound)", "requests of at most 8 blocks / 8*block_size bytes (the path is one flush and one device request whatever the size)", "block numbers below 2^46"],
 "backend": "cadical",
 "timeout": 300,
 "cbmc_flags": ["--object-bits", "10"],
 "native": false
}
*/
/* VERIF-UNIT
{
 "name": "unix_write_blk64_unw",
 "props": ["C17"],
 "level": "U/k",
 "tier": "wip",
 "harness": "h_write_cached",
 "enforce": ["unix_write_blk64"],
 "replace": ["find_cached_block", "reuse_cache", "flush_cached_blocks", "raw_write_blk", "memcpy"],
 "unwind": 64,
 "unwindset": {"build_channel.0": 9, "unix_write_blk64.0": 5},
 "unwind_reason": "cached path only for 1..WRITE_DIRECT_SIZE(4) blocks",
 "defines": ["CFG_BS=16", "CFG_NO_PTHREAD"],
 "functions": ["lib/ext2fs/unix_io.c:unix_write_blk64"],
 "assumes": [],
 "backend": "cadical",
 "timeout": 300,
 "cbmc_flags": ["--object-bits", "10"],
 "native": false
}
*/
/* VERIF-UNIT
{
 "name": "unix_write_blk64_rf",
 "props": ["C17"],
 "level": "U",
 "tier": "wip",
 "harness": "h_write_cached",
 "enforce": ["unix_write_blk64"],
 "replace": ["flush_cached_blocks", "raw_write_blk", "memcpy"],
 "loop_contracts": true,
 "unwind": 64,
 "unwindset": {"build_channel.0": 9, "find_cached_block.0": 9},
 "unwind_reason": "only the harness loop that builds the 8 cache entries and DFCC library loops are unwound; the function's loop is closed by its loop contract",
 "defines": ["CFG_BS=16", "CFG_NO_PTHREAD"],
 "functions": ["lib/ext2fs/unix_io.c:unix_write_blk64"],
 "assumes": ["IO_FLAG_THREADS clear", "no write_error handler installed", "block size in {16, 1024}: 16 is a configuration bound for tractability (the function only adds the block size to a cursor and passes it on as a length), 1024 the smallest real block size", "fewer than 2^31-512 cache accesses per channel (int access clock)", "caller's buffer does not alias a cache buffer", "block numbers below 2^46", "CHANNEL_FLAGS_WRITETHROUGH is set before any block is dirtied (nothing in the tree toggles it)"],
 "backend": "cadical",
 "timeout": 300,
 "cbmc_flags": ["--object-bits", "10"],
 "native": false
}
*/
/* VERIF-UNIT
{
 "name": "unix_write_blk64_unw_rf",
 "props": ["C17"],
 "level": "U/k",
 "tier": "wip",
 "harness": "h_write_cached",
 "enforce": ["unix_write_blk64"],
 "replace": ["reuse_cache", "flush_cached_blocks", "raw_write_blk"],
 "unwind": 64,
 "unwindset": {"build_channel.0": 9, "find_cached_block.0": 9, "unix_write_blk64.0": 5},
 "unwind_reason": "cached path only for 1..WRITE_DIRECT_SIZE(4) blocks",
 "defines": ["CFG_BS=16", "CFG_NO_PTHREAD", "CFG_COARSE_FRAME", "CFG_COUNT=4"],
 "functions": ["lib/ext2fs/unix_io.c:unix_write_blk64"],
 "assumes": [],
 "backend": "cadical",
 "timeout": 300,
 "native": false
}
*/

/* ---- invariant of unix_write_blk64's loop (expanded inside the real function: channel, block, count, buf, data, cache,
 *      reuse, retval, cp, writethrough are its variables) ---- */
#define W_DONE ((unsigned long long)(g_count0 - count))
#define W_PASSED (g_covered && block > g_bstar)
#define VERIF_INV_UNIX_WRITE_BLK64_CACHE \
	__CPROVER_assigns(count, block, cp, cache, reuse, GALL_ENTRY_FIELDS, \
		DATA.access_time, DATA.io_stats.bytes_written, g_disk, g_nwrites, g_wfail, GALL_CBUFS) \
	__CPROVER_loop_invariant(0 <= count && count <= g_count0 && block == g_block0 + W_DONE) \
	__CPROVER_loop_invariant(cp == (const char *)buf + W_DONE * CFG_BS) \
	__CPROVER_loop_invariant(DATA.access_time >= 0 && DATA.access_time <= 0x7ffffe10 - 2 * count) \
	__CPROVER_loop_invariant(writethrough ? !ANY(GINUSE_DIRTY) : retval == 0) \
	__CPROVER_loop_invariant((g_wfail != 0) == (retval != 0)) \
	__CPROVER_loop_invariant( \
		(g_covered && !W_PASSED && writethrough) ? (GNMATCH <= 1 && (retval != 0 || g_disk == g_new)) : \
		(W_PASSED && retval != 0) ? 1 : GCOHERENT_L(W_PASSED ? g_new : g_logical)) \
	__CPROVER_decreases(count)

#include "cache_common.h"

#define PD(ch) ((struct unix_private_data *)(ch)->private_data)
#define ATIME_ENTRY(d) ((d)->access_time >= 0 && (d)->access_time < 0x7ffffe00)
#define BLK_MAX (1ULL << 46)
#define WT(ch) ((ch)->flags & CHANNEL_FLAGS_WRITETHROUGH)
#define data PD(channel)	/* the frame macros speak of `data` */
#ifdef CFG_COARSE_FRAME
#define CACHE_FRAME __CPROVER_object_whole(channel->private_data), ALL_CBUFS
#else
#define CACHE_FRAME ALL_ENTRY_FIELDS, data->access_time, ALL_CBUFS
#endif
/*
 * C17, write side.  Statement (from the property, not from the code):
 *   coherent before => after a successful write the cache/device pair is coherent w.r.t. the byte just written when the
 *   request covers L* (so every later read returns it), w.r.t. the old byte otherwise;
 *   write-through => the device itself holds the new byte on return;
 *   a failed device write (of this request or of a victim evicted on its behalf) is reported to the caller;
 *   a failed request that does not cover L* leaves L* coherent.
 */
static errcode_t unix_write_blk64(io_channel channel, unsigned long long block, int count, const void *buf)
	REQUIRES(channel->magic == EXT2_ET_MAGIC_IO_CHANNEL && PD(channel)->magic == EXT2_ET_MAGIC_UNIX_IO_CHANNEL)
	REQUIRES(coherent(PD(channel)) && bufs_tied(PD(channel)) && channel->write_error == 0 && !(PD(channel)->flags & IO_FLAG_THREADS))
	REQUIRES(ATIME_ENTRY(PD(channel)) && block < BLK_MAX && count != 0)
	REQUIRES(!WT(channel) || !any_dirty(PD(channel)))
	REQUIRES(g_block0 == block && g_count0 == count && g_wfail == 0)
	REQUIRES(g_covered == (COVERS(channel, block, count) != 0) && (!g_covered || g_new == BUF_AT(channel, block, count, buf)))
	ENSURES(RET != 0 || coherent_l(PD(channel), g_covered ? g_new : g_logical))
	ENSURES(RET != 0 || !WT(channel) || !g_covered || g_disk == g_new)
	ENSURES(!g_wfail || RET != 0)
	ENSURES(RET == 0 || g_covered || coherent(PD(channel)))
	ENSURES(!WT(channel) || !any_dirty(PD(channel)))
	ENSURES(bufs_tied(PD(channel)))
	#ifdef CFG_COARSE_FRAME
	ASSIGNS(CACHE_FRAME, g_disk, g_nwrites, g_wfail);
#else
	ASSIGNS(CACHE_FRAME, PD(channel)->io_stats.bytes_written, g_disk, g_nwrites, g_wfail);
#endif
#undef data

static unsigned char *UBUF;	/* the caller's buffer */

static void write_common(void)
{
	struct unix_private_data *data = &DATA;
	ASSUME(IN.block < BLK_MAX && IN.bstar < BLK_MAX);
	ASSUME(!(CH.flags & CHANNEL_FLAGS_WRITETHROUGH) || !any_dirty(data));
	unsigned long long sz = WR_SIZE(&CH, IN.count);
	UBUF = malloc(sz);
	ASSUME(UBUF != 0);
	g_block0 = IN.block; g_count0 = IN.count;
	g_covered = COVERS(&CH, IN.block, IN.count) != 0;
	if (g_covered) {
		UBUF[OFF_AT(&CH, IN.block)] = IN.newbyte;
		g_new = IN.newbyte;
	} else
		g_new = 0;
	unsigned char old_logical = g_logical;
	errcode_t r = unix_write_blk64(&CH, IN.block, IN.count, UBUF);
	/* the byte most recently written to L* through the channel */
	if (r == 0 && g_covered)
		g_logical = g_new;
	CHECK(r != 0 || coherent(data), "after a successful write the cache/device pair is coherent: a read of L* returns the byte just written");
	CHECK(r != 0 || !(CH.flags & CHANNEL_FLAGS_WRITETHROUGH) || g_disk == g_logical, "write-through: the device holds the data on return");
	CHECK(!g_wfail || r != 0, "a failed device write is reported to the caller");
	CHECK(r == 0 || g_covered || (g_logical == old_logical && coherent(data)), "a failed write elsewhere leaves L* coherent");
}

void h_write_cached(void)
{
	build_channel();
#ifdef CFG_COUNT
	/* constants for the symbolic executor: the NOCACHE and direct-I/O branches fold away */
	ASSUME(IN.count == CFG_COUNT);
	IN.count = CFG_COUNT;
	DATA.flags &= ~IO_FLAG_NOCACHE;
#else
	ASSUME(IN.count >= 1 && IN.count <= WRITE_DIRECT_SIZE);
	ASSUME(!(DATA.flags & IO_FLAG_NOCACHE));
#endif
	write_common();
	REACH("end");
}

#define MAXBLK 8
void h_write_direct(void)
{
	build_channel();
	ASSUME(IN.count != 0 && IN.count >= -(int)(MAXBLK * IN.block_size) && IN.count <= MAXBLK);
	ASSUME((DATA.flags & IO_FLAG_NOCACHE) || IN.count < 0 || IN.count > WRITE_DIRECT_SIZE);
	write_common();
	REACH("end");
}
