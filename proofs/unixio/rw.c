/*
 * unix_write_blk64 / unix_read_blk64 (lib/ext2fs/unix_io.c) against the single-cell coherence abstraction of
 * cache_common.h.
 *
 * Callees: reuse_cache, flush_cached_blocks, raw_read_blk, raw_write_blk are REPLACED by the contracts their own units
 * enforce (cache.c, raw.c).  Two deliberate deviations from "everything by contract", both measured, not guessed:
 *  - find_cached_block is the REAL function (its 8-iteration loop is unwound, CACHE_SIZE is a constant of the code; its
 *    contract is enforced separately in cache.c).  A DFCC-replaced call can only return a pointer with a symbolic byte
 *    offset into `struct unix_private_data`; every later access through it then goes through a byte-level update of
 *    the whole structure (12 min, 27 M clauses for one request), and a replaced call that returns one of eight entries
 *    gives CBMC nothing the real eight-way search does not.
 *  - memcpy is CBMC's own model: the block size is a compile-time constant of each unit (CFG_BS), so the copies have
 *    constant length and are exact.
 * Loops: `while (count > 0)` runs at most WRITE_DIRECT_SIZE / READ_DIRECT_SIZE = 4 times on the cached path (constants
 * of the code).  In-place DFCC loop contracts were tried first: with a loop write set that has to name block,
 * access_time and the three state bits of each of the eight entries, DFCC's havoc-through-the-write-set makes the solver
 * run out of 12 GB (symbolic execution alone: 9 min).  The units therefore fix `count` per unit and unwind:
 *   *_c1 : count == 1   (one iteration: the generic step of the loop - any block, any cache state, any write-through
 *                        result; level U for single-block requests, which is what the library issues for metadata)
 *   unix_write_blk64_c2 : count == 2 (two iterations: includes the interplay iteration 1 -> iteration 2: eviction of
 *                        the entry just written, the write-through "device first, cache afterwards" window)
 *   *_direct : count < 0 (byte count), count > 4, or IO_FLAG_NOCACHE: flush (+invalidate) and one device request
 * Writes of 3 and 4 blocks and reads of 2..4 blocks through the cache do not finish within 15 min (the formula grows by
 * about 4 M clauses per iteration because every access through a `struct unix_cache *` is a byte-level update of the
 * whole private structure) and are NOT claimed: the multi-block cached paths are covered at B(2) (write) / not at all
 * (read) - see the report.
 * Block size: CFG_BS = 16 is a configuration bound for tractability - the functions only add the block size to a cursor
 * and pass it on as a length; the *_c1 units are repeated with the smallest real block size, 1024.
 */
/* VERIF-UNIT
{
 "name": "unix_write_blk64_c1",
 "props": ["C17"],
 "level": "U",
 "tier": "quick",
 "harness": "h_write_cached",
 "enforce": ["unix_write_blk64"],
 "replace": ["reuse_cache", "flush_cached_blocks", "raw_write_blk"],
 "unwind": 64,
 "unwindset": {"build_channel.0": 9, "find_cached_block.0": 9, "unix_write_blk64.0": 2},
 "unwind_reason": "count == 1 in this unit: one iteration, unwinding assertion on; CACHE_SIZE is the constant 8; 64 serves the DFCC library loops over assigns targets",
 "defines": ["CFG_BS=16", "CFG_COUNT=1", "CFG_NO_PTHREAD"],
 "functions": ["lib/ext2fs/unix_io.c:unix_write_blk64"],
 "assumes": ["IO_FLAG_THREADS clear; built without HAVE_PTHREAD (see proofs/unixio/config.h)", "no write_error handler installed", "block size 16 (configuration bound, see unix_write_blk64_c1_1k for 1024)", "fewer than 2^31-512 cache accesses per channel (int access clock)", "caller's buffer does not alias a cache buffer", "block numbers below 2^46, 0 <= data->offset < 2^50", "CHANNEL_FLAGS_WRITETHROUGH is set before any block is dirtied (nothing in the tree toggles it)", "WIP BECAUSE OF A GENUINE DEFECT of the pinned tree: postcondition.1/.3 fail (error of a failed eviction swallowed), findings/C17_write_blk_swallow; passes with its proposed-fix.patch"],
 "backend": "cadical",
 "timeout": 400,
 "native": false
}
*/
/* VERIF-UNIT
{
 "name": "unix_write_blk64_c1_1k",
 "props": ["C17"],
 "level": "U",
 "tier": "thorough",
 "harness": "h_write_cached",
 "enforce": ["unix_write_blk64"],
 "replace": ["reuse_cache", "flush_cached_blocks", "raw_write_blk"],
 "unwind": 64,
 "unwindset": {"build_channel.0": 9, "find_cached_block.0": 9, "unix_write_blk64.0": 2},
 "unwind_reason": "count == 1 in this unit: one iteration, unwinding assertion on; CACHE_SIZE is the constant 8",
 "defines": ["CFG_BS=1024", "CFG_COUNT=1", "CFG_NO_PTHREAD"],
 "functions": ["lib/ext2fs/unix_io.c:unix_write_blk64"],
 "assumes": ["as unix_write_blk64_c1, block size 1024 (fails on the pinned tree for the same defect; passes with the fix, ~12 min: thorough)"],
 "backend": "cadical",
 "timeout": 600,
 "native": false
}
*/
/* VERIF-UNIT
{
 "name": "unix_write_blk64_c2",
 "props": ["C17"],
 "level": "B(2)",
 "tier": "thorough",
 "harness": "h_write_cached",
 "enforce": ["unix_write_blk64"],
 "replace": ["reuse_cache", "flush_cached_blocks", "raw_write_blk"],
 "unwind": 64,
 "unwindset": {"build_channel.0": 9, "find_cached_block.0": 9, "unix_write_blk64.0": 3},
 "unwind_reason": "count == 2 in this unit: two iterations, unwinding assertion on; CACHE_SIZE is the constant 8",
 "defines": ["CFG_BS=16", "CFG_COUNT=2", "CFG_NO_PTHREAD"],
 "functions": ["lib/ext2fs/unix_io.c:unix_write_blk64"],
 "assumes": ["as unix_write_blk64_c1; two-block requests only (three and four blocks, the other cached sizes, do not finish); fails on the pinned tree for the same defect; passes with the fix, ~11 min: thorough"],
 "backend": "cadical",
 "timeout": 900,
 "native": false
}
*/
/* VERIF-UNIT
{
 "name": "unix_write_blk64_direct",
 "props": ["C17"],
 "level": "U",
 "tier": "quick",
 "harness": "h_write_direct",
 "enforce": ["unix_write_blk64"],
 "replace": ["reuse_cache", "flush_cached_blocks", "raw_write_blk"],
 "unwind": 64,
 "unwindset": {"build_channel.0": 9, "find_cached_block.0": 9, "unix_write_blk64.0": 1},
 "unwind_reason": "direct path (count < 0, count > WRITE_DIRECT_SIZE or IO_FLAG_NOCACHE): the loop is not entered, unwinding assertion on",
 "defines": ["CFG_BS=16", "CFG_NO_PTHREAD"],
 "functions": ["lib/ext2fs/unix_io.c:unix_write_blk64"],
 "assumes": ["IO_FLAG_THREADS clear; built without HAVE_PTHREAD", "no write_error handler installed", "block size 16 (configuration bound; the path is one flush and one device request whatever the size)", "requests of at most 64 blocks / 1024 bytes", "block numbers below 2^46"],
 "backend": "cadical",
 "timeout": 400,
 "native": false
}
*/
/* VERIF-UNIT
{
 "name": "unix_read_blk64_c1",
 "props": ["C17"],
 "level": "U",
 "tier": "quick",
 "harness": "h_read_cached",
 "enforce": ["unix_read_blk64"],
 "replace": ["reuse_cache", "flush_cached_blocks", "raw_write_blk", "raw_read_blk"],
 "unwind": 64,
 "unwindset": {"build_channel.0": 9, "find_cached_block.0": 9, "unix_read_blk64.0": 2, "unix_read_blk64.1": 2, "unix_read_blk64.2": 2},
 "unwind_reason": "count == 1 in this unit: look-ahead loop (.0) not entered, fill loop (.1) and outer loop (.2) at most once; unwinding assertions on; CACHE_SIZE is the constant 8",
 "defines": ["CFG_BS=16", "CFG_COUNT=1", "CFG_NO_PTHREAD"],
 "functions": ["lib/ext2fs/unix_io.c:unix_read_blk64"],
 "assumes": ["IO_FLAG_THREADS clear; built without HAVE_PTHREAD", "no read_error / write_error handler installed", "block size 16 (configuration bound)", "fewer than 2^31-512 cache accesses per channel", "block numbers below 2^46, 0 <= data->offset < 2^50"],
 "backend": "cadical",
 "timeout": 400,
 "native": false
}
*/
/* VERIF-UNIT
{
 "name": "unix_read_blk64_direct",
 "props": ["C17"],
 "level": "U",
 "tier": "quick",
 "harness": "h_read_direct",
 "enforce": ["unix_read_blk64"],
 "replace": ["reuse_cache", "flush_cached_blocks", "raw_write_blk", "raw_read_blk"],
 "unwind": 64,
 "unwindset": {"build_channel.0": 9, "find_cached_block.0": 9, "unix_read_blk64.0": 1, "unix_read_blk64.1": 1, "unix_read_blk64.2": 1},
 "unwind_reason": "direct path: no loop is entered, unwinding assertions on",
 "defines": ["CFG_BS=16", "CFG_NO_PTHREAD"],
 "functions": ["lib/ext2fs/unix_io.c:unix_read_blk64"],
 "assumes": ["IO_FLAG_THREADS clear; built without HAVE_PTHREAD", "no read_error / write_error handler installed", "block size 16 (configuration bound)", "requests of at most 64 blocks / 1024 bytes", "block numbers below 2^46"],
 "backend": "cadical",
 "timeout": 400,
 "native": false
}
*/
#include "cache_common.h"

#define PD(ch) ((struct unix_private_data *)(ch)->private_data)
#define ATIME_ENTRY(d) ((d)->access_time >= 0 && (d)->access_time < 0x7ffffe00)
#define WT(ch) ((ch)->flags & CHANNEL_FLAGS_WRITETHROUGH)
#define REQ_OK(ch, block, count) (RAW_RANGE_OK(ch, PD(ch), block, count) && ((count) < 0 || (block) + (unsigned long long)(count) <= BLK_MAX))
/*
 * What holds of every channel between calls (representation invariant besides coherence).  The last conjunct - while the
 * cache is switched off no entry is in use - is established by unix_set_option("cache=off"): see unit
 * unixio/unix_set_option_cache and findings/C17_nocache_stale (on the pinned tree that unit FAILS: entries stay valid).
 */
#define CHAN_OK(ch) ((ch)->magic == EXT2_ET_MAGIC_IO_CHANNEL && PD(ch)->magic == EXT2_ET_MAGIC_UNIX_IO_CHANNEL && \
	bufs_tied(PD(ch)) && !(PD(ch)->flags & IO_FLAG_THREADS) && PD(ch)->access_time >= 0 && cache_range_ok(ch, PD(ch)) && \
	(!WT(ch) || !any_dirty(PD(ch))) && (!(PD(ch)->flags & IO_FLAG_NOCACHE) || !any_inuse(PD(ch))))
/* frame of both functions: the private data, the eight cache buffers, the lazily normalised alignment, the ghost device */
#define RW_FRAME(ch) __CPROVER_object_whole((ch)->private_data), ALL_CBUFS, (ch)->align, g_disk, g_nwrites, g_nreads, g_wfail

/*
 * C17, write side.  Statement (from the property, not from the code):
 *   coherent before => after a successful write the cache/device pair is coherent w.r.t. the byte just written when the
 *   request covers L* (so every later read returns it), w.r.t. the old byte otherwise;
 *   write-through => the device itself holds the new byte on return;
 *   a failed device write (of this request or of a victim evicted on its behalf) is reported to the caller;
 *   a failed request that does not cover L* leaves L* coherent.
 */
static errcode_t unix_write_blk64(io_channel channel, unsigned long long block, int count, const void *buf)
	REQUIRES(CHAN_OK(channel) && ATIME_ENTRY(PD(channel)) && coherent(PD(channel)) && channel->write_error == 0 && REQ_OK(channel, block, count))
	REQUIRES(g_wfail == 0 && g_covered == (COVERS(channel, block, count) != 0) &&
		 (!g_covered || g_new == BUF_AT(channel, block, count, buf)))
	ENSURES(RET != 0 || coherent_l(PD(channel), g_covered ? g_new : g_logical))
	ENSURES(RET != 0 || !WT(channel) || !g_covered || g_disk == g_new)
	ENSURES(!g_wfail || RET != 0)
	ENSURES(RET == 0 || g_covered || coherent(PD(channel)))
	ENSURES(CHAN_OK(channel) && ALIGN_STEP(channel) && PD(channel)->access_time <= OLD(PD(channel)->access_time) + 32)
	ASSIGNS(RW_FRAME(channel));

/*
 * C17, read side: a successful read that covers L* returns the byte most recently written there, whether it comes from
 * the cache or from the device; reading keeps the pair coherent whatever the outcome (evictions on its behalf are
 * write-backs); a failed write-back is reported.
 */
static errcode_t unix_read_blk64(io_channel channel, unsigned long long block, int count, void *buf)
	REQUIRES(CHAN_OK(channel) && ATIME_ENTRY(PD(channel)) && coherent(PD(channel)) && channel->write_error == 0 && channel->read_error == 0 &&
		 REQ_OK(channel, block, count))
	REQUIRES(g_wfail == 0 && g_covered == (COVERS(channel, block, count) != 0) &&
		 g_keep == (g_covered ? &BUF_AT(channel, block, count, buf) : (const unsigned char *)0))
	ENSURES(coherent(PD(channel)))
	ENSURES(RET != 0 || !g_covered || *g_keep == g_logical)
	ENSURES(!g_wfail || RET != 0)
	ENSURES(CHAN_OK(channel) && ALIGN_STEP(channel) && PD(channel)->access_time <= OLD(PD(channel)->access_time) + 32)
	ASSIGNS(RW_FRAME(channel), __CPROVER_object_whole(buf));

static unsigned char *UBUF;	/* the caller's buffer, exactly as long as the request */

static void request_common(void)
{
	struct unix_private_data *data = &DATA;
	ASSUME(REQ_OK(&CH, IN.block, IN.count));
	ASSUME(!(CH.flags & CHANNEL_FLAGS_WRITETHROUGH) || !any_dirty(data));
	ASSUME(!(DATA.flags & IO_FLAG_NOCACHE) || !any_inuse(data));
	UBUF = malloc(WR_SIZE(&CH, IN.count));
	ASSUME(UBUF != 0);
	g_covered = COVERS(&CH, IN.block, IN.count) != 0;
}

static void write_common(void)
{
	struct unix_private_data *data = &DATA;
	request_common();
	if (g_covered) {
		UBUF[OFF_AT(&CH, IN.block)] = IN.newbyte;
		g_new = IN.newbyte;
	} else
		g_new = 0;
	unsigned char old_logical = g_logical;
	errcode_t r = unix_write_blk64(&CH, IN.block, IN.count, UBUF);
	/* the byte most recently written to L* through the channel */
	if (r == 0 && g_covered)
		g_logical = g_new;
	CHECK(r != 0 || coherent(data), "after a successful write the cache/device pair is coherent: a read of L* returns the byte just written");
	CHECK(r != 0 || !(CH.flags & CHANNEL_FLAGS_WRITETHROUGH) || g_disk == g_logical, "write-through: the device holds the data on return");
	CHECK(!g_wfail || r != 0, "a failed device write is reported to the caller");
	CHECK(r == 0 || g_covered || (g_logical == old_logical && coherent(data)), "a failed write elsewhere leaves L* coherent");
}

static void read_common(void)
{
	struct unix_private_data *data = &DATA;
	request_common();
	g_keep = g_covered ? &UBUF[OFF_AT(&CH, IN.block)] : 0;
	errcode_t r = unix_read_blk64(&CH, IN.block, IN.count, UBUF);
	CHECK(r != 0 || !g_covered || UBUF[OFF_AT(&CH, IN.block)] == g_logical, "a read returns the byte most recently written at L*");
	CHECK(coherent(data), "reading keeps the cache coherent with the device");
	CHECK(!g_wfail || r != 0, "a failed write-back (eviction) is reported to the caller");
}

/* constants for the symbolic executor: the NOCACHE and direct-I/O branches fold away, the loop bound is exact */
#ifdef CFG_COUNT
#define CACHED_REQUEST() do { ASSUME(IN.count == CFG_COUNT); IN.count = CFG_COUNT; DATA.flags &= ~IO_FLAG_NOCACHE; } while (0)
#else
#define CACHED_REQUEST() do { ASSUME(IN.count >= 1 && IN.count <= WRITE_DIRECT_SIZE && !(DATA.flags & IO_FLAG_NOCACHE)); } while (0)
#endif
#define MAXBLK 64
#define DIRECT_REQUEST() do { ASSUME(IN.count >= -(int)(MAXBLK * CFG_BS) && IN.count <= MAXBLK); \
	ASSUME((DATA.flags & IO_FLAG_NOCACHE) || IN.count < 0 || IN.count > WRITE_DIRECT_SIZE); } while (0)

void h_write_cached(void)
{
	build_channel();
	CACHED_REQUEST();
	write_common();
	REACH("end");
}

void h_write_direct(void)
{
	build_channel();
	DIRECT_REQUEST();
	write_common();
	REACH("end");
}

void h_read_cached(void)
{
	build_channel();
	CACHED_REQUEST();
	read_common();
	REACH("end");
}

void h_read_direct(void)
{
	build_channel();
	DIRECT_REQUEST();
	read_common();
	REACH("end");
}
