/*
 * Shared by the blkmap64_rb.c units (C16, red-black-tree backend) — BOUNDED units, level B(n):
 * the tree is built by hand from exactly RB_N extents (compile-time constant of the unit, 0..4; with RB_NSYM the
 * number is symbolic in 0..RB_N) taken from IN (sorted, disjoint, non-adjacent, count > 0), in every red-black
 * shape that so many nodes admit (IN.shape, or the constant RB_SHAPE), with the cursors set to arbitrary nodes or
 * NULL (rcursor_next: NULL or the in-order successor of rcursor, which is the invariant rb_test_bit maintains; while
 * rcursor is NULL rcursor_next may be any node: rb_free_extent(rcursor) leaves that state behind).
 * After ONE operation the tree is walked by the harness's own structural in-order walk (not by rbtree.c) and
 * checked for
 *   well_formed: child/parent links consistent, height <= RB_MAXH, extents sorted, disjoint, non-adjacent,
 *                count > 0, no wrap, cursors NULL or pointing into the tree, rcursor_next NULL or successor of rcursor;
 *   colours_ok:  root black, no red node with a red child, equal number of black nodes on every root-to-nil path
 *                (so the result is again one of the shapes the builder enumerates for its size);
 *   set view at the ghost bit verif_k against the reference set computed from IN.
 * All bit numbers in IN are relative to bitmap->start unless stated otherwise.
 *
 * Mutating operations are checked per SCENARIO (RB_SCEN, see rb.c) with "never called" contracts for the tree mutators a
 * scenario cannot reach (below).
 *
 * Size knobs (per unit, via "defines"):
 *   RB_N      number of extents before the operation (constant)             RB_NSYM  make it symbolic 0..RB_N
 *   RB_SHAPE  fix the shape selector (otherwise symbolic: all shapes)
 *   RB_BITS   real_end - start < 2^RB_BITS (default 62; the code is plain 64-bit arithmetic on offsets, the cap only
 *             narrows the values the solver has to consider and is stated in the unit's "assumes")
 *   RB_NEW    how many extents the operation may add (default 1) — sizes the walk
 */
#include "verif.h"

#define RB_MAXN 4
#ifndef RB_N
#define RB_N 2
#endif
#if RB_N > RB_MAXN
#error "RB_N > 4: add the shapes to build_shape first"
#endif
#ifndef RB_NEW
#define RB_NEW 1
#endif
#ifndef RB_BITS
#define RB_BITS 62
#endif
#define RB_TOTAL (RB_N + RB_NEW)
/* a red-black tree of N nodes has height <= 1, 2, 2, 3, 3, 4, 4 for N = 1..7 */
#ifndef RB_MAXH
#if RB_TOTAL <= 1
#define RB_MAXH 1
#elif RB_TOTAL <= 3
#define RB_MAXH 2
#elif RB_TOTAL <= 5
#define RB_MAXH 3
#else
#define RB_MAXH 4
#endif
#endif
#define RB_MAXWALK (RB_TOTAL + 1)	/* one more than the operation can legally produce */

struct in_rb {
	unsigned long long start, end, real_end;	/* bitmap geometry (absolute) */
	unsigned char n;				/* number of extents (RB_NSYM only) */
	unsigned char shape;				/* tree shape / colouring selector */
	unsigned char wc, rc, rcn;			/* cursor selectors: 0 = NULL, i+1 = extent i; rcn: 0 = NULL, else the successor of
							   rcursor (if rcursor is NULL: any extent — rb_free_extent leaves that state) */
	unsigned long long es[RB_MAXN], ec[RB_MAXN];	/* extent start (relative) and count */
	unsigned long long arg, arg2;			/* operation arguments */
	unsigned int num;
	unsigned long long k;				/* ghost bit (relative to bitmap->start) */
	unsigned char buf[8];				/* bit buffer for get/set range */
};
struct in_rb IN;
#include "verif_in.h"

unsigned long long verif_k;

/*
 * ext2fs.h offers EXT2_CUSTOM_MEMORY_ROUTINES: its inline malloc/free wrappers are then left out and the application
 * supplies them.  The units define that macro and give the two wrappers blkmap64_rb.c uses as trivial malloc/free stubs
 * (same behaviour as the inline ones of ext2fs.h; the only difference is that the pointer is moved by a typed store
 * instead of memcpy(ptr, &pp, sizeof(pp)), which the verifier would otherwise treat as eight symbolic bytes and lose
 * every points-to fact about freshly allocated tree nodes).  rb_get_new_extent abort()s when allocation fails, so
 * allocation failure is not a behaviour of the operations checked here; malloc does not fail in these units.
 */
#ifndef EXT2_CUSTOM_MEMORY_ROUTINES
#error "the rb units are built with -DEXT2_CUSTOM_MEMORY_ROUTINES (see above)"
#endif
#include <stdlib.h>
#ifndef VERIF_NATIVE
/*
 * malloc that cannot fail (what cbmc --no-malloc-may-fail gives; the driver offers no way to pass that option to the
 * instrumentation step where CBMC 6 bakes the failure mode in).  With the library model every pointer handed out is
 * "NULL or the new object", and no pointer of the tree stays a constant for the symbolic execution.
 */
void *malloc(__CPROVER_size_t n)
{
	return __CPROVER_allocate(n, 0);
}
#endif
long ext2fs_get_mem(unsigned long size, void *ptr)
{
	void *pp = malloc(size);
	ASSUME(pp != 0);
	*(void **)ptr = pp;
	return 0;
}
long ext2fs_free_mem(void *ptr)
{
	void **pp = (void **)ptr;
	free(*pp);
	*pp = 0;
	return 0;
}

/*
 * "Never called" contracts.  lib/ext2fs/rbtree.c stores the parent pointer and the colour in one integer
 * (rb_parent_color); every write through a pointer recovered from it costs CBMC 6.11 about 3*10^5 clauses per candidate
 * object, so a formula that contains more than a handful of inlined ext2fs_rb_erase / ext2fs_rb_insert_color bodies
 * does not fit into memory.  The mutating operations are therefore checked per SCENARIO (a condition on the inputs,
 * the scenarios of an operation partition its input space).  In a scenario in which a tree mutator cannot be reached
 * the unit lists it under "replace" with the contract below: the precondition FALSE becomes a proof obligation at
 * every call site ("this call is unreachable"), and nothing at all is assumed about the callee - this is no model of
 * rbtree.c.  Where a mutator is reachable it is the real code of rbtree.c (second translation unit).
 * The declarations carry the contract only; they are inert in units that do not name the function under "replace".
 */
#include "config.h"
#include <stdint.h>
#include "ext2fs/ext2_types.h"
#include "ext2fs/rbtree.h"
struct ext2fs_rb_private;
void ext2fs_rb_erase(struct rb_node *, struct rb_root *) REQUIRES(0) ASSIGNS();
void ext2fs_rb_insert_color(struct rb_node *, struct rb_root *) REQUIRES(0) ASSIGNS();
static int rb_insert_extent(__u64 start, __u64 count, struct ext2fs_rb_private *) REQUIRES(0) ASSIGNS();

#include "lib/ext2fs/blkmap64_rb.c"

#ifdef RB_NSYM
#define NN ((int)IN.n)
#else
#define NN RB_N
#endif
#ifdef RB_SHAPE
#define SHAPE (RB_SHAPE)
#else
#define SHAPE (IN.shape)
#endif

static struct ext2fs_struct_generic_bitmap_64 BM;
static struct ext2fs_rb_private *BP;
static struct bmap_rb_extent *ND[RB_MAXN + 1];

/* reference set (from IN): membership of relative bit b before the operation */
static int ref_member(unsigned long long b)
{
	int r = 0;
	for (int i = 0; i < RB_N; i++)
		if (i < NN && b >= IN.es[i] && b - IN.es[i] < IN.ec[i])
			r = 1;
	return r;
}
/* reference: some member in [s, s+c) (no wrap) */
static int ref_any_in(unsigned long long s, unsigned long long c)
{
	int r = 0;
	for (int i = 0; i < RB_N; i++)
		if (i < NN && c > 0 && IN.es[i] < s + c && s < IN.es[i] + IN.ec[i])
			r = 1;
	return r;
}

static void lnk(int child, int parent, int right, int black)
{
	ND[child]->node.rb_parent_color = (uintptr_t)&ND[parent]->node | (black ? RB_BLACK : RB_RED);
	if (right)
		ND[parent]->node.rb_right = &ND[child]->node;
	else
		ND[parent]->node.rb_left = &ND[child]->node;
}
static void mkroot(int r)
{
	ND[r]->node.rb_parent_color = RB_BLACK;
	BP->root.rb_node = &ND[r]->node;
}

/* every red-black tree over n <= 4 sorted keys 0..n-1 */
static void build_shape(int n)
{
	switch (n) {
	case 0:
		break;
	case 1:
		mkroot(0);
		break;
	case 2:
		if (SHAPE & 1) { mkroot(0); lnk(1, 0, 1, 0); }
		else { mkroot(1); lnk(0, 1, 0, 0); }
		break;
	case 3:
		mkroot(1);
		if (SHAPE & 1) { lnk(0, 1, 0, 1); lnk(2, 1, 1, 1); }
		else { lnk(0, 1, 0, 0); lnk(2, 1, 1, 0); }
		break;
	default:
		switch (SHAPE & 3) {
		case 0: mkroot(1); lnk(0, 1, 0, 1); lnk(2, 1, 1, 1); lnk(3, 2, 1, 0); break;
		case 1: mkroot(1); lnk(0, 1, 0, 1); lnk(3, 1, 1, 1); lnk(2, 3, 0, 0); break;
		case 2: mkroot(2); lnk(3, 2, 1, 1); lnk(1, 2, 0, 1); lnk(0, 1, 0, 0); break;
		default: mkroot(2); lnk(3, 2, 1, 1); lnk(0, 2, 0, 1); lnk(1, 0, 1, 0); break;
		}
	}
}

static void build_rb(void)
{
	LOAD_IN();
#ifdef RB_NSYM
	ASSUME(IN.n <= RB_N);
#endif
	ASSUME(IN.start <= IN.end && IN.end <= IN.real_end);
	ASSUME(IN.real_end - IN.start < (1ULL << RB_BITS));
	for (int i = 0; i < RB_N; i++) {
		if (i < NN) {
			ASSUME(IN.ec[i] > 0);
			ASSUME(IN.es[i] <= IN.real_end - IN.start && IN.ec[i] - 1 <= IN.real_end - IN.start - IN.es[i]);
			if (i > 0)
				ASSUME(IN.es[i - 1] + IN.ec[i - 1] < IN.es[i]);	/* sorted, disjoint, NON-adjacent */
		}
	}
	BP = malloc(sizeof(*BP));
	ASSUME(BP != 0);
	BP->root.rb_node = 0;
	for (int i = 0; i <= RB_MAXN; i++)
		ND[i] = 0;
	for (int i = 0; i < RB_N; i++) {
		if (i < NN) {
			ND[i] = malloc(sizeof(struct bmap_rb_extent));
			ASSUME(ND[i] != 0);
			ND[i]->node.rb_left = ND[i]->node.rb_right = 0;
			ND[i]->node.rb_parent_color = 0;
			ND[i]->start = IN.es[i];
			ND[i]->count = IN.ec[i];
		}
	}
#ifdef RB_NSYM
	switch (IN.n) {
	case 0: build_shape(0); break;
	case 1: build_shape(1); break;
	case 2: build_shape(2); break;
	case 3: build_shape(3); break;
	default: build_shape(4); break;
	}
#else
	build_shape(RB_N);
#endif
	ASSUME(IN.wc <= NN && IN.rc <= NN);
	BP->wcursor = IN.wc ? ND[IN.wc - 1] : 0;
	BP->rcursor = IN.rc ? ND[IN.rc - 1] : 0;
	ASSUME(IN.rcn <= NN);
	if (IN.rc)
		BP->rcursor_next = (IN.rcn && IN.rc < NN) ? ND[IN.rc] : 0;
	else
		BP->rcursor_next = IN.rcn ? ND[IN.rcn - 1] : 0;	/* rcursor freed, rcursor_next stale but in the tree */
	memset(&BM, 0, sizeof(BM));
	BM.magic = EXT2_ET_MAGIC_GENERIC_BITMAP64;
	BM.start = IN.start;
	BM.end = IN.end;
	BM.real_end = IN.real_end;
	BM.private = BP;
	BM.bitmap_ops = &ext2fs_blkmap64_rbtree;
	verif_k = IN.k;
}

/* ---- the harness's own view of the tree after the operation ---- */
static struct bmap_rb_extent *W[RB_MAXWALK];
static int WN;
static int WALK_OK;	/* links consistent, height <= RB_MAXH, at most RB_MAXWALK nodes */
static int COL_OK;	/* red-black colour invariants */

/*
 * structural in-order walk, one function per level (no recursion, no loop): checks the parent link of every node on
 * the way down, appends the nodes in order to W, returns the black height of the subtree (nil = 0).
 */
static int visit_too_deep(struct rb_node *x, struct rb_node *p, int pred)
{
	(void)p; (void)pred;
	if (x)
		WALK_OK = 0;
	return 0;
}
#define DEFVISIT(name, sub) \
static int name(struct rb_node *x, struct rb_node *p, int pred) \
{ \
	if (!x) \
		return 0; \
	int red = ext2fs_rb_is_red(x) ? 1 : 0; \
	if (ext2fs_rb_parent(x) != p) \
		WALK_OK = 0; \
	if (red && pred) \
		COL_OK = 0; \
	int l = sub(x->rb_left, x, red); \
	if (WN >= RB_MAXWALK) { \
		WALK_OK = 0; \
		return 0; \
	} \
	W[WN++] = node_to_extent(x); \
	int r = sub(x->rb_right, x, red); \
	if (l != r) \
		COL_OK = 0; \
	return l + !red; \
}
#if RB_MAXH >= 4
DEFVISIT(visit4, visit_too_deep)
#else
#define visit4 visit_too_deep
#endif
#if RB_MAXH >= 3
DEFVISIT(visit3, visit4)
#else
#define visit3 visit_too_deep
#endif
#if RB_MAXH >= 2
DEFVISIT(visit2, visit3)
#else
#define visit2 visit_too_deep
#endif
DEFVISIT(visit1, visit2)

static void walk(void)
{
	struct rb_node *root = BP->root.rb_node;
	WN = 0;
	WALK_OK = 1;
	COL_OK = 1;
	for (int i = 0; i < RB_MAXWALK; i++)
		W[i] = 0;
	if (root && ext2fs_rb_is_red(root))
		COL_OK = 0;
	visit1(root, 0, 0);
}

static int in_tree(struct bmap_rb_extent *p)
{
	int r = 0;
	for (int i = 0; i < RB_MAXWALK; i++)
		if (i < WN && W[i] == p)
			r = 1;
	return r;
}

/* well_formed(tree, cursors); call walk() first */
static int well_formed(void)
{
	int ok = WALK_OK;
	for (int i = 0; i < RB_MAXWALK; i++) {
		if (i < WN) {
			if (W[i]->count == 0 || W[i]->start + W[i]->count < W[i]->start)
				ok = 0;
			if (i > 0 && !(W[i - 1]->start + W[i - 1]->count < W[i]->start))
				ok = 0;
			if (BP->rcursor == W[i] && BP->rcursor_next != 0 && !(i + 1 < WN && BP->rcursor_next == W[i + 1]))
				ok = 0;
		}
	}
	if (BP->wcursor && !in_tree(BP->wcursor)) ok = 0;
	if (BP->rcursor && !in_tree(BP->rcursor)) ok = 0;
	if (BP->rcursor_next && !in_tree(BP->rcursor_next)) ok = 0;
	return ok;
}

/* membership of relative bit b in the tree as walked */
static int view(unsigned long long b)
{
	int r = 0;
	for (int i = 0; i < RB_MAXWALK; i++)
		if (i < WN && b >= W[i]->start && b - W[i]->start < W[i]->count)
			r = 1;
	return r;
}

#define CHECK_TREE(what) do { \
	walk(); \
	CHECK(well_formed(), what ": well_formed (links, height, sorted, disjoint, non-adjacent, count > 0, cursors)"); \
	CHECK(COL_OK, what ": red-black colour invariants (root black, no red-red, equal black height)"); \
} while (0)
