/*
 * Shared by the blkmap64_rb.c units (C16, red-black-tree backend) — BOUNDED units, level B(4):
 * the tree is built by hand from n <= 4 extents taken from IN (sorted, disjoint, non-adjacent, count > 0), in
 * every red-black shape that n nodes admit (IN.shape), with the cursors set to arbitrary nodes or NULL
 * (rcursor_next: NULL or the in-order successor of rcursor, which is the invariant rb_test_bit maintains).
 * After ONE operation the tree is walked by the harness's own in-order walk (not by rbtree.c) and checked for
 *   well_formed: child/parent links consistent, extents sorted, disjoint, non-adjacent, count > 0, cursors NULL or
 *                pointing into the tree, rcursor_next NULL or successor of rcursor;
 *   set view at the ghost bit verif_k against the reference set computed from IN.
 * All bit numbers in IN are relative to bitmap->start unless stated otherwise.
 */
#include "verif.h"

#define RB_MAXN 4
#define RB_MAXWALK 6

struct in_rb {
	unsigned long long start, end, real_end;	/* bitmap geometry (absolute) */
	unsigned char n;				/* number of extents, 0..4 */
	unsigned char shape;				/* tree shape / colouring selector */
	unsigned char wc, rc, rcn;			/* cursor selectors: 0 = NULL, i+1 = extent i; rcn: 0 = NULL, else successor */
	unsigned long long es[RB_MAXN], ec[RB_MAXN];	/* extent start (relative) and count */
	unsigned long long arg, arg2;			/* operation arguments */
	unsigned int num;
	unsigned long long k;				/* ghost bit (relative to bitmap->start) */
	unsigned char buf[8];				/* bit buffer for get/set range */
};
struct in_rb IN;
#include "verif_in.h"

unsigned long long verif_k;

#include "lib/ext2fs/blkmap64_rb.c"

static struct ext2fs_struct_generic_bitmap_64 BM;
static struct ext2fs_rb_private *BP;
static struct bmap_rb_extent *ND[RB_MAXN];

/* reference set (from IN): membership of relative bit b before the operation */
static int ref_member(unsigned long long b)
{
	int r = 0;
	for (int i = 0; i < RB_MAXN; i++)
		if (i < IN.n && b >= IN.es[i] && b - IN.es[i] < IN.ec[i])
			r = 1;
	return r;
}
/* reference: some member in [s, s+c) (no wrap) */
static int ref_any_in(unsigned long long s, unsigned long long c)
{
	int r = 0;
	for (int i = 0; i < RB_MAXN; i++)
		if (i < IN.n && c > 0 && IN.es[i] < s + c && s < IN.es[i] + IN.ec[i])
			r = 1;
	return r;
}

static void lnk(int child, int parent, int right, int black)
{
	ND[child]->node.rb_parent_color = (uintptr_t)&ND[parent]->node | (black ? RB_BLACK : RB_RED);
	if (right)
		ND[parent]->node.rb_right = &ND[child]->node;
	else
		ND[parent]->node.rb_left = &ND[child]->node;
}
static void mkroot(int r)
{
	ND[r]->node.rb_parent_color = RB_BLACK;
	BP->root.rb_node = &ND[r]->node;
}

/* every red-black tree over n <= 4 sorted keys 0..n-1 */
static void build_shape(void)
{
	switch (IN.n) {
	case 0:
		break;
	case 1:
		mkroot(0);
		break;
	case 2:
		if (IN.shape & 1) { mkroot(0); lnk(1, 0, 1, 0); }
		else { mkroot(1); lnk(0, 1, 0, 0); }
		break;
	case 3:
		mkroot(1);
		lnk(0, 1, 0, IN.shape & 1);
		lnk(2, 1, 1, IN.shape & 1);
		break;
	default:
		switch (IN.shape & 3) {
		case 0: mkroot(1); lnk(0, 1, 0, 1); lnk(2, 1, 1, 1); lnk(3, 2, 1, 0); break;
		case 1: mkroot(1); lnk(0, 1, 0, 1); lnk(3, 1, 1, 1); lnk(2, 3, 0, 0); break;
		case 2: mkroot(2); lnk(3, 2, 1, 1); lnk(1, 2, 0, 1); lnk(0, 1, 0, 0); break;
		default: mkroot(2); lnk(3, 2, 1, 1); lnk(0, 2, 0, 1); lnk(1, 0, 1, 0); break;
		}
	}
}

static void build_rb(void)
{
	LOAD_IN();
	ASSUME(IN.n <= RB_MAXN);
#ifdef RB_CAP
	ASSUME(IN.n <= RB_CAP);	/* tighter bound of this unit (stated in its level) */
#endif
	ASSUME(IN.start <= IN.end && IN.end <= IN.real_end);
	ASSUME(IN.real_end - IN.start < (1ULL << 62));
	for (int i = 0; i < RB_MAXN; i++) {
		if (i < IN.n) {
			ASSUME(IN.ec[i] > 0);
			ASSUME(IN.es[i] <= IN.real_end - IN.start && IN.ec[i] - 1 <= IN.real_end - IN.start - IN.es[i]);
			if (i > 0)
				ASSUME(IN.es[i - 1] + IN.ec[i - 1] < IN.es[i]);	/* sorted, disjoint, NON-adjacent */
		}
	}
	BP = malloc(sizeof(*BP));
	ASSUME(BP != 0);
	BP->root.rb_node = 0;
	for (int i = 0; i < RB_MAXN; i++) {
		ND[i] = 0;
		if (i < IN.n) {
			ND[i] = malloc(sizeof(struct bmap_rb_extent));
			ASSUME(ND[i] != 0);
			ND[i]->node.rb_left = ND[i]->node.rb_right = 0;
			ND[i]->node.rb_parent_color = 0;
			ND[i]->start = IN.es[i];
			ND[i]->count = IN.ec[i];
		}
	}
	build_shape();
	ASSUME(IN.wc <= IN.n && IN.rc <= IN.n);
	BP->wcursor = IN.wc ? ND[IN.wc - 1] : 0;
	BP->rcursor = IN.rc ? ND[IN.rc - 1] : 0;
	BP->rcursor_next = (IN.rc && IN.rcn && IN.rc < IN.n) ? ND[IN.rc] : 0;
	memset(&BM, 0, sizeof(BM));
	BM.magic = EXT2_ET_MAGIC_GENERIC_BITMAP64;
	BM.start = IN.start;
	BM.end = IN.end;
	BM.real_end = IN.real_end;
	BM.private = BP;
	BM.bitmap_ops = &ext2fs_blkmap64_rbtree;
	verif_k = IN.k;
}

/* ---- the harness's own view of the tree after the operation ---- */
static struct bmap_rb_extent *W[RB_MAXWALK];
static int WN;
static int WALK_OK;	/* links consistent and walk complete */

/* iterative in-order walk with an explicit stack; checks parent links on the way down */
static void walk(void)
{
	struct rb_node *stack[RB_MAXWALK];
	int sp = 0;
	struct rb_node *cur = BP->root.rb_node;
	WN = 0;
	WALK_OK = 1;
	if (cur && ext2fs_rb_parent(cur) != 0)
		WALK_OK = 0;
	for (int it = 0; it < 2 * RB_MAXWALK + 2; it++) {
		if (cur) {
			if (sp >= RB_MAXWALK) { WALK_OK = 0; return; }
			stack[sp++] = cur;
			if (cur->rb_left && ext2fs_rb_parent(cur->rb_left) != cur)
				WALK_OK = 0;
			cur = cur->rb_left;
		} else if (sp > 0) {
			cur = stack[--sp];
			if (WN >= RB_MAXWALK) { WALK_OK = 0; return; }
			W[WN++] = node_to_extent(cur);
			if (cur->rb_right && ext2fs_rb_parent(cur->rb_right) != cur)
				WALK_OK = 0;
			cur = cur->rb_right;
		} else
			return;
	}
	WALK_OK = 0;	/* more nodes than the bound allows */
}

static int in_tree(struct bmap_rb_extent *p)
{
	int r = 0;
	for (int i = 0; i < RB_MAXWALK; i++)
		if (i < WN && W[i] == p)
			r = 1;
	return r;
}

/* well_formed(tree, cursors); call walk() first */
static int well_formed(void)
{
	int ok = WALK_OK;
	for (int i = 0; i < RB_MAXWALK; i++) {
		if (i < WN) {
			if (W[i]->count == 0 || W[i]->start + W[i]->count < W[i]->start)
				ok = 0;
			if (i > 0 && !(W[i - 1]->start + W[i - 1]->count < W[i]->start))
				ok = 0;
			if (BP->rcursor == W[i] && BP->rcursor_next != 0 && !(i + 1 < WN && BP->rcursor_next == W[i + 1]))
				ok = 0;
		}
	}
	if (BP->wcursor && !in_tree(BP->wcursor)) ok = 0;
	if (BP->rcursor && !in_tree(BP->rcursor)) ok = 0;
	if (BP->rcursor_next && !in_tree(BP->rcursor_next)) ok = 0;
	return ok;
}

/* membership of relative bit b in the tree as walked */
static int view(unsigned long long b)
{
	int r = 0;
	for (int i = 0; i < RB_MAXWALK; i++)
		if (i < WN && b >= W[i]->start && b - W[i]->start < W[i]->count)
			r = 1;
	return r;
}
