/* VERIF-UNIT
{
 "name": "gen64_clear",
 "props": ["C16"],
 "level": "U",
 "tier": "quick",
 "harness": "h_gen_clear",
 "enforce": ["ext2fs_clear_generic_bmap"],
 "functions": ["lib/ext2fs/gen_bitmap64.c:ext2fs_clear_generic_bmap"],
 "assumes": ["backend = harness model backend (clear_bmap empties the model set, logs the call; see gen64_common.h)",
             "the handle is a non-NULL bitmap with a 64-bit or legacy 32-bit magic number (ext2fs_clear_generic_bmap dereferences it and calls the operations table without any check; its callers ext2fs_clear_block_bitmap / ext2fs_clear_inode_bitmap pass allocated bitmaps)",
             "for a legacy 32-bit bitmap the callee ext2fs_clear_generic_bitmap (gen_bitmap.c) is a logging stub"],
 "backend": "kissat",
 "native": false
}
*/
/* VERIF-UNIT
{
 "name": "gen64_dispatch32",
 "props": ["C16"],
 "level": "U",
 "tier": "quick",
 "harness": "h_gen_d32",
 "enforce": ["ext2fs_mark_generic_bmap", "ext2fs_unmark_generic_bmap", "ext2fs_test_generic_bmap",
             "ext2fs_set_generic_bmap_range", "ext2fs_get_generic_bmap_range",
             "ext2fs_find_first_zero_generic_bmap", "ext2fs_find_first_set_generic_bmap",
             "ext2fs_resize_generic_bmap", "ext2fs_fudge_generic_bmap_end"],
 "unwindset": {"ext2fs_find_first_zero_generic_bmap.0": 1, "ext2fs_find_first_zero_generic_bmap.1": 1,
               "ext2fs_find_first_set_generic_bmap.0": 1, "ext2fs_find_first_set_generic_bmap.1": 1},
 "unwind_reason": "the generic scan loops of the find_first functions are unreachable for a legacy 32-bit bitmap (the function returns from the dispatch branch); the unwinding assertions prove exactly that",
 "functions": ["lib/ext2fs/gen_bitmap64.c:ext2fs_mark_generic_bmap", "lib/ext2fs/gen_bitmap64.c:ext2fs_unmark_generic_bmap", "lib/ext2fs/gen_bitmap64.c:ext2fs_test_generic_bmap",
               "lib/ext2fs/gen_bitmap64.c:ext2fs_set_generic_bmap_range", "lib/ext2fs/gen_bitmap64.c:ext2fs_get_generic_bmap_range",
               "lib/ext2fs/gen_bitmap64.c:ext2fs_find_first_zero_generic_bmap", "lib/ext2fs/gen_bitmap64.c:ext2fs_find_first_set_generic_bmap",
               "lib/ext2fs/gen_bitmap64.c:ext2fs_resize_generic_bmap", "lib/ext2fs/gen_bitmap64.c:ext2fs_fudge_generic_bmap_end"],
 "assumes": ["the handle is a legacy 32-bit bitmap (magic GENERIC/BLOCK/INODE_BITMAP); the legacy implementation (gen_bitmap.c) is replaced by logging stubs with arbitrary results - it is verified in the gen32 units",
             "get/set range: start < 2^62 (block numbers are at most 48 bits), num >= 1",
             "fudge_end: the result of the legacy call fits an int (the generic layer stores it in `int retval`; every com_err code of libext2fs is below 2^31)",
             "resize / fudge_end: new_end, new_real_end, end < 2^32 (the generic layer passes them to the 32-bit prototypes without a check; callers of legacy bitmaps work with 32-bit block / inode numbers)"],
 "backend": "kissat",
 "native": false
}
*/
#include "gen64_common.h"

/* ---- logging stubs for the legacy implementation (lib/ext2fs/gen_bitmap.c) ---- */
enum { OP32_MARK = 100, OP32_UNMARK, OP32_TEST, OP32_SET_RANGE, OP32_GET_RANGE, OP32_RESIZE, OP32_FUDGE, OP32_FFZ, OP32_FFS, OP32_CLEAR };
#define G_MAGIC verif_g1	/* magic argument of the last legacy call */

static void log32(ext2fs_generic_bitmap bm, int op, __u64 a, __u64 b, const void *p, errcode_t magic)
{
	G_CALLS++;
	G_OP = op;
	G_ARG = a;
	G_NUM = b;
	g_ptr = (const unsigned char *)p;
	g_bm = (const unsigned char *)bm;
	G_MAGIC = (unsigned long long)magic;
}
void ext2fs_warn_bitmap2(ext2fs_generic_bitmap bitmap, int code, unsigned long arg)
{
	(void)bitmap;
	G_WARN++;
	G_CODE = ((unsigned long long)(unsigned int)code << 32) | (arg & 0xffffffffUL);
}
int ext2fs_mark_generic_bitmap(ext2fs_generic_bitmap bitmap, __u32 bitno) { log32(bitmap, OP32_MARK, bitno, 0, 0, 0); return (int)IN.be_ret; }
int ext2fs_unmark_generic_bitmap(ext2fs_generic_bitmap bitmap, blk_t bitno) { log32(bitmap, OP32_UNMARK, bitno, 0, 0, 0); return (int)IN.be_ret; }
int ext2fs_test_generic_bitmap(ext2fs_generic_bitmap bitmap, blk_t bitno) { log32(bitmap, OP32_TEST, bitno, 0, 0, 0); return (int)IN.be_ret; }
errcode_t ext2fs_set_generic_bitmap_range(ext2fs_generic_bitmap bmap, errcode_t magic, __u32 start, __u32 num, void *in)
{ log32(bmap, OP32_SET_RANGE, start, num, in, magic); return IN.be_ret; }
errcode_t ext2fs_get_generic_bitmap_range(ext2fs_generic_bitmap bmap, errcode_t magic, __u32 start, __u32 num, void *out)
{ log32(bmap, OP32_GET_RANGE, start, num, out, magic); return IN.be_ret; }
errcode_t ext2fs_resize_generic_bitmap(errcode_t magic, __u32 new_end, __u32 new_real_end, ext2fs_generic_bitmap bmap)
{ log32(bmap, OP32_RESIZE, new_end, new_real_end, 0, magic); return IN.be_ret; }
errcode_t ext2fs_fudge_generic_bitmap_end(ext2fs_inode_bitmap bitmap, errcode_t magic, errcode_t neq, ext2_ino_t end, ext2_ino_t *oend)
{ log32(bitmap, OP32_FUDGE, end, (unsigned long long)neq, 0, magic); if (IN.be_ret == 0) *oend = (ext2_ino_t)IN.be_out; return IN.be_ret; }	/* like the real one: *oend only on success */
errcode_t ext2fs_find_first_zero_generic_bitmap(ext2fs_generic_bitmap bitmap, __u32 start, __u32 end, __u32 *out)
{ log32(bitmap, OP32_FFZ, start, end, 0, 0); if (IN.be_ret == 0) *out = (__u32)IN.be_out; return IN.be_ret; }
errcode_t ext2fs_find_first_set_generic_bitmap(ext2fs_generic_bitmap bitmap, __u32 start, __u32 end, __u32 *out)
{ log32(bitmap, OP32_FFS, start, end, 0, 0); if (IN.be_ret == 0) *out = (__u32)IN.be_out; return IN.be_ret; }
void ext2fs_clear_generic_bitmap(ext2fs_generic_bitmap bitmap) { log32(bitmap, OP32_CLEAR, 0, 0, 0, 0); }

/* ------------------------------------------------------------------ clear
 * Property: after clear the set is empty (the ghost cluster is no member); the backend is asked exactly once;
 * a legacy bitmap is handed to the legacy implementation. */
static int pre_clear(ext2fs_generic_bitmap g)
{
	return g == (ext2fs_generic_bitmap)&BMA && (IS32M(B64(g)->magic) || IS64M(B64(g)->magic)) &&
	       B64(g)->bitmap_ops == (struct ext2_bitmap_ops *)&MODEL_OPS && B64(g)->private == (void *)&verif_g0;
}
static int spec_clear(ext2fs_generic_bitmap g)
{
	return G_CALLS == 1 && G_WARN == 0 && g_bm == (const void *)g &&
	       (IS32M(B64(g)->magic) ? (G_OP == OP32_CLEAR && verif_g0 == (unsigned)verif_old_bit)
				     : (G_OP == OP_CLEAR && verif_g0 == 0));
}
void ext2fs_clear_generic_bmap(ext2fs_generic_bitmap gen_bitmap)
	REQUIRES(pre_clear(gen_bitmap) && PRE_LOG)
	ENSURES(spec_clear(gen_bitmap))
	ASSIGNS(GHOSTS);

static void build_any(int want32)
{
	LOAD_IN();
	ASSUME(want32 ? IS32M(IN.magic) : (IS32M(IN.magic) || IS64M(IN.magic)));
	ASSUME(IN.cluster_bits >= 0 && IN.cluster_bits <= 32);
	ASSUME(IN.start <= IN.end && IN.end <= IN.real_end);
	ASSUME(IN.real_end < (MAX_BLOCKS >> IN.cluster_bits));
	ASSUME(IN.base_error_code >= 0 && IN.base_error_code < 0x7fffffff00000000L);
	fill_bitmap(&BMA, IN.magic, IN.start, IN.end, IN.real_end, &MODEL_OPS, &verif_g0);
	verif_k = IN.k;
	verif_g0 = IN.member & 1;
	verif_old_bit = (int)verif_g0;
	G_CALLS = 0; G_OP = OP_NONE; G_ARG = 0; G_NUM = 0; G_WARN = 0; G_CODE = 0; g_ptr = 0; g_bm = 0; G_MAGIC = 0;
}

void h_gen_clear(void)
{
	ext2fs_generic_bitmap g = (ext2fs_generic_bitmap)&BMA;
	build_any(0);
	ext2fs_clear_generic_bmap(g);
	CHECK(spec_clear(g), "clear: the set is empty afterwards, backend asked once; legacy bitmap handed to the legacy implementation");
	if (IS64M(IN.magic) && verif_old_bit) REACH("64-bit bitmap, k was a member");
	if (IS32M(IN.magic)) REACH("legacy bitmap");
	REACH("end");
}

/* ------------------------------------------------------------------ dispatch of legacy 32-bit bitmaps
 * Property (cross-implementation agreement): a legacy bitmap handed to the 64-bit API is served by the legacy
 * implementation - exactly one call, identical arguments, result passed on - provided the arguments fit the legacy
 * 32-bit interface; otherwise the request is rejected (0 / EINVAL), the error hook is called once and the legacy
 * implementation is not called, so nothing changes. */
#define FITS32(x) (((x) & ~0xffffffffULL) == 0)
#define WARNED(code, arg) (G_WARN == 1 && G_CODE == (((unsigned long long)(code) << 32) | ((arg) & 0xffffffffUL)))
static int fwd(ext2fs_generic_bitmap g, int op, __u64 a, __u64 b)
{
	return G_CALLS == 1 && G_WARN == 0 && G_OP == (unsigned)op && G_ARG == a && G_NUM == b && g_bm == (const void *)g;
}
static int pre_32(ext2fs_generic_bitmap g)
{
	return g == (ext2fs_generic_bitmap)&BMA && IS32M(B64(g)->magic) && G_CALLS == 0 && G_WARN == 0;
}

static int spec_d_single(ext2fs_generic_bitmap g, __u64 arg, int ret, int op, int errc)
{
	return FITS32(arg) ? (fwd(g, op, arg, 0) && ret == (int)IN.be_ret)
			   : (ret == 0 && G_CALLS == 0 && WARNED(errc, 0xffffffff));
}
int ext2fs_mark_generic_bmap(ext2fs_generic_bitmap gen_bitmap, __u64 arg)
	REQUIRES(pre_32(gen_bitmap)) ENSURES(spec_d_single(gen_bitmap, arg, RET, OP32_MARK, EXT2FS_MARK_ERROR)) ASSIGNS(GHOSTS);
int ext2fs_unmark_generic_bmap(ext2fs_generic_bitmap gen_bitmap, __u64 arg)
	REQUIRES(pre_32(gen_bitmap)) ENSURES(spec_d_single(gen_bitmap, arg, RET, OP32_UNMARK, EXT2FS_UNMARK_ERROR)) ASSIGNS(GHOSTS);
int ext2fs_test_generic_bmap(ext2fs_generic_bitmap gen_bitmap, __u64 arg)
	REQUIRES(pre_32(gen_bitmap)) ENSURES(spec_d_single(gen_bitmap, arg, RET, OP32_TEST, EXT2FS_TEST_ERROR)) ASSIGNS(GHOSTS);

static int spec_d_range(ext2fs_generic_bitmap g, __u64 start, unsigned int num, const void *p, errcode_t ret, int op)
{
	return FITS32(start + num - 1) ? (fwd(g, op, start, num) && g_ptr == (const unsigned char *)p &&
					  G_MAGIC == (unsigned long long)B64(g)->magic && ret == IN.be_ret)
				       : (ret == EINVAL && G_CALLS == 0 && G_WARN == 1);
}
errcode_t ext2fs_set_generic_bmap_range(ext2fs_generic_bitmap gen_bmap, __u64 start, unsigned int num, void *in)
	REQUIRES(pre_32(gen_bmap) && start < MAX_BLOCKS && num >= 1)
	ENSURES(spec_d_range(gen_bmap, start, num, in, RET, OP32_SET_RANGE)) ASSIGNS(GHOSTS);
errcode_t ext2fs_get_generic_bmap_range(ext2fs_generic_bitmap gen_bmap, __u64 start, unsigned int num, void *out)
	REQUIRES(pre_32(gen_bmap) && start < MAX_BLOCKS && num >= 1)
	ENSURES(spec_d_range(gen_bmap, start, num, out, RET, OP32_GET_RANGE)) ASSIGNS(GHOSTS);

unsigned long long verif_oldout;	/* ghost: *out / *oend on entry */
static __u64 OUT;
static int spec_d_ff(ext2fs_generic_bitmap g, __u64 s_, __u64 e_, errcode_t ret, int op)
{
	return (FITS32(s_) && FITS32(e_)) ? (fwd(g, op, s_, e_) && ret == IN.be_ret &&
					     OUT == (ret == 0 ? (__u64)(__u32)IN.be_out : verif_oldout))
					  : (ret == EINVAL && G_CALLS == 0 && WARNED(EXT2FS_TEST_ERROR, s_) && OUT == verif_oldout);
}
errcode_t ext2fs_find_first_zero_generic_bmap(ext2fs_generic_bitmap bitmap, __u64 start, __u64 end, __u64 *out)
	REQUIRES(pre_32(bitmap) && out == &OUT && verif_oldout == OUT)
	ENSURES(spec_d_ff(bitmap, start, end, RET, OP32_FFZ)) ASSIGNS(GHOSTS, OUT);
errcode_t ext2fs_find_first_set_generic_bmap(ext2fs_generic_bitmap bitmap, __u64 start, __u64 end, __u64 *out)
	REQUIRES(pre_32(bitmap) && out == &OUT && verif_oldout == OUT)
	ENSURES(spec_d_ff(bitmap, start, end, RET, OP32_FFS)) ASSIGNS(GHOSTS, OUT);

errcode_t ext2fs_resize_generic_bmap(ext2fs_generic_bitmap gen_bmap, __u64 new_end, __u64 new_real_end)
	REQUIRES(pre_32(gen_bmap) && FITS32(new_end) && FITS32(new_real_end))
	ENSURES(fwd(gen_bmap, OP32_RESIZE, new_end, new_real_end) && G_MAGIC == (unsigned long long)B64(gen_bmap)->magic && RET == IN.be_ret)
	ASSIGNS(GHOSTS);
errcode_t ext2fs_fudge_generic_bmap_end(ext2fs_generic_bitmap gen_bitmap, errcode_t neq, __u64 end, __u64 *oend)
	REQUIRES(pre_32(gen_bitmap) && FITS32(end) && (oend == 0 || oend == &OUT) && verif_oldout == OUT)
	REQUIRES(IN.be_ret == (errcode_t)(int)IN.be_ret)
	ENSURES(fwd(gen_bitmap, OP32_FUDGE, end, (unsigned long long)neq) && G_MAGIC == (unsigned long long)B64(gen_bitmap)->magic && RET == IN.be_ret)
	/* on success the old end is widened into *oend; on failure of the legacy call *oend is unspecified (the code copies an
	 * uninitialised temporary - observation, see the agent report) */
	ENSURES(oend ? (RET != 0 || OUT == (__u64)(ext2_ino_t)IN.be_out) : OUT == verif_oldout)
	ASSIGNS(GHOSTS, OUT);

void h_gen_d32(void)
{
	ext2fs_generic_bitmap g = (ext2fs_generic_bitmap)&BMA;
	static char buf[8];
	errcode_t r;
	int ri;
	build_any(1);
	OUT = IN.arg2 ^ 0x5a5a;
	verif_oldout = OUT;
	switch (IN.op % 9) {
	case 0:
		ri = ext2fs_mark_generic_bmap(g, IN.arg);
		CHECK(spec_d_single(g, IN.arg, ri, OP32_MARK, EXT2FS_MARK_ERROR), "legacy mark: forwarded once if the number fits 32 bits, else 0 + error hook");
		if (G_CALLS == 1) REACH("mark forwarded");
		if (G_WARN == 1) REACH("mark rejected");
		break;
	case 1:
		ri = ext2fs_unmark_generic_bmap(g, IN.arg);
		CHECK(spec_d_single(g, IN.arg, ri, OP32_UNMARK, EXT2FS_UNMARK_ERROR), "legacy unmark: forwarded once if the number fits 32 bits, else 0 + error hook");
		if (G_CALLS == 1) REACH("unmark forwarded");
		if (G_WARN == 1) REACH("unmark rejected");
		break;
	case 2:
		ri = ext2fs_test_generic_bmap(g, IN.arg);
		CHECK(spec_d_single(g, IN.arg, ri, OP32_TEST, EXT2FS_TEST_ERROR), "legacy test: forwarded once if the number fits 32 bits, else 0 + error hook");
		if (G_CALLS == 1) REACH("test forwarded");
		if (G_WARN == 1) REACH("test rejected");
		break;
	case 3:
		ASSUME(IN.arg < MAX_BLOCKS && IN.num >= 1);
		r = ext2fs_set_generic_bmap_range(g, IN.arg, IN.num, buf);
		CHECK(spec_d_range(g, IN.arg, IN.num, buf, r, OP32_SET_RANGE), "legacy set_range: range check (last number fits 32 bits), then the legacy implementation, once");
		if (G_CALLS == 1) REACH("set_range forwarded");
		if (FITS32(IN.arg) && !FITS32(IN.arg + IN.num - 1)) REACH("set_range: only the end exceeds 32 bits");
		break;
	case 4:
		ASSUME(IN.arg < MAX_BLOCKS && IN.num >= 1);
		r = ext2fs_get_generic_bmap_range(g, IN.arg, IN.num, buf);
		CHECK(spec_d_range(g, IN.arg, IN.num, buf, r, OP32_GET_RANGE), "legacy get_range: range check (last number fits 32 bits), then the legacy implementation, once");
		if (G_CALLS == 1) REACH("get_range forwarded");
		if (FITS32(IN.arg) && !FITS32(IN.arg + IN.num - 1)) REACH("get_range: only the end exceeds 32 bits");
		break;
	case 5:
		r = ext2fs_find_first_zero_generic_bmap(g, IN.arg, IN.arg2, &OUT);
		CHECK(spec_d_ff(g, IN.arg, IN.arg2, r, OP32_FFZ), "legacy find_first_zero: forwarded once, answer widened; bad range: EINVAL + error hook, *out untouched");
		if (G_CALLS == 1 && r == 0) REACH("ffz forwarded, found");
		if (G_WARN == 1) REACH("ffz rejected");
		break;
	case 6:
		r = ext2fs_find_first_set_generic_bmap(g, IN.arg, IN.arg2, &OUT);
		CHECK(spec_d_ff(g, IN.arg, IN.arg2, r, OP32_FFS), "legacy find_first_set: forwarded once, answer widened; bad range: EINVAL + error hook, *out untouched");
		if (G_CALLS == 1 && r == ENOENT) REACH("ffs forwarded, ENOENT");
		if (G_WARN == 1) REACH("ffs rejected");
		break;
	case 7:
		ASSUME(FITS32(IN.arg) && FITS32(IN.arg2));
		r = ext2fs_resize_generic_bmap(g, IN.arg, IN.arg2);
		CHECK(fwd(g, OP32_RESIZE, IN.arg, IN.arg2) && G_MAGIC == (unsigned long long)IN.magic && r == IN.be_ret, "legacy resize: forwarded once with the bitmap's own magic");
		REACH("resize forwarded");
		break;
	default: {
		__u64 *oend = IN.null_out ? 0 : &OUT;
		ASSUME(FITS32(IN.arg));
		ASSUME(IN.be_ret == (errcode_t)(int)IN.be_ret);	/* the generic layer keeps the legacy result in an `int` */
		r = ext2fs_fudge_generic_bmap_end(g, IN.neq, IN.arg, oend);
		CHECK(fwd(g, OP32_FUDGE, IN.arg, (unsigned long long)IN.neq) && G_MAGIC == (unsigned long long)IN.magic && r == IN.be_ret, "legacy fudge_end: forwarded once with the bitmap's own magic");
		CHECK(oend ? (r != 0 || OUT == (__u64)(ext2_ino_t)IN.be_out) : OUT == verif_oldout, "legacy fudge_end: on success the old end is widened into *oend if requested");
		if (oend) REACH("fudge forwarded, oend given");
		if (!oend) REACH("fudge forwarded, oend NULL");
		break; }
	}
	REACH("end");
}
