/* VERIF-UNIT
{
 "name": "gen64_mark",
 "props": ["C16"],
 "level": "U",
 "tier": "quick",
 "harness": "h_gen_single",
 "defines": ["SINGLE_OP=0"],
 "enforce": ["ext2fs_mark_generic_bmap"],
 "functions": ["lib/ext2fs/gen_bitmap64.c:ext2fs_mark_generic_bmap", "lib/ext2fs/gen_bitmap64.c:warn_bitmap"],
 "assumes": ["backend = harness model backend (set semantics at one ghost cluster, argument checks, call log); the real backends are proved against the same contracts in their own units",
             "legacy 32-bit magic excluded (dispatch to gen_bitmap.c)",
             "0 <= cluster_bits <= 32, start <= end <= real_end, real_end < 2^62 >> cluster_bits"],
 "backend": "kissat",
 "native": true
}
*/
/* VERIF-UNIT
{
 "name": "gen64_unmark",
 "props": ["C16"],
 "level": "U",
 "tier": "quick",
 "harness": "h_gen_single",
 "defines": ["SINGLE_OP=1"],
 "enforce": ["ext2fs_unmark_generic_bmap"],
 "functions": ["lib/ext2fs/gen_bitmap64.c:ext2fs_unmark_generic_bmap", "lib/ext2fs/gen_bitmap64.c:warn_bitmap"],
 "assumes": ["backend = harness model backend (set semantics at one ghost cluster, argument checks, call log); the real backends are proved against the same contracts in their own units",
             "legacy 32-bit magic excluded (dispatch to gen_bitmap.c)",
             "0 <= cluster_bits <= 32, start <= end <= real_end, real_end < 2^62 >> cluster_bits"],
 "backend": "kissat",
 "native": true
}
*/
/* VERIF-UNIT
{
 "name": "gen64_test",
 "props": ["C16"],
 "level": "U",
 "tier": "quick",
 "harness": "h_gen_single",
 "defines": ["SINGLE_OP=2"],
 "enforce": ["ext2fs_test_generic_bmap"],
 "functions": ["lib/ext2fs/gen_bitmap64.c:ext2fs_test_generic_bmap", "lib/ext2fs/gen_bitmap64.c:warn_bitmap"],
 "assumes": ["backend = harness model backend (set semantics at one ghost cluster, argument checks, call log); the real backends are proved against the same contracts in their own units",
             "legacy 32-bit magic excluded (dispatch to gen_bitmap.c)",
             "0 <= cluster_bits <= 32, start <= end <= real_end, real_end < 2^62 >> cluster_bits"],
 "backend": "kissat",
 "native": true
}
*/
/* VERIF-UNIT
{
 "name": "gen64_passthrough",
 "props": ["C16"],
 "level": "U",
 "tier": "quick",
 "harness": "h_gen_pass",
 "enforce": ["ext2fs_set_generic_bmap_range", "ext2fs_get_generic_bmap_range", "ext2fs_resize_generic_bmap", "ext2fs_fudge_generic_bmap_end"],
 "functions": ["lib/ext2fs/gen_bitmap64.c:ext2fs_set_generic_bmap_range", "lib/ext2fs/gen_bitmap64.c:ext2fs_get_generic_bmap_range", "lib/ext2fs/gen_bitmap64.c:ext2fs_resize_generic_bmap", "lib/ext2fs/gen_bitmap64.c:ext2fs_fudge_generic_bmap_end"],
 "assumes": ["backend = harness model backend (logs the call, returns an arbitrary code)",
             "legacy 32-bit magic excluded (dispatch to gen_bitmap.c)"],
 "backend": "kissat",
 "native": true
}
*/
#include "gen64_common.h"

/* ------------------------------------------------------------------ single-bit operations
 * Property: cluster-granular set.  c = arg >> cluster_bits.
 *   invalid handle                 -> 0, backend untouched
 *   c inside [start, end]          -> backend called exactly once for exactly cluster c, result = old membership
 *                                     of c, set becomes NEWMEMBER
 *   c outside                      -> 0, nothing changes, error hook called once with base_error_code + op code */
/* membership of k after the operation OPC on cluster c */
#define NEW_SINGLE(OPC, c) ((OPC) == OP_MARK ? (verif_old_bit || (c) == verif_k) : \
			    (OPC) == OP_UNMARK ? (verif_old_bit && (c) != verif_k) : (verif_old_bit != 0))
static int spec_single(ext2fs_generic_bitmap g, __u64 arg, int ret, int OPC, int ERRC)
{
	return ( 
	!VALID64(g) ? ((ret) == 0 && G_CALLS == 0 && G_WARN == 0 && verif_g0 == (unsigned)verif_old_bit) : 
	IN_RANGE(g, CL(g, arg)) ? 
		(G_CALLS == 1 && G_OP == (OPC) && G_ARG == CL(g, arg) && g_bm == (const void *)(g) && G_WARN == 0 && 
		 (CL(g, arg) != verif_k || ((ret) != 0) == (verif_old_bit != 0)) && 
		 verif_g0 == (unsigned)NEW_SINGLE(OPC, CL(g, arg))) : 
		((ret) == 0 && G_CALLS == 0 && G_WARN == 1 && 
		 G_CODE == (unsigned long long)(B64(g)->base_error_code + (ERRC)) && verif_g0 == (unsigned)verif_old_bit));
}


int ext2fs_mark_generic_bmap(ext2fs_generic_bitmap gen_bitmap, __u64 arg)
	REQUIRES(PRE_A(gen_bitmap, &MODEL_OPS) && PRE_LOG)
	ENSURES(spec_single(gen_bitmap, arg, RET, OP_MARK, EXT2FS_MARK_ERROR))
	ASSIGNS(GHOSTS);

int ext2fs_unmark_generic_bmap(ext2fs_generic_bitmap gen_bitmap, __u64 arg)
	REQUIRES(PRE_A(gen_bitmap, &MODEL_OPS) && PRE_LOG)
	ENSURES(spec_single(gen_bitmap, arg, RET, OP_UNMARK, EXT2FS_UNMARK_ERROR))
	ASSIGNS(GHOSTS);

int ext2fs_test_generic_bmap(ext2fs_generic_bitmap gen_bitmap, __u64 arg)
	REQUIRES(PRE_A(gen_bitmap, &MODEL_OPS) && PRE_LOG)
	ENSURES(spec_single(gen_bitmap, arg, RET, OP_TEST, EXT2FS_TEST_ERROR))
	ASSIGNS(GHOSTS);

void h_gen_single(void)
{
	ext2fs_generic_bitmap g = build_a(&MODEL_OPS);
	int r;
#if SINGLE_OP == 0
	r = ext2fs_mark_generic_bmap(g, IN.arg);
	CHECK(spec_single(g, IN.arg, r, OP_MARK, EXT2FS_MARK_ERROR),
	      "mark: the cluster of arg joins the set, result = old membership; out of range: 0, no change, error hook");
	if (g && IS64M(IN.magic) && G_CALLS == 1 && G_ARG == verif_k && IN.cluster_bits > 0) REACH("mark in range at k, bigalloc");
	if (g && IS64M(IN.magic) && G_WARN == 1) REACH("mark out of range");
#elif SINGLE_OP == 1
	r = ext2fs_unmark_generic_bmap(g, IN.arg);
	CHECK(spec_single(g, IN.arg, r, OP_UNMARK, EXT2FS_UNMARK_ERROR),
	      "unmark: the cluster of arg leaves the set, result = old membership; out of range: 0, no change, error hook");
	if (g && IS64M(IN.magic) && G_CALLS == 1 && G_ARG == verif_k && IN.cluster_bits > 0) REACH("unmark in range at k, bigalloc");
	if (g && IS64M(IN.magic) && G_WARN == 1) REACH("unmark out of range");
#else
	r = ext2fs_test_generic_bmap(g, IN.arg);
	CHECK(spec_single(g, IN.arg, r, OP_TEST, EXT2FS_TEST_ERROR),
	      "test: result = membership of the cluster of arg, no change; out of range: 0, error hook");
	if (g && IS64M(IN.magic) && G_CALLS == 1 && G_ARG == verif_k && IN.cluster_bits > 0) REACH("test in range at k, bigalloc");
	if (g && IS64M(IN.magic) && G_WARN == 1) REACH("test out of range");
#endif
	if (!g) REACH("NULL handle");
	REACH("end");
}

/* ------------------------------------------------------------------ pass-through operations
 * get/set range and resize are handed to the backend unchanged (the callers work in cluster units already):
 * exactly one backend call with identical arguments, its result returned; an invalid handle gives EINVAL without a call.
 * fudge_end: end > real_end -> neq, nothing changes; otherwise the old end is reported and end is replaced;
 * membership never changes. */
unsigned long long verif_oldout;	/* ghost: *oend on entry */
static __u64 OUT;

static int spec_pass(ext2fs_generic_bitmap g, __u64 a, __u64 b, const void *p, errcode_t ret, int OPC)
{
	return ( 
	!VALID64(g) ? ((ret) == EINVAL && G_CALLS == 0) : 
	(G_CALLS == 1 && G_OP == (OPC) && G_ARG == (a) && G_NUM == (b) && g_ptr == (const void *)(p) && 
	 g_bm == (const void *)(g) && (ret) == IN.be_ret));
}

errcode_t ext2fs_set_generic_bmap_range(ext2fs_generic_bitmap gen_bmap, __u64 start, unsigned int num, void *in)
	REQUIRES(PRE_A(gen_bmap, &MODEL_OPS) && PRE_LOG)
	ENSURES(spec_pass(gen_bmap, start, num, in, RET, OP_SET_RANGE) && G_WARN == 0)
	ASSIGNS(GHOSTS);
errcode_t ext2fs_get_generic_bmap_range(ext2fs_generic_bitmap gen_bmap, __u64 start, unsigned int num, void *out)
	REQUIRES(PRE_A(gen_bmap, &MODEL_OPS) && PRE_LOG)
	ENSURES(spec_pass(gen_bmap, start, num, out, RET, OP_GET_RANGE) && G_WARN == 0)
	ASSIGNS(GHOSTS);
errcode_t ext2fs_resize_generic_bmap(ext2fs_generic_bitmap gen_bmap, __u64 new_end, __u64 new_real_end)
	REQUIRES(PRE_A(gen_bmap, &MODEL_OPS) && PRE_LOG)
	ENSURES(spec_pass(gen_bmap, new_end, new_real_end, 0, RET, OP_RESIZE) && G_WARN == 0)
	ASSIGNS(GHOSTS);

unsigned long long verif_oldend;	/* ghost: bitmap->end on entry */
static int spec_fudge(ext2fs_generic_bitmap g, errcode_t neq, __u64 e_, const __u64 *oend, __u64 oldout, errcode_t ret)
{
	return ( 
	!VALID64(g) ? ((ret) == EINVAL && G_CALLS == 0) : 
	(G_CALLS == 0 && G_WARN == 0 && verif_g0 == (unsigned)verif_old_bit && 
	 ((e_) > B64(g)->real_end ? 
		((ret) == (neq) && B64(g)->end == verif_oldend && ((oend) == 0 || *(oend) == (oldout))) : 
		((ret) == 0 && B64(g)->end == (e_) && ((oend) == 0 || *(oend) == verif_oldend)))));
}
errcode_t ext2fs_fudge_generic_bmap_end(ext2fs_generic_bitmap gen_bitmap, errcode_t neq, __u64 end, __u64 *oend)
	REQUIRES(PRE_A(gen_bitmap, &MODEL_OPS) && PRE_LOG && (oend == 0 || oend == &OUT) && verif_oldout == OUT)
	REQUIRES(gen_bitmap == 0 || verif_oldend == B64(gen_bitmap)->end)
	ENSURES(spec_fudge(gen_bitmap, neq, end, oend, verif_oldout, RET))
	ENSURES(gen_bitmap == 0 || (B64(gen_bitmap)->start == OLD(BMA.start) && B64(gen_bitmap)->real_end == OLD(BMA.real_end) && B64(gen_bitmap)->magic == OLD(BMA.magic)))
	ASSIGNS(GHOSTS, OUT, BMA.end);

void h_gen_pass(void)
{
	ext2fs_generic_bitmap g = build_a(&MODEL_OPS);
	errcode_t r;
	static char buf[8];
	if (IN.op % 4 == 0) {
		r = ext2fs_set_generic_bmap_range(g, IN.arg, IN.num, buf);
		CHECK(spec_pass(g, IN.arg, IN.num, buf, r, OP_SET_RANGE), "set_range: handed to the backend unchanged, once");
		if (g && IS64M(IN.magic)) REACH("set_range");
	} else if (IN.op % 4 == 1) {
		r = ext2fs_get_generic_bmap_range(g, IN.arg, IN.num, buf);
		CHECK(spec_pass(g, IN.arg, IN.num, buf, r, OP_GET_RANGE), "get_range: handed to the backend unchanged, once");
		if (g && IS64M(IN.magic)) REACH("get_range");
	} else if (IN.op % 4 == 2) {
		r = ext2fs_resize_generic_bmap(g, IN.arg, IN.arg2);
		CHECK(spec_pass(g, IN.arg, IN.arg2, 0, r, OP_RESIZE), "resize: handed to the backend unchanged, once");
		if (g && IS64M(IN.magic)) REACH("resize");
		if (!g) REACH("resize NULL");
	} else {
		__u64 *oend = IN.null_out ? 0 : &OUT;
		OUT = IN.be_out;
		verif_oldout = OUT;
		verif_oldend = BMA.end;
		r = ext2fs_fudge_generic_bmap_end(g, IN.neq, IN.arg, oend);
		CHECK(spec_fudge(g, IN.neq, IN.arg, oend, verif_oldout, r),
		      "fudge_end: beyond real_end -> neq and no change; else old end reported, end replaced; membership untouched");
		CHECK(BMA.start == IN.start && BMA.real_end == IN.real_end, "fudge_end changes only `end`");
		if (g && IS64M(IN.magic) && r == 0 && oend) REACH("fudge ok");
		if (g && IS64M(IN.magic) && r != 0) REACH("fudge beyond real_end");
	}
	REACH("end");
}

