/* VERIF-UNIT
{
 "name": "gen64_mark",
 "props": ["C16"],
 "level": "U",
 "tier": "quick",
 "harness": "h_gen_single",
 "defines": ["SINGLE_OP=0"],
 "enforce": ["ext2fs_mark_generic_bmap"],
 "functions": ["lib/ext2fs/gen_bitmap64.c:ext2fs_mark_generic_bmap", "lib/ext2fs/gen_bitmap64.c:warn_bitmap"],
 "assumes": ["backend = harness model backend (set semantics at one ghost cluster, argument checks, call log); the real backends are proved against the same contracts in their own units",
             "legacy 32-bit magic excluded (dispatch to gen_bitmap.c)",
             "0 <= cluster_bits <= 32, start <= end <= real_end, real_end < 2^62 >> cluster_bits"],
 "backend": "kissat",
 "native": true
}
*/
/* VERIF-UNIT
{
 "name": "gen64_unmark",
 "props": ["C16"],
 "level": "U",
 "tier": "quick",
 "harness": "h_gen_single",
 "defines": ["SINGLE_OP=1"],
 "enforce": ["ext2fs_unmark_generic_bmap"],
 "functions": ["lib/ext2fs/gen_bitmap64.c:ext2fs_unmark_generic_bmap", "lib/ext2fs/gen_bitmap64.c:warn_bitmap"],
 "assumes": ["backend = harness model backend (set semantics at one ghost cluster, argument checks, call log); the real backends are proved against the same contracts in their own units",
             "legacy 32-bit magic excluded (dispatch to gen_bitmap.c)",
             "0 <= cluster_bits <= 32, start <= end <= real_end, real_end < 2^62 >> cluster_bits"],
 "backend": "kissat",
 "native": true
}
*/
/* VERIF-UNIT
{
 "name": "gen64_test",
 "props": ["C16"],
 "level": "U",
 "tier": "quick",
 "harness": "h_gen_single",
 "defines": ["SINGLE_OP=2"],
 "enforce": ["ext2fs_test_generic_bmap"],
 "functions": ["lib/ext2fs/gen_bitmap64.c:ext2fs_test_generic_bmap", "lib/ext2fs/gen_bitmap64.c:warn_bitmap"],
 "assumes": ["backend = harness model backend (set semantics at one ghost cluster, argument checks, call log); the real backends are proved against the same contracts in their own units",
             "legacy 32-bit magic excluded (dispatch to gen_bitmap.c)",
             "0 <= cluster_bits <= 32, start <= end <= real_end, real_end < 2^62 >> cluster_bits"],
 "backend": "kissat",
 "native": true
}
*/
/* VERIF-UNIT
{
 "name": "gen64_test_range2",
 "props": ["C16"],
 "level": "U",
 "tier": "wip",
 "harness": "h_gen_range",
 "defines": ["RANGE_OP=0", "GEN64_RANGE"],
 "enforce": ["ext2fs_test_block_bitmap_range2"],
 "functions": ["lib/ext2fs/gen_bitmap64.c:ext2fs_test_block_bitmap_range2"],
 "assumes": ["backend = harness model backend (see gen64_common.h)",
             "legacy 32-bit magic excluded (dispatch to gen_bitmap.c)",
             "num >= 1 (callers pass a positive block count; the rounding of an empty range is not defined by the property)",
             "0 <= cluster_bits <= 32, start <= end <= real_end, real_end < 2^62 >> cluster_bits (block numbers are at most 48 bits on disk)"],
 "backend": "kissat",
 "native": true
}
*/
/* VERIF-UNIT
{
 "name": "gen64_mark_range2",
 "props": ["C16"],
 "level": "U",
 "tier": "wip",
 "harness": "h_gen_range",
 "defines": ["RANGE_OP=1", "GEN64_RANGE"],
 "enforce": ["ext2fs_mark_block_bitmap_range2"],
 "functions": ["lib/ext2fs/gen_bitmap64.c:ext2fs_mark_block_bitmap_range2"],
 "assumes": ["backend = harness model backend (see gen64_common.h)",
             "legacy 32-bit magic excluded (dispatch to gen_bitmap.c)",
             "num >= 1 (callers pass a positive block count; the rounding of an empty range is not defined by the property)",
             "0 <= cluster_bits <= 32, start <= end <= real_end, real_end < 2^62 >> cluster_bits (block numbers are at most 48 bits on disk)"],
 "backend": "kissat",
 "native": true
}
*/
/* VERIF-UNIT
{
 "name": "gen64_unmark_range2",
 "props": ["C16"],
 "level": "U",
 "tier": "wip",
 "harness": "h_gen_range",
 "defines": ["RANGE_OP=2", "GEN64_RANGE"],
 "enforce": ["ext2fs_unmark_block_bitmap_range2"],
 "functions": ["lib/ext2fs/gen_bitmap64.c:ext2fs_unmark_block_bitmap_range2"],
 "assumes": ["backend = harness model backend (see gen64_common.h)",
             "legacy 32-bit magic excluded (dispatch to gen_bitmap.c)",
             "num >= 1 (callers pass a positive block count; the rounding of an empty range is not defined by the property)",
             "0 <= cluster_bits <= 32, start <= end <= real_end, real_end < 2^62 >> cluster_bits (block numbers are at most 48 bits on disk)"],
 "backend": "kissat",
 "native": true
}
*/
/* VERIF-UNIT
{
 "name": "gen64_ffz_backend",
 "props": ["C16"],
 "level": "U",
 "unwindset": {"ext2fs_find_first_zero_generic_bmap.0": 1, "ext2fs_find_first_zero_generic_bmap.1": 1},
 "unwind_reason": "the generic test_bmap loop (and the backward goto into the found: block) is unreachable when the backend provides find_first operations; the unwinding assertions prove exactly that",
 "tier": "wip",
 "harness": "h_gen_ff",
 "defines": ["FF_OP=0", "GEN64_FF_BACKEND"],
 "enforce": ["ext2fs_find_first_zero_generic_bmap"],
 "functions": ["lib/ext2fs/gen_bitmap64.c:ext2fs_find_first_zero_generic_bmap"],
 "assumes": ["backend = harness model backend providing find_first_zero/find_first_set: any answer consistent with set semantics at the ghost cluster, or an arbitrary error code",
             "the fallback loop (backend without find_first operations) is the separate unit gen64_find_first_fallback",
             "legacy 32-bit magic excluded (dispatch to gen_bitmap.c)",
             "0 <= cluster_bits <= 32, start <= end <= real_end, real_end < 2^62 >> cluster_bits"],
 "backend": "kissat",
 "native": true
}
*/
/* VERIF-UNIT
{
 "name": "gen64_ffs_backend",
 "props": ["C16"],
 "level": "U",
 "unwindset": {"ext2fs_find_first_set_generic_bmap.0": 1, "ext2fs_find_first_set_generic_bmap.1": 1},
 "unwind_reason": "the generic test_bmap loop (and the backward goto into the found: block) is unreachable when the backend provides find_first operations; the unwinding assertions prove exactly that",
 "tier": "wip",
 "harness": "h_gen_ff",
 "defines": ["FF_OP=1", "GEN64_FF_BACKEND"],
 "enforce": ["ext2fs_find_first_set_generic_bmap"],
 "functions": ["lib/ext2fs/gen_bitmap64.c:ext2fs_find_first_set_generic_bmap"],
 "assumes": ["backend = harness model backend providing find_first_zero/find_first_set: any answer consistent with set semantics at the ghost cluster, or an arbitrary error code",
             "the fallback loop (backend without find_first operations) is the separate unit gen64_find_first_fallback",
             "legacy 32-bit magic excluded (dispatch to gen_bitmap.c)",
             "0 <= cluster_bits <= 32, start <= end <= real_end, real_end < 2^62 >> cluster_bits"],
 "backend": "kissat",
 "native": true
}
*/
/* VERIF-UNIT
{
 "name": "gen64_ffz_fallback",
 "props": ["C16"],
 "level": "U",
 "tier": "wip",
 "harness": "h_gen_ff_fallback",
 "defines": ["FF_OP=0", "GEN64_FF_FALLBACK"],
 "enforce": ["ext2fs_find_first_zero_generic_bmap"],
 "loop_contracts": true,
 "functions": ["lib/ext2fs/gen_bitmap64.c:ext2fs_find_first_zero_generic_bmap"],
 "assumes": ["backend = harness model backend WITHOUT find_first operations (generic test_bmap loop, closed by an in-place loop contract)",
             "legacy 32-bit magic excluded (dispatch to gen_bitmap.c)",
             "0 <= cluster_bits <= 32, start <= end <= real_end, real_end < 2^62 >> cluster_bits"],
 "backend": "kissat",
 "native": true
}
*/
/* VERIF-UNIT
{
 "name": "gen64_ffs_fallback",
 "props": ["C16"],
 "level": "U",
 "tier": "wip",
 "harness": "h_gen_ff_fallback",
 "defines": ["FF_OP=1", "GEN64_FF_FALLBACK"],
 "enforce": ["ext2fs_find_first_set_generic_bmap"],
 "loop_contracts": true,
 "functions": ["lib/ext2fs/gen_bitmap64.c:ext2fs_find_first_set_generic_bmap"],
 "assumes": ["backend = harness model backend WITHOUT find_first operations (generic test_bmap loop, closed by an in-place loop contract)",
             "legacy 32-bit magic excluded (dispatch to gen_bitmap.c)",
             "0 <= cluster_bits <= 32, start <= end <= real_end, real_end < 2^62 >> cluster_bits"],
 "backend": "kissat",
 "native": true
}
*/
/* VERIF-UNIT
{
 "name": "gen64_passthrough",
 "props": ["C16"],
 "level": "U",
 "tier": "quick",
 "harness": "h_gen_pass",
 "enforce": ["ext2fs_set_generic_bmap_range", "ext2fs_get_generic_bmap_range", "ext2fs_resize_generic_bmap", "ext2fs_fudge_generic_bmap_end"],
 "functions": ["lib/ext2fs/gen_bitmap64.c:ext2fs_set_generic_bmap_range", "lib/ext2fs/gen_bitmap64.c:ext2fs_get_generic_bmap_range", "lib/ext2fs/gen_bitmap64.c:ext2fs_resize_generic_bmap", "lib/ext2fs/gen_bitmap64.c:ext2fs_fudge_generic_bmap_end"],
 "assumes": ["backend = harness model backend (logs the call, returns an arbitrary code)",
             "legacy 32-bit magic excluded (dispatch to gen_bitmap.c)"],
 "backend": "kissat",
 "native": true
}
*/
/* VERIF-UNIT
{
 "name": "gen64_compare",
 "props": ["C16"],
 "level": "U/iter",
 "tier": "wip",
 "harness": "h_gen_cmp",
 "enforce": ["ext2fs_compare_generic_bmap"],
 "loop_contracts": true,
 "functions": ["lib/ext2fs/gen_bitmap64.c:ext2fs_compare_generic_bmap"],
 "assumes": ["both bitmaps use the harness model backend (set semantics at one ghost cluster each)",
             "legacy 32-bit magic excluded (dispatch to gen_bitmap.c)",
             "0 <= cluster_bits <= 32, start <= end <= real_end, real_end < 2^62 >> cluster_bits"],
 "backend": "kissat",
 "native": false
}
*/
#include "gen64_common.h"

/* ------------------------------------------------------------------ single-bit operations
 * Property: cluster-granular set.  c = arg >> cluster_bits.
 *   invalid handle                 -> 0, backend untouched
 *   c inside [start, end]          -> backend called exactly once for exactly cluster c, result = old membership
 *                                     of c, set becomes NEWMEMBER
 *   c outside                      -> 0, nothing changes, error hook called once with base_error_code + op code */
/* membership of k after the operation OPC on cluster c */
#define NEW_SINGLE(OPC, c) ((OPC) == OP_MARK ? (verif_old_bit || (c) == verif_k) : \
			    (OPC) == OP_UNMARK ? (verif_old_bit && (c) != verif_k) : (verif_old_bit != 0))
static int spec_single(ext2fs_generic_bitmap g, __u64 arg, int ret, int OPC, int ERRC)
{
	return ( 
	!VALID64(g) ? ((ret) == 0 && G_CALLS == 0 && G_WARN == 0 && verif_g0 == (unsigned)verif_old_bit) : 
	IN_RANGE(g, CL(g, arg)) ? 
		(G_CALLS == 1 && G_OP == (OPC) && G_ARG == CL(g, arg) && g_bm == (const void *)(g) && G_WARN == 0 && 
		 (CL(g, arg) != verif_k || ((ret) != 0) == (verif_old_bit != 0)) && 
		 verif_g0 == (unsigned)NEW_SINGLE(OPC, CL(g, arg))) : 
		((ret) == 0 && G_CALLS == 0 && G_WARN == 1 && 
		 G_CODE == (unsigned long long)(B64(g)->base_error_code + (ERRC)) && verif_g0 == (unsigned)verif_old_bit));
}

static int pre_a(ext2fs_generic_bitmap g, const struct ext2_bitmap_ops *ops)
{
	return g == 0 || (g == (ext2fs_generic_bitmap)&BMA && WF64(g, ops, &verif_g0));
}
#define PRE_A(g, ops) pre_a(g, ops)
#define PRE_LOG (G_CALLS == 0 && G_WARN == 0 && verif_g0 == (unsigned)verif_old_bit && verif_g0 <= 1)

int ext2fs_mark_generic_bmap(ext2fs_generic_bitmap gen_bitmap, __u64 arg)
	REQUIRES(PRE_A(gen_bitmap, &MODEL_OPS) && PRE_LOG)
	ENSURES(spec_single(gen_bitmap, arg, RET, OP_MARK, EXT2FS_MARK_ERROR))
	ASSIGNS(GHOSTS);

int ext2fs_unmark_generic_bmap(ext2fs_generic_bitmap gen_bitmap, __u64 arg)
	REQUIRES(PRE_A(gen_bitmap, &MODEL_OPS) && PRE_LOG)
	ENSURES(spec_single(gen_bitmap, arg, RET, OP_UNMARK, EXT2FS_UNMARK_ERROR))
	ASSIGNS(GHOSTS);

#if !defined(GEN64_RANGE) && !defined(VERIF_UNIT_gen64_compare)
int ext2fs_test_generic_bmap(ext2fs_generic_bitmap gen_bitmap, __u64 arg)
	REQUIRES(PRE_A(gen_bitmap, &MODEL_OPS) && PRE_LOG)
	ENSURES(spec_single(gen_bitmap, arg, RET, OP_TEST, EXT2FS_TEST_ERROR))
	ASSIGNS(GHOSTS);
#endif

void h_gen_single(void)
{
	ext2fs_generic_bitmap g = build_a(&MODEL_OPS);
	int r;
#if SINGLE_OP == 0
	r = ext2fs_mark_generic_bmap(g, IN.arg);
	CHECK(spec_single(g, IN.arg, r, OP_MARK, EXT2FS_MARK_ERROR),
	      "mark: the cluster of arg joins the set, result = old membership; out of range: 0, no change, error hook");
	if (g && IS64M(IN.magic) && G_CALLS == 1 && G_ARG == verif_k && IN.cluster_bits > 0) REACH("mark in range at k, bigalloc");
	if (g && IS64M(IN.magic) && G_WARN == 1) REACH("mark out of range");
#elif SINGLE_OP == 1
	r = ext2fs_unmark_generic_bmap(g, IN.arg);
	CHECK(spec_single(g, IN.arg, r, OP_UNMARK, EXT2FS_UNMARK_ERROR),
	      "unmark: the cluster of arg leaves the set, result = old membership; out of range: 0, no change, error hook");
	if (g && IS64M(IN.magic) && G_CALLS == 1 && G_ARG == verif_k && IN.cluster_bits > 0) REACH("unmark in range at k, bigalloc");
	if (g && IS64M(IN.magic) && G_WARN == 1) REACH("unmark out of range");
#else
	r = ext2fs_test_generic_bmap(g, IN.arg);
	CHECK(spec_single(g, IN.arg, r, OP_TEST, EXT2FS_TEST_ERROR),
	      "test: result = membership of the cluster of arg, no change; out of range: 0, error hook");
	if (g && IS64M(IN.magic) && G_CALLS == 1 && G_ARG == verif_k && IN.cluster_bits > 0) REACH("test in range at k, bigalloc");
	if (g && IS64M(IN.magic) && G_WARN == 1) REACH("test out of range");
#endif
	if (!g) REACH("NULL handle");
	REACH("end");
}

/* ------------------------------------------------------------------ block ranges
 * Property: the clusters that intersect the block range [block, block+num) are cf = cluster(block) ...
 * cl = cluster(block+num-1); the range is acceptable iff it does not wrap and cf >= start and cl <= end. */
#define LASTB(block, num) ((block) + (num) - 1)
#define RANGE_OK(g, block, num) (LASTB(block, num) >= (block) && CL(g, block) >= B64(g)->start && CL(g, LASTB(block, num)) <= B64(g)->end)
#define NCL(g, block, num) (CL(g, LASTB(block, num)) - CL(g, block) + 1)
#define K_IN_RANGE(g, block, num) (verif_k >= CL(g, block) && verif_k <= CL(g, LASTB(block, num)))

static int spec_range(ext2fs_generic_bitmap g, __u64 block, unsigned int num, int OPC, errcode_t ERRCODE)
{
	return ( 
	!VALID64(g) ? (G_CALLS == 0 && G_WARN == 0 && verif_g0 == (unsigned)verif_old_bit) : 
	RANGE_OK(g, block, num) ? 
		(G_CALLS == 1 && G_OP == (OPC) && G_ARG == CL(g, block) && G_NUM == NCL(g, block, num) && 
		 g_bm == (const void *)(g) && G_WARN == 0 && 
		 verif_g0 == (unsigned)((OPC) == OP_MARK_EXT ? (verif_old_bit || K_IN_RANGE(g, block, num)) : (verif_old_bit && !K_IN_RANGE(g, block, num)))) : 
		(G_CALLS == 0 && G_WARN == 1 && G_CODE == (unsigned long long)(ERRCODE) && verif_g0 == (unsigned)verif_old_bit));
}

/* test: nonzero iff no member among the clusters cf..cl (pointwise: nonzero => k is not a member if in range;
 * exact when the range is the single cluster k); the backend is consulted exactly once for exactly cf..cl and its
 * answer is the result; unacceptable range: nonzero, backend untouched, error hook */
static int spec_test_range(ext2fs_generic_bitmap g, __u64 block, unsigned int num, int ret)
{
	return ( 
	!VALID64(g) ? ((ret) != 0 && G_CALLS == 0 && verif_g0 == (unsigned)verif_old_bit) : 
	RANGE_OK(g, block, num) ? 
		(G_CALLS == 1 && g_bm == (const void *)(g) && G_WARN == 0 && verif_g0 == (unsigned)verif_old_bit && G_ARG == CL(g, block) && 
		 ((G_OP == OP_TEST && NCL(g, block, num) == 1) || 
		  (G_OP == OP_TESTCLEAR && G_NUM == NCL(g, block, num) && ((ret) != 0) == (IN.be_ret != 0))) && 
		 ((ret) == 0 || !(K_IN_RANGE(g, block, num) && verif_old_bit)) && 
		 (!(NCL(g, block, num) == 1 && CL(g, block) == verif_k) || ((ret) != 0) == !verif_old_bit)) : 
		((ret) != 0 && ((num) == 1 || (ret) == EINVAL) && G_CALLS == 0 && G_WARN == 1 && verif_g0 == (unsigned)verif_old_bit));
}

#ifdef GEN64_RANGE
int ext2fs_test_block_bitmap_range2(ext2fs_block_bitmap gen_bmap, blk64_t block, unsigned int num)
	REQUIRES(PRE_A(gen_bmap, &MODEL_OPS) && PRE_LOG && num >= 1)
	ENSURES(spec_test_range(gen_bmap, block, num, RET))
	ASSIGNS(GHOSTS);

void ext2fs_mark_block_bitmap_range2(ext2fs_block_bitmap gen_bmap, blk64_t block, unsigned int num)
	REQUIRES(PRE_A(gen_bmap, &MODEL_OPS) && PRE_LOG && num >= 1)
	ENSURES(spec_range(gen_bmap, block, num, OP_MARK_EXT, EXT2_ET_BAD_BLOCK_MARK))
	ASSIGNS(GHOSTS);

void ext2fs_unmark_block_bitmap_range2(ext2fs_block_bitmap gen_bmap, blk64_t block, unsigned int num)
	REQUIRES(PRE_A(gen_bmap, &MODEL_OPS) && PRE_LOG && num >= 1)
	ENSURES(spec_range(gen_bmap, block, num, OP_UNMARK_EXT, EXT2_ET_BAD_BLOCK_UNMARK))
	ASSIGNS(GHOSTS);
#endif

void h_gen_range(void)
{
	ext2fs_generic_bitmap g = build_a(&MODEL_OPS);
#ifndef RANGE_OP
#define RANGE_OP (IN.op % 3)
#endif
	ASSUME(IN.num >= 1);
	if (RANGE_OP == 0) {
		int r = ext2fs_test_block_bitmap_range2(g, IN.arg, IN.num);
		CHECK(spec_test_range(g, IN.arg, IN.num, r),
		      "test_range2: backend asked once for exactly the clusters intersecting [block, block+num); nonzero iff none is a member; bad range rejected");
		if (g && IS64M(IN.magic) && G_OP == OP_TESTCLEAR && IN.cluster_bits > 0 && r == 0) REACH("test range bigalloc, member found");
		if (g && IS64M(IN.magic) && G_OP == OP_TEST) REACH("test range, single block");
		if (g && IS64M(IN.magic) && G_WARN == 1 && IN.num > 1) REACH("test range rejected");
	} else if (RANGE_OP == 1) {
		ext2fs_mark_block_bitmap_range2(g, IN.arg, IN.num);
		CHECK(spec_range(g, IN.arg, IN.num, OP_MARK_EXT, EXT2_ET_BAD_BLOCK_MARK),
		      "mark_range2: exactly the clusters intersecting [block, block+num) join the set; bad range: nothing changes, error hook");
		if (g && IS64M(IN.magic) && G_CALLS == 1 && IN.cluster_bits > 1 && (IN.arg & 3) == 3 && G_NUM > 1) REACH("mark range, unaligned bigalloc");
		if (g && IS64M(IN.magic) && G_WARN == 1) REACH("mark range rejected");
	} else {
		ext2fs_unmark_block_bitmap_range2(g, IN.arg, IN.num);
		CHECK(spec_range(g, IN.arg, IN.num, OP_UNMARK_EXT, EXT2_ET_BAD_BLOCK_UNMARK),
		      "unmark_range2: exactly the clusters intersecting [block, block+num) leave the set; bad range: nothing changes, error hook");
		if (g && IS64M(IN.magic) && G_CALLS == 1) REACH("unmark range accepted");
	}
	REACH("end");
}

/* ------------------------------------------------------------------ find first zero / set
 * Property (set view, T = membership searched for: 0 for find_first_zero, 1 for find_first_set):
 *   a block b "has value T" iff membership(cluster(b)) == T.  The result is the least block in [start, end] with
 *   value T, ENOENT if there is none, EINVAL (and the error hook) if start > end or a cluster of the range lies
 *   outside [bitmap start, bitmap end].  Pointwise at cluster k:
 *     ret == 0      => start <= *out <= end, k == cluster(*out) => member(k) == T,
 *                      cluster(start) <= k < cluster(*out) => member(k) == !T,
 *                      *out is the first block >= start of its cluster
 *     ret == ENOENT => cluster(start) <= k <= cluster(end) => member(k) == !T  */
#define FF_ARGS_OK(g, s_, e_) ((s_) <= (e_) && CL(g, s_) >= B64(g)->start && CL(g, e_) <= B64(g)->end)
#define IMPL(a, b) (!(a) || (b))
#define MAXU(a, b) ((a) >= (b) ? (a) : (b))
static int spec_ff(ext2fs_generic_bitmap g, __u64 s_, __u64 e_, const __u64 *outp, __u64 oldout, errcode_t ret, int T, int OPC, int BACKEND)
{
	return ( 
	!VALID64(g) ? ((ret) == EINVAL && G_CALLS == 0 && G_WARN == 0 && *(outp) == (oldout)) : 
	!FF_ARGS_OK(g, s_, e_) ? 
		((ret) == EINVAL && G_CALLS == 0 && G_WARN == 1 && *(outp) == (oldout) && 
		 G_CODE == (unsigned long long)(B64(g)->base_error_code + EXT2FS_TEST_ERROR)) : 
	(G_WARN == 0 && verif_g0 == (unsigned)verif_old_bit && 
	 (!(BACKEND) || (G_CALLS == 1 && G_OP == (OPC) && G_ARG == CL(g, s_) && G_NUM == CL(g, e_) && (ret) == IN.be_ret)) && 
	 ((BACKEND) || (ret) == 0 || (ret) == ENOENT) && 
	 IMPL((ret) == 0, *(outp) >= (s_) && *(outp) <= (e_) && 
		IMPL(CL(g, *(outp)) == verif_k, (verif_old_bit != 0) == (T)) && 
		IMPL(verif_k >= CL(g, s_) && verif_k < CL(g, *(outp)), (verif_old_bit != 0) == !(T)) && 
		*(outp) == MAXU(s_, CL(g, *(outp)) << B64(g)->cluster_bits)) && 
	 IMPL((ret) == ENOENT, IMPL(verif_k >= CL(g, s_) && verif_k <= CL(g, e_), (verif_old_bit != 0) == !(T))) && 
	 IMPL((ret) != 0, *(outp) == (oldout))));
}

unsigned long long verif_oldout;	/* ghost: *out on entry */
static __u64 OUT;

#if defined(GEN64_FF_BACKEND) || defined(GEN64_FF_FALLBACK)
#ifdef GEN64_FF_BACKEND
#define FF_OPS MODEL_OPS
#define FF_BACKEND 1
#else
#define FF_OPS MODEL_OPS_NOFF
#define FF_BACKEND 0
#endif
errcode_t ext2fs_find_first_zero_generic_bmap(ext2fs_generic_bitmap bitmap, __u64 start, __u64 end, __u64 *out)
	REQUIRES(PRE_A(bitmap, &FF_OPS) && PRE_LOG && out == &OUT && verif_oldout == OUT)
	ENSURES(spec_ff(bitmap, start, end, out, verif_oldout, RET, 0, OP_FFZ, FF_BACKEND))
	ASSIGNS(GHOSTS, OUT);

errcode_t ext2fs_find_first_set_generic_bmap(ext2fs_generic_bitmap bitmap, __u64 start, __u64 end, __u64 *out)
	REQUIRES(PRE_A(bitmap, &FF_OPS) && PRE_LOG && out == &OUT && verif_oldout == OUT)
	ENSURES(spec_ff(bitmap, start, end, out, verif_oldout, RET, 1, OP_FFS, FF_BACKEND))
	ASSIGNS(GHOSTS, OUT);
#else
#define FF_OPS MODEL_OPS
#define FF_BACKEND 1
#endif

static void ff_body(ext2fs_generic_bitmap g)
{
	errcode_t r;
#if FF_OP == 0
	r = ext2fs_find_first_zero_generic_bmap(g, IN.arg, IN.arg2, &OUT);
	CHECK(spec_ff(g, IN.arg, IN.arg2, &OUT, verif_oldout, r, 0, OP_FFZ, FF_BACKEND),
	      "find_first_zero: least block in [start,end] whose cluster is not a member, ENOENT if none, EINVAL on a bad range");
#else
	r = ext2fs_find_first_set_generic_bmap(g, IN.arg, IN.arg2, &OUT);
	CHECK(spec_ff(g, IN.arg, IN.arg2, &OUT, verif_oldout, r, 1, OP_FFS, FF_BACKEND),
	      "find_first_set: least block in [start,end] whose cluster is a member, ENOENT if none, EINVAL on a bad range");
#endif
	if (g && IS64M(IN.magic) && r == 0 && IN.cluster_bits > 0 && OUT == IN.arg && (IN.arg & 1)) REACH("result clamped to start");
	if (g && IS64M(IN.magic) && r == 0 && IN.cluster_bits > 0 && OUT > IN.arg) REACH("result in a later cluster");
	if (g && IS64M(IN.magic) && r == ENOENT) REACH("ENOENT");
	if (g && IS64M(IN.magic) && r == EINVAL && G_WARN == 1) REACH("EINVAL");
	if (!g) REACH("NULL handle");
}
static void ff_harness(void)
{
	ext2fs_generic_bitmap g = build_a(&FF_OPS);
	OUT = IN.be_out ^ 0x5a5a;
	verif_oldout = OUT;
	SPLIT_CB(ff_body, g);
	REACH("end");
}
void h_gen_ff(void) { ff_harness(); }
void h_gen_ff_fallback(void) { ff_harness(); }

/* ------------------------------------------------------------------ pass-through operations
 * get/set range and resize are handed to the backend unchanged (the callers work in cluster units already):
 * exactly one backend call with identical arguments, its result returned; an invalid handle gives EINVAL without a call.
 * fudge_end: end > real_end -> neq, nothing changes; otherwise the old end is reported and end is replaced;
 * membership never changes. */
static int spec_pass(ext2fs_generic_bitmap g, __u64 a, __u64 b, const void *p, errcode_t ret, int OPC)
{
	return ( 
	!VALID64(g) ? ((ret) == EINVAL && G_CALLS == 0) : 
	(G_CALLS == 1 && G_OP == (OPC) && G_ARG == (a) && G_NUM == (b) && g_ptr == (const void *)(p) && 
	 g_bm == (const void *)(g) && (ret) == IN.be_ret));
}

#ifdef VERIF_UNIT_gen64_passthrough
errcode_t ext2fs_set_generic_bmap_range(ext2fs_generic_bitmap gen_bmap, __u64 start, unsigned int num, void *in)
	REQUIRES(PRE_A(gen_bmap, &MODEL_OPS) && PRE_LOG)
	ENSURES(spec_pass(gen_bmap, start, num, in, RET, OP_SET_RANGE) && G_WARN == 0)
	ASSIGNS(GHOSTS);
errcode_t ext2fs_get_generic_bmap_range(ext2fs_generic_bitmap gen_bmap, __u64 start, unsigned int num, void *out)
	REQUIRES(PRE_A(gen_bmap, &MODEL_OPS) && PRE_LOG)
	ENSURES(spec_pass(gen_bmap, start, num, out, RET, OP_GET_RANGE) && G_WARN == 0)
	ASSIGNS(GHOSTS);
errcode_t ext2fs_resize_generic_bmap(ext2fs_generic_bitmap gen_bmap, __u64 new_end, __u64 new_real_end)
	REQUIRES(PRE_A(gen_bmap, &MODEL_OPS) && PRE_LOG)
	ENSURES(spec_pass(gen_bmap, new_end, new_real_end, 0, RET, OP_RESIZE) && G_WARN == 0)
	ASSIGNS(GHOSTS);

unsigned long long verif_oldend;	/* ghost: bitmap->end on entry */
static int spec_fudge(ext2fs_generic_bitmap g, errcode_t neq, __u64 e_, const __u64 *oend, __u64 oldout, errcode_t ret)
{
	return ( 
	!VALID64(g) ? ((ret) == EINVAL && G_CALLS == 0) : 
	(G_CALLS == 0 && G_WARN == 0 && verif_g0 == (unsigned)verif_old_bit && 
	 ((e_) > B64(g)->real_end ? 
		((ret) == (neq) && B64(g)->end == verif_oldend && ((oend) == 0 || *(oend) == (oldout))) : 
		((ret) == 0 && B64(g)->end == (e_) && ((oend) == 0 || *(oend) == verif_oldend)))));
}
errcode_t ext2fs_fudge_generic_bmap_end(ext2fs_generic_bitmap gen_bitmap, errcode_t neq, __u64 end, __u64 *oend)
	REQUIRES(PRE_A(gen_bitmap, &MODEL_OPS) && PRE_LOG && (oend == 0 || oend == &OUT) && verif_oldout == OUT)
	REQUIRES(gen_bitmap == 0 || verif_oldend == B64(gen_bitmap)->end)
	ENSURES(spec_fudge(gen_bitmap, neq, end, oend, verif_oldout, RET))
	ENSURES(gen_bitmap == 0 || (B64(gen_bitmap)->start == OLD(BMA.start) && B64(gen_bitmap)->real_end == OLD(BMA.real_end) && B64(gen_bitmap)->magic == OLD(BMA.magic)))
	ASSIGNS(GHOSTS, OUT, BMA.end);
#endif

void h_gen_pass(void)
{
	ext2fs_generic_bitmap g = build_a(&MODEL_OPS);
	errcode_t r;
	static char buf[8];
	if (IN.op % 4 == 0) {
		r = ext2fs_set_generic_bmap_range(g, IN.arg, IN.num, buf);
		CHECK(spec_pass(g, IN.arg, IN.num, buf, r, OP_SET_RANGE), "set_range: handed to the backend unchanged, once");
		if (g && IS64M(IN.magic)) REACH("set_range");
	} else if (IN.op % 4 == 1) {
		r = ext2fs_get_generic_bmap_range(g, IN.arg, IN.num, buf);
		CHECK(spec_pass(g, IN.arg, IN.num, buf, r, OP_GET_RANGE), "get_range: handed to the backend unchanged, once");
		if (g && IS64M(IN.magic)) REACH("get_range");
	} else if (IN.op % 4 == 2) {
		r = ext2fs_resize_generic_bmap(g, IN.arg, IN.arg2);
		CHECK(spec_pass(g, IN.arg, IN.arg2, 0, r, OP_RESIZE), "resize: handed to the backend unchanged, once");
		if (g && IS64M(IN.magic)) REACH("resize");
		if (!g) REACH("resize NULL");
	} else {
#ifdef VERIF_UNIT_gen64_passthrough
		__u64 *oend = IN.null_out ? 0 : &OUT;
		OUT = IN.be_out;
		verif_oldout = OUT;
		verif_oldend = BMA.end;
		r = ext2fs_fudge_generic_bmap_end(g, IN.neq, IN.arg, oend);
		CHECK(spec_fudge(g, IN.neq, IN.arg, oend, verif_oldout, r),
		      "fudge_end: beyond real_end -> neq and no change; else old end reported, end replaced; membership untouched");
		CHECK(BMA.start == IN.start && BMA.real_end == IN.real_end, "fudge_end changes only `end`");
		if (g && IS64M(IN.magic) && r == 0 && oend) REACH("fudge ok");
		if (g && IS64M(IN.magic) && r != 0) REACH("fudge beyond real_end");
#endif
	}
	REACH("end");
}

/* ------------------------------------------------------------------ compare
 * Property: two bitmaps compare equal (0) only if they have the same range and the same members:
 * pointwise, ret == 0 => for the ghost cluster k in [start, end]: member_A(k) == member_B(k).
 * Different ranges -> neq; invalid handles / different kinds -> EINVAL; the result is 0 or neq otherwise;
 * comparing changes neither set. */
#ifdef VERIF_UNIT_gen64_compare
static int pre_cmp(ext2fs_generic_bitmap a, ext2fs_generic_bitmap b)
{
	return (a == 0 || (a == (ext2fs_generic_bitmap)&BMA && WF64(a, &MODEL_OPS, &verif_g0))) &&
	       (b == 0 || (b == (ext2fs_generic_bitmap)&BMB && WF64(b, &MODEL_OPS, &verif_g1))) &&
	       verif_g0 <= 1 && verif_g1 <= 1 && G_CALLS == 0 && G_WARN == 0;
}
static int spec_cmp(errcode_t neq, ext2fs_generic_bitmap a, ext2fs_generic_bitmap b, errcode_t ret,
		    unsigned long long old0, unsigned long long old1)
{
	if (verif_g0 != old0 || verif_g1 != old1)
		return 0;
	if (!a || !b || B64(a)->magic != B64(b)->magic || !IS64M(B64(a)->magic))
		return ret == EINVAL;
	if (B64(a)->start != B64(b)->start || B64(a)->end != B64(b)->end)
		return ret == neq;
	return (ret == 0 || ret == neq) &&
	       (ret != 0 || !(verif_k >= B64(a)->start && verif_k <= B64(a)->end) || verif_g0 == verif_g1);
}
unsigned long long verif_old0, verif_old1;
errcode_t ext2fs_compare_generic_bmap(errcode_t neq, ext2fs_generic_bitmap gen_bm1, ext2fs_generic_bitmap gen_bm2)
	REQUIRES(pre_cmp(gen_bm1, gen_bm2) && verif_old0 == verif_g0 && verif_old1 == verif_g1)
	ENSURES(spec_cmp(neq, gen_bm1, gen_bm2, RET, verif_old0, verif_old1))
	ASSIGNS(GHOSTS);
#endif

void h_gen_cmp(void)
{
#ifdef VERIF_UNIT_gen64_compare
	ext2fs_generic_bitmap a = build_a(&MODEL_OPS);
	ASSUME(!IS32M(IN.magic2));
	ASSUME(IN.start2 <= IN.end2 && IN.end2 <= IN.real_end);
	fill_bitmap(&BMB, IN.magic2, IN.start2, IN.end2, IN.real_end, &MODEL_OPS, &verif_g1);
	ext2fs_generic_bitmap b = IN.null_out ? 0 : (ext2fs_generic_bitmap)&BMB;
	verif_old0 = verif_g0; verif_old1 = verif_g1;
	errcode_t r = ext2fs_compare_generic_bmap(IN.neq, a, b);
	CHECK(spec_cmp(IN.neq, a, b, r, verif_old0, verif_old1),
	      "compare: 0 only if same range and same membership at every cluster of [start, end]; neq / EINVAL otherwise; sets unchanged");
	if (a && b && r == 0 && IN.neq != 0) REACH("equal");
	if (a && b && IS64M(IN.magic) && r == IN.neq && IN.start == IN.start2 && IN.end == IN.end2 && IN.neq != 0) REACH("differ in content");
#endif
	REACH("end");
}
