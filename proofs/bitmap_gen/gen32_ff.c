/* VERIF-UNIT
{
 "name": "gen32_ffz",
 "props": ["C16"],
 "level": "U",
 "tier": "quick",
 "harness": "h_g32_ff",
 "defines": ["FF_OP=0"],
 "enforce": ["ext2fs_find_first_zero_generic_bitmap"],
 "loop_contracts": true,
 "sources": ["lib/ext2fs/bitops.c"],
 "functions": ["lib/ext2fs/gen_bitmap.c:ext2fs_find_first_zero_generic_bitmap", "lib/ext2fs/bitops.c:ext2fs_test_bit"],
 "assumes": ["bit array capped at 2^20 bits (object-size cap); geometry, content, start, end otherwise symbolic",
             "the handle is a legacy 32-bit bitmap (the function has no magic check; its caller ext2fs_find_first_zero_generic_bmap checks the magic number first)",
             "bitmap end < 2^32 - 1: with end == 0xFFFFFFFF and no hit the 32-bit counter `start++` wraps to 0 and the scan does not terminate / leaves the array (observation in the agent report; needs a legacy bitmap that ends at number 2^32 - 1)"],
 "native": true
}
*/
/* VERIF-UNIT
{
 "name": "gen32_ffs",
 "props": ["C16"],
 "level": "U",
 "tier": "quick",
 "harness": "h_g32_ff",
 "defines": ["FF_OP=1"],
 "enforce": ["ext2fs_find_first_set_generic_bitmap"],
 "loop_contracts": true,
 "sources": ["lib/ext2fs/bitops.c"],
 "functions": ["lib/ext2fs/gen_bitmap.c:ext2fs_find_first_set_generic_bitmap", "lib/ext2fs/bitops.c:ext2fs_test_bit"],
 "assumes": ["bit array capped at 2^20 bits (object-size cap); geometry, content, start, end otherwise symbolic",
             "the handle is a legacy 32-bit bitmap (the function has no magic check; its caller ext2fs_find_first_set_generic_bmap checks the magic number first)",
             "bitmap end < 2^32 - 1: with end == 0xFFFFFFFF and no hit the 32-bit counter `start++` wraps to 0 and the scan does not terminate / leaves the array (observation in the agent report; needs a legacy bitmap that ends at number 2^32 - 1)"],
 "native": true
}
*/

/* VERIF-UNIT
{
 "name": "gen32_ffz_top",
 "props": ["C16"],
 "level": "U",
 "tier": "quick",
 "harness": "h_g32_ff",
 "defines": ["FF_OP=0", "G32_FF_TOP"],
 "enforce": ["ext2fs_find_first_zero_generic_bitmap"],
 "loop_contracts": true,
 "sources": ["lib/ext2fs/bitops.c"],
 "functions": ["lib/ext2fs/gen_bitmap.c:ext2fs_find_first_zero_generic_bitmap", "lib/ext2fs/bitops.c:ext2fs_test_bit"],
 "assumes": ["same as gen32_ffz but WITHOUT the assumption bitmap end < 2^32 - 1: fails on the pinned tree (findings/C16_gen_ff32_wrap), green with findings/C16_gen_ff32_wrap/proposed-fix.patch",
             "bit array capped at 2^20 bits (object-size cap)",
             "the handle is a legacy 32-bit bitmap"],
 "native": true
}
*/
/* VERIF-UNIT
{
 "name": "gen32_ffs_top",
 "props": ["C16"],
 "level": "U",
 "tier": "quick",
 "harness": "h_g32_ff",
 "defines": ["FF_OP=1", "G32_FF_TOP"],
 "enforce": ["ext2fs_find_first_set_generic_bitmap"],
 "loop_contracts": true,
 "sources": ["lib/ext2fs/bitops.c"],
 "functions": ["lib/ext2fs/gen_bitmap.c:ext2fs_find_first_set_generic_bitmap", "lib/ext2fs/bitops.c:ext2fs_test_bit"],
 "assumes": ["same as gen32_ffs but WITHOUT the assumption bitmap end < 2^32 - 1: fails on the pinned tree (findings/C16_gen_ff32_wrap), green with findings/C16_gen_ff32_wrap/proposed-fix.patch",
             "bit array capped at 2^20 bits (object-size cap)",
             "the handle is a legacy 32-bit bitmap"],
 "native": true
}
*/

/* Loop contracts of the two scans (named anchors in gen_bitmap.c).  verif_g0 = `start` on entry, verif_g1 = *out on
 * entry, verif_k = ghost bit index relative to the bitmap's start.  Invariant: every number of [start0, start) has the
 * value that is NOT searched for - stated at the ghost bit; *out is untouched while the scan runs. */
#define FF32_INV(T) \
	__CPROVER_assigns(start, b, *out) \
	__CPROVER_loop_invariant(verif_g0 <= start && (unsigned long long)start <= (unsigned long long)end + 1) \
	__CPROVER_loop_invariant(*out == (__u32)verif_g1) \
	__CPROVER_loop_invariant(!(verif_k >= verif_g0 - bitmap->start && verif_k < (unsigned long long)start - bitmap->start) || \
				 VERIF_BIT(bitmap->bitmap, verif_k) == !(T)) \
	__CPROVER_decreases((unsigned long long)end + 1 - start)
#define VERIF_INV_FIND_FIRST_ZERO_GENERIC_BITMAP_SCAN FF32_INV(0)
#define VERIF_INV_FIND_FIRST_SET_GENERIC_BITMAP_SCAN FF32_INV(1)

#include "gen32_common.h"

/* ------------------------------------------------------------------ find first zero / set (legacy)
 * Property (T = membership searched for): the result is the least number in [start, end] with membership T,
 * ENOENT if there is none, EINVAL + error hook if [start, end] is empty or not inside [bitmap start, bitmap end].
 * Pointwise at the ghost bit k (relative to the bitmap's start):
 *   ret == 0      => start <= *out <= end, membership(*out) == T, start <= k+bstart < *out => membership(k) == !T
 *   ret == ENOENT => start <= k+bstart <= end => membership(k) == !T ;  *out untouched
 *   ret == EINVAL => *out untouched, error hook once
 * The set is never changed (the bit array is not in the frame). */
static __u32 OUT32;
#ifdef G32_FF_TOP
#define G32_TOP_OK(e) 1
#else
#define G32_TOP_OK(e) ((e) < 0xFFFFFFFFU)
#endif
static int pre32_ff(ext2fs_generic_bitmap bm, __u32 start, __u32 *out)
{
	return bm == GBM && IS32M(BM.magic) && BM.start <= BM.end && BM.end <= BM.real_end && BM.real_end - BM.start < G32_MAX_BITS &&
	       G32_TOP_OK(BM.end) && verif_k <= BM.real_end - BM.start && PRE_LOG32 &&
	       out == &OUT32 && verif_g0 == start && verif_g1 == OUT32;
}
static int spec32_ff(__u32 s_, __u32 e_, errcode_t ret, int T)
{
	if (s_ < BM.start || e_ > BM.end || s_ > e_)
		return ret == EINVAL && OUT32 == (__u32)verif_g1 && G_WARN == 1 &&
		       G_CODE == (unsigned long long)(BM.base_error_code + EXT2FS_TEST_ERROR);
	if (G_WARN != 0)
		return 0;
	if (ret == 0)
		return OUT32 >= s_ && OUT32 <= e_ && BIT(BM.bitmap, OUT32 - BM.start) == (T) &&
		       IMPL(verif_k >= s_ - BM.start && verif_k < OUT32 - BM.start, BIT(BM.bitmap, verif_k) == !(T));
	return ret == ENOENT && OUT32 == (__u32)verif_g1 &&
	       IMPL(verif_k >= s_ - BM.start && verif_k <= e_ - BM.start, BIT(BM.bitmap, verif_k) == !(T));
}

#if FF_OP == 0
errcode_t ext2fs_find_first_zero_generic_bitmap(ext2fs_generic_bitmap gen_bitmap, __u32 start, __u32 end, __u32 *out)
	REQUIRES(pre32_ff(gen_bitmap, start, out))
	ENSURES(spec32_ff(start, end, RET, 0))
	ASSIGNS(OUT32, GHOSTS32);
#else
errcode_t ext2fs_find_first_set_generic_bitmap(ext2fs_generic_bitmap gen_bitmap, __u32 start, __u32 end, __u32 *out)
	REQUIRES(pre32_ff(gen_bitmap, start, out))
	ENSURES(spec32_ff(start, end, RET, 1))
	ASSIGNS(OUT32, GHOSTS32);
#endif

void h_g32_ff(void)
{
	errcode_t r;
	build_bitmap();
	ASSUME(IS32M(IN.magic));
	ASSUME(G32_TOP_OK(IN.end));
	OUT32 = IN.num;
	verif_g0 = IN.arg;
	verif_g1 = OUT32;
#if FF_OP == 0
	r = ext2fs_find_first_zero_generic_bitmap(GBM, IN.arg, IN.arg2, &OUT32);
	CHECK(spec32_ff(IN.arg, IN.arg2, r, 0), "legacy find_first_zero: least non-member of [start,end], ENOENT if none, EINVAL on a bad range");
#else
	r = ext2fs_find_first_set_generic_bitmap(GBM, IN.arg, IN.arg2, &OUT32);
	CHECK(spec32_ff(IN.arg, IN.arg2, r, 1), "legacy find_first_set: least member of [start,end], ENOENT if none, EINVAL on a bad range");
#endif
	CHECK(BIT(BM.bitmap, verif_k) == verif_old_bit, "find_first changes no membership");
	if (r == 0 && OUT32 > IN.arg && verif_k >= IN.arg - IN.start && verif_k < OUT32 - IN.start) REACH("found later, k skipped");
	if (r != EINVAL && IN.arg2 == IN.arg) REACH("single-number range");
	if (r == ENOENT && verif_k >= IN.arg - IN.start && verif_k <= IN.arg2 - IN.start) REACH("ENOENT, k inside");
	if (IN.arg2 > IN.end && IN.arg2 <= IN.real_end) REACH("end in the padding");
	if (r == EINVAL) REACH("EINVAL");
#ifdef G32_FF_TOP
	if (IN.end == 0xFFFFFFFFU && IN.arg2 == 0xFFFFFFFFU && r != EINVAL) REACH("range ends at 2^32 - 1");
#endif
	REACH("end");
}
