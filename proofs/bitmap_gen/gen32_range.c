/* VERIF-UNIT
{
 "name": "gen32_test_clear_range",
 "props": ["C16"],
 "level": "U/k",
 "tier": "quick",
 "harness": "h_g32_tcr",
 "enforce": ["ext2fs_test_clear_generic_bitmap_range"],
 "replace": ["ext2fs_mem_is_zero"],
 "unwindset": {"ext2fs_test_clear_generic_bitmap_range.0": 9, "ext2fs_test_clear_generic_bitmap_range.1": 9},
 "unwind_reason": "the two mask-building loops run over the bits of ONE byte (mark_count <= 7, len_bit <= 7 iterations); 9 > 8 = bits per byte, unwinding assertions on",
 "functions": ["lib/ext2fs/gen_bitmap.c:ext2fs_test_clear_generic_bitmap_range"],
 "assumes": ["bit array capped at 2^20 bits (object-size cap); geometry, content, start, len otherwise symbolic",
             "the range lies inside the bit array: start >= bitmap start, start + len - 1 <= real_end, no wrap (checked by the callers ext2fs_test_block_bitmap_range / ext2fs_test_inode_bitmap_range before the call)",
             "ext2fs_mem_is_zero replaced by its contract specs/c16_ba_mem_is_zero.h (1 => every byte of the region is zero, stated at the ghost byte; 0 => some byte of the region is non-zero, witness index in a ghost - same statement with an index instead of an address; the region must be readable) - enforced on the real function by unit bitmap_ba/mem_is_zero",
             "completeness direction (answer 0 only if a member exists) is checked on an otherwise all-zero array with ONE arbitrary stray bit outside the range"],
 "native": false
}
*/
/* VERIF-UNIT
{
 "name": "gen32_mark_range",
 "props": ["C16"],
 "level": "U",
 "tier": "quick",
 "harness": "h_g32_mrange",
 "defines": ["MR_OP=0"],
 "enforce": ["ext2fs_mark_block_bitmap_range"],
 "loop_contracts": true,
 "functions": ["lib/ext2fs/gen_bitmap.c:ext2fs_mark_block_bitmap_range"],
 "assumes": ["bit array capped at 2^20 bits (object-size cap); geometry, content, block, num otherwise symbolic",
             "the handle is a legacy 32-bit bitmap (no magic check in the function; the caller ext2fs_mark_block_bitmap_range2 checks first)",
             "num >= 1 and block + num - 1 does not wrap at 2^32 (the caller ext2fs_mark_block_bitmap_range2 rejects ranges whose last block exceeds 32 bits)",
             "ext2fs_warn_bitmap() is the counting hook"],
 "native": false
}
*/
/* VERIF-UNIT
{
 "name": "gen32_unmark_range",
 "props": ["C16"],
 "level": "U",
 "tier": "quick",
 "harness": "h_g32_mrange",
 "defines": ["MR_OP=1"],
 "enforce": ["ext2fs_unmark_block_bitmap_range"],
 "loop_contracts": true,
 "functions": ["lib/ext2fs/gen_bitmap.c:ext2fs_unmark_block_bitmap_range"],
 "assumes": ["bit array capped at 2^20 bits (object-size cap); geometry, content, block, num otherwise symbolic",
             "the handle is a legacy 32-bit bitmap (no magic check in the function; the caller ext2fs_unmark_block_bitmap_range2 checks first)",
             "num >= 1 and block + num - 1 does not wrap at 2^32 (the caller ext2fs_unmark_block_bitmap_range2 rejects ranges whose last block exceeds 32 bits)",
             "ext2fs_warn_bitmap() is the counting hook"],
 "native": false
}
*/

/* Loop contracts of the range loops (named anchors in gen_bitmap.c).  verif_k = ghost bit index relative to the bitmap's
 * start.  Invariant: exactly the bits of [block, block + i) have been set / cleared - stated at the ghost bit. */
#define VERIF_INV_MARK_BLOCK_BITMAP_RANGE_SCAN \
	__CPROVER_assigns(i, __CPROVER_object_whole(bitmap->bitmap)) \
	__CPROVER_loop_invariant(0 <= i && i <= num) \
	__CPROVER_loop_invariant(VERIF_BIT(bitmap->bitmap, verif_k) == \
		(verif_old_bit || (verif_k >= block - bitmap->start && verif_k < (unsigned long long)(block - bitmap->start) + i))) \
	__CPROVER_decreases(num - i)
#define VERIF_INV_UNMARK_BLOCK_BITMAP_RANGE_SCAN \
	__CPROVER_assigns(i, __CPROVER_object_whole(bitmap->bitmap)) \
	__CPROVER_loop_invariant(0 <= i && i <= num) \
	__CPROVER_loop_invariant(VERIF_BIT(bitmap->bitmap, verif_k) == \
		(verif_old_bit && !(verif_k >= block - bitmap->start && verif_k < (unsigned long long)(block - bitmap->start) + i))) \
	__CPROVER_decreases(num - i)

#include "gen32_common.h"

/* error hook of the range functions (lib/ext2fs/bitops.c:ext2fs_warn_bitmap): counted, code logged */
void ext2fs_warn_bitmap(errcode_t errcode, unsigned long arg, const char *description)
{
	(void)arg; (void)description;
	G_WARN++;
	G_CODE = (unsigned long long)errcode;
}

static int wf32(ext2fs_generic_bitmap bm)
{
	return bm == GBM && BM.start <= BM.end && BM.end <= BM.real_end && BM.real_end - BM.start < G32_MAX_BITS &&
	       verif_k <= BM.real_end - BM.start && verif_old_bit == BIT(BM.bitmap, verif_k) && PRE_LOG32;
}

/* ------------------------------------------------------------------ test_clear range (legacy)
 * Property: the answer is 1 iff no number of [start, start+len) is a member.
 *   pointwise:  answer != 0  =>  the ghost bit, if inside the range, is clear
 *   converse :  on an array whose only set bit lies OUTSIDE the range the answer is 1 (harness check)
 * Nothing is written. */
#define GHOST_BYTE_IN(mem, len) (__CPROVER_same_object(verif_p1, (mem)) && verif_p1 >= (const unsigned char *)(mem) && \
				 verif_p1 < (const unsigned char *)(mem) + (len))
/* contract of the callee: the one of specs/c16_ba_mem_is_zero.h (enforced on the real function by unit
 * bitmap_ba/mem_is_zero), with the non-zero witness given as an INDEX (verif_g4) instead of an address (verif_p2) - an
 * arbitrary address in an assumed `ensures` trips the pointer-relation checks; the two forms are equivalent
 * (verif_p2 = mem + verif_g4).  verif_p1 = address of the byte holding the ghost bit. */
int ext2fs_mem_is_zero(const char *mem, size_t len)
	REQUIRES(len == 0 || __CPROVER_r_ok(mem, len))
	ENSURES(RET == 0 || RET == 1)
	ENSURES(RET == 0 || !GHOST_BYTE_IN(mem, len) || *verif_p1 == 0)
	ENSURES(RET == 1 || (verif_g4 < len && mem[verif_g4] != 0))
	ASSIGNS(verif_g4);

#define TCR_RANGE_OK(s_, len) ((s_) >= BM.start && (unsigned long long)((s_) - BM.start) + (len) <= (unsigned long long)(BM.real_end - BM.start) + 1)
#define K_IN(s_, len) (verif_k >= (s_) - BM.start && verif_k < (unsigned long long)((s_) - BM.start) + (len))
static int ext2fs_test_clear_generic_bitmap_range(ext2fs_generic_bitmap gen_bitmap, unsigned int start, unsigned int len)
	REQUIRES(wf32(gen_bitmap) && TCR_RANGE_OK(start, len))
	REQUIRES(verif_p1 == (const unsigned char *)BM.bitmap + (verif_k >> 3))
	ENSURES(RET == 0 || RET == 1)
	ENSURES(RET == 0 || !K_IN(start, len) || BIT(BM.bitmap, verif_k) == 0)
	ASSIGNS(verif_g4);

void h_g32_tcr(void)
{
	int r;
	build_bitmap();
	ASSUME(IS32M(IN.magic));
	ASSUME(TCR_RANGE_OK(IN.arg, IN.num));
	if (IN.zero) {
		/* all-zero array with one arbitrary stray bit j outside the range */
		ASSUME(IN.j <= IN.real_end - IN.start);
		ASSUME(!(IN.j >= IN.arg - IN.start && IN.j < (unsigned long long)(IN.arg - IN.start) + IN.num));
		BM.bitmap[IN.j >> 3] |= (char)(1 << (IN.j & 7));
		verif_old_bit = BIT(BM.bitmap, verif_k);
	}
	verif_p1 = (const unsigned char *)BM.bitmap + (verif_k >> 3);
	r = ext2fs_test_clear_generic_bitmap_range(GBM, IN.arg, IN.num);
	CHECK(r == 0 || r == 1, "test_clear_range answers 0 or 1");
	CHECK(r == 0 || !K_IN(IN.arg, IN.num) || verif_old_bit == 0, "test_clear_range: answer 1 only if no number of the range is a member");
	CHECK(BIT(BM.bitmap, verif_k) == verif_old_bit, "test_clear_range changes no membership");
	if (IN.zero) {
		CHECK(r == 1, "test_clear_range: answer 1 when the only member lies outside the range");
		if ((IN.arg - IN.start) % 8 != 0 && IN.j >> 3 == (IN.arg - IN.start) >> 3) REACH("stray bit in the first partial byte");
		if ((IN.arg - IN.start + IN.num) % 8 != 0 && IN.j >> 3 == (IN.arg - IN.start + IN.num) >> 3 && IN.num > 16) REACH("stray bit in the last partial byte");
	} else {
		if (r && K_IN(IN.arg, IN.num) && IN.num > 24 && (IN.arg - IN.start) % 8 == 3) REACH("clear, k inside, unaligned long range");
		if (!r && IN.num > 24) REACH("member found, long range");
		if (r && IN.num < 8 && (IN.arg - IN.start) % 8 + IN.num <= 8 && IN.num > 0) REACH("range inside one byte");
		if (IN.num == 0) REACH("empty range");
	}
	REACH("end");
}

/* ------------------------------------------------------------------ mark / unmark range (legacy block bitmaps)
 * Property: the numbers block .. block+num-1 join / leave the set, every other number keeps its membership; the range
 * is acceptable iff block >= start and block+num-1 <= end; otherwise nothing changes and the error hook is called once
 * with EXT2_ET_BAD_BLOCK_MARK / EXT2_ET_BAD_BLOCK_UNMARK. */
#define MR_OK(block, num) ((block) >= BM.start && (block) <= BM.end && (block) + (unsigned)(num) - 1 <= BM.end)
#define MR_K_IN(block, num) (verif_k >= (block) - BM.start && verif_k < (unsigned long long)((block) - BM.start) + (unsigned)(num))
static int spec32_mrange(blk_t block, int num, int MARK, errcode_t ERRCODE)
{
	if (MR_OK(block, num))
		return G_WARN == 0 && BIT(BM.bitmap, verif_k) == (MARK ? (verif_old_bit || MR_K_IN(block, num)) : (verif_old_bit && !MR_K_IN(block, num)));
	return G_WARN == 1 && G_CODE == (unsigned long long)ERRCODE && BIT(BM.bitmap, verif_k) == verif_old_bit;
}
#define MR_PRE(block, num) ((num) >= 1 && (unsigned long long)(block) + (unsigned)(num) - 1 <= 0xFFFFFFFFULL)
#if MR_OP == 0
void ext2fs_mark_block_bitmap_range(ext2fs_block_bitmap gen_bitmap, blk_t block, int num)
	REQUIRES(wf32(gen_bitmap) && IS32M(BM.magic) && MR_PRE(block, num))
	ENSURES(spec32_mrange(block, num, 1, EXT2_ET_BAD_BLOCK_MARK))
	ASSIGNS(__CPROVER_object_whole(BM.bitmap), GHOSTS32);
#else
void ext2fs_unmark_block_bitmap_range(ext2fs_block_bitmap gen_bitmap, blk_t block, int num)
	REQUIRES(wf32(gen_bitmap) && IS32M(BM.magic) && MR_PRE(block, num))
	ENSURES(spec32_mrange(block, num, 0, EXT2_ET_BAD_BLOCK_UNMARK))
	ASSIGNS(__CPROVER_object_whole(BM.bitmap), GHOSTS32);
#endif

void h_g32_mrange(void)
{
	build_bitmap();
	ASSUME(IS32M(IN.magic));
	ASSUME(MR_PRE(IN.arg, (int)IN.num));
#if MR_OP == 0
	ext2fs_mark_block_bitmap_range(GBM, IN.arg, (int)IN.num);
	CHECK(spec32_mrange(IN.arg, (int)IN.num, 1, EXT2_ET_BAD_BLOCK_MARK), "legacy mark_range: exactly block..block+num-1 join the set; bad range: nothing changes, error hook");
	if (MR_OK(IN.arg, (int)IN.num) && !verif_old_bit && MR_K_IN(IN.arg, (int)IN.num) && IN.num > 9) REACH("k joins");
#else
	ext2fs_unmark_block_bitmap_range(GBM, IN.arg, (int)IN.num);
	CHECK(spec32_mrange(IN.arg, (int)IN.num, 0, EXT2_ET_BAD_BLOCK_UNMARK), "legacy unmark_range: exactly block..block+num-1 leave the set; bad range: nothing changes, error hook");
	if (MR_OK(IN.arg, (int)IN.num) && verif_old_bit && MR_K_IN(IN.arg, (int)IN.num) && IN.num > 9) REACH("k leaves");
#endif
	if (MR_OK(IN.arg, (int)IN.num) && !MR_K_IN(IN.arg, (int)IN.num)) REACH("k outside the range");
	if (IN.arg >= IN.start && IN.arg <= IN.end && IN.arg + IN.num - 1 > IN.end) REACH("range runs into the padding: rejected");
	REACH("end");
}
