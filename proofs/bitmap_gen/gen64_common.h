/*
 * Shared by the gen_bitmap64.c units (C16, generic 64-bit layer).
 *
 * The real generic layer is verified against a MODEL BACKEND that lives only here: a const
 * `struct ext2_bitmap_ops` table whose operations
 *   - answer as a mathematical set would for ONE arbitrary ghost cluster index verif_k (membership of
 *     verif_k is the ghost register the bitmap's `private` points to; membership of every other cluster is
 *     unconstrained),
 *   - check the backend's own preconditions (range of the arguments) as obligations, and
 *   - log the call (count, operation, arguments) so that the contracts can say "the backend was called
 *     exactly once, for exactly these clusters".
 *
 * Ghost registers (declared in include/e2fsprogs_verif.h so that in-place loop contracts may name them):
 *   verif_k   the ghost cluster index (absolute, cluster units)
 *   verif_g0  membership (0/1) of verif_k in the model set of bitmap A
 *   verif_g1  membership (0/1) of verif_k in the model set of bitmap B (compare unit)
 *   verif_g2  number of backend calls so far
 *   verif_g3  operation of the last backend call (OP_*)
 *   verif_g4  first  scalar argument of the last backend call
 *   verif_g5  second scalar argument of the last backend call
 *   verif_g6  number of error-hook calls (com_err / ext2fs_warn_bitmap)
 *   verif_g7  error code passed to the last error-hook call
 *   verif_old_bit  membership of verif_k in set A on entry
 */
#include "verif.h"

struct in_gen64 {
	unsigned long long start, end, real_end;	/* geometry of bitmap A (cluster units) */
	unsigned long long start2, end2;		/* geometry of bitmap B (compare) */
	long magic, magic2;
	int cluster_bits;
	long base_error_code;
	unsigned long long arg, arg2;			/* operation arguments */
	unsigned int num;
	unsigned long long k;				/* ghost cluster index */
	unsigned char member, member2;			/* membership of k in A / B */
	unsigned char null_bitmap, null_out, has_descr, op;
	unsigned long long be_out;			/* model backend: find-first answer */
	long be_ret;					/* model backend: return value / range answer */
	long neq;
	unsigned long long pattern;			/* native replay only: membership of the clusters other than k */
};
struct in_gen64 IN;
#include "verif_in.h"

unsigned long long verif_k;
int verif_old_bit;
unsigned long long verif_g0, verif_g1, verif_g2, verif_g3, verif_g4, verif_g5, verif_g6, verif_g7;
#define g_ptr verif_p0	/* pointer argument of the last backend call */
#define g_bm verif_p1	/* bitmap argument of the last backend call */
const unsigned char *verif_p0, *verif_p1;

#define GHOSTS verif_g0, verif_g1, verif_g2, verif_g3, verif_g4, verif_g5, verif_g6, verif_g7, g_ptr, g_bm

#define G_CALLS verif_g2
#define G_OP verif_g3
#define G_ARG verif_g4
#define G_NUM verif_g5
#define G_WARN verif_g6
#define G_CODE verif_g7

enum { OP_NONE, OP_MARK, OP_UNMARK, OP_TEST, OP_MARK_EXT, OP_UNMARK_EXT, OP_TESTCLEAR,
       OP_SET_RANGE, OP_GET_RANGE, OP_RESIZE, OP_FFZ, OP_FFS, OP_CLEAR };

/* the error hook com_err() is variadic; DFCC loses the write set across a variadic call, so the call is routed to a
 * two-argument hook (the format arguments are irrelevant to the property) */
#define com_err(whoami, code, ...) verif_com_err_hook(whoami, code)
#include "lib/ext2fs/gen_bitmap64.c"

/* ---- error hooks (lib/et com_err, gen_bitmap.c ext2fs_warn_bitmap): counted, code logged ---- */
void verif_com_err_hook(const char *whoami, long code)
{
	(void)whoami;
	G_WARN++;
	G_CODE = (unsigned long long)code;
}
void ext2fs_warn_bitmap(errcode_t errcode, unsigned long arg, const char *description)
{
	(void)arg; (void)description;
	G_WARN++;
	G_CODE = (unsigned long long)errcode;
}

/* ---- the model backend ---- */
#define MEMBER(bm) (*(unsigned long long *)(bm)->private)

#ifndef VERIF_NATIVE
int nondet_int(void);
#endif
/* membership of a cluster other than verif_k: unconstrained (native replay: a fixed pattern) */
static int other_member(__u64 c)
{
#ifdef VERIF_NATIVE
	return (IN.pattern >> (c & 63)) & 1;
#else
	(void)c;
	return nondet_int() & 1;
#endif
}

static void log_call(ext2fs_generic_bitmap_64 bm, int op, __u64 a, __u64 b, const void *p)
{
	G_CALLS++;
	G_OP = op;
	G_ARG = a;
	G_NUM = b;
	g_ptr = (const unsigned char *)p;
	g_bm = (const unsigned char *)bm;
}

static int mb_mark(ext2fs_generic_bitmap_64 bm, __u64 arg)
{
	log_call(bm, OP_MARK, arg, 0, 0);
	CHECK(arg >= bm->start && arg <= bm->real_end, "backend precondition: mark_bmap argument inside the bitmap");
	if (arg == verif_k) {
		int r = MEMBER(bm) != 0;
		MEMBER(bm) = 1;
		return r;
	}
	return other_member(arg);
}
static int mb_unmark(ext2fs_generic_bitmap_64 bm, __u64 arg)
{
	log_call(bm, OP_UNMARK, arg, 0, 0);
	CHECK(arg >= bm->start && arg <= bm->real_end, "backend precondition: unmark_bmap argument inside the bitmap");
	if (arg == verif_k) {
		int r = MEMBER(bm) != 0;
		MEMBER(bm) = 0;
		return r;
	}
	return other_member(arg);
}
static int mb_test(ext2fs_generic_bitmap_64 bm, __u64 arg)
{
	log_call(bm, OP_TEST, arg, 0, 0);
	CHECK(arg >= bm->start && arg <= bm->real_end, "backend precondition: test_bmap argument inside the bitmap");
	if (arg == verif_k)
		return MEMBER(bm) != 0;
	return other_member(arg);
}
#define EXT_PRE(bm, arg, num) ((arg) >= (bm)->start && (num) > 0 && (arg) + (num) - 1 >= (arg) && (arg) + (num) - 1 <= (bm)->real_end)
#define K_IN_EXT(arg, num) (verif_k >= (arg) && verif_k <= (arg) + ((num) - 1))
static void mb_mark_ext(ext2fs_generic_bitmap_64 bm, __u64 arg, unsigned int num)
{
	log_call(bm, OP_MARK_EXT, arg, num, 0);
	CHECK(EXT_PRE(bm, arg, num), "backend precondition: mark_bmap_extent range inside the bitmap");
	if (K_IN_EXT(arg, num))
		MEMBER(bm) = 1;
}
static void mb_unmark_ext(ext2fs_generic_bitmap_64 bm, __u64 arg, unsigned int num)
{
	log_call(bm, OP_UNMARK_EXT, arg, num, 0);
	CHECK(EXT_PRE(bm, arg, num), "backend precondition: unmark_bmap_extent range inside the bitmap");
	if (K_IN_EXT(arg, num))
		MEMBER(bm) = 0;
}
/* answer for the range as a whole is IN.be_ret != 0 ("no member in the range"), consistent with what is
 * known about verif_k */
static int mb_test_clear_ext(ext2fs_generic_bitmap_64 bm, __u64 arg, unsigned int num)
{
	int all_clear = IN.be_ret != 0;
	log_call(bm, OP_TESTCLEAR, arg, num, 0);
	CHECK(EXT_PRE(bm, arg, num), "backend precondition: test_clear_bmap_extent range inside the bitmap");
	if (K_IN_EXT(arg, num) && MEMBER(bm))
		ASSUME(!all_clear);
	if (arg == verif_k && num == 1 && !MEMBER(bm))
		ASSUME(all_clear);	/* the extent is exactly {k}: the answer is determined */
	return all_clear;
}
static errcode_t mb_set_range(ext2fs_generic_bitmap_64 bm, __u64 start, size_t num, void *in)
{
	log_call(bm, OP_SET_RANGE, start, num, in);
	return IN.be_ret;
}
static errcode_t mb_get_range(ext2fs_generic_bitmap_64 bm, __u64 start, size_t num, void *out)
{
	log_call(bm, OP_GET_RANGE, start, num, out);
	return IN.be_ret;
}
static void mb_clear(ext2fs_generic_bitmap_64 bm)
{
	log_call(bm, OP_CLEAR, 0, 0, 0);
	MEMBER(bm) = 0;	/* the set becomes empty: in particular verif_k is no member */
}
static errcode_t mb_resize(ext2fs_generic_bitmap_64 bm, __u64 new_end, __u64 new_real_end)
{
	log_call(bm, OP_RESIZE, new_end, new_real_end, 0);
	return IN.be_ret;
}
/* find-first operations of the model backend: the answer (IN.be_ret, IN.be_out) is any answer a set could
 * give that is consistent with the membership of verif_k */
static errcode_t mb_ffz(ext2fs_generic_bitmap_64 bm, __u64 start, __u64 end, __u64 *out)
{
	log_call(bm, OP_FFZ, start, end, out);
	CHECK(start <= end && start >= bm->start && end <= bm->real_end, "backend precondition: find_first_zero range inside the bitmap");
	if (IN.be_ret == 0) {
		ASSUME(IN.be_out >= start && IN.be_out <= end);
		ASSUME(IN.be_out != verif_k || !MEMBER(bm));
		ASSUME(!(verif_k >= start && verif_k < IN.be_out) || MEMBER(bm));
		*out = IN.be_out;
	} else if (IN.be_ret == ENOENT) {
		ASSUME(!(verif_k >= start && verif_k <= end) || MEMBER(bm));
	}
	return IN.be_ret;
}
static errcode_t mb_ffs(ext2fs_generic_bitmap_64 bm, __u64 start, __u64 end, __u64 *out)
{
	log_call(bm, OP_FFS, start, end, out);
	CHECK(start <= end && start >= bm->start && end <= bm->real_end, "backend precondition: find_first_set range inside the bitmap");
	if (IN.be_ret == 0) {
		ASSUME(IN.be_out >= start && IN.be_out <= end);
		ASSUME(IN.be_out != verif_k || MEMBER(bm));
		ASSUME(!(verif_k >= start && verif_k < IN.be_out) || !MEMBER(bm));
		*out = IN.be_out;
	} else if (IN.be_ret == ENOENT) {
		ASSUME(!(verif_k >= start && verif_k <= end) || !MEMBER(bm));
	}
	return IN.be_ret;
}

/* const-initialised tables: with and without the optional find-first operations */
static const struct ext2_bitmap_ops MODEL_OPS = {
	.type = 77,
	.resize_bmap = mb_resize,
	.mark_bmap = mb_mark, .unmark_bmap = mb_unmark, .test_bmap = mb_test,
	.mark_bmap_extent = mb_mark_ext, .unmark_bmap_extent = mb_unmark_ext,
	.test_clear_bmap_extent = mb_test_clear_ext,
	.set_bmap_range = mb_set_range, .get_bmap_range = mb_get_range,
	.clear_bmap = mb_clear,
	.find_first_zero = mb_ffz, .find_first_set = mb_ffs,
};
static const struct ext2_bitmap_ops MODEL_OPS_NOFF = {
	.type = 78,
	.resize_bmap = mb_resize,
	.mark_bmap = mb_mark, .unmark_bmap = mb_unmark, .test_bmap = mb_test,
	.mark_bmap_extent = mb_mark_ext, .unmark_bmap_extent = mb_unmark_ext,
	.test_clear_bmap_extent = mb_test_clear_ext,
	.set_bmap_range = mb_set_range, .get_bmap_range = mb_get_range,
	.clear_bmap = mb_clear,
	.find_first_zero = 0, .find_first_set = 0,
};

/* ---- specification vocabulary (written from the property text, over the set view) ---- */
#define B64(g) ((ext2fs_generic_bitmap_64)(g))
#define IS32M(m) ((m) == EXT2_ET_MAGIC_GENERIC_BITMAP || (m) == EXT2_ET_MAGIC_BLOCK_BITMAP || (m) == EXT2_ET_MAGIC_INODE_BITMAP)
#define IS64M(m) ((m) == EXT2_ET_MAGIC_GENERIC_BITMAP64 || (m) == EXT2_ET_MAGIC_BLOCK_BITMAP64 || (m) == EXT2_ET_MAGIC_INODE_BITMAP64)
#define VALID64(g) ((g) != 0 && IS64M(B64(g)->magic))
/* cluster that holds block b */
#define CL(g, b) ((b) >> B64(g)->cluster_bits)
#define IN_RANGE(g, c) ((c) >= B64(g)->start && (c) <= B64(g)->end)
/* largest block number the bitmap may cover: on-disk block numbers are at most 48 bits wide; 2^62 leaves
 * room for a 32-bit count and the cluster rounding without wrap-around */
#define MAX_BLOCKS (1ULL << 62)
/* well_formed(bitmap) as far as the generic layer is concerned (from ext2fs_alloc_generic_bmap) */
#define WF64(g, ops, priv) (!IS32M(B64(g)->magic) && \
	(!IS64M(B64(g)->magic) || ( \
	B64(g)->cluster_bits >= 0 && B64(g)->cluster_bits <= 32 && \
	B64(g)->start <= B64(g)->end && B64(g)->end <= B64(g)->real_end && \
	B64(g)->real_end < (MAX_BLOCKS >> B64(g)->cluster_bits) && \
	B64(g)->bitmap_ops == (struct ext2_bitmap_ops *)(ops) && B64(g)->private == (void *)(priv))))

static struct ext2fs_struct_generic_bitmap_64 BMA, BMB;
static char DESCR[4] = "bm";

static void fill_bitmap(struct ext2fs_struct_generic_bitmap_64 *bm, long magic, unsigned long long start,
			unsigned long long end, unsigned long long real_end, const struct ext2_bitmap_ops *ops,
			unsigned long long *member)
{
	memset(bm, 0, sizeof(*bm));
	bm->magic = magic;
	bm->start = start;
	bm->end = end;
	bm->real_end = real_end;
	bm->cluster_bits = IN.cluster_bits;
	bm->base_error_code = IN.base_error_code;
	bm->description = IN.has_descr ? &DESCR[0] : (char *)0;
	bm->bitmap_ops = (struct ext2_bitmap_ops *)ops;
	bm->private = member;
}

/* builds bitmap A (model backend `ops`) and resets the log; returns the handle to pass (possibly NULL) */
static ext2fs_generic_bitmap build_a(const struct ext2_bitmap_ops *ops)
{
	LOAD_IN();
	ASSUME(!IS32M(IN.magic));	/* legacy 32-bit bitmaps are dispatched to gen_bitmap.c (separate units) */
	ASSUME(IN.cluster_bits >= 0 && IN.cluster_bits <= 32);
#ifdef GEN64_CB_ENUM
	/* units that enumerate the cluster shift: 0 (one block per cluster) and 4 (16 blocks per cluster, a typical
	 * bigalloc ratio); stated in the units' `assumes` */
	ASSUME(IN.cluster_bits == 0 || IN.cluster_bits == 4);
#endif
	ASSUME(IN.start <= IN.end && IN.end <= IN.real_end);
	ASSUME(IN.real_end < (MAX_BLOCKS >> IN.cluster_bits));
	ASSUME(IN.base_error_code >= 0 && IN.base_error_code < 0x7fffffff00000000L);
	fill_bitmap(&BMA, IN.magic, IN.start, IN.end, IN.real_end, ops, &verif_g0);
	verif_k = IN.k;
	verif_g0 = IN.member & 1;
	verif_g1 = IN.member2 & 1;
	verif_old_bit = (int)verif_g0;
	G_CALLS = 0; G_OP = OP_NONE; G_ARG = 0; G_NUM = 0; G_WARN = 0; G_CODE = 0; g_ptr = 0; g_bm = 0;
	return IN.null_bitmap ? 0 : (ext2fs_generic_bitmap)&BMA;
}

/* Case split on the cluster shift.  A symbolic shift distance makes every obligation a hard SAT problem; the body is
 * therefore run once per value of cluster_bits with the value stored as a constant (all 33 legal values are covered:
 * this is a complete enumeration, not a restriction). */
#ifdef NO_SPLIT_CB
#define SPLIT_CB(fn, g) fn(g)
#elif defined(GEN64_CB_ENUM)
/* the handle is passed as a constant (NULL or &BMA) and the shift as a constant, so that neither the code nor the
 * specification contains a symbolic shift distance */
#define CB_CASE(n, fn, g) case n: BMA.cluster_bits = n; BMB.cluster_bits = n; fn((ext2fs_generic_bitmap)&BMA); break;
#define SPLIT_CB(fn, g) if (!(g)) fn((ext2fs_generic_bitmap)0); else switch (BMA.cluster_bits) { \
	CB_CASE(0, fn, g) CB_CASE(4, fn, g) \
	default: CHECK(0, "cluster_bits outside {0, 4} is excluded by the assumption of this unit"); }
#else
#define CB_CASE(n, fn, g) case n: BMA.cluster_bits = n; BMB.cluster_bits = n; fn((ext2fs_generic_bitmap)&BMA); break;
#define SPLIT_CB(fn, g) if (!(g)) fn((ext2fs_generic_bitmap)0); else switch (BMA.cluster_bits) { \
	CB_CASE(0, fn, g) CB_CASE(1, fn, g) CB_CASE(2, fn, g) CB_CASE(3, fn, g) CB_CASE(4, fn, g) CB_CASE(5, fn, g) \
	CB_CASE(6, fn, g) CB_CASE(7, fn, g) CB_CASE(8, fn, g) CB_CASE(9, fn, g) CB_CASE(10, fn, g) CB_CASE(11, fn, g) \
	CB_CASE(12, fn, g) CB_CASE(13, fn, g) CB_CASE(14, fn, g) CB_CASE(15, fn, g) CB_CASE(16, fn, g) CB_CASE(17, fn, g) \
	CB_CASE(18, fn, g) CB_CASE(19, fn, g) CB_CASE(20, fn, g) CB_CASE(21, fn, g) CB_CASE(22, fn, g) CB_CASE(23, fn, g) \
	CB_CASE(24, fn, g) CB_CASE(25, fn, g) CB_CASE(26, fn, g) CB_CASE(27, fn, g) CB_CASE(28, fn, g) CB_CASE(29, fn, g) \
	CB_CASE(30, fn, g) CB_CASE(31, fn, g) CB_CASE(32, fn, g) \
	default: CHECK(0, "cluster_bits outside 0..32 is excluded by the precondition"); }
#endif

/* ---- preconditions shared by the units: the handle is NULL or bitmap A, well formed, over the model backend `ops`;
 * the call log is empty and the ghost copy of the membership of verif_k is current */
static int pre_a(ext2fs_generic_bitmap g, const struct ext2_bitmap_ops *ops)
{
	return g == 0 || (g == (ext2fs_generic_bitmap)&BMA && WF64(g, ops, &verif_g0));
}
#define PRE_A(g, ops) pre_a(g, ops)
#define PRE_LOG (G_CALLS == 0 && G_WARN == 0 && verif_g0 == (unsigned)verif_old_bit && verif_g0 <= 1)
#define IMPL(a, b) (!(a) || (b))
#define MAXU(a, b) ((a) >= (b) ? (a) : (b))
