/* VERIF-UNIT
{
 "name": "gen32_resize",
 "props": ["C16"],
 "level": "U",
 "tier": "quick",
 "harness": "h_g32_resize",
 "enforce": ["ext2fs_resize_generic_bitmap"],
 "loop_contracts": true,
 "sources": ["lib/ext2fs/bitops.c"],
 "functions": ["lib/ext2fs/gen_bitmap.c:ext2fs_resize_generic_bitmap", "lib/ext2fs/bitops.c:ext2fs_clear_bit"],
 "assumes": ["old and new bit array capped at 2^20 bits (object-size cap); geometry, content (including the bits behind real_end in the last byte), new_end, new_real_end otherwise symbolic",
             "start <= new_end <= new_real_end (callers pass the new last number and the new padded end of the same bitmap)",
             "realloc may fail (returns NULL, old array intact)"],
 "native": false
}
*/

/* Loop contract of the clearing loop (named anchor in gen_bitmap.c).  verif_k = ghost bit index relative to the bitmap's
 * start.  TOP = min(real_end, new_end) is where the loop starts.  Invariant: exactly the numbers of (bitno, TOP] have
 * been removed - stated at the ghost bit. */
#define RSZ_TOP (bmap->real_end > new_end ? new_end : bmap->real_end)
#define VERIF_INV_RESIZE_GENERIC_BITMAP_CLEAR \
	__CPROVER_assigns(bitno, __CPROVER_object_whole(bmap->bitmap)) \
	__CPROVER_loop_invariant(bmap->end <= bitno && bitno <= RSZ_TOP) \
	__CPROVER_loop_invariant(verif_k >= ((unsigned long long)(bmap->real_end - bmap->start) / 8 + 1) * 8 || \
		VERIF_BIT(bmap->bitmap, verif_k) == \
		((verif_k > bitno - bmap->start && verif_k <= RSZ_TOP - bmap->start) ? 0 : verif_old_bit)) \
	__CPROVER_decreases(bitno - bmap->end)

#define G32_K_FREE
#include "gen32_common.h"

/* ------------------------------------------------------------------ resize (legacy)
 * Property: resizing to [start, new_end] keeps the members <= min(old end, new end), and every number the bitmap
 * gains is a non-member ("make sure all of the new parts of the bitmap are zero"):
 *   wrong handle / magic -> the magic code is returned, nothing changes
 *   allocation failure   -> EXT2_ET_NO_MEMORY, same range, same members
 *   success              -> end = new_end, real_end = new_real_end, start unchanged; at the ghost bit k (relative):
 *        k <= min(old end, new end) - start              => membership kept
 *        old end - start < k <= new_end - start          => not a member        (numbers gained by the set)
 *        old real_end - start < k <= new_real_end - start => bit clear           (new tail of the array is empty)   */
unsigned int verif_oend, verif_oreal;	/* ghost: end / real_end on entry */
#define NBITS(real_end, start) (((unsigned long long)((real_end) - (start)) / 8 + 1) * 8)	/* bits of the logical array */
static int pre32_resize(errcode_t magic, __u32 new_end, __u32 new_real_end, ext2fs_generic_bitmap bm)
{
	(void)magic;
	return (bm == 0 || (bm == GBM && BM.start <= BM.end && BM.end <= BM.real_end && BM.real_end - BM.start < G32_MAX_BITS &&
			    BM.start <= new_end && new_end <= new_real_end && new_real_end - BM.start < G32_MAX_BITS &&
			    verif_oend == BM.end && verif_oreal == BM.real_end &&
			    IMPL(verif_k < NBITS(BM.real_end, BM.start), verif_old_bit == BIT(BM.bitmap, verif_k)))) && PRE_LOG32;
}
static int spec32_resize(errcode_t magic, __u32 new_end, __u32 new_real_end, ext2fs_generic_bitmap bm, errcode_t ret)
{
	unsigned int keep = (verif_oend < new_end ? verif_oend : new_end) - BM.start;
	if (G_WARN != 0 || G_FWD != 0)
		return 0;
	if (bm == 0)
		return ret == magic;
	if (BM.magic != magic)
		return ret == magic && BM.end == verif_oend && BM.real_end == verif_oreal &&
		       IMPL(verif_k < NBITS(verif_oreal, BM.start), BIT(BM.bitmap, verif_k) == verif_old_bit);
	if (ret == EXT2_ET_NO_MEMORY)	/* the allocator failed: same range, same members (padding may have been cleared) */
		return BM.end == verif_oend && BM.real_end == verif_oreal &&
		       IMPL(verif_k <= verif_oend - BM.start, BIT(BM.bitmap, verif_k) == verif_old_bit);
	return ret == 0 && BM.end == new_end && BM.real_end == new_real_end &&
	       IMPL(verif_k <= keep, BIT(BM.bitmap, verif_k) == verif_old_bit) &&
	       IMPL(verif_k > verif_oend - BM.start && verif_k <= new_end - BM.start, BIT(BM.bitmap, verif_k) == 0) &&
	       IMPL(verif_k > verif_oreal - BM.start && verif_k <= new_real_end - BM.start, BIT(BM.bitmap, verif_k) == 0);
}
errcode_t ext2fs_resize_generic_bitmap(errcode_t magic, __u32 new_end, __u32 new_real_end, ext2fs_generic_bitmap gen_bmap)
	REQUIRES(pre32_resize(magic, new_end, new_real_end, gen_bmap))
	ENSURES(spec32_resize(magic, new_end, new_real_end, gen_bmap, RET))
	ENSURES(BM.start == OLD(BM.start) && BM.magic == OLD(BM.magic))
	ASSIGNS(BM.end, BM.real_end, BM.bitmap, __CPROVER_object_whole(BM.bitmap))
	__CPROVER_frees(BM.bitmap);

void h_g32_resize(void)
{
	errcode_t r;
	ext2fs_generic_bitmap g;
	unsigned long long oldbits, newbits;
	build_bitmap();
	ASSUME(IN.start <= IN.new_end && IN.new_end <= IN.new_real_end && IN.new_real_end - IN.start < G32_MAX_BITS);
	oldbits = NBITS(IN.real_end, IN.start);
	newbits = NBITS(IN.new_real_end, IN.start);
	ASSUME(verif_k < (oldbits > newbits ? oldbits : newbits));
	verif_old_bit = verif_k < oldbits ? BIT(BM.bitmap, verif_k) : 0;
	verif_oend = BM.end; verif_oreal = BM.real_end;
	g = IN.fail ? 0 : GBM;
	r = ext2fs_resize_generic_bitmap(IN.magic_arg, IN.new_end, IN.new_real_end, g);
	CHECK(spec32_resize(IN.magic_arg, IN.new_end, IN.new_real_end, g, r),
	      "legacy resize: members up to min(old end, new end) kept, every number gained is a non-member, new tail of the array empty; wrong magic: nothing changes");
	if (g && r == 0 && IN.new_real_end > IN.real_end && newbits > oldbits && verif_k >= oldbits) REACH("grow into new bytes, k in a new byte");
	if (g && r == 0 && IN.new_real_end > IN.real_end && verif_k > IN.real_end - IN.start && verif_k < oldbits) REACH("grow, k behind the old real_end in the last old byte");
	if (g && r == 0 && IN.new_end > IN.end && IN.new_real_end == IN.real_end && verif_k > IN.end - IN.start && verif_k <= IN.new_end - IN.start) REACH("grow inside the padding, k gained");
	if (g && r == 0 && IN.new_real_end < IN.real_end && newbits < oldbits && verif_k <= IN.new_end - IN.start && verif_old_bit) REACH("shrink, k kept");
	if (g && r == IN.magic_arg && IN.magic_arg != EXT2_ET_NO_MEMORY) REACH("wrong magic");
	if (g && r == EXT2_ET_NO_MEMORY && IN.magic_arg == IN.magic) REACH("allocation failure");
	if (!g) REACH("NULL handle");
	REACH("end");
}
