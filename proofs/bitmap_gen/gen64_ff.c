/* VERIF-UNIT
{
 "name": "gen64_ffz_backend",
 "props": ["C16"],
 "level": "U",
 "unwindset": {"ext2fs_find_first_zero_generic_bmap.0": 1, "ext2fs_find_first_zero_generic_bmap.1": 1},
 "unwind_reason": "the generic test_bmap loop (and the backward goto into the found: block) is unreachable when the backend provides find_first operations; the unwinding assertions prove exactly that",
 "tier": "quick",
 "harness": "h_gen_ff",
 "defines": ["FF_OP=0", "GEN64_FF_BACKEND", "GEN64_CB_ENUM"],
 "enforce": ["ext2fs_find_first_zero_generic_bmap"],
 "functions": ["lib/ext2fs/gen_bitmap64.c:ext2fs_find_first_zero_generic_bmap"],
 "assumes": ["backend = harness model backend providing find_first_zero/find_first_set: any answer consistent with set semantics at the ghost cluster, or an arbitrary error code",
             "cluster_bits enumerated over {0, 4} (no bigalloc / 16 blocks per cluster); start, end, bitmap geometry, membership, backend answer fully symbolic",
             "the fallback loop (backend without find_first operations) is the separate unit gen64_ffz_fallback",
             "legacy 32-bit magic excluded (dispatch to gen_bitmap.c, see gen32 units)",
             "start <= end <= real_end, real_end < 2^62 >> cluster_bits"],
 "backend": "kissat",
 "native": true
}
*/
/* VERIF-UNIT
{
 "name": "gen64_ffs_backend",
 "props": ["C16"],
 "level": "U",
 "unwindset": {"ext2fs_find_first_set_generic_bmap.0": 1, "ext2fs_find_first_set_generic_bmap.1": 1},
 "unwind_reason": "the generic test_bmap loop (and the backward goto into the found: block) is unreachable when the backend provides find_first operations; the unwinding assertions prove exactly that",
 "tier": "quick",
 "harness": "h_gen_ff",
 "defines": ["FF_OP=1", "GEN64_FF_BACKEND", "GEN64_CB_ENUM"],
 "enforce": ["ext2fs_find_first_set_generic_bmap"],
 "functions": ["lib/ext2fs/gen_bitmap64.c:ext2fs_find_first_set_generic_bmap"],
 "assumes": ["backend = harness model backend providing find_first_zero/find_first_set: any answer consistent with set semantics at the ghost cluster, or an arbitrary error code",
             "cluster_bits enumerated over {0, 4} (no bigalloc / 16 blocks per cluster); start, end, bitmap geometry, membership, backend answer fully symbolic",
             "the fallback loop (backend without find_first operations) is the separate unit gen64_ffs_fallback",
             "legacy 32-bit magic excluded (dispatch to gen_bitmap.c, see gen32 units)",
             "start <= end <= real_end, real_end < 2^62 >> cluster_bits"],
 "backend": "kissat",
 "native": true
}
*/
/* VERIF-UNIT
{
 "name": "gen64_ffz_fallback",
 "props": ["C16"],
 "level": "U",
 "unwindset": {"ext2fs_find_first_zero_generic_bmap.0": 2, "ext2fs_find_first_zero_generic_bmap.1": 2},
 "unwind_reason": "the scan loop is closed by its in-place loop contract; what is left are the two copies (base case / inductive step of the loop-contract instrumentation) of the backward `goto found`, a jump out of the loop into a block that returns - not a cycle; bound 2 = the jump is taken at most once, the unwinding assertions prove it",
 "tier": "quick",
 "harness": "h_gen_ff_fallback",
 "defines": ["FF_OP=0", "GEN64_FF_FALLBACK", "GEN64_CB_ENUM"],
 "enforce": ["ext2fs_find_first_zero_generic_bmap"],
 "loop_contracts": true,
 "functions": ["lib/ext2fs/gen_bitmap64.c:ext2fs_find_first_zero_generic_bmap"],
 "assumes": ["backend = harness model backend WITHOUT find_first operations (generic test_bmap scan, closed by an in-place loop contract)",
             "cluster_bits enumerated over {0, 4} (no bigalloc / 16 blocks per cluster); start, end, bitmap geometry, membership fully symbolic",
             "legacy 32-bit magic excluded (dispatch to gen_bitmap.c, see gen32 units)",
             "start <= end <= real_end, real_end < 2^62 >> cluster_bits"],
 "backend": "kissat",
 "native": true
}
*/
/* VERIF-UNIT
{
 "name": "gen64_ffs_fallback",
 "props": ["C16"],
 "level": "U",
 "unwindset": {"ext2fs_find_first_set_generic_bmap.0": 2, "ext2fs_find_first_set_generic_bmap.1": 2},
 "unwind_reason": "the scan loop is closed by its in-place loop contract; what is left are the two copies (base case / inductive step of the loop-contract instrumentation) of the backward `goto found`, a jump out of the loop into a block that returns - not a cycle; bound 2 = the jump is taken at most once, the unwinding assertions prove it",
 "tier": "quick",
 "harness": "h_gen_ff_fallback",
 "defines": ["FF_OP=1", "GEN64_FF_FALLBACK", "GEN64_CB_ENUM"],
 "enforce": ["ext2fs_find_first_set_generic_bmap"],
 "loop_contracts": true,
 "functions": ["lib/ext2fs/gen_bitmap64.c:ext2fs_find_first_set_generic_bmap"],
 "assumes": ["backend = harness model backend WITHOUT find_first operations (generic test_bmap scan, closed by an in-place loop contract)",
             "cluster_bits enumerated over {0, 4} (no bigalloc / 16 blocks per cluster); start, end, bitmap geometry, membership fully symbolic",
             "legacy 32-bit magic excluded (dispatch to gen_bitmap.c, see gen32 units)",
             "start <= end <= real_end, real_end < 2^62 >> cluster_bits"],
 "backend": "kissat",
 "native": true
}
*/

/* Loop contracts of the generic scan loops (named anchors in gen_bitmap64.c; the text is defined here because it is
 * phrased over this unit's ghost registers: verif_k = ghost cluster, verif_g0 = its membership, verif_g6 = number of
 * error-hook calls).  Invariant: every cluster of [cstart, cout) has the value that is NOT searched for - stated at
 * the ghost cluster; the scan changes neither the set nor calls the error hook. */
#ifdef GEN64_FF_FALLBACK
#define FF_SCAN_INV(T) \
	__CPROVER_assigns(cout, verif_g2, verif_g3, verif_g4, verif_g5, verif_p0, verif_p1) \
	__CPROVER_loop_invariant(cstart <= cout && cout <= cend + 1) \
	__CPROVER_loop_invariant(verif_g0 == (unsigned)verif_old_bit && verif_g6 == 0) \
	__CPROVER_loop_invariant(verif_k < cstart || verif_k >= cout || (verif_g0 != 0) == !(T)) \
	__CPROVER_decreases(cend + 1 - cout)
#define VERIF_INV_FIND_FIRST_ZERO_GENERIC_BMAP_SCAN FF_SCAN_INV(0)
#define VERIF_INV_FIND_FIRST_SET_GENERIC_BMAP_SCAN FF_SCAN_INV(1)
#endif

#include "gen64_common.h"

/* ------------------------------------------------------------------ find first zero / set
 * Property (set view, T = membership searched for: 0 for find_first_zero, 1 for find_first_set):
 *   a block b "has value T" iff membership(cluster(b)) == T.  The result is the least block in [start, end] with
 *   value T, ENOENT if there is none, EINVAL (and the error hook) if start > end or a cluster of the range lies
 *   outside [bitmap start, bitmap end].  Pointwise at cluster k:
 *     ret == 0      => start <= *out <= end, k == cluster(*out) => member(k) == T,
 *                      cluster(start) <= k < cluster(*out) => member(k) == !T,
 *                      *out is the first block >= start of its cluster
 *     ret == ENOENT => cluster(start) <= k <= cluster(end) => member(k) == !T
 *   The set is never changed; *out is written only on success.
 *   With a backend that has its own find_first operation: it is asked exactly once, for exactly the clusters
 *   cluster(start)..cluster(end), and its error code is passed on. */
#define FF_ARGS_OK(g, s_, e_) ((s_) <= (e_) && CL(g, s_) >= B64(g)->start && CL(g, e_) <= B64(g)->end)
static int spec_ff(ext2fs_generic_bitmap g, __u64 s_, __u64 e_, const __u64 *outp, __u64 oldout, errcode_t ret, int T, int OPC, int BACKEND)
{
	return (
	!VALID64(g) ? ((ret) == EINVAL && G_CALLS == 0 && G_WARN == 0 && *(outp) == (oldout)) :
	!FF_ARGS_OK(g, s_, e_) ?
		((ret) == EINVAL && G_CALLS == 0 && G_WARN == 1 && *(outp) == (oldout) &&
		 G_CODE == (unsigned long long)(B64(g)->base_error_code + EXT2FS_TEST_ERROR)) :
	(G_WARN == 0 && verif_g0 == (unsigned)verif_old_bit &&
	 (!(BACKEND) || (G_CALLS == 1 && G_OP == (OPC) && G_ARG == CL(g, s_) && G_NUM == CL(g, e_) && (ret) == IN.be_ret)) &&
	 ((BACKEND) || (ret) == 0 || (ret) == ENOENT) &&
	 IMPL((ret) == 0, *(outp) >= (s_) && *(outp) <= (e_) &&
		IMPL(CL(g, *(outp)) == verif_k, (verif_old_bit != 0) == (T)) &&
		IMPL(verif_k >= CL(g, s_) && verif_k < CL(g, *(outp)), (verif_old_bit != 0) == !(T)) &&
		*(outp) == MAXU(s_, CL(g, *(outp)) << B64(g)->cluster_bits)) &&
	 IMPL((ret) == ENOENT, IMPL(verif_k >= CL(g, s_) && verif_k <= CL(g, e_), (verif_old_bit != 0) == !(T))) &&
	 IMPL((ret) != 0, *(outp) == (oldout))));
}

unsigned long long verif_oldout;	/* ghost: *out on entry */
static __u64 OUT;

#ifdef GEN64_FF_BACKEND
#define FF_OPS MODEL_OPS
#define FF_BACKEND 1
#else
#define FF_OPS MODEL_OPS_NOFF
#define FF_BACKEND 0
#endif

#if FF_OP == 0
errcode_t ext2fs_find_first_zero_generic_bmap(ext2fs_generic_bitmap bitmap, __u64 start, __u64 end, __u64 *out)
	REQUIRES(PRE_A(bitmap, &FF_OPS) && PRE_LOG && out == &OUT && verif_oldout == OUT)
	ENSURES(spec_ff(bitmap, start, end, out, verif_oldout, RET, 0, OP_FFZ, FF_BACKEND))
	ASSIGNS(GHOSTS, OUT);
#else
errcode_t ext2fs_find_first_set_generic_bmap(ext2fs_generic_bitmap bitmap, __u64 start, __u64 end, __u64 *out)
	REQUIRES(PRE_A(bitmap, &FF_OPS) && PRE_LOG && out == &OUT && verif_oldout == OUT)
	ENSURES(spec_ff(bitmap, start, end, out, verif_oldout, RET, 1, OP_FFS, FF_BACKEND))
	ASSIGNS(GHOSTS, OUT);
#endif

static void ff_body(ext2fs_generic_bitmap g)
{
	errcode_t r;
#if FF_OP == 0
	r = ext2fs_find_first_zero_generic_bmap(g, IN.arg, IN.arg2, &OUT);
	CHECK(spec_ff(g, IN.arg, IN.arg2, &OUT, verif_oldout, r, 0, OP_FFZ, FF_BACKEND),
	      "find_first_zero: least block in [start,end] whose cluster is not a member, ENOENT if none, EINVAL on a bad range");
#else
	r = ext2fs_find_first_set_generic_bmap(g, IN.arg, IN.arg2, &OUT);
	CHECK(spec_ff(g, IN.arg, IN.arg2, &OUT, verif_oldout, r, 1, OP_FFS, FF_BACKEND),
	      "find_first_set: least block in [start,end] whose cluster is a member, ENOENT if none, EINVAL on a bad range");
#endif
	/* canaries describe the situation (inputs), not the answer, so that they stay reachable under a wrong answer */
	if (g && IS64M(IN.magic) && r == 0 && IN.cluster_bits > 0 && (IN.arg & 15) != 0 && CL(g, OUT) == CL(g, IN.arg)) REACH("found in the cluster of an unaligned start (clamp)");
	if (g && IS64M(IN.magic) && r == 0 && IN.cluster_bits > 0 && OUT > IN.arg) REACH("result in a later cluster");
	if (g && IS64M(IN.magic) && r == 0 && IN.cluster_bits == 0 && CL(g, OUT) == verif_k) REACH("result is the ghost cluster, no bigalloc");
	if (g && IS64M(IN.magic) && r == ENOENT && verif_k >= CL(g, IN.arg) && verif_k <= CL(g, IN.arg2)) REACH("ENOENT with k inside");
	if (g && IS64M(IN.magic) && r == EINVAL && G_WARN == 1) REACH("EINVAL");
	if (!g) REACH("NULL handle");
}
static void ff_harness(void)
{
	ext2fs_generic_bitmap g = build_a(&FF_OPS);
	OUT = IN.be_out ^ 0x5a5a;
	verif_oldout = OUT;
	SPLIT_CB(ff_body, g);
	REACH("end");
}
void h_gen_ff(void) { ff_harness(); }
void h_gen_ff_fallback(void) { ff_harness(); }
