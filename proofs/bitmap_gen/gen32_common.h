/*
 * Shared by the gen_bitmap.c units (C16, legacy 32-bit bitmaps).  NOT a model: the real lib/ext2fs/gen_bitmap.c is
 * included below; the real bit operations come from lib/ext2fs/bitops.c (listed in the units' `sources`).
 *
 * Abstract view of a legacy bitmap: bit j of the byte array `bitmap` (j = number - start) is the membership of
 * `number`; valid for j in [0, real_end - start].  "For every bit" is stated for ONE arbitrary ghost bit index.
 *
 * Ghost registers (declared in include/e2fsprogs_verif.h so that in-place loop contracts may name them):
 *   verif_k        ghost bit index, relative to the bitmap's start (0 .. real_end - start)
 *   verif_old_bit  membership of bit verif_k on entry
 *   verif_g0       find_first / resize: value of the running argument on entry (start / top bit to clear)
 *   verif_g1       find_first: *out on entry
 *   verif_g2       number of calls forwarded to the 64-bit API (logging stubs)
 *   verif_g3       operation of the last forwarded call, verif_g4 its numeric argument
 *   verif_g5       number of ext2fs_warn_bitmap32 calls
 *   verif_g6       number of error-hook calls (com_err), verif_g7 the code of the last one
 *   verif_p0       bitmap argument of the last forwarded call
 */
#include "verif.h"

#define G32_MAX_BITS (1U << 20)	/* object-size cap for the bit array (stated in the units' assumes) */

struct in_gen32 {
	unsigned int start, end, real_end;	/* bitmap geometry */
	long magic, magic_arg;
	long base_error_code;
	unsigned int arg, arg2, num;		/* operation arguments */
	unsigned int new_end, new_real_end;
	unsigned long long k, j;		/* ghost bit index; second arbitrary bit */
	unsigned char has_descr, zero, op, fail;
	long be_ret;				/* result of a forwarded call */
	unsigned char fill[8];			/* concrete witness bytes (native replay) */
};
struct in_gen32 IN;
#include "verif_in.h"

unsigned long long verif_k;
int verif_old_bit;
unsigned long long verif_g0, verif_g1, verif_g2, verif_g3, verif_g4, verif_g5, verif_g6, verif_g7;
const unsigned char *verif_p0, *verif_p1, *verif_p2, *verif_p3;	/* p1 / p2: ghosts of the ext2fs_mem_is_zero contract (specs/c16_ba_mem_is_zero.h) */

#define G_FWD verif_g2
#define G_FWD_OP verif_g3
#define G_FWD_ARG verif_g4
#define G_WARN32 verif_g5
#define G_WARN verif_g6
#define G_CODE verif_g7
#define g_bm verif_p0
#define GHOSTS32 verif_g2, verif_g3, verif_g4, verif_g5, verif_g6, verif_g7, verif_p0

/* the error hook com_err() is variadic; DFCC loses the write set across a variadic call, so the call is routed to a
 * two-argument hook (the format arguments are irrelevant to the property) */
#define com_err(whoami, code, ...) verif_com_err_hook(whoami, code)
#include "lib/ext2fs/gen_bitmap.c"

void verif_com_err_hook(const char *whoami, long code)
{
	(void)whoami;
	G_WARN++;
	G_CODE = (unsigned long long)code;
}

/* ---- logging stubs for the 64-bit API (lib/ext2fs/gen_bitmap64.c), reached only with a 64-bit magic number ---- */
enum { F64_NONE, F64_TEST, F64_MARK, F64_UNMARK, F64_CLEAR };
static void log64(ext2fs_generic_bitmap bm, int op, __u64 a)
{
	G_FWD++;
	G_FWD_OP = op;
	G_FWD_ARG = a;
	g_bm = (const unsigned char *)bm;
}
void ext2fs_warn_bitmap32(ext2fs_generic_bitmap gen_bitmap, const char *func) { (void)gen_bitmap; (void)func; G_WARN32++; }
int ext2fs_test_generic_bmap(ext2fs_generic_bitmap bm, __u64 arg) { log64(bm, F64_TEST, arg); return (int)IN.be_ret; }
int ext2fs_mark_generic_bmap(ext2fs_generic_bitmap bm, __u64 arg) { log64(bm, F64_MARK, arg); return (int)IN.be_ret; }
int ext2fs_unmark_generic_bmap(ext2fs_generic_bitmap bm, __u64 arg) { log64(bm, F64_UNMARK, arg); return (int)IN.be_ret; }
void ext2fs_clear_generic_bmap(ext2fs_generic_bitmap bm) { log64(bm, F64_CLEAR, 0); }

/* ---- vocabulary ---- */
#define BIT(arr, k) ((((const unsigned char *)(arr))[(k) >> 3] >> ((k) & 7)) & 1)
#define IS32M(m) ((m) == EXT2_ET_MAGIC_GENERIC_BITMAP || (m) == EXT2_ET_MAGIC_BLOCK_BITMAP || (m) == EXT2_ET_MAGIC_INODE_BITMAP)
#define IS64M(m) ((m) == EXT2_ET_MAGIC_GENERIC_BITMAP64 || (m) == EXT2_ET_MAGIC_BLOCK_BITMAP64 || (m) == EXT2_ET_MAGIC_INODE_BITMAP64)
#define IMPL(a, b) (!(a) || (b))

static struct ext2fs_struct_generic_bitmap_32 BM;
static char DESCR[4] = "bm";
static unsigned long long NBYTES;	/* size of the bit array as ext2fs_make_generic_bitmap allocates it */
#define GBM ((ext2fs_generic_bitmap)&BM)

/* well_formed(bitmap), from ext2fs_make_generic_bitmap: start <= end <= real_end, bit array of
 * (((real_end - start) / 8 + 1) + 7) & ~3 bytes.  `zero` builds an all-zero array (calloc). */
static void build_bitmap(void)
{
	char *raw;
	LOAD_IN();
	ASSUME(IN.start <= IN.end && IN.end <= IN.real_end);
	ASSUME(IN.real_end - IN.start < G32_MAX_BITS);
	ASSUME(IN.base_error_code >= 0 && IN.base_error_code < 0x7fffffff00000000L);
	NBYTES = ((((IN.real_end - IN.start) / 8) + 1) + 7) & ~3ULL;
	raw = IN.zero ? calloc(NBYTES, 1) : malloc(NBYTES);
	ASSUME(raw != 0);
#ifdef VERIF_NATIVE
	for (unsigned long long j = 0; j < NBYTES; j++)
		raw[j] = IN.zero ? 0 : IN.fill[j & 7];
#endif
	memset(&BM, 0, sizeof(BM));
	BM.magic = IN.magic;
	BM.start = IN.start;
	BM.end = IN.end;
	BM.real_end = IN.real_end;
	BM.base_error_code = IN.base_error_code;
	BM.description = IN.has_descr ? &DESCR[0] : (char *)0;
	BM.bitmap = raw;
	verif_k = IN.k;
#ifndef G32_K_FREE	/* the resize unit chooses the ghost bit over the old AND the new array itself */
	ASSUME(verif_k <= IN.real_end - IN.start);
	verif_old_bit = BIT(BM.bitmap, verif_k);
#endif
	G_FWD = 0; G_FWD_OP = F64_NONE; G_FWD_ARG = 0; G_WARN32 = 0; G_WARN = 0; G_CODE = 0; g_bm = 0;
	verif_g0 = 0; verif_g1 = 0;
}
#define PRE_LOG32 (G_FWD == 0 && G_WARN32 == 0 && G_WARN == 0)
