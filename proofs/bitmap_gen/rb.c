/*
 * blkmap64_rb.c + rbtree.c — C16, red-black-tree backend.  BOUNDED units (level B(n): trees of n extents before the
 * operation; never counted as proved).  Harness-level obligations only (the operations free and allocate tree nodes; a
 * DFCC frame for that is not expressible without quantifiers); see rb_common.h for the tree builder, well_formed, the
 * colour invariants, the set view and the "never called" contracts.  lib/ext2fs/rbtree.c — the real rebalancing code —
 * is linked as a second translation unit in every unit.
 *
 * Why the units look the way they do (measured with CBMC 6.11, see the report of agent rb):
 *  - rbtree.h keeps parent pointer and colour in one integer.  CBMC's points-to analysis drops the offset of a pointer
 *    that went through `& ~3`, so every store through ext2fs_rb_parent(x) becomes a byte_update at a symbolic offset
 *    on every candidate node (~3*10^5 clauses each).  Queries (no stores) scale to 4 extents; a formula with more
 *    than three or four inlined ext2fs_rb_erase bodies exceeds 10 GB.
 *  - Mutating operations are therefore checked per SCENARIO (conditions on the inputs that partition the input space of
 *    the operation).  A tree mutator that cannot be reached in a scenario is listed under "replace" with the contract
 *    REQUIRES(false): its unreachability is a checked obligation at every call site, nothing is assumed about it.
 *    Where it can be reached it is the real code.  ext2fs_rb_erase / ext2fs_rb_insert_color themselves are checked on
 *    every red-black tree of up to 4 nodes (rbtree_erase_b*, rbtree_insert_b*).
 *  - n is a compile-time constant of the unit (queries: symbolic 0..n); offsets are capped at 2^16 in the mutating units
 *    (the final UNSAT call — ordering lemmas over 64-bit comparisons — is the bottleneck, not the formula size).
 *  - back end: minisat (incremental; kissat/cadical need 5-10 times longer here), hence "no_cross_check".
 * The VERIF-UNIT blocks below are generated from one table (same knobs for every unit); edit them by hand if needed.
 */
/* VERIF-UNIT
{
 "name": "rb_test_bit_b4",
 "props": ["C16"],
 "level": "B(4)",
 "tier": "quick",
 "harness": "h_rb_test",
 "defines": ["EXT2_CUSTOM_MEMORY_ROUTINES", "RB_N=4", "RB_NSYM", "RB_NEW=0", "RB_BITS=62"],
 "unwind": 9,
 "unwind_reason": "BOUNDED: a tree of at most 4 nodes has height <= 3, so every descent / successor / predecessor loop of blkmap64_rb.c and rbtree.c runs at most that often (+1 for the exit test), the neighbour loops at most once per node; rebalancing loops climb at most one level per round; harness loops have constant bounds <= 8 (global unwind 9). Every bound is confirmed by an unwinding assertion.",
 "sources": ["lib/ext2fs/rbtree.c"],
 "functions": ["lib/ext2fs/blkmap64_rb.c:rb_test_bmap", "lib/ext2fs/blkmap64_rb.c:rb_test_bit"],
 "assumes": ["BOUNDED stand-in, not counted as proved: the tree has 0..4 extents (sorted, disjoint, non-adjacent, count > 0) in every red-black shape of that size; wcursor/rcursor NULL or any node, rcursor_next NULL or the successor of rcursor (any node if rcursor is NULL)", "allocation does not fail: ext2fs.h is compiled with its own hook EXT2_CUSTOM_MEMORY_ROUTINES and ext2fs_get_mem/ext2fs_free_mem are the trivial malloc/free stubs of rb_common.h (typed pointer store instead of memcpy); malloc is __CPROVER_allocate, i.e. never NULL (rb_get_new_extent abort()s on failure anyway)", "bitmap->real_end - bitmap->start < 2^62", "argument inside [start, real_end] (guaranteed by the generic layer)"],
 "backend": "minisat",
 "no_cross_check": true,
 "native": true,
 "cbmc_flags": ["--object-bits", "10"],
 "unwindset": {"ext2fs_rb_next.0": 4, "ext2fs_rb_next.1": 4, "rb_test_bit.0": 4},
 "timeout": 300
}
*/
/* VERIF-UNIT
{
 "name": "rb_test_clear_extent_b4",
 "props": ["C16"],
 "level": "B(4)",
 "tier": "quick",
 "harness": "h_rb_test_clear",
 "defines": ["EXT2_CUSTOM_MEMORY_ROUTINES", "RB_N=4", "RB_NSYM", "RB_NEW=0", "RB_BITS=62"],
 "unwind": 9,
 "unwind_reason": "BOUNDED: a tree of at most 4 nodes has height <= 3, so every descent / successor / predecessor loop of blkmap64_rb.c and rbtree.c runs at most that often (+1 for the exit test), the neighbour loops at most once per node; rebalancing loops climb at most one level per round; harness loops have constant bounds <= 8 (global unwind 9). Every bound is confirmed by an unwinding assertion.",
 "sources": ["lib/ext2fs/rbtree.c"],
 "functions": ["lib/ext2fs/blkmap64_rb.c:rb_test_clear_bmap_extent"],
 "assumes": ["BOUNDED stand-in, not counted as proved: the tree has 0..4 extents (sorted, disjoint, non-adjacent, count > 0) in every red-black shape of that size; wcursor/rcursor NULL or any node, rcursor_next NULL or the successor of rcursor (any node if rcursor is NULL)", "allocation does not fail: ext2fs.h is compiled with its own hook EXT2_CUSTOM_MEMORY_ROUTINES and ext2fs_get_mem/ext2fs_free_mem are the trivial malloc/free stubs of rb_common.h (typed pointer store instead of memcpy); malloc is __CPROVER_allocate, i.e. never NULL (rb_get_new_extent abort()s on failure anyway)", "bitmap->real_end - bitmap->start < 2^62", "range inside [start, real_end], len >= 1 (generic layer)"],
 "backend": "minisat",
 "no_cross_check": true,
 "native": true,
 "cbmc_flags": ["--object-bits", "10"],
 "unwindset": {"ext2fs_rb_next.0": 4, "ext2fs_rb_next.1": 4, "rb_test_clear_bmap_extent.0": 4, "rb_test_clear_bmap_extent.1": 5},
 "timeout": 300
}
*/
/* VERIF-UNIT
{
 "name": "rb_find_first_zero_b3",
 "props": ["C16"],
 "level": "B(3)",
 "tier": "quick",
 "harness": "h_rb_ffz",
 "defines": ["EXT2_CUSTOM_MEMORY_ROUTINES", "RB_N=3", "RB_NSYM", "RB_NEW=0", "RB_BITS=62"],
 "unwind": 9,
 "unwind_reason": "BOUNDED: a tree of at most 3 nodes has height <= 2, so every descent / successor / predecessor loop of blkmap64_rb.c and rbtree.c runs at most that often (+1 for the exit test), the neighbour loops at most once per node; rebalancing loops climb at most one level per round; harness loops have constant bounds <= 8 (global unwind 9). Every bound is confirmed by an unwinding assertion.",
 "sources": ["lib/ext2fs/rbtree.c"],
 "functions": ["lib/ext2fs/blkmap64_rb.c:rb_find_first_zero"],
 "assumes": ["BOUNDED stand-in, not counted as proved: the tree has 0..3 extents (sorted, disjoint, non-adjacent, count > 0) in every red-black shape of that size; wcursor/rcursor NULL or any node, rcursor_next NULL or the successor of rcursor (any node if rcursor is NULL)", "allocation does not fail: ext2fs.h is compiled with its own hook EXT2_CUSTOM_MEMORY_ROUTINES and ext2fs_get_mem/ext2fs_free_mem are the trivial malloc/free stubs of rb_common.h (typed pointer store instead of memcpy); malloc is __CPROVER_allocate, i.e. never NULL (rb_get_new_extent abort()s on failure anyway)", "bitmap->real_end - bitmap->start < 2^62", "bitmap start <= start <= end <= bitmap end (checked by the generic layer)"],
 "backend": "minisat",
 "no_cross_check": true,
 "native": true,
 "cbmc_flags": ["--object-bits", "10"],
 "unwindset": {"rb_find_first_zero.0": 3},
 "timeout": 300
}
*/
/* VERIF-UNIT
{
 "name": "rb_find_first_zero_b4",
 "props": ["C16"],
 "level": "B(4)",
 "tier": "thorough",
 "harness": "h_rb_ffz",
 "defines": ["EXT2_CUSTOM_MEMORY_ROUTINES", "RB_N=4", "RB_NSYM", "RB_NEW=0", "RB_BITS=62"],
 "unwind": 9,
 "unwind_reason": "BOUNDED: a tree of at most 4 nodes has height <= 3, so every descent / successor / predecessor loop of blkmap64_rb.c and rbtree.c runs at most that often (+1 for the exit test), the neighbour loops at most once per node; rebalancing loops climb at most one level per round; harness loops have constant bounds <= 8 (global unwind 9). Every bound is confirmed by an unwinding assertion.",
 "sources": ["lib/ext2fs/rbtree.c"],
 "functions": ["lib/ext2fs/blkmap64_rb.c:rb_find_first_zero"],
 "assumes": ["BOUNDED stand-in, not counted as proved: the tree has 0..4 extents (sorted, disjoint, non-adjacent, count > 0) in every red-black shape of that size; wcursor/rcursor NULL or any node, rcursor_next NULL or the successor of rcursor (any node if rcursor is NULL)", "allocation does not fail: ext2fs.h is compiled with its own hook EXT2_CUSTOM_MEMORY_ROUTINES and ext2fs_get_mem/ext2fs_free_mem are the trivial malloc/free stubs of rb_common.h (typed pointer store instead of memcpy); malloc is __CPROVER_allocate, i.e. never NULL (rb_get_new_extent abort()s on failure anyway)", "bitmap->real_end - bitmap->start < 2^62", "bitmap start <= start <= end <= bitmap end (checked by the generic layer)"],
 "backend": "minisat",
 "no_cross_check": true,
 "native": true,
 "cbmc_flags": ["--object-bits", "10"],
 "unwindset": {"rb_find_first_zero.0": 4},
 "timeout": 1200
}
*/
/* VERIF-UNIT
{
 "name": "rb_find_first_set_b4",
 "props": ["C16"],
 "level": "B(4)",
 "tier": "quick",
 "harness": "h_rb_ffs",
 "defines": ["EXT2_CUSTOM_MEMORY_ROUTINES", "RB_N=4", "RB_NSYM", "RB_NEW=0", "RB_BITS=62"],
 "unwind": 9,
 "unwind_reason": "BOUNDED: a tree of at most 4 nodes has height <= 3, so every descent / successor / predecessor loop of blkmap64_rb.c and rbtree.c runs at most that often (+1 for the exit test), the neighbour loops at most once per node; rebalancing loops climb at most one level per round; harness loops have constant bounds <= 8 (global unwind 9). Every bound is confirmed by an unwinding assertion.",
 "sources": ["lib/ext2fs/rbtree.c"],
 "functions": ["lib/ext2fs/blkmap64_rb.c:rb_find_first_set"],
 "assumes": ["BOUNDED stand-in, not counted as proved: the tree has 0..4 extents (sorted, disjoint, non-adjacent, count > 0) in every red-black shape of that size; wcursor/rcursor NULL or any node, rcursor_next NULL or the successor of rcursor (any node if rcursor is NULL)", "allocation does not fail: ext2fs.h is compiled with its own hook EXT2_CUSTOM_MEMORY_ROUTINES and ext2fs_get_mem/ext2fs_free_mem are the trivial malloc/free stubs of rb_common.h (typed pointer store instead of memcpy); malloc is __CPROVER_allocate, i.e. never NULL (rb_get_new_extent abort()s on failure anyway)", "bitmap->real_end - bitmap->start < 2^62", "bitmap start <= start <= end <= bitmap end (checked by the generic layer)"],
 "backend": "minisat",
 "no_cross_check": true,
 "native": true,
 "cbmc_flags": ["--object-bits", "10"],
 "unwindset": {"ext2fs_rb_next.0": 4, "ext2fs_rb_next.1": 4, "rb_find_first_set.0": 4},
 "timeout": 300
}
*/
/* VERIF-UNIT
{
 "name": "rb_get_bmap_range_b1",
 "props": ["C16"],
 "level": "B(1)",
 "tier": "thorough",
 "harness": "h_rb_get_range",
 "defines": ["EXT2_CUSTOM_MEMORY_ROUTINES", "RB_N=1", "RB_NSYM", "RB_NEW=0", "RB_BITS=62", "RB_RANGE_BITS=17"],
 "unwind": 6,
 "unwind_reason": "BOUNDED: a tree of at most 1 nodes has height <= 1, so every descent / successor / predecessor loop of blkmap64_rb.c and rbtree.c runs at most that often (+1 for the exit test), the neighbour loops at most once per node; rebalancing loops climb at most one level per round; harness loops have constant bounds <= 8 (global unwind 9). Every bound is confirmed by an unwinding assertion.",
 "sources": ["lib/ext2fs/rbtree.c", "lib/ext2fs/bitops.c"],
 "functions": ["lib/ext2fs/blkmap64_rb.c:rb_get_bmap_range"],
 "assumes": ["BOUNDED stand-in, not counted as proved: the tree has 0..1 extents (sorted, disjoint, non-adjacent, count > 0) in every red-black shape of that size; wcursor/rcursor NULL or any node, rcursor_next NULL or the successor of rcursor (any node if rcursor is NULL)", "allocation does not fail: ext2fs.h is compiled with its own hook EXT2_CUSTOM_MEMORY_ROUTINES and ext2fs_get_mem/ext2fs_free_mem are the trivial malloc/free stubs of rb_common.h (typed pointer store instead of memcpy); malloc is __CPROVER_allocate, i.e. never NULL (rb_get_new_extent abort()s on failure anyway)", "bitmap->real_end - bitmap->start < 2^62", "BOUNDED: 1 <= num <= 17 (three-byte output buffer with arbitrary previous content; the bit/byte loop runs at most 14 times per extent: 7 single bits up to a byte boundary and 7 behind it, or 7 + one memset + 1)", "range inside [start, real_end]"],
 "backend": "minisat",
 "no_cross_check": true,
 "native": true,
 "cbmc_flags": ["--object-bits", "10"],
 "unwindset": {"ext2fs_rb_next.0": 2, "ext2fs_rb_next.1": 2, "rb_get_bmap_range.0": 2, "rb_get_bmap_range.1": 15, "rb_get_bmap_range.2": 3},
 "timeout": 1200
}
*/
/* VERIF-UNIT
{
 "name": "rb_get_bmap_range_b0",
 "props": ["C16"],
 "level": "B(0)",
 "tier": "quick",
 "harness": "h_rb_get_range",
 "defines": ["EXT2_CUSTOM_MEMORY_ROUTINES", "RB_N=0", "RB_NEW=0", "RB_BITS=62", "RB_RANGE_BITS=17"],
 "unwind": 6,
 "unwind_reason": "BOUNDED: a tree of at most 0 nodes has height <= 0, so every descent / successor / predecessor loop of blkmap64_rb.c and rbtree.c runs at most that often (+1 for the exit test), the neighbour loops at most once per node; rebalancing loops climb at most one level per round; harness loops have constant bounds <= 8 (global unwind 9). Every bound is confirmed by an unwinding assertion.",
 "sources": ["lib/ext2fs/rbtree.c", "lib/ext2fs/bitops.c"],
 "functions": ["lib/ext2fs/blkmap64_rb.c:rb_get_bmap_range"],
 "assumes": ["BOUNDED stand-in, not counted as proved: the tree has exactly 0 extents (sorted, disjoint, non-adjacent, count > 0) in every red-black shape of that size; wcursor/rcursor NULL or any node, rcursor_next NULL or the successor of rcursor (any node if rcursor is NULL)", "allocation does not fail: ext2fs.h is compiled with its own hook EXT2_CUSTOM_MEMORY_ROUTINES and ext2fs_get_mem/ext2fs_free_mem are the trivial malloc/free stubs of rb_common.h (typed pointer store instead of memcpy); malloc is __CPROVER_allocate, i.e. never NULL (rb_get_new_extent abort()s on failure anyway)", "bitmap->real_end - bitmap->start < 2^62", "BOUNDED: 1 <= num <= 17 (output buffer of 3 bytes with arbitrary previous content)", "range inside [start, real_end]"],
 "backend": "minisat",
 "no_cross_check": true,
 "native": true,
 "cbmc_flags": ["--object-bits", "10"],
 "unwindset": {"ext2fs_rb_next.0": 1, "ext2fs_rb_next.1": 1, "rb_get_bmap_range.0": 1, "rb_get_bmap_range.1": 15, "rb_get_bmap_range.2": 2},
 "timeout": 300
}
*/
/* VERIF-UNIT
{
 "name": "rb_get_bmap_range_b1_9bit",
 "props": ["C16"],
 "level": "B(1)",
 "tier": "thorough",
 "harness": "h_rb_get_range",
 "defines": ["EXT2_CUSTOM_MEMORY_ROUTINES", "RB_N=1", "RB_NSYM", "RB_NEW=0", "RB_BITS=62", "RB_RANGE_BITS=9"],
 "unwind": 6,
 "unwind_reason": "BOUNDED: a tree of at most 1 nodes has height <= 1, so every descent / successor / predecessor loop of blkmap64_rb.c and rbtree.c runs at most that often (+1 for the exit test), the neighbour loops at most once per node; rebalancing loops climb at most one level per round; harness loops have constant bounds <= 8 (global unwind 9). Every bound is confirmed by an unwinding assertion.",
 "sources": ["lib/ext2fs/rbtree.c", "lib/ext2fs/bitops.c"],
 "functions": ["lib/ext2fs/blkmap64_rb.c:rb_get_bmap_range"],
 "assumes": ["BOUNDED stand-in, not counted as proved: the tree has 0..1 extents (sorted, disjoint, non-adjacent, count > 0) in every red-black shape of that size; wcursor/rcursor NULL or any node, rcursor_next NULL or the successor of rcursor (any node if rcursor is NULL)", "allocation does not fail: ext2fs.h is compiled with its own hook EXT2_CUSTOM_MEMORY_ROUTINES and ext2fs_get_mem/ext2fs_free_mem are the trivial malloc/free stubs of rb_common.h (typed pointer store instead of memcpy); malloc is __CPROVER_allocate, i.e. never NULL (rb_get_new_extent abort()s on failure anyway)", "bitmap->real_end - bitmap->start < 2^62", "BOUNDED: 1 <= num <= 9 (output buffer of 2 bytes with arbitrary previous content)", "range inside [start, real_end]"],
 "backend": "minisat",
 "no_cross_check": true,
 "native": true,
 "cbmc_flags": ["--object-bits", "10"],
 "unwindset": {"ext2fs_rb_next.0": 2, "ext2fs_rb_next.1": 2, "rb_get_bmap_range.0": 2, "rb_get_bmap_range.1": 9, "rb_get_bmap_range.2": 3},
 "timeout": 1200
}
*/
/* VERIF-UNIT
{
 "name": "rb_insert_extent_keep_b2",
 "props": ["C16"],
 "level": "B(2)",
 "tier": "quick",
 "harness": "h_rb_insert",
 "defines": ["EXT2_CUSTOM_MEMORY_ROUTINES", "RB_N=2", "RB_NEW=0", "RB_BITS=16", "RB_SCEN=1"],
 "unwind": 9,
 "unwind_reason": "BOUNDED: a tree of at most 2 nodes has height <= 2, so every descent / successor / predecessor loop of blkmap64_rb.c and rbtree.c runs at most that often (+1 for the exit test), the neighbour loops at most once per node; rebalancing loops climb at most one level per round; harness loops have constant bounds <= 8 (global unwind 9). Every bound is confirmed by an unwinding assertion.",
 "sources": ["lib/ext2fs/rbtree.c"],
 "functions": ["lib/ext2fs/blkmap64_rb.c:rb_insert_extent", "lib/ext2fs/blkmap64_rb.c:rb_get_new_extent", "lib/ext2fs/blkmap64_rb.c:rb_free_extent", "lib/ext2fs/blkmap64_rb.c:rb_mark_bmap", "lib/ext2fs/blkmap64_rb.c:rb_mark_bmap_extent"],
 "assumes": ["BOUNDED stand-in, not counted as proved: the tree has exactly 2 extents (sorted, disjoint, non-adjacent, count > 0) in every red-black shape of that size; wcursor/rcursor NULL or any node, rcursor_next NULL or the successor of rcursor (any node if rcursor is NULL)", "allocation does not fail: ext2fs.h is compiled with its own hook EXT2_CUSTOM_MEMORY_ROUTINES and ext2fs_get_mem/ext2fs_free_mem are the trivial malloc/free stubs of rb_common.h (typed pointer store instead of memcpy); malloc is __CPROVER_allocate, i.e. never NULL (rb_get_new_extent abort()s on failure anyway)", "BOUNDED: bitmap->real_end - bitmap->start < 2^16 (offsets are 64-bit in the code and in the harness; the cap only narrows the values, chosen because the SAT proof of the ordering lemmas is the bottleneck)", "range inside [start, real_end], count >= 1; rb_insert_extent is called directly with offsets relative to bitmap->start (rb_mark_bmap / rb_mark_bmap_extent only subtract bitmap->start, see rb_wrappers)", "SCENARIO keep: the range starts inside or immediately behind an extent and neither reaches nor touches the next one (no new node, nothing erased); the four insert scenarios partition the input space", "ext2fs_rb_erase is NOT abstracted: its contract is REQUIRES(false); the obligation that no call is reachable in this scenario is checked at every call site", "ext2fs_rb_insert_color is NOT abstracted: its contract is REQUIRES(false); the obligation that no call is reachable in this scenario is checked at every call site"],
 "backend": "minisat",
 "no_cross_check": true,
 "native": true,
 "cbmc_flags": ["--object-bits", "10"],
 "unwindset": {"rb_insert_extent.0": 3, "rb_insert_extent.1": 2, "ext2fs_rb_next.0": 3, "ext2fs_rb_next.1": 3, "ext2fs_rb_prev.0": 3, "ext2fs_rb_prev.1": 3},
 "replace": ["ext2fs_rb_erase", "ext2fs_rb_insert_color"],
 "timeout": 300
}
*/
/* VERIF-UNIT
{
 "name": "rb_insert_extent_keep_b3",
 "props": ["C16"],
 "level": "B(3)",
 "tier": "thorough",
 "harness": "h_rb_insert",
 "defines": ["EXT2_CUSTOM_MEMORY_ROUTINES", "RB_N=3", "RB_NEW=0", "RB_BITS=16", "RB_SCEN=1"],
 "unwind": 9,
 "unwind_reason": "BOUNDED: a tree of at most 3 nodes has height <= 2, so every descent / successor / predecessor loop of blkmap64_rb.c and rbtree.c runs at most that often (+1 for the exit test), the neighbour loops at most once per node; rebalancing loops climb at most one level per round; harness loops have constant bounds <= 8 (global unwind 9). Every bound is confirmed by an unwinding assertion.",
 "sources": ["lib/ext2fs/rbtree.c"],
 "functions": ["lib/ext2fs/blkmap64_rb.c:rb_insert_extent", "lib/ext2fs/blkmap64_rb.c:rb_get_new_extent", "lib/ext2fs/blkmap64_rb.c:rb_free_extent", "lib/ext2fs/blkmap64_rb.c:rb_mark_bmap", "lib/ext2fs/blkmap64_rb.c:rb_mark_bmap_extent"],
 "assumes": ["BOUNDED stand-in, not counted as proved: the tree has exactly 3 extents (sorted, disjoint, non-adjacent, count > 0) in every red-black shape of that size; wcursor/rcursor NULL or any node, rcursor_next NULL or the successor of rcursor (any node if rcursor is NULL)", "allocation does not fail: ext2fs.h is compiled with its own hook EXT2_CUSTOM_MEMORY_ROUTINES and ext2fs_get_mem/ext2fs_free_mem are the trivial malloc/free stubs of rb_common.h (typed pointer store instead of memcpy); malloc is __CPROVER_allocate, i.e. never NULL (rb_get_new_extent abort()s on failure anyway)", "BOUNDED: bitmap->real_end - bitmap->start < 2^16 (offsets are 64-bit in the code and in the harness; the cap only narrows the values, chosen because the SAT proof of the ordering lemmas is the bottleneck)", "range inside [start, real_end], count >= 1; rb_insert_extent is called directly with offsets relative to bitmap->start (rb_mark_bmap / rb_mark_bmap_extent only subtract bitmap->start, see rb_wrappers)", "SCENARIO keep: the range starts inside or immediately behind an extent and neither reaches nor touches the next one (no new node, nothing erased); the four insert scenarios partition the input space", "ext2fs_rb_erase is NOT abstracted: its contract is REQUIRES(false); the obligation that no call is reachable in this scenario is checked at every call site", "ext2fs_rb_insert_color is NOT abstracted: its contract is REQUIRES(false); the obligation that no call is reachable in this scenario is checked at every call site"],
 "backend": "minisat",
 "no_cross_check": true,
 "native": true,
 "cbmc_flags": ["--object-bits", "10"],
 "unwindset": {"rb_insert_extent.0": 3, "rb_insert_extent.1": 2, "ext2fs_rb_next.0": 3, "ext2fs_rb_next.1": 3, "ext2fs_rb_prev.0": 3, "ext2fs_rb_prev.1": 3},
 "replace": ["ext2fs_rb_erase", "ext2fs_rb_insert_color"],
 "timeout": 1200
}
*/
/* VERIF-UNIT
{
 "name": "rb_insert_extent_keep_b4",
 "props": ["C16"],
 "level": "B(4)",
 "tier": "thorough",
 "harness": "h_rb_insert",
 "defines": ["EXT2_CUSTOM_MEMORY_ROUTINES", "RB_N=4", "RB_NEW=0", "RB_BITS=16", "RB_SCEN=1"],
 "unwind": 9,
 "unwind_reason": "BOUNDED: a tree of at most 4 nodes has height <= 3, so every descent / successor / predecessor loop of blkmap64_rb.c and rbtree.c runs at most that often (+1 for the exit test), the neighbour loops at most once per node; rebalancing loops climb at most one level per round; harness loops have constant bounds <= 8 (global unwind 9). Every bound is confirmed by an unwinding assertion.",
 "sources": ["lib/ext2fs/rbtree.c"],
 "functions": ["lib/ext2fs/blkmap64_rb.c:rb_insert_extent", "lib/ext2fs/blkmap64_rb.c:rb_get_new_extent", "lib/ext2fs/blkmap64_rb.c:rb_free_extent", "lib/ext2fs/blkmap64_rb.c:rb_mark_bmap", "lib/ext2fs/blkmap64_rb.c:rb_mark_bmap_extent"],
 "assumes": ["BOUNDED stand-in, not counted as proved: the tree has exactly 4 extents (sorted, disjoint, non-adjacent, count > 0) in every red-black shape of that size; wcursor/rcursor NULL or any node, rcursor_next NULL or the successor of rcursor (any node if rcursor is NULL)", "allocation does not fail: ext2fs.h is compiled with its own hook EXT2_CUSTOM_MEMORY_ROUTINES and ext2fs_get_mem/ext2fs_free_mem are the trivial malloc/free stubs of rb_common.h (typed pointer store instead of memcpy); malloc is __CPROVER_allocate, i.e. never NULL (rb_get_new_extent abort()s on failure anyway)", "BOUNDED: bitmap->real_end - bitmap->start < 2^16 (offsets are 64-bit in the code and in the harness; the cap only narrows the values, chosen because the SAT proof of the ordering lemmas is the bottleneck)", "range inside [start, real_end], count >= 1; rb_insert_extent is called directly with offsets relative to bitmap->start (rb_mark_bmap / rb_mark_bmap_extent only subtract bitmap->start, see rb_wrappers)", "SCENARIO keep: the range starts inside or immediately behind an extent and neither reaches nor touches the next one (no new node, nothing erased); the four insert scenarios partition the input space", "ext2fs_rb_erase is NOT abstracted: its contract is REQUIRES(false); the obligation that no call is reachable in this scenario is checked at every call site", "ext2fs_rb_insert_color is NOT abstracted: its contract is REQUIRES(false); the obligation that no call is reachable in this scenario is checked at every call site"],
 "backend": "minisat",
 "no_cross_check": true,
 "native": true,
 "cbmc_flags": ["--object-bits", "10"],
 "unwindset": {"rb_insert_extent.0": 4, "rb_insert_extent.1": 2, "ext2fs_rb_next.0": 4, "ext2fs_rb_next.1": 4, "ext2fs_rb_prev.0": 4, "ext2fs_rb_prev.1": 4},
 "replace": ["ext2fs_rb_erase", "ext2fs_rb_insert_color"],
 "timeout": 1200
}
*/
/* VERIF-UNIT
{
 "name": "rb_insert_extent_new_b1",
 "props": ["C16"],
 "level": "B(1)",
 "tier": "quick",
 "harness": "h_rb_insert",
 "defines": ["EXT2_CUSTOM_MEMORY_ROUTINES", "RB_N=1", "RB_NEW=1", "RB_BITS=16", "RB_SCEN=2"],
 "unwind": 9,
 "unwind_reason": "BOUNDED: a tree of at most 2 nodes has height <= 2, so every descent / successor / predecessor loop of blkmap64_rb.c and rbtree.c runs at most that often (+1 for the exit test), the neighbour loops at most once per node; rebalancing loops climb at most one level per round; harness loops have constant bounds <= 8 (global unwind 9). Every bound is confirmed by an unwinding assertion.",
 "sources": ["lib/ext2fs/rbtree.c"],
 "functions": ["lib/ext2fs/blkmap64_rb.c:rb_insert_extent", "lib/ext2fs/blkmap64_rb.c:rb_get_new_extent", "lib/ext2fs/blkmap64_rb.c:rb_free_extent", "lib/ext2fs/blkmap64_rb.c:rb_mark_bmap", "lib/ext2fs/blkmap64_rb.c:rb_mark_bmap_extent"],
 "assumes": ["BOUNDED stand-in, not counted as proved: the tree has exactly 1 extents (sorted, disjoint, non-adjacent, count > 0) in every red-black shape of that size; wcursor/rcursor NULL or any node, rcursor_next NULL or the successor of rcursor (any node if rcursor is NULL)", "allocation does not fail: ext2fs.h is compiled with its own hook EXT2_CUSTOM_MEMORY_ROUTINES and ext2fs_get_mem/ext2fs_free_mem are the trivial malloc/free stubs of rb_common.h (typed pointer store instead of memcpy); malloc is __CPROVER_allocate, i.e. never NULL (rb_get_new_extent abort()s on failure anyway)", "BOUNDED: bitmap->real_end - bitmap->start < 2^16 (offsets are 64-bit in the code and in the harness; the cap only narrows the values, chosen because the SAT proof of the ordering lemmas is the bottleneck)", "range inside [start, real_end], count >= 1; rb_insert_extent is called directly with offsets relative to bitmap->start (rb_mark_bmap / rb_mark_bmap_extent only subtract bitmap->start, see rb_wrappers)", "SCENARIO new: the range neither starts in/behind an extent nor reaches/touches a later one (a new node, nothing erased); the four insert scenarios partition the input space", "ext2fs_rb_erase is NOT abstracted: its contract is REQUIRES(false); the obligation that no call is reachable in this scenario is checked at every call site"],
 "backend": "minisat",
 "no_cross_check": true,
 "native": true,
 "cbmc_flags": ["--object-bits", "10"],
 "unwindset": {"rb_insert_extent.0": 2, "rb_insert_extent.1": 2, "ext2fs_rb_next.0": 3, "ext2fs_rb_next.1": 3, "ext2fs_rb_prev.0": 3, "ext2fs_rb_prev.1": 3, "ext2fs_rb_insert_color.0": 1},
 "replace": ["ext2fs_rb_erase"],
 "timeout": 300
}
*/
/* VERIF-UNIT
{
 "name": "rb_insert_extent_new_b2",
 "props": ["C16"],
 "level": "B(2)",
 "tier": "quick",
 "harness": "h_rb_insert",
 "defines": ["EXT2_CUSTOM_MEMORY_ROUTINES", "RB_N=2", "RB_NEW=1", "RB_BITS=16", "RB_SCEN=2"],
 "unwind": 9,
 "unwind_reason": "BOUNDED: a tree of at most 3 nodes has height <= 2, so every descent / successor / predecessor loop of blkmap64_rb.c and rbtree.c runs at most that often (+1 for the exit test), the neighbour loops at most once per node; rebalancing loops climb at most one level per round; harness loops have constant bounds <= 8 (global unwind 9). Every bound is confirmed by an unwinding assertion.",
 "sources": ["lib/ext2fs/rbtree.c"],
 "functions": ["lib/ext2fs/blkmap64_rb.c:rb_insert_extent", "lib/ext2fs/blkmap64_rb.c:rb_get_new_extent", "lib/ext2fs/blkmap64_rb.c:rb_free_extent", "lib/ext2fs/blkmap64_rb.c:rb_mark_bmap", "lib/ext2fs/blkmap64_rb.c:rb_mark_bmap_extent"],
 "assumes": ["BOUNDED stand-in, not counted as proved: the tree has exactly 2 extents (sorted, disjoint, non-adjacent, count > 0) in every red-black shape of that size; wcursor/rcursor NULL or any node, rcursor_next NULL or the successor of rcursor (any node if rcursor is NULL)", "allocation does not fail: ext2fs.h is compiled with its own hook EXT2_CUSTOM_MEMORY_ROUTINES and ext2fs_get_mem/ext2fs_free_mem are the trivial malloc/free stubs of rb_common.h (typed pointer store instead of memcpy); malloc is __CPROVER_allocate, i.e. never NULL (rb_get_new_extent abort()s on failure anyway)", "BOUNDED: bitmap->real_end - bitmap->start < 2^16 (offsets are 64-bit in the code and in the harness; the cap only narrows the values, chosen because the SAT proof of the ordering lemmas is the bottleneck)", "range inside [start, real_end], count >= 1; rb_insert_extent is called directly with offsets relative to bitmap->start (rb_mark_bmap / rb_mark_bmap_extent only subtract bitmap->start, see rb_wrappers)", "SCENARIO new: the range neither starts in/behind an extent nor reaches/touches a later one (a new node, nothing erased); the four insert scenarios partition the input space", "ext2fs_rb_erase is NOT abstracted: its contract is REQUIRES(false); the obligation that no call is reachable in this scenario is checked at every call site"],
 "backend": "minisat",
 "no_cross_check": true,
 "native": true,
 "cbmc_flags": ["--object-bits", "10"],
 "unwindset": {"rb_insert_extent.0": 3, "rb_insert_extent.1": 2, "ext2fs_rb_next.0": 3, "ext2fs_rb_next.1": 3, "ext2fs_rb_prev.0": 3, "ext2fs_rb_prev.1": 3, "ext2fs_rb_insert_color.0": 2},
 "replace": ["ext2fs_rb_erase"],
 "timeout": 300
}
*/
/* VERIF-UNIT
{
 "name": "rb_insert_extent_new_b3",
 "props": ["C16"],
 "level": "B(3)",
 "tier": "thorough",
 "harness": "h_rb_insert",
 "defines": ["EXT2_CUSTOM_MEMORY_ROUTINES", "RB_N=3", "RB_NEW=1", "RB_BITS=16", "RB_SCEN=2"],
 "unwind": 9,
 "unwind_reason": "BOUNDED: a tree of at most 4 nodes has height <= 3, so every descent / successor / predecessor loop of blkmap64_rb.c and rbtree.c runs at most that often (+1 for the exit test), the neighbour loops at most once per node; rebalancing loops climb at most one level per round; harness loops have constant bounds <= 8 (global unwind 9). Every bound is confirmed by an unwinding assertion.",
 "sources": ["lib/ext2fs/rbtree.c"],
 "functions": ["lib/ext2fs/blkmap64_rb.c:rb_insert_extent", "lib/ext2fs/blkmap64_rb.c:rb_get_new_extent", "lib/ext2fs/blkmap64_rb.c:rb_free_extent", "lib/ext2fs/blkmap64_rb.c:rb_mark_bmap", "lib/ext2fs/blkmap64_rb.c:rb_mark_bmap_extent"],
 "assumes": ["BOUNDED stand-in, not counted as proved: the tree has exactly 3 extents (sorted, disjoint, non-adjacent, count > 0) in every red-black shape of that size; wcursor/rcursor NULL or any node, rcursor_next NULL or the successor of rcursor (any node if rcursor is NULL)", "allocation does not fail: ext2fs.h is compiled with its own hook EXT2_CUSTOM_MEMORY_ROUTINES and ext2fs_get_mem/ext2fs_free_mem are the trivial malloc/free stubs of rb_common.h (typed pointer store instead of memcpy); malloc is __CPROVER_allocate, i.e. never NULL (rb_get_new_extent abort()s on failure anyway)", "BOUNDED: bitmap->real_end - bitmap->start < 2^16 (offsets are 64-bit in the code and in the harness; the cap only narrows the values, chosen because the SAT proof of the ordering lemmas is the bottleneck)", "range inside [start, real_end], count >= 1; rb_insert_extent is called directly with offsets relative to bitmap->start (rb_mark_bmap / rb_mark_bmap_extent only subtract bitmap->start, see rb_wrappers)", "SCENARIO new: the range neither starts in/behind an extent nor reaches/touches a later one (a new node, nothing erased); the four insert scenarios partition the input space", "ext2fs_rb_erase is NOT abstracted: its contract is REQUIRES(false); the obligation that no call is reachable in this scenario is checked at every call site"],
 "backend": "minisat",
 "no_cross_check": true,
 "native": true,
 "cbmc_flags": ["--object-bits", "10"],
 "unwindset": {"rb_insert_extent.0": 3, "rb_insert_extent.1": 2, "ext2fs_rb_next.0": 4, "ext2fs_rb_next.1": 4, "ext2fs_rb_prev.0": 4, "ext2fs_rb_prev.1": 4, "ext2fs_rb_insert_color.0": 2},
 "replace": ["ext2fs_rb_erase"],
 "timeout": 1200
}
*/
/* VERIF-UNIT
{
 "name": "rb_insert_extent_merge_b2",
 "props": ["C16"],
 "level": "B(2)",
 "tier": "thorough",
 "harness": "h_rb_insert",
 "defines": ["EXT2_CUSTOM_MEMORY_ROUTINES", "RB_N=2", "RB_NEW=0", "RB_BITS=16", "RB_SCEN=3"],
 "unwind": 9,
 "unwind_reason": "BOUNDED: a tree of at most 2 nodes has height <= 2, so every descent / successor / predecessor loop of blkmap64_rb.c and rbtree.c runs at most that often (+1 for the exit test), the neighbour loops at most once per node; rebalancing loops climb at most one level per round; harness loops have constant bounds <= 8 (global unwind 9). Every bound is confirmed by an unwinding assertion.",
 "sources": ["lib/ext2fs/rbtree.c"],
 "functions": ["lib/ext2fs/blkmap64_rb.c:rb_insert_extent", "lib/ext2fs/blkmap64_rb.c:rb_get_new_extent", "lib/ext2fs/blkmap64_rb.c:rb_free_extent", "lib/ext2fs/blkmap64_rb.c:rb_mark_bmap", "lib/ext2fs/blkmap64_rb.c:rb_mark_bmap_extent"],
 "assumes": ["BOUNDED stand-in, not counted as proved: the tree has exactly 2 extents (sorted, disjoint, non-adjacent, count > 0) in every red-black shape of that size; wcursor/rcursor NULL or any node, rcursor_next NULL or the successor of rcursor (any node if rcursor is NULL)", "allocation does not fail: ext2fs.h is compiled with its own hook EXT2_CUSTOM_MEMORY_ROUTINES and ext2fs_get_mem/ext2fs_free_mem are the trivial malloc/free stubs of rb_common.h (typed pointer store instead of memcpy); malloc is __CPROVER_allocate, i.e. never NULL (rb_get_new_extent abort()s on failure anyway)", "BOUNDED: bitmap->real_end - bitmap->start < 2^16 (offsets are 64-bit in the code and in the harness; the cap only narrows the values, chosen because the SAT proof of the ordering lemmas is the bottleneck)", "range inside [start, real_end], count >= 1; rb_insert_extent is called directly with offsets relative to bitmap->start (rb_mark_bmap / rb_mark_bmap_extent only subtract bitmap->start, see rb_wrappers)", "SCENARIO merge: the range starts inside or immediately behind an extent and reaches or touches at least one later extent (erase, no new node); the four insert scenarios partition the input space", "ext2fs_rb_insert_color is NOT abstracted: its contract is REQUIRES(false); the obligation that no call is reachable in this scenario is checked at every call site"],
 "backend": "minisat",
 "no_cross_check": true,
 "native": true,
 "cbmc_flags": ["--object-bits", "10"],
 "unwindset": {"rb_insert_extent.0": 3, "rb_insert_extent.1": 2, "ext2fs_rb_next.0": 3, "ext2fs_rb_next.1": 3, "ext2fs_rb_prev.0": 3, "ext2fs_rb_prev.1": 3, "ext2fs_rb_erase.0": 1, "__rb_erase_color.0": 1},
 "replace": ["ext2fs_rb_insert_color"],
 "timeout": 1200
}
*/
/* VERIF-UNIT
{
 "name": "rb_insert_extent_newmerge_b1",
 "props": ["C16"],
 "level": "B(1)",
 "tier": "thorough",
 "harness": "h_rb_insert",
 "defines": ["EXT2_CUSTOM_MEMORY_ROUTINES", "RB_N=1", "RB_NEW=1", "RB_BITS=16", "RB_SCEN=4"],
 "unwind": 9,
 "unwind_reason": "BOUNDED: a tree of at most 2 nodes has height <= 2, so every descent / successor / predecessor loop of blkmap64_rb.c and rbtree.c runs at most that often (+1 for the exit test), the neighbour loops at most once per node; rebalancing loops climb at most one level per round; harness loops have constant bounds <= 8 (global unwind 9). Every bound is confirmed by an unwinding assertion.",
 "sources": ["lib/ext2fs/rbtree.c"],
 "functions": ["lib/ext2fs/blkmap64_rb.c:rb_insert_extent", "lib/ext2fs/blkmap64_rb.c:rb_get_new_extent", "lib/ext2fs/blkmap64_rb.c:rb_free_extent", "lib/ext2fs/blkmap64_rb.c:rb_mark_bmap", "lib/ext2fs/blkmap64_rb.c:rb_mark_bmap_extent"],
 "assumes": ["BOUNDED stand-in, not counted as proved: the tree has exactly 1 extents (sorted, disjoint, non-adjacent, count > 0) in every red-black shape of that size; wcursor/rcursor NULL or any node, rcursor_next NULL or the successor of rcursor (any node if rcursor is NULL)", "allocation does not fail: ext2fs.h is compiled with its own hook EXT2_CUSTOM_MEMORY_ROUTINES and ext2fs_get_mem/ext2fs_free_mem are the trivial malloc/free stubs of rb_common.h (typed pointer store instead of memcpy); malloc is __CPROVER_allocate, i.e. never NULL (rb_get_new_extent abort()s on failure anyway)", "BOUNDED: bitmap->real_end - bitmap->start < 2^16 (offsets are 64-bit in the code and in the harness; the cap only narrows the values, chosen because the SAT proof of the ordering lemmas is the bottleneck)", "range inside [start, real_end], count >= 1; rb_insert_extent is called directly with offsets relative to bitmap->start (rb_mark_bmap / rb_mark_bmap_extent only subtract bitmap->start, see rb_wrappers)", "SCENARIO newmerge: the range does not start in/behind an extent but reaches or touches at least one later extent (new node and erase); the four insert scenarios partition the input space"],
 "backend": "minisat",
 "no_cross_check": true,
 "native": true,
 "cbmc_flags": ["--object-bits", "10"],
 "unwindset": {"rb_insert_extent.0": 2, "rb_insert_extent.1": 2, "ext2fs_rb_next.0": 3, "ext2fs_rb_next.1": 3, "ext2fs_rb_prev.0": 3, "ext2fs_rb_prev.1": 3, "ext2fs_rb_erase.0": 1, "__rb_erase_color.0": 1, "ext2fs_rb_insert_color.0": 1},
 "timeout": 1200
}
*/
/* VERIF-UNIT
{
 "name": "rb_remove_extent_trunc_b1",
 "props": ["C16"],
 "level": "B(1)",
 "tier": "quick",
 "harness": "h_rb_remove",
 "defines": ["EXT2_CUSTOM_MEMORY_ROUTINES", "RB_N=1", "RB_NEW=0", "RB_BITS=16", "RB_SCEN=1"],
 "unwind": 9,
 "unwind_reason": "BOUNDED: a tree of at most 1 nodes has height <= 1, so every descent / successor / predecessor loop of blkmap64_rb.c and rbtree.c runs at most that often (+1 for the exit test), the neighbour loops at most once per node; rebalancing loops climb at most one level per round; harness loops have constant bounds <= 8 (global unwind 9). Every bound is confirmed by an unwinding assertion.",
 "sources": ["lib/ext2fs/rbtree.c"],
 "functions": ["lib/ext2fs/blkmap64_rb.c:rb_remove_extent", "lib/ext2fs/blkmap64_rb.c:rb_free_extent", "lib/ext2fs/blkmap64_rb.c:rb_unmark_bmap", "lib/ext2fs/blkmap64_rb.c:rb_unmark_bmap_extent"],
 "assumes": ["BOUNDED stand-in, not counted as proved: the tree has exactly 1 extents (sorted, disjoint, non-adjacent, count > 0) in every red-black shape of that size; wcursor/rcursor NULL or any node, rcursor_next NULL or the successor of rcursor (any node if rcursor is NULL)", "allocation does not fail: ext2fs.h is compiled with its own hook EXT2_CUSTOM_MEMORY_ROUTINES and ext2fs_get_mem/ext2fs_free_mem are the trivial malloc/free stubs of rb_common.h (typed pointer store instead of memcpy); malloc is __CPROVER_allocate, i.e. never NULL (rb_get_new_extent abort()s on failure anyway)", "BOUNDED: bitmap->real_end - bitmap->start < 2^16 (offsets are 64-bit in the code and in the harness; the cap only narrows the values, chosen because the SAT proof of the ordering lemmas is the bottleneck)", "range inside [start, real_end], count >= 1; rb_remove_extent is called directly with offsets relative to bitmap->start (rb_unmark_bmap / rb_unmark_bmap_extent only subtract bitmap->start, see rb_wrappers)", "SCENARIO trunc: no extent lies entirely inside the range and the range does not lie strictly inside an extent (extents are only shortened: tail, head, prefix, suffix; structure unchanged); the three remove scenarios partition the input space", "ext2fs_rb_erase is NOT abstracted: its contract is REQUIRES(false); the obligation that no call is reachable in this scenario is checked at every call site", "rb_insert_extent is NOT abstracted: its contract is REQUIRES(false); the obligation that no call is reachable in this scenario is checked at every call site"],
 "backend": "minisat",
 "no_cross_check": true,
 "native": true,
 "cbmc_flags": ["--object-bits", "10"],
 "unwindset": {"rb_remove_extent.0": 3, "rb_remove_extent.1": 3, "ext2fs_rb_next.0": 2, "ext2fs_rb_next.1": 2},
 "replace": ["ext2fs_rb_erase", "rb_insert_extent"],
 "timeout": 300
}
*/
/* VERIF-UNIT
{
 "name": "rb_remove_extent_trunc_b2",
 "props": ["C16"],
 "level": "B(2)",
 "tier": "thorough",
 "harness": "h_rb_remove",
 "defines": ["EXT2_CUSTOM_MEMORY_ROUTINES", "RB_N=2", "RB_NEW=0", "RB_BITS=16", "RB_SCEN=1"],
 "unwind": 9,
 "unwind_reason": "BOUNDED: a tree of at most 2 nodes has height <= 2, so every descent / successor / predecessor loop of blkmap64_rb.c and rbtree.c runs at most that often (+1 for the exit test), the neighbour loops at most once per node; rebalancing loops climb at most one level per round; harness loops have constant bounds <= 8 (global unwind 9). Every bound is confirmed by an unwinding assertion.",
 "sources": ["lib/ext2fs/rbtree.c"],
 "functions": ["lib/ext2fs/blkmap64_rb.c:rb_remove_extent", "lib/ext2fs/blkmap64_rb.c:rb_free_extent", "lib/ext2fs/blkmap64_rb.c:rb_unmark_bmap", "lib/ext2fs/blkmap64_rb.c:rb_unmark_bmap_extent"],
 "assumes": ["BOUNDED stand-in, not counted as proved: the tree has exactly 2 extents (sorted, disjoint, non-adjacent, count > 0) in every red-black shape of that size; wcursor/rcursor NULL or any node, rcursor_next NULL or the successor of rcursor (any node if rcursor is NULL)", "allocation does not fail: ext2fs.h is compiled with its own hook EXT2_CUSTOM_MEMORY_ROUTINES and ext2fs_get_mem/ext2fs_free_mem are the trivial malloc/free stubs of rb_common.h (typed pointer store instead of memcpy); malloc is __CPROVER_allocate, i.e. never NULL (rb_get_new_extent abort()s on failure anyway)", "BOUNDED: bitmap->real_end - bitmap->start < 2^16 (offsets are 64-bit in the code and in the harness; the cap only narrows the values, chosen because the SAT proof of the ordering lemmas is the bottleneck)", "range inside [start, real_end], count >= 1; rb_remove_extent is called directly with offsets relative to bitmap->start (rb_unmark_bmap / rb_unmark_bmap_extent only subtract bitmap->start, see rb_wrappers)", "SCENARIO trunc: no extent lies entirely inside the range and the range does not lie strictly inside an extent (extents are only shortened: tail, head, prefix, suffix; structure unchanged); the three remove scenarios partition the input space", "ext2fs_rb_erase is NOT abstracted: its contract is REQUIRES(false); the obligation that no call is reachable in this scenario is checked at every call site", "rb_insert_extent is NOT abstracted: its contract is REQUIRES(false); the obligation that no call is reachable in this scenario is checked at every call site"],
 "backend": "minisat",
 "no_cross_check": true,
 "native": true,
 "cbmc_flags": ["--object-bits", "10"],
 "unwindset": {"rb_remove_extent.0": 4, "rb_remove_extent.1": 4, "ext2fs_rb_next.0": 3, "ext2fs_rb_next.1": 3},
 "replace": ["ext2fs_rb_erase", "rb_insert_extent"],
 "timeout": 1200
}
*/
/* VERIF-UNIT
{
 "name": "rb_remove_extent_trunc_b3",
 "props": ["C16"],
 "level": "B(3)",
 "tier": "thorough",
 "harness": "h_rb_remove",
 "defines": ["EXT2_CUSTOM_MEMORY_ROUTINES", "RB_N=3", "RB_NEW=0", "RB_BITS=16", "RB_SCEN=1"],
 "unwind": 9,
 "unwind_reason": "BOUNDED: a tree of at most 3 nodes has height <= 2, so every descent / successor / predecessor loop of blkmap64_rb.c and rbtree.c runs at most that often (+1 for the exit test), the neighbour loops at most once per node; rebalancing loops climb at most one level per round; harness loops have constant bounds <= 8 (global unwind 9). Every bound is confirmed by an unwinding assertion.",
 "sources": ["lib/ext2fs/rbtree.c"],
 "functions": ["lib/ext2fs/blkmap64_rb.c:rb_remove_extent", "lib/ext2fs/blkmap64_rb.c:rb_free_extent", "lib/ext2fs/blkmap64_rb.c:rb_unmark_bmap", "lib/ext2fs/blkmap64_rb.c:rb_unmark_bmap_extent"],
 "assumes": ["BOUNDED stand-in, not counted as proved: the tree has exactly 3 extents (sorted, disjoint, non-adjacent, count > 0) in every red-black shape of that size; wcursor/rcursor NULL or any node, rcursor_next NULL or the successor of rcursor (any node if rcursor is NULL)", "allocation does not fail: ext2fs.h is compiled with its own hook EXT2_CUSTOM_MEMORY_ROUTINES and ext2fs_get_mem/ext2fs_free_mem are the trivial malloc/free stubs of rb_common.h (typed pointer store instead of memcpy); malloc is __CPROVER_allocate, i.e. never NULL (rb_get_new_extent abort()s on failure anyway)", "BOUNDED: bitmap->real_end - bitmap->start < 2^16 (offsets are 64-bit in the code and in the harness; the cap only narrows the values, chosen because the SAT proof of the ordering lemmas is the bottleneck)", "range inside [start, real_end], count >= 1; rb_remove_extent is called directly with offsets relative to bitmap->start (rb_unmark_bmap / rb_unmark_bmap_extent only subtract bitmap->start, see rb_wrappers)", "SCENARIO trunc: no extent lies entirely inside the range and the range does not lie strictly inside an extent (extents are only shortened: tail, head, prefix, suffix; structure unchanged); the three remove scenarios partition the input space", "ext2fs_rb_erase is NOT abstracted: its contract is REQUIRES(false); the obligation that no call is reachable in this scenario is checked at every call site", "rb_insert_extent is NOT abstracted: its contract is REQUIRES(false); the obligation that no call is reachable in this scenario is checked at every call site"],
 "backend": "minisat",
 "no_cross_check": true,
 "native": true,
 "cbmc_flags": ["--object-bits", "10"],
 "unwindset": {"rb_remove_extent.0": 4, "rb_remove_extent.1": 5, "ext2fs_rb_next.0": 3, "ext2fs_rb_next.1": 3},
 "replace": ["ext2fs_rb_erase", "rb_insert_extent"],
 "timeout": 1200
}
*/
/* VERIF-UNIT
{
 "name": "rb_remove_extent_split_b1",
 "props": ["C16"],
 "level": "B(1)",
 "tier": "quick",
 "harness": "h_rb_remove",
 "defines": ["EXT2_CUSTOM_MEMORY_ROUTINES", "RB_N=1", "RB_NEW=1", "RB_BITS=16", "RB_SCEN=2"],
 "unwind": 9,
 "unwind_reason": "BOUNDED: a tree of at most 2 nodes has height <= 2, so every descent / successor / predecessor loop of blkmap64_rb.c and rbtree.c runs at most that often (+1 for the exit test), the neighbour loops at most once per node; rebalancing loops climb at most one level per round; harness loops have constant bounds <= 8 (global unwind 9). Every bound is confirmed by an unwinding assertion.",
 "sources": ["lib/ext2fs/rbtree.c"],
 "functions": ["lib/ext2fs/blkmap64_rb.c:rb_remove_extent", "lib/ext2fs/blkmap64_rb.c:rb_free_extent", "lib/ext2fs/blkmap64_rb.c:rb_unmark_bmap", "lib/ext2fs/blkmap64_rb.c:rb_unmark_bmap_extent", "lib/ext2fs/blkmap64_rb.c:rb_insert_extent"],
 "assumes": ["BOUNDED stand-in, not counted as proved: the tree has exactly 1 extents (sorted, disjoint, non-adjacent, count > 0) in every red-black shape of that size; wcursor/rcursor NULL or any node, rcursor_next NULL or the successor of rcursor (any node if rcursor is NULL)", "allocation does not fail: ext2fs.h is compiled with its own hook EXT2_CUSTOM_MEMORY_ROUTINES and ext2fs_get_mem/ext2fs_free_mem are the trivial malloc/free stubs of rb_common.h (typed pointer store instead of memcpy); malloc is __CPROVER_allocate, i.e. never NULL (rb_get_new_extent abort()s on failure anyway)", "BOUNDED: bitmap->real_end - bitmap->start < 2^16 (offsets are 64-bit in the code and in the harness; the cap only narrows the values, chosen because the SAT proof of the ordering lemmas is the bottleneck)", "range inside [start, real_end], count >= 1; rb_remove_extent is called directly with offsets relative to bitmap->start (rb_unmark_bmap / rb_unmark_bmap_extent only subtract bitmap->start, see rb_wrappers)", "SCENARIO split: the range lies strictly inside one extent (rb_insert_extent creates the second half; nothing erased); the three remove scenarios partition the input space", "ext2fs_rb_erase is NOT abstracted: its contract is REQUIRES(false); the obligation that no call is reachable in this scenario is checked at every call site"],
 "backend": "minisat",
 "no_cross_check": true,
 "native": true,
 "cbmc_flags": ["--object-bits", "10"],
 "unwindset": {"rb_remove_extent.0": 2, "rb_remove_extent.1": 1, "rb_insert_extent.0": 2, "rb_insert_extent.1": 2, "ext2fs_rb_next.0": 3, "ext2fs_rb_next.1": 3, "ext2fs_rb_prev.0": 3, "ext2fs_rb_prev.1": 3, "ext2fs_rb_insert_color.0": 1},
 "replace": ["ext2fs_rb_erase"],
 "timeout": 300
}
*/
/* VERIF-UNIT
{
 "name": "rb_remove_extent_split_b2",
 "props": ["C16"],
 "level": "B(2)",
 "tier": "thorough",
 "harness": "h_rb_remove",
 "defines": ["EXT2_CUSTOM_MEMORY_ROUTINES", "RB_N=2", "RB_NEW=1", "RB_BITS=16", "RB_SCEN=2"],
 "unwind": 9,
 "unwind_reason": "BOUNDED: a tree of at most 3 nodes has height <= 2, so every descent / successor / predecessor loop of blkmap64_rb.c and rbtree.c runs at most that often (+1 for the exit test), the neighbour loops at most once per node; rebalancing loops climb at most one level per round; harness loops have constant bounds <= 8 (global unwind 9). Every bound is confirmed by an unwinding assertion.",
 "sources": ["lib/ext2fs/rbtree.c"],
 "functions": ["lib/ext2fs/blkmap64_rb.c:rb_remove_extent", "lib/ext2fs/blkmap64_rb.c:rb_free_extent", "lib/ext2fs/blkmap64_rb.c:rb_unmark_bmap", "lib/ext2fs/blkmap64_rb.c:rb_unmark_bmap_extent", "lib/ext2fs/blkmap64_rb.c:rb_insert_extent"],
 "assumes": ["BOUNDED stand-in, not counted as proved: the tree has exactly 2 extents (sorted, disjoint, non-adjacent, count > 0) in every red-black shape of that size; wcursor/rcursor NULL or any node, rcursor_next NULL or the successor of rcursor (any node if rcursor is NULL)", "allocation does not fail: ext2fs.h is compiled with its own hook EXT2_CUSTOM_MEMORY_ROUTINES and ext2fs_get_mem/ext2fs_free_mem are the trivial malloc/free stubs of rb_common.h (typed pointer store instead of memcpy); malloc is __CPROVER_allocate, i.e. never NULL (rb_get_new_extent abort()s on failure anyway)", "BOUNDED: bitmap->real_end - bitmap->start < 2^16 (offsets are 64-bit in the code and in the harness; the cap only narrows the values, chosen because the SAT proof of the ordering lemmas is the bottleneck)", "range inside [start, real_end], count >= 1; rb_remove_extent is called directly with offsets relative to bitmap->start (rb_unmark_bmap / rb_unmark_bmap_extent only subtract bitmap->start, see rb_wrappers)", "SCENARIO split: the range lies strictly inside one extent (rb_insert_extent creates the second half; nothing erased); the three remove scenarios partition the input space", "ext2fs_rb_erase is NOT abstracted: its contract is REQUIRES(false); the obligation that no call is reachable in this scenario is checked at every call site"],
 "backend": "minisat",
 "no_cross_check": true,
 "native": true,
 "cbmc_flags": ["--object-bits", "10"],
 "unwindset": {"rb_remove_extent.0": 3, "rb_remove_extent.1": 1, "rb_insert_extent.0": 3, "rb_insert_extent.1": 2, "ext2fs_rb_next.0": 3, "ext2fs_rb_next.1": 3, "ext2fs_rb_prev.0": 3, "ext2fs_rb_prev.1": 3, "ext2fs_rb_insert_color.0": 2},
 "replace": ["ext2fs_rb_erase"],
 "timeout": 1200
}
*/
/* VERIF-UNIT
{
 "name": "rb_remove_extent_delete_b1",
 "props": ["C16"],
 "level": "B(1)",
 "tier": "quick",
 "harness": "h_rb_remove",
 "defines": ["EXT2_CUSTOM_MEMORY_ROUTINES", "RB_N=1", "RB_NEW=0", "RB_BITS=16", "RB_SCEN=3"],
 "unwind": 9,
 "unwind_reason": "BOUNDED: a tree of at most 1 nodes has height <= 1, so every descent / successor / predecessor loop of blkmap64_rb.c and rbtree.c runs at most that often (+1 for the exit test), the neighbour loops at most once per node; rebalancing loops climb at most one level per round; harness loops have constant bounds <= 8 (global unwind 9). Every bound is confirmed by an unwinding assertion.",
 "sources": ["lib/ext2fs/rbtree.c"],
 "functions": ["lib/ext2fs/blkmap64_rb.c:rb_remove_extent", "lib/ext2fs/blkmap64_rb.c:rb_free_extent", "lib/ext2fs/blkmap64_rb.c:rb_unmark_bmap", "lib/ext2fs/blkmap64_rb.c:rb_unmark_bmap_extent"],
 "assumes": ["BOUNDED stand-in, not counted as proved: the tree has exactly 1 extents (sorted, disjoint, non-adjacent, count > 0) in every red-black shape of that size; wcursor/rcursor NULL or any node, rcursor_next NULL or the successor of rcursor (any node if rcursor is NULL)", "allocation does not fail: ext2fs.h is compiled with its own hook EXT2_CUSTOM_MEMORY_ROUTINES and ext2fs_get_mem/ext2fs_free_mem are the trivial malloc/free stubs of rb_common.h (typed pointer store instead of memcpy); malloc is __CPROVER_allocate, i.e. never NULL (rb_get_new_extent abort()s on failure anyway)", "BOUNDED: bitmap->real_end - bitmap->start < 2^16 (offsets are 64-bit in the code and in the harness; the cap only narrows the values, chosen because the SAT proof of the ordering lemmas is the bottleneck)", "range inside [start, real_end], count >= 1; rb_remove_extent is called directly with offsets relative to bitmap->start (rb_unmark_bmap / rb_unmark_bmap_extent only subtract bitmap->start, see rb_wrappers)", "SCENARIO delete: at least one extent lies entirely inside the range (erase; rb_insert_extent unreachable); the three remove scenarios partition the input space", "rb_insert_extent is NOT abstracted: its contract is REQUIRES(false); the obligation that no call is reachable in this scenario is checked at every call site"],
 "backend": "minisat",
 "no_cross_check": true,
 "native": true,
 "cbmc_flags": ["--object-bits", "10"],
 "unwindset": {"rb_remove_extent.0": 3, "rb_remove_extent.1": 3, "ext2fs_rb_next.0": 2, "ext2fs_rb_next.1": 2, "ext2fs_rb_erase.0": 1, "__rb_erase_color.0": 1},
 "replace": ["rb_insert_extent"],
 "timeout": 300
}
*/
/* VERIF-UNIT
{
 "name": "rb_remove_extent_delete_b2",
 "props": ["C16"],
 "level": "B(2)",
 "tier": "thorough",
 "harness": "h_rb_remove",
 "defines": ["EXT2_CUSTOM_MEMORY_ROUTINES", "RB_N=2", "RB_NEW=0", "RB_BITS=16", "RB_SCEN=3"],
 "unwind": 9,
 "unwind_reason": "BOUNDED: a tree of at most 2 nodes has height <= 2, so every descent / successor / predecessor loop of blkmap64_rb.c and rbtree.c runs at most that often (+1 for the exit test), the neighbour loops at most once per node; rebalancing loops climb at most one level per round; harness loops have constant bounds <= 8 (global unwind 9). Every bound is confirmed by an unwinding assertion.",
 "sources": ["lib/ext2fs/rbtree.c"],
 "functions": ["lib/ext2fs/blkmap64_rb.c:rb_remove_extent", "lib/ext2fs/blkmap64_rb.c:rb_free_extent", "lib/ext2fs/blkmap64_rb.c:rb_unmark_bmap", "lib/ext2fs/blkmap64_rb.c:rb_unmark_bmap_extent"],
 "assumes": ["BOUNDED stand-in, not counted as proved: the tree has exactly 2 extents (sorted, disjoint, non-adjacent, count > 0) in every red-black shape of that size; wcursor/rcursor NULL or any node, rcursor_next NULL or the successor of rcursor (any node if rcursor is NULL)", "allocation does not fail: ext2fs.h is compiled with its own hook EXT2_CUSTOM_MEMORY_ROUTINES and ext2fs_get_mem/ext2fs_free_mem are the trivial malloc/free stubs of rb_common.h (typed pointer store instead of memcpy); malloc is __CPROVER_allocate, i.e. never NULL (rb_get_new_extent abort()s on failure anyway)", "BOUNDED: bitmap->real_end - bitmap->start < 2^16 (offsets are 64-bit in the code and in the harness; the cap only narrows the values, chosen because the SAT proof of the ordering lemmas is the bottleneck)", "range inside [start, real_end], count >= 1; rb_remove_extent is called directly with offsets relative to bitmap->start (rb_unmark_bmap / rb_unmark_bmap_extent only subtract bitmap->start, see rb_wrappers)", "SCENARIO delete: at least one extent lies entirely inside the range (erase; rb_insert_extent unreachable); the three remove scenarios partition the input space", "rb_insert_extent is NOT abstracted: its contract is REQUIRES(false); the obligation that no call is reachable in this scenario is checked at every call site"],
 "backend": "minisat",
 "no_cross_check": true,
 "native": true,
 "cbmc_flags": ["--object-bits", "10"],
 "unwindset": {"rb_remove_extent.0": 4, "rb_remove_extent.1": 4, "ext2fs_rb_next.0": 3, "ext2fs_rb_next.1": 3, "ext2fs_rb_erase.0": 1, "__rb_erase_color.0": 1},
 "replace": ["rb_insert_extent"],
 "timeout": 1200
}
*/
/* VERIF-UNIT
{
 "name": "rb_resize_bmap_keep_b1",
 "props": ["C16"],
 "level": "B(1)",
 "tier": "quick",
 "harness": "h_rb_resize",
 "defines": ["EXT2_CUSTOM_MEMORY_ROUTINES", "RB_N=1", "RB_NEW=0", "RB_BITS=16", "RB_SCEN=1"],
 "unwind": 9,
 "unwind_reason": "BOUNDED: a tree of at most 1 nodes has height <= 1, so every descent / successor / predecessor loop of blkmap64_rb.c and rbtree.c runs at most that often (+1 for the exit test), the neighbour loops at most once per node; rebalancing loops climb at most one level per round; harness loops have constant bounds <= 8 (global unwind 9). Every bound is confirmed by an unwinding assertion.",
 "sources": ["lib/ext2fs/rbtree.c"],
 "functions": ["lib/ext2fs/blkmap64_rb.c:rb_resize_bmap", "lib/ext2fs/blkmap64_rb.c:rb_truncate", "lib/ext2fs/blkmap64_rb.c:rb_insert_extent"],
 "assumes": ["BOUNDED stand-in, not counted as proved: the tree has exactly 1 extents (sorted, disjoint, non-adjacent, count > 0) in every red-black shape of that size; wcursor/rcursor NULL or any node, rcursor_next NULL or the successor of rcursor (any node if rcursor is NULL)", "allocation does not fail: ext2fs.h is compiled with its own hook EXT2_CUSTOM_MEMORY_ROUTINES and ext2fs_get_mem/ext2fs_free_mem are the trivial malloc/free stubs of rb_common.h (typed pointer store instead of memcpy); malloc is __CPROVER_allocate, i.e. never NULL (rb_get_new_extent abort()s on failure anyway)", "BOUNDED: bitmap->real_end - bitmap->start < 2^16 (offsets are 64-bit in the code and in the harness; the cap only narrows the values, chosen because the SAT proof of the ordering lemmas is the bottleneck)", "start <= new_end <= new_real_end, new_real_end - start below the same cap as real_end - start", "SCENARIO keep: no extent starts behind min(old end, new end); there is no padding (new_end == new_real_end) or the extent holding bit new_end takes it up (structure unchanged); the four resize scenarios partition the input space", "ext2fs_rb_erase is NOT abstracted: its contract is REQUIRES(false); the obligation that no call is reachable in this scenario is checked at every call site", "ext2fs_rb_insert_color is NOT abstracted: its contract is REQUIRES(false); the obligation that no call is reachable in this scenario is checked at every call site"],
 "backend": "minisat",
 "no_cross_check": true,
 "native": true,
 "cbmc_flags": ["--object-bits", "10"],
 "unwindset": {"rb_truncate.0": 3, "rb_insert_extent.0": 2, "rb_insert_extent.1": 2, "ext2fs_rb_next.0": 3, "ext2fs_rb_next.1": 3, "ext2fs_rb_prev.0": 3, "ext2fs_rb_prev.1": 3, "ext2fs_rb_last.0": 3},
 "replace": ["ext2fs_rb_erase", "ext2fs_rb_insert_color"],
 "timeout": 300
}
*/
/* VERIF-UNIT
{
 "name": "rb_resize_bmap_keep_b2",
 "props": ["C16"],
 "level": "B(2)",
 "tier": "thorough",
 "harness": "h_rb_resize",
 "defines": ["EXT2_CUSTOM_MEMORY_ROUTINES", "RB_N=2", "RB_NEW=0", "RB_BITS=16", "RB_SCEN=1"],
 "unwind": 9,
 "unwind_reason": "BOUNDED: a tree of at most 2 nodes has height <= 2, so every descent / successor / predecessor loop of blkmap64_rb.c and rbtree.c runs at most that often (+1 for the exit test), the neighbour loops at most once per node; rebalancing loops climb at most one level per round; harness loops have constant bounds <= 8 (global unwind 9). Every bound is confirmed by an unwinding assertion.",
 "sources": ["lib/ext2fs/rbtree.c"],
 "functions": ["lib/ext2fs/blkmap64_rb.c:rb_resize_bmap", "lib/ext2fs/blkmap64_rb.c:rb_truncate", "lib/ext2fs/blkmap64_rb.c:rb_insert_extent"],
 "assumes": ["BOUNDED stand-in, not counted as proved: the tree has exactly 2 extents (sorted, disjoint, non-adjacent, count > 0) in every red-black shape of that size; wcursor/rcursor NULL or any node, rcursor_next NULL or the successor of rcursor (any node if rcursor is NULL)", "allocation does not fail: ext2fs.h is compiled with its own hook EXT2_CUSTOM_MEMORY_ROUTINES and ext2fs_get_mem/ext2fs_free_mem are the trivial malloc/free stubs of rb_common.h (typed pointer store instead of memcpy); malloc is __CPROVER_allocate, i.e. never NULL (rb_get_new_extent abort()s on failure anyway)", "BOUNDED: bitmap->real_end - bitmap->start < 2^16 (offsets are 64-bit in the code and in the harness; the cap only narrows the values, chosen because the SAT proof of the ordering lemmas is the bottleneck)", "start <= new_end <= new_real_end, new_real_end - start below the same cap as real_end - start", "SCENARIO keep: no extent starts behind min(old end, new end); there is no padding (new_end == new_real_end) or the extent holding bit new_end takes it up (structure unchanged); the four resize scenarios partition the input space", "ext2fs_rb_erase is NOT abstracted: its contract is REQUIRES(false); the obligation that no call is reachable in this scenario is checked at every call site", "ext2fs_rb_insert_color is NOT abstracted: its contract is REQUIRES(false); the obligation that no call is reachable in this scenario is checked at every call site"],
 "backend": "minisat",
 "no_cross_check": true,
 "native": true,
 "cbmc_flags": ["--object-bits", "10"],
 "unwindset": {"rb_truncate.0": 3, "rb_insert_extent.0": 3, "rb_insert_extent.1": 2, "ext2fs_rb_next.0": 3, "ext2fs_rb_next.1": 3, "ext2fs_rb_prev.0": 3, "ext2fs_rb_prev.1": 3, "ext2fs_rb_last.0": 3},
 "replace": ["ext2fs_rb_erase", "ext2fs_rb_insert_color"],
 "timeout": 1200
}
*/
/* VERIF-UNIT
{
 "name": "rb_resize_bmap_keep_b3",
 "props": ["C16"],
 "level": "B(3)",
 "tier": "quick",
 "harness": "h_rb_resize",
 "defines": ["EXT2_CUSTOM_MEMORY_ROUTINES", "RB_N=3", "RB_NEW=0", "RB_BITS=16", "RB_SCEN=1"],
 "unwind": 9,
 "unwind_reason": "BOUNDED: a tree of at most 3 nodes has height <= 2, so every descent / successor / predecessor loop of blkmap64_rb.c and rbtree.c runs at most that often (+1 for the exit test), the neighbour loops at most once per node; rebalancing loops climb at most one level per round; harness loops have constant bounds <= 8 (global unwind 9). Every bound is confirmed by an unwinding assertion.",
 "sources": ["lib/ext2fs/rbtree.c"],
 "functions": ["lib/ext2fs/blkmap64_rb.c:rb_resize_bmap", "lib/ext2fs/blkmap64_rb.c:rb_truncate", "lib/ext2fs/blkmap64_rb.c:rb_insert_extent"],
 "assumes": ["BOUNDED stand-in, not counted as proved: the tree has exactly 3 extents (sorted, disjoint, non-adjacent, count > 0) in every red-black shape of that size; wcursor/rcursor NULL or any node, rcursor_next NULL or the successor of rcursor (any node if rcursor is NULL)", "allocation does not fail: ext2fs.h is compiled with its own hook EXT2_CUSTOM_MEMORY_ROUTINES and ext2fs_get_mem/ext2fs_free_mem are the trivial malloc/free stubs of rb_common.h (typed pointer store instead of memcpy); malloc is __CPROVER_allocate, i.e. never NULL (rb_get_new_extent abort()s on failure anyway)", "BOUNDED: bitmap->real_end - bitmap->start < 2^16 (offsets are 64-bit in the code and in the harness; the cap only narrows the values, chosen because the SAT proof of the ordering lemmas is the bottleneck)", "start <= new_end <= new_real_end, new_real_end - start below the same cap as real_end - start", "SCENARIO keep: no extent starts behind min(old end, new end); there is no padding (new_end == new_real_end) or the extent holding bit new_end takes it up (structure unchanged); the four resize scenarios partition the input space", "ext2fs_rb_erase is NOT abstracted: its contract is REQUIRES(false); the obligation that no call is reachable in this scenario is checked at every call site", "ext2fs_rb_insert_color is NOT abstracted: its contract is REQUIRES(false); the obligation that no call is reachable in this scenario is checked at every call site"],
 "backend": "minisat",
 "no_cross_check": true,
 "native": true,
 "cbmc_flags": ["--object-bits", "10"],
 "unwindset": {"rb_truncate.0": 3, "rb_insert_extent.0": 3, "rb_insert_extent.1": 2, "ext2fs_rb_next.0": 4, "ext2fs_rb_next.1": 4, "ext2fs_rb_prev.0": 4, "ext2fs_rb_prev.1": 4, "ext2fs_rb_last.0": 4},
 "replace": ["ext2fs_rb_erase", "ext2fs_rb_insert_color"],
 "timeout": 300
}
*/
/* VERIF-UNIT
{
 "name": "rb_resize_bmap_pad_b1",
 "props": ["C16"],
 "level": "B(1)",
 "tier": "quick",
 "harness": "h_rb_resize",
 "defines": ["EXT2_CUSTOM_MEMORY_ROUTINES", "RB_N=1", "RB_NEW=1", "RB_BITS=16", "RB_SCEN=2"],
 "unwind": 9,
 "unwind_reason": "BOUNDED: a tree of at most 2 nodes has height <= 2, so every descent / successor / predecessor loop of blkmap64_rb.c and rbtree.c runs at most that often (+1 for the exit test), the neighbour loops at most once per node; rebalancing loops climb at most one level per round; harness loops have constant bounds <= 8 (global unwind 9). Every bound is confirmed by an unwinding assertion.",
 "sources": ["lib/ext2fs/rbtree.c"],
 "functions": ["lib/ext2fs/blkmap64_rb.c:rb_resize_bmap", "lib/ext2fs/blkmap64_rb.c:rb_truncate", "lib/ext2fs/blkmap64_rb.c:rb_insert_extent"],
 "assumes": ["BOUNDED stand-in, not counted as proved: the tree has exactly 1 extents (sorted, disjoint, non-adjacent, count > 0) in every red-black shape of that size; wcursor/rcursor NULL or any node, rcursor_next NULL or the successor of rcursor (any node if rcursor is NULL)", "allocation does not fail: ext2fs.h is compiled with its own hook EXT2_CUSTOM_MEMORY_ROUTINES and ext2fs_get_mem/ext2fs_free_mem are the trivial malloc/free stubs of rb_common.h (typed pointer store instead of memcpy); malloc is __CPROVER_allocate, i.e. never NULL (rb_get_new_extent abort()s on failure anyway)", "BOUNDED: bitmap->real_end - bitmap->start < 2^16 (offsets are 64-bit in the code and in the harness; the cap only narrows the values, chosen because the SAT proof of the ordering lemmas is the bottleneck)", "start <= new_end <= new_real_end, new_real_end - start below the same cap as real_end - start", "SCENARIO pad: no extent starts behind min(old end, new end); the padding (new_end, new_real_end] becomes a new node; the four resize scenarios partition the input space", "ext2fs_rb_erase is NOT abstracted: its contract is REQUIRES(false); the obligation that no call is reachable in this scenario is checked at every call site"],
 "backend": "minisat",
 "no_cross_check": true,
 "native": true,
 "cbmc_flags": ["--object-bits", "10"],
 "unwindset": {"rb_truncate.0": 3, "rb_insert_extent.0": 2, "rb_insert_extent.1": 2, "ext2fs_rb_next.0": 3, "ext2fs_rb_next.1": 3, "ext2fs_rb_prev.0": 3, "ext2fs_rb_prev.1": 3, "ext2fs_rb_last.0": 3, "ext2fs_rb_insert_color.0": 1},
 "replace": ["ext2fs_rb_erase"],
 "timeout": 300
}
*/
/* VERIF-UNIT
{
 "name": "rb_resize_bmap_pad_b2",
 "props": ["C16"],
 "level": "B(2)",
 "tier": "thorough",
 "harness": "h_rb_resize",
 "defines": ["EXT2_CUSTOM_MEMORY_ROUTINES", "RB_N=2", "RB_NEW=1", "RB_BITS=16", "RB_SCEN=2"],
 "unwind": 9,
 "unwind_reason": "BOUNDED: a tree of at most 3 nodes has height <= 2, so every descent / successor / predecessor loop of blkmap64_rb.c and rbtree.c runs at most that often (+1 for the exit test), the neighbour loops at most once per node; rebalancing loops climb at most one level per round; harness loops have constant bounds <= 8 (global unwind 9). Every bound is confirmed by an unwinding assertion.",
 "sources": ["lib/ext2fs/rbtree.c"],
 "functions": ["lib/ext2fs/blkmap64_rb.c:rb_resize_bmap", "lib/ext2fs/blkmap64_rb.c:rb_truncate", "lib/ext2fs/blkmap64_rb.c:rb_insert_extent"],
 "assumes": ["BOUNDED stand-in, not counted as proved: the tree has exactly 2 extents (sorted, disjoint, non-adjacent, count > 0) in every red-black shape of that size; wcursor/rcursor NULL or any node, rcursor_next NULL or the successor of rcursor (any node if rcursor is NULL)", "allocation does not fail: ext2fs.h is compiled with its own hook EXT2_CUSTOM_MEMORY_ROUTINES and ext2fs_get_mem/ext2fs_free_mem are the trivial malloc/free stubs of rb_common.h (typed pointer store instead of memcpy); malloc is __CPROVER_allocate, i.e. never NULL (rb_get_new_extent abort()s on failure anyway)", "BOUNDED: bitmap->real_end - bitmap->start < 2^16 (offsets are 64-bit in the code and in the harness; the cap only narrows the values, chosen because the SAT proof of the ordering lemmas is the bottleneck)", "start <= new_end <= new_real_end, new_real_end - start below the same cap as real_end - start", "SCENARIO pad: no extent starts behind min(old end, new end); the padding (new_end, new_real_end] becomes a new node; the four resize scenarios partition the input space", "ext2fs_rb_erase is NOT abstracted: its contract is REQUIRES(false); the obligation that no call is reachable in this scenario is checked at every call site"],
 "backend": "minisat",
 "no_cross_check": true,
 "native": true,
 "cbmc_flags": ["--object-bits", "10"],
 "unwindset": {"rb_truncate.0": 3, "rb_insert_extent.0": 3, "rb_insert_extent.1": 2, "ext2fs_rb_next.0": 3, "ext2fs_rb_next.1": 3, "ext2fs_rb_prev.0": 3, "ext2fs_rb_prev.1": 3, "ext2fs_rb_last.0": 3, "ext2fs_rb_insert_color.0": 2},
 "replace": ["ext2fs_rb_erase"],
 "timeout": 1200
}
*/
/* VERIF-UNIT
{
 "name": "rb_resize_bmap_cut_b1",
 "props": ["C16"],
 "level": "B(1)",
 "tier": "obs",
 "harness": "h_rb_resize",
 "defines": ["EXT2_CUSTOM_MEMORY_ROUTINES", "RB_N=1", "RB_NEW=0", "RB_BITS=16", "RB_SCEN=3"],
 "unwind": 9,
 "unwind_reason": "BOUNDED: a tree of at most 1 nodes has height <= 1, so every descent / successor / predecessor loop of blkmap64_rb.c and rbtree.c runs at most that often (+1 for the exit test), the neighbour loops at most once per node; rebalancing loops climb at most one level per round; harness loops have constant bounds <= 8 (global unwind 9). Every bound is confirmed by an unwinding assertion.",
 "sources": ["lib/ext2fs/rbtree.c"],
 "functions": ["lib/ext2fs/blkmap64_rb.c:rb_resize_bmap", "lib/ext2fs/blkmap64_rb.c:rb_truncate", "lib/ext2fs/blkmap64_rb.c:rb_insert_extent"],
 "assumes": ["BOUNDED stand-in, not counted as proved: the tree has exactly 1 extents (sorted, disjoint, non-adjacent, count > 0) in every red-black shape of that size; wcursor/rcursor NULL or any node, rcursor_next NULL or the successor of rcursor (any node if rcursor is NULL)", "allocation does not fail: ext2fs.h is compiled with its own hook EXT2_CUSTOM_MEMORY_ROUTINES and ext2fs_get_mem/ext2fs_free_mem are the trivial malloc/free stubs of rb_common.h (typed pointer store instead of memcpy); malloc is __CPROVER_allocate, i.e. never NULL (rb_get_new_extent abort()s on failure anyway)", "BOUNDED: bitmap->real_end - bitmap->start < 2^16 (offsets are 64-bit in the code and in the harness; the cap only narrows the values, chosen because the SAT proof of the ordering lemmas is the bottleneck)", "start <= new_end <= new_real_end, new_real_end - start below the same cap as real_end - start", "SCENARIO cut: at least one extent starts behind min(old end, new end) and is erased; no new node; the four resize scenarios partition the input space", "FAILS on the unchanged tree (kept wip): without padding rb_resize_bmap leaves rcursor_next pointing to an extent rb_truncate has freed - findings/C16_rb_resize_rcursor_next; green with its proposed-fix.patch", "ext2fs_rb_insert_color is NOT abstracted: its contract is REQUIRES(false); the obligation that no call is reachable in this scenario is checked at every call site"],
 "backend": "minisat",
 "no_cross_check": true,
 "native": true,
 "cbmc_flags": ["--object-bits", "10"],
 "unwindset": {"rb_truncate.0": 4, "rb_insert_extent.0": 2, "rb_insert_extent.1": 2, "ext2fs_rb_next.0": 3, "ext2fs_rb_next.1": 3, "ext2fs_rb_prev.0": 3, "ext2fs_rb_prev.1": 3, "ext2fs_rb_last.0": 3, "ext2fs_rb_erase.0": 1, "__rb_erase_color.0": 1},
 "replace": ["ext2fs_rb_insert_color"],
 "timeout": 1200
}
*/
/* VERIF-UNIT
{
 "name": "rb_resize_bmap_cutpad_b1",
 "props": ["C16"],
 "level": "B(1)",
 "tier": "thorough",
 "harness": "h_rb_resize",
 "defines": ["EXT2_CUSTOM_MEMORY_ROUTINES", "RB_N=1", "RB_NEW=1", "RB_BITS=16", "RB_SCEN=4"],
 "unwind": 9,
 "unwind_reason": "BOUNDED: a tree of at most 2 nodes has height <= 2, so every descent / successor / predecessor loop of blkmap64_rb.c and rbtree.c runs at most that often (+1 for the exit test), the neighbour loops at most once per node; rebalancing loops climb at most one level per round; harness loops have constant bounds <= 8 (global unwind 9). Every bound is confirmed by an unwinding assertion.",
 "sources": ["lib/ext2fs/rbtree.c"],
 "functions": ["lib/ext2fs/blkmap64_rb.c:rb_resize_bmap", "lib/ext2fs/blkmap64_rb.c:rb_truncate", "lib/ext2fs/blkmap64_rb.c:rb_insert_extent"],
 "assumes": ["BOUNDED stand-in, not counted as proved: the tree has exactly 1 extents (sorted, disjoint, non-adjacent, count > 0) in every red-black shape of that size; wcursor/rcursor NULL or any node, rcursor_next NULL or the successor of rcursor (any node if rcursor is NULL)", "allocation does not fail: ext2fs.h is compiled with its own hook EXT2_CUSTOM_MEMORY_ROUTINES and ext2fs_get_mem/ext2fs_free_mem are the trivial malloc/free stubs of rb_common.h (typed pointer store instead of memcpy); malloc is __CPROVER_allocate, i.e. never NULL (rb_get_new_extent abort()s on failure anyway)", "BOUNDED: bitmap->real_end - bitmap->start < 2^16 (offsets are 64-bit in the code and in the harness; the cap only narrows the values, chosen because the SAT proof of the ordering lemmas is the bottleneck)", "start <= new_end <= new_real_end, new_real_end - start below the same cap as real_end - start", "SCENARIO cutpad: at least one extent is erased and the padding becomes a new node; the four resize scenarios partition the input space"],
 "backend": "minisat",
 "no_cross_check": true,
 "native": true,
 "cbmc_flags": ["--object-bits", "10"],
 "unwindset": {"rb_truncate.0": 4, "rb_insert_extent.0": 2, "rb_insert_extent.1": 2, "ext2fs_rb_next.0": 3, "ext2fs_rb_next.1": 3, "ext2fs_rb_prev.0": 3, "ext2fs_rb_prev.1": 3, "ext2fs_rb_last.0": 3, "ext2fs_rb_erase.0": 1, "__rb_erase_color.0": 1, "ext2fs_rb_insert_color.0": 1},
 "timeout": 1200
}
*/
/* VERIF-UNIT
{
 "name": "rb_set_bmap_range_p5",
 "props": ["C16"],
 "level": "B(0)",
 "tier": "quick",
 "harness": "h_rb_set_range",
 "defines": ["EXT2_CUSTOM_MEMORY_ROUTINES", "RB_N=0", "RB_NEW=2", "RB_BITS=16", "RB_SCEN=2", "RB_SET_BITS=3", "RB_PATTERN=0x5"],
 "unwind": 9,
 "unwind_reason": "BOUNDED: a tree of at most 2 nodes has height <= 2, so every descent / successor / predecessor loop of blkmap64_rb.c and rbtree.c runs at most that often (+1 for the exit test), the neighbour loops at most once per node; rebalancing loops climb at most one level per round; harness loops have constant bounds <= 8 (global unwind 9). Every bound is confirmed by an unwinding assertion.",
 "sources": ["lib/ext2fs/rbtree.c", "lib/ext2fs/bitops.c"],
 "functions": ["lib/ext2fs/blkmap64_rb.c:rb_set_bmap_range", "lib/ext2fs/blkmap64_rb.c:rb_insert_extent"],
 "assumes": ["BOUNDED stand-in, not counted as proved: the tree has exactly 0 extents (sorted, disjoint, non-adjacent, count > 0) in every red-black shape of that size; wcursor/rcursor NULL or any node, rcursor_next NULL or the successor of rcursor (any node if rcursor is NULL)", "allocation does not fail: ext2fs.h is compiled with its own hook EXT2_CUSTOM_MEMORY_ROUTINES and ext2fs_get_mem/ext2fs_free_mem are the trivial malloc/free stubs of rb_common.h (typed pointer store instead of memcpy); malloc is __CPROVER_allocate, i.e. never NULL (rb_get_new_extent abort()s on failure anyway)", "BOUNDED: bitmap->real_end - bitmap->start < 2^16 (offsets are 64-bit in the code and in the harness; the cap only narrows the values, chosen because the SAT proof of the ordering lemmas is the bottleneck)", "BOUNDED: the input buffer is the constant bit pattern 0x5, num = 3 (concrete control flow of the run-extraction loop; one rb_insert_extent body per run)", "SCENARIO: no extent of the tree overlaps or touches [start - 1, start + num] (the runs become new nodes, nothing is merged)", "range inside [start, real_end]", "ext2fs_rb_erase is NOT abstracted: its contract is REQUIRES(false); the obligation that no call is reachable in this scenario is checked at every call site"],
 "backend": "minisat",
 "no_cross_check": true,
 "native": true,
 "cbmc_flags": ["--object-bits", "10"],
 "unwindset": {"rb_set_bmap_range.0": 4, "rb_insert_extent.0": 2, "rb_insert_extent.1": 2, "ext2fs_rb_next.0": 3, "ext2fs_rb_next.1": 3, "ext2fs_rb_prev.0": 3, "ext2fs_rb_prev.1": 3, "ext2fs_rb_insert_color.0": 1},
 "replace": ["ext2fs_rb_erase"],
 "timeout": 300
}
*/
/* VERIF-UNIT
{
 "name": "rb_set_bmap_range_p1ff",
 "props": ["C16"],
 "level": "B(1)",
 "tier": "quick",
 "harness": "h_rb_set_range",
 "defines": ["EXT2_CUSTOM_MEMORY_ROUTINES", "RB_N=1", "RB_NEW=1", "RB_BITS=16", "RB_SCEN=2", "RB_SET_BITS=10", "RB_PATTERN=0x1ff"],
 "unwind": 9,
 "unwind_reason": "BOUNDED: a tree of at most 2 nodes has height <= 2, so every descent / successor / predecessor loop of blkmap64_rb.c and rbtree.c runs at most that often (+1 for the exit test), the neighbour loops at most once per node; rebalancing loops climb at most one level per round; harness loops have constant bounds <= 8 (global unwind 9). Every bound is confirmed by an unwinding assertion.",
 "sources": ["lib/ext2fs/rbtree.c", "lib/ext2fs/bitops.c"],
 "functions": ["lib/ext2fs/blkmap64_rb.c:rb_set_bmap_range", "lib/ext2fs/blkmap64_rb.c:rb_insert_extent"],
 "assumes": ["BOUNDED stand-in, not counted as proved: the tree has exactly 1 extents (sorted, disjoint, non-adjacent, count > 0) in every red-black shape of that size; wcursor/rcursor NULL or any node, rcursor_next NULL or the successor of rcursor (any node if rcursor is NULL)", "allocation does not fail: ext2fs.h is compiled with its own hook EXT2_CUSTOM_MEMORY_ROUTINES and ext2fs_get_mem/ext2fs_free_mem are the trivial malloc/free stubs of rb_common.h (typed pointer store instead of memcpy); malloc is __CPROVER_allocate, i.e. never NULL (rb_get_new_extent abort()s on failure anyway)", "BOUNDED: bitmap->real_end - bitmap->start < 2^16 (offsets are 64-bit in the code and in the harness; the cap only narrows the values, chosen because the SAT proof of the ordering lemmas is the bottleneck)", "BOUNDED: the input buffer is the constant bit pattern 0x1ff, num = 10 (concrete control flow of the run-extraction loop; one rb_insert_extent body per run)", "SCENARIO: no extent of the tree overlaps or touches [start - 1, start + num] (the runs become new nodes, nothing is merged)", "range inside [start, real_end]", "ext2fs_rb_erase is NOT abstracted: its contract is REQUIRES(false); the obligation that no call is reachable in this scenario is checked at every call site"],
 "backend": "minisat",
 "no_cross_check": true,
 "native": true,
 "cbmc_flags": ["--object-bits", "10"],
 "unwindset": {"rb_set_bmap_range.0": 11, "rb_insert_extent.0": 2, "rb_insert_extent.1": 2, "ext2fs_rb_next.0": 3, "ext2fs_rb_next.1": 3, "ext2fs_rb_prev.0": 3, "ext2fs_rb_prev.1": 3, "ext2fs_rb_insert_color.0": 1},
 "replace": ["ext2fs_rb_erase"],
 "timeout": 300
}
*/
/* VERIF-UNIT
{
 "name": "rb_set_bmap_range_p6",
 "props": ["C16"],
 "level": "B(1)",
 "tier": "quick",
 "harness": "h_rb_set_range",
 "defines": ["EXT2_CUSTOM_MEMORY_ROUTINES", "RB_N=1", "RB_NEW=1", "RB_BITS=16", "RB_SCEN=2", "RB_SET_BITS=4", "RB_PATTERN=0x6"],
 "unwind": 9,
 "unwind_reason": "BOUNDED: a tree of at most 2 nodes has height <= 2, so every descent / successor / predecessor loop of blkmap64_rb.c and rbtree.c runs at most that often (+1 for the exit test), the neighbour loops at most once per node; rebalancing loops climb at most one level per round; harness loops have constant bounds <= 8 (global unwind 9). Every bound is confirmed by an unwinding assertion.",
 "sources": ["lib/ext2fs/rbtree.c", "lib/ext2fs/bitops.c"],
 "functions": ["lib/ext2fs/blkmap64_rb.c:rb_set_bmap_range", "lib/ext2fs/blkmap64_rb.c:rb_insert_extent"],
 "assumes": ["BOUNDED stand-in, not counted as proved: the tree has exactly 1 extents (sorted, disjoint, non-adjacent, count > 0) in every red-black shape of that size; wcursor/rcursor NULL or any node, rcursor_next NULL or the successor of rcursor (any node if rcursor is NULL)", "allocation does not fail: ext2fs.h is compiled with its own hook EXT2_CUSTOM_MEMORY_ROUTINES and ext2fs_get_mem/ext2fs_free_mem are the trivial malloc/free stubs of rb_common.h (typed pointer store instead of memcpy); malloc is __CPROVER_allocate, i.e. never NULL (rb_get_new_extent abort()s on failure anyway)", "BOUNDED: bitmap->real_end - bitmap->start < 2^16 (offsets are 64-bit in the code and in the harness; the cap only narrows the values, chosen because the SAT proof of the ordering lemmas is the bottleneck)", "BOUNDED: the input buffer is the constant bit pattern 0x6, num = 4 (concrete control flow of the run-extraction loop; one rb_insert_extent body per run)", "SCENARIO: no extent of the tree overlaps or touches [start - 1, start + num] (the runs become new nodes, nothing is merged)", "range inside [start, real_end]", "ext2fs_rb_erase is NOT abstracted: its contract is REQUIRES(false); the obligation that no call is reachable in this scenario is checked at every call site"],
 "backend": "minisat",
 "no_cross_check": true,
 "native": true,
 "cbmc_flags": ["--object-bits", "10"],
 "unwindset": {"rb_set_bmap_range.0": 5, "rb_insert_extent.0": 2, "rb_insert_extent.1": 2, "ext2fs_rb_next.0": 3, "ext2fs_rb_next.1": 3, "ext2fs_rb_prev.0": 3, "ext2fs_rb_prev.1": 3, "ext2fs_rb_insert_color.0": 1},
 "replace": ["ext2fs_rb_erase"],
 "timeout": 300
}
*/
/* VERIF-UNIT
{
 "name": "rb_set_bmap_range_sym3",
 "props": ["C16"],
 "level": "B(0)",
 "tier": "quick",
 "harness": "h_rb_set_range",
 "defines": ["EXT2_CUSTOM_MEMORY_ROUTINES", "RB_N=0", "RB_NEW=2", "RB_BITS=16", "RB_SET_BITS=3"],
 "unwind": 9,
 "unwind_reason": "BOUNDED: a tree of at most 2 nodes has height <= 2, so every descent / successor / predecessor loop of blkmap64_rb.c and rbtree.c runs at most that often (+1 for the exit test), the neighbour loops at most once per node; rebalancing loops climb at most one level per round; harness loops have constant bounds <= 8 (global unwind 9). Every bound is confirmed by an unwinding assertion.",
 "sources": ["lib/ext2fs/rbtree.c", "lib/ext2fs/bitops.c"],
 "functions": ["lib/ext2fs/blkmap64_rb.c:rb_set_bmap_range", "lib/ext2fs/blkmap64_rb.c:rb_insert_extent"],
 "assumes": ["BOUNDED stand-in, not counted as proved: the tree has exactly 0 extents (sorted, disjoint, non-adjacent, count > 0) in every red-black shape of that size; wcursor/rcursor NULL or any node, rcursor_next NULL or the successor of rcursor (any node if rcursor is NULL)", "allocation does not fail: ext2fs.h is compiled with its own hook EXT2_CUSTOM_MEMORY_ROUTINES and ext2fs_get_mem/ext2fs_free_mem are the trivial malloc/free stubs of rb_common.h (typed pointer store instead of memcpy); malloc is __CPROVER_allocate, i.e. never NULL (rb_get_new_extent abort()s on failure anyway)", "BOUNDED: bitmap->real_end - bitmap->start < 2^16 (offsets are 64-bit in the code and in the harness; the cap only narrows the values, chosen because the SAT proof of the ordering lemmas is the bottleneck)", "BOUNDED: empty tree, 1 <= num <= 3, arbitrary input bits (at most two runs; nothing can merge, ext2fs_rb_erase unreachable)", "range inside [start, real_end]", "ext2fs_rb_erase is NOT abstracted: its contract is REQUIRES(false); the obligation that no call is reachable in this scenario is checked at every call site"],
 "backend": "minisat",
 "no_cross_check": true,
 "native": true,
 "cbmc_flags": ["--object-bits", "10"],
 "unwindset": {"rb_set_bmap_range.0": 4, "rb_insert_extent.0": 2, "rb_insert_extent.1": 2, "ext2fs_rb_next.0": 3, "ext2fs_rb_next.1": 3, "ext2fs_rb_prev.0": 3, "ext2fs_rb_prev.1": 3, "ext2fs_rb_insert_color.0": 1},
 "replace": ["ext2fs_rb_erase"],
 "timeout": 300
}
*/
/* VERIF-UNIT
{
 "name": "rb_wrappers",
 "props": ["C16"],
 "level": "B(1)",
 "tier": "quick",
 "harness": "h_rb_wrappers",
 "defines": ["EXT2_CUSTOM_MEMORY_ROUTINES", "RB_N=1", "RB_NEW=0", "RB_BITS=16", "RB_SCEN=1"],
 "unwind": 9,
 "unwind_reason": "BOUNDED: a tree of at most 1 nodes has height <= 1, so every descent / successor / predecessor loop of blkmap64_rb.c and rbtree.c runs at most that often (+1 for the exit test), the neighbour loops at most once per node; rebalancing loops climb at most one level per round; harness loops have constant bounds <= 8 (global unwind 9). Every bound is confirmed by an unwinding assertion.",
 "sources": ["lib/ext2fs/rbtree.c"],
 "functions": ["lib/ext2fs/blkmap64_rb.c:rb_mark_bmap", "lib/ext2fs/blkmap64_rb.c:rb_unmark_bmap", "lib/ext2fs/blkmap64_rb.c:rb_mark_bmap_extent", "lib/ext2fs/blkmap64_rb.c:rb_unmark_bmap_extent"],
 "assumes": ["BOUNDED stand-in, not counted as proved: the tree has exactly 1 extents (sorted, disjoint, non-adjacent, count > 0) in every red-black shape of that size; wcursor/rcursor NULL or any node, rcursor_next NULL or the successor of rcursor (any node if rcursor is NULL)", "allocation does not fail: ext2fs.h is compiled with its own hook EXT2_CUSTOM_MEMORY_ROUTINES and ext2fs_get_mem/ext2fs_free_mem are the trivial malloc/free stubs of rb_common.h (typed pointer store instead of memcpy); malloc is __CPROVER_allocate, i.e. never NULL (rb_get_new_extent abort()s on failure anyway)", "BOUNDED: bitmap->real_end - bitmap->start < 2^16 (offsets are 64-bit in the code and in the harness; the cap only narrows the values, chosen because the SAT proof of the ordering lemmas is the bottleneck)", "the range lies strictly inside the one extent (mark) or clear of it (unmark): structure unchanged; what is checked is that the ops-table entries translate absolute bit numbers by bitmap->start and hand the result of rb_insert_extent / rb_remove_extent through", "ext2fs_rb_erase is NOT abstracted: its contract is REQUIRES(false); the obligation that no call is reachable in this scenario is checked at every call site", "ext2fs_rb_insert_color is NOT abstracted: its contract is REQUIRES(false); the obligation that no call is reachable in this scenario is checked at every call site"],
 "backend": "minisat",
 "no_cross_check": true,
 "native": true,
 "cbmc_flags": ["--object-bits", "12"],
 "unwindset": {"rb_insert_extent.0": 2, "rb_insert_extent.1": 2, "rb_remove_extent.0": 3, "rb_remove_extent.1": 3, "ext2fs_rb_next.0": 2, "ext2fs_rb_next.1": 2},
 "replace": ["ext2fs_rb_erase", "ext2fs_rb_insert_color"],
 "timeout": 300
}
*/
/* VERIF-UNIT
{
 "name": "rbtree_erase_b1",
 "props": ["C16"],
 "level": "B(1)",
 "tier": "quick",
 "harness": "h_rbtree_erase",
 "defines": ["EXT2_CUSTOM_MEMORY_ROUTINES", "RB_N=1", "RB_NEW=0", "RB_BITS=16"],
 "unwind": 9,
 "unwind_reason": "BOUNDED: a tree of at most 1 nodes has height <= 1, so every descent / successor / predecessor loop of blkmap64_rb.c and rbtree.c runs at most that often (+1 for the exit test), the neighbour loops at most once per node; rebalancing loops climb at most one level per round; harness loops have constant bounds <= 8 (global unwind 9). Every bound is confirmed by an unwinding assertion.",
 "sources": ["lib/ext2fs/rbtree.c"],
 "functions": ["lib/ext2fs/rbtree.c:ext2fs_rb_erase", "lib/ext2fs/rbtree.c:__rb_erase_color", "lib/ext2fs/rbtree.c:__rb_rotate_left", "lib/ext2fs/rbtree.c:__rb_rotate_right"],
 "assumes": ["BOUNDED stand-in, not counted as proved: the tree has exactly 1 extents (sorted, disjoint, non-adjacent, count > 0) in every red-black shape of that size; wcursor/rcursor NULL or any node, rcursor_next NULL or the successor of rcursor (any node if rcursor is NULL)", "allocation does not fail: ext2fs.h is compiled with its own hook EXT2_CUSTOM_MEMORY_ROUTINES and ext2fs_get_mem/ext2fs_free_mem are the trivial malloc/free stubs of rb_common.h (typed pointer store instead of memcpy); malloc is __CPROVER_allocate, i.e. never NULL (rb_get_new_extent abort()s on failure anyway)", "BOUNDED: bitmap->real_end - bitmap->start < 2^16 (offsets are 64-bit in the code and in the harness; the cap only narrows the values, chosen because the SAT proof of the ordering lemmas is the bottleneck)", "any node of the tree is erased; cursors are not involved"],
 "backend": "minisat",
 "no_cross_check": true,
 "native": true,
 "cbmc_flags": ["--object-bits", "10"],
 "unwindset": {"ext2fs_rb_erase.0": 1, "__rb_erase_color.0": 1},
 "timeout": 300
}
*/
/* VERIF-UNIT
{
 "name": "rbtree_insert_b1",
 "props": ["C16"],
 "level": "B(1)",
 "tier": "quick",
 "harness": "h_rbtree_insert",
 "defines": ["EXT2_CUSTOM_MEMORY_ROUTINES", "RB_N=1", "RB_NEW=1", "RB_BITS=16"],
 "unwind": 9,
 "unwind_reason": "BOUNDED: a tree of at most 2 nodes has height <= 2, so every descent / successor / predecessor loop of blkmap64_rb.c and rbtree.c runs at most that often (+1 for the exit test), the neighbour loops at most once per node; rebalancing loops climb at most one level per round; harness loops have constant bounds <= 8 (global unwind 9). Every bound is confirmed by an unwinding assertion.",
 "sources": ["lib/ext2fs/rbtree.c"],
 "functions": ["lib/ext2fs/rbtree.c:ext2fs_rb_insert_color", "lib/ext2fs/rbtree.c:__rb_rotate_left", "lib/ext2fs/rbtree.c:__rb_rotate_right", "lib/ext2fs/rbtree.h:ext2fs_rb_link_node"],
 "assumes": ["BOUNDED stand-in, not counted as proved: the tree has exactly 1 extents (sorted, disjoint, non-adjacent, count > 0) in every red-black shape of that size; wcursor/rcursor NULL or any node, rcursor_next NULL or the successor of rcursor (any node if rcursor is NULL)", "allocation does not fail: ext2fs.h is compiled with its own hook EXT2_CUSTOM_MEMORY_ROUTINES and ext2fs_get_mem/ext2fs_free_mem are the trivial malloc/free stubs of rb_common.h (typed pointer store instead of memcpy); malloc is __CPROVER_allocate, i.e. never NULL (rb_get_new_extent abort()s on failure anyway)", "BOUNDED: bitmap->real_end - bitmap->start < 2^16 (offsets are 64-bit in the code and in the harness; the cap only narrows the values, chosen because the SAT proof of the ordering lemmas is the bottleneck)", "the new node is linked by an ordinary binary-search-tree descent at any key position not touching an existing extent"],
 "backend": "minisat",
 "no_cross_check": true,
 "native": true,
 "cbmc_flags": ["--object-bits", "10"],
 "unwindset": {"ext2fs_rb_insert_color.0": 1},
 "timeout": 300
}
*/
/* VERIF-UNIT
{
 "name": "rbtree_erase_b2",
 "props": ["C16"],
 "level": "B(2)",
 "tier": "quick",
 "harness": "h_rbtree_erase",
 "defines": ["EXT2_CUSTOM_MEMORY_ROUTINES", "RB_N=2", "RB_NEW=0", "RB_BITS=16"],
 "unwind": 9,
 "unwind_reason": "BOUNDED: a tree of at most 2 nodes has height <= 2, so every descent / successor / predecessor loop of blkmap64_rb.c and rbtree.c runs at most that often (+1 for the exit test), the neighbour loops at most once per node; rebalancing loops climb at most one level per round; harness loops have constant bounds <= 8 (global unwind 9). Every bound is confirmed by an unwinding assertion.",
 "sources": ["lib/ext2fs/rbtree.c"],
 "functions": ["lib/ext2fs/rbtree.c:ext2fs_rb_erase", "lib/ext2fs/rbtree.c:__rb_erase_color", "lib/ext2fs/rbtree.c:__rb_rotate_left", "lib/ext2fs/rbtree.c:__rb_rotate_right"],
 "assumes": ["BOUNDED stand-in, not counted as proved: the tree has exactly 2 extents (sorted, disjoint, non-adjacent, count > 0) in every red-black shape of that size; wcursor/rcursor NULL or any node, rcursor_next NULL or the successor of rcursor (any node if rcursor is NULL)", "allocation does not fail: ext2fs.h is compiled with its own hook EXT2_CUSTOM_MEMORY_ROUTINES and ext2fs_get_mem/ext2fs_free_mem are the trivial malloc/free stubs of rb_common.h (typed pointer store instead of memcpy); malloc is __CPROVER_allocate, i.e. never NULL (rb_get_new_extent abort()s on failure anyway)", "BOUNDED: bitmap->real_end - bitmap->start < 2^16 (offsets are 64-bit in the code and in the harness; the cap only narrows the values, chosen because the SAT proof of the ordering lemmas is the bottleneck)", "any node of the tree is erased; cursors are not involved"],
 "backend": "minisat",
 "no_cross_check": true,
 "native": true,
 "cbmc_flags": ["--object-bits", "10"],
 "unwindset": {"ext2fs_rb_erase.0": 1, "__rb_erase_color.0": 1},
 "timeout": 300
}
*/
/* VERIF-UNIT
{
 "name": "rbtree_insert_b2",
 "props": ["C16"],
 "level": "B(2)",
 "tier": "quick",
 "harness": "h_rbtree_insert",
 "defines": ["EXT2_CUSTOM_MEMORY_ROUTINES", "RB_N=2", "RB_NEW=1", "RB_BITS=16"],
 "unwind": 9,
 "unwind_reason": "BOUNDED: a tree of at most 3 nodes has height <= 2, so every descent / successor / predecessor loop of blkmap64_rb.c and rbtree.c runs at most that often (+1 for the exit test), the neighbour loops at most once per node; rebalancing loops climb at most one level per round; harness loops have constant bounds <= 8 (global unwind 9). Every bound is confirmed by an unwinding assertion.",
 "sources": ["lib/ext2fs/rbtree.c"],
 "functions": ["lib/ext2fs/rbtree.c:ext2fs_rb_insert_color", "lib/ext2fs/rbtree.c:__rb_rotate_left", "lib/ext2fs/rbtree.c:__rb_rotate_right", "lib/ext2fs/rbtree.h:ext2fs_rb_link_node"],
 "assumes": ["BOUNDED stand-in, not counted as proved: the tree has exactly 2 extents (sorted, disjoint, non-adjacent, count > 0) in every red-black shape of that size; wcursor/rcursor NULL or any node, rcursor_next NULL or the successor of rcursor (any node if rcursor is NULL)", "allocation does not fail: ext2fs.h is compiled with its own hook EXT2_CUSTOM_MEMORY_ROUTINES and ext2fs_get_mem/ext2fs_free_mem are the trivial malloc/free stubs of rb_common.h (typed pointer store instead of memcpy); malloc is __CPROVER_allocate, i.e. never NULL (rb_get_new_extent abort()s on failure anyway)", "BOUNDED: bitmap->real_end - bitmap->start < 2^16 (offsets are 64-bit in the code and in the harness; the cap only narrows the values, chosen because the SAT proof of the ordering lemmas is the bottleneck)", "the new node is linked by an ordinary binary-search-tree descent at any key position not touching an existing extent"],
 "backend": "minisat",
 "no_cross_check": true,
 "native": true,
 "cbmc_flags": ["--object-bits", "10"],
 "unwindset": {"ext2fs_rb_insert_color.0": 2},
 "timeout": 300
}
*/
/* VERIF-UNIT
{
 "name": "rbtree_erase_b3",
 "props": ["C16"],
 "level": "B(3)",
 "tier": "thorough",
 "harness": "h_rbtree_erase",
 "defines": ["EXT2_CUSTOM_MEMORY_ROUTINES", "RB_N=3", "RB_NEW=0", "RB_BITS=16"],
 "unwind": 9,
 "unwind_reason": "BOUNDED: a tree of at most 3 nodes has height <= 2, so every descent / successor / predecessor loop of blkmap64_rb.c and rbtree.c runs at most that often (+1 for the exit test), the neighbour loops at most once per node; rebalancing loops climb at most one level per round; harness loops have constant bounds <= 8 (global unwind 9). Every bound is confirmed by an unwinding assertion.",
 "sources": ["lib/ext2fs/rbtree.c"],
 "functions": ["lib/ext2fs/rbtree.c:ext2fs_rb_erase", "lib/ext2fs/rbtree.c:__rb_erase_color", "lib/ext2fs/rbtree.c:__rb_rotate_left", "lib/ext2fs/rbtree.c:__rb_rotate_right"],
 "assumes": ["BOUNDED stand-in, not counted as proved: the tree has exactly 3 extents (sorted, disjoint, non-adjacent, count > 0) in every red-black shape of that size; wcursor/rcursor NULL or any node, rcursor_next NULL or the successor of rcursor (any node if rcursor is NULL)", "allocation does not fail: ext2fs.h is compiled with its own hook EXT2_CUSTOM_MEMORY_ROUTINES and ext2fs_get_mem/ext2fs_free_mem are the trivial malloc/free stubs of rb_common.h (typed pointer store instead of memcpy); malloc is __CPROVER_allocate, i.e. never NULL (rb_get_new_extent abort()s on failure anyway)", "BOUNDED: bitmap->real_end - bitmap->start < 2^16 (offsets are 64-bit in the code and in the harness; the cap only narrows the values, chosen because the SAT proof of the ordering lemmas is the bottleneck)", "any node of the tree is erased; cursors are not involved"],
 "backend": "minisat",
 "no_cross_check": true,
 "native": true,
 "cbmc_flags": ["--object-bits", "10"],
 "unwindset": {"ext2fs_rb_erase.0": 2, "__rb_erase_color.0": 2},
 "timeout": 1200
}
*/
/* VERIF-UNIT
{
 "name": "rbtree_insert_b3",
 "props": ["C16"],
 "level": "B(3)",
 "tier": "thorough",
 "harness": "h_rbtree_insert",
 "defines": ["EXT2_CUSTOM_MEMORY_ROUTINES", "RB_N=3", "RB_NEW=1", "RB_BITS=16"],
 "unwind": 9,
 "unwind_reason": "BOUNDED: a tree of at most 4 nodes has height <= 3, so every descent / successor / predecessor loop of blkmap64_rb.c and rbtree.c runs at most that often (+1 for the exit test), the neighbour loops at most once per node; rebalancing loops climb at most one level per round; harness loops have constant bounds <= 8 (global unwind 9). Every bound is confirmed by an unwinding assertion.",
 "sources": ["lib/ext2fs/rbtree.c"],
 "functions": ["lib/ext2fs/rbtree.c:ext2fs_rb_insert_color", "lib/ext2fs/rbtree.c:__rb_rotate_left", "lib/ext2fs/rbtree.c:__rb_rotate_right", "lib/ext2fs/rbtree.h:ext2fs_rb_link_node"],
 "assumes": ["BOUNDED stand-in, not counted as proved: the tree has exactly 3 extents (sorted, disjoint, non-adjacent, count > 0) in every red-black shape of that size; wcursor/rcursor NULL or any node, rcursor_next NULL or the successor of rcursor (any node if rcursor is NULL)", "allocation does not fail: ext2fs.h is compiled with its own hook EXT2_CUSTOM_MEMORY_ROUTINES and ext2fs_get_mem/ext2fs_free_mem are the trivial malloc/free stubs of rb_common.h (typed pointer store instead of memcpy); malloc is __CPROVER_allocate, i.e. never NULL (rb_get_new_extent abort()s on failure anyway)", "BOUNDED: bitmap->real_end - bitmap->start < 2^16 (offsets are 64-bit in the code and in the harness; the cap only narrows the values, chosen because the SAT proof of the ordering lemmas is the bottleneck)", "the new node is linked by an ordinary binary-search-tree descent at any key position not touching an existing extent"],
 "backend": "minisat",
 "no_cross_check": true,
 "native": true,
 "cbmc_flags": ["--object-bits", "10"],
 "unwindset": {"ext2fs_rb_insert_color.0": 2},
 "timeout": 1200
}
*/
/* VERIF-UNIT
{
 "name": "rbtree_erase_b4",
 "props": ["C16"],
 "level": "B(4)",
 "tier": "thorough",
 "harness": "h_rbtree_erase",
 "defines": ["EXT2_CUSTOM_MEMORY_ROUTINES", "RB_N=4", "RB_NEW=0", "RB_BITS=16"],
 "unwind": 9,
 "unwind_reason": "BOUNDED: a tree of at most 4 nodes has height <= 3, so every descent / successor / predecessor loop of blkmap64_rb.c and rbtree.c runs at most that often (+1 for the exit test), the neighbour loops at most once per node; rebalancing loops climb at most one level per round; harness loops have constant bounds <= 8 (global unwind 9). Every bound is confirmed by an unwinding assertion.",
 "sources": ["lib/ext2fs/rbtree.c"],
 "functions": ["lib/ext2fs/rbtree.c:ext2fs_rb_erase", "lib/ext2fs/rbtree.c:__rb_erase_color", "lib/ext2fs/rbtree.c:__rb_rotate_left", "lib/ext2fs/rbtree.c:__rb_rotate_right"],
 "assumes": ["BOUNDED stand-in, not counted as proved: the tree has exactly 4 extents (sorted, disjoint, non-adjacent, count > 0) in every red-black shape of that size; wcursor/rcursor NULL or any node, rcursor_next NULL or the successor of rcursor (any node if rcursor is NULL)", "allocation does not fail: ext2fs.h is compiled with its own hook EXT2_CUSTOM_MEMORY_ROUTINES and ext2fs_get_mem/ext2fs_free_mem are the trivial malloc/free stubs of rb_common.h (typed pointer store instead of memcpy); malloc is __CPROVER_allocate, i.e. never NULL (rb_get_new_extent abort()s on failure anyway)", "BOUNDED: bitmap->real_end - bitmap->start < 2^16 (offsets are 64-bit in the code and in the harness; the cap only narrows the values, chosen because the SAT proof of the ordering lemmas is the bottleneck)", "any node of the tree is erased; cursors are not involved"],
 "backend": "minisat",
 "no_cross_check": true,
 "native": true,
 "cbmc_flags": ["--object-bits", "10"],
 "unwindset": {"ext2fs_rb_erase.0": 2, "__rb_erase_color.0": 2},
 "timeout": 1200
}
*/
/* VERIF-UNIT
{
 "name": "rbtree_insert_b4",
 "props": ["C16"],
 "level": "B(4)",
 "tier": "thorough",
 "harness": "h_rbtree_insert",
 "defines": ["EXT2_CUSTOM_MEMORY_ROUTINES", "RB_N=4", "RB_NEW=1", "RB_BITS=16"],
 "unwind": 9,
 "unwind_reason": "BOUNDED: a tree of at most 5 nodes has height <= 3, so every descent / successor / predecessor loop of blkmap64_rb.c and rbtree.c runs at most that often (+1 for the exit test), the neighbour loops at most once per node; rebalancing loops climb at most one level per round; harness loops have constant bounds <= 8 (global unwind 9). Every bound is confirmed by an unwinding assertion.",
 "sources": ["lib/ext2fs/rbtree.c"],
 "functions": ["lib/ext2fs/rbtree.c:ext2fs_rb_insert_color", "lib/ext2fs/rbtree.c:__rb_rotate_left", "lib/ext2fs/rbtree.c:__rb_rotate_right", "lib/ext2fs/rbtree.h:ext2fs_rb_link_node"],
 "assumes": ["BOUNDED stand-in, not counted as proved: the tree has exactly 4 extents (sorted, disjoint, non-adjacent, count > 0) in every red-black shape of that size; wcursor/rcursor NULL or any node, rcursor_next NULL or the successor of rcursor (any node if rcursor is NULL)", "allocation does not fail: ext2fs.h is compiled with its own hook EXT2_CUSTOM_MEMORY_ROUTINES and ext2fs_get_mem/ext2fs_free_mem are the trivial malloc/free stubs of rb_common.h (typed pointer store instead of memcpy); malloc is __CPROVER_allocate, i.e. never NULL (rb_get_new_extent abort()s on failure anyway)", "BOUNDED: bitmap->real_end - bitmap->start < 2^16 (offsets are 64-bit in the code and in the harness; the cap only narrows the values, chosen because the SAT proof of the ordering lemmas is the bottleneck)", "the new node is linked by an ordinary binary-search-tree descent at any key position not touching an existing extent"],
 "backend": "minisat",
 "no_cross_check": true,
 "native": true,
 "cbmc_flags": ["--object-bits", "10"],
 "unwindset": {"ext2fs_rb_insert_color.0": 2},
 "timeout": 1200
}
*/
#include "rb_common.h"

#define IN_RANGE_REL(k, s, c) ((k) >= (s) && (k) - (s) < (c))

/*
 * Scenario predicates over the inputs (relative range [a, a+c), no wrap).  For each mutating operation the scenarios
 * selected by RB_SCEN partition the input space (RB_SCEN 0 / undefined: no restriction):
 *   insert  1: hit && !reach   the range starts in or immediately behind an extent and does not reach the next one
 *                              (tree structure unchanged: neither a new node nor an erase)
 *           2: !hit && !reach  a new node, nothing merged (no erase)
 *           3: hit && reach    an extent is extended and swallows / merges with later ones (erase, no new node)
 *           4: !hit && reach   a new node that swallows / merges with later ones (new node and erase)
 *   remove  1: !covered && !split   extents are only truncated (structure unchanged)
 *           2: split                the range lies strictly inside one extent (new node via rb_insert_extent, no erase)
 *           3: covered              at least one extent lies entirely inside the range (erase, rb_insert_extent unreachable)
 *   resize  1: !beyond && (!pad || touch)   nothing cut off entirely, padding absent or glued to the extent holding new_end
 *           2: !beyond && pad && !touch     padding becomes a new node
 *           3: beyond && (!pad || touch)    whole extents cut off (erase), no new node
 *           4: beyond && pad && !touch      erase and new node
 */
static int sc_hit(unsigned long long a)
{
	int r = 0;
	for (int i = 0; i < RB_N; i++)
		if (i < NN && IN.es[i] <= a && a <= IN.es[i] + IN.ec[i])
			r = 1;
	return r;
}
static int sc_reach(unsigned long long a, unsigned long long c)
{
	int r = 0;
	for (int i = 0; i < RB_N; i++)
		if (i < NN && a < IN.es[i] && IN.es[i] <= a + c)
			r = 1;
	return r;
}
static int sc_covered(unsigned long long a, unsigned long long c)
{
	int r = 0;
	for (int i = 0; i < RB_N; i++)
		if (i < NN && a <= IN.es[i] && IN.es[i] + IN.ec[i] <= a + c)
			r = 1;
	return r;
}
static int sc_split(unsigned long long a, unsigned long long c)
{
	int r = 0;
	for (int i = 0; i < RB_N; i++)
		if (i < NN && IN.es[i] < a && a + c < IN.es[i] + IN.ec[i])
			r = 1;
	return r;
}
static int sc_beyond(unsigned long long new_max)
{
	int r = 0;
	for (int i = 0; i < RB_N; i++)
		if (i < NN && IN.es[i] > new_max)
			r = 1;
	return r;
}
static int sc_holds(unsigned long long b)	/* some extent contains bit b (same as ref_member, named for the scenario) */
{
	return ref_member(b);
}

static void check_unchanged(void)
{
	CHECK_TREE("query");
	CHECK(WN == NN, "a query does not change the number of extents");
	CHECK(view(verif_k) == ref_member(verif_k), "the set is unchanged by a query");
}

void h_rb_test(void)
{
	build_rb();
	ASSUME(IN.arg >= IN.start && IN.arg <= IN.real_end);
	int r = rb_test_bmap(&BM, IN.arg);
	CHECK((r != 0) == ref_member(IN.arg - IN.start), "test_bmap returns membership");
	check_unchanged();
	if (NN == RB_N && IN.rc && IN.rcn && !ref_member(IN.arg - IN.start)) REACH("rcursor and rcursor_next set, not a member");
	if (NN == RB_N && IN.rc == 0 && IN.wc && ref_member(IN.arg - IN.start)) REACH("no rcursor, wcursor set, member");
	REACH("end");
}

/* mark_bmap (one bit, returns the old membership) / mark_bmap_extent (IN.num bits) through the ops-table entries */
void h_rb_insert(void)
{
	build_rb();
	ASSUME(IN.num >= 1 && IN.arg <= IN.real_end - IN.start && IN.num - 1 <= IN.real_end - IN.start - IN.arg);
#if RB_SCEN == 1
	ASSUME(sc_hit(IN.arg) && !sc_reach(IN.arg, IN.num));
#elif RB_SCEN == 2
	ASSUME(!sc_hit(IN.arg) && !sc_reach(IN.arg, IN.num));
#elif RB_SCEN == 3
	ASSUME(sc_hit(IN.arg) && sc_reach(IN.arg, IN.num));
#elif RB_SCEN == 4
	ASSUME(!sc_hit(IN.arg) && sc_reach(IN.arg, IN.num));
#endif
	int r = rb_insert_extent(IN.arg, IN.num, BP);
	CHECK(IN.num != 1 || (r != 0) == ref_member(IN.arg), "mark of one bit returns its old membership");
	CHECK_TREE("insert_extent");
	CHECK(view(verif_k) == (ref_member(verif_k) || IN_RANGE_REL(verif_k, IN.arg, IN.num)), "insert_extent: the set gains exactly [start, start+count)");
	/* situations, phrased over the inputs */
#if RB_SCEN == 1 && RB_N >= 1
	if (NN == RB_N && IN.wc == 1 && IN.arg == IN.es[0] + IN.ec[0]) REACH("wcursor shortcut: range immediately behind extent 0 (merge with the left neighbour)");
	if (NN == RB_N && IN.wc == 0 && IN.arg == IN.es[RB_N - 1] + IN.ec[RB_N - 1]) REACH("no wcursor: range immediately behind the last extent (merge with the left neighbour)");
	if (NN == RB_N && IN.arg > IN.es[0] && IN.arg + IN.num < IN.es[0] + IN.ec[0]) REACH("range strictly inside extent 0");
#elif RB_SCEN == 2 && RB_N >= 2
	if (NN == RB_N && IN.arg > IN.es[0] + IN.ec[0] && IN.arg + IN.num < IN.es[1]) REACH("new extent strictly inside the gap between extents 0 and 1");
	if (NN == RB_N && IN.wc == RB_N && IN.arg + IN.num < IN.es[0]) REACH("wcursor on the last extent, new extent before extent 0");
#elif RB_SCEN == 2 && RB_N == 1
	if (IN.wc == 1 && IN.arg + IN.num < IN.es[0]) REACH("wcursor set, new extent before extent 0");
#elif RB_SCEN == 3 && RB_N >= 2
	if (NN == RB_N && IN.arg == IN.es[0] + IN.ec[0] && IN.arg + IN.num == IN.es[1]) REACH("range exactly fills the gap between extents 0 and 1 (merge left and right)");
	if (NN == RB_N && IN.wc == 1 && IN.arg > IN.es[0] && IN.arg + IN.num > IN.es[RB_N - 1] + IN.ec[RB_N - 1]) REACH("wcursor shortcut: range from inside extent 0 beyond the last extent");
#elif RB_SCEN == 4 && RB_N >= 1
	if (NN == RB_N && IN.arg + IN.num == IN.es[0]) REACH("range ends immediately before extent 0 (merge with the right neighbour)");
	if (NN == RB_N && IN.arg < IN.es[0] && IN.arg + IN.num > IN.es[RB_N - 1] + IN.ec[RB_N - 1]) REACH("range swallows every extent");
#endif
	REACH("end");
}

/* unmark_bmap (one bit, returns the old membership) / rb_remove_extent (returns nonzero iff a bit of the range was set) */
void h_rb_remove(void)
{
	build_rb();
	ASSUME(IN.num >= 1 && IN.arg <= IN.real_end - IN.start && IN.num - 1 <= IN.real_end - IN.start - IN.arg);
#if RB_SCEN == 1
	ASSUME(!sc_covered(IN.arg, IN.num) && !sc_split(IN.arg, IN.num));
#elif RB_SCEN == 2
	ASSUME(sc_split(IN.arg, IN.num));
#elif RB_SCEN == 3
	ASSUME(sc_covered(IN.arg, IN.num));
#endif
	int r = rb_remove_extent(IN.arg, IN.num, BP);
	CHECK((r != 0) == ref_any_in(IN.arg, IN.num), "remove_extent returns nonzero iff some bit of the range was set (unmark of one bit: its old membership)");
	CHECK_TREE("remove_extent");
	CHECK(view(verif_k) == (ref_member(verif_k) && !IN_RANGE_REL(verif_k, IN.arg, IN.num)), "remove_extent: the set loses exactly [start, start+count)");
#if RB_SCEN == 1 && RB_N >= 1
	if (NN == RB_N && IN.arg < IN.es[0] && IN.arg + IN.num > IN.es[0] && IN.arg + IN.num < IN.es[0] + IN.ec[0]) REACH("range starts outside and ends strictly inside extent 0 (head truncated)");
	if (NN == RB_N && IN.arg == IN.es[0] && IN.num < IN.ec[0]) REACH("range is a proper prefix of extent 0");
	if (NN == RB_N && IN.arg > IN.es[0] && IN.arg + IN.num == IN.es[0] + IN.ec[0]) REACH("range is a proper suffix of extent 0");
	if (NN == RB_N && IN.arg + IN.num == IN.es[0]) REACH("range ends immediately before extent 0");
#endif
#if RB_SCEN == 1 && RB_N >= 2
	if (NN == RB_N && IN.arg > IN.es[0] && IN.arg < IN.es[0] + IN.ec[0] && IN.arg + IN.num > IN.es[1] && IN.arg + IN.num < IN.es[1] + IN.ec[1]) REACH("range from inside extent 0 to inside extent 1 (tail and head truncated)");
#endif
#if RB_SCEN == 2 && RB_N >= 1
	if (NN == RB_N && IN.arg > IN.es[RB_N - 1] && IN.arg + IN.num < IN.es[RB_N - 1] + IN.ec[RB_N - 1]) REACH("range covers the middle of the last extent (split)");
	if (NN == RB_N && IN.arg > IN.es[0] && IN.arg + IN.num < IN.es[0] + IN.ec[0] && IN.wc == 1 && IN.rc == 1) REACH("range covers the middle of extent 0, both cursors on it (split)");
#endif
#if RB_SCEN == 3 && RB_N >= 1
	if (NN == RB_N && IN.arg <= IN.es[0] && IN.arg + IN.num >= IN.es[RB_N - 1] + IN.ec[RB_N - 1]) REACH("range covers every extent");
	if (NN == RB_N && IN.arg == IN.es[0] && IN.num == IN.ec[0] && IN.rc == 1 && IN.rcn) REACH("range is exactly extent 0, rcursor on it");
#endif
	REACH("end");
}

void h_rb_test_clear(void)
{
	build_rb();
	ASSUME(IN.num >= 1 && IN.arg >= IN.start && IN.arg <= IN.real_end && IN.num - 1 <= IN.real_end - IN.arg);
	int r = rb_test_clear_bmap_extent(&BM, IN.arg, IN.num);
	CHECK((r != 0) == !ref_any_in(IN.arg - IN.start, IN.num), "test_clear_bmap_extent: nonzero iff no bit of the range is set");
	check_unchanged();
#if RB_N >= 1
	if (NN == RB_N && IN.arg - IN.start < IN.es[0] && IN.arg - IN.start + IN.num > IN.es[0]) REACH("range starts before extent 0 and reaches into it");
	if (NN == RB_N && IN.arg - IN.start + IN.num == IN.es[RB_N - 1]) REACH("range ends immediately before the last extent");
#endif
	if (!ref_any_in(IN.arg - IN.start, IN.num)) REACH("range clear");
	REACH("end");
}

void h_rb_ffz(void)
{
	build_rb();
	ASSUME(IN.arg >= IN.start && IN.arg <= IN.arg2 && IN.arg2 <= IN.end);
	__u64 out = 0;
	unsigned long long s = IN.arg - IN.start, e = IN.arg2 - IN.start;
	errcode_t r = rb_find_first_zero(&BM, IN.arg, IN.arg2, &out);
	CHECK(r == 0 || r == ENOENT, "find_first_zero returns 0 or ENOENT on a valid range");
	if (r == 0) {
		CHECK(out >= IN.arg && out <= IN.arg2, "find_first_zero: result inside [start, end]");
		CHECK(!ref_member(out - IN.start), "find_first_zero: the result is not a member");
		CHECK(!(verif_k >= s && verif_k < out - IN.start) || ref_member(verif_k), "find_first_zero: every bit before the result is a member");
	} else {
		CHECK(!(verif_k >= s && verif_k <= e) || ref_member(verif_k), "find_first_zero: ENOENT only if every bit of [start, end] is a member");
	}
	check_unchanged();
#if RB_N >= 1
	if (NN == RB_N && ref_member(s) && IN.es[RB_N - 1] + IN.ec[RB_N - 1] - 1 == e) REACH("start is a member, the range ends with the last bit of the last extent");
	if (NN == RB_N && ref_member(s) && !ref_member(e)) REACH("start is a member, end is not");
#endif
	if (!ref_member(s)) REACH("start is not a member");
	REACH("end");
}

void h_rb_ffs(void)
{
	build_rb();
	ASSUME(IN.arg >= IN.start && IN.arg <= IN.arg2 && IN.arg2 <= IN.end);
	__u64 out = 0;
	unsigned long long s = IN.arg - IN.start, e = IN.arg2 - IN.start;
	errcode_t r = rb_find_first_set(&BM, IN.arg, IN.arg2, &out);
	CHECK(r == 0 || r == ENOENT, "find_first_set returns 0 or ENOENT on a valid range");
	if (r == 0) {
		CHECK(out >= IN.arg && out <= IN.arg2, "find_first_set: result inside [start, end]");
		CHECK(ref_member(out - IN.start), "find_first_set: the result is a member");
		CHECK(!(verif_k >= s && verif_k < out - IN.start) || !ref_member(verif_k), "find_first_set: no bit before the result is a member");
	} else {
		CHECK(!(verif_k >= s && verif_k <= e) || !ref_member(verif_k), "find_first_set: ENOENT only if no bit of [start, end] is a member");
	}
	check_unchanged();
#if RB_N >= 1
	if (NN == RB_N && !ref_member(s) && s < IN.es[RB_N - 1] && e >= IN.es[RB_N - 1]) REACH("start not a member, a later extent begins inside the range");
	if (NN == RB_N && s > IN.es[RB_N - 1] + IN.ec[RB_N - 1]) REACH("start behind the last extent");
#endif
	if (!ref_any_in(s, e - s + 1)) REACH("no member in the range");
	REACH("end");
}

#ifndef RB_RANGE_BITS
#define RB_RANGE_BITS 16
#endif
#define RB_RANGE_BYTES ((RB_RANGE_BITS + 7) / 8)
void h_rb_get_range(void)
{
	build_rb();
	ASSUME(IN.num >= 1 && IN.num <= RB_RANGE_BITS);
	ASSUME(IN.arg >= IN.start && IN.arg <= IN.real_end && IN.num - 1 <= IN.real_end - IN.arg);
	unsigned char *out = malloc(RB_RANGE_BYTES);
	ASSUME(out != 0);
	for (int i = 0; i < RB_RANGE_BYTES; i++)
		out[i] = IN.buf[i];		/* previous content of the caller's buffer: arbitrary */
	unsigned long long j = IN.k;		/* ghost bit position inside the range */
	ASSUME(j < IN.num);
	errcode_t r = rb_get_bmap_range(&BM, IN.arg, IN.num, out);
	CHECK(r == 0, "get_bmap_range succeeds");
	CHECK(((out[j >> 3] >> (j & 7)) & 1) == ref_member(IN.arg - IN.start + j), "get_bmap_range: output bit j = membership of start + j");
	verif_k = IN.arg - IN.start + j;
	check_unchanged();
#if RB_N >= 1
	if (NN == RB_N && IN.arg - IN.start > IN.es[0] && IN.arg - IN.start < IN.es[0] + IN.ec[0] && IN.num > 8 && IN.es[0] + IN.ec[0] - (IN.arg - IN.start) > 8) REACH("range starts inside extent 0 and more than a byte of it follows");
	if (NN == RB_N && IN.arg - IN.start < IN.es[0] && IN.arg - IN.start + IN.num > IN.es[RB_N - 1] + IN.ec[RB_N - 1]) REACH("range covers every extent");
#endif
	REACH("end");
}

#ifndef RB_SET_BITS
#define RB_SET_BITS 6
#endif
/*
 * RB_PATTERN (optional): the input buffer is that constant (little endian, up to 16 bits) and num is exactly RB_SET_BITS,
 * so that the run-extraction loop of rb_set_bmap_range has concrete control flow and the formula contains exactly as
 * many rb_insert_extent bodies as the pattern has runs.  Without it buffer and num (1..RB_SET_BITS) are symbolic.
 * RB_SCEN 2: no extent of the tree touches or is adjacent to [start - 1, start + num]: the new runs are new nodes and
 * nothing is merged (ext2fs_rb_erase unreachable).
 */
void h_rb_set_range(void)
{
	build_rb();
#ifdef RB_PATTERN
	IN.num = RB_SET_BITS;
	IN.buf[0] = (RB_PATTERN) & 0xff;
	IN.buf[1] = ((RB_PATTERN) >> 8) & 0xff;
#endif
	ASSUME(IN.num >= 1 && IN.num <= RB_SET_BITS);
	ASSUME(IN.arg >= IN.start && IN.arg <= IN.real_end && IN.num - 1 <= IN.real_end - IN.arg);
	unsigned char *in = malloc((RB_SET_BITS + 7) / 8);
	ASSUME(in != 0);
	for (int i = 0; i < (RB_SET_BITS + 7) / 8; i++)
		in[i] = IN.buf[i];
	unsigned long long s = IN.arg - IN.start;
#if RB_SCEN == 2
	ASSUME(!sc_hit(s) && !sc_reach(s, IN.num) && !ref_any_in(s, IN.num));
	ASSUME(s == 0 || !ref_member(s - 1));
#endif
	errcode_t r = rb_set_bmap_range(&BM, IN.arg, IN.num, in);
	CHECK(r == 0, "set_bmap_range succeeds");
	CHECK_TREE("set_bmap_range");
	CHECK(view(verif_k) == (ref_member(verif_k) || (IN_RANGE_REL(verif_k, s, IN.num) && ((IN.buf[(verif_k - s) >> 3] >> ((verif_k - s) & 7)) & 1))),
	      "set_bmap_range: the set gains exactly the bits set in the input buffer");
#ifndef RB_PATTERN
	if (IN.num >= 3 && (IN.buf[0] & 7) == 5) REACH("two separate runs inserted");
	if (IN.num == RB_SET_BITS && (IN.buf[0] & ((1 << RB_SET_BITS) - 1)) == ((1 << RB_SET_BITS) - 1)) REACH("one run up to the end of the range");
#endif
	REACH("end");
}

void h_rb_resize(void)
{
	build_rb();
	ASSUME(IN.arg >= IN.start && IN.arg <= IN.arg2 && IN.arg2 - IN.start < (1ULL << RB_BITS));
	unsigned long long keep = (IN.arg < IN.end ? IN.arg : IN.end) - IN.start;	/* last bit that survives */
	{
		int beyond = sc_beyond(keep), pad = IN.arg < IN.arg2;
		int touch = IN.arg <= IN.end && sc_holds(IN.arg - IN.start);
#if RB_SCEN == 1
		ASSUME(!beyond && (!pad || touch));
#elif RB_SCEN == 2
		ASSUME(!beyond && pad && !touch);
#elif RB_SCEN == 3
		ASSUME(beyond && (!pad || touch));
#elif RB_SCEN == 4
		ASSUME(beyond && pad && !touch);
#endif
		(void)beyond; (void)pad; (void)touch;
	}
	errcode_t r = rb_resize_bmap(&BM, IN.arg, IN.arg2);
	CHECK(r == 0, "resize succeeds");
	CHECK(BM.end == IN.arg && BM.real_end == IN.arg2 && BM.start == IN.start, "resize installs the new geometry");
	CHECK_TREE("resize");
	int expect = verif_k <= keep ? ref_member(verif_k) :
		     verif_k <= IN.arg - IN.start ? 0 :
		     verif_k <= IN.arg2 - IN.start ? 1 : 0;	/* padding (new_end, new_real_end] is marked, nothing beyond */
	CHECK(view(verif_k) == expect, "resize: members <= min(old end, new end) kept, new tail empty, padding marked");
#if RB_SCEN == 1 && RB_N >= 1
	if (NN == RB_N && IN.arg < IN.end && IN.arg - IN.start > IN.es[RB_N - 1] && IN.arg - IN.start < IN.es[RB_N - 1] + IN.ec[RB_N - 1] - 1 && IN.arg < IN.arg2) REACH("shrink into the last extent, padding glued to it");
	if (NN == RB_N && IN.arg > IN.end && IN.arg == IN.arg2) REACH("grow without padding");
#elif RB_SCEN == 2 && RB_N >= 1
	if (NN == RB_N && IN.arg > IN.end && IN.es[RB_N - 1] + IN.ec[RB_N - 1] - 1 == IN.end - IN.start) REACH("grow, last extent ends at the old end, padding becomes a new extent");
	if (NN == RB_N && IN.arg < IN.end) REACH("shrink, padding becomes a new extent");
#elif RB_SCEN == 3 && RB_N >= 1
	if (NN == RB_N && IN.arg - IN.start < IN.es[0] && IN.arg == IN.arg2) REACH("shrink below the first extent, no padding");
	if (NN == RB_N && IN.arg > IN.end && IN.es[RB_N - 1] > IN.end - IN.start) REACH("grow, old padding extent removed");
#elif RB_SCEN == 4 && RB_N >= 1
	if (NN == RB_N && IN.arg - IN.start < IN.es[0]) REACH("shrink below the first extent, padding is the only extent left");
#endif
	REACH("end");
}

/* ---- lib/ext2fs/rbtree.c itself: ext2fs_rb_erase / ext2fs_rb_insert_color on every red-black tree of RB_N nodes ---- */
void h_rbtree_erase(void)
{
	build_rb();
	ASSUME(IN.num < RB_N);
	struct bmap_rb_extent *victim = ND[IN.num];
	BP->wcursor = BP->rcursor = BP->rcursor_next = 0;
	ext2fs_rb_erase(&victim->node, &BP->root);
	CHECK_TREE("rb_erase");
	CHECK(WN == RB_N - 1, "rb_erase: one node fewer");
	for (int i = 0; i < RB_N; i++)
		if (i < WN)
			CHECK(W[i] == ND[i < (int)IN.num ? i : i + 1], "rb_erase: the in-order sequence is the old one without the victim");
	REACH("end");
}

void h_rbtree_insert(void)
{
	build_rb();
	BP->wcursor = BP->rcursor = BP->rcursor_next = 0;
	/* the new key [arg, arg+arg2) lies in a gap of the sequence, not adjacent to a neighbour */
	ASSUME(IN.arg2 >= 1 && IN.arg <= IN.real_end - IN.start && IN.arg2 - 1 <= IN.real_end - IN.start - IN.arg);
	ASSUME(!sc_hit(IN.arg) && !sc_reach(IN.arg, IN.arg2) && !ref_any_in(IN.arg, IN.arg2));
	struct bmap_rb_extent *nw = malloc(sizeof(struct bmap_rb_extent));
	ASSUME(nw != 0);
	nw->start = IN.arg;
	nw->count = IN.arg2;
	ND[RB_N] = nw;
	/* ordinary binary-search-tree descent by key (what every caller of ext2fs_rb_link_node does) */
	struct rb_node **link = &BP->root.rb_node, *parent = 0;
	for (int d = 0; d < RB_MAXH; d++) {
		if (*link) {
			parent = *link;
			link = IN.arg < node_to_extent(parent)->start ? &parent->rb_left : &parent->rb_right;
		}
	}
	CHECK(*link == 0, "harness: the descent ends at a free link (the builder's trees are not higher than RB_MAXH)");
	ext2fs_rb_link_node(&nw->node, parent, link);
	ext2fs_rb_insert_color(&nw->node, &BP->root);
	CHECK_TREE("rb_insert_color");
	CHECK(WN == RB_N + 1, "rb_insert_color: one node more");
	CHECK(in_tree(nw), "rb_insert_color: the new node is in the tree");
	for (int i = 0; i < RB_N; i++)
		CHECK(in_tree(ND[i]), "rb_insert_color: every old node is still in the tree");
	CHECK(view(verif_k) == (ref_member(verif_k) || IN_RANGE_REL(verif_k, IN.arg, IN.arg2)), "rb_insert_color: the keys are the old ones plus the new one (sorted: see well_formed)");
#if RB_N >= 1
	if (IN.arg < IN.es[0]) REACH("new smallest key");
	if (IN.arg > IN.es[RB_N - 1]) REACH("new largest key");
#endif
	REACH("end");
}

/*
 * the ops-table entries rb_mark_bmap / rb_mark_bmap_extent / rb_unmark_bmap / rb_unmark_bmap_extent: they subtract
 * bitmap->start and call rb_insert_extent / rb_remove_extent.  One extent; mark: the range lies strictly inside it,
 * unmark: the range is a proper prefix of it (tree structure unchanged in both cases).
 */
void h_rb_wrappers(void)
{
	build_rb();
	ASSUME(IN.num >= 1 && IN.arg <= IN.real_end - IN.start && IN.num - 1 <= IN.real_end - IN.start - IN.arg);
	unsigned long long a = IN.arg, c = IN.num;
	int expect;
	if (IN.shape & 0x40) {
		ASSUME(a > IN.es[0] && a + c < IN.es[0] + IN.ec[0]);
		if (IN.shape & 0x20) {
			ASSUME(c == 1);
			int r = rb_mark_bmap(&BM, IN.start + a);
			CHECK(r != 0, "mark_bmap of a member returns nonzero");
		} else
			rb_mark_bmap_extent(&BM, IN.start + a, IN.num);
		expect = ref_member(verif_k);
		REACH("mark inside the extent");
	} else {
		ASSUME(a == IN.es[0] && c < IN.ec[0]);
		if (IN.shape & 0x20) {
			ASSUME(c == 1);
			int r = rb_unmark_bmap(&BM, IN.start + a);
			CHECK(r != 0, "unmark_bmap of a member returns nonzero");
		} else
			rb_unmark_bmap_extent(&BM, IN.start + a, IN.num);
		expect = ref_member(verif_k) && !IN_RANGE_REL(verif_k, a, c);
		REACH("unmark a proper prefix of the extent");
	}
	CHECK_TREE("mark/unmark");
	CHECK(view(verif_k) == expect, "mark/unmark through the ops-table entries: exactly the bits of the absolute range change");
	CHECK(BM.start == IN.start && BM.end == IN.end && BM.real_end == IN.real_end, "geometry untouched");
	REACH("end");
}
