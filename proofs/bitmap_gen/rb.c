/*
 * blkmap64_rb.c — BOUNDED units (level B(n): trees of at most n extents before the operation; never counted as proved).
 * Harness-level obligations only (the operations free and allocate tree nodes; a DFCC frame for that is not
 * expressible without quantifiers), see rb_common.h for the tree builder, well_formed, the colour invariants and the
 * set view.  lib/ext2fs/rbtree.c (the real rebalancing code) is linked as a second translation unit.
 */
/* VERIF-UNIT
{
 "name": "rb_test_bit_n0",
 "props": [
  "C16"
 ],
 "level": "B(0)",
 "tier": "wip",
 "harness": "h_rb_test",
 "defines": [
  "EXT2_CUSTOM_MEMORY_ROUTINES",
  "RB_N=0",
  "RB_NEW=0"
 ],
 "unwind": 9,
 "unwind_reason": "x",
 "sources": [
  "lib/ext2fs/rbtree.c"
 ],
 "functions": [
  "lib/ext2fs/blkmap64_rb.c:rb_test_bmap",
  "lib/ext2fs/blkmap64_rb.c:rb_test_bit"
 ],
 "assumes": [
  "BOUNDED: tree of exactly 0 well-formed extents, every red-black shape, arbitrary cursors"
 ],
 "backend": "minisat",
 "native": true,
 "cbmc_flags": [
  "--object-bits",
  "10"
 ],
 "unwindset": {
  "ext2fs_rb_next.0": 1,
  "ext2fs_rb_next.1": 1,
  "rb_test_bit.0": 1
 }
}
*/
/* VERIF-UNIT
{
 "name": "rb_test_bit_n1",
 "props": [
  "C16"
 ],
 "level": "B(1)",
 "tier": "wip",
 "harness": "h_rb_test",
 "defines": [
  "EXT2_CUSTOM_MEMORY_ROUTINES",
  "RB_N=1",
  "RB_NEW=0"
 ],
 "unwind": 9,
 "unwind_reason": "x",
 "sources": [
  "lib/ext2fs/rbtree.c"
 ],
 "functions": [
  "lib/ext2fs/blkmap64_rb.c:rb_test_bmap",
  "lib/ext2fs/blkmap64_rb.c:rb_test_bit"
 ],
 "assumes": [
  "BOUNDED: tree of exactly 1 well-formed extents, every red-black shape, arbitrary cursors"
 ],
 "backend": "minisat",
 "native": true,
 "cbmc_flags": [
  "--object-bits",
  "10"
 ],
 "unwindset": {
  "ext2fs_rb_next.0": 2,
  "ext2fs_rb_next.1": 2,
  "rb_test_bit.0": 2
 }
}
*/
/* VERIF-UNIT
{
 "name": "rb_test_bit_n2",
 "props": [
  "C16"
 ],
 "level": "B(2)",
 "tier": "wip",
 "harness": "h_rb_test",
 "defines": [
  "EXT2_CUSTOM_MEMORY_ROUTINES",
  "RB_N=2",
  "RB_NEW=0"
 ],
 "unwind": 9,
 "unwind_reason": "x",
 "sources": [
  "lib/ext2fs/rbtree.c"
 ],
 "functions": [
  "lib/ext2fs/blkmap64_rb.c:rb_test_bmap",
  "lib/ext2fs/blkmap64_rb.c:rb_test_bit"
 ],
 "assumes": [
  "BOUNDED: tree of exactly 2 well-formed extents, every red-black shape, arbitrary cursors"
 ],
 "backend": "minisat",
 "native": true,
 "cbmc_flags": [
  "--object-bits",
  "10"
 ],
 "unwindset": {
  "ext2fs_rb_next.0": 3,
  "ext2fs_rb_next.1": 3,
  "rb_test_bit.0": 3
 }
}
*/
/* VERIF-UNIT
{
 "name": "rb_test_bit_n3",
 "props": [
  "C16"
 ],
 "level": "B(3)",
 "tier": "wip",
 "harness": "h_rb_test",
 "defines": [
  "EXT2_CUSTOM_MEMORY_ROUTINES",
  "RB_N=3",
  "RB_NEW=0"
 ],
 "unwind": 9,
 "unwind_reason": "x",
 "sources": [
  "lib/ext2fs/rbtree.c"
 ],
 "functions": [
  "lib/ext2fs/blkmap64_rb.c:rb_test_bmap",
  "lib/ext2fs/blkmap64_rb.c:rb_test_bit"
 ],
 "assumes": [
  "BOUNDED: tree of exactly 3 well-formed extents, every red-black shape, arbitrary cursors"
 ],
 "backend": "minisat",
 "native": true,
 "cbmc_flags": [
  "--object-bits",
  "10"
 ],
 "unwindset": {
  "ext2fs_rb_next.0": 3,
  "ext2fs_rb_next.1": 3,
  "rb_test_bit.0": 3
 }
}
*/
/* VERIF-UNIT
{
 "name": "rb_test_bit_n4",
 "props": [
  "C16"
 ],
 "level": "B(4)",
 "tier": "wip",
 "harness": "h_rb_test",
 "defines": [
  "EXT2_CUSTOM_MEMORY_ROUTINES",
  "RB_N=4",
  "RB_NEW=0"
 ],
 "unwind": 9,
 "unwind_reason": "x",
 "sources": [
  "lib/ext2fs/rbtree.c"
 ],
 "functions": [
  "lib/ext2fs/blkmap64_rb.c:rb_test_bmap",
  "lib/ext2fs/blkmap64_rb.c:rb_test_bit"
 ],
 "assumes": [
  "BOUNDED: tree of exactly 4 well-formed extents, every red-black shape, arbitrary cursors"
 ],
 "backend": "minisat",
 "native": true,
 "cbmc_flags": [
  "--object-bits",
  "10"
 ],
 "unwindset": {
  "ext2fs_rb_next.0": 4,
  "ext2fs_rb_next.1": 4,
  "rb_test_bit.0": 4
 }
}
*/
/* VERIF-UNIT
{
 "name": "rb_insert_extent_n0",
 "props": [
  "C16"
 ],
 "level": "B(0)",
 "tier": "wip",
 "harness": "h_rb_insert",
 "defines": [
  "EXT2_CUSTOM_MEMORY_ROUTINES",
  "RB_N=0",
  "RB_NEW=1"
 ],
 "unwind": 9,
 "unwind_reason": "x",
 "sources": [
  "lib/ext2fs/rbtree.c"
 ],
 "functions": [
  "lib/ext2fs/blkmap64_rb.c:rb_insert_extent",
  "lib/ext2fs/blkmap64_rb.c:rb_mark_bmap",
  "lib/ext2fs/blkmap64_rb.c:rb_mark_bmap_extent",
  "lib/ext2fs/blkmap64_rb.c:rb_get_new_extent",
  "lib/ext2fs/blkmap64_rb.c:rb_free_extent"
 ],
 "assumes": [
  "BOUNDED: tree of exactly 0 well-formed extents, every red-black shape, arbitrary cursors"
 ],
 "backend": "minisat",
 "native": true,
 "cbmc_flags": [
  "--object-bits",
  "10"
 ],
 "unwindset": {
  "ext2fs_rb_next.0": 2,
  "ext2fs_rb_next.1": 2,
  "ext2fs_rb_prev.0": 2,
  "ext2fs_rb_prev.1": 2,
  "ext2fs_rb_erase.0": 1,
  "__rb_erase_color.0": 1,
  "ext2fs_rb_insert_color.0": 1,
  "rb_insert_extent.0": 1,
  "rb_insert_extent.1": 1
 }
}
*/
/* VERIF-UNIT
{
 "name": "rb_insert_extent_n1",
 "props": [
  "C16"
 ],
 "level": "B(1)",
 "tier": "wip",
 "harness": "h_rb_insert",
 "defines": [
  "EXT2_CUSTOM_MEMORY_ROUTINES",
  "RB_N=1",
  "RB_NEW=1"
 ],
 "unwind": 9,
 "unwind_reason": "x",
 "sources": [
  "lib/ext2fs/rbtree.c"
 ],
 "functions": [
  "lib/ext2fs/blkmap64_rb.c:rb_insert_extent",
  "lib/ext2fs/blkmap64_rb.c:rb_mark_bmap",
  "lib/ext2fs/blkmap64_rb.c:rb_mark_bmap_extent",
  "lib/ext2fs/blkmap64_rb.c:rb_get_new_extent",
  "lib/ext2fs/blkmap64_rb.c:rb_free_extent"
 ],
 "assumes": [
  "BOUNDED: tree of exactly 1 well-formed extents, every red-black shape, arbitrary cursors"
 ],
 "backend": "minisat",
 "native": true,
 "cbmc_flags": [
  "--object-bits",
  "10"
 ],
 "unwindset": {
  "ext2fs_rb_next.0": 3,
  "ext2fs_rb_next.1": 3,
  "ext2fs_rb_prev.0": 3,
  "ext2fs_rb_prev.1": 3,
  "ext2fs_rb_erase.0": 1,
  "__rb_erase_color.0": 1,
  "ext2fs_rb_insert_color.0": 1,
  "rb_insert_extent.0": 2,
  "rb_insert_extent.1": 2
 }
}
*/
/* VERIF-UNIT
{
 "name": "rb_insert_extent_n2",
 "props": [
  "C16"
 ],
 "level": "B(2)",
 "tier": "wip",
 "harness": "h_rb_insert",
 "defines": [
  "EXT2_CUSTOM_MEMORY_ROUTINES",
  "RB_N=2",
  "RB_NEW=1"
 ],
 "unwind": 9,
 "unwind_reason": "x",
 "sources": [
  "lib/ext2fs/rbtree.c"
 ],
 "functions": [
  "lib/ext2fs/blkmap64_rb.c:rb_insert_extent",
  "lib/ext2fs/blkmap64_rb.c:rb_mark_bmap",
  "lib/ext2fs/blkmap64_rb.c:rb_mark_bmap_extent",
  "lib/ext2fs/blkmap64_rb.c:rb_get_new_extent",
  "lib/ext2fs/blkmap64_rb.c:rb_free_extent"
 ],
 "assumes": [
  "BOUNDED: tree of exactly 2 well-formed extents, every red-black shape, arbitrary cursors"
 ],
 "backend": "minisat",
 "native": true,
 "cbmc_flags": [
  "--object-bits",
  "10"
 ],
 "unwindset": {
  "ext2fs_rb_next.0": 3,
  "ext2fs_rb_next.1": 3,
  "ext2fs_rb_prev.0": 3,
  "ext2fs_rb_prev.1": 3,
  "ext2fs_rb_erase.0": 2,
  "__rb_erase_color.0": 2,
  "ext2fs_rb_insert_color.0": 2,
  "rb_insert_extent.0": 3,
  "rb_insert_extent.1": 3
 }
}
*/
/* VERIF-UNIT
{
 "name": "rb_insert_extent_n3",
 "props": [
  "C16"
 ],
 "level": "B(3)",
 "tier": "wip",
 "harness": "h_rb_insert",
 "defines": [
  "EXT2_CUSTOM_MEMORY_ROUTINES",
  "RB_N=3",
  "RB_NEW=1"
 ],
 "unwind": 9,
 "unwind_reason": "x",
 "sources": [
  "lib/ext2fs/rbtree.c"
 ],
 "functions": [
  "lib/ext2fs/blkmap64_rb.c:rb_insert_extent",
  "lib/ext2fs/blkmap64_rb.c:rb_mark_bmap",
  "lib/ext2fs/blkmap64_rb.c:rb_mark_bmap_extent",
  "lib/ext2fs/blkmap64_rb.c:rb_get_new_extent",
  "lib/ext2fs/blkmap64_rb.c:rb_free_extent"
 ],
 "assumes": [
  "BOUNDED: tree of exactly 3 well-formed extents, every red-black shape, arbitrary cursors"
 ],
 "backend": "minisat",
 "native": true,
 "cbmc_flags": [
  "--object-bits",
  "10"
 ],
 "unwindset": {
  "ext2fs_rb_next.0": 4,
  "ext2fs_rb_next.1": 4,
  "ext2fs_rb_prev.0": 4,
  "ext2fs_rb_prev.1": 4,
  "ext2fs_rb_erase.0": 2,
  "__rb_erase_color.0": 2,
  "ext2fs_rb_insert_color.0": 2,
  "rb_insert_extent.0": 3,
  "rb_insert_extent.1": 4
 }
}
*/
/* VERIF-UNIT
{
 "name": "rb_insert_extent_n4",
 "props": [
  "C16"
 ],
 "level": "B(4)",
 "tier": "wip",
 "harness": "h_rb_insert",
 "defines": [
  "EXT2_CUSTOM_MEMORY_ROUTINES",
  "RB_N=4",
  "RB_NEW=1"
 ],
 "unwind": 9,
 "unwind_reason": "x",
 "sources": [
  "lib/ext2fs/rbtree.c"
 ],
 "functions": [
  "lib/ext2fs/blkmap64_rb.c:rb_insert_extent",
  "lib/ext2fs/blkmap64_rb.c:rb_mark_bmap",
  "lib/ext2fs/blkmap64_rb.c:rb_mark_bmap_extent",
  "lib/ext2fs/blkmap64_rb.c:rb_get_new_extent",
  "lib/ext2fs/blkmap64_rb.c:rb_free_extent"
 ],
 "assumes": [
  "BOUNDED: tree of exactly 4 well-formed extents, every red-black shape, arbitrary cursors"
 ],
 "backend": "minisat",
 "native": true,
 "cbmc_flags": [
  "--object-bits",
  "10"
 ],
 "unwindset": {
  "ext2fs_rb_next.0": 4,
  "ext2fs_rb_next.1": 4,
  "ext2fs_rb_prev.0": 4,
  "ext2fs_rb_prev.1": 4,
  "ext2fs_rb_erase.0": 3,
  "__rb_erase_color.0": 3,
  "ext2fs_rb_insert_color.0": 2,
  "rb_insert_extent.0": 4,
  "rb_insert_extent.1": 5
 }
}
*/
/* VERIF-UNIT
{
 "name": "rb_remove_extent_n0",
 "props": [
  "C16"
 ],
 "level": "B(0)",
 "tier": "wip",
 "harness": "h_rb_remove",
 "defines": [
  "EXT2_CUSTOM_MEMORY_ROUTINES",
  "RB_N=0",
  "RB_NEW=1"
 ],
 "unwind": 9,
 "unwind_reason": "x",
 "sources": [
  "lib/ext2fs/rbtree.c"
 ],
 "functions": [
  "lib/ext2fs/blkmap64_rb.c:rb_remove_extent",
  "lib/ext2fs/blkmap64_rb.c:rb_unmark_bmap",
  "lib/ext2fs/blkmap64_rb.c:rb_unmark_bmap_extent",
  "lib/ext2fs/blkmap64_rb.c:rb_free_extent"
 ],
 "assumes": [
  "BOUNDED: tree of exactly 0 well-formed extents, every red-black shape, arbitrary cursors"
 ],
 "backend": "minisat",
 "native": true,
 "cbmc_flags": [
  "--object-bits",
  "10"
 ],
 "unwindset": {
  "ext2fs_rb_next.0": 2,
  "ext2fs_rb_next.1": 2,
  "ext2fs_rb_prev.0": 2,
  "ext2fs_rb_prev.1": 2,
  "ext2fs_rb_erase.0": 1,
  "__rb_erase_color.0": 1,
  "ext2fs_rb_insert_color.0": 1,
  "rb_insert_extent.0": 1,
  "rb_insert_extent.1": 1,
  "rb_remove_extent.0": 2,
  "rb_remove_extent.1": 2
 }
}
*/
/* VERIF-UNIT
{
 "name": "rb_remove_extent_n1",
 "props": [
  "C16"
 ],
 "level": "B(1)",
 "tier": "wip",
 "harness": "h_rb_remove",
 "defines": [
  "EXT2_CUSTOM_MEMORY_ROUTINES",
  "RB_N=1",
  "RB_NEW=1"
 ],
 "unwind": 9,
 "unwind_reason": "x",
 "sources": [
  "lib/ext2fs/rbtree.c"
 ],
 "functions": [
  "lib/ext2fs/blkmap64_rb.c:rb_remove_extent",
  "lib/ext2fs/blkmap64_rb.c:rb_unmark_bmap",
  "lib/ext2fs/blkmap64_rb.c:rb_unmark_bmap_extent",
  "lib/ext2fs/blkmap64_rb.c:rb_free_extent"
 ],
 "assumes": [
  "BOUNDED: tree of exactly 1 well-formed extents, every red-black shape, arbitrary cursors"
 ],
 "backend": "minisat",
 "native": true,
 "cbmc_flags": [
  "--object-bits",
  "10"
 ],
 "unwindset": {
  "ext2fs_rb_next.0": 3,
  "ext2fs_rb_next.1": 3,
  "ext2fs_rb_prev.0": 3,
  "ext2fs_rb_prev.1": 3,
  "ext2fs_rb_erase.0": 1,
  "__rb_erase_color.0": 1,
  "ext2fs_rb_insert_color.0": 1,
  "rb_insert_extent.0": 2,
  "rb_insert_extent.1": 2,
  "rb_remove_extent.0": 3,
  "rb_remove_extent.1": 3
 }
}
*/
/* VERIF-UNIT
{
 "name": "rb_remove_extent_n2",
 "props": [
  "C16"
 ],
 "level": "B(2)",
 "tier": "wip",
 "harness": "h_rb_remove",
 "defines": [
  "EXT2_CUSTOM_MEMORY_ROUTINES",
  "RB_N=2",
  "RB_NEW=1"
 ],
 "unwind": 9,
 "unwind_reason": "x",
 "sources": [
  "lib/ext2fs/rbtree.c"
 ],
 "functions": [
  "lib/ext2fs/blkmap64_rb.c:rb_remove_extent",
  "lib/ext2fs/blkmap64_rb.c:rb_unmark_bmap",
  "lib/ext2fs/blkmap64_rb.c:rb_unmark_bmap_extent",
  "lib/ext2fs/blkmap64_rb.c:rb_free_extent"
 ],
 "assumes": [
  "BOUNDED: tree of exactly 2 well-formed extents, every red-black shape, arbitrary cursors"
 ],
 "backend": "minisat",
 "native": true,
 "cbmc_flags": [
  "--object-bits",
  "10"
 ],
 "unwindset": {
  "ext2fs_rb_next.0": 3,
  "ext2fs_rb_next.1": 3,
  "ext2fs_rb_prev.0": 3,
  "ext2fs_rb_prev.1": 3,
  "ext2fs_rb_erase.0": 2,
  "__rb_erase_color.0": 2,
  "ext2fs_rb_insert_color.0": 2,
  "rb_insert_extent.0": 3,
  "rb_insert_extent.1": 3,
  "rb_remove_extent.0": 4,
  "rb_remove_extent.1": 4
 }
}
*/
/* VERIF-UNIT
{
 "name": "rb_remove_extent_n3",
 "props": [
  "C16"
 ],
 "level": "B(3)",
 "tier": "wip",
 "harness": "h_rb_remove",
 "defines": [
  "EXT2_CUSTOM_MEMORY_ROUTINES",
  "RB_N=3",
  "RB_NEW=1"
 ],
 "unwind": 9,
 "unwind_reason": "x",
 "sources": [
  "lib/ext2fs/rbtree.c"
 ],
 "functions": [
  "lib/ext2fs/blkmap64_rb.c:rb_remove_extent",
  "lib/ext2fs/blkmap64_rb.c:rb_unmark_bmap",
  "lib/ext2fs/blkmap64_rb.c:rb_unmark_bmap_extent",
  "lib/ext2fs/blkmap64_rb.c:rb_free_extent"
 ],
 "assumes": [
  "BOUNDED: tree of exactly 3 well-formed extents, every red-black shape, arbitrary cursors"
 ],
 "backend": "minisat",
 "native": true,
 "cbmc_flags": [
  "--object-bits",
  "10"
 ],
 "unwindset": {
  "ext2fs_rb_next.0": 4,
  "ext2fs_rb_next.1": 4,
  "ext2fs_rb_prev.0": 4,
  "ext2fs_rb_prev.1": 4,
  "ext2fs_rb_erase.0": 2,
  "__rb_erase_color.0": 2,
  "ext2fs_rb_insert_color.0": 2,
  "rb_insert_extent.0": 3,
  "rb_insert_extent.1": 4,
  "rb_remove_extent.0": 4,
  "rb_remove_extent.1": 5
 }
}
*/
/* VERIF-UNIT
{
 "name": "rb_remove_extent_n4",
 "props": [
  "C16"
 ],
 "level": "B(4)",
 "tier": "wip",
 "harness": "h_rb_remove",
 "defines": [
  "EXT2_CUSTOM_MEMORY_ROUTINES",
  "RB_N=4",
  "RB_NEW=1"
 ],
 "unwind": 9,
 "unwind_reason": "x",
 "sources": [
  "lib/ext2fs/rbtree.c"
 ],
 "functions": [
  "lib/ext2fs/blkmap64_rb.c:rb_remove_extent",
  "lib/ext2fs/blkmap64_rb.c:rb_unmark_bmap",
  "lib/ext2fs/blkmap64_rb.c:rb_unmark_bmap_extent",
  "lib/ext2fs/blkmap64_rb.c:rb_free_extent"
 ],
 "assumes": [
  "BOUNDED: tree of exactly 4 well-formed extents, every red-black shape, arbitrary cursors"
 ],
 "backend": "minisat",
 "native": true,
 "cbmc_flags": [
  "--object-bits",
  "10"
 ],
 "unwindset": {
  "ext2fs_rb_next.0": 4,
  "ext2fs_rb_next.1": 4,
  "ext2fs_rb_prev.0": 4,
  "ext2fs_rb_prev.1": 4,
  "ext2fs_rb_erase.0": 3,
  "__rb_erase_color.0": 3,
  "ext2fs_rb_insert_color.0": 2,
  "rb_insert_extent.0": 4,
  "rb_insert_extent.1": 5,
  "rb_remove_extent.0": 5,
  "rb_remove_extent.1": 6
 }
}
*/
/* VERIF-UNIT
{
 "name": "rb_test_clear_extent_n0",
 "props": [
  "C16"
 ],
 "level": "B(0)",
 "tier": "wip",
 "harness": "h_rb_test_clear",
 "defines": [
  "EXT2_CUSTOM_MEMORY_ROUTINES",
  "RB_N=0",
  "RB_NEW=0"
 ],
 "unwind": 9,
 "unwind_reason": "x",
 "sources": [
  "lib/ext2fs/rbtree.c"
 ],
 "functions": [
  "lib/ext2fs/blkmap64_rb.c:rb_test_clear_bmap_extent"
 ],
 "assumes": [
  "BOUNDED: tree of exactly 0 well-formed extents, every red-black shape, arbitrary cursors"
 ],
 "backend": "minisat",
 "native": true,
 "cbmc_flags": [
  "--object-bits",
  "10"
 ],
 "unwindset": {
  "ext2fs_rb_next.0": 1,
  "ext2fs_rb_next.1": 1,
  "rb_test_clear_bmap_extent.0": 1,
  "rb_test_clear_bmap_extent.1": 1
 }
}
*/
/* VERIF-UNIT
{
 "name": "rb_test_clear_extent_n1",
 "props": [
  "C16"
 ],
 "level": "B(1)",
 "tier": "wip",
 "harness": "h_rb_test_clear",
 "defines": [
  "EXT2_CUSTOM_MEMORY_ROUTINES",
  "RB_N=1",
  "RB_NEW=0"
 ],
 "unwind": 9,
 "unwind_reason": "x",
 "sources": [
  "lib/ext2fs/rbtree.c"
 ],
 "functions": [
  "lib/ext2fs/blkmap64_rb.c:rb_test_clear_bmap_extent"
 ],
 "assumes": [
  "BOUNDED: tree of exactly 1 well-formed extents, every red-black shape, arbitrary cursors"
 ],
 "backend": "minisat",
 "native": true,
 "cbmc_flags": [
  "--object-bits",
  "10"
 ],
 "unwindset": {
  "ext2fs_rb_next.0": 2,
  "ext2fs_rb_next.1": 2,
  "rb_test_clear_bmap_extent.0": 2,
  "rb_test_clear_bmap_extent.1": 2
 }
}
*/
/* VERIF-UNIT
{
 "name": "rb_test_clear_extent_n2",
 "props": [
  "C16"
 ],
 "level": "B(2)",
 "tier": "wip",
 "harness": "h_rb_test_clear",
 "defines": [
  "EXT2_CUSTOM_MEMORY_ROUTINES",
  "RB_N=2",
  "RB_NEW=0"
 ],
 "unwind": 9,
 "unwind_reason": "x",
 "sources": [
  "lib/ext2fs/rbtree.c"
 ],
 "functions": [
  "lib/ext2fs/blkmap64_rb.c:rb_test_clear_bmap_extent"
 ],
 "assumes": [
  "BOUNDED: tree of exactly 2 well-formed extents, every red-black shape, arbitrary cursors"
 ],
 "backend": "minisat",
 "native": true,
 "cbmc_flags": [
  "--object-bits",
  "10"
 ],
 "unwindset": {
  "ext2fs_rb_next.0": 3,
  "ext2fs_rb_next.1": 3,
  "rb_test_clear_bmap_extent.0": 3,
  "rb_test_clear_bmap_extent.1": 3
 }
}
*/
/* VERIF-UNIT
{
 "name": "rb_test_clear_extent_n3",
 "props": [
  "C16"
 ],
 "level": "B(3)",
 "tier": "wip",
 "harness": "h_rb_test_clear",
 "defines": [
  "EXT2_CUSTOM_MEMORY_ROUTINES",
  "RB_N=3",
  "RB_NEW=0"
 ],
 "unwind": 9,
 "unwind_reason": "x",
 "sources": [
  "lib/ext2fs/rbtree.c"
 ],
 "functions": [
  "lib/ext2fs/blkmap64_rb.c:rb_test_clear_bmap_extent"
 ],
 "assumes": [
  "BOUNDED: tree of exactly 3 well-formed extents, every red-black shape, arbitrary cursors"
 ],
 "backend": "minisat",
 "native": true,
 "cbmc_flags": [
  "--object-bits",
  "10"
 ],
 "unwindset": {
  "ext2fs_rb_next.0": 3,
  "ext2fs_rb_next.1": 3,
  "rb_test_clear_bmap_extent.0": 3,
  "rb_test_clear_bmap_extent.1": 4
 }
}
*/
/* VERIF-UNIT
{
 "name": "rb_test_clear_extent_n4",
 "props": [
  "C16"
 ],
 "level": "B(4)",
 "tier": "wip",
 "harness": "h_rb_test_clear",
 "defines": [
  "EXT2_CUSTOM_MEMORY_ROUTINES",
  "RB_N=4",
  "RB_NEW=0"
 ],
 "unwind": 9,
 "unwind_reason": "x",
 "sources": [
  "lib/ext2fs/rbtree.c"
 ],
 "functions": [
  "lib/ext2fs/blkmap64_rb.c:rb_test_clear_bmap_extent"
 ],
 "assumes": [
  "BOUNDED: tree of exactly 4 well-formed extents, every red-black shape, arbitrary cursors"
 ],
 "backend": "minisat",
 "native": true,
 "cbmc_flags": [
  "--object-bits",
  "10"
 ],
 "unwindset": {
  "ext2fs_rb_next.0": 4,
  "ext2fs_rb_next.1": 4,
  "rb_test_clear_bmap_extent.0": 4,
  "rb_test_clear_bmap_extent.1": 5
 }
}
*/
/* VERIF-UNIT
{
 "name": "rb_find_first_zero_n0",
 "props": [
  "C16"
 ],
 "level": "B(0)",
 "tier": "wip",
 "harness": "h_rb_ffz",
 "defines": [
  "EXT2_CUSTOM_MEMORY_ROUTINES",
  "RB_N=0",
  "RB_NEW=0"
 ],
 "unwind": 9,
 "unwind_reason": "x",
 "sources": [
  "lib/ext2fs/rbtree.c"
 ],
 "functions": [
  "lib/ext2fs/blkmap64_rb.c:rb_find_first_zero"
 ],
 "assumes": [
  "BOUNDED: tree of exactly 0 well-formed extents, every red-black shape, arbitrary cursors"
 ],
 "backend": "minisat",
 "native": true,
 "cbmc_flags": [
  "--object-bits",
  "10"
 ],
 "unwindset": {
  "rb_find_first_zero.0": 1
 }
}
*/
/* VERIF-UNIT
{
 "name": "rb_find_first_zero_n1",
 "props": [
  "C16"
 ],
 "level": "B(1)",
 "tier": "wip",
 "harness": "h_rb_ffz",
 "defines": [
  "EXT2_CUSTOM_MEMORY_ROUTINES",
  "RB_N=1",
  "RB_NEW=0"
 ],
 "unwind": 9,
 "unwind_reason": "x",
 "sources": [
  "lib/ext2fs/rbtree.c"
 ],
 "functions": [
  "lib/ext2fs/blkmap64_rb.c:rb_find_first_zero"
 ],
 "assumes": [
  "BOUNDED: tree of exactly 1 well-formed extents, every red-black shape, arbitrary cursors"
 ],
 "backend": "minisat",
 "native": true,
 "cbmc_flags": [
  "--object-bits",
  "10"
 ],
 "unwindset": {
  "rb_find_first_zero.0": 2
 }
}
*/
/* VERIF-UNIT
{
 "name": "rb_find_first_zero_n2",
 "props": [
  "C16"
 ],
 "level": "B(2)",
 "tier": "wip",
 "harness": "h_rb_ffz",
 "defines": [
  "EXT2_CUSTOM_MEMORY_ROUTINES",
  "RB_N=2",
  "RB_NEW=0"
 ],
 "unwind": 9,
 "unwind_reason": "x",
 "sources": [
  "lib/ext2fs/rbtree.c"
 ],
 "functions": [
  "lib/ext2fs/blkmap64_rb.c:rb_find_first_zero"
 ],
 "assumes": [
  "BOUNDED: tree of exactly 2 well-formed extents, every red-black shape, arbitrary cursors"
 ],
 "backend": "minisat",
 "native": true,
 "cbmc_flags": [
  "--object-bits",
  "10"
 ],
 "unwindset": {
  "rb_find_first_zero.0": 3
 }
}
*/
/* VERIF-UNIT
{
 "name": "rb_find_first_zero_n3",
 "props": [
  "C16"
 ],
 "level": "B(3)",
 "tier": "wip",
 "harness": "h_rb_ffz",
 "defines": [
  "EXT2_CUSTOM_MEMORY_ROUTINES",
  "RB_N=3",
  "RB_NEW=0"
 ],
 "unwind": 9,
 "unwind_reason": "x",
 "sources": [
  "lib/ext2fs/rbtree.c"
 ],
 "functions": [
  "lib/ext2fs/blkmap64_rb.c:rb_find_first_zero"
 ],
 "assumes": [
  "BOUNDED: tree of exactly 3 well-formed extents, every red-black shape, arbitrary cursors"
 ],
 "backend": "minisat",
 "native": true,
 "cbmc_flags": [
  "--object-bits",
  "10"
 ],
 "unwindset": {
  "rb_find_first_zero.0": 3
 }
}
*/
/* VERIF-UNIT
{
 "name": "rb_find_first_zero_n4",
 "props": [
  "C16"
 ],
 "level": "B(4)",
 "tier": "wip",
 "harness": "h_rb_ffz",
 "defines": [
  "EXT2_CUSTOM_MEMORY_ROUTINES",
  "RB_N=4",
  "RB_NEW=0"
 ],
 "unwind": 9,
 "unwind_reason": "x",
 "sources": [
  "lib/ext2fs/rbtree.c"
 ],
 "functions": [
  "lib/ext2fs/blkmap64_rb.c:rb_find_first_zero"
 ],
 "assumes": [
  "BOUNDED: tree of exactly 4 well-formed extents, every red-black shape, arbitrary cursors"
 ],
 "backend": "minisat",
 "native": true,
 "cbmc_flags": [
  "--object-bits",
  "10"
 ],
 "unwindset": {
  "rb_find_first_zero.0": 4
 }
}
*/
/* VERIF-UNIT
{
 "name": "rb_find_first_set_n0",
 "props": [
  "C16"
 ],
 "level": "B(0)",
 "tier": "wip",
 "harness": "h_rb_ffs",
 "defines": [
  "EXT2_CUSTOM_MEMORY_ROUTINES",
  "RB_N=0",
  "RB_NEW=0"
 ],
 "unwind": 9,
 "unwind_reason": "x",
 "sources": [
  "lib/ext2fs/rbtree.c"
 ],
 "functions": [
  "lib/ext2fs/blkmap64_rb.c:rb_find_first_set"
 ],
 "assumes": [
  "BOUNDED: tree of exactly 0 well-formed extents, every red-black shape, arbitrary cursors"
 ],
 "backend": "minisat",
 "native": true,
 "cbmc_flags": [
  "--object-bits",
  "10"
 ],
 "unwindset": {
  "ext2fs_rb_next.0": 1,
  "ext2fs_rb_next.1": 1,
  "rb_find_first_set.0": 1
 }
}
*/
/* VERIF-UNIT
{
 "name": "rb_find_first_set_n1",
 "props": [
  "C16"
 ],
 "level": "B(1)",
 "tier": "wip",
 "harness": "h_rb_ffs",
 "defines": [
  "EXT2_CUSTOM_MEMORY_ROUTINES",
  "RB_N=1",
  "RB_NEW=0"
 ],
 "unwind": 9,
 "unwind_reason": "x",
 "sources": [
  "lib/ext2fs/rbtree.c"
 ],
 "functions": [
  "lib/ext2fs/blkmap64_rb.c:rb_find_first_set"
 ],
 "assumes": [
  "BOUNDED: tree of exactly 1 well-formed extents, every red-black shape, arbitrary cursors"
 ],
 "backend": "minisat",
 "native": true,
 "cbmc_flags": [
  "--object-bits",
  "10"
 ],
 "unwindset": {
  "ext2fs_rb_next.0": 2,
  "ext2fs_rb_next.1": 2,
  "rb_find_first_set.0": 2
 }
}
*/
/* VERIF-UNIT
{
 "name": "rb_find_first_set_n2",
 "props": [
  "C16"
 ],
 "level": "B(2)",
 "tier": "wip",
 "harness": "h_rb_ffs",
 "defines": [
  "EXT2_CUSTOM_MEMORY_ROUTINES",
  "RB_N=2",
  "RB_NEW=0"
 ],
 "unwind": 9,
 "unwind_reason": "x",
 "sources": [
  "lib/ext2fs/rbtree.c"
 ],
 "functions": [
  "lib/ext2fs/blkmap64_rb.c:rb_find_first_set"
 ],
 "assumes": [
  "BOUNDED: tree of exactly 2 well-formed extents, every red-black shape, arbitrary cursors"
 ],
 "backend": "minisat",
 "native": true,
 "cbmc_flags": [
  "--object-bits",
  "10"
 ],
 "unwindset": {
  "ext2fs_rb_next.0": 3,
  "ext2fs_rb_next.1": 3,
  "rb_find_first_set.0": 3
 }
}
*/
/* VERIF-UNIT
{
 "name": "rb_find_first_set_n3",
 "props": [
  "C16"
 ],
 "level": "B(3)",
 "tier": "wip",
 "harness": "h_rb_ffs",
 "defines": [
  "EXT2_CUSTOM_MEMORY_ROUTINES",
  "RB_N=3",
  "RB_NEW=0"
 ],
 "unwind": 9,
 "unwind_reason": "x",
 "sources": [
  "lib/ext2fs/rbtree.c"
 ],
 "functions": [
  "lib/ext2fs/blkmap64_rb.c:rb_find_first_set"
 ],
 "assumes": [
  "BOUNDED: tree of exactly 3 well-formed extents, every red-black shape, arbitrary cursors"
 ],
 "backend": "minisat",
 "native": true,
 "cbmc_flags": [
  "--object-bits",
  "10"
 ],
 "unwindset": {
  "ext2fs_rb_next.0": 3,
  "ext2fs_rb_next.1": 3,
  "rb_find_first_set.0": 3
 }
}
*/
/* VERIF-UNIT
{
 "name": "rb_find_first_set_n4",
 "props": [
  "C16"
 ],
 "level": "B(4)",
 "tier": "wip",
 "harness": "h_rb_ffs",
 "defines": [
  "EXT2_CUSTOM_MEMORY_ROUTINES",
  "RB_N=4",
  "RB_NEW=0"
 ],
 "unwind": 9,
 "unwind_reason": "x",
 "sources": [
  "lib/ext2fs/rbtree.c"
 ],
 "functions": [
  "lib/ext2fs/blkmap64_rb.c:rb_find_first_set"
 ],
 "assumes": [
  "BOUNDED: tree of exactly 4 well-formed extents, every red-black shape, arbitrary cursors"
 ],
 "backend": "minisat",
 "native": true,
 "cbmc_flags": [
  "--object-bits",
  "10"
 ],
 "unwindset": {
  "ext2fs_rb_next.0": 4,
  "ext2fs_rb_next.1": 4,
  "rb_find_first_set.0": 4
 }
}
*/
/* VERIF-UNIT
{
 "name": "rb_resize_bmap_n0",
 "props": [
  "C16"
 ],
 "level": "B(0)",
 "tier": "wip",
 "harness": "h_rb_resize",
 "defines": [
  "EXT2_CUSTOM_MEMORY_ROUTINES",
  "RB_N=0",
  "RB_NEW=1"
 ],
 "unwind": 9,
 "unwind_reason": "x",
 "sources": [
  "lib/ext2fs/rbtree.c"
 ],
 "functions": [
  "lib/ext2fs/blkmap64_rb.c:rb_resize_bmap",
  "lib/ext2fs/blkmap64_rb.c:rb_truncate",
  "lib/ext2fs/blkmap64_rb.c:rb_insert_extent"
 ],
 "assumes": [
  "BOUNDED: tree of exactly 0 well-formed extents, every red-black shape, arbitrary cursors"
 ],
 "backend": "minisat",
 "native": true,
 "cbmc_flags": [
  "--object-bits",
  "10"
 ],
 "unwindset": {
  "ext2fs_rb_next.0": 2,
  "ext2fs_rb_next.1": 2,
  "ext2fs_rb_prev.0": 2,
  "ext2fs_rb_prev.1": 2,
  "ext2fs_rb_last.0": 2,
  "ext2fs_rb_erase.0": 1,
  "__rb_erase_color.0": 1,
  "ext2fs_rb_insert_color.0": 1,
  "rb_insert_extent.0": 1,
  "rb_insert_extent.1": 1,
  "rb_truncate.0": 3
 }
}
*/
/* VERIF-UNIT
{
 "name": "rb_resize_bmap_n1",
 "props": [
  "C16"
 ],
 "level": "B(1)",
 "tier": "wip",
 "harness": "h_rb_resize",
 "defines": [
  "EXT2_CUSTOM_MEMORY_ROUTINES",
  "RB_N=1",
  "RB_NEW=1"
 ],
 "unwind": 9,
 "unwind_reason": "x",
 "sources": [
  "lib/ext2fs/rbtree.c"
 ],
 "functions": [
  "lib/ext2fs/blkmap64_rb.c:rb_resize_bmap",
  "lib/ext2fs/blkmap64_rb.c:rb_truncate",
  "lib/ext2fs/blkmap64_rb.c:rb_insert_extent"
 ],
 "assumes": [
  "BOUNDED: tree of exactly 1 well-formed extents, every red-black shape, arbitrary cursors"
 ],
 "backend": "minisat",
 "native": true,
 "cbmc_flags": [
  "--object-bits",
  "10"
 ],
 "unwindset": {
  "ext2fs_rb_next.0": 3,
  "ext2fs_rb_next.1": 3,
  "ext2fs_rb_prev.0": 3,
  "ext2fs_rb_prev.1": 3,
  "ext2fs_rb_last.0": 3,
  "ext2fs_rb_erase.0": 1,
  "__rb_erase_color.0": 1,
  "ext2fs_rb_insert_color.0": 1,
  "rb_insert_extent.0": 2,
  "rb_insert_extent.1": 2,
  "rb_truncate.0": 4
 }
}
*/
/* VERIF-UNIT
{
 "name": "rb_resize_bmap_n2",
 "props": [
  "C16"
 ],
 "level": "B(2)",
 "tier": "wip",
 "harness": "h_rb_resize",
 "defines": [
  "EXT2_CUSTOM_MEMORY_ROUTINES",
  "RB_N=2",
  "RB_NEW=1"
 ],
 "unwind": 9,
 "unwind_reason": "x",
 "sources": [
  "lib/ext2fs/rbtree.c"
 ],
 "functions": [
  "lib/ext2fs/blkmap64_rb.c:rb_resize_bmap",
  "lib/ext2fs/blkmap64_rb.c:rb_truncate",
  "lib/ext2fs/blkmap64_rb.c:rb_insert_extent"
 ],
 "assumes": [
  "BOUNDED: tree of exactly 2 well-formed extents, every red-black shape, arbitrary cursors"
 ],
 "backend": "minisat",
 "native": true,
 "cbmc_flags": [
  "--object-bits",
  "10"
 ],
 "unwindset": {
  "ext2fs_rb_next.0": 3,
  "ext2fs_rb_next.1": 3,
  "ext2fs_rb_prev.0": 3,
  "ext2fs_rb_prev.1": 3,
  "ext2fs_rb_last.0": 3,
  "ext2fs_rb_erase.0": 2,
  "__rb_erase_color.0": 2,
  "ext2fs_rb_insert_color.0": 2,
  "rb_insert_extent.0": 3,
  "rb_insert_extent.1": 3,
  "rb_truncate.0": 5
 }
}
*/
/* VERIF-UNIT
{
 "name": "rb_resize_bmap_n3",
 "props": [
  "C16"
 ],
 "level": "B(3)",
 "tier": "wip",
 "harness": "h_rb_resize",
 "defines": [
  "EXT2_CUSTOM_MEMORY_ROUTINES",
  "RB_N=3",
  "RB_NEW=1"
 ],
 "unwind": 9,
 "unwind_reason": "x",
 "sources": [
  "lib/ext2fs/rbtree.c"
 ],
 "functions": [
  "lib/ext2fs/blkmap64_rb.c:rb_resize_bmap",
  "lib/ext2fs/blkmap64_rb.c:rb_truncate",
  "lib/ext2fs/blkmap64_rb.c:rb_insert_extent"
 ],
 "assumes": [
  "BOUNDED: tree of exactly 3 well-formed extents, every red-black shape, arbitrary cursors"
 ],
 "backend": "minisat",
 "native": true,
 "cbmc_flags": [
  "--object-bits",
  "10"
 ],
 "unwindset": {
  "ext2fs_rb_next.0": 4,
  "ext2fs_rb_next.1": 4,
  "ext2fs_rb_prev.0": 4,
  "ext2fs_rb_prev.1": 4,
  "ext2fs_rb_last.0": 4,
  "ext2fs_rb_erase.0": 2,
  "__rb_erase_color.0": 2,
  "ext2fs_rb_insert_color.0": 2,
  "rb_insert_extent.0": 3,
  "rb_insert_extent.1": 4,
  "rb_truncate.0": 6
 }
}
*/
/* VERIF-UNIT
{
 "name": "rb_resize_bmap_n4",
 "props": [
  "C16"
 ],
 "level": "B(4)",
 "tier": "wip",
 "harness": "h_rb_resize",
 "defines": [
  "EXT2_CUSTOM_MEMORY_ROUTINES",
  "RB_N=4",
  "RB_NEW=1"
 ],
 "unwind": 9,
 "unwind_reason": "x",
 "sources": [
  "lib/ext2fs/rbtree.c"
 ],
 "functions": [
  "lib/ext2fs/blkmap64_rb.c:rb_resize_bmap",
  "lib/ext2fs/blkmap64_rb.c:rb_truncate",
  "lib/ext2fs/blkmap64_rb.c:rb_insert_extent"
 ],
 "assumes": [
  "BOUNDED: tree of exactly 4 well-formed extents, every red-black shape, arbitrary cursors"
 ],
 "backend": "minisat",
 "native": true,
 "cbmc_flags": [
  "--object-bits",
  "10"
 ],
 "unwindset": {
  "ext2fs_rb_next.0": 4,
  "ext2fs_rb_next.1": 4,
  "ext2fs_rb_prev.0": 4,
  "ext2fs_rb_prev.1": 4,
  "ext2fs_rb_last.0": 4,
  "ext2fs_rb_erase.0": 3,
  "__rb_erase_color.0": 3,
  "ext2fs_rb_insert_color.0": 2,
  "rb_insert_extent.0": 4,
  "rb_insert_extent.1": 5,
  "rb_truncate.0": 7
 }
}
*/
/* VERIF-UNIT
{
 "name": "rbtree_erase_n1",
 "props": [
  "C16"
 ],
 "level": "B(1)",
 "tier": "wip",
 "harness": "h_rbtree_erase",
 "defines": [
  "EXT2_CUSTOM_MEMORY_ROUTINES",
  "RB_N=1",
  "RB_NEW=0"
 ],
 "unwind": 9,
 "unwind_reason": "x",
 "sources": [
  "lib/ext2fs/rbtree.c"
 ],
 "functions": [
  "lib/ext2fs/rbtree.c:ext2fs_rb_erase"
 ],
 "assumes": [
  "x"
 ],
 "backend": "minisat",
 "native": true,
 "cbmc_flags": [
  "--object-bits",
  "10"
 ],
 "unwindset": {
  "ext2fs_rb_erase.0": 2,
  "__rb_erase_color.0": 2
 }
}
*/
/* VERIF-UNIT
{
 "name": "rbtree_erase_n2",
 "props": [
  "C16"
 ],
 "level": "B(2)",
 "tier": "wip",
 "harness": "h_rbtree_erase",
 "defines": [
  "EXT2_CUSTOM_MEMORY_ROUTINES",
  "RB_N=2",
  "RB_NEW=0"
 ],
 "unwind": 9,
 "unwind_reason": "x",
 "sources": [
  "lib/ext2fs/rbtree.c"
 ],
 "functions": [
  "lib/ext2fs/rbtree.c:ext2fs_rb_erase"
 ],
 "assumes": [
  "x"
 ],
 "backend": "minisat",
 "native": true,
 "cbmc_flags": [
  "--object-bits",
  "10"
 ],
 "unwindset": {
  "ext2fs_rb_erase.0": 3,
  "__rb_erase_color.0": 3
 }
}
*/
/* VERIF-UNIT
{
 "name": "rbtree_erase_n3",
 "props": [
  "C16"
 ],
 "level": "B(3)",
 "tier": "wip",
 "harness": "h_rbtree_erase",
 "defines": [
  "EXT2_CUSTOM_MEMORY_ROUTINES",
  "RB_N=3",
  "RB_NEW=0"
 ],
 "unwind": 9,
 "unwind_reason": "x",
 "sources": [
  "lib/ext2fs/rbtree.c"
 ],
 "functions": [
  "lib/ext2fs/rbtree.c:ext2fs_rb_erase"
 ],
 "assumes": [
  "x"
 ],
 "backend": "minisat",
 "native": true,
 "cbmc_flags": [
  "--object-bits",
  "10"
 ],
 "unwindset": {
  "ext2fs_rb_erase.0": 3,
  "__rb_erase_color.0": 3
 }
}
*/
/* VERIF-UNIT
{
 "name": "rbtree_erase_n4",
 "props": [
  "C16"
 ],
 "level": "B(4)",
 "tier": "wip",
 "harness": "h_rbtree_erase",
 "defines": [
  "EXT2_CUSTOM_MEMORY_ROUTINES",
  "RB_N=4",
  "RB_NEW=0"
 ],
 "unwind": 9,
 "unwind_reason": "x",
 "sources": [
  "lib/ext2fs/rbtree.c"
 ],
 "functions": [
  "lib/ext2fs/rbtree.c:ext2fs_rb_erase"
 ],
 "assumes": [
  "x"
 ],
 "backend": "minisat",
 "native": true,
 "cbmc_flags": [
  "--object-bits",
  "10"
 ],
 "unwindset": {
  "ext2fs_rb_erase.0": 4,
  "__rb_erase_color.0": 4
 }
}
*/
/* VERIF-UNIT
{
 "name": "rb_test_bit_s2",
 "props": [
  "C16"
 ],
 "level": "B(2)",
 "tier": "wip",
 "harness": "h_rb_test",
 "defines": [
  "EXT2_CUSTOM_MEMORY_ROUTINES",
  "RB_N=2",
  "RB_NSYM",
  "RB_NEW=0"
 ],
 "unwind": 9,
 "unwind_reason": "x",
 "sources": [
  "lib/ext2fs/rbtree.c"
 ],
 "functions": [
  "lib/ext2fs/blkmap64_rb.c:rb_test_bmap",
  "lib/ext2fs/blkmap64_rb.c:rb_test_bit"
 ],
 "assumes": [
  "x"
 ],
 "backend": "minisat",
 "native": true,
 "cbmc_flags": [
  "--object-bits",
  "10"
 ],
 "unwindset": {
  "ext2fs_rb_next.0": 3,
  "ext2fs_rb_next.1": 3,
  "rb_test_bit.0": 3
 }
}
*/
/* VERIF-UNIT
{
 "name": "rb_test_bit_s3",
 "props": [
  "C16"
 ],
 "level": "B(3)",
 "tier": "wip",
 "harness": "h_rb_test",
 "defines": [
  "EXT2_CUSTOM_MEMORY_ROUTINES",
  "RB_N=3",
  "RB_NSYM",
  "RB_NEW=0"
 ],
 "unwind": 9,
 "unwind_reason": "x",
 "sources": [
  "lib/ext2fs/rbtree.c"
 ],
 "functions": [
  "lib/ext2fs/blkmap64_rb.c:rb_test_bmap",
  "lib/ext2fs/blkmap64_rb.c:rb_test_bit"
 ],
 "assumes": [
  "x"
 ],
 "backend": "minisat",
 "native": true,
 "cbmc_flags": [
  "--object-bits",
  "10"
 ],
 "unwindset": {
  "ext2fs_rb_next.0": 3,
  "ext2fs_rb_next.1": 3,
  "rb_test_bit.0": 3
 }
}
*/
/* VERIF-UNIT
{
 "name": "rb_test_bit_s4",
 "props": [
  "C16"
 ],
 "level": "B(4)",
 "tier": "wip",
 "harness": "h_rb_test",
 "defines": [
  "EXT2_CUSTOM_MEMORY_ROUTINES",
  "RB_N=4",
  "RB_NSYM",
  "RB_NEW=0"
 ],
 "unwind": 9,
 "unwind_reason": "x",
 "sources": [
  "lib/ext2fs/rbtree.c"
 ],
 "functions": [
  "lib/ext2fs/blkmap64_rb.c:rb_test_bmap",
  "lib/ext2fs/blkmap64_rb.c:rb_test_bit"
 ],
 "assumes": [
  "x"
 ],
 "backend": "minisat",
 "native": true,
 "cbmc_flags": [
  "--object-bits",
  "10"
 ],
 "unwindset": {
  "ext2fs_rb_next.0": 4,
  "ext2fs_rb_next.1": 4,
  "rb_test_bit.0": 4
 }
}
*/
/* VERIF-UNIT
{
 "name": "rb_test_clear_extent_s2",
 "props": [
  "C16"
 ],
 "level": "B(2)",
 "tier": "wip",
 "harness": "h_rb_test_clear",
 "defines": [
  "EXT2_CUSTOM_MEMORY_ROUTINES",
  "RB_N=2",
  "RB_NSYM",
  "RB_NEW=0"
 ],
 "unwind": 9,
 "unwind_reason": "x",
 "sources": [
  "lib/ext2fs/rbtree.c"
 ],
 "functions": [
  "lib/ext2fs/blkmap64_rb.c:rb_test_clear_bmap_extent"
 ],
 "assumes": [
  "x"
 ],
 "backend": "minisat",
 "native": true,
 "cbmc_flags": [
  "--object-bits",
  "10"
 ],
 "unwindset": {
  "ext2fs_rb_next.0": 3,
  "ext2fs_rb_next.1": 3,
  "rb_test_clear_bmap_extent.0": 3,
  "rb_test_clear_bmap_extent.1": 3
 }
}
*/
/* VERIF-UNIT
{
 "name": "rb_test_clear_extent_s3",
 "props": [
  "C16"
 ],
 "level": "B(3)",
 "tier": "wip",
 "harness": "h_rb_test_clear",
 "defines": [
  "EXT2_CUSTOM_MEMORY_ROUTINES",
  "RB_N=3",
  "RB_NSYM",
  "RB_NEW=0"
 ],
 "unwind": 9,
 "unwind_reason": "x",
 "sources": [
  "lib/ext2fs/rbtree.c"
 ],
 "functions": [
  "lib/ext2fs/blkmap64_rb.c:rb_test_clear_bmap_extent"
 ],
 "assumes": [
  "x"
 ],
 "backend": "minisat",
 "native": true,
 "cbmc_flags": [
  "--object-bits",
  "10"
 ],
 "unwindset": {
  "ext2fs_rb_next.0": 3,
  "ext2fs_rb_next.1": 3,
  "rb_test_clear_bmap_extent.0": 3,
  "rb_test_clear_bmap_extent.1": 4
 }
}
*/
/* VERIF-UNIT
{
 "name": "rb_test_clear_extent_s4",
 "props": [
  "C16"
 ],
 "level": "B(4)",
 "tier": "wip",
 "harness": "h_rb_test_clear",
 "defines": [
  "EXT2_CUSTOM_MEMORY_ROUTINES",
  "RB_N=4",
  "RB_NSYM",
  "RB_NEW=0"
 ],
 "unwind": 9,
 "unwind_reason": "x",
 "sources": [
  "lib/ext2fs/rbtree.c"
 ],
 "functions": [
  "lib/ext2fs/blkmap64_rb.c:rb_test_clear_bmap_extent"
 ],
 "assumes": [
  "x"
 ],
 "backend": "minisat",
 "native": true,
 "cbmc_flags": [
  "--object-bits",
  "10"
 ],
 "unwindset": {
  "ext2fs_rb_next.0": 4,
  "ext2fs_rb_next.1": 4,
  "rb_test_clear_bmap_extent.0": 4,
  "rb_test_clear_bmap_extent.1": 5
 }
}
*/
/* VERIF-UNIT
{
 "name": "rb_find_first_zero_s2",
 "props": [
  "C16"
 ],
 "level": "B(2)",
 "tier": "wip",
 "harness": "h_rb_ffz",
 "defines": [
  "EXT2_CUSTOM_MEMORY_ROUTINES",
  "RB_N=2",
  "RB_NSYM",
  "RB_NEW=0"
 ],
 "unwind": 9,
 "unwind_reason": "x",
 "sources": [
  "lib/ext2fs/rbtree.c"
 ],
 "functions": [
  "lib/ext2fs/blkmap64_rb.c:rb_find_first_zero"
 ],
 "assumes": [
  "x"
 ],
 "backend": "minisat",
 "native": true,
 "cbmc_flags": [
  "--object-bits",
  "10"
 ],
 "unwindset": {
  "rb_find_first_zero.0": 3
 }
}
*/
/* VERIF-UNIT
{
 "name": "rb_find_first_zero_s3",
 "props": [
  "C16"
 ],
 "level": "B(3)",
 "tier": "wip",
 "harness": "h_rb_ffz",
 "defines": [
  "EXT2_CUSTOM_MEMORY_ROUTINES",
  "RB_N=3",
  "RB_NSYM",
  "RB_NEW=0"
 ],
 "unwind": 9,
 "unwind_reason": "x",
 "sources": [
  "lib/ext2fs/rbtree.c"
 ],
 "functions": [
  "lib/ext2fs/blkmap64_rb.c:rb_find_first_zero"
 ],
 "assumes": [
  "x"
 ],
 "backend": "minisat",
 "native": true,
 "cbmc_flags": [
  "--object-bits",
  "10"
 ],
 "unwindset": {
  "rb_find_first_zero.0": 3
 }
}
*/
/* VERIF-UNIT
{
 "name": "rb_find_first_zero_s4",
 "props": [
  "C16"
 ],
 "level": "B(4)",
 "tier": "wip",
 "harness": "h_rb_ffz",
 "defines": [
  "EXT2_CUSTOM_MEMORY_ROUTINES",
  "RB_N=4",
  "RB_NSYM",
  "RB_NEW=0"
 ],
 "unwind": 9,
 "unwind_reason": "x",
 "sources": [
  "lib/ext2fs/rbtree.c"
 ],
 "functions": [
  "lib/ext2fs/blkmap64_rb.c:rb_find_first_zero"
 ],
 "assumes": [
  "x"
 ],
 "backend": "minisat",
 "native": true,
 "cbmc_flags": [
  "--object-bits",
  "10"
 ],
 "unwindset": {
  "rb_find_first_zero.0": 4
 }
}
*/
/* VERIF-UNIT
{
 "name": "rb_find_first_set_s2",
 "props": [
  "C16"
 ],
 "level": "B(2)",
 "tier": "wip",
 "harness": "h_rb_ffs",
 "defines": [
  "EXT2_CUSTOM_MEMORY_ROUTINES",
  "RB_N=2",
  "RB_NSYM",
  "RB_NEW=0"
 ],
 "unwind": 9,
 "unwind_reason": "x",
 "sources": [
  "lib/ext2fs/rbtree.c"
 ],
 "functions": [
  "lib/ext2fs/blkmap64_rb.c:rb_find_first_set"
 ],
 "assumes": [
  "x"
 ],
 "backend": "minisat",
 "native": true,
 "cbmc_flags": [
  "--object-bits",
  "10"
 ],
 "unwindset": {
  "ext2fs_rb_next.0": 3,
  "ext2fs_rb_next.1": 3,
  "rb_find_first_set.0": 3
 }
}
*/
/* VERIF-UNIT
{
 "name": "rb_find_first_set_s3",
 "props": [
  "C16"
 ],
 "level": "B(3)",
 "tier": "wip",
 "harness": "h_rb_ffs",
 "defines": [
  "EXT2_CUSTOM_MEMORY_ROUTINES",
  "RB_N=3",
  "RB_NSYM",
  "RB_NEW=0"
 ],
 "unwind": 9,
 "unwind_reason": "x",
 "sources": [
  "lib/ext2fs/rbtree.c"
 ],
 "functions": [
  "lib/ext2fs/blkmap64_rb.c:rb_find_first_set"
 ],
 "assumes": [
  "x"
 ],
 "backend": "minisat",
 "native": true,
 "cbmc_flags": [
  "--object-bits",
  "10"
 ],
 "unwindset": {
  "ext2fs_rb_next.0": 3,
  "ext2fs_rb_next.1": 3,
  "rb_find_first_set.0": 3
 }
}
*/
/* VERIF-UNIT
{
 "name": "rb_find_first_set_s4",
 "props": [
  "C16"
 ],
 "level": "B(4)",
 "tier": "wip",
 "harness": "h_rb_ffs",
 "defines": [
  "EXT2_CUSTOM_MEMORY_ROUTINES",
  "RB_N=4",
  "RB_NSYM",
  "RB_NEW=0"
 ],
 "unwind": 9,
 "unwind_reason": "x",
 "sources": [
  "lib/ext2fs/rbtree.c"
 ],
 "functions": [
  "lib/ext2fs/blkmap64_rb.c:rb_find_first_set"
 ],
 "assumes": [
  "x"
 ],
 "backend": "minisat",
 "native": true,
 "cbmc_flags": [
  "--object-bits",
  "10"
 ],
 "unwindset": {
  "ext2fs_rb_next.0": 4,
  "ext2fs_rb_next.1": 4,
  "rb_find_first_set.0": 4
 }
}
*/
/* VERIF-UNIT
{
 "name": "rb_get_bmap_range_s2",
 "props": [
  "C16"
 ],
 "level": "B(2)",
 "tier": "wip",
 "harness": "h_rb_get_range",
 "defines": [
  "EXT2_CUSTOM_MEMORY_ROUTINES",
  "RB_N=2",
  "RB_NSYM",
  "RB_NEW=0"
 ],
 "unwind": 9,
 "unwind_reason": "x",
 "sources": [
  "lib/ext2fs/rbtree.c",
  "lib/ext2fs/bitops.c"
 ],
 "functions": [
  "lib/ext2fs/blkmap64_rb.c:rb_get_bmap_range"
 ],
 "assumes": [
  "x"
 ],
 "backend": "minisat",
 "native": true,
 "cbmc_flags": [
  "--object-bits",
  "10"
 ],
 "unwindset": {
  "ext2fs_rb_next.0": 3,
  "ext2fs_rb_next.1": 3,
  "rb_get_bmap_range.0": 3,
  "rb_get_bmap_range.1": 16,
  "rb_get_bmap_range.2": 4
 }
}
*/
/* VERIF-UNIT
{
 "name": "rb_get_bmap_range_s3",
 "props": [
  "C16"
 ],
 "level": "B(3)",
 "tier": "wip",
 "harness": "h_rb_get_range",
 "defines": [
  "EXT2_CUSTOM_MEMORY_ROUTINES",
  "RB_N=3",
  "RB_NSYM",
  "RB_NEW=0"
 ],
 "unwind": 9,
 "unwind_reason": "x",
 "sources": [
  "lib/ext2fs/rbtree.c",
  "lib/ext2fs/bitops.c"
 ],
 "functions": [
  "lib/ext2fs/blkmap64_rb.c:rb_get_bmap_range"
 ],
 "assumes": [
  "x"
 ],
 "backend": "minisat",
 "native": true,
 "cbmc_flags": [
  "--object-bits",
  "10"
 ],
 "unwindset": {
  "ext2fs_rb_next.0": 3,
  "ext2fs_rb_next.1": 3,
  "rb_get_bmap_range.0": 3,
  "rb_get_bmap_range.1": 16,
  "rb_get_bmap_range.2": 5
 }
}
*/
/* VERIF-UNIT
{
 "name": "rb_get_bmap_range_s4",
 "props": [
  "C16"
 ],
 "level": "B(4)",
 "tier": "wip",
 "harness": "h_rb_get_range",
 "defines": [
  "EXT2_CUSTOM_MEMORY_ROUTINES",
  "RB_N=4",
  "RB_NSYM",
  "RB_NEW=0"
 ],
 "unwind": 9,
 "unwind_reason": "x",
 "sources": [
  "lib/ext2fs/rbtree.c",
  "lib/ext2fs/bitops.c"
 ],
 "functions": [
  "lib/ext2fs/blkmap64_rb.c:rb_get_bmap_range"
 ],
 "assumes": [
  "x"
 ],
 "backend": "minisat",
 "native": true,
 "cbmc_flags": [
  "--object-bits",
  "10"
 ],
 "unwindset": {
  "ext2fs_rb_next.0": 4,
  "ext2fs_rb_next.1": 4,
  "rb_get_bmap_range.0": 4,
  "rb_get_bmap_range.1": 16,
  "rb_get_bmap_range.2": 6
 }
}
*/
/* VERIF-UNIT
{
 "name": "rb_get_bmap_range_n0",
 "props": [
  "C16"
 ],
 "level": "B(0)",
 "tier": "wip",
 "harness": "h_rb_get_range",
 "defines": [
  "EXT2_CUSTOM_MEMORY_ROUTINES",
  "RB_N=0",
  "RB_NEW=0"
 ],
 "unwind": 9,
 "unwind_reason": "x",
 "sources": [
  "lib/ext2fs/rbtree.c",
  "lib/ext2fs/bitops.c"
 ],
 "functions": [
  "lib/ext2fs/blkmap64_rb.c:rb_get_bmap_range"
 ],
 "assumes": [
  "x"
 ],
 "backend": "minisat",
 "native": true,
 "cbmc_flags": [
  "--object-bits",
  "10"
 ],
 "unwindset": {
  "ext2fs_rb_next.0": 1,
  "ext2fs_rb_next.1": 1,
  "rb_get_bmap_range.0": 1,
  "rb_get_bmap_range.1": 16,
  "rb_get_bmap_range.2": 2
 }
}
*/
/* VERIF-UNIT
{
 "name": "rb_get_bmap_range_n1",
 "props": [
  "C16"
 ],
 "level": "B(1)",
 "tier": "wip",
 "harness": "h_rb_get_range",
 "defines": [
  "EXT2_CUSTOM_MEMORY_ROUTINES",
  "RB_N=1",
  "RB_NEW=0"
 ],
 "unwind": 9,
 "unwind_reason": "x",
 "sources": [
  "lib/ext2fs/rbtree.c",
  "lib/ext2fs/bitops.c"
 ],
 "functions": [
  "lib/ext2fs/blkmap64_rb.c:rb_get_bmap_range"
 ],
 "assumes": [
  "x"
 ],
 "backend": "minisat",
 "native": true,
 "cbmc_flags": [
  "--object-bits",
  "10"
 ],
 "unwindset": {
  "ext2fs_rb_next.0": 2,
  "ext2fs_rb_next.1": 2,
  "rb_get_bmap_range.0": 2,
  "rb_get_bmap_range.1": 16,
  "rb_get_bmap_range.2": 3
 }
}
*/
/* VERIF-UNIT
{
 "name": "rb_get_bmap_range_n2",
 "props": [
  "C16"
 ],
 "level": "B(2)",
 "tier": "wip",
 "harness": "h_rb_get_range",
 "defines": [
  "EXT2_CUSTOM_MEMORY_ROUTINES",
  "RB_N=2",
  "RB_NEW=0"
 ],
 "unwind": 9,
 "unwind_reason": "x",
 "sources": [
  "lib/ext2fs/rbtree.c",
  "lib/ext2fs/bitops.c"
 ],
 "functions": [
  "lib/ext2fs/blkmap64_rb.c:rb_get_bmap_range"
 ],
 "assumes": [
  "x"
 ],
 "backend": "minisat",
 "native": true,
 "cbmc_flags": [
  "--object-bits",
  "10"
 ],
 "unwindset": {
  "ext2fs_rb_next.0": 3,
  "ext2fs_rb_next.1": 3,
  "rb_get_bmap_range.0": 3,
  "rb_get_bmap_range.1": 16,
  "rb_get_bmap_range.2": 4
 }
}
*/
/* VERIF-UNIT
{
 "name": "rb_get_bmap_range_n3",
 "props": [
  "C16"
 ],
 "level": "B(3)",
 "tier": "wip",
 "harness": "h_rb_get_range",
 "defines": [
  "EXT2_CUSTOM_MEMORY_ROUTINES",
  "RB_N=3",
  "RB_NEW=0"
 ],
 "unwind": 9,
 "unwind_reason": "x",
 "sources": [
  "lib/ext2fs/rbtree.c",
  "lib/ext2fs/bitops.c"
 ],
 "functions": [
  "lib/ext2fs/blkmap64_rb.c:rb_get_bmap_range"
 ],
 "assumes": [
  "x"
 ],
 "backend": "minisat",
 "native": true,
 "cbmc_flags": [
  "--object-bits",
  "10"
 ],
 "unwindset": {
  "ext2fs_rb_next.0": 3,
  "ext2fs_rb_next.1": 3,
  "rb_get_bmap_range.0": 3,
  "rb_get_bmap_range.1": 16,
  "rb_get_bmap_range.2": 5
 }
}
*/
/* VERIF-UNIT
{
 "name": "rb_get_bmap_range_n4",
 "props": [
  "C16"
 ],
 "level": "B(4)",
 "tier": "wip",
 "harness": "h_rb_get_range",
 "defines": [
  "EXT2_CUSTOM_MEMORY_ROUTINES",
  "RB_N=4",
  "RB_NEW=0"
 ],
 "unwind": 9,
 "unwind_reason": "x",
 "sources": [
  "lib/ext2fs/rbtree.c",
  "lib/ext2fs/bitops.c"
 ],
 "functions": [
  "lib/ext2fs/blkmap64_rb.c:rb_get_bmap_range"
 ],
 "assumes": [
  "x"
 ],
 "backend": "minisat",
 "native": true,
 "cbmc_flags": [
  "--object-bits",
  "10"
 ],
 "unwindset": {
  "ext2fs_rb_next.0": 4,
  "ext2fs_rb_next.1": 4,
  "rb_get_bmap_range.0": 4,
  "rb_get_bmap_range.1": 16,
  "rb_get_bmap_range.2": 6
 }
}
*/
/* VERIF-UNIT
{
 "name": "rb_insert_extent_keep_n1",
 "props": [
  "C16"
 ],
 "level": "B(1)",
 "tier": "wip",
 "harness": "h_rb_insert",
 "defines": [
  "EXT2_CUSTOM_MEMORY_ROUTINES",
  "RB_N=1",
  "RB_NEW=0",
  "RB_SCEN=1",
  "RB_BITS=16"
 ],
 "unwind": 9,
 "unwind_reason": "x",
 "sources": [
  "lib/ext2fs/rbtree.c"
 ],
 "functions": [
  "lib/ext2fs/blkmap64_rb.c:rb_insert_extent",
  "lib/ext2fs/blkmap64_rb.c:rb_mark_bmap",
  "lib/ext2fs/blkmap64_rb.c:rb_mark_bmap_extent",
  "lib/ext2fs/blkmap64_rb.c:rb_get_new_extent",
  "lib/ext2fs/blkmap64_rb.c:rb_free_extent"
 ],
 "assumes": [
  "x"
 ],
 "backend": "minisat",
 "native": true,
 "cbmc_flags": [
  "--object-bits",
  "10"
 ],
 "unwindset": {
  "ext2fs_rb_next.0": 3,
  "ext2fs_rb_next.1": 3,
  "ext2fs_rb_prev.0": 3,
  "ext2fs_rb_prev.1": 3,
  "rb_insert_extent.0": 2,
  "rb_insert_extent.1": 2
 },
 "replace": [
  "ext2fs_rb_erase",
  "ext2fs_rb_insert_color"
 ]
}
*/
/* VERIF-UNIT
{
 "name": "rb_insert_extent_new_n1",
 "props": [
  "C16"
 ],
 "level": "B(1)",
 "tier": "wip",
 "harness": "h_rb_insert",
 "defines": [
  "EXT2_CUSTOM_MEMORY_ROUTINES",
  "RB_N=1",
  "RB_NEW=1",
  "RB_SCEN=2",
  "RB_BITS=16"
 ],
 "unwind": 9,
 "unwind_reason": "x",
 "sources": [
  "lib/ext2fs/rbtree.c"
 ],
 "functions": [
  "lib/ext2fs/blkmap64_rb.c:rb_insert_extent",
  "lib/ext2fs/blkmap64_rb.c:rb_mark_bmap",
  "lib/ext2fs/blkmap64_rb.c:rb_mark_bmap_extent",
  "lib/ext2fs/blkmap64_rb.c:rb_get_new_extent",
  "lib/ext2fs/blkmap64_rb.c:rb_free_extent"
 ],
 "assumes": [
  "x"
 ],
 "backend": "minisat",
 "native": true,
 "cbmc_flags": [
  "--object-bits",
  "10"
 ],
 "unwindset": {
  "ext2fs_rb_next.0": 3,
  "ext2fs_rb_next.1": 3,
  "ext2fs_rb_prev.0": 3,
  "ext2fs_rb_prev.1": 3,
  "ext2fs_rb_insert_color.0": 1,
  "rb_insert_extent.0": 2,
  "rb_insert_extent.1": 2
 },
 "replace": [
  "ext2fs_rb_erase"
 ]
}
*/
/* VERIF-UNIT
{
 "name": "rb_insert_extent_merge_n1",
 "props": [
  "C16"
 ],
 "level": "B(1)",
 "tier": "wip",
 "harness": "h_rb_insert",
 "defines": [
  "EXT2_CUSTOM_MEMORY_ROUTINES",
  "RB_N=1",
  "RB_NEW=0",
  "RB_SCEN=3",
  "RB_BITS=16"
 ],
 "unwind": 9,
 "unwind_reason": "x",
 "sources": [
  "lib/ext2fs/rbtree.c"
 ],
 "functions": [
  "lib/ext2fs/blkmap64_rb.c:rb_insert_extent",
  "lib/ext2fs/blkmap64_rb.c:rb_mark_bmap",
  "lib/ext2fs/blkmap64_rb.c:rb_mark_bmap_extent",
  "lib/ext2fs/blkmap64_rb.c:rb_get_new_extent",
  "lib/ext2fs/blkmap64_rb.c:rb_free_extent"
 ],
 "assumes": [
  "x"
 ],
 "backend": "minisat",
 "native": true,
 "cbmc_flags": [
  "--object-bits",
  "10"
 ],
 "unwindset": {
  "ext2fs_rb_next.0": 3,
  "ext2fs_rb_next.1": 3,
  "ext2fs_rb_prev.0": 3,
  "ext2fs_rb_prev.1": 3,
  "ext2fs_rb_erase.0": 1,
  "__rb_erase_color.0": 1,
  "rb_insert_extent.0": 2,
  "rb_insert_extent.1": 2
 },
 "replace": [
  "ext2fs_rb_insert_color"
 ]
}
*/
/* VERIF-UNIT
{
 "name": "rb_insert_extent_newmerge_n1",
 "props": [
  "C16"
 ],
 "level": "B(1)",
 "tier": "wip",
 "harness": "h_rb_insert",
 "defines": [
  "EXT2_CUSTOM_MEMORY_ROUTINES",
  "RB_N=1",
  "RB_NEW=1",
  "RB_SCEN=4",
  "RB_BITS=16"
 ],
 "unwind": 9,
 "unwind_reason": "x",
 "sources": [
  "lib/ext2fs/rbtree.c"
 ],
 "functions": [
  "lib/ext2fs/blkmap64_rb.c:rb_insert_extent",
  "lib/ext2fs/blkmap64_rb.c:rb_mark_bmap",
  "lib/ext2fs/blkmap64_rb.c:rb_mark_bmap_extent",
  "lib/ext2fs/blkmap64_rb.c:rb_get_new_extent",
  "lib/ext2fs/blkmap64_rb.c:rb_free_extent"
 ],
 "assumes": [
  "x"
 ],
 "backend": "minisat",
 "native": true,
 "cbmc_flags": [
  "--object-bits",
  "10"
 ],
 "unwindset": {
  "ext2fs_rb_next.0": 3,
  "ext2fs_rb_next.1": 3,
  "ext2fs_rb_prev.0": 3,
  "ext2fs_rb_prev.1": 3,
  "ext2fs_rb_erase.0": 1,
  "__rb_erase_color.0": 1,
  "ext2fs_rb_insert_color.0": 1,
  "rb_insert_extent.0": 2,
  "rb_insert_extent.1": 2
 }
}
*/
/* VERIF-UNIT
{
 "name": "rb_remove_extent_trunc_n1",
 "props": [
  "C16"
 ],
 "level": "B(1)",
 "tier": "wip",
 "harness": "h_rb_remove",
 "defines": [
  "EXT2_CUSTOM_MEMORY_ROUTINES",
  "RB_N=1",
  "RB_NEW=0",
  "RB_SCEN=1",
  "RB_BITS=16"
 ],
 "unwind": 9,
 "unwind_reason": "x",
 "sources": [
  "lib/ext2fs/rbtree.c"
 ],
 "functions": [
  "lib/ext2fs/blkmap64_rb.c:rb_remove_extent",
  "lib/ext2fs/blkmap64_rb.c:rb_unmark_bmap",
  "lib/ext2fs/blkmap64_rb.c:rb_unmark_bmap_extent",
  "lib/ext2fs/blkmap64_rb.c:rb_free_extent"
 ],
 "assumes": [
  "x"
 ],
 "backend": "minisat",
 "native": true,
 "cbmc_flags": [
  "--object-bits",
  "10"
 ],
 "unwindset": {
  "ext2fs_rb_next.0": 3,
  "ext2fs_rb_next.1": 3,
  "rb_remove_extent.0": 3,
  "rb_remove_extent.1": 3
 },
 "replace": [
  "ext2fs_rb_erase",
  "rb_insert_extent"
 ]
}
*/
/* VERIF-UNIT
{
 "name": "rb_remove_extent_split_n1",
 "props": [
  "C16"
 ],
 "level": "B(1)",
 "tier": "wip",
 "harness": "h_rb_remove",
 "defines": [
  "EXT2_CUSTOM_MEMORY_ROUTINES",
  "RB_N=1",
  "RB_NEW=1",
  "RB_SCEN=2",
  "RB_BITS=16"
 ],
 "unwind": 9,
 "unwind_reason": "x",
 "sources": [
  "lib/ext2fs/rbtree.c"
 ],
 "functions": [
  "lib/ext2fs/blkmap64_rb.c:rb_remove_extent",
  "lib/ext2fs/blkmap64_rb.c:rb_unmark_bmap",
  "lib/ext2fs/blkmap64_rb.c:rb_unmark_bmap_extent",
  "lib/ext2fs/blkmap64_rb.c:rb_free_extent"
 ],
 "assumes": [
  "x"
 ],
 "backend": "minisat",
 "native": true,
 "cbmc_flags": [
  "--object-bits",
  "10"
 ],
 "unwindset": {
  "ext2fs_rb_next.0": 3,
  "ext2fs_rb_next.1": 3,
  "ext2fs_rb_prev.0": 3,
  "ext2fs_rb_prev.1": 3,
  "ext2fs_rb_insert_color.0": 1,
  "rb_insert_extent.0": 2,
  "rb_insert_extent.1": 2,
  "rb_remove_extent.0": 3,
  "rb_remove_extent.1": 3
 },
 "replace": [
  "ext2fs_rb_erase"
 ]
}
*/
/* VERIF-UNIT
{
 "name": "rb_remove_extent_delete_n1",
 "props": [
  "C16"
 ],
 "level": "B(1)",
 "tier": "wip",
 "harness": "h_rb_remove",
 "defines": [
  "EXT2_CUSTOM_MEMORY_ROUTINES",
  "RB_N=1",
  "RB_NEW=0",
  "RB_SCEN=3",
  "RB_BITS=16"
 ],
 "unwind": 9,
 "unwind_reason": "x",
 "sources": [
  "lib/ext2fs/rbtree.c"
 ],
 "functions": [
  "lib/ext2fs/blkmap64_rb.c:rb_remove_extent",
  "lib/ext2fs/blkmap64_rb.c:rb_unmark_bmap",
  "lib/ext2fs/blkmap64_rb.c:rb_unmark_bmap_extent",
  "lib/ext2fs/blkmap64_rb.c:rb_free_extent"
 ],
 "assumes": [
  "x"
 ],
 "backend": "minisat",
 "native": true,
 "cbmc_flags": [
  "--object-bits",
  "10"
 ],
 "unwindset": {
  "ext2fs_rb_next.0": 3,
  "ext2fs_rb_next.1": 3,
  "ext2fs_rb_erase.0": 1,
  "__rb_erase_color.0": 1,
  "rb_remove_extent.0": 3,
  "rb_remove_extent.1": 3
 },
 "replace": [
  "rb_insert_extent"
 ]
}
*/
/* VERIF-UNIT
{
 "name": "rb_resize_bmap_keep_n1",
 "props": [
  "C16"
 ],
 "level": "B(1)",
 "tier": "wip",
 "harness": "h_rb_resize",
 "defines": [
  "EXT2_CUSTOM_MEMORY_ROUTINES",
  "RB_N=1",
  "RB_NEW=0",
  "RB_SCEN=1",
  "RB_BITS=16"
 ],
 "unwind": 9,
 "unwind_reason": "x",
 "sources": [
  "lib/ext2fs/rbtree.c"
 ],
 "functions": [
  "lib/ext2fs/blkmap64_rb.c:rb_resize_bmap",
  "lib/ext2fs/blkmap64_rb.c:rb_truncate",
  "lib/ext2fs/blkmap64_rb.c:rb_insert_extent"
 ],
 "assumes": [
  "x"
 ],
 "backend": "minisat",
 "native": true,
 "cbmc_flags": [
  "--object-bits",
  "10"
 ],
 "unwindset": {
  "ext2fs_rb_next.0": 3,
  "ext2fs_rb_next.1": 3,
  "ext2fs_rb_prev.0": 3,
  "ext2fs_rb_prev.1": 3,
  "ext2fs_rb_last.0": 3,
  "rb_insert_extent.0": 2,
  "rb_insert_extent.1": 2,
  "rb_truncate.0": 4
 },
 "replace": [
  "ext2fs_rb_erase",
  "ext2fs_rb_insert_color"
 ]
}
*/
/* VERIF-UNIT
{
 "name": "rb_resize_bmap_pad_n1",
 "props": [
  "C16"
 ],
 "level": "B(1)",
 "tier": "wip",
 "harness": "h_rb_resize",
 "defines": [
  "EXT2_CUSTOM_MEMORY_ROUTINES",
  "RB_N=1",
  "RB_NEW=1",
  "RB_SCEN=2",
  "RB_BITS=16"
 ],
 "unwind": 9,
 "unwind_reason": "x",
 "sources": [
  "lib/ext2fs/rbtree.c"
 ],
 "functions": [
  "lib/ext2fs/blkmap64_rb.c:rb_resize_bmap",
  "lib/ext2fs/blkmap64_rb.c:rb_truncate",
  "lib/ext2fs/blkmap64_rb.c:rb_insert_extent"
 ],
 "assumes": [
  "x"
 ],
 "backend": "minisat",
 "native": true,
 "cbmc_flags": [
  "--object-bits",
  "10"
 ],
 "unwindset": {
  "ext2fs_rb_next.0": 3,
  "ext2fs_rb_next.1": 3,
  "ext2fs_rb_prev.0": 3,
  "ext2fs_rb_prev.1": 3,
  "ext2fs_rb_last.0": 3,
  "ext2fs_rb_insert_color.0": 1,
  "rb_insert_extent.0": 2,
  "rb_insert_extent.1": 2,
  "rb_truncate.0": 4
 },
 "replace": [
  "ext2fs_rb_erase"
 ]
}
*/
/* VERIF-UNIT
{
 "name": "rb_resize_bmap_cut_n1",
 "props": [
  "C16"
 ],
 "level": "B(1)",
 "tier": "wip",
 "harness": "h_rb_resize",
 "defines": [
  "EXT2_CUSTOM_MEMORY_ROUTINES",
  "RB_N=1",
  "RB_NEW=0",
  "RB_SCEN=3",
  "RB_BITS=16"
 ],
 "unwind": 9,
 "unwind_reason": "x",
 "sources": [
  "lib/ext2fs/rbtree.c"
 ],
 "functions": [
  "lib/ext2fs/blkmap64_rb.c:rb_resize_bmap",
  "lib/ext2fs/blkmap64_rb.c:rb_truncate",
  "lib/ext2fs/blkmap64_rb.c:rb_insert_extent"
 ],
 "assumes": [
  "x"
 ],
 "backend": "minisat",
 "native": true,
 "cbmc_flags": [
  "--object-bits",
  "10"
 ],
 "unwindset": {
  "ext2fs_rb_next.0": 3,
  "ext2fs_rb_next.1": 3,
  "ext2fs_rb_prev.0": 3,
  "ext2fs_rb_prev.1": 3,
  "ext2fs_rb_last.0": 3,
  "ext2fs_rb_erase.0": 1,
  "__rb_erase_color.0": 1,
  "rb_insert_extent.0": 2,
  "rb_insert_extent.1": 2,
  "rb_truncate.0": 4
 },
 "replace": [
  "ext2fs_rb_insert_color"
 ]
}
*/
/* VERIF-UNIT
{
 "name": "rb_resize_bmap_cutpad_n1",
 "props": [
  "C16"
 ],
 "level": "B(1)",
 "tier": "wip",
 "harness": "h_rb_resize",
 "defines": [
  "EXT2_CUSTOM_MEMORY_ROUTINES",
  "RB_N=1",
  "RB_NEW=1",
  "RB_SCEN=4",
  "RB_BITS=16"
 ],
 "unwind": 9,
 "unwind_reason": "x",
 "sources": [
  "lib/ext2fs/rbtree.c"
 ],
 "functions": [
  "lib/ext2fs/blkmap64_rb.c:rb_resize_bmap",
  "lib/ext2fs/blkmap64_rb.c:rb_truncate",
  "lib/ext2fs/blkmap64_rb.c:rb_insert_extent"
 ],
 "assumes": [
  "x"
 ],
 "backend": "minisat",
 "native": true,
 "cbmc_flags": [
  "--object-bits",
  "10"
 ],
 "unwindset": {
  "ext2fs_rb_next.0": 3,
  "ext2fs_rb_next.1": 3,
  "ext2fs_rb_prev.0": 3,
  "ext2fs_rb_prev.1": 3,
  "ext2fs_rb_last.0": 3,
  "ext2fs_rb_erase.0": 1,
  "__rb_erase_color.0": 1,
  "ext2fs_rb_insert_color.0": 1,
  "rb_insert_extent.0": 2,
  "rb_insert_extent.1": 2,
  "rb_truncate.0": 4
 }
}
*/
/* VERIF-UNIT
{
 "name": "rb_insert_extent_keep_n2",
 "props": [
  "C16"
 ],
 "level": "B(2)",
 "tier": "wip",
 "harness": "h_rb_insert",
 "defines": [
  "EXT2_CUSTOM_MEMORY_ROUTINES",
  "RB_N=2",
  "RB_NEW=0",
  "RB_SCEN=1",
  "RB_BITS=16"
 ],
 "unwind": 9,
 "unwind_reason": "x",
 "sources": [
  "lib/ext2fs/rbtree.c"
 ],
 "functions": [
  "lib/ext2fs/blkmap64_rb.c:rb_insert_extent",
  "lib/ext2fs/blkmap64_rb.c:rb_mark_bmap",
  "lib/ext2fs/blkmap64_rb.c:rb_mark_bmap_extent",
  "lib/ext2fs/blkmap64_rb.c:rb_get_new_extent",
  "lib/ext2fs/blkmap64_rb.c:rb_free_extent"
 ],
 "assumes": [
  "x"
 ],
 "backend": "minisat",
 "native": true,
 "cbmc_flags": [
  "--object-bits",
  "10"
 ],
 "unwindset": {
  "ext2fs_rb_next.0": 3,
  "ext2fs_rb_next.1": 3,
  "ext2fs_rb_prev.0": 3,
  "ext2fs_rb_prev.1": 3,
  "rb_insert_extent.0": 3,
  "rb_insert_extent.1": 3
 },
 "replace": [
  "ext2fs_rb_erase",
  "ext2fs_rb_insert_color"
 ]
}
*/
/* VERIF-UNIT
{
 "name": "rb_insert_extent_new_n2",
 "props": [
  "C16"
 ],
 "level": "B(2)",
 "tier": "wip",
 "harness": "h_rb_insert",
 "defines": [
  "EXT2_CUSTOM_MEMORY_ROUTINES",
  "RB_N=2",
  "RB_NEW=1",
  "RB_SCEN=2",
  "RB_BITS=16"
 ],
 "unwind": 9,
 "unwind_reason": "x",
 "sources": [
  "lib/ext2fs/rbtree.c"
 ],
 "functions": [
  "lib/ext2fs/blkmap64_rb.c:rb_insert_extent",
  "lib/ext2fs/blkmap64_rb.c:rb_mark_bmap",
  "lib/ext2fs/blkmap64_rb.c:rb_mark_bmap_extent",
  "lib/ext2fs/blkmap64_rb.c:rb_get_new_extent",
  "lib/ext2fs/blkmap64_rb.c:rb_free_extent"
 ],
 "assumes": [
  "x"
 ],
 "backend": "minisat",
 "native": true,
 "cbmc_flags": [
  "--object-bits",
  "10"
 ],
 "unwindset": {
  "ext2fs_rb_next.0": 3,
  "ext2fs_rb_next.1": 3,
  "ext2fs_rb_prev.0": 3,
  "ext2fs_rb_prev.1": 3,
  "ext2fs_rb_insert_color.0": 2,
  "rb_insert_extent.0": 3,
  "rb_insert_extent.1": 3
 },
 "replace": [
  "ext2fs_rb_erase"
 ]
}
*/
/* VERIF-UNIT
{
 "name": "rb_insert_extent_merge_n2",
 "props": [
  "C16"
 ],
 "level": "B(2)",
 "tier": "wip",
 "harness": "h_rb_insert",
 "defines": [
  "EXT2_CUSTOM_MEMORY_ROUTINES",
  "RB_N=2",
  "RB_NEW=0",
  "RB_SCEN=3",
  "RB_BITS=16"
 ],
 "unwind": 9,
 "unwind_reason": "x",
 "sources": [
  "lib/ext2fs/rbtree.c"
 ],
 "functions": [
  "lib/ext2fs/blkmap64_rb.c:rb_insert_extent",
  "lib/ext2fs/blkmap64_rb.c:rb_mark_bmap",
  "lib/ext2fs/blkmap64_rb.c:rb_mark_bmap_extent",
  "lib/ext2fs/blkmap64_rb.c:rb_get_new_extent",
  "lib/ext2fs/blkmap64_rb.c:rb_free_extent"
 ],
 "assumes": [
  "x"
 ],
 "backend": "minisat",
 "native": true,
 "cbmc_flags": [
  "--object-bits",
  "10"
 ],
 "unwindset": {
  "ext2fs_rb_next.0": 3,
  "ext2fs_rb_next.1": 3,
  "ext2fs_rb_prev.0": 3,
  "ext2fs_rb_prev.1": 3,
  "ext2fs_rb_erase.0": 2,
  "__rb_erase_color.0": 2,
  "rb_insert_extent.0": 3,
  "rb_insert_extent.1": 3
 },
 "replace": [
  "ext2fs_rb_insert_color"
 ]
}
*/
/* VERIF-UNIT
{
 "name": "rb_insert_extent_newmerge_n2",
 "props": [
  "C16"
 ],
 "level": "B(2)",
 "tier": "wip",
 "harness": "h_rb_insert",
 "defines": [
  "EXT2_CUSTOM_MEMORY_ROUTINES",
  "RB_N=2",
  "RB_NEW=1",
  "RB_SCEN=4",
  "RB_BITS=16"
 ],
 "unwind": 9,
 "unwind_reason": "x",
 "sources": [
  "lib/ext2fs/rbtree.c"
 ],
 "functions": [
  "lib/ext2fs/blkmap64_rb.c:rb_insert_extent",
  "lib/ext2fs/blkmap64_rb.c:rb_mark_bmap",
  "lib/ext2fs/blkmap64_rb.c:rb_mark_bmap_extent",
  "lib/ext2fs/blkmap64_rb.c:rb_get_new_extent",
  "lib/ext2fs/blkmap64_rb.c:rb_free_extent"
 ],
 "assumes": [
  "x"
 ],
 "backend": "minisat",
 "native": true,
 "cbmc_flags": [
  "--object-bits",
  "10"
 ],
 "unwindset": {
  "ext2fs_rb_next.0": 3,
  "ext2fs_rb_next.1": 3,
  "ext2fs_rb_prev.0": 3,
  "ext2fs_rb_prev.1": 3,
  "ext2fs_rb_erase.0": 2,
  "__rb_erase_color.0": 2,
  "ext2fs_rb_insert_color.0": 2,
  "rb_insert_extent.0": 3,
  "rb_insert_extent.1": 3
 }
}
*/
/* VERIF-UNIT
{
 "name": "rb_remove_extent_trunc_n2",
 "props": [
  "C16"
 ],
 "level": "B(2)",
 "tier": "wip",
 "harness": "h_rb_remove",
 "defines": [
  "EXT2_CUSTOM_MEMORY_ROUTINES",
  "RB_N=2",
  "RB_NEW=0",
  "RB_SCEN=1",
  "RB_BITS=16"
 ],
 "unwind": 9,
 "unwind_reason": "x",
 "sources": [
  "lib/ext2fs/rbtree.c"
 ],
 "functions": [
  "lib/ext2fs/blkmap64_rb.c:rb_remove_extent",
  "lib/ext2fs/blkmap64_rb.c:rb_unmark_bmap",
  "lib/ext2fs/blkmap64_rb.c:rb_unmark_bmap_extent",
  "lib/ext2fs/blkmap64_rb.c:rb_free_extent"
 ],
 "assumes": [
  "x"
 ],
 "backend": "minisat",
 "native": true,
 "cbmc_flags": [
  "--object-bits",
  "10"
 ],
 "unwindset": {
  "ext2fs_rb_next.0": 3,
  "ext2fs_rb_next.1": 3,
  "rb_remove_extent.0": 4,
  "rb_remove_extent.1": 4
 },
 "replace": [
  "ext2fs_rb_erase",
  "rb_insert_extent"
 ]
}
*/
/* VERIF-UNIT
{
 "name": "rb_remove_extent_split_n2",
 "props": [
  "C16"
 ],
 "level": "B(2)",
 "tier": "wip",
 "harness": "h_rb_remove",
 "defines": [
  "EXT2_CUSTOM_MEMORY_ROUTINES",
  "RB_N=2",
  "RB_NEW=1",
  "RB_SCEN=2",
  "RB_BITS=16"
 ],
 "unwind": 9,
 "unwind_reason": "x",
 "sources": [
  "lib/ext2fs/rbtree.c"
 ],
 "functions": [
  "lib/ext2fs/blkmap64_rb.c:rb_remove_extent",
  "lib/ext2fs/blkmap64_rb.c:rb_unmark_bmap",
  "lib/ext2fs/blkmap64_rb.c:rb_unmark_bmap_extent",
  "lib/ext2fs/blkmap64_rb.c:rb_free_extent"
 ],
 "assumes": [
  "x"
 ],
 "backend": "minisat",
 "native": true,
 "cbmc_flags": [
  "--object-bits",
  "10"
 ],
 "unwindset": {
  "ext2fs_rb_next.0": 3,
  "ext2fs_rb_next.1": 3,
  "ext2fs_rb_prev.0": 3,
  "ext2fs_rb_prev.1": 3,
  "ext2fs_rb_insert_color.0": 2,
  "rb_insert_extent.0": 3,
  "rb_insert_extent.1": 3,
  "rb_remove_extent.0": 4,
  "rb_remove_extent.1": 4
 },
 "replace": [
  "ext2fs_rb_erase"
 ]
}
*/
/* VERIF-UNIT
{
 "name": "rb_remove_extent_delete_n2",
 "props": [
  "C16"
 ],
 "level": "B(2)",
 "tier": "wip",
 "harness": "h_rb_remove",
 "defines": [
  "EXT2_CUSTOM_MEMORY_ROUTINES",
  "RB_N=2",
  "RB_NEW=0",
  "RB_SCEN=3",
  "RB_BITS=16"
 ],
 "unwind": 9,
 "unwind_reason": "x",
 "sources": [
  "lib/ext2fs/rbtree.c"
 ],
 "functions": [
  "lib/ext2fs/blkmap64_rb.c:rb_remove_extent",
  "lib/ext2fs/blkmap64_rb.c:rb_unmark_bmap",
  "lib/ext2fs/blkmap64_rb.c:rb_unmark_bmap_extent",
  "lib/ext2fs/blkmap64_rb.c:rb_free_extent"
 ],
 "assumes": [
  "x"
 ],
 "backend": "minisat",
 "native": true,
 "cbmc_flags": [
  "--object-bits",
  "10"
 ],
 "unwindset": {
  "ext2fs_rb_next.0": 3,
  "ext2fs_rb_next.1": 3,
  "ext2fs_rb_erase.0": 2,
  "__rb_erase_color.0": 2,
  "rb_remove_extent.0": 4,
  "rb_remove_extent.1": 4
 },
 "replace": [
  "rb_insert_extent"
 ]
}
*/
/* VERIF-UNIT
{
 "name": "rb_resize_bmap_keep_n2",
 "props": [
  "C16"
 ],
 "level": "B(2)",
 "tier": "wip",
 "harness": "h_rb_resize",
 "defines": [
  "EXT2_CUSTOM_MEMORY_ROUTINES",
  "RB_N=2",
  "RB_NEW=0",
  "RB_SCEN=1",
  "RB_BITS=16"
 ],
 "unwind": 9,
 "unwind_reason": "x",
 "sources": [
  "lib/ext2fs/rbtree.c"
 ],
 "functions": [
  "lib/ext2fs/blkmap64_rb.c:rb_resize_bmap",
  "lib/ext2fs/blkmap64_rb.c:rb_truncate",
  "lib/ext2fs/blkmap64_rb.c:rb_insert_extent"
 ],
 "assumes": [
  "x"
 ],
 "backend": "minisat",
 "native": true,
 "cbmc_flags": [
  "--object-bits",
  "10"
 ],
 "unwindset": {
  "ext2fs_rb_next.0": 3,
  "ext2fs_rb_next.1": 3,
  "ext2fs_rb_prev.0": 3,
  "ext2fs_rb_prev.1": 3,
  "ext2fs_rb_last.0": 3,
  "rb_insert_extent.0": 3,
  "rb_insert_extent.1": 3,
  "rb_truncate.0": 5
 },
 "replace": [
  "ext2fs_rb_erase",
  "ext2fs_rb_insert_color"
 ]
}
*/
/* VERIF-UNIT
{
 "name": "rb_resize_bmap_pad_n2",
 "props": [
  "C16"
 ],
 "level": "B(2)",
 "tier": "wip",
 "harness": "h_rb_resize",
 "defines": [
  "EXT2_CUSTOM_MEMORY_ROUTINES",
  "RB_N=2",
  "RB_NEW=1",
  "RB_SCEN=2",
  "RB_BITS=16"
 ],
 "unwind": 9,
 "unwind_reason": "x",
 "sources": [
  "lib/ext2fs/rbtree.c"
 ],
 "functions": [
  "lib/ext2fs/blkmap64_rb.c:rb_resize_bmap",
  "lib/ext2fs/blkmap64_rb.c:rb_truncate",
  "lib/ext2fs/blkmap64_rb.c:rb_insert_extent"
 ],
 "assumes": [
  "x"
 ],
 "backend": "minisat",
 "native": true,
 "cbmc_flags": [
  "--object-bits",
  "10"
 ],
 "unwindset": {
  "ext2fs_rb_next.0": 3,
  "ext2fs_rb_next.1": 3,
  "ext2fs_rb_prev.0": 3,
  "ext2fs_rb_prev.1": 3,
  "ext2fs_rb_last.0": 3,
  "ext2fs_rb_insert_color.0": 2,
  "rb_insert_extent.0": 3,
  "rb_insert_extent.1": 3,
  "rb_truncate.0": 5
 },
 "replace": [
  "ext2fs_rb_erase"
 ]
}
*/
/* VERIF-UNIT
{
 "name": "rb_resize_bmap_cut_n2",
 "props": [
  "C16"
 ],
 "level": "B(2)",
 "tier": "wip",
 "harness": "h_rb_resize",
 "defines": [
  "EXT2_CUSTOM_MEMORY_ROUTINES",
  "RB_N=2",
  "RB_NEW=0",
  "RB_SCEN=3",
  "RB_BITS=16"
 ],
 "unwind": 9,
 "unwind_reason": "x",
 "sources": [
  "lib/ext2fs/rbtree.c"
 ],
 "functions": [
  "lib/ext2fs/blkmap64_rb.c:rb_resize_bmap",
  "lib/ext2fs/blkmap64_rb.c:rb_truncate",
  "lib/ext2fs/blkmap64_rb.c:rb_insert_extent"
 ],
 "assumes": [
  "x"
 ],
 "backend": "minisat",
 "native": true,
 "cbmc_flags": [
  "--object-bits",
  "10"
 ],
 "unwindset": {
  "ext2fs_rb_next.0": 3,
  "ext2fs_rb_next.1": 3,
  "ext2fs_rb_prev.0": 3,
  "ext2fs_rb_prev.1": 3,
  "ext2fs_rb_last.0": 3,
  "ext2fs_rb_erase.0": 2,
  "__rb_erase_color.0": 2,
  "rb_insert_extent.0": 3,
  "rb_insert_extent.1": 3,
  "rb_truncate.0": 5
 },
 "replace": [
  "ext2fs_rb_insert_color"
 ]
}
*/
/* VERIF-UNIT
{
 "name": "rb_resize_bmap_cutpad_n2",
 "props": [
  "C16"
 ],
 "level": "B(2)",
 "tier": "wip",
 "harness": "h_rb_resize",
 "defines": [
  "EXT2_CUSTOM_MEMORY_ROUTINES",
  "RB_N=2",
  "RB_NEW=1",
  "RB_SCEN=4",
  "RB_BITS=16"
 ],
 "unwind": 9,
 "unwind_reason": "x",
 "sources": [
  "lib/ext2fs/rbtree.c"
 ],
 "functions": [
  "lib/ext2fs/blkmap64_rb.c:rb_resize_bmap",
  "lib/ext2fs/blkmap64_rb.c:rb_truncate",
  "lib/ext2fs/blkmap64_rb.c:rb_insert_extent"
 ],
 "assumes": [
  "x"
 ],
 "backend": "minisat",
 "native": true,
 "cbmc_flags": [
  "--object-bits",
  "10"
 ],
 "unwindset": {
  "ext2fs_rb_next.0": 3,
  "ext2fs_rb_next.1": 3,
  "ext2fs_rb_prev.0": 3,
  "ext2fs_rb_prev.1": 3,
  "ext2fs_rb_last.0": 3,
  "ext2fs_rb_erase.0": 2,
  "__rb_erase_color.0": 2,
  "ext2fs_rb_insert_color.0": 2,
  "rb_insert_extent.0": 3,
  "rb_insert_extent.1": 3,
  "rb_truncate.0": 5
 }
}
*/
/* VERIF-UNIT
{
 "name": "rb_insert_extent_keep_n3",
 "props": [
  "C16"
 ],
 "level": "B(3)",
 "tier": "wip",
 "harness": "h_rb_insert",
 "defines": [
  "EXT2_CUSTOM_MEMORY_ROUTINES",
  "RB_N=3",
  "RB_NEW=0",
  "RB_SCEN=1",
  "RB_BITS=16"
 ],
 "unwind": 9,
 "unwind_reason": "x",
 "sources": [
  "lib/ext2fs/rbtree.c"
 ],
 "functions": [
  "lib/ext2fs/blkmap64_rb.c:rb_insert_extent",
  "lib/ext2fs/blkmap64_rb.c:rb_mark_bmap",
  "lib/ext2fs/blkmap64_rb.c:rb_mark_bmap_extent",
  "lib/ext2fs/blkmap64_rb.c:rb_get_new_extent",
  "lib/ext2fs/blkmap64_rb.c:rb_free_extent"
 ],
 "assumes": [
  "x"
 ],
 "backend": "minisat",
 "native": true,
 "cbmc_flags": [
  "--object-bits",
  "10"
 ],
 "unwindset": {
  "ext2fs_rb_next.0": 4,
  "ext2fs_rb_next.1": 4,
  "ext2fs_rb_prev.0": 4,
  "ext2fs_rb_prev.1": 4,
  "rb_insert_extent.0": 3,
  "rb_insert_extent.1": 4
 },
 "replace": [
  "ext2fs_rb_erase",
  "ext2fs_rb_insert_color"
 ]
}
*/
/* VERIF-UNIT
{
 "name": "rb_insert_extent_new_n3",
 "props": [
  "C16"
 ],
 "level": "B(3)",
 "tier": "wip",
 "harness": "h_rb_insert",
 "defines": [
  "EXT2_CUSTOM_MEMORY_ROUTINES",
  "RB_N=3",
  "RB_NEW=1",
  "RB_SCEN=2",
  "RB_BITS=16"
 ],
 "unwind": 9,
 "unwind_reason": "x",
 "sources": [
  "lib/ext2fs/rbtree.c"
 ],
 "functions": [
  "lib/ext2fs/blkmap64_rb.c:rb_insert_extent",
  "lib/ext2fs/blkmap64_rb.c:rb_mark_bmap",
  "lib/ext2fs/blkmap64_rb.c:rb_mark_bmap_extent",
  "lib/ext2fs/blkmap64_rb.c:rb_get_new_extent",
  "lib/ext2fs/blkmap64_rb.c:rb_free_extent"
 ],
 "assumes": [
  "x"
 ],
 "backend": "minisat",
 "native": true,
 "cbmc_flags": [
  "--object-bits",
  "10"
 ],
 "unwindset": {
  "ext2fs_rb_next.0": 4,
  "ext2fs_rb_next.1": 4,
  "ext2fs_rb_prev.0": 4,
  "ext2fs_rb_prev.1": 4,
  "ext2fs_rb_insert_color.0": 2,
  "rb_insert_extent.0": 3,
  "rb_insert_extent.1": 4
 },
 "replace": [
  "ext2fs_rb_erase"
 ]
}
*/
/* VERIF-UNIT
{
 "name": "rb_insert_extent_merge_n3",
 "props": [
  "C16"
 ],
 "level": "B(3)",
 "tier": "wip",
 "harness": "h_rb_insert",
 "defines": [
  "EXT2_CUSTOM_MEMORY_ROUTINES",
  "RB_N=3",
  "RB_NEW=0",
  "RB_SCEN=3",
  "RB_BITS=16"
 ],
 "unwind": 9,
 "unwind_reason": "x",
 "sources": [
  "lib/ext2fs/rbtree.c"
 ],
 "functions": [
  "lib/ext2fs/blkmap64_rb.c:rb_insert_extent",
  "lib/ext2fs/blkmap64_rb.c:rb_mark_bmap",
  "lib/ext2fs/blkmap64_rb.c:rb_mark_bmap_extent",
  "lib/ext2fs/blkmap64_rb.c:rb_get_new_extent",
  "lib/ext2fs/blkmap64_rb.c:rb_free_extent"
 ],
 "assumes": [
  "x"
 ],
 "backend": "minisat",
 "native": true,
 "cbmc_flags": [
  "--object-bits",
  "10"
 ],
 "unwindset": {
  "ext2fs_rb_next.0": 4,
  "ext2fs_rb_next.1": 4,
  "ext2fs_rb_prev.0": 4,
  "ext2fs_rb_prev.1": 4,
  "ext2fs_rb_erase.0": 2,
  "__rb_erase_color.0": 2,
  "rb_insert_extent.0": 3,
  "rb_insert_extent.1": 4
 },
 "replace": [
  "ext2fs_rb_insert_color"
 ]
}
*/
/* VERIF-UNIT
{
 "name": "rb_insert_extent_newmerge_n3",
 "props": [
  "C16"
 ],
 "level": "B(3)",
 "tier": "wip",
 "harness": "h_rb_insert",
 "defines": [
  "EXT2_CUSTOM_MEMORY_ROUTINES",
  "RB_N=3",
  "RB_NEW=1",
  "RB_SCEN=4",
  "RB_BITS=16"
 ],
 "unwind": 9,
 "unwind_reason": "x",
 "sources": [
  "lib/ext2fs/rbtree.c"
 ],
 "functions": [
  "lib/ext2fs/blkmap64_rb.c:rb_insert_extent",
  "lib/ext2fs/blkmap64_rb.c:rb_mark_bmap",
  "lib/ext2fs/blkmap64_rb.c:rb_mark_bmap_extent",
  "lib/ext2fs/blkmap64_rb.c:rb_get_new_extent",
  "lib/ext2fs/blkmap64_rb.c:rb_free_extent"
 ],
 "assumes": [
  "x"
 ],
 "backend": "minisat",
 "native": true,
 "cbmc_flags": [
  "--object-bits",
  "10"
 ],
 "unwindset": {
  "ext2fs_rb_next.0": 4,
  "ext2fs_rb_next.1": 4,
  "ext2fs_rb_prev.0": 4,
  "ext2fs_rb_prev.1": 4,
  "ext2fs_rb_erase.0": 2,
  "__rb_erase_color.0": 2,
  "ext2fs_rb_insert_color.0": 2,
  "rb_insert_extent.0": 3,
  "rb_insert_extent.1": 4
 }
}
*/
/* VERIF-UNIT
{
 "name": "rb_remove_extent_trunc_n3",
 "props": [
  "C16"
 ],
 "level": "B(3)",
 "tier": "wip",
 "harness": "h_rb_remove",
 "defines": [
  "EXT2_CUSTOM_MEMORY_ROUTINES",
  "RB_N=3",
  "RB_NEW=0",
  "RB_SCEN=1",
  "RB_BITS=16"
 ],
 "unwind": 9,
 "unwind_reason": "x",
 "sources": [
  "lib/ext2fs/rbtree.c"
 ],
 "functions": [
  "lib/ext2fs/blkmap64_rb.c:rb_remove_extent",
  "lib/ext2fs/blkmap64_rb.c:rb_unmark_bmap",
  "lib/ext2fs/blkmap64_rb.c:rb_unmark_bmap_extent",
  "lib/ext2fs/blkmap64_rb.c:rb_free_extent"
 ],
 "assumes": [
  "x"
 ],
 "backend": "minisat",
 "native": true,
 "cbmc_flags": [
  "--object-bits",
  "10"
 ],
 "unwindset": {
  "ext2fs_rb_next.0": 4,
  "ext2fs_rb_next.1": 4,
  "rb_remove_extent.0": 4,
  "rb_remove_extent.1": 5
 },
 "replace": [
  "ext2fs_rb_erase",
  "rb_insert_extent"
 ]
}
*/
/* VERIF-UNIT
{
 "name": "rb_remove_extent_split_n3",
 "props": [
  "C16"
 ],
 "level": "B(3)",
 "tier": "wip",
 "harness": "h_rb_remove",
 "defines": [
  "EXT2_CUSTOM_MEMORY_ROUTINES",
  "RB_N=3",
  "RB_NEW=1",
  "RB_SCEN=2",
  "RB_BITS=16"
 ],
 "unwind": 9,
 "unwind_reason": "x",
 "sources": [
  "lib/ext2fs/rbtree.c"
 ],
 "functions": [
  "lib/ext2fs/blkmap64_rb.c:rb_remove_extent",
  "lib/ext2fs/blkmap64_rb.c:rb_unmark_bmap",
  "lib/ext2fs/blkmap64_rb.c:rb_unmark_bmap_extent",
  "lib/ext2fs/blkmap64_rb.c:rb_free_extent"
 ],
 "assumes": [
  "x"
 ],
 "backend": "minisat",
 "native": true,
 "cbmc_flags": [
  "--object-bits",
  "10"
 ],
 "unwindset": {
  "ext2fs_rb_next.0": 4,
  "ext2fs_rb_next.1": 4,
  "ext2fs_rb_prev.0": 4,
  "ext2fs_rb_prev.1": 4,
  "ext2fs_rb_insert_color.0": 2,
  "rb_insert_extent.0": 3,
  "rb_insert_extent.1": 4,
  "rb_remove_extent.0": 4,
  "rb_remove_extent.1": 5
 },
 "replace": [
  "ext2fs_rb_erase"
 ]
}
*/
/* VERIF-UNIT
{
 "name": "rb_remove_extent_delete_n3",
 "props": [
  "C16"
 ],
 "level": "B(3)",
 "tier": "wip",
 "harness": "h_rb_remove",
 "defines": [
  "EXT2_CUSTOM_MEMORY_ROUTINES",
  "RB_N=3",
  "RB_NEW=0",
  "RB_SCEN=3",
  "RB_BITS=16"
 ],
 "unwind": 9,
 "unwind_reason": "x",
 "sources": [
  "lib/ext2fs/rbtree.c"
 ],
 "functions": [
  "lib/ext2fs/blkmap64_rb.c:rb_remove_extent",
  "lib/ext2fs/blkmap64_rb.c:rb_unmark_bmap",
  "lib/ext2fs/blkmap64_rb.c:rb_unmark_bmap_extent",
  "lib/ext2fs/blkmap64_rb.c:rb_free_extent"
 ],
 "assumes": [
  "x"
 ],
 "backend": "minisat",
 "native": true,
 "cbmc_flags": [
  "--object-bits",
  "10"
 ],
 "unwindset": {
  "ext2fs_rb_next.0": 4,
  "ext2fs_rb_next.1": 4,
  "ext2fs_rb_erase.0": 2,
  "__rb_erase_color.0": 2,
  "rb_remove_extent.0": 4,
  "rb_remove_extent.1": 5
 },
 "replace": [
  "rb_insert_extent"
 ]
}
*/
/* VERIF-UNIT
{
 "name": "rb_resize_bmap_keep_n3",
 "props": [
  "C16"
 ],
 "level": "B(3)",
 "tier": "wip",
 "harness": "h_rb_resize",
 "defines": [
  "EXT2_CUSTOM_MEMORY_ROUTINES",
  "RB_N=3",
  "RB_NEW=0",
  "RB_SCEN=1",
  "RB_BITS=16"
 ],
 "unwind": 9,
 "unwind_reason": "x",
 "sources": [
  "lib/ext2fs/rbtree.c"
 ],
 "functions": [
  "lib/ext2fs/blkmap64_rb.c:rb_resize_bmap",
  "lib/ext2fs/blkmap64_rb.c:rb_truncate",
  "lib/ext2fs/blkmap64_rb.c:rb_insert_extent"
 ],
 "assumes": [
  "x"
 ],
 "backend": "minisat",
 "native": true,
 "cbmc_flags": [
  "--object-bits",
  "10"
 ],
 "unwindset": {
  "ext2fs_rb_next.0": 4,
  "ext2fs_rb_next.1": 4,
  "ext2fs_rb_prev.0": 4,
  "ext2fs_rb_prev.1": 4,
  "ext2fs_rb_last.0": 4,
  "rb_insert_extent.0": 3,
  "rb_insert_extent.1": 4,
  "rb_truncate.0": 6
 },
 "replace": [
  "ext2fs_rb_erase",
  "ext2fs_rb_insert_color"
 ]
}
*/
/* VERIF-UNIT
{
 "name": "rb_resize_bmap_pad_n3",
 "props": [
  "C16"
 ],
 "level": "B(3)",
 "tier": "wip",
 "harness": "h_rb_resize",
 "defines": [
  "EXT2_CUSTOM_MEMORY_ROUTINES",
  "RB_N=3",
  "RB_NEW=1",
  "RB_SCEN=2",
  "RB_BITS=16"
 ],
 "unwind": 9,
 "unwind_reason": "x",
 "sources": [
  "lib/ext2fs/rbtree.c"
 ],
 "functions": [
  "lib/ext2fs/blkmap64_rb.c:rb_resize_bmap",
  "lib/ext2fs/blkmap64_rb.c:rb_truncate",
  "lib/ext2fs/blkmap64_rb.c:rb_insert_extent"
 ],
 "assumes": [
  "x"
 ],
 "backend": "minisat",
 "native": true,
 "cbmc_flags": [
  "--object-bits",
  "10"
 ],
 "unwindset": {
  "ext2fs_rb_next.0": 4,
  "ext2fs_rb_next.1": 4,
  "ext2fs_rb_prev.0": 4,
  "ext2fs_rb_prev.1": 4,
  "ext2fs_rb_last.0": 4,
  "ext2fs_rb_insert_color.0": 2,
  "rb_insert_extent.0": 3,
  "rb_insert_extent.1": 4,
  "rb_truncate.0": 6
 },
 "replace": [
  "ext2fs_rb_erase"
 ]
}
*/
/* VERIF-UNIT
{
 "name": "rb_resize_bmap_cut_n3",
 "props": [
  "C16"
 ],
 "level": "B(3)",
 "tier": "wip",
 "harness": "h_rb_resize",
 "defines": [
  "EXT2_CUSTOM_MEMORY_ROUTINES",
  "RB_N=3",
  "RB_NEW=0",
  "RB_SCEN=3",
  "RB_BITS=16"
 ],
 "unwind": 9,
 "unwind_reason": "x",
 "sources": [
  "lib/ext2fs/rbtree.c"
 ],
 "functions": [
  "lib/ext2fs/blkmap64_rb.c:rb_resize_bmap",
  "lib/ext2fs/blkmap64_rb.c:rb_truncate",
  "lib/ext2fs/blkmap64_rb.c:rb_insert_extent"
 ],
 "assumes": [
  "x"
 ],
 "backend": "minisat",
 "native": true,
 "cbmc_flags": [
  "--object-bits",
  "10"
 ],
 "unwindset": {
  "ext2fs_rb_next.0": 4,
  "ext2fs_rb_next.1": 4,
  "ext2fs_rb_prev.0": 4,
  "ext2fs_rb_prev.1": 4,
  "ext2fs_rb_last.0": 4,
  "ext2fs_rb_erase.0": 2,
  "__rb_erase_color.0": 2,
  "rb_insert_extent.0": 3,
  "rb_insert_extent.1": 4,
  "rb_truncate.0": 6
 },
 "replace": [
  "ext2fs_rb_insert_color"
 ]
}
*/
/* VERIF-UNIT
{
 "name": "rb_resize_bmap_cutpad_n3",
 "props": [
  "C16"
 ],
 "level": "B(3)",
 "tier": "wip",
 "harness": "h_rb_resize",
 "defines": [
  "EXT2_CUSTOM_MEMORY_ROUTINES",
  "RB_N=3",
  "RB_NEW=1",
  "RB_SCEN=4",
  "RB_BITS=16"
 ],
 "unwind": 9,
 "unwind_reason": "x",
 "sources": [
  "lib/ext2fs/rbtree.c"
 ],
 "functions": [
  "lib/ext2fs/blkmap64_rb.c:rb_resize_bmap",
  "lib/ext2fs/blkmap64_rb.c:rb_truncate",
  "lib/ext2fs/blkmap64_rb.c:rb_insert_extent"
 ],
 "assumes": [
  "x"
 ],
 "backend": "minisat",
 "native": true,
 "cbmc_flags": [
  "--object-bits",
  "10"
 ],
 "unwindset": {
  "ext2fs_rb_next.0": 4,
  "ext2fs_rb_next.1": 4,
  "ext2fs_rb_prev.0": 4,
  "ext2fs_rb_prev.1": 4,
  "ext2fs_rb_last.0": 4,
  "ext2fs_rb_erase.0": 2,
  "__rb_erase_color.0": 2,
  "ext2fs_rb_insert_color.0": 2,
  "rb_insert_extent.0": 3,
  "rb_insert_extent.1": 4,
  "rb_truncate.0": 6
 }
}
*/
/* VERIF-UNIT
{
 "name": "rb_insert_extent_keep_n4",
 "props": [
  "C16"
 ],
 "level": "B(4)",
 "tier": "wip",
 "harness": "h_rb_insert",
 "defines": [
  "EXT2_CUSTOM_MEMORY_ROUTINES",
  "RB_N=4",
  "RB_NEW=0",
  "RB_SCEN=1",
  "RB_BITS=16"
 ],
 "unwind": 9,
 "unwind_reason": "x",
 "sources": [
  "lib/ext2fs/rbtree.c"
 ],
 "functions": [
  "lib/ext2fs/blkmap64_rb.c:rb_insert_extent",
  "lib/ext2fs/blkmap64_rb.c:rb_mark_bmap",
  "lib/ext2fs/blkmap64_rb.c:rb_mark_bmap_extent",
  "lib/ext2fs/blkmap64_rb.c:rb_get_new_extent",
  "lib/ext2fs/blkmap64_rb.c:rb_free_extent"
 ],
 "assumes": [
  "x"
 ],
 "backend": "minisat",
 "native": true,
 "cbmc_flags": [
  "--object-bits",
  "10"
 ],
 "unwindset": {
  "ext2fs_rb_next.0": 4,
  "ext2fs_rb_next.1": 4,
  "ext2fs_rb_prev.0": 4,
  "ext2fs_rb_prev.1": 4,
  "rb_insert_extent.0": 4,
  "rb_insert_extent.1": 5
 },
 "replace": [
  "ext2fs_rb_erase",
  "ext2fs_rb_insert_color"
 ]
}
*/
/* VERIF-UNIT
{
 "name": "rb_insert_extent_new_n4",
 "props": [
  "C16"
 ],
 "level": "B(4)",
 "tier": "wip",
 "harness": "h_rb_insert",
 "defines": [
  "EXT2_CUSTOM_MEMORY_ROUTINES",
  "RB_N=4",
  "RB_NEW=1",
  "RB_SCEN=2",
  "RB_BITS=16"
 ],
 "unwind": 9,
 "unwind_reason": "x",
 "sources": [
  "lib/ext2fs/rbtree.c"
 ],
 "functions": [
  "lib/ext2fs/blkmap64_rb.c:rb_insert_extent",
  "lib/ext2fs/blkmap64_rb.c:rb_mark_bmap",
  "lib/ext2fs/blkmap64_rb.c:rb_mark_bmap_extent",
  "lib/ext2fs/blkmap64_rb.c:rb_get_new_extent",
  "lib/ext2fs/blkmap64_rb.c:rb_free_extent"
 ],
 "assumes": [
  "x"
 ],
 "backend": "minisat",
 "native": true,
 "cbmc_flags": [
  "--object-bits",
  "10"
 ],
 "unwindset": {
  "ext2fs_rb_next.0": 4,
  "ext2fs_rb_next.1": 4,
  "ext2fs_rb_prev.0": 4,
  "ext2fs_rb_prev.1": 4,
  "ext2fs_rb_insert_color.0": 2,
  "rb_insert_extent.0": 4,
  "rb_insert_extent.1": 5
 },
 "replace": [
  "ext2fs_rb_erase"
 ]
}
*/
/* VERIF-UNIT
{
 "name": "rb_insert_extent_merge_n4",
 "props": [
  "C16"
 ],
 "level": "B(4)",
 "tier": "wip",
 "harness": "h_rb_insert",
 "defines": [
  "EXT2_CUSTOM_MEMORY_ROUTINES",
  "RB_N=4",
  "RB_NEW=0",
  "RB_SCEN=3",
  "RB_BITS=16"
 ],
 "unwind": 9,
 "unwind_reason": "x",
 "sources": [
  "lib/ext2fs/rbtree.c"
 ],
 "functions": [
  "lib/ext2fs/blkmap64_rb.c:rb_insert_extent",
  "lib/ext2fs/blkmap64_rb.c:rb_mark_bmap",
  "lib/ext2fs/blkmap64_rb.c:rb_mark_bmap_extent",
  "lib/ext2fs/blkmap64_rb.c:rb_get_new_extent",
  "lib/ext2fs/blkmap64_rb.c:rb_free_extent"
 ],
 "assumes": [
  "x"
 ],
 "backend": "minisat",
 "native": true,
 "cbmc_flags": [
  "--object-bits",
  "10"
 ],
 "unwindset": {
  "ext2fs_rb_next.0": 4,
  "ext2fs_rb_next.1": 4,
  "ext2fs_rb_prev.0": 4,
  "ext2fs_rb_prev.1": 4,
  "ext2fs_rb_erase.0": 3,
  "__rb_erase_color.0": 3,
  "rb_insert_extent.0": 4,
  "rb_insert_extent.1": 5
 },
 "replace": [
  "ext2fs_rb_insert_color"
 ]
}
*/
/* VERIF-UNIT
{
 "name": "rb_insert_extent_newmerge_n4",
 "props": [
  "C16"
 ],
 "level": "B(4)",
 "tier": "wip",
 "harness": "h_rb_insert",
 "defines": [
  "EXT2_CUSTOM_MEMORY_ROUTINES",
  "RB_N=4",
  "RB_NEW=1",
  "RB_SCEN=4",
  "RB_BITS=16"
 ],
 "unwind": 9,
 "unwind_reason": "x",
 "sources": [
  "lib/ext2fs/rbtree.c"
 ],
 "functions": [
  "lib/ext2fs/blkmap64_rb.c:rb_insert_extent",
  "lib/ext2fs/blkmap64_rb.c:rb_mark_bmap",
  "lib/ext2fs/blkmap64_rb.c:rb_mark_bmap_extent",
  "lib/ext2fs/blkmap64_rb.c:rb_get_new_extent",
  "lib/ext2fs/blkmap64_rb.c:rb_free_extent"
 ],
 "assumes": [
  "x"
 ],
 "backend": "minisat",
 "native": true,
 "cbmc_flags": [
  "--object-bits",
  "10"
 ],
 "unwindset": {
  "ext2fs_rb_next.0": 4,
  "ext2fs_rb_next.1": 4,
  "ext2fs_rb_prev.0": 4,
  "ext2fs_rb_prev.1": 4,
  "ext2fs_rb_erase.0": 3,
  "__rb_erase_color.0": 3,
  "ext2fs_rb_insert_color.0": 2,
  "rb_insert_extent.0": 4,
  "rb_insert_extent.1": 5
 }
}
*/
/* VERIF-UNIT
{
 "name": "rb_remove_extent_trunc_n4",
 "props": [
  "C16"
 ],
 "level": "B(4)",
 "tier": "wip",
 "harness": "h_rb_remove",
 "defines": [
  "EXT2_CUSTOM_MEMORY_ROUTINES",
  "RB_N=4",
  "RB_NEW=0",
  "RB_SCEN=1",
  "RB_BITS=16"
 ],
 "unwind": 9,
 "unwind_reason": "x",
 "sources": [
  "lib/ext2fs/rbtree.c"
 ],
 "functions": [
  "lib/ext2fs/blkmap64_rb.c:rb_remove_extent",
  "lib/ext2fs/blkmap64_rb.c:rb_unmark_bmap",
  "lib/ext2fs/blkmap64_rb.c:rb_unmark_bmap_extent",
  "lib/ext2fs/blkmap64_rb.c:rb_free_extent"
 ],
 "assumes": [
  "x"
 ],
 "backend": "minisat",
 "native": true,
 "cbmc_flags": [
  "--object-bits",
  "10"
 ],
 "unwindset": {
  "ext2fs_rb_next.0": 4,
  "ext2fs_rb_next.1": 4,
  "rb_remove_extent.0": 5,
  "rb_remove_extent.1": 6
 },
 "replace": [
  "ext2fs_rb_erase",
  "rb_insert_extent"
 ]
}
*/
/* VERIF-UNIT
{
 "name": "rb_remove_extent_split_n4",
 "props": [
  "C16"
 ],
 "level": "B(4)",
 "tier": "wip",
 "harness": "h_rb_remove",
 "defines": [
  "EXT2_CUSTOM_MEMORY_ROUTINES",
  "RB_N=4",
  "RB_NEW=1",
  "RB_SCEN=2",
  "RB_BITS=16"
 ],
 "unwind": 9,
 "unwind_reason": "x",
 "sources": [
  "lib/ext2fs/rbtree.c"
 ],
 "functions": [
  "lib/ext2fs/blkmap64_rb.c:rb_remove_extent",
  "lib/ext2fs/blkmap64_rb.c:rb_unmark_bmap",
  "lib/ext2fs/blkmap64_rb.c:rb_unmark_bmap_extent",
  "lib/ext2fs/blkmap64_rb.c:rb_free_extent"
 ],
 "assumes": [
  "x"
 ],
 "backend": "minisat",
 "native": true,
 "cbmc_flags": [
  "--object-bits",
  "10"
 ],
 "unwindset": {
  "ext2fs_rb_next.0": 4,
  "ext2fs_rb_next.1": 4,
  "ext2fs_rb_prev.0": 4,
  "ext2fs_rb_prev.1": 4,
  "ext2fs_rb_insert_color.0": 2,
  "rb_insert_extent.0": 4,
  "rb_insert_extent.1": 5,
  "rb_remove_extent.0": 5,
  "rb_remove_extent.1": 6
 },
 "replace": [
  "ext2fs_rb_erase"
 ]
}
*/
/* VERIF-UNIT
{
 "name": "rb_remove_extent_delete_n4",
 "props": [
  "C16"
 ],
 "level": "B(4)",
 "tier": "wip",
 "harness": "h_rb_remove",
 "defines": [
  "EXT2_CUSTOM_MEMORY_ROUTINES",
  "RB_N=4",
  "RB_NEW=0",
  "RB_SCEN=3",
  "RB_BITS=16"
 ],
 "unwind": 9,
 "unwind_reason": "x",
 "sources": [
  "lib/ext2fs/rbtree.c"
 ],
 "functions": [
  "lib/ext2fs/blkmap64_rb.c:rb_remove_extent",
  "lib/ext2fs/blkmap64_rb.c:rb_unmark_bmap",
  "lib/ext2fs/blkmap64_rb.c:rb_unmark_bmap_extent",
  "lib/ext2fs/blkmap64_rb.c:rb_free_extent"
 ],
 "assumes": [
  "x"
 ],
 "backend": "minisat",
 "native": true,
 "cbmc_flags": [
  "--object-bits",
  "10"
 ],
 "unwindset": {
  "ext2fs_rb_next.0": 4,
  "ext2fs_rb_next.1": 4,
  "ext2fs_rb_erase.0": 3,
  "__rb_erase_color.0": 3,
  "rb_remove_extent.0": 5,
  "rb_remove_extent.1": 6
 },
 "replace": [
  "rb_insert_extent"
 ]
}
*/
/* VERIF-UNIT
{
 "name": "rb_resize_bmap_keep_n4",
 "props": [
  "C16"
 ],
 "level": "B(4)",
 "tier": "wip",
 "harness": "h_rb_resize",
 "defines": [
  "EXT2_CUSTOM_MEMORY_ROUTINES",
  "RB_N=4",
  "RB_NEW=0",
  "RB_SCEN=1",
  "RB_BITS=16"
 ],
 "unwind": 9,
 "unwind_reason": "x",
 "sources": [
  "lib/ext2fs/rbtree.c"
 ],
 "functions": [
  "lib/ext2fs/blkmap64_rb.c:rb_resize_bmap",
  "lib/ext2fs/blkmap64_rb.c:rb_truncate",
  "lib/ext2fs/blkmap64_rb.c:rb_insert_extent"
 ],
 "assumes": [
  "x"
 ],
 "backend": "minisat",
 "native": true,
 "cbmc_flags": [
  "--object-bits",
  "10"
 ],
 "unwindset": {
  "ext2fs_rb_next.0": 4,
  "ext2fs_rb_next.1": 4,
  "ext2fs_rb_prev.0": 4,
  "ext2fs_rb_prev.1": 4,
  "ext2fs_rb_last.0": 4,
  "rb_insert_extent.0": 4,
  "rb_insert_extent.1": 5,
  "rb_truncate.0": 7
 },
 "replace": [
  "ext2fs_rb_erase",
  "ext2fs_rb_insert_color"
 ]
}
*/
/* VERIF-UNIT
{
 "name": "rb_resize_bmap_pad_n4",
 "props": [
  "C16"
 ],
 "level": "B(4)",
 "tier": "wip",
 "harness": "h_rb_resize",
 "defines": [
  "EXT2_CUSTOM_MEMORY_ROUTINES",
  "RB_N=4",
  "RB_NEW=1",
  "RB_SCEN=2",
  "RB_BITS=16"
 ],
 "unwind": 9,
 "unwind_reason": "x",
 "sources": [
  "lib/ext2fs/rbtree.c"
 ],
 "functions": [
  "lib/ext2fs/blkmap64_rb.c:rb_resize_bmap",
  "lib/ext2fs/blkmap64_rb.c:rb_truncate",
  "lib/ext2fs/blkmap64_rb.c:rb_insert_extent"
 ],
 "assumes": [
  "x"
 ],
 "backend": "minisat",
 "native": true,
 "cbmc_flags": [
  "--object-bits",
  "10"
 ],
 "unwindset": {
  "ext2fs_rb_next.0": 4,
  "ext2fs_rb_next.1": 4,
  "ext2fs_rb_prev.0": 4,
  "ext2fs_rb_prev.1": 4,
  "ext2fs_rb_last.0": 4,
  "ext2fs_rb_insert_color.0": 2,
  "rb_insert_extent.0": 4,
  "rb_insert_extent.1": 5,
  "rb_truncate.0": 7
 },
 "replace": [
  "ext2fs_rb_erase"
 ]
}
*/
/* VERIF-UNIT
{
 "name": "rb_resize_bmap_cut_n4",
 "props": [
  "C16"
 ],
 "level": "B(4)",
 "tier": "wip",
 "harness": "h_rb_resize",
 "defines": [
  "EXT2_CUSTOM_MEMORY_ROUTINES",
  "RB_N=4",
  "RB_NEW=0",
  "RB_SCEN=3",
  "RB_BITS=16"
 ],
 "unwind": 9,
 "unwind_reason": "x",
 "sources": [
  "lib/ext2fs/rbtree.c"
 ],
 "functions": [
  "lib/ext2fs/blkmap64_rb.c:rb_resize_bmap",
  "lib/ext2fs/blkmap64_rb.c:rb_truncate",
  "lib/ext2fs/blkmap64_rb.c:rb_insert_extent"
 ],
 "assumes": [
  "x"
 ],
 "backend": "minisat",
 "native": true,
 "cbmc_flags": [
  "--object-bits",
  "10"
 ],
 "unwindset": {
  "ext2fs_rb_next.0": 4,
  "ext2fs_rb_next.1": 4,
  "ext2fs_rb_prev.0": 4,
  "ext2fs_rb_prev.1": 4,
  "ext2fs_rb_last.0": 4,
  "ext2fs_rb_erase.0": 3,
  "__rb_erase_color.0": 3,
  "rb_insert_extent.0": 4,
  "rb_insert_extent.1": 5,
  "rb_truncate.0": 7
 },
 "replace": [
  "ext2fs_rb_insert_color"
 ]
}
*/
/* VERIF-UNIT
{
 "name": "rb_resize_bmap_cutpad_n4",
 "props": [
  "C16"
 ],
 "level": "B(4)",
 "tier": "wip",
 "harness": "h_rb_resize",
 "defines": [
  "EXT2_CUSTOM_MEMORY_ROUTINES",
  "RB_N=4",
  "RB_NEW=1",
  "RB_SCEN=4",
  "RB_BITS=16"
 ],
 "unwind": 9,
 "unwind_reason": "x",
 "sources": [
  "lib/ext2fs/rbtree.c"
 ],
 "functions": [
  "lib/ext2fs/blkmap64_rb.c:rb_resize_bmap",
  "lib/ext2fs/blkmap64_rb.c:rb_truncate",
  "lib/ext2fs/blkmap64_rb.c:rb_insert_extent"
 ],
 "assumes": [
  "x"
 ],
 "backend": "minisat",
 "native": true,
 "cbmc_flags": [
  "--object-bits",
  "10"
 ],
 "unwindset": {
  "ext2fs_rb_next.0": 4,
  "ext2fs_rb_next.1": 4,
  "ext2fs_rb_prev.0": 4,
  "ext2fs_rb_prev.1": 4,
  "ext2fs_rb_last.0": 4,
  "ext2fs_rb_erase.0": 3,
  "__rb_erase_color.0": 3,
  "ext2fs_rb_insert_color.0": 2,
  "rb_insert_extent.0": 4,
  "rb_insert_extent.1": 5,
  "rb_truncate.0": 7
 }
}
*/
#include "rb_common.h"

#define IN_RANGE_REL(k, s, c) ((k) >= (s) && (k) - (s) < (c))

/*
 * Scenario predicates over the inputs (relative range [a, a+c), no wrap).  For each mutating operation the scenarios
 * selected by RB_SCEN partition the input space (RB_SCEN 0 / undefined: no restriction):
 *   insert  1: hit && !reach   the range starts in or immediately behind an extent and does not reach the next one
 *                              (tree structure unchanged: neither a new node nor an erase)
 *           2: !hit && !reach  a new node, nothing merged (no erase)
 *           3: hit && reach    an extent is extended and swallows / merges with later ones (erase, no new node)
 *           4: !hit && reach   a new node that swallows / merges with later ones (new node and erase)
 *   remove  1: !covered && !split   extents are only truncated (structure unchanged)
 *           2: split                the range lies strictly inside one extent (new node via rb_insert_extent, no erase)
 *           3: covered              at least one extent lies entirely inside the range (erase, rb_insert_extent unreachable)
 *   resize  1: !beyond && (!pad || touch)   nothing cut off entirely, padding absent or glued to the extent holding new_end
 *           2: !beyond && pad && !touch     padding becomes a new node
 *           3: beyond && (!pad || touch)    whole extents cut off (erase), no new node
 *           4: beyond && pad && !touch      erase and new node
 */
static int sc_hit(unsigned long long a)
{
	int r = 0;
	for (int i = 0; i < RB_N; i++)
		if (i < NN && IN.es[i] <= a && a <= IN.es[i] + IN.ec[i])
			r = 1;
	return r;
}
static int sc_reach(unsigned long long a, unsigned long long c)
{
	int r = 0;
	for (int i = 0; i < RB_N; i++)
		if (i < NN && a < IN.es[i] && IN.es[i] <= a + c)
			r = 1;
	return r;
}
static int sc_covered(unsigned long long a, unsigned long long c)
{
	int r = 0;
	for (int i = 0; i < RB_N; i++)
		if (i < NN && a <= IN.es[i] && IN.es[i] + IN.ec[i] <= a + c)
			r = 1;
	return r;
}
static int sc_split(unsigned long long a, unsigned long long c)
{
	int r = 0;
	for (int i = 0; i < RB_N; i++)
		if (i < NN && IN.es[i] < a && a + c < IN.es[i] + IN.ec[i])
			r = 1;
	return r;
}
static int sc_beyond(unsigned long long new_max)
{
	int r = 0;
	for (int i = 0; i < RB_N; i++)
		if (i < NN && IN.es[i] > new_max)
			r = 1;
	return r;
}
static int sc_holds(unsigned long long b)	/* some extent contains bit b (same as ref_member, named for the scenario) */
{
	return ref_member(b);
}

static void check_unchanged(void)
{
	CHECK_TREE("query");
	CHECK(WN == NN, "a query does not change the number of extents");
	CHECK(view(verif_k) == ref_member(verif_k), "the set is unchanged by a query");
}

void h_rb_test(void)
{
	build_rb();
	ASSUME(IN.arg >= IN.start && IN.arg <= IN.real_end);
	int r = rb_test_bmap(&BM, IN.arg);
	CHECK((r != 0) == ref_member(IN.arg - IN.start), "test_bmap returns membership");
	check_unchanged();
	if (NN == RB_N && IN.rc && IN.rcn && !ref_member(IN.arg - IN.start)) REACH("rcursor and rcursor_next set, not a member");
	if (NN == RB_N && IN.rc == 0 && IN.wc && ref_member(IN.arg - IN.start)) REACH("no rcursor, wcursor set, member");
	REACH("end");
}

/* mark_bmap (one bit, returns the old membership) / mark_bmap_extent (IN.num bits) through the ops-table entries */
void h_rb_insert(void)
{
	build_rb();
	ASSUME(IN.num >= 1 && IN.arg <= IN.real_end - IN.start && IN.num - 1 <= IN.real_end - IN.start - IN.arg);
#if RB_SCEN == 1
	ASSUME(sc_hit(IN.arg) && !sc_reach(IN.arg, IN.num));
#elif RB_SCEN == 2
	ASSUME(!sc_hit(IN.arg) && !sc_reach(IN.arg, IN.num));
#elif RB_SCEN == 3
	ASSUME(sc_hit(IN.arg) && sc_reach(IN.arg, IN.num));
#elif RB_SCEN == 4
	ASSUME(!sc_hit(IN.arg) && sc_reach(IN.arg, IN.num));
#endif
	int r = rb_insert_extent(IN.arg, IN.num, BP);
	CHECK(IN.num != 1 || (r != 0) == ref_member(IN.arg), "mark of one bit returns its old membership");
	CHECK_TREE("insert_extent");
	CHECK(view(verif_k) == (ref_member(verif_k) || IN_RANGE_REL(verif_k, IN.arg, IN.num)), "insert_extent: the set gains exactly [start, start+count)");
	/* situations, phrased over the inputs */
#if RB_SCEN == 1 && RB_N >= 1
	if (NN == RB_N && IN.wc == 1 && IN.arg == IN.es[0] + IN.ec[0]) REACH("wcursor shortcut: range immediately behind extent 0 (merge with the left neighbour)");
	if (NN == RB_N && IN.wc == 0 && IN.arg == IN.es[RB_N - 1] + IN.ec[RB_N - 1]) REACH("no wcursor: range immediately behind the last extent (merge with the left neighbour)");
	if (NN == RB_N && IN.arg > IN.es[0] && IN.arg + IN.num < IN.es[0] + IN.ec[0]) REACH("range strictly inside extent 0");
#elif RB_SCEN == 2 && RB_N >= 2
	if (NN == RB_N && IN.arg > IN.es[0] + IN.ec[0] && IN.arg + IN.num < IN.es[1]) REACH("new extent strictly inside the gap between extents 0 and 1");
	if (NN == RB_N && IN.wc == RB_N && IN.arg + IN.num < IN.es[0]) REACH("wcursor on the last extent, new extent before extent 0");
#elif RB_SCEN == 2 && RB_N == 1
	if (IN.wc == 1 && IN.arg + IN.num < IN.es[0]) REACH("wcursor set, new extent before extent 0");
#elif RB_SCEN == 3 && RB_N >= 2
	if (NN == RB_N && IN.arg == IN.es[0] + IN.ec[0] && IN.arg + IN.num == IN.es[1]) REACH("range exactly fills the gap between extents 0 and 1 (merge left and right)");
	if (NN == RB_N && IN.wc == 1 && IN.arg > IN.es[0] && IN.arg + IN.num > IN.es[RB_N - 1] + IN.ec[RB_N - 1]) REACH("wcursor shortcut: range from inside extent 0 beyond the last extent");
#elif RB_SCEN == 4 && RB_N >= 1
	if (NN == RB_N && IN.arg + IN.num == IN.es[0]) REACH("range ends immediately before extent 0 (merge with the right neighbour)");
	if (NN == RB_N && IN.arg < IN.es[0] && IN.arg + IN.num > IN.es[RB_N - 1] + IN.ec[RB_N - 1]) REACH("range swallows every extent");
#endif
	REACH("end");
}

/* unmark_bmap (one bit, returns the old membership) / rb_remove_extent (returns nonzero iff a bit of the range was set) */
void h_rb_remove(void)
{
	build_rb();
	ASSUME(IN.num >= 1 && IN.arg <= IN.real_end - IN.start && IN.num - 1 <= IN.real_end - IN.start - IN.arg);
#if RB_SCEN == 1
	ASSUME(!sc_covered(IN.arg, IN.num) && !sc_split(IN.arg, IN.num));
#elif RB_SCEN == 2
	ASSUME(sc_split(IN.arg, IN.num));
#elif RB_SCEN == 3
	ASSUME(sc_covered(IN.arg, IN.num));
#endif
	int r = rb_remove_extent(IN.arg, IN.num, BP);
	CHECK((r != 0) == ref_any_in(IN.arg, IN.num), "remove_extent returns nonzero iff some bit of the range was set (unmark of one bit: its old membership)");
	CHECK_TREE("remove_extent");
	CHECK(view(verif_k) == (ref_member(verif_k) && !IN_RANGE_REL(verif_k, IN.arg, IN.num)), "remove_extent: the set loses exactly [start, start+count)");
#if RB_SCEN == 1 && RB_N >= 1
	if (NN == RB_N && IN.arg < IN.es[0] && IN.arg + IN.num > IN.es[0] && IN.arg + IN.num < IN.es[0] + IN.ec[0]) REACH("range starts outside and ends strictly inside extent 0 (head truncated)");
	if (NN == RB_N && IN.arg == IN.es[0] && IN.num < IN.ec[0]) REACH("range is a proper prefix of extent 0");
	if (NN == RB_N && IN.arg > IN.es[0] && IN.arg + IN.num == IN.es[0] + IN.ec[0]) REACH("range is a proper suffix of extent 0");
	if (NN == RB_N && IN.arg + IN.num == IN.es[0]) REACH("range ends immediately before extent 0");
#endif
#if RB_SCEN == 1 && RB_N >= 2
	if (NN == RB_N && IN.arg > IN.es[0] && IN.arg < IN.es[0] + IN.ec[0] && IN.arg + IN.num > IN.es[1] && IN.arg + IN.num < IN.es[1] + IN.ec[1]) REACH("range from inside extent 0 to inside extent 1 (tail and head truncated)");
#endif
#if RB_SCEN == 2 && RB_N >= 1
	if (NN == RB_N && IN.arg > IN.es[RB_N - 1] && IN.arg + IN.num < IN.es[RB_N - 1] + IN.ec[RB_N - 1]) REACH("range covers the middle of the last extent (split)");
	if (NN == RB_N && IN.arg > IN.es[0] && IN.arg + IN.num < IN.es[0] + IN.ec[0] && IN.wc == 1 && IN.rc == 1) REACH("range covers the middle of extent 0, both cursors on it (split)");
#endif
#if RB_SCEN == 3 && RB_N >= 1
	if (NN == RB_N && IN.arg <= IN.es[0] && IN.arg + IN.num >= IN.es[RB_N - 1] + IN.ec[RB_N - 1]) REACH("range covers every extent");
	if (NN == RB_N && IN.arg == IN.es[0] && IN.num == IN.ec[0] && IN.rc == 1 && IN.rcn) REACH("range is exactly extent 0, rcursor on it");
#endif
	REACH("end");
}

void h_rb_test_clear(void)
{
	build_rb();
	ASSUME(IN.num >= 1 && IN.arg >= IN.start && IN.arg <= IN.real_end && IN.num - 1 <= IN.real_end - IN.arg);
	int r = rb_test_clear_bmap_extent(&BM, IN.arg, IN.num);
	CHECK((r != 0) == !ref_any_in(IN.arg - IN.start, IN.num), "test_clear_bmap_extent: nonzero iff no bit of the range is set");
	check_unchanged();
#if RB_N >= 1
	if (NN == RB_N && IN.arg - IN.start < IN.es[0] && IN.arg - IN.start + IN.num > IN.es[0]) REACH("range starts before extent 0 and reaches into it");
	if (NN == RB_N && IN.arg - IN.start + IN.num == IN.es[RB_N - 1]) REACH("range ends immediately before the last extent");
#endif
	if (!ref_any_in(IN.arg - IN.start, IN.num)) REACH("range clear");
	REACH("end");
}

void h_rb_ffz(void)
{
	build_rb();
	ASSUME(IN.arg >= IN.start && IN.arg <= IN.arg2 && IN.arg2 <= IN.end);
	__u64 out = 0;
	unsigned long long s = IN.arg - IN.start, e = IN.arg2 - IN.start;
	errcode_t r = rb_find_first_zero(&BM, IN.arg, IN.arg2, &out);
	CHECK(r == 0 || r == ENOENT, "find_first_zero returns 0 or ENOENT on a valid range");
	if (r == 0) {
		CHECK(out >= IN.arg && out <= IN.arg2, "find_first_zero: result inside [start, end]");
		CHECK(!ref_member(out - IN.start), "find_first_zero: the result is not a member");
		CHECK(!(verif_k >= s && verif_k < out - IN.start) || ref_member(verif_k), "find_first_zero: every bit before the result is a member");
	} else {
		CHECK(!(verif_k >= s && verif_k <= e) || ref_member(verif_k), "find_first_zero: ENOENT only if every bit of [start, end] is a member");
	}
	check_unchanged();
#if RB_N >= 1
	if (NN == RB_N && ref_member(s) && IN.es[RB_N - 1] + IN.ec[RB_N - 1] - 1 == e) REACH("start is a member, the range ends with the last bit of the last extent");
	if (NN == RB_N && ref_member(s) && !ref_member(e)) REACH("start is a member, end is not");
#endif
	if (!ref_member(s)) REACH("start is not a member");
	REACH("end");
}

void h_rb_ffs(void)
{
	build_rb();
	ASSUME(IN.arg >= IN.start && IN.arg <= IN.arg2 && IN.arg2 <= IN.end);
	__u64 out = 0;
	unsigned long long s = IN.arg - IN.start, e = IN.arg2 - IN.start;
	errcode_t r = rb_find_first_set(&BM, IN.arg, IN.arg2, &out);
	CHECK(r == 0 || r == ENOENT, "find_first_set returns 0 or ENOENT on a valid range");
	if (r == 0) {
		CHECK(out >= IN.arg && out <= IN.arg2, "find_first_set: result inside [start, end]");
		CHECK(ref_member(out - IN.start), "find_first_set: the result is a member");
		CHECK(!(verif_k >= s && verif_k < out - IN.start) || !ref_member(verif_k), "find_first_set: no bit before the result is a member");
	} else {
		CHECK(!(verif_k >= s && verif_k <= e) || !ref_member(verif_k), "find_first_set: ENOENT only if no bit of [start, end] is a member");
	}
	check_unchanged();
#if RB_N >= 1
	if (NN == RB_N && !ref_member(s) && s < IN.es[RB_N - 1] && e >= IN.es[RB_N - 1]) REACH("start not a member, a later extent begins inside the range");
	if (NN == RB_N && s > IN.es[RB_N - 1] + IN.ec[RB_N - 1]) REACH("start behind the last extent");
#endif
	if (!ref_any_in(s, e - s + 1)) REACH("no member in the range");
	REACH("end");
}

#ifndef RB_RANGE_BITS
#define RB_RANGE_BITS 64
#endif
void h_rb_get_range(void)
{
	build_rb();
	ASSUME(IN.num >= 1 && IN.num <= RB_RANGE_BITS);
	ASSUME(IN.arg >= IN.start && IN.arg <= IN.real_end && IN.num - 1 <= IN.real_end - IN.arg);
	unsigned char *out = malloc(8);
	ASSUME(out != 0);
	for (int i = 0; i < 8; i++)
		out[i] = IN.buf[i];		/* previous content of the caller's buffer: arbitrary */
	unsigned long long j = IN.k;		/* ghost bit position inside the range */
	ASSUME(j < IN.num);
	errcode_t r = rb_get_bmap_range(&BM, IN.arg, IN.num, out);
	CHECK(r == 0, "get_bmap_range succeeds");
	CHECK(((out[j >> 3] >> (j & 7)) & 1) == ref_member(IN.arg - IN.start + j), "get_bmap_range: output bit j = membership of start + j");
	verif_k = IN.arg - IN.start + j;
	check_unchanged();
#if RB_N >= 1
	if (NN == RB_N && IN.arg - IN.start > IN.es[0] && IN.arg - IN.start < IN.es[0] + IN.ec[0] && IN.num > 8) REACH("range starts inside extent 0, more than a byte");
	if (NN == RB_N && IN.arg - IN.start < IN.es[0] && IN.arg - IN.start + IN.num > IN.es[RB_N - 1] + IN.ec[RB_N - 1]) REACH("range covers every extent");
#endif
	REACH("end");
}

#ifndef RB_SET_BITS
#define RB_SET_BITS 6
#endif
void h_rb_set_range(void)
{
	build_rb();
	ASSUME(IN.num >= 1 && IN.num <= RB_SET_BITS);
	ASSUME(IN.arg >= IN.start && IN.arg <= IN.real_end && IN.num - 1 <= IN.real_end - IN.arg);
	unsigned char *in = malloc(8);
	ASSUME(in != 0);
	for (int i = 0; i < 8; i++)
		in[i] = IN.buf[i];
	unsigned long long s = IN.arg - IN.start;
	errcode_t r = rb_set_bmap_range(&BM, IN.arg, IN.num, in);
	CHECK(r == 0, "set_bmap_range succeeds");
	CHECK_TREE("set_bmap_range");
	CHECK(view(verif_k) == (ref_member(verif_k) || (IN_RANGE_REL(verif_k, s, IN.num) && ((IN.buf[(verif_k - s) >> 3] >> ((verif_k - s) & 7)) & 1))),
	      "set_bmap_range: the set gains exactly the bits set in the input buffer");
	if (IN.num >= 5 && (IN.buf[0] & 0x1f) == 0x15 && !ref_any_in(s, 6)) REACH("three separate runs inserted");
	if (IN.num == RB_SET_BITS && (IN.buf[0] & ((1 << RB_SET_BITS) - 1)) == ((1 << RB_SET_BITS) - 1)) REACH("one run up to the end of the range");
	REACH("end");
}

void h_rb_resize(void)
{
	build_rb();
	ASSUME(IN.arg >= IN.start && IN.arg <= IN.arg2 && IN.arg2 - IN.start < (1ULL << RB_BITS));
	unsigned long long keep = (IN.arg < IN.end ? IN.arg : IN.end) - IN.start;	/* last bit that survives */
	{
		int beyond = sc_beyond(keep), pad = IN.arg < IN.arg2;
		int touch = IN.arg <= IN.end && sc_holds(IN.arg - IN.start);
#if RB_SCEN == 1
		ASSUME(!beyond && (!pad || touch));
#elif RB_SCEN == 2
		ASSUME(!beyond && pad && !touch);
#elif RB_SCEN == 3
		ASSUME(beyond && (!pad || touch));
#elif RB_SCEN == 4
		ASSUME(beyond && pad && !touch);
#endif
		(void)beyond; (void)pad; (void)touch;
	}
	errcode_t r = rb_resize_bmap(&BM, IN.arg, IN.arg2);
	CHECK(r == 0, "resize succeeds");
	CHECK(BM.end == IN.arg && BM.real_end == IN.arg2 && BM.start == IN.start, "resize installs the new geometry");
	CHECK_TREE("resize");
	int expect = verif_k <= keep ? ref_member(verif_k) :
		     verif_k <= IN.arg - IN.start ? 0 :
		     verif_k <= IN.arg2 - IN.start ? 1 : 0;	/* padding (new_end, new_real_end] is marked, nothing beyond */
	CHECK(view(verif_k) == expect, "resize: members <= min(old end, new end) kept, new tail empty, padding marked");
#if RB_SCEN == 1 && RB_N >= 1
	if (NN == RB_N && IN.arg < IN.end && IN.arg - IN.start > IN.es[RB_N - 1] && IN.arg - IN.start < IN.es[RB_N - 1] + IN.ec[RB_N - 1] - 1 && IN.arg < IN.arg2) REACH("shrink into the last extent, padding glued to it");
	if (NN == RB_N && IN.arg > IN.end && IN.arg == IN.arg2) REACH("grow without padding");
#elif RB_SCEN == 2 && RB_N >= 1
	if (NN == RB_N && IN.arg > IN.end && IN.es[RB_N - 1] + IN.ec[RB_N - 1] - 1 == IN.end - IN.start) REACH("grow, last extent ends at the old end, padding becomes a new extent");
	if (NN == RB_N && IN.arg < IN.end) REACH("shrink, padding becomes a new extent");
#elif RB_SCEN == 3 && RB_N >= 1
	if (NN == RB_N && IN.arg - IN.start < IN.es[0] && IN.arg == IN.arg2) REACH("shrink below the first extent, no padding");
	if (NN == RB_N && IN.arg > IN.end && IN.es[RB_N - 1] > IN.end - IN.start) REACH("grow, old padding extent removed");
#elif RB_SCEN == 4 && RB_N >= 1
	if (NN == RB_N && IN.arg - IN.start < IN.es[0]) REACH("shrink below the first extent, padding is the only extent left");
#endif
	REACH("end");
}

/* ---- lib/ext2fs/rbtree.c itself: ext2fs_rb_erase / ext2fs_rb_insert_color on every red-black tree of RB_N nodes ---- */
void h_rbtree_erase(void)
{
	build_rb();
	ASSUME(IN.num < RB_N);
	struct bmap_rb_extent *victim = ND[IN.num];
	BP->wcursor = BP->rcursor = BP->rcursor_next = 0;
	ext2fs_rb_erase(&victim->node, &BP->root);
	CHECK_TREE("rb_erase");
	CHECK(WN == RB_N - 1, "rb_erase: one node fewer");
	for (int i = 0; i < RB_N; i++)
		if (i < WN)
			CHECK(W[i] == ND[i < (int)IN.num ? i : i + 1], "rb_erase: the in-order sequence is the old one without the victim");
	REACH("end");
}
