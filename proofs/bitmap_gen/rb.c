/*
 * blkmap64_rb.c — BOUNDED units (level B(4): trees of at most 4 extents; never counted as proved).
 * Harness-level obligations only (the operations free and allocate tree nodes; a DFCC frame for that is not
 * expressible without quantifiers), see rb_common.h for the tree builder, well_formed and the set view.
 */
/* VERIF-UNIT
{
 "name": "rb_test_bit",
 "props": ["C16"],
 "level": "B(4)",
 "tier": "wip",
 "harness": "h_rb_test",
 "unwind": 8,
 "unwindset": {"walk.0": 16},
 "unwind_reason": "BOUNDED: at most 4 extents (tree height <= 3, walk of <= 6 nodes needs 14 steps); unwinding assertions on",
 "sources": ["lib/ext2fs/rbtree.c"],
 "functions": ["lib/ext2fs/blkmap64_rb.c:rb_test_bmap", "lib/ext2fs/blkmap64_rb.c:rb_test_bit"],
 "assumes": ["BOUNDED: tree of <= 4 well-formed extents, every red-black shape, arbitrary cursors", "argument inside [start, real_end] (guaranteed by the generic layer)"],
 "backend": "kissat",
 "native": true
}
*/
/* VERIF-UNIT
{
 "name": "rb_insert_extent",
 "props": ["C16"],
 "level": "B(4)",
 "tier": "wip",
 "harness": "h_rb_insert",
 "unwind": 8,
 "unwindset": {"walk.0": 16},
 "unwind_reason": "BOUNDED: at most 4 extents before, 5 after; unwinding assertions on",
 "sources": ["lib/ext2fs/rbtree.c"],
 "functions": ["lib/ext2fs/blkmap64_rb.c:rb_insert_extent", "lib/ext2fs/blkmap64_rb.c:rb_mark_bmap", "lib/ext2fs/blkmap64_rb.c:rb_mark_bmap_extent"],
 "assumes": ["BOUNDED: tree of <= 4 well-formed extents, every red-black shape, arbitrary cursors", "range inside [start, real_end], count >= 1"],
 "backend": "kissat",
 "native": true
}
*/
/* VERIF-UNIT
{
 "name": "rb_remove_extent",
 "props": ["C16"],
 "level": "B(4)",
 "tier": "wip",
 "harness": "h_rb_remove",
 "defines": ["RB_CAP=2"],
 "unwind": 8,
 "unwindset": {"walk.0": 16},
 "unwind_reason": "BOUNDED: at most 4 extents before, 5 after (split); unwinding assertions on",
 "sources": ["lib/ext2fs/rbtree.c"],
 "functions": ["lib/ext2fs/blkmap64_rb.c:rb_remove_extent", "lib/ext2fs/blkmap64_rb.c:rb_unmark_bmap", "lib/ext2fs/blkmap64_rb.c:rb_unmark_bmap_extent"],
 "assumes": ["BOUNDED: tree of <= 4 well-formed extents, every red-black shape, arbitrary cursors", "range inside [start, real_end], count >= 1"],
 "backend": "kissat",
 "native": true
}
*/
/* VERIF-UNIT
{
 "name": "rb_test_clear_extent",
 "props": ["C16"],
 "level": "B(4)",
 "tier": "wip",
 "harness": "h_rb_test_clear",
 "unwind": 8,
 "unwindset": {"walk.0": 16},
 "unwind_reason": "BOUNDED: at most 4 extents; unwinding assertions on",
 "sources": ["lib/ext2fs/rbtree.c"],
 "functions": ["lib/ext2fs/blkmap64_rb.c:rb_test_clear_bmap_extent"],
 "assumes": ["BOUNDED: tree of <= 4 well-formed extents, every red-black shape, arbitrary cursors", "range inside [start, real_end], len >= 1"],
 "backend": "kissat",
 "native": true
}
*/
/* VERIF-UNIT
{
 "name": "rb_find_first_zero",
 "props": ["C16"],
 "level": "B(4)",
 "tier": "wip",
 "harness": "h_rb_ffz",
 "unwind": 8,
 "unwindset": {"walk.0": 16},
 "unwind_reason": "BOUNDED: at most 4 extents; unwinding assertions on",
 "sources": ["lib/ext2fs/rbtree.c"],
 "functions": ["lib/ext2fs/blkmap64_rb.c:rb_find_first_zero"],
 "assumes": ["BOUNDED: tree of <= 4 well-formed extents, every red-black shape, arbitrary cursors", "bitmap start <= start <= end <= bitmap end (checked by the generic layer)"],
 "backend": "kissat",
 "native": true
}
*/
/* VERIF-UNIT
{
 "name": "rb_find_first_set",
 "props": ["C16"],
 "level": "B(4)",
 "tier": "wip",
 "harness": "h_rb_ffs",
 "unwind": 8,
 "unwindset": {"walk.0": 16},
 "unwind_reason": "BOUNDED: at most 4 extents; unwinding assertions on",
 "sources": ["lib/ext2fs/rbtree.c"],
 "functions": ["lib/ext2fs/blkmap64_rb.c:rb_find_first_set"],
 "assumes": ["BOUNDED: tree of <= 4 well-formed extents, every red-black shape, arbitrary cursors", "bitmap start <= start <= end <= bitmap end (checked by the generic layer)"],
 "backend": "kissat",
 "native": true
}
*/
/* VERIF-UNIT
{
 "name": "rb_get_bmap_range",
 "props": ["C16"],
 "level": "B(4)",
 "tier": "wip",
 "harness": "h_rb_get_range",
 "unwind": 20,
 "unwind_reason": "BOUNDED: at most 4 extents and num <= 64 bits (per extent at most 7 + 1 + 7 steps of the bit/byte loop); unwinding assertions on",
 "sources": ["lib/ext2fs/rbtree.c", "lib/ext2fs/bitops.c"],
 "functions": ["lib/ext2fs/blkmap64_rb.c:rb_get_bmap_range"],
 "assumes": ["BOUNDED: tree of <= 4 well-formed extents, every red-black shape, arbitrary cursors", "BOUNDED: 1 <= num <= 64 (8-byte output buffer with arbitrary previous content)", "range inside [start, real_end]"],
 "backend": "kissat",
 "native": true
}
*/
/* VERIF-UNIT
{
 "name": "rb_set_bmap_range",
 "props": ["C16"],
 "level": "B(2)",
 "tier": "wip",
 "harness": "h_rb_set_range",
 "unwind": 8,
 "unwindset": {"walk.0": 16},
 "unwind_reason": "BOUNDED: at most 2 extents before, num <= 6 bits (at most 3 runs inserted, 5 extents after); unwinding assertions on",
 "sources": ["lib/ext2fs/rbtree.c", "lib/ext2fs/bitops.c"],
 "functions": ["lib/ext2fs/blkmap64_rb.c:rb_set_bmap_range"],
 "assumes": ["BOUNDED: tree of <= 2 well-formed extents, arbitrary cursors", "BOUNDED: 1 <= num <= 6", "range inside [start, real_end]"],
 "backend": "kissat",
 "native": true
}
*/
/* VERIF-UNIT
{
 "name": "rb_resize_bmap",
 "props": ["C16"],
 "level": "B(4)",
 "tier": "wip",
 "harness": "h_rb_resize",
 "unwind": 8,
 "unwindset": {"walk.0": 16},
 "unwind_reason": "BOUNDED: at most 4 extents; unwinding assertions on",
 "sources": ["lib/ext2fs/rbtree.c"],
 "functions": ["lib/ext2fs/blkmap64_rb.c:rb_resize_bmap", "lib/ext2fs/blkmap64_rb.c:rb_truncate"],
 "assumes": ["BOUNDED: tree of <= 4 well-formed extents, every red-black shape, arbitrary cursors", "start <= new_end <= new_real_end, new_real_end - start < 2^62"],
 "backend": "kissat",
 "native": true
}
*/
#include "rb_common.h"

#define IN_RANGE_REL(k, s, c) ((k) >= (s) && (k) - (s) < (c))

static void check_unchanged(void)
{
	walk();
	CHECK(well_formed(), "well_formed is preserved (links, sorted, disjoint, non-adjacent, count > 0, cursors)");
	CHECK(view(verif_k) == ref_member(verif_k), "the set is unchanged by a query");
}

void h_rb_test(void)
{
	build_rb();
	ASSUME(IN.arg >= IN.start && IN.arg <= IN.real_end);
	int r = rb_test_bmap(&BM, IN.arg);
	CHECK((r != 0) == ref_member(IN.arg - IN.start), "test_bmap returns membership");
	check_unchanged();
	if (IN.n == 4 && IN.rc && r == 0) REACH("4 extents, rcursor set, not a member");
	REACH("end");
}

void h_rb_insert(void)
{
	build_rb();
	ASSUME(IN.arg2 >= 1 && IN.arg <= IN.real_end - IN.start && IN.arg2 - 1 <= IN.real_end - IN.start - IN.arg);
	int r = rb_insert_extent(IN.arg, IN.arg2, BP);
	walk();
	CHECK(well_formed(), "insert_extent preserves well_formed");
	CHECK(view(verif_k) == (ref_member(verif_k) || IN_RANGE_REL(verif_k, IN.arg, IN.arg2)), "insert_extent: the set gains exactly [start, start+count)");
	CHECK(IN.arg2 != 1 || (r != 0) == ref_member(IN.arg), "mark of a single bit returns the old membership");
	if (IN.n == 4 && WN == 2) REACH("4 extents merged into 2");
	if (IN.n == 4 && WN == 5) REACH("5 extents after insert");
	REACH("end");
}

void h_rb_remove(void)
{
	build_rb();
	ASSUME(IN.arg2 >= 1 && IN.arg <= IN.real_end - IN.start && IN.arg2 - 1 <= IN.real_end - IN.start - IN.arg);
	int r = rb_remove_extent(IN.arg, IN.arg2, BP);
	walk();
	CHECK(well_formed(), "remove_extent preserves well_formed");
	CHECK(view(verif_k) == (ref_member(verif_k) && !IN_RANGE_REL(verif_k, IN.arg, IN.arg2)), "remove_extent: the set loses exactly [start, start+count)");
	CHECK((r != 0) == ref_any_in(IN.arg, IN.arg2), "remove_extent returns nonzero iff some bit of the range was set");
	if (IN.n == 4 && WN == 5) REACH("split: 5 extents after remove");
	if (IN.n == 4 && WN == 1) REACH("3 extents removed");
	REACH("end");
}

void h_rb_test_clear(void)
{
	build_rb();
	ASSUME(IN.num >= 1 && IN.arg >= IN.start && IN.arg <= IN.real_end && IN.num - 1 <= IN.real_end - IN.arg);
	int r = rb_test_clear_bmap_extent(&BM, IN.arg, IN.num);
	CHECK((r != 0) == !ref_any_in(IN.arg - IN.start, IN.num), "test_clear_bmap_extent: nonzero iff no bit of the range is set");
	check_unchanged();
	if (IN.n == 4 && r == 0) REACH("4 extents, range not clear");
	REACH("end");
}

void h_rb_ffz(void)
{
	build_rb();
	ASSUME(IN.arg >= IN.start && IN.arg <= IN.arg2 && IN.arg2 <= IN.end);
	__u64 out = 0;
	unsigned long long s = IN.arg - IN.start, e = IN.arg2 - IN.start;
	errcode_t r = rb_find_first_zero(&BM, IN.arg, IN.arg2, &out);
	CHECK(r == 0 || r == ENOENT, "find_first_zero returns 0 or ENOENT on a valid range");
	if (r == 0) {
		CHECK(out >= IN.arg && out <= IN.arg2, "find_first_zero: result inside [start, end]");
		CHECK(!ref_member(out - IN.start), "find_first_zero: the result is not a member");
		CHECK(!(verif_k >= s && verif_k < out - IN.start) || ref_member(verif_k), "find_first_zero: every bit before the result is a member");
	} else {
		CHECK(!(verif_k >= s && verif_k <= e) || ref_member(verif_k), "find_first_zero: ENOENT only if every bit of [start, end] is a member");
	}
	check_unchanged();
	if (IN.n == 4 && r == 0 && out > IN.arg) REACH("4 extents, zero found after start");
	if (IN.n == 0) REACH("empty tree");
	REACH("end");
}

void h_rb_ffs(void)
{
	build_rb();
	ASSUME(IN.arg >= IN.start && IN.arg <= IN.arg2 && IN.arg2 <= IN.end);
	__u64 out = 0;
	unsigned long long s = IN.arg - IN.start, e = IN.arg2 - IN.start;
	errcode_t r = rb_find_first_set(&BM, IN.arg, IN.arg2, &out);
	CHECK(r == 0 || r == ENOENT, "find_first_set returns 0 or ENOENT on a valid range");
	if (r == 0) {
		CHECK(out >= IN.arg && out <= IN.arg2, "find_first_set: result inside [start, end]");
		CHECK(ref_member(out - IN.start), "find_first_set: the result is a member");
		CHECK(!(verif_k >= s && verif_k < out - IN.start) || !ref_member(verif_k), "find_first_set: no bit before the result is a member");
	} else {
		CHECK(!(verif_k >= s && verif_k <= e) || !ref_member(verif_k), "find_first_set: ENOENT only if no bit of [start, end] is a member");
	}
	check_unchanged();
	if (IN.n == 4 && r == 0 && out > IN.arg) REACH("4 extents, set bit found after start");
	if (IN.n == 0) REACH("empty tree");
	REACH("end");
}

void h_rb_get_range(void)
{
	build_rb();
	ASSUME(IN.num >= 1 && IN.num <= 64);
	ASSUME(IN.arg >= IN.start && IN.arg <= IN.real_end && IN.num - 1 <= IN.real_end - IN.arg);
	unsigned char *out = malloc(8);
	ASSUME(out != 0);
	for (int i = 0; i < 8; i++)
		out[i] = IN.buf[i];		/* previous content of the caller's buffer: arbitrary */
	unsigned long long j = IN.k;		/* ghost bit position inside the range */
	ASSUME(j < IN.num);
	errcode_t r = rb_get_bmap_range(&BM, IN.arg, IN.num, out);
	CHECK(r == 0, "get_bmap_range succeeds");
	CHECK(((out[j >> 3] >> (j & 7)) & 1) == ref_member(IN.arg - IN.start + j), "get_bmap_range: output bit j = membership of start + j");
	verif_k = IN.arg - IN.start + j;
	check_unchanged();
	if (IN.n == 4 && IN.num > 40) REACH("4 extents, long range");
	if (IN.n == 0) REACH("empty tree");
	REACH("end");
}

void h_rb_set_range(void)
{
	build_rb();
	ASSUME(IN.n <= 2);
	ASSUME(IN.num >= 1 && IN.num <= 6);
	ASSUME(IN.arg >= IN.start && IN.arg <= IN.real_end && IN.num - 1 <= IN.real_end - IN.arg);
	unsigned char *in = malloc(8);
	ASSUME(in != 0);
	for (int i = 0; i < 8; i++)
		in[i] = IN.buf[i];
	unsigned long long s = IN.arg - IN.start;
	errcode_t r = rb_set_bmap_range(&BM, IN.arg, IN.num, in);
	CHECK(r == 0, "set_bmap_range succeeds");
	walk();
	CHECK(well_formed(), "set_bmap_range preserves well_formed");
	CHECK(view(verif_k) == (ref_member(verif_k) || (IN_RANGE_REL(verif_k, s, IN.num) && ((IN.buf[(verif_k - s) >> 3] >> ((verif_k - s) & 7)) & 1))),
	      "set_bmap_range: the set gains exactly the bits set in the input buffer");
	if (IN.n == 2 && WN == 5) REACH("three runs inserted");
	REACH("end");
}

void h_rb_resize(void)
{
	build_rb();
	ASSUME(IN.arg >= IN.start && IN.arg <= IN.arg2 && IN.arg2 - IN.start < (1ULL << 62));
	unsigned long long keep = (IN.arg < IN.end ? IN.arg : IN.end) - IN.start;	/* last bit that survives */
	errcode_t r = rb_resize_bmap(&BM, IN.arg, IN.arg2);
	CHECK(r == 0, "resize succeeds");
	CHECK(BM.end == IN.arg && BM.real_end == IN.arg2 && BM.start == IN.start, "resize installs the new geometry");
	walk();
	CHECK(well_formed(), "resize preserves well_formed");
	int expect = verif_k <= keep ? ref_member(verif_k) :
		     verif_k <= IN.arg - IN.start ? 0 :
		     verif_k <= IN.arg2 - IN.start ? 1 : 0;	/* padding (new_end, new_real_end] is marked, nothing beyond */
	CHECK(view(verif_k) == expect, "resize: members <= min(old end, new end) kept, new tail empty, padding marked");
	if (IN.n == 4 && WN == 2) REACH("4 extents truncated");
	if (IN.n == 4 && IN.arg > IN.end) REACH("grow");
	REACH("end");
}
