/* VERIF-UNIT
{
 "name": "gen32_single",
 "props": ["C16"],
 "level": "U",
 "tier": "quick",
 "harness": "h_g32_single",
 "enforce": ["ext2fs_mark_generic_bitmap", "ext2fs_unmark_generic_bitmap", "ext2fs_test_generic_bitmap"],
 "sources": ["lib/ext2fs/bitops.c"],
 "functions": ["lib/ext2fs/gen_bitmap.c:ext2fs_mark_generic_bitmap", "lib/ext2fs/gen_bitmap.c:ext2fs_unmark_generic_bitmap",
               "lib/ext2fs/gen_bitmap.c:ext2fs_test_generic_bitmap", "lib/ext2fs/gen_bitmap.c:ext2fs_warn_bitmap2",
               "lib/ext2fs/bitops.c:ext2fs_set_bit", "lib/ext2fs/bitops.c:ext2fs_clear_bit", "lib/ext2fs/bitops.c:ext2fs_test_bit"],
 "assumes": ["bit array capped at 2^20 bits (object-size cap); geometry, content, magic number otherwise symbolic",
             "the handle is non-NULL (the functions dereference it unconditionally; the inline wrappers in bitops.h pass allocated bitmaps)",
             "with a 64-bit magic number the call is forwarded to the 64-bit API: logging stubs with arbitrary results (verified in the gen64 units)",
             "com_err() is the counting hook"],
 "native": false
}
*/
#include "gen32_common.h"

/* ------------------------------------------------------------------ single-bit operations (legacy)
 * Property: set semantics over [start, end].
 *   number inside [start, end]  -> result nonzero iff it was a member; mark: it joins, unmark: it leaves, test: no change;
 *                                  every other number keeps its membership; no error hook
 *   number outside              -> 0, nothing changes, error hook once with base_error_code + operation code
 *   64-bit bitmap               -> ext2fs_warn_bitmap32 once, forwarded once to the 64-bit function, its result returned
 *   anything else               -> 0, nothing changes, error hook with EXT2_ET_MAGIC_GENERIC_BITMAP */
int verif_old_argbit;	/* ghost: membership of the argument on entry (if it is inside the bitmap) */
enum { S_MARK, S_UNMARK, S_TEST };
#define NEW_BIT(OP, j) ((OP) == S_MARK ? (verif_old_bit || verif_k == (j)) : (OP) == S_UNMARK ? (verif_old_bit && verif_k != (j)) : (verif_old_bit != 0))

static int spec32_single(__u32 bitno, int ret, int OP, int ERRC, int F64)
{
	if (IS32M(BM.magic)) {
		if (bitno >= BM.start && bitno <= BM.end)
			return (ret != 0) == (verif_old_argbit != 0) && BIT(BM.bitmap, verif_k) == NEW_BIT(OP, bitno - BM.start) &&
			       G_WARN == 0 && G_FWD == 0 && G_WARN32 == 0;
		return ret == 0 && BIT(BM.bitmap, verif_k) == verif_old_bit && G_FWD == 0 && G_WARN32 == 0 &&
		       G_WARN == 1 && G_CODE == (unsigned long long)(BM.base_error_code + ERRC);
	}
	if (IS64M(BM.magic))
		return G_WARN32 == 1 && G_FWD == 1 && G_FWD_OP == (unsigned)F64 && G_FWD_ARG == bitno && g_bm == (const unsigned char *)&BM &&
		       ret == (int)IN.be_ret && G_WARN == 0 && BIT(BM.bitmap, verif_k) == verif_old_bit;
	return ret == 0 && BIT(BM.bitmap, verif_k) == verif_old_bit && G_FWD == 0 && G_WARN32 == 0 &&
	       G_WARN == 1 && G_CODE == (unsigned long long)EXT2_ET_MAGIC_GENERIC_BITMAP;
}
static int pre32(ext2fs_generic_bitmap bm)
{
	return bm == GBM && BM.start <= BM.end && BM.end <= BM.real_end && BM.real_end - BM.start < G32_MAX_BITS &&
	       verif_k <= BM.real_end - BM.start && verif_old_bit == BIT(BM.bitmap, verif_k) && PRE_LOG32;
}
#define PRE_ARGBIT(bitno) IMPL((bitno) >= BM.start && (bitno) <= BM.end, verif_old_argbit == BIT(BM.bitmap, (bitno) - BM.start))

int ext2fs_mark_generic_bitmap(ext2fs_generic_bitmap bitmap, __u32 bitno)
	REQUIRES(pre32(bitmap) && PRE_ARGBIT(bitno))
	ENSURES(spec32_single(bitno, RET, S_MARK, EXT2FS_MARK_ERROR, F64_MARK))
	ASSIGNS(__CPROVER_object_whole(BM.bitmap), GHOSTS32);
int ext2fs_unmark_generic_bitmap(ext2fs_generic_bitmap bitmap, blk_t bitno)
	REQUIRES(pre32(bitmap) && PRE_ARGBIT(bitno))
	ENSURES(spec32_single(bitno, RET, S_UNMARK, EXT2FS_UNMARK_ERROR, F64_UNMARK))
	ASSIGNS(__CPROVER_object_whole(BM.bitmap), GHOSTS32);
int ext2fs_test_generic_bitmap(ext2fs_generic_bitmap bitmap, blk_t bitno)
	REQUIRES(pre32(bitmap) && PRE_ARGBIT(bitno))
	ENSURES(spec32_single(bitno, RET, S_TEST, EXT2FS_TEST_ERROR, F64_TEST))
	ASSIGNS(__CPROVER_object_whole(BM.bitmap), GHOSTS32);

void h_g32_single(void)
{
	int r;
	build_bitmap();
	if (IN.arg >= IN.start && IN.arg <= IN.end)
		verif_old_argbit = BIT(BM.bitmap, IN.arg - IN.start);
	if (IN.op % 3 == 0) {
		r = ext2fs_mark_generic_bitmap(GBM, IN.arg);
		CHECK(spec32_single(IN.arg, r, S_MARK, EXT2FS_MARK_ERROR, F64_MARK), "legacy mark: the number joins the set, result = old membership; outside [start,end]: 0, no change, error hook");
		if (IS32M(IN.magic) && IN.arg >= IN.start && IN.arg <= IN.end && IN.arg - IN.start == verif_k && !verif_old_bit) REACH("mark at k, was clear");
		if (IS32M(IN.magic) && IN.arg > IN.end && IN.arg <= IN.real_end) REACH("mark in the padding: rejected");
	} else if (IN.op % 3 == 1) {
		r = ext2fs_unmark_generic_bitmap(GBM, IN.arg);
		CHECK(spec32_single(IN.arg, r, S_UNMARK, EXT2FS_UNMARK_ERROR, F64_UNMARK), "legacy unmark: the number leaves the set, result = old membership; outside [start,end]: 0, no change, error hook");
		if (IS32M(IN.magic) && IN.arg >= IN.start && IN.arg <= IN.end && IN.arg - IN.start == verif_k && verif_old_bit) REACH("unmark at k, was set");
		if (IS32M(IN.magic) && IN.arg < IN.start) REACH("unmark below start: rejected");
	} else {
		r = ext2fs_test_generic_bitmap(GBM, IN.arg);
		CHECK(spec32_single(IN.arg, r, S_TEST, EXT2FS_TEST_ERROR, F64_TEST), "legacy test: result = membership, no change; outside [start,end]: 0, error hook");
		if (IS32M(IN.magic) && IN.arg >= IN.start && IN.arg <= IN.end && r) REACH("test: member");
		if (IS32M(IN.magic) && IN.arg >= IN.start && IN.arg <= IN.end && !r) REACH("test: no member");
	}
	if (IS64M(IN.magic)) REACH("64-bit bitmap forwarded");
	if (!IS64M(IN.magic) && !IS32M(IN.magic)) REACH("bad magic");
	REACH("end");
}
