/* VERIF-UNIT
{
 "name": "gen64_test_range2",
 "props": ["C16"],
 "level": "U",
 "tier": "quick",
 "harness": "h_gen_range",
 "defines": ["RANGE_OP=0", "GEN64_CB_ENUM"],
 "enforce": ["ext2fs_test_block_bitmap_range2"],
 "functions": ["lib/ext2fs/gen_bitmap64.c:ext2fs_test_block_bitmap_range2"],
 "assumes": ["backend = harness model backend (set semantics at one ghost cluster, argument checks, call log; see gen64_common.h); the real backends are proved against the same contracts in their own units",
             "cluster_bits enumerated over {0, 4} (no bigalloc / 16 blocks per cluster); block, num, bitmap geometry, membership fully symbolic",
             "legacy 32-bit magic excluded (dispatch to gen_bitmap.c, see gen32 units)",
             "num >= 1 (callers pass a positive block count; the rounding of an empty range is not defined by the property)",
             "start <= end <= real_end, real_end < 2^62 >> cluster_bits (block numbers are at most 48 bits on disk)"],
 "backend": "kissat",
 "native": true
}
*/
/* VERIF-UNIT
{
 "name": "gen64_mark_range2",
 "props": ["C16"],
 "level": "U",
 "tier": "quick",
 "harness": "h_gen_range",
 "defines": ["RANGE_OP=1", "GEN64_CB_ENUM"],
 "enforce": ["ext2fs_mark_block_bitmap_range2"],
 "functions": ["lib/ext2fs/gen_bitmap64.c:ext2fs_mark_block_bitmap_range2"],
 "assumes": ["backend = harness model backend (set semantics at one ghost cluster, argument checks, call log; see gen64_common.h); the real backends are proved against the same contracts in their own units",
             "cluster_bits enumerated over {0, 4} (no bigalloc / 16 blocks per cluster); block, num, bitmap geometry, membership fully symbolic",
             "legacy 32-bit magic excluded (dispatch to gen_bitmap.c, see gen32 units)",
             "num >= 1 (callers pass a positive block count; the rounding of an empty range is not defined by the property)",
             "start <= end <= real_end, real_end < 2^62 >> cluster_bits (block numbers are at most 48 bits on disk)"],
 "backend": "kissat",
 "native": true
}
*/
/* VERIF-UNIT
{
 "name": "gen64_unmark_range2",
 "props": ["C16"],
 "level": "U",
 "tier": "quick",
 "harness": "h_gen_range",
 "defines": ["RANGE_OP=2", "GEN64_CB_ENUM"],
 "enforce": ["ext2fs_unmark_block_bitmap_range2"],
 "functions": ["lib/ext2fs/gen_bitmap64.c:ext2fs_unmark_block_bitmap_range2"],
 "assumes": ["backend = harness model backend (set semantics at one ghost cluster, argument checks, call log; see gen64_common.h); the real backends are proved against the same contracts in their own units",
             "cluster_bits enumerated over {0, 4} (no bigalloc / 16 blocks per cluster); block, num, bitmap geometry, membership fully symbolic",
             "legacy 32-bit magic excluded (dispatch to gen_bitmap.c, see gen32 units)",
             "num >= 1 (callers pass a positive block count; the rounding of an empty range is not defined by the property)",
             "start <= end <= real_end, real_end < 2^62 >> cluster_bits (block numbers are at most 48 bits on disk)"],
 "backend": "kissat",
 "native": true
}
*/
#include "gen64_common.h"

/* ------------------------------------------------------------------ block ranges (gen_bitmap64.c, 64-bit bitmaps)
 * Property: the clusters that intersect the block range [block, block+num) are cf = cluster(block) ...
 * cl = cluster(block+num-1); the range is acceptable iff it does not wrap and cf >= start and cl <= end.
 *   acceptable   -> the backend is called exactly once, for exactly the clusters cf..cl; the ghost cluster k joins /
 *                   leaves the set iff cf <= k <= cl, otherwise its membership is unchanged
 *   unacceptable -> no backend call, membership unchanged, error hook called once with the documented code */
#define LASTB(block, num) ((block) + (num) - 1)
#define RANGE_OK(g, block, num) (LASTB(block, num) >= (block) && CL(g, block) >= B64(g)->start && CL(g, LASTB(block, num)) <= B64(g)->end)
#define NCL(g, block, num) (CL(g, LASTB(block, num)) - CL(g, block) + 1)
#define K_IN_RANGE(g, block, num) (verif_k >= CL(g, block) && verif_k <= CL(g, LASTB(block, num)))

static int spec_range(ext2fs_generic_bitmap g, __u64 block, unsigned int num, int OPC, errcode_t ERRCODE)
{
	return (
	!VALID64(g) ? (G_CALLS == 0 && G_WARN == 0 && verif_g0 == (unsigned)verif_old_bit) :
	RANGE_OK(g, block, num) ?
		(G_CALLS == 1 && G_OP == (OPC) && G_ARG == CL(g, block) && G_NUM == NCL(g, block, num) &&
		 g_bm == (const void *)(g) && G_WARN == 0 &&
		 verif_g0 == (unsigned)((OPC) == OP_MARK_EXT ? (verif_old_bit || K_IN_RANGE(g, block, num)) : (verif_old_bit && !K_IN_RANGE(g, block, num)))) :
		(G_CALLS == 0 && G_WARN == 1 && G_CODE == (unsigned long long)(ERRCODE) && verif_g0 == (unsigned)verif_old_bit));
}

/* test: nonzero iff no member among the clusters cf..cl (pointwise: nonzero => k is not a member if in range;
 * exact when the range is the single cluster k); the backend is consulted exactly once for exactly cf..cl and its
 * answer is the result; unacceptable range: nonzero, backend untouched, error hook */
static int spec_test_range(ext2fs_generic_bitmap g, __u64 block, unsigned int num, int ret)
{
	return (
	!VALID64(g) ? ((ret) != 0 && G_CALLS == 0 && verif_g0 == (unsigned)verif_old_bit) :
	RANGE_OK(g, block, num) ?
		(G_CALLS == 1 && g_bm == (const void *)(g) && G_WARN == 0 && verif_g0 == (unsigned)verif_old_bit && G_ARG == CL(g, block) &&
		 ((G_OP == OP_TEST && NCL(g, block, num) == 1) ||
		  (G_OP == OP_TESTCLEAR && G_NUM == NCL(g, block, num) && ((ret) != 0) == (IN.be_ret != 0))) &&
		 ((ret) == 0 || !(K_IN_RANGE(g, block, num) && verif_old_bit)) &&
		 (!(NCL(g, block, num) == 1 && CL(g, block) == verif_k) || ((ret) != 0) == !verif_old_bit)) :
		((ret) != 0 && ((num) == 1 || (ret) == EINVAL) && G_CALLS == 0 && G_WARN == 1 && verif_g0 == (unsigned)verif_old_bit));
}

#if RANGE_OP == 0
int ext2fs_test_block_bitmap_range2(ext2fs_block_bitmap gen_bmap, blk64_t block, unsigned int num)
	REQUIRES(PRE_A(gen_bmap, &MODEL_OPS) && PRE_LOG && num >= 1)
	ENSURES(spec_test_range(gen_bmap, block, num, RET))
	ASSIGNS(GHOSTS);
#elif RANGE_OP == 1
void ext2fs_mark_block_bitmap_range2(ext2fs_block_bitmap gen_bmap, blk64_t block, unsigned int num)
	REQUIRES(PRE_A(gen_bmap, &MODEL_OPS) && PRE_LOG && num >= 1)
	ENSURES(spec_range(gen_bmap, block, num, OP_MARK_EXT, EXT2_ET_BAD_BLOCK_MARK))
	ASSIGNS(GHOSTS);
#else
void ext2fs_unmark_block_bitmap_range2(ext2fs_block_bitmap gen_bmap, blk64_t block, unsigned int num)
	REQUIRES(PRE_A(gen_bmap, &MODEL_OPS) && PRE_LOG && num >= 1)
	ENSURES(spec_range(gen_bmap, block, num, OP_UNMARK_EXT, EXT2_ET_BAD_BLOCK_UNMARK))
	ASSIGNS(GHOSTS);
#endif

static void range_body(ext2fs_generic_bitmap g)
{
#if RANGE_OP == 0
	int r = ext2fs_test_block_bitmap_range2(g, IN.arg, IN.num);
	CHECK(spec_test_range(g, IN.arg, IN.num, r),
	      "test_range2: backend asked once for exactly the clusters intersecting [block, block+num); nonzero iff none is a member; bad range rejected");
	if (g && IS64M(IN.magic) && G_OP == OP_TESTCLEAR && IN.cluster_bits > 0 && r == 0 && (IN.arg & 15) == 15 && G_NUM == 2) REACH("test range bigalloc unaligned, member found");
	if (g && IS64M(IN.magic) && G_OP == OP_TESTCLEAR && r != 0 && K_IN_RANGE(g, IN.arg, IN.num)) REACH("test range, k inside, all clear");
	if (g && IS64M(IN.magic) && G_OP == OP_TEST) REACH("test range, single block");
	if (g && IS64M(IN.magic) && G_WARN == 1 && IN.num > 1) REACH("test range rejected");
#elif RANGE_OP == 1
	ext2fs_mark_block_bitmap_range2(g, IN.arg, IN.num);
	CHECK(spec_range(g, IN.arg, IN.num, OP_MARK_EXT, EXT2_ET_BAD_BLOCK_MARK),
	      "mark_range2: exactly the clusters intersecting [block, block+num) join the set; bad range: nothing changes, error hook");
	if (g && IS64M(IN.magic) && G_CALLS == 1 && IN.cluster_bits > 1 && (IN.arg & 3) == 3 && G_NUM > 1) REACH("mark range, unaligned bigalloc");
	if (g && IS64M(IN.magic) && G_CALLS == 1 && IN.cluster_bits == 0 && !verif_old_bit && verif_g0) REACH("mark range, k joins, no bigalloc");
	if (g && IS64M(IN.magic) && G_WARN == 1) REACH("mark range rejected");
#else
	ext2fs_unmark_block_bitmap_range2(g, IN.arg, IN.num);
	CHECK(spec_range(g, IN.arg, IN.num, OP_UNMARK_EXT, EXT2_ET_BAD_BLOCK_UNMARK),
	      "unmark_range2: exactly the clusters intersecting [block, block+num) leave the set; bad range: nothing changes, error hook");
	if (g && IS64M(IN.magic) && G_CALLS == 1 && IN.cluster_bits > 1 && (IN.arg & 3) == 3 && G_NUM > 1) REACH("unmark range, unaligned bigalloc");
	if (g && IS64M(IN.magic) && G_CALLS == 1 && verif_old_bit && !verif_g0) REACH("unmark range, k leaves");
	if (g && IS64M(IN.magic) && G_WARN == 1) REACH("unmark range rejected");
#endif
	if (!g) REACH("NULL handle");
}

void h_gen_range(void)
{
	ext2fs_generic_bitmap g = build_a(&MODEL_OPS);
	ASSUME(IN.num >= 1);
	SPLIT_CB(range_body, g);
	REACH("end");
}
