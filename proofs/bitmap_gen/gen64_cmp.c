/* VERIF-UNIT
{
 "name": "gen64_compare",
 "props": ["C16"],
 "level": "U",
 "tier": "quick",
 "harness": "h_gen_cmp",
 "defines": ["GEN64_CB_ENUM"],
 "enforce": ["ext2fs_compare_generic_bmap"],
 "loop_contracts": true,
 "functions": ["lib/ext2fs/gen_bitmap64.c:ext2fs_compare_generic_bmap"],
 "assumes": ["both bitmaps use the harness model backend (set semantics at one ghost cluster each; see gen64_common.h)",
             "both bitmaps have the same cluster_bits, enumerated over {0, 4}; geometry of both bitmaps, membership, neq fully symbolic",
             "neq != 0 (the two call sites in bitmaps.c pass the nonzero codes EXT2_ET_NEQ_BLOCK_BITMAP / EXT2_ET_NEQ_INODE_BITMAP)",
             "legacy 32-bit magic excluded (dispatch to gen_bitmap.c)",
             "start <= end <= real_end, real_end < 2^62 >> cluster_bits for both bitmaps"],
 "backend": "kissat",
 "native": false
}
*/

/* Loop contract of the scan in ext2fs_compare_generic_bmap (named anchor in gen_bitmap64.c; the text lives here because
 * it is phrased over this unit's ghost registers: verif_k = ghost cluster, verif_g0 / verif_g1 = its membership in the
 * first / second bitmap, verif_g6 = number of error-hook calls).  Invariant: the two sets agree on every cluster of
 * [start, i) - stated at the ghost cluster; the scan changes neither set and never calls the error hook. */
#define VERIF_INV_COMPARE_GENERIC_BMAP_SCAN \
	__CPROVER_assigns(i, verif_g2, verif_g3, verif_g4, verif_g5, verif_p0, verif_p1) \
	__CPROVER_loop_invariant(bm1->start <= i && i <= bm1->end + 1) \
	__CPROVER_loop_invariant(verif_g0 == verif_old0 && verif_g1 == verif_old1 && verif_g6 == 0) \
	__CPROVER_loop_invariant(verif_k < bm1->start || verif_k >= i || verif_g0 == verif_g1) \
	__CPROVER_decreases(bm1->end + 1 - i)
extern unsigned long long verif_old0, verif_old1;

#include "gen64_common.h"

/* ------------------------------------------------------------------ compare
 * Property: two bitmaps compare equal (0) exactly if they have the same range and the same members:
 *   invalid handle / different kinds          -> EINVAL
 *   different [start, end]                    -> neq
 *   otherwise the result is 0 or neq, and pointwise at the ghost cluster k in [start, end]:
 *        ret == 0   => member_A(k) == member_B(k)      (no difference is overlooked)
 *   (the converse - neq only if some cluster differs - is existential and follows from the loop structure; it is
 *    not stated pointwise)
 *   comparing changes neither set and does not call the error hook. */
static int pre_cmp(ext2fs_generic_bitmap a, ext2fs_generic_bitmap b)
{
	return (a == 0 || (a == (ext2fs_generic_bitmap)&BMA && WF64(a, &MODEL_OPS, &verif_g0))) &&
	       (b == 0 || (b == (ext2fs_generic_bitmap)&BMB && WF64(b, &MODEL_OPS, &verif_g1))) &&
	       verif_g0 <= 1 && verif_g1 <= 1 && G_CALLS == 0 && G_WARN == 0;
}
static int spec_cmp(errcode_t neq, ext2fs_generic_bitmap a, ext2fs_generic_bitmap b, errcode_t ret,
		    unsigned long long old0, unsigned long long old1)
{
	if (verif_g0 != old0 || verif_g1 != old1)
		return 0;
	if (!a || !b || B64(a)->magic != B64(b)->magic || !IS64M(B64(a)->magic))
		return ret == EINVAL && G_WARN == 0;
	if (B64(a)->start != B64(b)->start || B64(a)->end != B64(b)->end)
		return ret == neq && G_WARN == 0;
	return (ret == 0 || ret == neq) && G_WARN == 0 &&
	       (ret != 0 || !(verif_k >= B64(a)->start && verif_k <= B64(a)->end) || verif_g0 == verif_g1);
}
unsigned long long verif_old0, verif_old1;	/* ghost: membership of k in A / B on entry */
errcode_t ext2fs_compare_generic_bmap(errcode_t neq, ext2fs_generic_bitmap gen_bm1, ext2fs_generic_bitmap gen_bm2)
	REQUIRES(pre_cmp(gen_bm1, gen_bm2) && verif_old0 == verif_g0 && verif_old1 == verif_g1)
	REQUIRES(neq != 0)	/* call sites (bitmaps.c) pass EXT2_ET_NEQ_BLOCK_BITMAP / EXT2_ET_NEQ_INODE_BITMAP */
	ENSURES(spec_cmp(neq, gen_bm1, gen_bm2, RET, verif_old0, verif_old1))
	ASSIGNS(GHOSTS);

static void cmp_body(ext2fs_generic_bitmap a, ext2fs_generic_bitmap b)
{
	errcode_t r = ext2fs_compare_generic_bmap(IN.neq, a, b);
	CHECK(spec_cmp(IN.neq, a, b, r, verif_old0, verif_old1),
	      "compare: 0 only if same range and same membership at every cluster of [start, end]; neq / EINVAL otherwise; sets unchanged");
	if (a && b && r == 0 && IN.neq != 0 && IS64M(IN.magic) && IN.end > IN.start && IN.cluster_bits > 0) REACH("equal, bigalloc");
	if (a && b && r == 0 && IN.neq != 0 && IS64M(IN.magic) && verif_k == IN.end) REACH("equal, k is the last cluster");
	if (a && b && IS64M(IN.magic) && r == IN.neq && IN.start == IN.start2 && IN.end == IN.end2 && IN.neq != 0) REACH("differ in content");
	if (a && b && IS64M(IN.magic) && IN.magic == IN.magic2 && IN.end != IN.end2) REACH("different range");
	if (!a || !b) REACH("NULL handle");
}

void h_gen_cmp(void)
{
	ext2fs_generic_bitmap a = build_a(&MODEL_OPS);
	ext2fs_generic_bitmap b;
	ASSUME(IN.neq != 0);
	ASSUME(!IS32M(IN.magic2));
	ASSUME(IN.start2 <= IN.end2 && IN.end2 <= IN.real_end);
	fill_bitmap(&BMB, IN.magic2, IN.start2, IN.end2, IN.real_end, &MODEL_OPS, &verif_g1);
	b = IN.null_out ? 0 : (ext2fs_generic_bitmap)&BMB;
	verif_old0 = verif_g0; verif_old1 = verif_g1;
	/* handles and the cluster shift are passed as constants (see SPLIT_CB in gen64_common.h) */
	if (!a && !b)
		cmp_body(0, 0);
	else if (!a)
		cmp_body(0, (ext2fs_generic_bitmap)&BMB);
	else if (!b)
		cmp_body((ext2fs_generic_bitmap)&BMA, 0);
	else switch (BMA.cluster_bits) {
	case 0: BMA.cluster_bits = 0; BMB.cluster_bits = 0; cmp_body((ext2fs_generic_bitmap)&BMA, (ext2fs_generic_bitmap)&BMB); break;
	case 4: BMA.cluster_bits = 4; BMB.cluster_bits = 4; cmp_body((ext2fs_generic_bitmap)&BMA, (ext2fs_generic_bitmap)&BMB); break;
	default: CHECK(0, "cluster_bits outside {0, 4} is excluded by the assumption of this unit");
	}
	REACH("end");
}
