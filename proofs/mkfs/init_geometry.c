/* VERIF-UNIT
{
 "name": "initialize_geometry_1k",
 "props": [
  "C07"
 ],
 "level": "U/k",
 "tier": "quick",
 "harness": "h_initialize_geometry_1k",
 "defines": [
  "EXT2_CUSTOM_MEMORY_ROUTINES"
 ],
 "unwind": 4,
 "unwindset": {
  "strlen.0": 4,
  "strcpy.0": 4
 },
 "unwind_reason": "the geometry prefix of ext2fs_initialize has two backward gotos: 'retry' (taken at most once under the unit's assumptions: when the short last group is dropped; the second pass has no remainder) and 'ipg_retry' (taken at most twice: a filesystem with fewer than first_ino + 1 inodes gets 8 more per group; the 2^32 overflow branch needs more than 2^31 blocks); bound 4 with unwinding assertions on; strlen/strcpy run on the one-character device name",
 "functions": [
  "lib/ext2fs/initialize.c:ext2fs_initialize",
  "lib/ext2fs/initialize.c:calc_reserved_gdt_blocks"
 ],
 "assumes": [
  "WHAT IS EXECUTED: the real ext2fs_initialize from its entry to the first allocation that FOLLOWS the geometry computation (the bitmap label buffer, ext2fs_get_mem #4), which the harness makes fail: the function then runs its cleanup path and the ext2fs_free stub takes a snapshot of the superblock / handle; everything up to the comment 'At this point we know how big the filesystem will be' plus the sparse_super2 backup-group normalisation is covered, NOTHING after it (group loop: geometry/initialize_group_accounting); later code does not assign the fields checked here",
  "NEEDS the hook in hooks-pending/c07b.diff: the named GHOST anchor VERIF_GHOST_INITIALIZE_INODES_COUNT right after 'super->s_inodes_count = super->s_inodes_per_group * fs->group_desc_count' (add-only; default empty in initialize.c's own guarded preamble). The unit's ghost statement records, AT that point, the three values and the truth of 's_inodes_count == ipg * groups' and of 'the 64-bit product fits 32 bits' written with the code's own operands (the expressions are then syntactically the code's: no multiplier equivalence is left to the SAT solver, which does not finish on it otherwise); the harness checks that the final superblock still carries exactly those three values",
  "configuration of this unit, stored as CONSTANTS: 1 KiB blocks, 32-byte descriptors (no 64bit), requested s_blocks_per_group 0 (default 8192), no bigalloc; SYMBOLIC: requested blocks count (1 .. 2^28), inode size 128 or 256 (dynamic revision), requested inode count 0 (default: one inode per 4 KiB) or 1 .. min(2^31, (groups - 1) * 8192) (at most a bitmap's worth per group even after the last group is dropped: otherwise the code shrinks s_blocks_per_group by 8 and retries up to thousands of times, out of reach of unwinding), features: any subset of filetype, meta_bg, flex_bg (with s_log_groups_per_flex), extents, resize_inode, sparse_super, sparse_super2 (with arbitrary s_backup_bgs), large_file, huge_file, gdt_csum, metadata_csum, dir_index, has_journal, ext_attr; s_first_meta_bg, s_reserved_gdt_blocks (0 = computed), s_r_blocks_count 0, s_first_data_block 0 (= default)",
  "what is proved (specs/mkfs_geom.h), on reaching the end of the geometry computation: block size / cluster size / first data block as the format prescribes; blocks per group = clusters per group = 8192 <= 8 * blocksize; the final blocks count is <= the requested one and differs from it by less than one group (only a short last group is dropped); group count = ceil((blocks - first data block) / blocks per group) >= 1; the last group is either full or holds at least its own overhead (bitmaps, inode table, and - if it has a superblock copy as answered by the ext2fs_bg_has_super stub / s_backup_bgs - the copy, descriptor blocks and reserved GDT blocks) + 50 blocks; EVERY group can hold the worst-case overhead 3 + inode table + reserved GDT + descriptor blocks (1 with meta_bg) <= blocks per group; inodes per group is a multiple of 8, 8 <= ipg <= 8 * blocksize and ipg <= 65536 - inodes per block; inode table blocks = ceil(ipg * inode size / blocksize); s_inodes_count = groups * ipg without 32-bit overflow, >= first_ino + 1, = s_free_inodes_count; descriptor blocks = ceil(groups / (blocksize / 32)); reserved GDT blocks <= blocksize / 4, 0 without resize_inode; meta_bg is switched on (and resize_inode off, reserved GDT 0) exactly when descriptor + reserved GDT blocks exceed 3/4 of a group; sparse_super2: both backup groups < groups, ordered, equal only as (0,0)/(x,0) normalisation. Error returns are EXT2_ET_TOOSMALL / TOO_MANY_INODES / INVALID_ARGUMENT / RES_GDT_BLOCKS / (UN)SUPP_FEATURE only",
  "NOT proved here (left to the residual): 'at least as many inodes as requested' (needs the quotient semantics of the symbolic division inodes / groups), bigalloc, s_blocks_per_group given by the user, 64 KiB blocks, the reserved-blocks ratio recomputation (double arithmetic; s_r_blocks_count = 0 here), more than 2^28 blocks",
  "stubs: typed memory routines handing out static objects (handle, name, superblock; the 4th request fails), io manager open, getenv (no SOURCE_DATE_EPOCH), ext2fs_bg_has_super (arbitrary answer, logged: the last-group check is stated for the answer given), block count accessors over ghost variables (blknum.c), ext2fs_free (snapshot)"
 ],
 "native": false
}
*/
/* VERIF-UNIT
{
 "name": "initialize_geometry_4k",
 "props": [
  "C07"
 ],
 "level": "U/k",
 "tier": "quick",
 "harness": "h_initialize_geometry_4k",
 "defines": [
  "EXT2_CUSTOM_MEMORY_ROUTINES"
 ],
 "unwind": 4,
 "unwindset": {
  "strlen.0": 4,
  "strcpy.0": 4
 },
 "unwind_reason": "the geometry prefix of ext2fs_initialize has two backward gotos: 'retry' (taken at most once under the unit's assumptions: when the short last group is dropped; the second pass has no remainder) and 'ipg_retry' (taken at most twice: a filesystem with fewer than first_ino + 1 inodes gets 8 more per group; the 2^32 overflow branch needs more than 2^31 blocks); bound 4 with unwinding assertions on; strlen/strcpy run on the one-character device name",
 "functions": [
  "lib/ext2fs/initialize.c:ext2fs_initialize",
  "lib/ext2fs/initialize.c:calc_reserved_gdt_blocks"
 ],
 "assumes": [
  "as initialize_geometry_1k with the configuration constants: 4 KiB blocks, 32-byte descriptors (no 64bit), default s_blocks_per_group 32768"
 ],
 "native": false
}
*/
/* VERIF-UNIT
{
 "name": "initialize_geometry_4k_64bit",
 "props": [
  "C07"
 ],
 "level": "U/k",
 "tier": "quick",
 "harness": "h_initialize_geometry_4k_64bit",
 "defines": [
  "EXT2_CUSTOM_MEMORY_ROUTINES"
 ],
 "unwind": 4,
 "unwindset": {
  "strlen.0": 4,
  "strcpy.0": 4
 },
 "unwind_reason": "the geometry prefix of ext2fs_initialize has two backward gotos: 'retry' (taken at most once under the unit's assumptions: when the short last group is dropped; the second pass has no remainder) and 'ipg_retry' (taken at most twice: a filesystem with fewer than first_ino + 1 inodes gets 8 more per group; the 2^32 overflow branch needs more than 2^31 blocks); bound 4 with unwinding assertions on; strlen/strcpy run on the one-character device name",
 "functions": [
  "lib/ext2fs/initialize.c:ext2fs_initialize",
  "lib/ext2fs/initialize.c:calc_reserved_gdt_blocks"
 ],
 "assumes": [
  "as initialize_geometry_1k with the configuration constants: 4 KiB blocks, 64bit feature with 64-byte descriptors (s_desc_size 0 = default), default s_blocks_per_group 32768"
 ],
 "native": false
}
*/
/* VERIF-UNIT
{
 "name": "initialize_geometry_1k_64bit",
 "props": [
  "C07"
 ],
 "level": "U/k",
 "tier": "quick",
 "harness": "h_initialize_geometry_1k_64bit",
 "defines": [
  "EXT2_CUSTOM_MEMORY_ROUTINES"
 ],
 "unwind": 4,
 "unwindset": {
  "strlen.0": 4,
  "strcpy.0": 4
 },
 "unwind_reason": "the geometry prefix of ext2fs_initialize has two backward gotos: 'retry' (taken at most once under the unit's assumptions: when the short last group is dropped; the second pass has no remainder) and 'ipg_retry' (taken at most twice: a filesystem with fewer than first_ino + 1 inodes gets 8 more per group; the 2^32 overflow branch needs more than 2^31 blocks); bound 4 with unwinding assertions on; strlen/strcpy run on the one-character device name",
 "functions": [
  "lib/ext2fs/initialize.c:ext2fs_initialize",
  "lib/ext2fs/initialize.c:calc_reserved_gdt_blocks"
 ],
 "assumes": [
  "as initialize_geometry_1k with the configuration constants: 1 KiB blocks, 64bit feature with 64-byte descriptors (s_desc_size 0 = default), default s_blocks_per_group 8192"
 ],
 "native": false
}
*/
/* VERIF-UNIT
{
 "name": "initialize_geometry_1k_g256",
 "props": [
  "C07"
 ],
 "level": "U/k",
 "tier": "quick",
 "harness": "h_initialize_geometry_1k_g256",
 "defines": [
  "EXT2_CUSTOM_MEMORY_ROUTINES"
 ],
 "unwind": 4,
 "unwindset": {
  "strlen.0": 4,
  "strcpy.0": 4
 },
 "unwind_reason": "the geometry prefix of ext2fs_initialize has two backward gotos: 'retry' (taken at most once under the unit's assumptions: when the short last group is dropped; the second pass has no remainder) and 'ipg_retry' (taken at most twice: a filesystem with fewer than first_ino + 1 inodes gets 8 more per group; the 2^32 overflow branch needs more than 2^31 blocks); bound 4 with unwinding assertions on; strlen/strcpy run on the one-character device name",
 "functions": [
  "lib/ext2fs/initialize.c:ext2fs_initialize",
  "lib/ext2fs/initialize.c:calc_reserved_gdt_blocks"
 ],
 "assumes": [
  "as initialize_geometry_1k with the configuration constants: 1 KiB blocks, 32-byte descriptors, REQUESTED s_blocks_per_group 256 (mke2fs -g 256, the smallest mke2fs accepts): up to 2^20 groups, so the descriptor table outgrows 3/4 of a group and the library switches meta_bg on (canary meta_bg_forced); requested inode count 0 or 1 .. (groups - 1) * 8192"
 ],
 "native": false
}
*/
/* VERIF-UNIT
{
 "name": "initialize_geometry_1k_requested_inodes",
 "props": [
  "C07"
 ],
 "level": "U/k",
 "tier": "obs",
 "harness": "h_initialize_geometry_1k_requested_inodes",
 "defines": [
  "EXT2_CUSTOM_MEMORY_ROUTINES"
 ],
 "unwind": 4,
 "unwindset": {
  "strlen.0": 4,
  "strcpy.0": 4
 },
 "unwind_reason": "the geometry prefix of ext2fs_initialize has two backward gotos: 'retry' (taken at most once under the unit's assumptions: when the short last group is dropped; the second pass has no remainder) and 'ipg_retry' (taken at most twice: a filesystem with fewer than first_ino + 1 inodes gets 8 more per group; the 2^32 overflow branch needs more than 2^31 blocks); bound 4 with unwinding assertions on; strlen/strcpy run on the one-character device name",
 "functions": [
  "lib/ext2fs/initialize.c:ext2fs_initialize",
  "lib/ext2fs/initialize.c:calc_reserved_gdt_blocks"
 ],
 "assumes": [
  "as initialize_geometry_1k, but ONLY the clause 'there are at least as many inodes as requested' (code comment: 'There should be at least as many inodes as the user requested') is checked. EXPECTED TO FAIL: with fewer than 8 inodes per block (inode size 256 in 1 KiB blocks) the final 's_inodes_per_group &= ~7' rounds DOWN after the round-up to whole inode-table blocks: mke2fs -b 1024 -I 256 -N 56 on 2 groups gives 48 inodes (28 -> 24 per group). The filesystem is consistent; the requested geometry is missed by up to 4 inodes per group (findings/C07_mk_fewer_inodes_than_requested). For 4 KiB blocks (16 or 32 inodes per block) the clause is true but out of reach of the solvers (symbolic division inodes / groups: no answer in 280 s)"
 ],
 "native": false
}
*/
#include "verif.h"
#include "mkfs_geom.h"

struct in_s {
	unsigned long long blocks;
	unsigned int inodes, isize256, compat, incompat, ro_compat, first_meta_bg, rsv_gdt, log_flex, bbg[2];
	unsigned char has_super[4];
};
struct in_s IN;
#include "verif_in.h"

unsigned long long verif_k;

/* ghost record taken by the named anchor right after the assignment of s_inodes_count */
static struct { unsigned int seen, eq, fits, cnt, ipg, gdc; } GI;
#define VERIF_GHOST_INITIALIZE_INODES_COUNT \
	GI.seen = 1; GI.cnt = super->s_inodes_count; GI.ipg = super->s_inodes_per_group; GI.gdc = fs->group_desc_count; \
	GI.eq = (super->s_inodes_count == super->s_inodes_per_group * fs->group_desc_count); \
	GI.fits = !((__u64)super->s_inodes_per_group * fs->group_desc_count > ~0U);

/* EXT2_CUSTOM_MEMORY_ROUTINES: ext2fs.h then declares nothing; without prototypes the int argument SUPERBLOCK_SIZE would be
 * passed to an implicitly declared function */
#include "config.h"
#include "ext2_fs.h"
#include "ext2fs.h"
errcode_t ext2fs_get_mem(unsigned long size, void *ptr);
errcode_t ext2fs_get_memzero(unsigned long size, void *ptr);
errcode_t ext2fs_get_array(unsigned long count, unsigned long size, void *ptr);
errcode_t ext2fs_get_arrayzero(unsigned long count, unsigned long size, void *ptr);
errcode_t ext2fs_free_mem(void *ptr);
errcode_t ext2fs_resize_mem(unsigned long old_size, unsigned long size, void *ptr);
errcode_t ext2fs_resize_array(unsigned long old_count, unsigned long count, unsigned long size, void *ptr);

#include "lib/ext2fs/initialize.c"

/* ---- ghost */
static struct struct_ext2_filsys FS_OBJ;
static struct ext2_super_block SB_OBJ, PARAM;
static char NAME_OBJ[8];
static struct struct_io_channel CH;
static struct struct_io_manager MGR;
static struct {
	unsigned int mem_calls, freed, hs_calls, hs_group, hs_answer;
	unsigned long long blocks, rblocks;	/* block counts of the NEW superblock */
	/* snapshot at ext2fs_free */
	struct ext2_super_block sb;
	unsigned int gdc, desc_blocks, ibpg, blocksize;
	int cluster_ratio_bits;
	unsigned long long snap_blocks;
	unsigned int req_reached, canary;
} G;

/* ---- typed memory routines */
errcode_t ext2fs_get_mem(unsigned long size, void *ptr)
{
	unsigned int c = G.mem_calls++;
	if (c == 0 && size == sizeof(struct struct_ext2_filsys)) { *(void **)ptr = &FS_OBJ; return 0; }
	if (c == 1 && size <= sizeof(NAME_OBJ)) { *(void **)ptr = NAME_OBJ; return 0; }
	if (c == 2 && size == SUPERBLOCK_SIZE) { *(void **)ptr = &SB_OBJ; return 0; }
	return EXT2_ET_NO_MEMORY;		/* #4: the bitmap label buffer, right after the geometry is final */
}
errcode_t ext2fs_get_memzero(unsigned long size, void *ptr) { return EXT2_ET_NO_MEMORY; }
errcode_t ext2fs_get_array(unsigned long count, unsigned long size, void *ptr) { return EXT2_ET_NO_MEMORY; }
errcode_t ext2fs_get_arrayzero(unsigned long count, unsigned long size, void *ptr) { return EXT2_ET_NO_MEMORY; }
errcode_t ext2fs_free_mem(void *ptr) { *(void **)ptr = 0; return 0; }
errcode_t ext2fs_resize_mem(unsigned long old_size, unsigned long size, void *ptr) { return EXT2_ET_NO_MEMORY; }
errcode_t ext2fs_resize_array(unsigned long old_count, unsigned long count, unsigned long size, void *ptr) { return EXT2_ET_NO_MEMORY; }

/* ---- other callees of the prefix */
blk64_t ext2fs_blocks_count(struct ext2_super_block *super) { return super == &PARAM ? IN.blocks : G.blocks; }
void ext2fs_blocks_count_set(struct ext2_super_block *super, blk64_t blk) { G.blocks = blk; }
blk64_t ext2fs_r_blocks_count(struct ext2_super_block *super) { return super == &PARAM ? 0 : G.rblocks; }
void ext2fs_r_blocks_count_set(struct ext2_super_block *super, blk64_t blk) { G.rblocks = blk; }
void ext2fs_free_blocks_count_set(struct ext2_super_block *super, blk64_t blk) { }
char *ext2fs_safe_getenv(const char *arg) { return 0; }
int ext2fs_bg_has_super(ext2_filsys fs, dgrp_t group)
{
	G.hs_group = group;
	G.hs_answer = IN.has_super[G.hs_calls & 3] & 1;
	G.hs_calls++;
	return (int)G.hs_answer;
}
const struct ext2fs_nls_table *ext2fs_load_nls_table(int encoding) { return 0; }
static errcode_t stub_open(const char *name, int flags, io_channel *channel) { CH.manager = &MGR; *channel = &CH; return 0; }
void ext2fs_free(ext2_filsys fs)
{
	G.freed++;
	if (fs == &FS_OBJ && fs->super == &SB_OBJ) {
		G.sb = SB_OBJ;
		G.gdc = fs->group_desc_count; G.desc_blocks = fs->desc_blocks; G.ibpg = fs->inode_blocks_per_group;
		G.blocksize = fs->blocksize; G.cluster_ratio_bits = fs->cluster_ratio_bits;
		G.snap_blocks = G.blocks;
	}
}
/* never reached (the function fails before them) */
errcode_t ext2fs_allocate_subcluster_bitmap(ext2_filsys fs, const char *descr, ext2fs_block_bitmap *ret) { return EXT2_ET_NO_MEMORY; }
errcode_t ext2fs_allocate_inode_bitmap(ext2_filsys fs, const char *descr, ext2fs_inode_bitmap *ret) { return EXT2_ET_NO_MEMORY; }

#define F_COMPAT	(0x0001u | 0x0004u | 0x0008u | 0x0010u | 0x0020u | 0x0200u)	/* dir_prealloc has_journal ext_attr resize_inode dir_index sparse_super2 */
#define F_INCOMPAT	(0x0002u | 0x0010u | 0x0040u | 0x0200u)			/* filetype meta_bg extents flex_bg */
#define F_RO_COMPAT	(0x0001u | 0x0002u | 0x0008u | 0x0010u | 0x0400u)		/* sparse_super large_file huge_file gdt_csum metadata_csum */
#define RESIZE_INODE	0x0010u
#define SPARSE_SUPER2	0x0200u
#define META_BG		0x0010u

static void run(const unsigned int log_bs, const unsigned int dsize, const int requested_clause_only, const unsigned int bpg_param)
{
	const unsigned int bs = 1024u << log_bs;
	ext2_filsys fs = 0;

	LOAD_IN();
	memset(&PARAM, 0, sizeof(PARAM));
	memset(&G, 0, sizeof(G));
	memset(&GI, 0, sizeof(GI));
	MGR.open = stub_open;
	PARAM.s_log_block_size = log_bs;
	PARAM.s_rev_level = EXT2_DYNAMIC_REV;
	PARAM.s_inode_size = IN.isize256 ? 256 : 128;
	PARAM.s_feature_compat = IN.compat & F_COMPAT;
	PARAM.s_feature_incompat = (IN.incompat & F_INCOMPAT) | (dsize == 64 ? 0x0080u : 0);
	PARAM.s_feature_ro_compat = IN.ro_compat & F_RO_COMPAT;
	PARAM.s_first_meta_bg = IN.first_meta_bg;
	PARAM.s_reserved_gdt_blocks = IN.rsv_gdt;
	PARAM.s_log_groups_per_flex = IN.log_flex & 31;
	PARAM.s_backup_bgs[0] = IN.bbg[0];
	PARAM.s_backup_bgs[1] = IN.bbg[1];
	PARAM.s_inodes_count = IN.inodes;
	const unsigned int isize = IN.isize256 ? 256 : 128;
	PARAM.s_blocks_per_group = bpg_param;
	const unsigned int fdb = MKFS_FDB(bs, 0), bpg0 = bpg_param ? bpg_param : 8 * bs;	/* bpg_param <= 8 * bs in every unit */
	ASSUME(IN.blocks >= 1 && IN.blocks <= (1ULL << 28));
	/* the group count the requested size would give (constant divisor) */
	unsigned long long gdc0 = IN.blocks > fdb ? (IN.blocks - fdb + bpg0 - 1) / bpg0 : 0;
	ASSUME(IN.inodes == 0 || (gdc0 >= 2 && IN.inodes <= (gdc0 - 1) * 8 * bs));
	ASSUME(IN.inodes <= (1u << 31));	/* far from the 2^32 limit: the 'ipg--' retry (one inode per group at a time) is not taken */

	errcode_t r = ext2fs_initialize("d", 0, &PARAM, &MGR, &fs);

	CHECK(r != 0 && G.freed == 1, "the run ends in the cleanup path (the allocation after the geometry prefix fails)");
	if (r == EXT2_ET_NO_MEMORY && G.mem_calls == 4) {
		const struct ext2_super_block *s = &G.sb;
		unsigned long long blocks = G.snap_blocks;
		unsigned int gdc = G.gdc, bpg = s->s_blocks_per_group, ipg = s->s_inodes_per_group, rsv = s->s_reserved_gdt_blocks;
		int meta_bg = (s->s_feature_incompat & META_BG) != 0;
		if (requested_clause_only) {
			unsigned long long want = IN.inodes ? IN.inodes : G.snap_blocks / (bs >= 4096 ? 1 : 4096 / bs);
			CHECK(s->s_inodes_count >= want, "at least as many inodes as requested (default: one per 4 KiB of the final size)");
			G.req_reached = 1;
			return;
		}
		CHECK(s->s_magic == 0xEF53 && s->s_log_block_size == log_bs && s->s_log_cluster_size == log_bs && G.blocksize == bs &&
		      G.cluster_ratio_bits == 0, "block size and cluster size as requested (no bigalloc)");
		CHECK(s->s_first_data_block == fdb, "first data block: 1 for 1 KiB blocks, 0 otherwise");
		CHECK(bpg == bpg0 && bpg <= MKFS_MAX_PER_BITMAP(bs) && s->s_clusters_per_group == bpg, "blocks per group: one bitmap block's worth");
		CHECK(blocks <= IN.blocks && IN.blocks - blocks < bpg, "at most the requested size; less than one group is given up");
		CHECK(blocks > fdb && MKFS_GROUPS_OK(gdc, blocks, fdb, bpg), "group count = ceil((blocks - first data block) / blocks per group)");
		CHECK(s->s_inode_size == isize && s->s_first_ino == 11 && s->s_rev_level == 1, "inode size, first inode");
		CHECK((ipg & 7) == 0 && ipg >= 8 && ipg <= MKFS_MAX_PER_BITMAP(bs) && ipg <= 65536 - bs / isize, "inodes per group: multiple of 8, one bitmap block's worth, 16-bit counters");
		CHECK(G.ibpg == MKFS_ITABLE_BLOCKS(ipg, isize, bs), "inode table blocks = ceil(ipg * inode size / blocksize)");
		CHECK(GI.seen && GI.eq && GI.fits, "at its assignment s_inodes_count = inodes per group * groups, and the product fits 32 bits");
		CHECK(GI.cnt == s->s_inodes_count && GI.ipg == ipg && GI.gdc == gdc, "... and these are the final values (nothing changes them afterwards)");
		CHECK(s->s_inodes_count >= s->s_first_ino + 1 && s->s_free_inodes_count == s->s_inodes_count, "enough inodes for the reserved ones and one more; all free");
		CHECK(G.desc_blocks == MKFS_DESC_BLOCKS(gdc, dsize, bs) && (dsize == 32 || s->s_desc_size == dsize), "descriptor blocks = ceil(groups / descriptors per block)");
		CHECK(rsv <= bs / 4 && ((s->s_feature_compat & RESIZE_INODE) || rsv == 0 || IN.rsv_gdt != 0), "reserved GDT blocks fit one indirect block; none without resize_inode (unless requested)");
		CHECK(MKFS_GROUP_OVERHEAD(1, G.ibpg, G.desc_blocks, rsv, meta_bg) <= bpg, "every group can hold a superblock copy, descriptors, reserved GDT, both bitmaps and the inode table");
		CHECK(!(rsv + G.desc_blocks > bpg * 3 / 4) || meta_bg, "descriptors that would eat 3/4 of a group: meta_bg is on");
		CHECK(!(meta_bg && !(IN.incompat & META_BG)) || (!(s->s_feature_compat & RESIZE_INODE) && (rsv == 0 || IN.rsv_gdt != 0)), "meta_bg switched on by the library: resize_inode off, no reserved GDT");
		/* the last group */
		unsigned long long last = MKFS_LAST_GROUP_BLOCKS(gdc, blocks, fdb, bpg);
		int last_has_super = (s->s_feature_compat & SPARSE_SUPER2)
			? (gdc == 2 ? IN.bbg[0] != 0 : IN.bbg[1] != 0)
			: (G.hs_calls > 0 && G.hs_group == gdc - 1 ? (int)G.hs_answer : 1);
		CHECK((s->s_feature_compat & SPARSE_SUPER2) || (G.hs_calls > 0 && G.hs_group == gdc - 1), "the backup question is asked for the last group");
		CHECK(last == bpg || last >= MKFS_GROUP_OVERHEAD(last_has_super, G.ibpg, G.desc_blocks, rsv, meta_bg) + 50,
		      "the last group is full, or holds its own metadata and at least 50 more blocks");
		if (s->s_feature_compat & SPARSE_SUPER2)
			CHECK(s->s_backup_bgs[0] < gdc && s->s_backup_bgs[1] < gdc && (s->s_backup_bgs[0] <= s->s_backup_bgs[1] || s->s_backup_bgs[1] == 0),
			      "sparse_super2: backup groups exist, ordered (second may be 0 = none)");
		if (blocks < IN.blocks) G.canary |= 1u;	/* last_group_dropped */
		if (last != bpg) G.canary |= 2u;	/* short_last_group_kept */
		if (meta_bg && !(IN.incompat & META_BG)) G.canary |= 128u;	/* meta_bg_forced */
		if (gdc == 1) G.canary |= 4u;	/* one_group */
		if (IN.inodes != 0) G.canary |= 8u;	/* inodes_requested */
		if (s->s_inodes_count < 32) G.canary |= 16u;	/* tiny */
		G.canary |= 32u;	/* geometry_final */
	} else {
		CHECK(r == EXT2_ET_TOOSMALL || r == EXT2_ET_TOO_MANY_INODES || r == EXT2_ET_INVALID_ARGUMENT || r == EXT2_ET_RES_GDT_BLOCKS ||
		      r == EXT2_ET_UNSUPP_FEATURE || r == EXT2_ET_RO_UNSUPP_FEATURE, "refusals are the documented ones");
		if (r == EXT2_ET_TOOSMALL) G.canary |= 64u;	/* too_small */
	}
	REACH("end");
}
static void canaries(void)
{
	if (G.canary & 1u) REACH("last_group_dropped");
	if (G.canary & 2u) REACH("short_last_group_kept");
	if (G.canary & 4u) REACH("one_group");
	if (G.canary & 8u) REACH("inodes_requested");
	if (G.canary & 16u) REACH("tiny");
	if (G.canary & 32u) REACH("geometry_final");
	if (G.canary & 64u) REACH("too_small");
}
void h_initialize_geometry_1k_g256(void) { run(0, 32, 0, 256); canaries(); if (G.canary & 128u) REACH("meta_bg_forced"); }
void h_initialize_geometry_1k(void) { run(0, 32, 0, 0); canaries(); }
void h_initialize_geometry_4k(void) { run(2, 32, 0, 0); canaries(); }
void h_initialize_geometry_4k_64bit(void) { run(2, 64, 0, 0); canaries(); }
void h_initialize_geometry_1k_64bit(void) { run(0, 64, 0, 0); canaries(); }
void h_initialize_geometry_1k_requested_inodes(void) { run(0, 32, 1, 0); if (G.req_reached) REACH("geometry_final_requested"); }
