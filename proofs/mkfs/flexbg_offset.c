/* VERIF-UNIT
{
 "name": "flexbg_offset_bitmaps",
 "props": [
  "C07"
 ],
 "level": "U",
 "tier": "quick",
 "harness": "h_flexbg_offset_bitmaps",
 "functions": [
  "lib/ext2fs/alloc_tables.c:flexbg_offset"
 ],
 "assumes": [
  "operand shape 1 of 3 (the product rem_grp * elem_size is kept bounded BY CONSTRUCTION - masked operands - because a bound stated by ASSUME leaves the SAT solver with a multiplier lemma): elem_size == 1 (block / inode bitmap) with any rem_grp < 2^29",
  "loop-free function, called directly (static, same translation unit); no contract enforced: harness CHECKs on the real code",
  "ext2fs_get_free_blocks2 is a STUB that implements the contract proved by units get_free_blocks2_window / get_free_blocks2_wrap (specs/mkfs_alloc.h) over a ghost set given pointwise: ONE arbitrary block K with its 'allocated in bmap' bit (a run reported free never contains an allocated block; block 0 is always allocated: boot block / primary superblock, marked by ext2fs_reserve_super_and_bgd before any table is placed) and ONE arbitrary position P with the facts 'the run of elem_size / of size blocks at P is free' (first fit and completeness are stated for P; the two facts are consistent with each other and with K)",
  "preconditions from the only caller ext2fs_allocate_group_table: FLEX_BG with 1 <= s_log_groups_per_flex <= 30 (31: observation unit geometry/allocate_group_table_flex31), group < group_desc_count <= 2^29 (s_inodes_count is 32 bit and every group has >= 8 inodes), 1 <= rem_grp <= number of groups from `group` to the end of its flex group, s_blocks_per_group in 8 .. 2^22, blocks_count <= 2^48, bitmap granularity 0..16 (bigalloc), first data block 0 or 1 and cluster aligned, start_blk arbitrary below 2^49",
  "group geometry is abstract: ext2fs_group_first_block2 / ext2fs_group_last_block2 are stubs answering FF for the first group of the flex group and LL for min(last group of the flex group, last group of the filesystem) as the FORMAT defines them (group >> log << log, group | (2^log - 1)), and flag every other group asked for; first data block <= FF, LL < blocks_count, LL - FF >= 2 clusters (a flex group holds at least one group's two bitmaps and inode table)",
  "what is proved: (1) result 0 <=> all searches failed, and then no run of elem_size blocks that starts below LL is free (pointwise at P); otherwise the result is the answer of the LAST ext2fs_get_free_blocks2 query, whose window is one of: [start_blk, start_blk + size) (packing behind the previous group's table; tried only when start_blk != 0 and inside the filesystem), [FF, LL) (the flex group; first for `size` blocks = room for the remaining groups' tables capped at a quarter group, then for elem_size), [first data block, LL) (in front; only when nothing is free inside the flex group); (2) the run of min(size, elem_size) blocks at the result is inside the filesystem and contains no allocated block - a full element when size >= elem_size (when the inode table is larger than a quarter group the result is only a search hint; the caller searches again for the full length from there); (3) adjacency: when start_blk is usable and the elem_size blocks at start_blk are free, the result IS start_blk after a single query; (4) only bmap is consulted, only the two groups named above are looked up, nothing is modified (every other library function is undefined in the unit: a call would fail)",
  "OBSERVATION kept as a CHECK: with bigalloc the packing window [start_blk, start_blk + size) rounds down to nothing when it is shorter than a cluster; ext2fs_get_free_blocks2 then treats it as a CYCLIC search over the whole filesystem (the result is still free and inside the filesystem, but not bounded by the window); proved to need granularity != 0 and size < cluster ratio"
 ],
 "native": false,
 "no_cross_check": true
}
*/
/* VERIF-UNIT
{
 "name": "flexbg_offset_itable_wide",
 "props": [
  "C07"
 ],
 "level": "U",
 "tier": "thorough",
 "harness": "h_flexbg_offset_itable_wide",
 "functions": [
  "lib/ext2fs/alloc_tables.c:flexbg_offset"
 ],
 "assumes": [
  "operand shape 2 of 3: 1 <= elem_size < 2^19 (the format's maximum inode table: 8 * 65536 inodes of 65536 bytes in 64 KiB blocks) with rem_grp < 4096",
  "loop-free function, called directly (static, same translation unit); no contract enforced: harness CHECKs on the real code",
  "ext2fs_get_free_blocks2 is a STUB that implements the contract proved by units get_free_blocks2_window / get_free_blocks2_wrap (specs/mkfs_alloc.h) over a ghost set given pointwise: ONE arbitrary block K with its 'allocated in bmap' bit (a run reported free never contains an allocated block; block 0 is always allocated: boot block / primary superblock, marked by ext2fs_reserve_super_and_bgd before any table is placed) and ONE arbitrary position P with the facts 'the run of elem_size / of size blocks at P is free' (first fit and completeness are stated for P; the two facts are consistent with each other and with K)",
  "preconditions from the only caller ext2fs_allocate_group_table: FLEX_BG with 1 <= s_log_groups_per_flex <= 30 (31: observation unit geometry/allocate_group_table_flex31), group < group_desc_count <= 2^29 (s_inodes_count is 32 bit and every group has >= 8 inodes), 1 <= rem_grp <= number of groups from `group` to the end of its flex group, s_blocks_per_group in 8 .. 2^22, blocks_count <= 2^48, bitmap granularity 0..16 (bigalloc), first data block 0 or 1 and cluster aligned, start_blk arbitrary below 2^49",
  "group geometry is abstract: ext2fs_group_first_block2 / ext2fs_group_last_block2 are stubs answering FF for the first group of the flex group and LL for min(last group of the flex group, last group of the filesystem) as the FORMAT defines them (group >> log << log, group | (2^log - 1)), and flag every other group asked for; first data block <= FF, LL < blocks_count, LL - FF >= 2 clusters (a flex group holds at least one group's two bitmaps and inode table)",
  "what is proved: (1) result 0 <=> all searches failed, and then no run of elem_size blocks that starts below LL is free (pointwise at P); otherwise the result is the answer of the LAST ext2fs_get_free_blocks2 query, whose window is one of: [start_blk, start_blk + size) (packing behind the previous group's table; tried only when start_blk != 0 and inside the filesystem), [FF, LL) (the flex group; first for `size` blocks = room for the remaining groups' tables capped at a quarter group, then for elem_size), [first data block, LL) (in front; only when nothing is free inside the flex group); (2) the run of min(size, elem_size) blocks at the result is inside the filesystem and contains no allocated block - a full element when size >= elem_size (when the inode table is larger than a quarter group the result is only a search hint; the caller searches again for the full length from there); (3) adjacency: when start_blk is usable and the elem_size blocks at start_blk are free, the result IS start_blk after a single query; (4) only bmap is consulted, only the two groups named above are looked up, nothing is modified (every other library function is undefined in the unit: a call would fail)",
  "OBSERVATION kept as a CHECK: with bigalloc the packing window [start_blk, start_blk + size) rounds down to nothing when it is shorter than a cluster; ext2fs_get_free_blocks2 then treats it as a CYCLIC search over the whole filesystem (the result is still free and inside the filesystem, but not bounded by the window); proved to need granularity != 0 and size < cluster ratio"
 ],
 "native": false,
 "backend": "cadical"
}
*/
/* VERIF-UNIT
{
 "name": "flexbg_offset_itable_many",
 "props": [
  "C07"
 ],
 "level": "U",
 "tier": "thorough",
 "harness": "h_flexbg_offset_itable_many",
 "functions": [
  "lib/ext2fs/alloc_tables.c:flexbg_offset"
 ],
 "assumes": [
  "operand shape 3 of 3: 1 <= elem_size < 1024 with rem_grp < 2^21. NOT covered by the three shapes: inode tables >= 1024 blocks with >= 4096 groups left in the flex group (mke2fs -G >= 8192 together with > 1024-block inode tables); rem_grp * elem_size > INT_MAX: see flexbg_offset_size_overflow",
  "loop-free function, called directly (static, same translation unit); no contract enforced: harness CHECKs on the real code",
  "ext2fs_get_free_blocks2 is a STUB that implements the contract proved by units get_free_blocks2_window / get_free_blocks2_wrap (specs/mkfs_alloc.h) over a ghost set given pointwise: ONE arbitrary block K with its 'allocated in bmap' bit (a run reported free never contains an allocated block; block 0 is always allocated: boot block / primary superblock, marked by ext2fs_reserve_super_and_bgd before any table is placed) and ONE arbitrary position P with the facts 'the run of elem_size / of size blocks at P is free' (first fit and completeness are stated for P; the two facts are consistent with each other and with K)",
  "preconditions from the only caller ext2fs_allocate_group_table: FLEX_BG with 1 <= s_log_groups_per_flex <= 30 (31: observation unit geometry/allocate_group_table_flex31), group < group_desc_count <= 2^29 (s_inodes_count is 32 bit and every group has >= 8 inodes), 1 <= rem_grp <= number of groups from `group` to the end of its flex group, s_blocks_per_group in 8 .. 2^22, blocks_count <= 2^48, bitmap granularity 0..16 (bigalloc), first data block 0 or 1 and cluster aligned, start_blk arbitrary below 2^49",
  "group geometry is abstract: ext2fs_group_first_block2 / ext2fs_group_last_block2 are stubs answering FF for the first group of the flex group and LL for min(last group of the flex group, last group of the filesystem) as the FORMAT defines them (group >> log << log, group | (2^log - 1)), and flag every other group asked for; first data block <= FF, LL < blocks_count, LL - FF >= 2 clusters (a flex group holds at least one group's two bitmaps and inode table)",
  "what is proved: (1) result 0 <=> all searches failed, and then no run of elem_size blocks that starts below LL is free (pointwise at P); otherwise the result is the answer of the LAST ext2fs_get_free_blocks2 query, whose window is one of: [start_blk, start_blk + size) (packing behind the previous group's table; tried only when start_blk != 0 and inside the filesystem), [FF, LL) (the flex group; first for `size` blocks = room for the remaining groups' tables capped at a quarter group, then for elem_size), [first data block, LL) (in front; only when nothing is free inside the flex group); (2) the run of min(size, elem_size) blocks at the result is inside the filesystem and contains no allocated block - a full element when size >= elem_size (when the inode table is larger than a quarter group the result is only a search hint; the caller searches again for the full length from there); (3) adjacency: when start_blk is usable and the elem_size blocks at start_blk are free, the result IS start_blk after a single query; (4) only bmap is consulted, only the two groups named above are looked up, nothing is modified (every other library function is undefined in the unit: a call would fail)",
  "OBSERVATION kept as a CHECK: with bigalloc the packing window [start_blk, start_blk + size) rounds down to nothing when it is shorter than a cluster; ext2fs_get_free_blocks2 then treats it as a CYCLIC search over the whole filesystem (the result is still free and inside the filesystem, but not bounded by the window); proved to need granularity != 0 and size < cluster ratio"
 ],
 "native": false,
 "backend": "cadical"
}
*/
/* VERIF-UNIT
{
 "name": "flexbg_offset_size_overflow",
 "props": [
  "C07"
 ],
 "level": "U",
 "tier": "obs",
 "harness": "h_flexbg_offset_size_overflow",
 "functions": [
  "lib/ext2fs/alloc_tables.c:flexbg_offset"
 ],
 "assumes": [
  "as flexbg_offset_* with elem_size = 512 (default inode table: 8192 inodes of 256 bytes in 4 KiB blocks) and rem_grp < 2^23, i.e. WITHOUT the bound rem_grp * elem_size <= INT_MAX. EXPECTED TO FAIL (signed overflow in 'size = rem_grp * elem_size'): reachable only with >= 2^22 groups in one flex group (mke2fs -G 4194304 on a >= 512 TiB filesystem with the default 512-block inode tables); observation, wraps to a negative size (the packing window becomes cyclic) with the usual compilers"
 ],
 "native": false
}
*/
#include "verif.h"
#include "mkfs_alloc.h"

struct in_s {
	unsigned int group, gdc, log_flex, bpg, fdb, gran, shape;
	int rem_grp, elem_size;
	unsigned long long start_blk, bc, FF, LL, K, P;
	unsigned char kalloc, pfree_e, pfree_s, other_free[4];
	unsigned char fail[4];
	unsigned long long b[4], other_first[4], other_last[4];
};
struct in_s IN;
#include "verif_in.h"

unsigned long long verif_k;

#include "lib/ext2fs/alloc_tables.c"

#define BC	(IN.bc)
#define FDB	((unsigned long long)IN.fdb)
#define CR	(1ULL << IN.gran)

static struct {
	unsigned int calls, bad_map, ok_last;
	unsigned long long q_start[4], q_finish[4], q_n[4], q_ans[4];
	unsigned char q_ok[4];
	unsigned long long size, elem;		/* the two run lengths of the spec */
	unsigned int first_grp, last_grp;
	unsigned int wrong_group, hint_only;
} G;
static int BMAP_OBJ;

/* is the run of n blocks at P free (pointwise ghost facts; other lengths: independent answers) */
static int pfree(unsigned long long n, unsigned int c)
{
	if (n == G.elem) return IN.pfree_e & 1;
	if (n == G.size) return IN.pfree_s & 1;
	return IN.other_free[c & 3] & 1;
}

blk64_t ext2fs_blocks_count(struct ext2_super_block *super) { return BC; }
blk64_t ext2fs_group_first_block2(ext2_filsys fs, dgrp_t group)
{
	if (group == G.first_grp) return IN.FF;
	G.wrong_group = 1;
	return IN.other_first[group & 3];
}
blk64_t ext2fs_group_last_block2(ext2_filsys fs, dgrp_t group)
{
	if (group == G.last_grp) return IN.LL;
	G.wrong_group = 1;
	return IN.other_last[group & 3];
}

/* contract of ext2fs_get_free_blocks2 (specs/mkfs_alloc.h; proved by get_free_blocks2_window / _wrap) over the ghosts */
errcode_t ext2fs_get_free_blocks2(ext2_filsys fs, blk64_t start, blk64_t finish, int num, ext2fs_block_bitmap map, blk64_t *ret)
{
	unsigned int c = G.calls & 3;
	unsigned long long n = MKFS_GFB_N(num), b0 = MKFS_GFB_B0(start, FDB, CR), f = MKFS_GFB_F(start, finish, CR);
	int linear = MKFS_GFB_LINEAR(start, f);

	G.calls++;
	if ((void *)map != (void *)&BMAP_OBJ) G.bad_map = 1;
	G.q_start[c] = start; G.q_finish[c] = finish; G.q_n[c] = n; G.q_ok[c] = 0;
	/* a run at P that contains the allocated block K is not free */
	ASSUME(MKFS_IMPL((IN.kalloc & 1) && IN.K >= IN.P && IN.K - IN.P < n, !pfree(n, c)));
	if (IN.fail[c] & 1) {
		ASSUME(MKFS_IMPL(MKFS_GFB_CANDIDATE(IN.P, linear, b0, f) && MKFS_GFB_ELIGIBLE(IN.P, n, FDB, BC, CR), !pfree(n, c)));
		return EXT2_ET_BLOCK_ALLOC_FAIL;
	}
	unsigned long long b = IN.b[c];
	ASSUME(MKFS_GFB_ELIGIBLE(b, n, FDB, BC, CR) && MKFS_GFB_CANDIDATE(b, linear, b0, f));
	ASSUME(b != 0);		/* block 0 (boot block / primary superblock) is marked in bmap before any table is placed */
	ASSUME(MKFS_IMPL(MKFS_GFB_BEFORE(IN.P, b, linear, b0, f) && MKFS_GFB_ELIGIBLE(IN.P, n, FDB, BC, CR), !pfree(n, c)));
	ASSUME(MKFS_IMPL(b == IN.P, pfree(n, c)));
	ASSUME(MKFS_IMPL(IN.K >= b && IN.K - b < n, !(IN.kalloc & 1)));
	G.q_ok[c] = 1; G.q_ans[c] = b; G.ok_last = c;
	*ret = b;
	return 0;
}

#define MINU(a, b) ((a) < (b) ? (a) : (b))
#define INWIN(r, lo, hi) ((r) >= (lo) && (r) < (hi))

static blk64_t call(ext2_filsys fs, int rem_grp, int elem_size)
{
	ASSUME(rem_grp >= 1 && (unsigned int)rem_grp <= G.last_grp - IN.group + 1 && elem_size >= 1);
	/* the spec's two run lengths: one table; room for the remaining groups' tables, at most a quarter group */
	G.elem = (unsigned long long)elem_size;
	G.size = MINU((unsigned long long)(rem_grp * elem_size), (unsigned long long)(IN.bpg / 4));
	return flexbg_offset(fs, IN.group, IN.start_blk, (ext2fs_block_bitmap)&BMAP_OBJ, rem_grp, elem_size);
}

static void run(int shape)
{
	static struct struct_ext2_filsys FS;
	static struct ext2_super_block SB;

	LOAD_IN();
	memset(&FS, 0, sizeof(FS));
	memset(&SB, 0, sizeof(SB));
	memset(&G, 0, sizeof(G));
	FS.magic = EXT2_ET_MAGIC_EXT2FS_FILSYS;
	FS.super = &SB;
	FS.group_desc_count = IN.gdc;
	SB.s_first_data_block = IN.fdb;
	SB.s_log_groups_per_flex = IN.log_flex;
	SB.s_blocks_per_group = IN.bpg;
	SB.s_feature_incompat = EXT4_FEATURE_INCOMPAT_FLEX_BG;

	ASSUME(IN.log_flex >= 1 && IN.log_flex <= 30);
	ASSUME(IN.gdc >= 1 && IN.gdc <= (1u << 29) && IN.group < IN.gdc);
	ASSUME(IN.bpg >= 8 && IN.bpg <= (1u << 22));
	ASSUME(IN.gran <= 16 && IN.fdb <= 1 && MKFS_ALIGNED(FDB, CR) && BC <= (1ULL << 48));
	ASSUME(IN.start_blk < (1ULL << 49));
	/* the format's flex group of `group`: groups (group >> log) << log .. group | (2^log - 1), cut at the last group */
	unsigned int fsz = 1u << IN.log_flex;
	G.first_grp = (IN.group >> IN.log_flex) << IN.log_flex;
	G.last_grp = MINU(IN.group | (fsz - 1), IN.gdc - 1);
	ASSUME(FDB <= IN.FF && IN.FF < IN.LL && IN.LL < BC);
	/* a flex group holds at least the two bitmaps and the inode table of one group, each in its own cluster */
	ASSUME(IN.LL - IN.FF >= 2 * CR);
	verif_k = IN.K;

	/* one call per SHAPE of (rem_grp, elem_size), the operands masked to the shape's widths so that the product is
	 * bounded by construction (a bound stated by ASSUME leaves the solver with a hard multiplier lemma) */
	blk64_t r;
	if (shape < 0)
		r = call(&FS, IN.rem_grp & 0x7fffff, 512);			/* observation: default inode table, up to 2^23 groups */
	else if (shape == 0)
		r = call(&FS, IN.rem_grp & 0x1fffffff, 1);			/* bitmaps: any flex size */
	else if (shape == 1)
		r = call(&FS, IN.rem_grp & 0xfff, IN.elem_size & 0x7ffff);	/* inode tables < 2^19 blocks, < 4096 remaining groups */
	else
		r = call(&FS, IN.rem_grp & 0x1fffff, IN.elem_size & 0x3ff);	/* inode tables < 1024 blocks, < 2^21 remaining groups */
	unsigned long long m = MINU(G.size, G.elem);

	int quick = IN.start_blk != 0 && IN.start_blk < BC;		/* packing position usable */
	unsigned int c = G.ok_last;
	CHECK(!G.bad_map && !G.wrong_group, "only bmap is consulted; only the flex group's first and last group are looked up");
	CHECK(G.calls >= 1 && G.calls <= 4, "between one and four searches");
	if (r == 0) {
		CHECK(!G.q_ok[0] && !G.q_ok[1] && !G.q_ok[2] && !G.q_ok[3], "result 0 only when every search failed (block 0 is never free: superblock / padding)");
		CHECK(MKFS_IMPL(IN.P >= FDB && IN.P < (IN.LL & ~(CR - 1)) && MKFS_GFB_ELIGIBLE(IN.P, G.elem, FDB, BC, CR), !(IN.pfree_e & 1)),
		      "result 0 only when no run of elem_size blocks starting below the flex group's last block is free");
		REACH("nothing_found");
	} else {
		CHECK(G.q_ok[c] && r == G.q_ans[c] && c == (G.calls - 1 & 3), "the result is the answer of the last search, which succeeded");
		CHECK(G.q_n[c] >= m, "searched for at least min(size, elem_size) blocks");
		CHECK(r >= FDB && r < BC && m <= BC - r, "the run lies inside the filesystem");
		CHECK(MKFS_IMPL(IN.K >= r && IN.K - r < m, !(IN.kalloc & 1)), "the run contains no allocated block");
		CHECK(MKFS_IMPL(G.size >= G.elem, G.q_n[c] >= G.elem), "a full element is free when a quarter group can hold one");
		/* window of the successful search, by the documented order */
		int w_pack = quick && INWIN(r, IN.start_blk & ~(CR - 1), IN.start_blk + G.size);
		/* bigalloc only: the packing window rounds down to nothing when it does not reach the next cluster boundary;
		 * ext2fs_get_free_blocks2 then takes it for a cyclic search of the whole filesystem */
		int w_cyclic = quick && c == 0 && ((IN.start_blk + G.size) & ~(CR - 1)) <= IN.start_blk;
		int w_flex = INWIN(r, IN.FF & ~(CR - 1), IN.LL);
		int w_front = INWIN(r, FDB, IN.LL);
		CHECK(MKFS_IMPL(w_cyclic, IN.gran != 0 && G.size < CR), "a cyclic packing search needs bigalloc and a window shorter than a cluster");
		CHECK(w_pack || w_flex || w_front || w_cyclic, "behind the previous table, inside the flex group, or in front of the flex group's end");
		CHECK(MKFS_IMPL(!w_pack && !w_flex && !w_cyclic, MKFS_IMPL(IN.P >= (IN.FF & ~(CR - 1)) && IN.P < (IN.LL & ~(CR - 1)) && MKFS_GFB_ELIGIBLE(IN.P, G.elem, FDB, BC, CR), !(IN.pfree_e & 1))),
		      "placed in front of the flex group only when no run of elem_size blocks is free inside it");
		if (w_pack) REACH("packed");
		if (!w_pack && w_flex) REACH("in_flex_group");
		if (!w_pack && !w_flex) REACH("in_front");
		if (G.size < G.elem) G.hint_only = 1;
		if (w_cyclic && !w_pack && !w_flex && !w_front) REACH("bigalloc_cyclic_packing_search");
	}
	/* adjacency rule */
	if (quick && (IN.start_blk + G.size) > IN.start_blk && IN.P == IN.start_blk && MKFS_ALIGNED(IN.P, CR) &&
	    MKFS_GFB_ELIGIBLE(IN.P, G.elem, FDB, BC, CR) && (IN.pfree_e & 1) && ((IN.start_blk + G.size) & ~(CR - 1)) > IN.start_blk) {
		CHECK(r == IN.start_blk && G.calls == 1, "free space directly behind the previous group's table is taken (one search)");
		REACH("adjacent");
	}
	if (!quick) {
		CHECK(G.q_start[0] == IN.FF && G.q_finish[0] == IN.LL, "no usable packing position: the search starts with the flex group");
		REACH("no_packing_position");
	}
	REACH("end");
}
void h_flexbg_offset_bitmaps(void) { run(0); }
void h_flexbg_offset_itable_wide(void) { run(1); if (G.hint_only) REACH("hint_only"); }
void h_flexbg_offset_itable_many(void) { run(2); if (G.hint_only) REACH("hint_only"); }
void h_flexbg_offset_size_overflow(void) { run(-1); }
