/*
 * Shared by gfb_window.c / gfb_wrap.c: harness and stubs for lib/ext2fs/alloc.c:ext2fs_get_free_blocks2.
 * The including unit defines VERIF_INV_GET_FREE_BLOCKS2 (text of the named loop anchor) and GFB_LINEAR (1/0) first.
 *
 * ghost (ONE arbitrary block verif_k; G_kfree = "the map reports verif_k .. verif_k+n-1 free"):
 *   G_cnt       number of range tests so far (index into IN.choice: independent answers for blocks other than verif_k)
 *   G_last_blk  block of the most recent range test     G_last_res  its answer     G_bad_args  a test with a wrong map / length
 */
#include "verif.h"
#include "mkfs_alloc.h"

struct in_s {
	unsigned long long start, finish, bc, k, ret0;
	int num;
	unsigned int fdb, gran;
	unsigned char kfree, have_map, have_fsmap, choice[8];
};
struct in_s IN;
#include "verif_in.h"

unsigned long long verif_k;
unsigned long long G_cnt, G_last_blk, G_last_res, G_bad_args, G_kfree, G_n;
const void *G_map;

#define BC	(IN.bc)
#define FDB	((unsigned long long)IN.fdb)
#define CR	(1ULL << IN.gran)
#define KNOWN_NOT_FREE(cond)	MKFS_IMPL((cond) && MKFS_GFB_ELIGIBLE(verif_k, G_n, FDB, BC, CR), !G_kfree)

#include "lib/ext2fs/alloc.c"

blk64_t ext2fs_blocks_count(struct ext2_super_block *super) { return BC; }
int ext2fs_get_bitmap_granularity(ext2fs_generic_bitmap bitmap) { return (int)IN.gran; }
int ext2fs_test_block_bitmap_range2(ext2fs_block_bitmap bmap, blk64_t block, unsigned int num)
{
	int r;
	if ((const void *)bmap != G_map || num != G_n)
		G_bad_args = 1;
	if (block == verif_k)
		r = G_kfree != 0;
	else
		r = IN.choice[G_cnt & 7] & 1;
	G_cnt++;
	G_last_blk = block;
	G_last_res = r;
	return r;
}

static int DUMMY_MAP, DUMMY_FSMAP;

static void run(void)
{
	static struct struct_ext2_filsys FS;
	static struct ext2_super_block SB;
	blk64_t ret;

	LOAD_IN();
	memset(&FS, 0, sizeof(FS));
	memset(&SB, 0, sizeof(SB));
	FS.magic = EXT2_ET_MAGIC_EXT2FS_FILSYS;
	FS.super = &SB;
	FS.block_map = IN.have_fsmap ? (ext2fs_block_bitmap)&DUMMY_FSMAP : 0;
	SB.s_first_data_block = IN.fdb;
	ext2fs_block_bitmap map = IN.have_map ? (ext2fs_block_bitmap)&DUMMY_MAP : 0;

	/* the format: first data block 0 or 1 (1 only for 1 KiB blocks without bigalloc), cluster aligned; 48-bit block numbers */
	ASSUME(IN.gran <= 20 && IN.fdb <= 1 && MKFS_ALIGNED(FDB, CR) && FDB < BC && BC <= (1ULL << 48));
	ASSUME(IN.start <= (1ULL << 48) && IN.finish <= (1ULL << 48));
	ASSUME(IN.num >= 0);
	unsigned long long n = MKFS_GFB_N(IN.num);
	unsigned long long b0 = MKFS_GFB_B0(IN.start, FDB, CR), f = MKFS_GFB_F(IN.start, IN.finish, CR);
	int linear = MKFS_GFB_LINEAR(IN.start, f);
#if GFB_LINEAR
	ASSUME(linear);
	/* a non-empty window (call sites: finish is the last block of a group / of the filesystem; the degenerate
	 * start == 0, finish <= first data block makes the search leave the window) */
	ASSUME(b0 < f);
#else
	ASSUME(!linear);
	/* call sites (alloc_tables.c, mke2fs.c packed_allocate_tables, pass1.c new_table_block): the end of the cyclic
	 * search is the last block of a group / the block count, never at or below the first data block; the search
	 * starts inside the filesystem; the element fits the filesystem */
	ASSUME(f > FDB && IN.start < BC && n <= BC - FDB);
#endif
	verif_k = IN.k;
	G_kfree = IN.kfree & 1;
	G_n = n;
	G_map = map ? (const void *)map : (const void *)FS.block_map;
	G_cnt = 0; G_last_blk = 0; G_last_res = 0; G_bad_args = 0;
	ret = IN.ret0;

	errcode_t r = ext2fs_get_free_blocks2(&FS, IN.start, IN.finish, IN.num, map, &ret);

	if (!G_map) {
		CHECK(r == EXT2_ET_NO_BLOCK_BITMAP && G_cnt == 0, "no map: refused without a search");
		REACH("no_map");
	} else {
		CHECK(r == 0 || r == EXT2_ET_BLOCK_ALLOC_FAIL, "found or no space");
		CHECK(!G_bad_args, "only the requested map is consulted, always for n blocks");
	}
	if (r == 0) {
		CHECK(G_last_blk == ret && G_last_res != 0, "the block returned was reported free for n blocks by the map");
		CHECK(MKFS_GFB_ELIGIBLE(ret, n, FDB, BC, CR), "the n blocks lie inside the filesystem, cluster aligned");
		CHECK(MKFS_GFB_CANDIDATE(ret, linear, b0, f), "inside the search window");
		CHECK(KNOWN_NOT_FREE(MKFS_GFB_BEFORE(verif_k, ret, linear, b0, f)), "first fit: no earlier eligible candidate is free");
		if (ret == verif_k) REACH("found_k");
#if !GFB_LINEAR
		if (ret < b0) REACH("found_after_wrap");
#endif
		if (ret > b0) REACH("found_later");
	} else {
		CHECK(ret == IN.ret0, "nothing is stored on failure");
		if (G_map) {
			CHECK(KNOWN_NOT_FREE(MKFS_GFB_CANDIDATE(verif_k, linear, b0, f)), "no space only if no eligible candidate is free");
			if (MKFS_GFB_CANDIDATE(verif_k, linear, b0, f) && MKFS_GFB_ELIGIBLE(verif_k, n, FDB, BC, CR)) REACH("fail_k_tested");
			REACH("fail");
		}
	}
	REACH("end");
}
