/* VERIF-UNIT
{
 "name": "new_inode_ipg8",
 "props": [
  "C07"
 ],
 "level": "U/iter",
 "tier": "quick",
 "harness": "h_new_inode_ipg8",
 "replace": [
  "check_inode_uninit"
 ],
 "loop_contracts": true,
 "unwind": 8,
 "unwind_reason": "the search loop (do-while over block groups) carries an in-place loop contract without a decreases clause (named anchor VERIF_INV_NEW_INODE, text below): partial correctness; 8 serves the DFCC library loops over its assigns targets, unwinding assertions on",
 "functions": [
  "lib/ext2fs/alloc.c:ext2fs_new_inode"
 ],
 "assumes": [
  "NEEDS the hook in hooks-pending/c07b.diff (named loop anchor VERIF_INV_NEW_INODE on the do-while loop of ext2fs_new_inode)",
  "s_inodes_per_group = 8, one of the ENUMERATED values 8 (the minimum), 16, 24 and 4104 (not powers of two), 8192 (the mke2fs default), 32768, 524288 (8 * 65536: the maximum) - one unit each, the value stored as a constant (the loop divides by it twice per iteration; with a symbolic 32-bit divisor the query does not finish in 290 s); everything else is symbolic: s_inodes_count = groups * inodes_per_group with 1 <= groups, s_inodes_count <= 2^32 - 8, the first non-reserved inode 1 <= first_ino <= s_inodes_count (s_first_ino for a dynamic-revision superblock, 11 for revision 0), dir in 0 .. s_inodes_count",
  "what is proved (specs/mkfs_alloc.h), for ONE arbitrary ghost inode K in [first_ino, s_inodes_count], PARTIAL correctness: success => the inode returned lies in [first_ino, s_inodes_count] and its bit is clear in the consulted map at return (the function re-tests it); every inode that comes before it in the search order was examined and found in use at that moment, where the search order is s0, s0+1, .., s_inodes_count, first_ino, .., s0-1 with s0 = the first inode of dir's group when dir > 0 (never below first_ino) - the directory spreading rule 'start in the parent's group'; EXT2_ET_INODE_ALLOC_FAIL => every inode of [first_ino, s_inodes_count] was examined and found in use (or the bitmap layer reported an error); *ret untouched on failure; only the consulted map (map, or fs->inode_map when map is NULL) is searched",
  "ext2fs_find_first_zero_generic_bmap / ext2fs_test_generic_bmap are STUBS implementing their C16 contracts (bitmap_gen units: least clear bit of [start, end] or ENOENT; EINVAL for a bad range) pointwise over the ghost inode; check_inode_uninit (same file) is replaced by the contract 'may only CLEAR bits' (unit check_inode_uninit proves that it clears exactly the bits of an INODE_UNINIT group); hence 'found in use' is a statement about the moment of the examination",
  "no contract is enforced (harness CHECKs on the real function)"
 ],
 "native": false
}
*/
/* VERIF-UNIT
{
 "name": "new_inode_ipg16",
 "props": [
  "C07"
 ],
 "level": "U/iter",
 "tier": "quick",
 "harness": "h_new_inode_ipg16",
 "replace": [
  "check_inode_uninit"
 ],
 "loop_contracts": true,
 "unwind": 8,
 "unwind_reason": "the search loop (do-while over block groups) carries an in-place loop contract without a decreases clause (named anchor VERIF_INV_NEW_INODE, text below): partial correctness; 8 serves the DFCC library loops over its assigns targets, unwinding assertions on",
 "functions": [
  "lib/ext2fs/alloc.c:ext2fs_new_inode"
 ],
 "assumes": [
  "s_inodes_per_group = 16; everything else as new_inode_ipg8"
 ],
 "native": false
}
*/
/* VERIF-UNIT
{
 "name": "new_inode_ipg24",
 "props": [
  "C07"
 ],
 "level": "U/iter",
 "tier": "quick",
 "harness": "h_new_inode_ipg24",
 "replace": [
  "check_inode_uninit"
 ],
 "loop_contracts": true,
 "unwind": 8,
 "unwind_reason": "the search loop (do-while over block groups) carries an in-place loop contract without a decreases clause (named anchor VERIF_INV_NEW_INODE, text below): partial correctness; 8 serves the DFCC library loops over its assigns targets, unwinding assertions on",
 "functions": [
  "lib/ext2fs/alloc.c:ext2fs_new_inode"
 ],
 "assumes": [
  "s_inodes_per_group = 24; everything else as new_inode_ipg8"
 ],
 "native": false
}
*/
/* VERIF-UNIT
{
 "name": "new_inode_ipg4104",
 "props": [
  "C07"
 ],
 "level": "U/iter",
 "tier": "thorough",
 "harness": "h_new_inode_ipg4104",
 "replace": [
  "check_inode_uninit"
 ],
 "loop_contracts": true,
 "unwind": 8,
 "unwind_reason": "the search loop (do-while over block groups) carries an in-place loop contract without a decreases clause (named anchor VERIF_INV_NEW_INODE, text below): partial correctness; 8 serves the DFCC library loops over its assigns targets, unwinding assertions on",
 "functions": [
  "lib/ext2fs/alloc.c:ext2fs_new_inode"
 ],
 "assumes": [
  "s_inodes_per_group = 4104; everything else as new_inode_ipg8"
 ],
 "native": false
}
*/
/* VERIF-UNIT
{
 "name": "new_inode_ipg8192",
 "props": [
  "C07"
 ],
 "level": "U/iter",
 "tier": "quick",
 "harness": "h_new_inode_ipg8192",
 "replace": [
  "check_inode_uninit"
 ],
 "loop_contracts": true,
 "unwind": 8,
 "unwind_reason": "the search loop (do-while over block groups) carries an in-place loop contract without a decreases clause (named anchor VERIF_INV_NEW_INODE, text below): partial correctness; 8 serves the DFCC library loops over its assigns targets, unwinding assertions on",
 "functions": [
  "lib/ext2fs/alloc.c:ext2fs_new_inode"
 ],
 "assumes": [
  "s_inodes_per_group = 8192; everything else as new_inode_ipg8"
 ],
 "native": false
}
*/
/* VERIF-UNIT
{
 "name": "new_inode_ipg32768",
 "props": [
  "C07"
 ],
 "level": "U/iter",
 "tier": "quick",
 "harness": "h_new_inode_ipg32768",
 "replace": [
  "check_inode_uninit"
 ],
 "loop_contracts": true,
 "unwind": 8,
 "unwind_reason": "the search loop (do-while over block groups) carries an in-place loop contract without a decreases clause (named anchor VERIF_INV_NEW_INODE, text below): partial correctness; 8 serves the DFCC library loops over its assigns targets, unwinding assertions on",
 "functions": [
  "lib/ext2fs/alloc.c:ext2fs_new_inode"
 ],
 "assumes": [
  "s_inodes_per_group = 32768; everything else as new_inode_ipg8"
 ],
 "native": false
}
*/
/* VERIF-UNIT
{
 "name": "new_inode_ipg524288",
 "props": [
  "C07"
 ],
 "level": "U/iter",
 "tier": "quick",
 "harness": "h_new_inode_ipg524288",
 "replace": [
  "check_inode_uninit"
 ],
 "loop_contracts": true,
 "unwind": 8,
 "unwind_reason": "the search loop (do-while over block groups) carries an in-place loop contract without a decreases clause (named anchor VERIF_INV_NEW_INODE, text below): partial correctness; 8 serves the DFCC library loops over its assigns targets, unwinding assertions on",
 "functions": [
  "lib/ext2fs/alloc.c:ext2fs_new_inode"
 ],
 "assumes": [
  "s_inodes_per_group = 524288; everything else as new_inode_ipg8"
 ],
 "native": false
}
*/
/*
 * ghost: verif_k = K; G_kbit its bit in the map (may be cleared by check_inode_uninit); G_kskipped = K was covered by a
 *        search that reported it in use; G_bad = a search on another map / with a bad range; G_cnt = number of searches
 */
#include "verif.h"
#include "mkfs_alloc.h"

struct in_s {
	unsigned int dir, groups, first_ino, rev, ipg_sel, ret0;
	unsigned long long k;
	unsigned char kbit, have_map, have_fsmap;
	unsigned char ffz_fail[8], test_other[8];
	unsigned long long ffz_out[8];
};
struct in_s IN;
#include "verif_in.h"

unsigned long long verif_k;
unsigned long long G_kbit, G_kskipped, G_bad, G_cnt, G_N, G_found, G_found_ino;
const void *G_map;

#define NI_F	((unsigned long long)EXT2_FIRST_INODE(fs->super))
#define NI_KNOWN(cond)	MKFS_IMPL((cond) && verif_k >= NI_F && verif_k <= fs->super->s_inodes_count, G_kskipped)

#define VERIF_INV_NEW_INODE \
	__CPROVER_assigns(i, ino_in_group, group, upto, first_zero, retval, G_kbit, G_kskipped, G_bad, G_cnt, G_found, G_found_ino) \
	__CPROVER_loop_invariant(i >= EXT2_FIRST_INODE(fs->super) && i <= fs->super->s_inodes_count) \
	__CPROVER_loop_invariant(!G_bad && G_kbit <= 1) \
	__CPROVER_loop_invariant(i >= start_inode ? NI_KNOWN(verif_k >= start_inode && verif_k < i) \
						  : NI_KNOWN(verif_k >= start_inode || verif_k < i))

#include "lib/ext2fs/alloc.c"

static void check_inode_uninit(ext2_filsys fs, ext2fs_inode_bitmap map, dgrp_t group)
	REQUIRES((const void *)map == G_map)
	ASSIGNS(G_kbit)
	ENSURES(G_kbit == OLD(G_kbit) || G_kbit == 0);

errcode_t ext2fs_find_first_zero_generic_bmap(ext2fs_generic_bitmap bitmap, __u64 start, __u64 end, __u64 *out)
{
	unsigned int c = G_cnt & 7;
	G_cnt++;
	if ((const void *)bitmap != G_map)
		G_bad = 1;
	if (!(start <= end && start >= 1 && end <= G_N)) {
		G_bad = 1;
		return EINVAL;
	}
	G_found = 0;
	if (IN.ffz_fail[c] & 1) {
		ASSUME(MKFS_IMPL(verif_k >= start && verif_k <= end, G_kbit == 1));
		if (verif_k >= start && verif_k <= end) G_kskipped = 1;
		return ENOENT;
	}
	unsigned long long o = IN.ffz_out[c];
	ASSUME(o >= start && o <= end);
	ASSUME(MKFS_IMPL(verif_k == o, G_kbit == 0));
	ASSUME(MKFS_IMPL(verif_k >= start && verif_k < o, G_kbit == 1));
	if (verif_k >= start && verif_k < o) G_kskipped = 1;
	G_found = 1; G_found_ino = o;
	*out = o;
	return 0;
}
int ext2fs_test_generic_bmap(ext2fs_generic_bitmap bitmap, __u64 arg)
{
	if ((const void *)bitmap != G_map)
		G_bad = 1;
	if (arg == verif_k)
		return (int)G_kbit;
	/* the bitmap is one object: the inode just reported clear by the search is clear */
	if (G_found && arg == G_found_ino)
		return 0;
	return IN.test_other[arg & 7] & 1;
}

static int DUMMY_MAP, DUMMY_FSMAP;
static struct struct_ext2_filsys FS;
static struct ext2_super_block SB;

static void run(const unsigned int ipg_const)
{
	ext2_ino_t ret;
	errcode_t r = 0;

	LOAD_IN();
	memset(&FS, 0, sizeof(FS));
	memset(&SB, 0, sizeof(SB));
	FS.magic = EXT2_ET_MAGIC_EXT2FS_FILSYS;
	FS.super = &SB;
	FS.inode_map = IN.have_fsmap ? (ext2fs_inode_bitmap)&DUMMY_FSMAP : 0;
	ext2fs_inode_bitmap map = IN.have_map ? (ext2fs_inode_bitmap)&DUMMY_MAP : 0;
	SB.s_rev_level = IN.rev & 1;
	SB.s_first_ino = IN.first_ino;
	unsigned long long F = (IN.rev & 1) ? IN.first_ino : 11;	/* the format: revision 0 has 10 reserved inodes */
	ASSUME(IN.groups >= 1);
	G_map = map ? (const void *)map : (const void *)FS.inode_map;
	verif_k = IN.k;
	G_kbit = IN.kbit & 1;
	G_kskipped = 0; G_bad = 0; G_cnt = 0; G_found = 0; G_found_ino = 0;
	ret = IN.ret0;
	unsigned long long N = 0, ipg = 0;

	/* inodes per group is a constant of the harness */
	ASSUME(ipg_const >= 8 && ipg_const <= 524288 && (ipg_const & 7) == 0);
	ipg = ipg_const;
	N = (unsigned long long)IN.groups * ipg_const;
	ASSUME(N <= 0xfffffff8ULL && F >= 1 && F <= N && IN.dir <= N);
	ASSUME(verif_k >= F && verif_k <= N);
	SB.s_inodes_per_group = ipg_const;
	SB.s_inodes_count = (unsigned int)N;
	G_N = N;
	r = ext2fs_new_inode(&FS, IN.dir, 0, map, &ret);

	/* the spec's start of the search: first inode of dir's group (group g holds g*ipg+1 .. (g+1)*ipg), not below F */
	unsigned long long s0 = IN.dir > 0 ? ((IN.dir - 1) / ipg_const) * ipg_const + 1 : 0;	/* 32-bit: no overflow, the product is <= dir - 1 */
	if (s0 < F) s0 = F;

	if (!G_map) {
		CHECK(r == EXT2_ET_NO_INODE_BITMAP && G_cnt == 0, "no map: refused without a search");
		REACH("no_map");
	} else {
		CHECK(r == 0 || r == EXT2_ET_INODE_ALLOC_FAIL, "found or no inode");
		CHECK(!G_bad, "only the consulted map is searched, always with a valid range inside [1, s_inodes_count]");
	}
	if (r == 0) {
		CHECK(ret >= F && ret <= N, "a non-reserved inode of the filesystem");
		CHECK(MKFS_IMPL(ret == verif_k, G_kbit == 0), "its bit is clear in the map at return");
		CHECK(MKFS_IMPL(MKFS_NI_BEFORE(verif_k, ret, s0), G_kskipped), "every inode before it in the search order (from the parent's group, wrapping to first_ino) was examined and found in use");
		if (ret == verif_k) REACH("found_k");
		if (ret < s0) REACH("found_after_wrap");
		if (IN.dir > 0 && s0 > F && ret >= s0) REACH("found_in_or_behind_parent_group");
	} else {
		CHECK(ret == IN.ret0, "nothing is stored on failure");
		if (G_map && r == EXT2_ET_INODE_ALLOC_FAIL && G_cnt > 0) {
			CHECK(G_kskipped || G_kbit == 1, "no inode: every non-reserved inode was examined and found in use (or is in use now)");
			REACH("fail");
		}
	}
	REACH("end");
}

void h_new_inode_ipg8(void) { run(8); }
void h_new_inode_ipg16(void) { run(16); }
void h_new_inode_ipg24(void) { run(24); }
void h_new_inode_ipg4104(void) { run(4104); }
void h_new_inode_ipg8192(void) { run(8192); }
void h_new_inode_ipg32768(void) { run(32768); }
void h_new_inode_ipg524288(void) { run(524288); }
