/* VERIF-UNIT
{
 "name": "check_inode_uninit",
 "props": ["C07"],
 "level": "U",
 "tier": "quick",
 "harness": "h_check_inode_uninit",
 "loop_contracts": true,
 "unwind": 8,
 "unwind_reason": "the loop over the group's inodes carries an in-place loop contract with a decreases clause (named anchor VERIF_INV_CHECK_INODE_UNINIT, text below); 8 serves the DFCC library loops, unwinding assertions on",
 "functions": ["lib/ext2fs/alloc.c:check_inode_uninit"],
 "assumes": ["NEEDS the hook in hooks-pending/c07b.diff (named loop anchor VERIF_INV_CHECK_INODE_UNINIT)",
             "what is proved, for ONE arbitrary ghost inode K: when the group exists, group descriptor checksums are in use (GDT_CSUM or METADATA_CSUM) and the group carries EXT2_BG_INODE_UNINIT: exactly the bits of the group's inodes group*ipg+1 .. (group+1)*ipg are cleared in the map (K is unmarked once iff it lies in that range, never otherwise), INODE_UNINIT and BLOCK_UNINIT are cleared, the descriptor checksum is recomputed afterwards, inode bitmap and superblock are marked dirty; otherwise NOTHING is touched. This is the contract 'may only clear bits' used by the new_inode_* units, and more",
             "the group's first inode is taken as the 32-bit value group * s_inodes_per_group + 1 (exact when s_inodes_count = group_desc_count * s_inodes_per_group fits 32 bits, the format's inode number space; stated as: first inode >= 1 and first inode + s_inodes_per_group - 1 <= 2^32 - 1 - a 64-bit product in the assumption leaves the solver with a multiplier equivalence); bitmap and descriptor accessors are stubs that log"],
 "native": false,
 "backend": "cvc5"
}
*/
#include "verif.h"

struct in_s {
	unsigned int group, gdc, ipg, ro_compat, flags0;
	int fsflags0;
	unsigned long long k;
};
struct in_s IN;
#include "verif_in.h"

unsigned long long verif_k;
unsigned long long G_base, G_kunmarks, G_unmarks, G_bad, G_first;
unsigned int G_flags, G_clear_calls, G_csum_calls, G_csum_after_clear;
const void *G_map;

/*
 * The group's first inode as the CODE sees it is ino - i (loop locals); the stub records the first inode number it is
 * asked to clear in G_first.  All loop facts are stated relative to that value; that it IS the format's first inode of the
 * group, group * ipg + 1, is one separate CHECK (the only obligation that has to equate two 32x32 multipliers).
 * K lies in the group iff (K - first) mod 2^32 < ipg: one unsigned comparison.
 */
#define K_OFFSET_FROM(first) ((unsigned int)((unsigned int)verif_k - (unsigned int)(first)))
#define VERIF_INV_CHECK_INODE_UNINIT \
	__CPROVER_assigns(i, ino, G_kunmarks, G_unmarks, G_bad, G_first) \
	__CPROVER_loop_invariant(i <= fs->super->s_inodes_per_group && G_unmarks == i && !G_bad) \
	__CPROVER_loop_invariant((ext2_ino_t)(ino - i) == __CPROVER_loop_entry(ino) && (i == 0 || G_first == (ext2_ino_t)(ino - i))) \
	__CPROVER_loop_invariant(G_kunmarks == (K_OFFSET_FROM(ino - i) < i ? 1 : 0)) \
	__CPROVER_decreases(fs->super->s_inodes_per_group - i)

#include "lib/ext2fs/alloc.c"

int ext2fs_unmark_generic_bmap(ext2fs_generic_bitmap bitmap, __u64 arg)
{
	if (G_unmarks == 0) G_first = arg;
	if ((const void *)bitmap != G_map || arg != (unsigned int)(G_first + G_unmarks)) G_bad = 1;
	G_unmarks++;
	if (arg == verif_k) G_kunmarks++;
	return 0;
}
int ext2fs_bg_flags_test(ext2_filsys fs, dgrp_t group, __u16 bg_flag) { return group == IN.group && (G_flags & bg_flag) != 0; }
void ext2fs_bg_flags_clear(ext2_filsys fs, dgrp_t group, __u16 bg_flags) { if (group == IN.group) G_flags &= ~bg_flags; G_clear_calls++; }
void ext2fs_group_desc_csum_set(ext2_filsys fs, dgrp_t group) { G_csum_calls++; if (group == IN.group && G_clear_calls == 2) G_csum_after_clear = 1; }

static int DUMMY_MAP;

void h_check_inode_uninit(void)
{
	static struct struct_ext2_filsys FS;
	static struct ext2_super_block SB;

	LOAD_IN();
	memset(&FS, 0, sizeof(FS));
	memset(&SB, 0, sizeof(SB));
	FS.magic = EXT2_ET_MAGIC_EXT2FS_FILSYS;
	FS.super = &SB;
	FS.group_desc_count = IN.gdc;
	FS.flags = IN.fsflags0;
	SB.s_inodes_per_group = IN.ipg;
	SB.s_feature_ro_compat = IN.ro_compat;
	ASSUME(IN.ipg >= 1);
	G_map = &DUMMY_MAP;
	/* first inode of the group (inode numbers are 1-based); 32-bit arithmetic, exact by the assumption above */
	G_base = (unsigned int)(IN.group * IN.ipg) + 1u;
	/* the group's inodes G_base .. G_base + ipg - 1 exist in the 32-bit inode number space */
	ASSUME(G_base >= 1 && G_base + IN.ipg - 1 <= 0xffffffffULL);
	G_kunmarks = G_unmarks = G_bad = G_first = 0;
	G_flags = IN.flags0 & 0xffff;
	G_clear_calls = G_csum_calls = G_csum_after_clear = 0;
	verif_k = IN.k & 0xffffffffULL;	/* inode numbers are 32 bit */

	check_inode_uninit(&FS, (ext2fs_inode_bitmap)&DUMMY_MAP, IN.group);

	int csum = (IN.ro_compat & (0x0010u /* GDT_CSUM */ | 0x0400u /* METADATA_CSUM */)) != 0;
	int act = IN.group < IN.gdc && csum && (IN.flags0 & 0x0001u /* EXT2_BG_INODE_UNINIT */);
	CHECK(!G_bad, "only the given map, inodes in ascending order from the group's first inode");
	if (act) {
		CHECK(G_unmarks == IN.ipg, "one unmark per inode of the group");
		CHECK(G_first == G_base, "the first inode cleared is the group's first inode group * ipg + 1");
		CHECK(G_kunmarks == (K_OFFSET_FROM(G_first) < IN.ipg ? 1u : 0u), "an inode's bit is cleared iff it is one of the ipg inodes from the first one on (first <= K <= first + ipg - 1)");
		CHECK((G_flags & 0x0003u) == 0 && (G_flags & ~0x0003u) == (IN.flags0 & 0xffff & ~0x0003u), "INODE_UNINIT and BLOCK_UNINIT cleared, other flags kept");
		CHECK(G_csum_after_clear, "the descriptor checksum is recomputed after the flags changed");
		CHECK(FS.flags == (IN.fsflags0 | EXT2_FLAG_IB_DIRTY | EXT2_FLAG_DIRTY | EXT2_FLAG_CHANGED), "inode bitmap and superblock marked dirty");
		if (G_kunmarks) REACH("k_cleared");
		REACH("initialised");
	} else {
		CHECK(G_unmarks == 0 && G_clear_calls == 0 && G_csum_calls == 0 && FS.flags == IN.fsflags0 && G_flags == (IN.flags0 & 0xffff), "nothing is touched");
		REACH("untouched");
	}
	REACH("end");
}
