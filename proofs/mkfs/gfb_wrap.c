/* VERIF-UNIT
{
 "name": "get_free_blocks2_wrap",
 "props": ["C07"],
 "level": "U/iter",
 "tier": "quick",
 "harness": "h_get_free_blocks2_wrap",
 "loop_contracts": true,
 "unwind": 8,
 "unwind_reason": "the search loop carries an in-place loop contract WITHOUT a decreases clause (named anchor VERIF_INV_GET_FREE_BLOCKS2, text below): partial correctness; 8 serves the DFCC library loops over its 5 assigns targets, unwinding assertions on",
 "functions": ["lib/ext2fs/alloc.c:ext2fs_get_free_blocks2"],
 "assumes": ["NEEDS the hook in hooks-pending/c07b.diff (named loop anchor VERIF_INV_GET_FREE_BLOCKS2)",
             "CYCLIC searches only (finish, rounded down to a cluster, <= start: the search runs to the end of the filesystem, wraps to s_first_data_block and stops at finish); unit get_free_blocks2_window covers the linear case",
             "preconditions taken from the call sites (alloc_tables.c, misc/mke2fs.c packed_allocate_tables, e2fsck/pass1.c new_table_block): the end of the search f lies above the first data block, start < blocks_count, n <= blocks_count - first data block. WITHOUT them the function misbehaves: (a) f <= first data block (e.g. start = finish = 0) or f > blocks_count - n + cluster: the cursor never meets f again after the wrap, the loop does not terminate when nothing is free; (b) n > blocks_count - first data block: after the wrap ext2fs_test_block_bitmap_range2 is asked about a run that leaves the bitmap, answers EINVAL (non-zero), and the function returns the first data block as free. Neither is reachable from mke2fs (ext2fs_initialize guarantees that a group holds its inode table); stated here as an observation about the library interface",
             "what is proved (specs/mkfs_alloc.h), for ONE arbitrary ghost block k, PARTIAL correctness (no termination claim: after a wrap the cursor meets f only if f <= blocks_count - n + cluster): success => returned block reported free for n blocks by the consulted map, cluster aligned, n blocks inside the filesystem, a candidate of the cyclic window (>= b0 or < f), no eligible candidate earlier in the cyclic order is free; EXT2_ET_BLOCK_ALLOC_FAIL => no eligible candidate is free; *ret untouched on failure",
             "stubs as in get_free_blocks2_window; no contract enforced (harness CHECKs on the real function)"],
 "native": false
}
*/
#define GFB_LINEAR 0
#define GFB_B0 MKFS_GFB_B0(start, FDB, CR)
#define VERIF_INV_GET_FREE_BLOCKS2 \
	__CPROVER_assigns(b, G_cnt, G_last_blk, G_last_res, G_bad_args) \
	__CPROVER_loop_invariant(MKFS_ALIGNED(b, c_ratio) && b >= FDB && b <= BC + CR && (b >= GFB_B0 || b < finish)) \
	__CPROVER_loop_invariant(!G_bad_args) \
	/* first leg: candidates of [b0, b) are known; second leg (b < f): those >= b0 and those below b */ \
	__CPROVER_loop_invariant(b < finish ? KNOWN_NOT_FREE(verif_k >= GFB_B0 || verif_k < b) \
					    : KNOWN_NOT_FREE(verif_k >= GFB_B0 && verif_k < b))
#include "gfb_common.h"
void h_get_free_blocks2_wrap(void) { run(); }
