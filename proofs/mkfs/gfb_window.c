/* VERIF-UNIT
{
 "name": "get_free_blocks2_window",
 "props": ["C07"],
 "level": "U",
 "tier": "quick",
 "harness": "h_get_free_blocks2_window",
 "loop_contracts": true,
 "unwind": 8,
 "unwind_reason": "the search loop carries an in-place loop contract with a decreases clause (named anchor VERIF_INV_GET_FREE_BLOCKS2, text below); 8 serves the DFCC library loops over its 5 assigns targets, unwinding assertions on",
 "functions": ["lib/ext2fs/alloc.c:ext2fs_get_free_blocks2"],
 "assumes": ["NEEDS the hook in hooks-pending/c07b.diff (named loop anchor VERIF_INV_GET_FREE_BLOCKS2 on the do-while loop of ext2fs_get_free_blocks2; its empty default lives in alloc.c's own guarded preamble)",
             "LINEAR searches only (finish, rounded down to a cluster, > start) with a non-empty window b0 < f; unit get_free_blocks2_wrap covers finish <= start",
             "what is proved (specs/mkfs_alloc.h), for ONE arbitrary ghost block k: success => the returned block was reported free for n blocks by the consulted map (the stub of ext2fs_test_block_bitmap_range2 logs its last query), is cluster aligned, lies in [b0, f), its n blocks lie inside the filesystem, and no eligible candidate before it is free (first fit); EXT2_ET_BLOCK_ALLOC_FAIL => no eligible candidate of [b0, f) is free; termination (decreases f - b); *ret untouched on failure. NOTE (same as findings/C07_itable_crosses_group): only the START of the run is bounded by finish, the run may end behind it",
             "ext2fs_test_block_bitmap_range2 is a stub: the fixed ghost answer for block k, arbitrary independent answers for other blocks; ext2fs_blocks_count and ext2fs_get_bitmap_granularity return harness values: granularity 0..20, first data block 0 or 1 and cluster aligned, blocks_count <= 2^48, start/finish <= 2^48, num >= 0 (all call sites pass positive table sizes)",
             "no contract is enforced: harness CHECKs on the real function (frame: only *ret, checked as 'nothing stored on failure')"],
 "native": false
}
*/
#define GFB_LINEAR 1
#define VERIF_INV_GET_FREE_BLOCKS2 \
	__CPROVER_assigns(b, G_cnt, G_last_blk, G_last_res, G_bad_args) \
	__CPROVER_loop_invariant(MKFS_ALIGNED(b, c_ratio) && b >= MKFS_GFB_B0(start, FDB, CR) && b < finish) \
	__CPROVER_loop_invariant(!G_bad_args) \
	__CPROVER_loop_invariant(KNOWN_NOT_FREE(verif_k >= MKFS_GFB_B0(start, FDB, CR) && verif_k < b)) \
	__CPROVER_decreases(finish - b)
#include "gfb_common.h"
void h_get_free_blocks2_window(void) { run(); }
