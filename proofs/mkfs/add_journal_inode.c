/* VERIF-UNIT
{
 "name": "add_journal_inode3_protocol",
 "props": ["C07"],
 "level": "P",
 "tier": "quick",
 "harness": "h_add_journal_inode3_protocol",
 "replace": ["ext2fs_create_journal_superblock2", "get_midpoint_journal_block"],
 "sources": ["lib/ext2fs/blknum.c"],
 "unwind": 18,
 "unwind_reason": "no loop of the code under proof is executed: the loops of the mounted-filesystem branch (strcat, write_journal_file) and of get_midpoint_journal_block (replaced) are unreachable, the unwinding assertions prove it; 18 covers the harness loops that copy 17 superblock words and 16 uuid bytes",
 "defines": ["EXT2_CUSTOM_MEMORY_ROUTINES"],
 "cbmc_flags": ["--object-bits", "10"],
 "functions": ["lib/ext2fs/mkjournal.c:ext2fs_add_journal_inode3", "lib/ext2fs/mkjournal.c:write_journal_inode"],
 "assumes": ["ordering protocol of ext2fs_add_journal_inode3 + the real static write_journal_inode as mke2fs calls it: flags always contain EXT2_MKJOURNAL_NO_MNT_CHECK (misc/mke2fs.c PRS() sets it unconditionally; mke2fs has refused a mounted device before), so the journal goes into inode 8; the '.journal file on a mounted ext2' branch (open/ioctl/fstat; tune2fs only) is not covered",
             "what is proved with ghost monitors (every stub stamps a global sequence number): on success (1) the journal superblock was built for the caller's sizes (ext2fs_create_journal_superblock2, replaced by a contract handing out a fresh block; its content is proved by jwriter/jw_create_journal_superblock), (2) bitmaps were read and inode 8 was read and found EMPTY (i_blocks == 0; otherwise EEXIST and nothing is changed), (3) ext2fs_fallocate was asked for exactly num_journal_blocks + num_fc_blocks blocks from logical block 0 of inode 8 at the goal, with FORCE_INIT and with ZERO_BLOCKS unless EXT2_MKJOURNAL_LAZYINIT is requested, on an inode that already carries i_size = blocks * blocksize (64 bit, large_file set when >= 2 GiB), mode regular 0600, one link, and EXT4_EXTENTS_FL iff the extents feature is on, (4) THEN the inode was written (ext2fs_write_new_inode, inode 8, same size / flags / block map as left by fallocate), (5) THEN logical block 0 was mapped (ext2fs_bmap2, no allocation flags) and the journal superblock block was written to exactly that physical block, one block, the buffer from step 1, (6) THEN s_jnl_blocks[0..14] = the i_block[] of the inode as written, [15] = i_size_high, [16] = i_size, s_jnl_backup_type = EXT3_JNL_BACKUP_BLOCKS, (7) s_journal_inum = 8, s_journal_dev = 0, s_journal_uuid zero, and the has_journal feature bit set LAST: on EVERY error return has_journal, s_journal_inum and s_jnl_blocks are as on entry; the superblock is marked dirty; the jsb buffer is released on every path after step 1",
             "stubs (arbitrary error codes, logged arguments): ext2fs_check_mount_point, ext2fs_read_bitmaps, ext2fs_read_inode (arbitrary 128-byte inode), ext2fs_fallocate (fills i_block[] / i_blocks arbitrarily), ext2fs_write_new_inode, ext2fs_bmap2, io_channel_write_blk64; ext2fs_inode_size_set is the REAL one (lib/ext2fs/blknum.c); get_midpoint_journal_block (goal == ~0: middle of the filesystem) is replaced by an arbitrary-result contract; block size enumerated over {1024, 4096} x arbitrary 32-bit sizes with num_journal_blocks + num_fc_blocks <= 2^32 - 1; pointwise ghost index k in 0..14 for the block map; fs->now != 0 (fixed clock: time() is not called)",
             "no contract is enforced (big translation unit; harness CHECKs + monitors)"],
 "native": false
}
*/
#include "verif.h"

struct in_s {
	unsigned int nj, nfc, incompat, compat0, ro_compat0, flags;
	int fsflags0, mnt_flags;
	unsigned long long goal, zblk, k;
	unsigned char big, no_mnt_check;
	long r_mnt, r_bitmaps, r_read, r_falloc, r_write, r_bmap, r_io;
	unsigned int ino_words[32];		/* the inode as read from disk */
	unsigned int blk_words[15], i_blocks_after;
	unsigned int jnl0[17], jinum0;
	unsigned char uuid0[16], btype0;
};
struct in_s IN;
#include "verif_in.h"

unsigned long long verif_k;

#include "config.h"
#include "ext2fs/ext2_fs.h"
#include "ext2fs/ext2fs.h"

static struct {
	unsigned int seq;
	unsigned int s_jsb, s_bitmaps, s_read, s_falloc, s_write, s_bmap, s_io, s_free, s_mnt;	/* sequence stamps, 0 = not called */
	unsigned int n_jsb, n_falloc, n_write, n_io, n_free;
	/* fallocate */
	int fa_flags; unsigned int fa_ino; unsigned long long fa_goal, fa_start, fa_len;
	unsigned int fa_size, fa_size_high, fa_iflags, fa_mode, fa_links;
	/* write_new_inode */
	unsigned int wr_ino, wr_size, wr_size_high, wr_iflags, wr_blk_k, wr_i_blocks;
	/* bmap / io */
	unsigned int bm_ino; int bm_flags; unsigned long long bm_lblk;
	unsigned long long io_blk; int io_count; const void *io_buf, *io_chan;
	const void *jsb_buf, *freed;
	unsigned int has_journal_at_io, has_journal_at_write;
} G;
#define STAMP(x) (G.x = ++G.seq)

/* typed memory routines (EXT2_CUSTOM_MEMORY_ROUTINES): only the release of the jsb buffer is reachable */
errcode_t ext2fs_get_mem(unsigned long size, void *ptr) { *(void **)ptr = malloc(size); return *(void **)ptr ? 0 : EXT2_ET_NO_MEMORY; }
errcode_t ext2fs_get_memzero(unsigned long size, void *ptr) { *(void **)ptr = calloc(1, size); return *(void **)ptr ? 0 : EXT2_ET_NO_MEMORY; }
errcode_t ext2fs_get_array(unsigned long count, unsigned long size, void *ptr) { return ext2fs_get_mem(count * size, ptr); }
errcode_t ext2fs_get_arrayzero(unsigned long count, unsigned long size, void *ptr) { return ext2fs_get_memzero(count * size, ptr); }
errcode_t ext2fs_free_mem(void *ptr) { STAMP(s_free); G.n_free++; G.freed = *(void **)ptr; *(void **)ptr = 0; return 0; }
errcode_t ext2fs_resize_mem(unsigned long old_size, unsigned long size, void *ptr) { return EXT2_ET_NO_MEMORY; }
errcode_t ext2fs_resize_array(unsigned long old_count, unsigned long count, unsigned long size, void *ptr) { return EXT2_ET_NO_MEMORY; }

static struct struct_ext2_filsys FS;
static struct ext2_super_block SB;
static struct struct_io_channel CH;
static char JSB_BUF[8];

errcode_t ext2fs_create_journal_superblock2(ext2_filsys fs, struct ext2fs_journal_params *jparams, int flags, char **ret_jsb)
	REQUIRES(jparams->num_journal_blocks == IN.nj && jparams->num_fc_blocks == IN.nfc && fs == &FS)
	ASSIGNS(*ret_jsb, G.seq, G.s_jsb, G.n_jsb, G.jsb_buf)
	ENSURES(G.seq == OLD(G.seq) + 1 && G.s_jsb == G.seq && G.n_jsb == OLD(G.n_jsb) + 1)
	ENSURES(RET != 0 || (__CPROVER_pointer_equals(*ret_jsb, JSB_BUF) && G.jsb_buf == (const void *)JSB_BUF))
	ENSURES(RET == 0 || G.jsb_buf == OLD(G.jsb_buf));
static blk64_t get_midpoint_journal_block(ext2_filsys fs)
	REQUIRES(fs == &FS)
	ASSIGNS()
	ENSURES(1);

#include "lib/ext2fs/mkjournal.c"

errcode_t ext2fs_check_mount_point(const char *device, int *mount_flags, char *mtpt, int mtlen)
{
	STAMP(s_mnt);
	if (IN.r_mnt) return IN.r_mnt;
	*mount_flags = (IN.mnt_flags & 1) ? EXT2_MF_BUSY : 0;	/* never EXT2_MF_MOUNTED */
	return 0;
}
void ext2fs_update_dynamic_rev(ext2_filsys fs) { }	/* closefs.c; reached from the real ext2fs_inode_size_set when it turns on large_file */
errcode_t ext2fs_read_bitmaps(ext2_filsys fs) { STAMP(s_bitmaps); return IN.r_bitmaps; }
errcode_t ext2fs_read_inode(ext2_filsys fs, ext2_ino_t ino, struct ext2_inode *inode)
{
	STAMP(s_read);
	if (ino != EXT2_JOURNAL_INO) G.n_falloc = 99;
	if (IN.r_read) return IN.r_read;
	memcpy(inode, IN.ino_words, sizeof(*inode));
	return 0;
}
errcode_t ext2fs_fallocate(ext2_filsys fs, int flags, ext2_ino_t ino, struct ext2_inode *inode, blk64_t goal, blk64_t start, blk64_t len)
{
	STAMP(s_falloc); G.n_falloc++;
	G.fa_flags = flags; G.fa_ino = ino; G.fa_goal = goal; G.fa_start = start; G.fa_len = len;
	G.fa_size = inode->i_size; G.fa_size_high = inode->i_size_high; G.fa_iflags = inode->i_flags;
	G.fa_mode = inode->i_mode; G.fa_links = inode->i_links_count;
	if (IN.r_falloc) return IN.r_falloc;
	inode->i_block[verif_k] = IN.blk_words[verif_k];
	inode->i_blocks = IN.i_blocks_after;
	return 0;
}
errcode_t ext2fs_write_new_inode(ext2_filsys fs, ext2_ino_t ino, struct ext2_inode *inode)
{
	STAMP(s_write); G.n_write++;
	G.wr_ino = ino; G.wr_size = inode->i_size; G.wr_size_high = inode->i_size_high; G.wr_iflags = inode->i_flags;
	G.wr_blk_k = inode->i_block[verif_k]; G.wr_i_blocks = inode->i_blocks;
	G.has_journal_at_write = (fs->super->s_feature_compat & 0x0004u) != 0;
	return IN.r_write;
}
errcode_t ext2fs_bmap2(ext2_filsys fs, ext2_ino_t ino, struct ext2_inode *inode, char *block_buf, int bmap_flags,
		       blk64_t block, int *ret_flags, blk64_t *phys_blk)
{
	STAMP(s_bmap);
	G.bm_ino = ino; G.bm_flags = bmap_flags; G.bm_lblk = block;
	if (IN.r_bmap) return IN.r_bmap;
	*phys_blk = IN.zblk;
	return 0;
}
errcode_t io_channel_write_blk64(io_channel channel, unsigned long long block, int count, const void *data)
{
	STAMP(s_io); G.n_io++;
	G.io_blk = block; G.io_count = count; G.io_buf = data; G.io_chan = channel;
	G.has_journal_at_io = (FS.super->s_feature_compat & 0x0004u) != 0;
	return IN.r_io;
}

#define HAS_JOURNAL_BIT 0x0004u		/* EXT3_FEATURE_COMPAT_HAS_JOURNAL */
#define EXTENTS_BIT	0x0040u		/* EXT3_FEATURE_INCOMPAT_EXTENTS */
#define LARGE_FILE_BIT	0x0002u		/* EXT2_FEATURE_RO_COMPAT_LARGE_FILE */

static void body(const unsigned int bs, const int flags)
{
	struct ext2fs_journal_params jp;

	FS.blocksize = bs;
	jp.num_journal_blocks = IN.nj;
	jp.num_fc_blocks = IN.nfc;
	unsigned long long blocks = (unsigned long long)IN.nj + IN.nfc;
	unsigned long long want_size = blocks * bs;

	errcode_t r = ext2fs_add_journal_inode3(&FS, &jp, IN.goal, flags);

	unsigned int compat = SB.s_feature_compat;
	if (r == 0) {
		/* order */
		CHECK(G.n_jsb == 1 && G.s_jsb && G.s_bitmaps > G.s_jsb && G.s_read > G.s_bitmaps && G.s_falloc > G.s_read &&
		      G.s_write > G.s_falloc && G.s_bmap > G.s_write && G.s_io > G.s_bmap && G.s_free > G.s_io,
		      "order: journal superblock built, bitmaps read, inode read, blocks allocated, inode written, block 0 mapped, journal superblock written, buffer released");
		CHECK(G.n_falloc == 1 && G.n_write == 1 && G.n_io == 1 && G.n_free == 1 && G.s_mnt == 0, "each step exactly once, inode 8 only, no mount check");
		CHECK((IN.ino_words[7] /* i_blocks */) == 0, "the journal inode was empty");
		/* allocation */
		CHECK(G.fa_ino == 8 && G.fa_start == 0 && G.fa_len == blocks, "journal + fast-commit blocks are allocated from logical block 0 of inode 8");
		CHECK(IN.goal == ~0ULL || G.fa_goal == IN.goal, "at the caller's goal (or the computed midpoint for ~0)");
		CHECK((G.fa_flags & EXT2_FALLOCATE_FORCE_INIT) && ((G.fa_flags & EXT2_FALLOCATE_ZERO_BLOCKS) != 0) == ((flags & EXT2_MKJOURNAL_LAZYINIT) == 0),
		      "initialised extents; the blocks are zeroed unless lazy journal initialisation is requested");
		CHECK(((unsigned long long)G.fa_size_high << 32 | G.fa_size) == want_size, "i_size = blocks * blocksize before the allocation");
		CHECK((G.fa_mode & 0xF000) == 0x8000 && (G.fa_mode & 0x0FFF) == 0600 && G.fa_links == 1, "regular file, mode 0600, one link");
		CHECK(((G.fa_iflags & EXT4_EXTENTS_FL) != 0) == ((IN.incompat & EXTENTS_BIT) != 0) || (IN.ino_words[8] & EXT4_EXTENTS_FL),
		      "EXT4_EXTENTS_FL is set iff the filesystem has the extents feature (a flag already on disk is kept)");
		CHECK(want_size < 0x80000000ULL || (SB.s_feature_ro_compat & LARGE_FILE_BIT), "a journal of 2 GiB or more turns on large_file");
		/* inode written as allocated */
		CHECK(G.wr_ino == 8 && G.wr_size == G.fa_size && G.wr_size_high == G.fa_size_high && G.wr_iflags == G.fa_iflags &&
		      G.wr_blk_k == IN.blk_words[verif_k] && G.wr_i_blocks == IN.i_blocks_after, "the inode is written with that size, those flags and the block map fallocate produced");
		/* journal superblock into block 0 of the journal */
		CHECK(G.bm_ino == 8 && G.bm_lblk == 0 && G.bm_flags == 0, "logical block 0 of the journal is looked up (no allocation)");
		CHECK(G.io_blk == IN.zblk && G.io_count == 1 && G.io_buf == (const void *)JSB_BUF && G.io_chan == (const void *)&CH,
		      "the journal superblock built in step 1 is written to that block");
		CHECK(G.freed == (const void *)JSB_BUF, "its buffer is released");
		/* superblock */
		CHECK(SB.s_jnl_blocks[verif_k] == G.wr_blk_k && SB.s_jnl_blocks[15] == G.wr_size_high && SB.s_jnl_blocks[16] == G.wr_size &&
		      SB.s_jnl_backup_type == EXT3_JNL_BACKUP_BLOCKS, "s_jnl_blocks is the backup of i_block[] and i_size of the inode as written");
		CHECK(SB.s_journal_inum == 8 && SB.s_journal_dev == 0 && SB.s_journal_uuid[verif_k] == 0, "journal inode 8, no device, no uuid");
		CHECK((compat & HAS_JOURNAL_BIT) && (compat & ~HAS_JOURNAL_BIT) == (IN.compat0 & ~HAS_JOURNAL_BIT), "has_journal is set, no other compat bit changes");
		CHECK(!G.has_journal_at_write && !G.has_journal_at_io || (IN.compat0 & HAS_JOURNAL_BIT), "has_journal is set only after the journal is on disk");
		CHECK((FS.flags & (EXT2_FLAG_DIRTY | EXT2_FLAG_CHANGED)) == (EXT2_FLAG_DIRTY | EXT2_FLAG_CHANGED), "the superblock is marked dirty");
		if (want_size >= 0x100000000ULL) REACH("size_over_4g");
		if (flags & EXT2_MKJOURNAL_LAZYINIT) REACH("lazy");
		if (IN.goal == ~0ULL) REACH("midpoint_goal");
		REACH("ok");
	} else {
		CHECK(compat == IN.compat0, "error: no compat feature bit (has_journal) changes");
		CHECK(SB.s_journal_inum == IN.jinum0, "error: s_journal_inum unchanged");
		CHECK(SB.s_jnl_blocks[verif_k] == IN.jnl0[verif_k] && SB.s_jnl_blocks[15] == IN.jnl0[15] && SB.s_jnl_blocks[16] == IN.jnl0[16] &&
		      SB.s_jnl_backup_type == IN.btype0, "error: the s_jnl_blocks backup is unchanged");
		CHECK(G.n_jsb == 0 || G.n_jsb == 1, "at most one journal superblock is built");
		CHECK(G.s_jsb == 0 || G.jsb_buf == 0 || G.freed == (const void *)JSB_BUF, "error: the journal superblock buffer is released");
		if (G.s_read && !IN.r_read && IN.ino_words[7] != 0) {
			CHECK(r == EEXIST && G.n_falloc == 0 && G.n_write == 0 && G.n_io == 0, "a journal inode that already has blocks is refused untouched");
			REACH("eexist");
		}
		REACH("error");
	}
}

void h_add_journal_inode3_protocol(void)
{
	LOAD_IN();
	memset(&FS, 0, sizeof(FS));
	memset(&SB, 0, sizeof(SB));
	memset(&G, 0, sizeof(G));
	FS.magic = EXT2_ET_MAGIC_EXT2FS_FILSYS;
	FS.super = &SB;
	FS.io = &CH;
	FS.flags = IN.fsflags0 | EXT2_FLAG_EXCLUSIVE;
	FS.now = 1000;
	FS.device_name = "d";
	SB.s_feature_incompat = IN.incompat;
	SB.s_feature_compat = IN.compat0;
	SB.s_feature_ro_compat = IN.ro_compat0;
	SB.s_journal_inum = IN.jinum0;
	SB.s_jnl_backup_type = IN.btype0;
	ASSUME(IN.k < 15);
	verif_k = IN.k;
	for (unsigned int i = 0; i < 17; i++) SB.s_jnl_blocks[i] = IN.jnl0[i];
	for (unsigned int i = 0; i < 16; i++) SB.s_journal_uuid[i] = IN.uuid0[i];
	ASSUME((unsigned long long)IN.nj + IN.nfc <= 0xffffffffULL);
	/* flags as mke2fs passes them: EXT2_MKJOURNAL_NO_MNT_CHECK always (misc/mke2fs.c PRS()), LAZYINIT optional; constants per
	 * call so that the symbolic executor prunes the mounted-filesystem branch */
	if (IN.big) {
		if (IN.flags & 1) body(4096, EXT2_MKJOURNAL_NO_MNT_CHECK | EXT2_MKJOURNAL_LAZYINIT);
		else body(4096, EXT2_MKJOURNAL_NO_MNT_CHECK);
	} else {
		if (IN.flags & 1) body(1024, EXT2_MKJOURNAL_NO_MNT_CHECK | EXT2_MKJOURNAL_LAZYINIT);
		else body(1024, EXT2_MKJOURNAL_NO_MNT_CHECK);
	}
	REACH("end");
}
