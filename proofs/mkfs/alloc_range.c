/* VERIF-UNIT
{
 "name": "alloc_range",
 "props": ["C07"],
 "level": "P",
 "tier": "quick",
 "harness": "h_alloc_range",
 "replace": ["ext2fs_new_range"],
 "functions": ["lib/ext2fs/alloc.c:ext2fs_alloc_range"],
 "assumes": ["what is proved (ordering protocol, ghost monitors): ext2fs_alloc_range(fs, flags, goal, len, &ret) refuses len == 0 and unknown flags without touching anything; otherwise it asks ext2fs_new_range ONCE, on the filesystem's own bitmap (map NULL), for at least len blocks at the goal (EXT2_NEWRANGE_MIN_LENGTH always, EXT2_NEWRANGE_FIXED_GOAL iff EXT2_ALLOCRANGE_FIXED_GOAL); a shorter run is refused (EXT2_ET_BLOCK_ALLOC_FAIL) and nothing is marked; with EXT2_ALLOCRANGE_ZERO_BLOCKS exactly the len blocks at *ret are zeroed BEFORE they are marked in use, and a failed zeroing leaves them unmarked; on success exactly [*ret, *ret + len) is marked in use once (ext2fs_block_alloc_stats_range +1) - never the surplus blocks new_range may report",
             "ext2fs_new_range (same file) is replaced by a contract with an arbitrary result (run start, run length, error); its search is the residual of this group (loop over find_first_zero / find_first_set with a wrap-around: not proved); ext2fs_zero_blocks2 and ext2fs_block_alloc_stats_range (fileio/block_alloc_stats_range_*) are logging stubs"],
 "native": false
}
*/
#include "verif.h"

struct in_s {
	int flags;
	unsigned long long goal, ret0;
	unsigned int len;
	long zr;
};
struct in_s IN;
#include "verif_in.h"

unsigned long long verif_k;
static struct {
	unsigned int seq, n_nr, s_zero, n_zero, s_stats, n_stats;
	int nr_flags; unsigned long long nr_goal, nr_len; const void *nr_map;
	unsigned long long nr_pblk, nr_plen; long nr_ret;
	unsigned long long z_blk; int z_num;
	unsigned long long st_blk; unsigned int st_num; int st_inuse;
} G;

#include "lib/ext2fs/alloc.c"

errcode_t ext2fs_new_range(ext2_filsys fs, int flags, blk64_t goal, blk64_t len, ext2fs_block_bitmap map, blk64_t *pblk, blk64_t *plen)
	ASSIGNS(*pblk, *plen, G.seq, G.n_nr, G.nr_flags, G.nr_goal, G.nr_len, G.nr_map, G.nr_pblk, G.nr_plen, G.nr_ret)
	ENSURES(G.n_nr == OLD(G.n_nr) + 1 && G.seq == OLD(G.seq) + 1)
	ENSURES(G.nr_flags == flags && G.nr_goal == goal && G.nr_len == len && G.nr_map == (const void *)map)
	ENSURES(G.nr_ret == RET && (RET != 0 || (*pblk == G.nr_pblk && *plen == G.nr_plen)));

errcode_t ext2fs_zero_blocks2(ext2_filsys fs, blk64_t blk, int num, blk64_t *ret_blk, int *ret_count)
{
	G.s_zero = ++G.seq; G.n_zero++; G.z_blk = blk; G.z_num = num;
	return IN.zr;
}
void ext2fs_block_alloc_stats_range(ext2_filsys fs, blk64_t blk, blk_t num, int inuse)
{
	G.s_stats = ++G.seq; G.n_stats++; G.st_blk = blk; G.st_num = num; G.st_inuse = inuse;
}

void h_alloc_range(void)
{
	static struct struct_ext2_filsys FS;
	blk64_t ret;

	LOAD_IN();
	memset(&FS, 0, sizeof(FS));
	memset(&G, 0, sizeof(G));
	FS.magic = EXT2_ET_MAGIC_EXT2FS_FILSYS;
	ret = IN.ret0;

	errcode_t r = ext2fs_alloc_range(&FS, IN.flags, IN.goal, IN.len, &ret);

	int known = (IN.flags & ~(EXT2_ALLOCRANGE_FIXED_GOAL | EXT2_ALLOCRANGE_ZERO_BLOCKS)) == 0;
	if (IN.len == 0 || !known) {
		CHECK(r == EXT2_ET_INVALID_ARGUMENT && G.n_nr == 0 && G.n_zero == 0 && G.n_stats == 0 && ret == IN.ret0, "empty range / unknown flag: refused untouched");
		REACH("invalid");
	} else {
		CHECK(G.n_nr == 1 && G.nr_map == 0 && G.nr_goal == IN.goal && G.nr_len == IN.len, "one search on the filesystem's own bitmap for len blocks at the goal");
		CHECK((G.nr_flags & EXT2_NEWRANGE_MIN_LENGTH) && ((G.nr_flags & EXT2_NEWRANGE_FIXED_GOAL) != 0) == ((IN.flags & EXT2_ALLOCRANGE_FIXED_GOAL) != 0) &&
		      (G.nr_flags & ~(EXT2_NEWRANGE_MIN_LENGTH | EXT2_NEWRANGE_FIXED_GOAL)) == 0, "a run of at least len blocks; fixed goal iff requested");
		if (G.nr_ret) {
			CHECK(r == G.nr_ret && G.n_zero == 0 && G.n_stats == 0, "search failed: its error, nothing zeroed or marked");
			REACH("search_failed");
		} else if (G.nr_plen < IN.len) {
			CHECK(r == EXT2_ET_BLOCK_ALLOC_FAIL && G.n_zero == 0 && G.n_stats == 0, "run too short: no space, nothing zeroed or marked");
			REACH("too_short");
		} else {
			int zero = (IN.flags & EXT2_ALLOCRANGE_ZERO_BLOCKS) != 0;
			CHECK(G.n_zero == (zero ? 1u : 0u) && (!zero || (G.z_blk == G.nr_pblk && G.z_num == (int)IN.len)), "zeroing iff requested: exactly the len blocks of the run");
			if (zero && IN.zr) {
				CHECK(r == IN.zr && G.n_stats == 0, "failed zeroing: its error, nothing marked");
				REACH("zero_failed");
			} else {
				CHECK(r == 0 && ret == G.nr_pblk, "success: the start of the run is returned");
				CHECK(G.n_stats == 1 && G.st_blk == G.nr_pblk && G.st_num == IN.len && G.st_inuse == 1, "exactly [ret, ret + len) is marked in use, once");
				CHECK(!zero || G.s_zero < G.s_stats, "zeroed before marked");
				if (G.nr_plen > IN.len) REACH("surplus_not_marked");
				REACH("ok");
			}
		}
	}
	REACH("end");
}
