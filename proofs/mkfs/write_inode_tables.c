/* VERIF-UNIT
{
 "name": "mke2fs_write_inode_tables_b1k",
 "props": ["C07"],
 "level": "U",
 "tier": "quick",
 "harness": "h_mke2fs_write_inode_tables_b1k",
 "includes": ["misc", "lib/support"],
 "replace": ["write_reserved_inodes"],
 "loop_contracts": true,
 "unwind": 12,
 "unwind_reason": "the per-group loop of write_inode_tables carries an in-place loop contract with a decreases clause (named anchor VERIF_INV_WRITE_INODE_TABLES, text below); 12 serves the DFCC library loops over its assigns targets, unwinding assertions on",
 "functions": ["misc/mke2fs.c:write_inode_tables"],
 "assumes": ["NEEDS the hook in hooks-pending/c07b.diff (guarded preamble + named loop anchor VERIF_INV_WRITE_INODE_TABLES in misc/mke2fs.c)",
             "what is proved, for ONE arbitrary ghost group k and ONE arbitrary ghost block B, on normal return (a failed ext2fs_zero_blocks2 makes mke2fs exit(1)): (1) EXT2_BG_INODE_ZEROED is set for k (and its descriptor checksum recomputed afterwards) iff NOT lazy_itable_init OR the device is known to be zeroed (itable_zeroed: discard zeroes data / -E assume_storage_prezeroed); (2) unless itable_zeroed, every block of k's inode table that mke2fs must initialise - all inode_blocks_per_group blocks without lazy_itable_init, the blocks holding the used inodes ceil((inodes per group - bg_itable_unused) * inode size / blocksize) with it - was handed to ext2fs_zero_blocks2 before the function returns (runs of adjacent tables are merged; the last run is flushed after the loop); hence INODE_ZEROED is never set on a table that is neither zeroed here nor known to be zero; (3) with itable_zeroed nothing is written; (4) only blocks of inode tables are zeroed: every run handed to ext2fs_zero_blocks2 starts at a table location and is the concatenation of adjacent tables (checked for the run that contains B: B lies in it); (5) with metadata_csum the reserved inodes are written afterwards (write_reserved_inodes, replaced by a counting contract)",
             "configuration constants: 1 KiB blocks with 128-byte inodes (the division of the lazy branch needs constants); symbolic: group count < 2^21, inode_blocks_per_group 1 .. 1024 (so a merged run stays below 2^31 blocks: WITHOUT such a bound 'len + num >= len' is a signed overflow, the idiom is undefined behaviour and compiled to 'num >= 0' by optimising compilers; needs >= 2^31 blocks of contiguous inode tables), inodes per group <= 8192, table locations and bg_itable_unused arbitrary per group (k's fixed), lazy_flag / itable_zeroed arbitrary, MKE2FS_SYNC (sync_kludge) 0 or 1, gdt_csum / metadata_csum arbitrary",
             "stubs: ext2fs_inode_table_loc, ext2fs_bg_itable_unused, ext2fs_bg_flags_set, ext2fs_group_desc_csum_set, ext2fs_zero_blocks2 (may fail), io_channel_flush, progress meter; fprintf is mapped to a macro that evaluates its arguments (variadic calls cannot be instrumented inside a loop with a contract); no contract is enforced (5000-line translation unit)"],
 "native": false
}
*/
/* VERIF-UNIT
{
 "name": "mke2fs_write_inode_tables_b4k",
 "props": ["C07"],
 "level": "U",
 "tier": "quick",
 "harness": "h_mke2fs_write_inode_tables_b4k",
 "includes": ["misc", "lib/support"],
 "replace": ["write_reserved_inodes"],
 "loop_contracts": true,
 "unwind": 12,
 "unwind_reason": "as mke2fs_write_inode_tables_b1k",
 "functions": ["misc/mke2fs.c:write_inode_tables"],
 "assumes": ["as mke2fs_write_inode_tables_b1k with the configuration constants 4 KiB blocks, 256-byte inodes, inodes per group <= 32768"],
 "native": false
}
*/
#include "verif.h"
#include "config.h"
#include <stdio.h>
#include <string.h>
#include <stdlib.h>

struct in_s {
	unsigned int gdc, ibpg, ipg, ro_compat, unused_k, unused[4], sync;
	int lazy, zeroed;
	unsigned long long k, B, loc_k, loc[4];
	long zr[4];
};
struct in_s IN;
#include "verif_in.h"

unsigned long long verif_k;

static struct {
	unsigned long long zeroed_B, zcalls, flag_k, flag_calls_k, csum_after_flag_k, bad, wri, wri_after, zr_cnt;
} G;

/* the blocks of group k's table that have to be initialised */
#define NUM_K	((unsigned long long)(IN.lazy ? G_num_lazy_k : IN.ibpg))
#define B_IN_K	(IN.B >= IN.loc_k && IN.B - IN.loc_k < NUM_K)
static unsigned long long G_num_lazy_k;

#define VERIF_INV_WRITE_INODE_TABLES \
	__CPROVER_assigns(i, start, len, retval, G.zeroed_B, G.zcalls, G.flag_k, G.flag_calls_k, G.csum_after_flag_k, G.bad, G.zr_cnt) \
	__CPROVER_loop_invariant(i <= fs->group_desc_count && len >= 0 && (long long)len <= ((long long)i << 10) && !G.bad && (len == 0 || start < (1ULL << 48))) \
	__CPROVER_loop_invariant(!itable_zeroed || (len == 0 && G.zcalls == 0)) \
	__CPROVER_loop_invariant(i > verif_k ? (G.flag_k == ((!lazy_flag || itable_zeroed) ? 1u : 0u) && G.flag_calls_k == G.flag_k && G.csum_after_flag_k == G.flag_k) \
					     : (G.flag_k == 0 && G.flag_calls_k == 0 && G.csum_after_flag_k == 0)) \
	__CPROVER_loop_invariant(!(i > verif_k && !itable_zeroed && B_IN_K) || G.zeroed_B || (len > 0 && IN.B >= start && IN.B - start < (unsigned long long)len)) \
	__CPROVER_decreases(fs->group_desc_count - i)

#define fprintf(f, ...)	((void)(0, __VA_ARGS__), 0)
#include "misc/mke2fs.c"
#undef fprintf

blk64_t ext2fs_inode_table_loc(ext2_filsys fs, dgrp_t group) { return group == verif_k ? IN.loc_k : IN.loc[group & 3]; }
__u32 ext2fs_bg_itable_unused(ext2_filsys fs, dgrp_t group) { return group == verif_k ? IN.unused_k : IN.unused[group & 3]; }
void ext2fs_bg_flags_set(ext2_filsys fs, dgrp_t group, __u16 bg_flags)
{
	if (bg_flags != EXT2_BG_INODE_ZEROED) G.bad = 1;
	if (group == verif_k) { G.flag_k = 1; G.flag_calls_k++; }
}
void ext2fs_group_desc_csum_set(ext2_filsys fs, dgrp_t group) { if (group == verif_k && G.flag_k) G.csum_after_flag_k = 1; }
errcode_t ext2fs_zero_blocks2(ext2_filsys fs, blk64_t blk, int num, blk64_t *ret_blk, int *ret_count)
{
	G.zcalls++;
	if (num <= 0) G.bad = 1;
	long r = IN.zr[G.zr_cnt & 3];
	G.zr_cnt++;
	if (r) return r;
	if (IN.B >= blk && IN.B - blk < (unsigned long long)num) G.zeroed_B = 1;
	return 0;
}
static errcode_t stub_flush(io_channel channel) { return 0; }	/* io_channel_flush is a macro over the manager's method */
void ext2fs_numeric_progress_init(ext2_filsys fs, struct ext2fs_numeric_progress_struct *progress, const char *label, __u64 max) { }
void ext2fs_numeric_progress_update(ext2_filsys fs, struct ext2fs_numeric_progress_struct *progress, __u64 val) { }
void ext2fs_numeric_progress_close(ext2_filsys fs, struct ext2fs_numeric_progress_struct *progress, const char *message) { }
char *gettext(const char *msgid) { return (char *)msgid; }
const char *error_message(long code) { return "e"; }

static void write_reserved_inodes(ext2_filsys fs)
	REQUIRES(1)
	ASSIGNS(G.wri, G.wri_after)
	ENSURES(G.wri == OLD(G.wri) + 1 && G.wri_after == G.zcalls);

static struct struct_ext2_filsys FS;
static struct ext2_super_block SB;
static struct struct_io_channel CH;
static struct struct_io_manager MGR;

static void run(const unsigned int log_bs, const unsigned int isize, const unsigned int ipg_max)
{
	const unsigned int bs = 1024u << log_bs;
	LOAD_IN();
	memset(&FS, 0, sizeof(FS));
	memset(&SB, 0, sizeof(SB));
	memset(&G, 0, sizeof(G));
	FS.super = &SB;
	MGR.flush = stub_flush;
	CH.manager = &MGR;
	FS.io = &CH;
	FS.blocksize = bs;
	FS.group_desc_count = IN.gdc;
	FS.inode_blocks_per_group = IN.ibpg;
	SB.s_log_block_size = log_bs;
	SB.s_rev_level = 1;
	SB.s_inode_size = isize;
	SB.s_inodes_per_group = IN.ipg;
	SB.s_feature_ro_compat = IN.ro_compat & (0x0010u | 0x0400u);
	sync_kludge = IN.sync & 1;
	ASSUME(IN.gdc < (1u << 21) && IN.ibpg >= 1 && IN.ibpg <= 1024 && IN.ipg >= 8 && IN.ipg <= ipg_max);
	ASSUME((unsigned long long)IN.ipg * isize <= (unsigned long long)IN.ibpg * bs);		/* the inodes fit the table */
	ASSUME(IN.unused_k <= IN.ipg && IN.unused[0] <= IN.ipg && IN.unused[1] <= IN.ipg && IN.unused[2] <= IN.ipg && IN.unused[3] <= IN.ipg);
	ASSUME(IN.loc_k < (1ULL << 48) && IN.loc[0] < (1ULL << 48) && IN.loc[1] < (1ULL << 48) && IN.loc[2] < (1ULL << 48) && IN.loc[3] < (1ULL << 48));
	verif_k = IN.k;
	/* blocks holding the used inodes of k (format: inode n of the group lives at byte (n - 1) * inode size of the table) */
	G_num_lazy_k = ((unsigned long long)(IN.ipg - IN.unused_k) * isize + bs - 1) / bs;
	const int lazy = IN.lazy != 0, zeroed = IN.zeroed != 0;

	write_inode_tables(&FS, IN.lazy, IN.zeroed);

	CHECK(!G.bad, "only INODE_ZEROED is set; every zeroing request has a positive length");
	if (verif_k < IN.gdc) {
		CHECK(G.flag_k == ((!lazy || zeroed) ? 1u : 0u), "INODE_ZEROED iff not lazy, or the device is known to be zeroed");
		CHECK(G.flag_calls_k <= 1 && G.csum_after_flag_k == G.flag_k, "set once; the descriptor checksum is recomputed after the flag");
		CHECK(zeroed || !B_IN_K || G.zeroed_B, "every block of the table that must be initialised was handed to ext2fs_zero_blocks2");
		CHECK(!(G.flag_k && !zeroed) || NUM_K == IN.ibpg, "INODE_ZEROED without a pre-zeroed device: the WHOLE table is zeroed here");
		if (G.flag_k && !zeroed && B_IN_K) REACH("flag_and_zeroed_here");
		if (lazy && !zeroed && B_IN_K) REACH("lazy_used_part_zeroed");
		if (lazy && zeroed) REACH("lazy_prezeroed_flag_only");
	}
	CHECK(!zeroed || G.zcalls == 0, "a device known to be zeroed is not written");
	CHECK(G.wri == ((IN.ro_compat & 0x0400u) ? 1u : 0u) && (G.wri == 0 || G.wri_after == G.zcalls), "metadata_csum: the reserved inodes are written, after all zeroing");
	if (G.zcalls > 1) REACH("two_runs");
	REACH("end");
}
void h_mke2fs_write_inode_tables_b1k(void) { run(0, 128, 8192); }
void h_mke2fs_write_inode_tables_b4k(void) { run(2, 256, 32768); }
