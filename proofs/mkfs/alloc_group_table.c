/* VERIF-UNIT
{
 "name": "allocate_group_table_placement",
 "props": [
  "C07"
 ],
 "level": "U",
 "tier": "quick",
 "harness": "h_allocate_group_table_placement",
 "replace": [
  "flexbg_offset"
 ],
 "loop_contracts": true,
 "unwind": 8,
 "unwind_reason": "the only loop of ext2fs_allocate_group_table (charging a flex_bg inode table group by group; subject of geometry/allocate_group_table_charge) is cut by the named anchor VERIF_INV_ALLOCATE_GROUP_TABLE_ITABLE with a trivial invariant: nothing it computes is used afterwards; 8 serves the DFCC library loops, unwinding assertions on",
 "functions": [
  "lib/ext2fs/alloc_tables.c:ext2fs_allocate_group_table"
 ],
 "assumes": [
  "case 1 of 2: flexible block groups NOT in use (FLEX_BG feature off, or s_log_groups_per_flex == 0 with the feature on)",
  "what is proved, for ONE arbitrary ghost block K with its 'allocated in bmap' bit: (1) return 0 => the group's block bitmap, inode bitmap and inode table all have a non-zero location; a table that had a location on entry keeps it (no search, no mark), a missing one gets its location set exactly once; (2) every mark applied to bmap is exactly the run that ext2fs_get_free_blocks2 reported free in the immediately preceding successful query, and the location stored is the start of that run; (3) K is marked at most once in the call and only if it was clear on entry: the tables placed in one call overlap neither each other nor anything allocated before; K is marked iff it lies in one of the tables placed by this call; (4) every table placed lies inside the filesystem; WITHOUT flex_bg (feature off or s_log_groups_per_flex == 0) inside the group's own block range, the inode table with ALL its blocks (fix of findings/C07_itable_crosses_group); (5) the error returned is the allocator's",
  "ext2fs_get_free_blocks2 is a STUB implementing the contract proved by get_free_blocks2_window / get_free_blocks2_wrap (specs/mkfs_alloc.h: eligible candidate of the linear or cyclic window; the run contains no block allocated at that moment) over the ghost block K, whose bit is SET by the mark stubs - so a later query cannot return a run over a table placed earlier in the same call; block 0 is allocated (boot block / primary superblock, marked by ext2fs_reserve_super_and_bgd before ext2fs_allocate_tables)",
  "flexbg_offset is replaced by an arbitrary-result contract (it only chooses where the search starts: units flexbg_offset_*); descriptor accessors record the group's three locations; group accounting (free counts, flags, checksums: geometry/allocate_group_table_charge) is stubbed away; group geometry is abstract: the group's own range [GF, GL] and the last block FL of its flex group with first data block <= GF < GL <= FL < blocks_count <= 2^48",
  "no bigalloc (bitmap granularity 0), fs->stride == 0 (the RAID stride start offset is a symbolic 64-bit modulo: unit allocate_group_table_stride), s_log_groups_per_flex <= 30, group < group_desc_count, inode_blocks_per_group in 1 .. 2^19; bmap may be NULL (fs->block_map is used); no contract is enforced (harness CHECKs on the real function)"
 ],
 "native": false
}
*/
/* VERIF-UNIT
{
 "name": "allocate_group_table_placement_flex",
 "props": [
  "C07"
 ],
 "level": "U",
 "tier": "quick",
 "harness": "h_allocate_group_table_placement_flex",
 "replace": [
  "flexbg_offset"
 ],
 "loop_contracts": true,
 "unwind": 8,
 "unwind_reason": "the only loop of ext2fs_allocate_group_table (charging a flex_bg inode table group by group; subject of geometry/allocate_group_table_charge) is cut by the named anchor VERIF_INV_ALLOCATE_GROUP_TABLE_ITABLE with a trivial invariant: nothing it computes is used afterwards; 8 serves the DFCC library loops, unwinding assertions on",
 "functions": [
  "lib/ext2fs/alloc_tables.c:ext2fs_allocate_group_table"
 ],
 "assumes": [
  "case 2 of 2: flexible block groups in use (FLEX_BG feature and 1 <= s_log_groups_per_flex <= 30); other text as allocate_group_table_placement",
  "ext2fs_get_free_blocks2 is a STUB implementing the contract proved by get_free_blocks2_window / get_free_blocks2_wrap (specs/mkfs_alloc.h: eligible candidate of the linear or cyclic window; the run contains no block allocated at that moment) over the ghost block K, whose bit is SET by the mark stubs - so a later query cannot return a run over a table placed earlier in the same call; block 0 is allocated (boot block / primary superblock, marked by ext2fs_reserve_super_and_bgd before ext2fs_allocate_tables)",
  "flexbg_offset is replaced by an arbitrary-result contract (it only chooses where the search starts: units flexbg_offset_*); descriptor accessors record the group's three locations; group accounting (free counts, flags, checksums: geometry/allocate_group_table_charge) is stubbed away; group geometry is abstract: the group's own range [GF, GL] and the last block FL of its flex group with first data block <= GF < GL <= FL < blocks_count <= 2^48",
  "no bigalloc (bitmap granularity 0), fs->stride == 0 (the RAID stride start offset is a symbolic 64-bit modulo: unit allocate_group_table_stride), s_log_groups_per_flex <= 30, group < group_desc_count, inode_blocks_per_group in 1 .. 2^19; bmap may be NULL (fs->block_map is used); no contract is enforced (harness CHECKs on the real function)"
 ],
 "native": false
}
*/
/* VERIF-UNIT
{
 "name": "allocate_group_table_stride",
 "props": [
  "C07"
 ],
 "level": "U",
 "tier": "quick",
 "harness": "h_allocate_group_table_stride",
 "replace": [
  "flexbg_offset"
 ],
 "loop_contracts": true,
 "unwind": 8,
 "unwind_reason": "the only loop of ext2fs_allocate_group_table (charging a flex_bg inode table group by group; subject of geometry/allocate_group_table_charge) is cut by the named anchor VERIF_INV_ALLOCATE_GROUP_TABLE_ITABLE with a trivial invariant: nothing it computes is used afterwards; 8 serves the DFCC library loops, unwinding assertions on",
 "functions": [
  "lib/ext2fs/alloc_tables.c:ext2fs_allocate_group_table"
 ],
 "assumes": [
  "case 1b: as allocate_group_table_placement (no flexible block groups) with fs->stride != 0 (mke2fs -E stride=): the bitmaps' search starts at first_free + inode_blocks_per_group + (stride * group) % (last_blk - (first_free + inode_blocks_per_group) + 1); all claims of allocate_group_table_placement hold, stride < 2^32 as stored (fs->stride is an int, s_raid_stride 16 bit)",
  "PRECONDITION on the bitmap (checked nowhere in the code): the first free block of the group lies at least inode_blocks_per_group blocks before the group's last block. WITHOUT it the divisor last_blk - start_blk + 1 is ZERO when first_free + inode_blocks_per_group == last_blk + 1 (division by zero: SIGFPE in mke2fs; reachable with a bad-block list that leaves exactly inode_blocks_per_group free blocks at the end of a group, see findings/C07_mk_stride_div_zero and the observation unit allocate_group_table_stride_div0) or wraps when it is larger",
  "what is proved, for ONE arbitrary ghost block K with its 'allocated in bmap' bit: (1) return 0 => the group's block bitmap, inode bitmap and inode table all have a non-zero location; a table that had a location on entry keeps it (no search, no mark), a missing one gets its location set exactly once; (2) every mark applied to bmap is exactly the run that ext2fs_get_free_blocks2 reported free in the immediately preceding successful query, and the location stored is the start of that run; (3) K is marked at most once in the call and only if it was clear on entry: the tables placed in one call overlap neither each other nor anything allocated before; K is marked iff it lies in one of the tables placed by this call; (4) every table placed lies inside the filesystem; WITHOUT flex_bg (feature off or s_log_groups_per_flex == 0) inside the group's own block range, the inode table with ALL its blocks (fix of findings/C07_itable_crosses_group); (5) the error returned is the allocator's",
  "ext2fs_get_free_blocks2 is a STUB implementing the contract proved by get_free_blocks2_window / get_free_blocks2_wrap (specs/mkfs_alloc.h: eligible candidate of the linear or cyclic window; the run contains no block allocated at that moment) over the ghost block K, whose bit is SET by the mark stubs - so a later query cannot return a run over a table placed earlier in the same call; block 0 is allocated (boot block / primary superblock, marked by ext2fs_reserve_super_and_bgd before ext2fs_allocate_tables)",
  "flexbg_offset is replaced by an arbitrary-result contract (it only chooses where the search starts: units flexbg_offset_*); descriptor accessors record the group's three locations; group accounting (free counts, flags, checksums: geometry/allocate_group_table_charge) is stubbed away; group geometry is abstract: the group's own range [GF, GL] and the last block FL of its flex group with first data block <= GF < GL <= FL < blocks_count <= 2^48",
  "no bigalloc (bitmap granularity 0), fs->stride == 0 (the RAID stride start offset is a symbolic 64-bit modulo: unit allocate_group_table_stride), s_log_groups_per_flex <= 30, group < group_desc_count, inode_blocks_per_group in 1 .. 2^19; bmap may be NULL (fs->block_map is used); no contract is enforced (harness CHECKs on the real function)"
 ],
 "native": false,
 "backend": "cadical"
}
*/
/* VERIF-UNIT
{
 "name": "allocate_group_table_stride_div0",
 "props": [
  "C07"
 ],
 "level": "U",
 "tier": "obs",
 "harness": "h_allocate_group_table_stride_div0",
 "replace": [
  "flexbg_offset"
 ],
 "loop_contracts": true,
 "unwind": 8,
 "unwind_reason": "the only loop of ext2fs_allocate_group_table (charging a flex_bg inode table group by group; subject of geometry/allocate_group_table_charge) is cut by the named anchor VERIF_INV_ALLOCATE_GROUP_TABLE_ITABLE with a trivial invariant: nothing it computes is used afterwards; 8 serves the DFCC library loops, unwinding assertions on",
 "functions": [
  "lib/ext2fs/alloc_tables.c:ext2fs_allocate_group_table"
 ],
 "assumes": [
  "as allocate_group_table_stride WITHOUT the precondition on the first free block. EXPECTED TO FAIL: division by zero in '(fs->stride * group) % (last_blk - start_blk + 1)' (lib/ext2fs/alloc_tables.c, RAID stride placement) when the group's first free block lies exactly inode_blocks_per_group blocks before the group's end; findings/C07_mk_stride_div_zero"
 ],
 "native": false,
 "backend": "cadical"
}
*/
#include "verif.h"
#include "mkfs_alloc.h"

struct in_s {
	unsigned char flex_bg, log_flex, null_bmap, kalloc;
	unsigned int group, gdc, ibpg, fdb, stride;
	unsigned long long bc, GF, GL, FL, K;
	unsigned long long loc0[3], prev_loc[3];
	unsigned long long other_last[4];
	unsigned int grp[4], other_free;
};
struct in_s IN;
#include "verif_in.h"

unsigned long long verif_k;

static struct {
	unsigned int calls;
	unsigned long long ok_blk, ok_n;	/* the run reported free by the most recent successful query */
	unsigned int ok_valid;			/* ... and not yet consumed by a mark */
	unsigned int ok_kin;			/* ... contains the ghost block K */
	unsigned int kalloc, kmarks, bad_mark, bad_map, bad_double, marks;
	unsigned long long last_mark_blk;
	unsigned long long loc[3];
	unsigned int loc_set[3], bad_loc;
	unsigned int outside_fs, outside_group;
	long last_fail;
	int flex, stride;
} G;
static int BMAP_OBJ;
/* answers of the allocator stub: a fresh arbitrary value per call (the number of calls depends on the path) */
long nondet_long(void);
unsigned long long nondet_ull(void);

/* the accounting loop is not the subject here: nothing it writes is read afterwards */
#define VERIF_INV_ALLOCATE_GROUP_TABLE_ITABLE \
	__CPROVER_assigns(num, blk, last_blk) \
	__CPROVER_loop_invariant(1)

#include "lib/ext2fs/alloc_tables.c"

#define BC	(IN.bc)
#define FDB	((unsigned long long)IN.fdb)

blk64_t ext2fs_blocks_count(struct ext2_super_block *super) { return BC; }
blk64_t ext2fs_group_first_block2(ext2_filsys fs, dgrp_t group) { return group == IN.group ? IN.GF : FDB; }
blk64_t ext2fs_group_last_block2(ext2_filsys fs, dgrp_t group)
{
	if (group == IN.group) return IN.GL;
	return IN.FL;		/* only the flex group's last group is asked for besides (checked by flexbg_offset_*) */
}
dgrp_t ext2fs_group_of_blk2(ext2_filsys fs, blk64_t blk) { return IN.grp[blk & 3]; }

errcode_t ext2fs_get_free_blocks2(ext2_filsys fs, blk64_t start, blk64_t finish, int num, ext2fs_block_bitmap map, blk64_t *ret)
{
	unsigned long long n = MKFS_GFB_N(num), b0 = MKFS_GFB_B0(start, FDB, 1), f = MKFS_GFB_F(start, finish, 1);
	int linear = MKFS_GFB_LINEAR(start, f);

	G.calls++;
	if ((void *)map != (void *)&BMAP_OBJ || num < 1) G.bad_map = 1;
	long fail = nondet_long();
	if (fail) {
		G.last_fail = fail;
		return fail;
	}
	unsigned long long b = nondet_ull();
	ASSUME(MKFS_GFB_ELIGIBLE(b, n, FDB, BC, 1));
	/* the window matters only for the claim "inside its own group" (no flex_bg); the flex unit uses less of the contract */
	if (!G.flex)
		ASSUME(MKFS_GFB_CANDIDATE(b, linear, b0, f));
	ASSUME(b != 0);
	/* RAID stride: the probe for the group's first free block finds it at least one inode table before the group's end */
	if (G.stride == 1 && G.calls == 1)
		ASSUME(b + IN.ibpg <= IN.GL);
	G.ok_kin = IN.K >= b && IN.K - b < n;		/* does the run contain the ghost block */
	ASSUME(MKFS_IMPL(G.ok_kin, !G.kalloc));
	G.ok_blk = b; G.ok_n = n; G.ok_valid = 1;
	*ret = b;
	return 0;
}

static void mark(unsigned long long blk, unsigned long long n)
{
	if (!G.ok_valid || blk != G.ok_blk || n != G.ok_n)
		G.bad_mark = 1;
	G.ok_valid = 0;
	G.last_mark_blk = blk;
	G.marks++;
	/* the run marked IS the run just reported (bad_mark otherwise), so "contains K" is the recorded answer */
	if (G.ok_kin) {
		if (G.kalloc) G.bad_double = 1;
		G.kalloc = 1;
		G.kmarks++;
	}
	if (blk < FDB || blk >= BC || n > BC - blk) G.outside_fs = 1;
	if (blk < IN.GF || blk > IN.GL || n > IN.GL - blk + 1) G.outside_group = 1;
}
int ext2fs_mark_generic_bmap(ext2fs_generic_bitmap bmap, __u64 arg)
{
	if ((void *)bmap != (void *)&BMAP_OBJ) G.bad_map = 1;
	mark(arg, 1);
	return 0;
}
void ext2fs_mark_block_bitmap_range2(ext2fs_block_bitmap bmap, blk64_t block, unsigned int num)
{
	if ((void *)bmap != (void *)&BMAP_OBJ) G.bad_map = 1;
	mark(block, num);
}

blk64_t ext2fs_block_bitmap_loc(ext2_filsys fs, dgrp_t group) { return group == IN.group ? G.loc[0] : IN.prev_loc[0]; }
blk64_t ext2fs_inode_bitmap_loc(ext2_filsys fs, dgrp_t group) { return group == IN.group ? G.loc[1] : IN.prev_loc[1]; }
blk64_t ext2fs_inode_table_loc(ext2_filsys fs, dgrp_t group) { return group == IN.group ? G.loc[2] : IN.prev_loc[2]; }
static void loc_set(unsigned int t, dgrp_t group, blk64_t blk)
{
	if (group != IN.group || G.marks == 0 || blk != G.last_mark_blk) G.bad_loc = 1;
	G.loc[t] = blk;
	G.loc_set[t]++;
}
void ext2fs_block_bitmap_loc_set(ext2_filsys fs, dgrp_t group, blk64_t blk) { loc_set(0, group, blk); }
void ext2fs_inode_bitmap_loc_set(ext2_filsys fs, dgrp_t group, blk64_t blk) { loc_set(1, group, blk); }
void ext2fs_inode_table_loc_set(ext2_filsys fs, dgrp_t group, blk64_t blk) { loc_set(2, group, blk); }
__u32 ext2fs_bg_free_blocks_count(ext2_filsys fs, dgrp_t group) { return IN.other_free; }
void ext2fs_bg_free_blocks_count_set(ext2_filsys fs, dgrp_t group, __u32 n) { }
void ext2fs_free_blocks_count_add(struct ext2_super_block *super, __s64 blk) { }
void ext2fs_bg_flags_clear(ext2_filsys fs, dgrp_t group, __u16 bg_flags) { }
void ext2fs_group_desc_csum_set(ext2_filsys fs, dgrp_t group) { }

static blk64_t flexbg_offset(ext2_filsys fs, dgrp_t group, blk64_t start_blk, ext2fs_block_bitmap bmap,
			     int rem_grp, int elem_size)
	REQUIRES(1)
	ENSURES(1)
	ASSIGNS();

#define INRUN(k, blk, n) ((k) >= (blk) && (k) - (blk) < (n))

static void run(int want_flex, int want_stride)
{
	static struct struct_ext2_filsys FS;
	static struct ext2_super_block SB;

	LOAD_IN();
	memset(&FS, 0, sizeof(FS));
	memset(&SB, 0, sizeof(SB));
	memset(&G, 0, sizeof(G));
	FS.magic = EXT2_ET_MAGIC_EXT2FS_FILSYS;
	FS.super = &SB;
	FS.group_desc_count = IN.gdc;
	FS.inode_blocks_per_group = IN.ibpg;
	FS.stride = want_stride ? (int)IN.stride : 0;
	ASSUME(!want_stride || IN.stride != 0);
	G.stride = want_stride;
	FS.cluster_ratio_bits = 0;
	FS.block_map = IN.null_bmap ? (ext2fs_block_bitmap)&BMAP_OBJ : 0;
	SB.s_feature_incompat = EXT2_FEATURE_INCOMPAT_FILETYPE | (IN.flex_bg ? EXT4_FEATURE_INCOMPAT_FLEX_BG : 0);
	SB.s_log_groups_per_flex = IN.log_flex;
	SB.s_first_data_block = IN.fdb;
	ASSUME(IN.log_flex <= 30 && IN.group < IN.gdc && IN.ibpg >= 1 && IN.ibpg <= (1u << 19));
	ASSUME(IN.fdb <= 1 && FDB <= IN.GF && IN.GF < IN.GL && IN.GL <= IN.FL && IN.FL < BC && BC <= (1ULL << 48));
	ASSUME(IN.prev_loc[0] < BC && IN.prev_loc[1] < BC && IN.prev_loc[2] < BC);
	G.kalloc = IN.kalloc & 1;
	if (IN.K == 0) G.kalloc = 1;
	unsigned int kalloc0 = G.kalloc;
	G.loc[0] = IN.loc0[0]; G.loc[1] = IN.loc0[1]; G.loc[2] = IN.loc0[2];
	verif_k = IN.K;
	int flex = IN.flex_bg && IN.log_flex != 0;	/* the format's "flexible block groups in use" */
	ASSUME(flex == want_flex);
	G.flex = want_flex;

	errcode_t r = 0;
	ext2fs_block_bitmap arg = IN.null_bmap ? 0 : (ext2fs_block_bitmap)&BMAP_OBJ;
	if (!want_flex)
		r = ext2fs_allocate_group_table(&FS, IN.group, arg);
	else
		r = ext2fs_allocate_group_table(&FS, IN.group, arg);

	unsigned int missing = (IN.loc0[0] == 0) + (IN.loc0[1] == 0) + (IN.loc0[2] == 0);
	CHECK(!G.bad_map, "only the requested map is searched and marked");
	CHECK(!G.bad_mark, "every mark is exactly the run reported free by the immediately preceding successful search");
	CHECK(!G.bad_double, "no allocated block is marked again");
	CHECK(!G.bad_loc, "every location stored is the start of the run just marked, for the requested group");
	CHECK(G.kmarks <= 1 && MKFS_IMPL(G.kmarks == 1, !kalloc0), "a block is handed out at most once and only if it was free on entry");
	CHECK(!G.outside_fs, "every table placed lies inside the filesystem");
	CHECK(flex || !G.outside_group, "without flexible block groups every table lies completely inside its own group");
	CHECK(G.marks <= missing, "no more tables are placed than are missing");
	for (unsigned int t = 0; t < 3; t++) {
		CHECK(IN.loc0[t] == 0 || (G.loc[t] == IN.loc0[t] && G.loc_set[t] == 0), "a table that has a location keeps it");
		CHECK(G.loc_set[t] <= 1, "a location is set at most once");
	}
	if (r == 0) {
		CHECK(G.loc[0] != 0 && G.loc[1] != 0 && G.loc[2] != 0, "success: all three tables have a location");
		CHECK(G.marks == missing, "success: exactly the missing tables were placed");
		unsigned int in_new = 0;
		if (IN.loc0[0] == 0 && INRUN(IN.K, G.loc[0], 1)) in_new++;
		if (IN.loc0[1] == 0 && INRUN(IN.K, G.loc[1], 1)) in_new++;
		if (IN.loc0[2] == 0 && INRUN(IN.K, G.loc[2], IN.ibpg)) in_new++;
		CHECK(in_new == G.kmarks, "success: a block was marked iff it lies in exactly one of the tables placed by this call (no overlap)");
		if (missing == 3) REACH("all_three");
		if (G.kmarks == 1 && IN.K == G.loc[2] + IN.ibpg - 1 && IN.ibpg > 1) REACH("k_is_last_itable_block");
		if (missing == 0) REACH("nothing_to_do");
	} else {
		CHECK(G.calls >= 1 && G.calls <= 8 && r == G.last_fail || r == EXT2_ET_BLOCK_ALLOC_FAIL, "the error is the one of the last search (or 'no space' for an inode table that would leave its group)");
		REACH("error");
	}
	REACH("end");
}

void h_allocate_group_table_placement(void) { run(0, 0); }
void h_allocate_group_table_placement_flex(void) { run(1, 0); }
void h_allocate_group_table_stride(void) { run(0, 1); }
void h_allocate_group_table_stride_div0(void) { run(0, 2); }
