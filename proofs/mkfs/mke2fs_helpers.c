/* VERIF-UNIT
{
 "name": "mke2fs_create_lost_and_found",
 "props": ["C07"],
 "level": "U/k",
 "tier": "quick",
 "harness": "h_mke2fs_create_lost_and_found",
 "includes": ["misc", "lib/support"],
 "unwind": 13,
 "unwind_reason": "the expansion loop of create_lost_and_found runs i = 1 .. EXT2_NDIR_BLOCKS - 1 = 11 (a constant of the format: 12 direct blocks); strlen runs on the 10-character name; unwinding assertions on",
 "functions": ["misc/mke2fs.c:create_lost_and_found"],
 "assumes": ["what is proved: lost+found is created by ONE ext2fs_mkdir(fs, EXT2_ROOT_INO, 0, \"lost+found\") under umask 077 (mode 0700), looked up by that name in the root directory, and expanded (ext2fs_expand_dir on the inode the lookup returned, one block per call) until it has max(2, ceil(16 KiB / blocksize)) blocks but never more than the 12 direct blocks: 12 blocks for 1 KiB blocks (12 KiB - the documented limit of the direct blocks), 8 for 2 KiB, 4 for 4 KiB, 2 for 8 .. 64 KiB; the steps happen in that order; no expansion happens before the lookup succeeded",
             "block size: every power of two 1024 .. 65536 (symbolic); ext2fs_mkdir / ext2fs_lookup / ext2fs_expand_dir are stubs that log; their failure makes mke2fs exit(1) (com_err + exit: paths end there), so only the success path reaches the checks; no contract is enforced (5000-line translation unit)"],
 "native": false
}
*/
/* VERIF-UNIT
{
 "name": "mke2fs_reserve_inodes",
 "props": ["C07"],
 "level": "U/k",
 "tier": "quick",
 "harness": "h_mke2fs_reserve_inodes",
 "includes": ["misc", "lib/support"],
 "unwind": 64,
 "unwind_reason": "reserve_inodes loops over the reserved inodes 3 .. first_ino - 1; the harness caps the first non-reserved inode at 64 (11 in every filesystem mke2fs creates: ext2fs_initialize sets s_first_ino = EXT2_GOOD_OLD_FIRST_INO, mke2fs has no option to change it); unwinding assertions on",
 "functions": ["misc/mke2fs.c:reserve_inodes"],
 "assumes": ["what is proved, for ONE arbitrary ghost inode K: ext2fs_inode_alloc_stats2(fs, K, +1, 0) is called exactly once iff EXT2_ROOT_INO < K < first non-reserved inode (11 for a revision-0 superblock, s_first_ino otherwise), in ascending order, never for another inode, never as a directory; afterwards the inode bitmap is marked dirty. (Inodes 1 and 2 are taken by create_bad_block_inode and create_root_dir.)",
             "first non-reserved inode <= 64; ext2fs_inode_alloc_stats2 is a stub that logs (its effect on bitmap and counters: fileio/inode_alloc_stats2_nonzero)"],
 "native": false
}
*/
#include "verif.h"

struct in_s {
	unsigned int log_bs, lookup_ino, first_ino, rev;
	int flags0;
	long r_mkdir, r_lookup, r_expand[12];
	unsigned long long k;
};
struct in_s IN;
#include "verif_in.h"

unsigned long long verif_k;

static struct {
	unsigned int seq, s_mkdir, s_lookup, n_mkdir, n_lookup, n_expand, bad;
	unsigned int mk_parent, mk_inum, mk_umask, mk_name_ok, lk_dir, lk_len, lk_name_ok, first_expand_seq;
	unsigned int n_stats, k_stats, last_ino;
} G;

#include "misc/mke2fs.c"

static int name_is_lpf(const char *n) { return n && n[0] == 'l' && n[1] == 'o' && n[4] == '+' && n[9] == 'd' && n[10] == 0; }

errcode_t ext2fs_mkdir(ext2_filsys fs, ext2_ino_t parent, ext2_ino_t inum, const char *name)
{
	G.s_mkdir = ++G.seq; G.n_mkdir++;
	G.mk_parent = parent; G.mk_inum = inum; G.mk_umask = fs->umask; G.mk_name_ok = name_is_lpf(name);
	return IN.r_mkdir;
}
errcode_t ext2fs_lookup(ext2_filsys fs, ext2_ino_t dir, const char *name, int namelen, char *buf, ext2_ino_t *inode)
{
	G.s_lookup = ++G.seq; G.n_lookup++;
	G.lk_dir = dir; G.lk_len = namelen; G.lk_name_ok = name_is_lpf(name);
	if (IN.r_lookup) return IN.r_lookup;
	*inode = IN.lookup_ino;
	return 0;
}
errcode_t ext2fs_expand_dir(ext2_filsys fs, ext2_ino_t dir)
{
	++G.seq;
	if (G.n_expand == 0) G.first_expand_seq = G.seq;
	if (dir != IN.lookup_ino || !G.s_lookup) G.bad = 1;
	long r = IN.r_expand[G.n_expand % 12];
	G.n_expand++;
	return r;
}
void ext2fs_inode_alloc_stats2(ext2_filsys fs, ext2_ino_t ino, int inuse, int isdir)
{
	if (inuse != 1 || isdir != 0 || (G.n_stats && ino != G.last_ino + 1)) G.bad = 1;
	G.n_stats++; G.last_ino = ino;
	if (ino == verif_k) G.k_stats++;
}
void com_err(const char *whoami, long code, const char *fmt, ...) { }
char *gettext(const char *msgid) { return (char *)msgid; }	/* messages of the exit(1) paths */

static struct struct_ext2_filsys FS;
static struct ext2_super_block SB;

void h_mke2fs_create_lost_and_found(void)
{
	LOAD_IN();
	memset(&FS, 0, sizeof(FS));
	memset(&SB, 0, sizeof(SB));
	memset(&G, 0, sizeof(G));
	ASSUME(IN.log_bs <= 6);
	FS.super = &SB;
	FS.blocksize = 1024u << IN.log_bs;
	FS.umask = 022;

	create_lost_and_found(&FS);

	/* the documented size: at least 16 KiB and at least two blocks, limited to the 12 direct blocks */
	unsigned int bs = 1024u << IN.log_bs;
	unsigned int want = bs == 1024 ? 12 : bs == 2048 ? 8 : bs == 4096 ? 4 : 2;
	CHECK(G.n_mkdir == 1 && G.mk_parent == 2 && G.mk_inum == 0 && G.mk_name_ok, "one mkdir of \"lost+found\" in the root directory, inode number chosen by the library");
	CHECK(G.mk_umask == 077, "created with umask 077 (mode 0700)");
	CHECK(G.n_lookup == 1 && G.lk_dir == 2 && G.lk_len == 10 && G.lk_name_ok && G.s_lookup > G.s_mkdir, "then looked up by name in the root directory");
	CHECK(!G.bad && (G.n_expand == 0 || G.first_expand_seq > G.s_lookup), "only the inode found is expanded, after the lookup");
	CHECK(1 + G.n_expand == want, "expanded to max(2, 16 KiB / blocksize) blocks, at most the 12 direct blocks");
	CHECK((unsigned long long)(1 + G.n_expand) * bs >= 16384 || 1 + G.n_expand == 12, "at least 16 KiB unless the direct blocks are exhausted");
	if (bs == 1024) REACH("direct_blocks_exhausted");
	if (bs == 65536) REACH("two_big_blocks");
	REACH("end");
}

void h_mke2fs_reserve_inodes(void)
{
	LOAD_IN();
	memset(&FS, 0, sizeof(FS));
	memset(&SB, 0, sizeof(SB));
	memset(&G, 0, sizeof(G));
	FS.super = &SB;
	FS.flags = IN.flags0;
	SB.s_rev_level = IN.rev & 1;
	SB.s_first_ino = IN.first_ino;
	unsigned int first = (IN.rev & 1) ? IN.first_ino : 11;	/* the format: revision 0 has inodes 1..10 reserved */
	ASSUME(first <= 64);
	verif_k = IN.k;

	reserve_inodes(&FS);

	CHECK(!G.bad, "marked in use (+1), not as directories, in ascending order without gaps");
	CHECK(G.k_stats == ((verif_k > 2 && verif_k < first) ? 1u : 0u), "an inode is reserved exactly once iff it lies between the root inode and the first non-reserved inode");
	CHECK(G.n_stats == (first > 3 ? first - 3 : 0), "first_ino - 3 inodes are reserved here");
	CHECK(G.n_stats == 0 || G.last_ino == first - 1, "the last one is first_ino - 1");
	CHECK((FS.flags & (EXT2_FLAG_IB_DIRTY | EXT2_FLAG_CHANGED)) == (EXT2_FLAG_IB_DIRTY | EXT2_FLAG_CHANGED), "the inode bitmap is marked dirty");
	if (first == 11 && verif_k == 10) REACH("k_is_last_reserved");
	if (first <= 3) REACH("nothing_reserved");
	REACH("end");
}
