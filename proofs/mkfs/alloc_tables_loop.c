/* VERIF-UNIT
{
 "name": "allocate_tables_every_group",
 "props": ["C07"],
 "level": "U",
 "tier": "quick",
 "harness": "h_allocate_tables_every_group",
 "replace": ["ext2fs_allocate_group_table"],
 "loop_contracts": true,
 "unwind": 8,
 "unwind_reason": "the per-group loop of ext2fs_allocate_tables carries an in-place loop contract with a decreases clause (named anchor VERIF_INV_ALLOCATE_TABLES, text below); 8 serves the DFCC library loops over its 5 assigns targets, unwinding assertions on",
 "functions": ["lib/ext2fs/alloc_tables.c:ext2fs_allocate_tables"],
 "assumes": ["NEEDS the hook in hooks-pending/c07b.diff (named loop anchor VERIF_INV_ALLOCATE_TABLES; its empty default lives in alloc_tables.c's own guarded preamble)",
             "what is proved, for ONE arbitrary ghost group k: return 0 => k < group_desc_count implies ext2fs_allocate_group_table(fs, k, fs->block_map) was called exactly once and succeeded (so, by unit allocate_group_table_placement, k's three tables have locations), and it was called for no group >= group_desc_count; error return => the error is the one of the first failing group and no later group was attempted; termination",
             "ext2fs_allocate_group_table is replaced by a contract that only counts (calls for k, successes for k, calls at all) and demands at the call site group < group_desc_count and bmap == fs->block_map; what a successful call establishes is the subject of allocate_group_table_placement",
             "the progress callbacks (fs->progress_ops: absent, or present with init/update/close each absent or a stub without side effects on the filesystem) are irrelevant to the statement; no contract is enforced on ext2fs_allocate_tables (harness CHECKs)"],
 "native": false
}
*/
/*
 * ghost: verif_g0 = calls for group verif_k, verif_g1 = successful calls for verif_k, verif_g2 = calls at all,
 *        verif_g3 = failed calls, verif_g4 = calls issued after a failure
 */
#include "verif.h"

struct in_s {
	unsigned int gdc;
	unsigned long long k;
	unsigned char have_ops, have_init, have_update, have_close;
};
struct in_s IN;
#include "verif_in.h"

unsigned long long verif_k;
unsigned long long verif_g0, verif_g1, verif_g2, verif_g3, verif_g4;

#define VERIF_INV_ALLOCATE_TABLES \
	__CPROVER_assigns(i, retval, verif_g0, verif_g1, verif_g2, verif_g3, verif_g4) \
	__CPROVER_loop_invariant(i <= fs->group_desc_count && verif_g2 == i && verif_g3 == 0 && verif_g4 == 0) \
	__CPROVER_loop_invariant(i > verif_k ? (verif_g0 == 1 && verif_g1 == 1) : (verif_g0 == 0 && verif_g1 == 0)) \
	__CPROVER_decreases(fs->group_desc_count - i)

#include "lib/ext2fs/alloc_tables.c"

errcode_t ext2fs_allocate_group_table(ext2_filsys fs, dgrp_t group, ext2fs_block_bitmap bmap)
	REQUIRES(group < fs->group_desc_count && bmap == fs->block_map)
	ASSIGNS(verif_g0, verif_g1, verif_g2, verif_g3, verif_g4)
	ENSURES(verif_g2 == OLD(verif_g2) + 1)
	ENSURES(verif_g0 == OLD(verif_g0) + (group == verif_k ? 1 : 0))
	ENSURES(verif_g1 == OLD(verif_g1) + ((group == verif_k && RET == 0) ? 1 : 0))
	ENSURES(verif_g3 == OLD(verif_g3) + (RET != 0 ? 1 : 0))
	ENSURES(verif_g4 == OLD(verif_g4) + (OLD(verif_g3) != 0 ? 1 : 0));

static void p_init(ext2_filsys fs, struct ext2fs_numeric_progress_struct *progress, const char *label, __u64 max) { }
static void p_update(ext2_filsys fs, struct ext2fs_numeric_progress_struct *progress, __u64 val) { }
static void p_close(ext2_filsys fs, struct ext2fs_numeric_progress_struct *progress, const char *message) { }
static int BMAP_OBJ;

void h_allocate_tables_every_group(void)
{
	static struct struct_ext2_filsys FS;
	static struct ext2fs_progress_ops OPS;

	LOAD_IN();
	memset(&FS, 0, sizeof(FS));
	FS.magic = EXT2_ET_MAGIC_EXT2FS_FILSYS;
	FS.group_desc_count = IN.gdc;
	FS.block_map = (ext2fs_block_bitmap)&BMAP_OBJ;
	OPS.init = IN.have_init ? p_init : 0;
	OPS.update = IN.have_update ? p_update : 0;
	OPS.close = IN.have_close ? p_close : 0;
	FS.progress_ops = IN.have_ops ? &OPS : 0;
	verif_k = IN.k;
	verif_g0 = verif_g1 = verif_g2 = verif_g3 = verif_g4 = 0;

	errcode_t r = ext2fs_allocate_tables(&FS);

	CHECK(verif_g4 == 0, "no group is attempted after a failure");
	CHECK(verif_g2 <= IN.gdc, "never more calls than groups");
	if (r == 0) {
		CHECK(verif_g2 == IN.gdc && verif_g3 == 0, "success: one call per group, none failed");
		CHECK(verif_k < IN.gdc ? (verif_g0 == 1 && verif_g1 == 1) : verif_g0 == 0, "success: the ghost group's tables were allocated exactly once, successfully");
		if (verif_k < IN.gdc && IN.gdc > 2) REACH("k_allocated");
		if (IN.gdc == 0) REACH("no_groups");
	} else {
		CHECK(verif_g3 == 1, "error: exactly one call failed (the last one)");
		CHECK(verif_g0 <= 1, "error: the ghost group was attempted at most once");
	}
	if (verif_g3 != 0) {
		CHECK(r != 0, "a failed group makes the whole call fail");
		REACH("a_group_failed");
	}
	REACH("end");
}
