/* VERIF-UNIT
{
 "name": "get_journal_params",
 "props": ["C07"],
 "level": "U",
 "tier": "quick",
 "harness": "h_get_journal_params",
 "functions": ["lib/ext2fs/mkjournal.c:ext2fs_get_journal_params", "lib/ext2fs/mkjournal.c:ext2fs_default_journal_size"],
 "assumes": ["loop-free; no contract enforced: harness CHECKs on the real function (which calls the real ext2fs_default_journal_size)",
             "what is proved (specs/mkfs_journal.h): INTERNAL journal (no journal_dev feature): EXT2_ET_JOURNAL_TOO_SMALL exactly below 2048 filesystem blocks; otherwise the documented default (1024 .. 262144 blocks, a power of two, at most half the filesystem), fast-commit blocks = journal blocks / 64 iff the fast_commit feature is on, else 0. EXTERNAL journal device (journal_dev feature; the 'filesystem' is the journal device): too small exactly below 1024 blocks; without fast_commit the whole device; with fast_commit journal + fast-commit blocks = the whole device, journal >= 1024 blocks and journal = max(1024, 64/65 of the device)",
             "blocks_count <= 2^48 for an internal journal; for a journal DEVICE blocks_count < 2^32 (the function narrows the block count to 32 bits for one operand and not for the other: with >= 2^32 blocks num_fc_blocks = truncated total - untruncated share is garbage; jbd2's s_maxlen is 32 bit anyway and mke2fs -O journal_dev is bounded by the device; observation unit get_journal_params_dev64)",
             "ext2fs_blocks_count is a stub returning the harness value"],
 "native": false
}
*/
/* VERIF-UNIT
{
 "name": "get_journal_params_dev64",
 "props": ["C07"],
 "level": "U",
 "tier": "obs",
 "harness": "h_get_journal_params_dev64",
 "functions": ["lib/ext2fs/mkjournal.c:ext2fs_get_journal_params"],
 "assumes": ["as get_journal_params for a journal DEVICE of up to 2^48 blocks. EXPECTED TO FAIL: 'total_blks = ext2fs_blocks_count()' is a 32-bit blk_t, 'num_journal_blocks = ext2fs_blocks_count() * 64 / 65' is computed in 64 bits and narrowed on assignment: journal + fast-commit blocks != device size. Observation about the library interface (a journal device of >= 2^32 blocks cannot be described by the 32-bit jbd2 superblock anyway)"],
 "native": false
}
*/
#include "verif.h"
#include "mkfs_journal.h"

struct in_s {
	unsigned long long bc;
	unsigned char journal_dev, fast_commit;
	unsigned int junk_j, junk_fc;
};
struct in_s IN;
#include "verif_in.h"

unsigned long long verif_k;

#include "lib/ext2fs/mkjournal.c"

blk64_t ext2fs_blocks_count(struct ext2_super_block *super) { return IN.bc; }

static void run(int dev64)
{
	static struct struct_ext2_filsys FS;
	static struct ext2_super_block SB;
	struct ext2fs_journal_params p;

	LOAD_IN();
	memset(&FS, 0, sizeof(FS));
	memset(&SB, 0, sizeof(SB));
	FS.super = &SB;
	SB.s_feature_incompat = IN.journal_dev ? 0x0008u /* JOURNAL_DEV */ : 0;
	SB.s_feature_compat = IN.fast_commit ? 0x0400u /* FAST_COMMIT */ : 0;
	ASSUME(IN.bc <= (1ULL << 48));
	if (IN.journal_dev && !dev64)
		ASSUME(IN.bc < (1ULL << 32));
	p.num_journal_blocks = IN.junk_j;
	p.num_fc_blocks = IN.junk_fc;

	errcode_t r = ext2fs_get_journal_params(&p, &FS);

	unsigned long long j = p.num_journal_blocks, fc = p.num_fc_blocks;
	CHECK(r == 0 || r == EXT2_ET_JOURNAL_TOO_SMALL, "sizes or 'too small'");
	if (!IN.journal_dev) {
		long d = mkfs_default_journal_blocks(IN.bc);
		CHECK((r != 0) == (d < 0), "internal: too small exactly below 2048 blocks");
		if (r == 0) {
			CHECK(j == (unsigned long long)d, "internal: the documented default size");
			CHECK(j >= MKFS_JBD2_MIN_BLOCKS && j <= MKFS_MAX_JOURNAL_BLOCKS && 2 * j <= IN.bc, "internal: at least the jbd2 minimum, at most the mke2fs maximum and half the filesystem");
			CHECK(fc == (IN.fast_commit ? j / MKFS_FC_RATIO : 0), "internal: fast-commit area = journal / 64 iff the feature is on");
			CHECK(2 * (j + fc) <= IN.bc + IN.bc / 32, "internal: journal plus fast-commit area stays near half the filesystem (65/64 of the journal)");
			if (IN.fast_commit && j == 262144) REACH("internal_fc_max");
			if (d == 1024) REACH("internal_min");
		} else
			REACH("internal_too_small");
	} else {
		CHECK((r != 0) == (IN.bc < MKFS_JBD2_MIN_BLOCKS), "device: too small exactly below 1024 blocks");
		if (r == 0) {
			CHECK(j + fc == IN.bc, "device: journal and fast-commit area together are the whole device");
			CHECK(j >= MKFS_JBD2_MIN_BLOCKS, "device: at least the jbd2 minimum");
			if (!IN.fast_commit)
				CHECK(fc == 0, "device: no fast-commit area without the feature");
			else {
				unsigned long long share = IN.bc * MKFS_FC_RATIO / (MKFS_FC_RATIO + 1);
				CHECK(j == (share < MKFS_JBD2_MIN_BLOCKS ? MKFS_JBD2_MIN_BLOCKS : share), "device: 64 of 65 parts are journal, never below the minimum");
				REACH("device_fc");
			}
			REACH("device_ok");
		} else
			REACH("device_too_small");
	}
	if (r != 0)
		CHECK(j == 0 && fc == 0, "nothing but zeros is reported on failure");
	REACH("end");
}
void h_get_journal_params(void) { run(0); }
void h_get_journal_params_dev64(void) { run(1); }
