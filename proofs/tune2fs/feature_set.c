/*
 * C11, mechanism "feature edits are validated against ok/clear-ok masks and dependency rules":
 * misc/tune2fs.c:update_feature_set (530 lines, loop-free apart from two loops over the three quota types).
 * No contract is enforced on it (3700-line TU).  The static helpers of the same file are replaced by ghost-monitor
 * contracts, libext2fs / libe2p callees are stubs that move the monitor; obligations are CHECKs in the stubs, the helper
 * preconditions, and the harness CHECKs after the call.
 *
 * e2p_edit_feature2 (lib/e2p/feature.c) is summarised by its contract: on success every bit it turns on lies in the ok mask
 * it was given, every bit it turns off in the clear-ok mask; on failure the array may be half edited.  That contract is the
 * subject of unit tune_e2p_edit_feature2 (e2p_edit.c) — which FAILS on the tree for the keyword "none"/"clear"
 * (findings/C11_feature_none_bypasses_clear_mask); the summary is what the mechanism promises.
 *
 * Obligations (M = the documented masks, specs/tune_feature_masks.h, a level-S pin; "old"/"new" = feature words on entry /
 * on return; fmt = ext4 on-disk format / kernel mount rules):
 *  A  the tables handed to e2p_edit_feature2 are ok_features / clear_ok_features and their content equals M;
 *     a refused edit (unknown word, bit outside M) => return 1, no helper ran, nothing marked dirty by this function.
 *  B  success: no feature bit outside M changes (old ^ new is inside set-mask | clear-mask), except ORPHAN_PRESENT which
 *     goes with orphan_file;  "changes exactly the requested setting" at the level of feature words;
 *  C  fmt: never GDT_CSUM together with METADATA_CSUM on return; CSUM_SEED only with METADATA_CSUM;
 *  D  fmt (see uninit_bg.c): group-descriptor flags go from meaningless to trusted (no csum feature -> some csum feature)
 *     only through enable_uninit_bg; from trusted to meaningless only through a successful disable_uninit_bg, which is entered
 *     with BOTH csum features already invisible (its precondition here = the assumption of tune_disable_uninit_bg_*);
 *  E  metadata_csum switched (either way): check_fsck_needed was consulted and agreed, filesystem not mounted, all
 *     checksums scheduled for rewrite (rewrite_checksums == REWRITE_ALL); switched off: seed feature and s_checksum_seed gone;
 *  F  metadata_csum_seed on: only with metadata_csum, s_checksum_seed := the seed in use (so that no checksum changes);
 *     off with a seed that differs from crc32c(uuid): unmounted, fsck gate, REWRITE_ALL;
 *  G  has_journal off: not on a filesystem mounted read-write, not with needs_recovery unless forced twice; the journal inode /
 *     device removers run iff there is one;  on: the bit is NOT set here (no journal yet), journal_size != 0 tells main();
 *     quota on: likewise left to handle_quota_options; 64bit either way: bit unchanged, resize2fs is named (feature_64bit);
 *  H  whenever check_fsck_needed refuses, update_feature_set fails;
 *  I  request_fsck_afterwards called => superblock marked dirty on success (the not-clean state must reach the disk);
 *     feature words changed => superblock marked dirty;
 *  J  dir_index off on a checksummed filesystem: fsck gate and directories scheduled for rewrite;
 *     casefold off: unmounted and no inode carries the flag; project on: not with 128-byte inodes; sparse_super on: not with
 *     meta_bg; flex_bg off: only if the descriptors pass ext2fs_check_desc; huge_file off: not mounted read-write.
 */
/* VERIF-UNIT
{
 "name": "tune_update_feature_set",
 "props": ["C11"],
 "level": "P",
 "tier": "quick",
 "harness": "h_update_feature_set",
 "replace": ["remove_journal_inode", "remove_journal_device", "check_fsck_needed", "request_fsck_afterwards",
             "enable_uninit_bg", "disable_uninit_bg", "has_casefold_inode", "try_confirm_csum_seed_support"],
 "static_keep": ["ok_features", "clear_ok_features"],
 "includes": ["misc", "lib/support"],
 "unwind": 6,
 "unwindset": {"update_feature_set.0": 4, "update_feature_set.1": 4},
 "cbmc_flags": ["--object-bits", "12"],
 "unwind_reason": "the two loops of update_feature_set run over the MAXQUOTAS = 3 quota types (constant of the format); DFCC library loops",
 "functions": ["misc/tune2fs.c:update_feature_set"],
 "assumes": [
  "no contract enforced; ordering/dependency protocol via ghost monitor",
  "e2p_edit_feature2 by its contract (success: bits turned on inside the ok mask it was given, bits turned off inside the clear-ok mask; failure: array arbitrary); the contract is checked against the real function in unit tune_e2p_edit_feature2, which fails for the keyword none/clear (finding)",
  "the eight static helpers of tune2fs.c by contract (arbitrary results; frame = the monitor, plus for enable/disable_uninit_bg nothing in the superblock: proved by tune_enable_uninit_bg / tune_disable_uninit_bg_*)",
  "consistent filesystem on entry: not GDT_CSUM and METADATA_CSUM together, CSUM_SEED only with METADATA_CSUM; everything else in the superblock, mount_flags, f_flag, Q_flag, journal_size arbitrary; rewrite_checksums == 0, feature_64bit == 0 and orphan_file_blocks == 0 on entry (main() calls update_feature_set before anything sets them)",
  "ext2fs_default_orphan_file_blocks > 0 (lib/ext2fs/orphan.c: 32, blocks/4096 >= 32, or 512, rounded up to a cluster)",
  "com_err()/fprintf() diagnostics compiled out; uuid_generate / uuid_is_null / crc32c / e2p_get_encoding_flags arbitrary",
  "level-S pin: the documented masks of specs/tune_feature_masks.h (from misc/tune2fs.8.in)"
 ],
 "native": false,
 "timeout": 600
}
*/
#include "verif.h"

#include "config.h"
#include "ext2fs/ext2_fs.h"
#include "tune_feature_masks.h"

struct in_s {
	struct ext2_super_block sb;
	int fs_flags, mflags, fflag, qflag, jsize;
	unsigned int csum_seed, uuid_crc;
	/* e2p_edit_feature2 */
	int ret_edit, ret_edit2, type_err;
	unsigned int mask_err;
	unsigned int newf[3], newf2[3];
	/* helper results */
	int ret_fsck[4], ret_rmji, ret_rmjd, ret_casefold, ret_checkdesc, ret_uuid_null;
	long ret_dis, ret_rb, ret_trunc, ret_mmp_init, ret_mmp_read, ret_orphan_blocks;
};
struct in_s IN;
#include "verif_in.h"

#include <stdio.h>
#include "et/com_err.h"
#define com_err(...) ((void)0)
#define fprintf(...) ((void)0)
#define main tune2fs_real_main
#include "misc/tune2fs.c"
#undef main
#undef com_err
#undef fprintf

static struct struct_ext2_filsys FS;
static struct ext2_super_block SB;
static struct mmp_struct MMP_CMP;

static struct {
	unsigned int edit_calls, fsck_checks, fsck_refused, req_fsck;
	unsigned int rm_jinode, rm_jdev, en_uninit, dis_uninit, dis_ok, casefold_scans, seed_confirm;
	unsigned int dis_flag;
	unsigned int helpers;		/* calls of anything that changes the filesystem */
	unsigned int edit_failed;
} M;

#define HAS_RO(f)	((SB.s_feature_ro_compat & (f)) != 0)
#define OLD_RO(f)	((IN.sb.s_feature_ro_compat & (f)) != 0)
#define GDT	EXT4_FEATURE_RO_COMPAT_GDT_CSUM
#define MCSUM	EXT4_FEATURE_RO_COMPAT_METADATA_CSUM
#define ANY_CSUM (GDT | MCSUM)

/* ---- same file, by contract ---- */
static errcode_t remove_journal_inode(ext2_filsys fs)
	REQUIRES(fs == &FS && fs->super->s_journal_inum != 0)
	ASSIGNS(M.rm_jinode, M.helpers)
	ENSURES(M.rm_jinode == OLD(M.rm_jinode) + 1 && M.helpers == OLD(M.helpers) + 1 && RET == IN.ret_rmji);
static int remove_journal_device(ext2_filsys fs)
	REQUIRES(fs == &FS && fs->super->s_journal_dev != 0)
	ASSIGNS(M.rm_jdev, M.helpers)
	ENSURES(M.rm_jdev == OLD(M.rm_jdev) + 1 && M.helpers == OLD(M.helpers) + 1 && RET == IN.ret_rmjd);
static int check_fsck_needed(ext2_filsys fs, const char *prompt)
	REQUIRES(fs == &FS)
	ASSIGNS(M.fsck_checks, M.fsck_refused)
	ENSURES(M.fsck_checks == OLD(M.fsck_checks) + 1 && RET == IN.ret_fsck[OLD(M.fsck_checks) & 3])
	ENSURES(M.fsck_refused == (OLD(M.fsck_refused) || RET != 0));
static void request_fsck_afterwards(ext2_filsys fs)
	REQUIRES(fs == &FS)
	ASSIGNS(M.req_fsck)
	ENSURES(M.req_fsck == OLD(M.req_fsck) + 1);
static void enable_uninit_bg(ext2_filsys fs)
	REQUIRES(fs == &FS)
	ASSIGNS(M.en_uninit, M.helpers)
	ENSURES(M.en_uninit == OLD(M.en_uninit) + 1 && M.helpers == OLD(M.helpers) + 1);
static errcode_t disable_uninit_bg(ext2_filsys fs, __u32 csum_feature_flag)
	/* D: the assumption of tune_disable_uninit_bg_* is an obligation here */
	REQUIRES(fs == &FS && (csum_feature_flag == GDT || csum_feature_flag == MCSUM))
	REQUIRES(!(fs->super->s_feature_ro_compat & ANY_CSUM))
	ASSIGNS(M.dis_uninit, M.dis_ok, M.dis_flag, M.helpers)
	ENSURES(M.dis_uninit == OLD(M.dis_uninit) + 1 && M.helpers == OLD(M.helpers) + 1 && RET == IN.ret_dis)
	ENSURES(M.dis_flag == csum_feature_flag && M.dis_ok == OLD(M.dis_ok) + (RET == 0));
static int has_casefold_inode(ext2_filsys fs)
	REQUIRES(fs == &FS)
	ASSIGNS(M.casefold_scans)
	ENSURES(M.casefold_scans == OLD(M.casefold_scans) + 1 && RET == IN.ret_casefold);
static void try_confirm_csum_seed_support(void)
	ASSIGNS(M.seed_confirm)
	ENSURES(M.seed_confirm == OLD(M.seed_confirm) + 1);

/* ---- libe2p / libext2fs / libc ---- */
char *gettext(const char *msgid) { return (char *)msgid; }
void exit(int status)
{
	CHECK(status != 0, "giving up is reported by a non-zero exit status");
	REACH("exit");
	ASSUME(0);
}
static void edit_by_contract(__u32 *arr, const unsigned int *newf)
{
	int t;
	for (t = 0; t < 3; t++) {
		__u32 oldv = arr[t], newv = newf[t];
		ASSUME(((newv & ~oldv) & ~ok_features[t]) == 0);
		ASSUME(((oldv & ~newv) & ~clear_ok_features[t]) == 0);
		arr[t] = newv;
	}
}
int e2p_edit_feature2(const char *str, __u32 *compat_array, __u32 *ok_array, __u32 *clear_ok_array, int *type_err,
		      unsigned int *mask_err)
{
	M.edit_calls++;
	CHECK(ok_array == ok_features && clear_ok_array == clear_ok_features, "A the edit is validated against ok_features / clear_ok_features");
	CHECK(ok_features[0] == TUNE_SPEC_SET_COMPAT && ok_features[1] == TUNE_SPEC_SET_INCOMPAT && ok_features[2] == TUNE_SPEC_SET_RO,
	      "A ok_features[] equals the documented set mask");
	CHECK(clear_ok_features[0] == TUNE_SPEC_CLEAR_COMPAT && clear_ok_features[1] == TUNE_SPEC_CLEAR_INCOMPAT &&
	      clear_ok_features[2] == TUNE_SPEC_CLEAR_RO, "A clear_ok_features[] equals the documented clear mask");
	if (M.edit_calls == 1) {
		CHECK(compat_array == &SB.s_feature_compat && M.helpers == 0, "A the superblock's feature words are edited first");
		if (IN.ret_edit) {
			compat_array[0] = IN.newf[0]; compat_array[1] = IN.newf[1]; compat_array[2] = IN.newf[2];
			*type_err = IN.type_err;
			*mask_err = IN.mask_err;
			M.edit_failed = 1;
			return 1;
		}
		*type_err = 0;
		*mask_err = 0;
		edit_by_contract(compat_array, IN.newf);
		return 0;
	}
	/* the trial edit of a copy ("did the user say ^uninit_bg?") */
	CHECK(compat_array != &SB.s_feature_compat, "the trial edit works on a copy");
	if (IN.ret_edit2) {
		compat_array[0] = IN.newf2[0]; compat_array[1] = IN.newf2[1]; compat_array[2] = IN.newf2[2];
		return 1;
	}
	edit_by_contract(compat_array, IN.newf2);
	return 0;
}
const char *e2p_feature2string(int compat, unsigned int mask) { return "f"; }
int e2p_get_encoding_flags(int encoding) { return 0; }
errcode_t ext2fs_read_bitmaps(ext2_filsys fs) { return IN.ret_rb; }
errcode_t ext2fs_truncate_orphan_file(ext2_filsys fs) { M.helpers++; return IN.ret_trunc; }
void ext2fs_inode_alloc_stats2(ext2_filsys fs, ext2_ino_t ino, int inuse, int isdir) { M.helpers++; }
void ext2fs_block_alloc_stats2(ext2_filsys fs, blk64_t blk, int inuse) { M.helpers++; }
e2_blkcnt_t ext2fs_default_orphan_file_blocks(ext2_filsys fs)
{
	ASSUME(IN.ret_orphan_blocks > 0);
	return IN.ret_orphan_blocks;
}
errcode_t ext2fs_mmp_init(ext2_filsys fs) { M.helpers++; return IN.ret_mmp_init; }
errcode_t ext2fs_mmp_read(ext2_filsys fs, blk64_t mmp_blk, void *buf)
{
	fs->mmp_cmp = &MMP_CMP;
	return IN.ret_mmp_read;
}
errcode_t ext2fs_check_desc(ext2_filsys fs) { return IN.ret_checkdesc; }
void ext2fs_update_dynamic_rev(ext2_filsys fs) { }
int uuid_is_null(const uuid_t uu) { return IN.ret_uuid_null; }
void uuid_generate(uuid_t out) { }
__u32 ext2fs_crc32c_le(__u32 crc, unsigned char const *p, size_t len) { return IN.uuid_crc; }

#define CHANGED(word, bit) (((IN.sb.word ^ SB.word) & (bit)) != 0)
#define TURNED_ON(word, bit) (!(IN.sb.word & (bit)) && (SB.word & (bit)))
#define TURNED_OFF(word, bit) ((IN.sb.word & (bit)) && !(SB.word & (bit)))

void h_update_feature_set(void)
{
	int r, old_csum, new_csum, unmounted;
	static char FEATURES[] = "x";

	LOAD_IN();
	memset(&M, 0, sizeof(M));
	memset(&FS, 0, sizeof(FS));
	memset(&MMP_CMP, 0, sizeof(MMP_CMP));
	FEATURES[0] = 'x'; FEATURES[1] = 0;
	SB = IN.sb;
	FS.super = &SB;
	FS.flags = IN.fs_flags;
	FS.csum_seed = IN.csum_seed;
	mount_flags = IN.mflags;
	f_flag = IN.fflag;
	Q_flag = IN.qflag;
	journal_size = IN.jsize;
	rewrite_checksums = 0;
	feature_64bit = 0;
	orphan_file_blocks = 0;
	enabling_casefold = 0;
	quota_enable[0] = quota_enable[1] = quota_enable[2] = 0;
	/* consistent filesystem on entry */
	ASSUME((IN.sb.s_feature_ro_compat & ANY_CSUM) != ANY_CSUM);
	ASSUME(!(IN.sb.s_feature_incompat & EXT4_FEATURE_INCOMPAT_CSUM_SEED) || (IN.sb.s_feature_ro_compat & MCSUM));
	unmounted = !(IN.mflags & EXT2_MF_MOUNTED);

	r = update_feature_set(&FS, FEATURES);

	CHECK(M.edit_calls >= 1, "A the request goes through e2p_edit_feature2");
	CHECK(!M.fsck_refused || r != 0, "H a refusal of check_fsck_needed makes update_feature_set fail");
	if (M.edit_failed) {
		CHECK(r == 1, "A a refused edit is reported");
		CHECK(M.helpers == 0 && M.req_fsck == 0 && M.fsck_checks == 0 && M.casefold_scans == 0 && M.edit_calls == 1,
		      "A a refused edit: no helper ran");
		CHECK(FS.flags == IN.fs_flags && rewrite_checksums == 0 && SB.s_state == IN.sb.s_state,
		      "A a refused edit: nothing marked dirty, nothing scheduled");
		REACH("edit-refused");
	}
	if (r == 0) {
		old_csum = (IN.sb.s_feature_ro_compat & ANY_CSUM) != 0;
		new_csum = (SB.s_feature_ro_compat & ANY_CSUM) != 0;

		/* B */
		CHECK(((IN.sb.s_feature_compat ^ SB.s_feature_compat) & ~(TUNE_SPEC_SET_COMPAT | TUNE_SPEC_CLEAR_COMPAT)) == 0,
		      "B compat: no bit outside the documented masks changes");
		CHECK(((IN.sb.s_feature_incompat ^ SB.s_feature_incompat) & ~(TUNE_SPEC_SET_INCOMPAT | TUNE_SPEC_CLEAR_INCOMPAT)) == 0,
		      "B incompat: no bit outside the documented masks changes");
		CHECK(((IN.sb.s_feature_ro_compat ^ SB.s_feature_ro_compat) &
		       ~(TUNE_SPEC_SET_RO | TUNE_SPEC_CLEAR_RO | EXT4_FEATURE_RO_COMPAT_ORPHAN_PRESENT)) == 0,
		      "B ro_compat: no bit outside the documented masks (and ORPHAN_PRESENT) changes");
		CHECK(!TURNED_ON(s_feature_ro_compat, EXT4_FEATURE_RO_COMPAT_ORPHAN_PRESENT) &&
		      (!TURNED_OFF(s_feature_ro_compat, EXT4_FEATURE_RO_COMPAT_ORPHAN_PRESENT) ||
		       TURNED_OFF(s_feature_compat, EXT4_FEATURE_COMPAT_ORPHAN_FILE)),
		      "B ORPHAN_PRESENT only goes away together with orphan_file");
		/* C */
		CHECK((SB.s_feature_ro_compat & ANY_CSUM) != ANY_CSUM, "C never uninit_bg together with metadata_csum");
		CHECK(!(SB.s_feature_incompat & EXT4_FEATURE_INCOMPAT_CSUM_SEED) || HAS_RO(MCSUM), "C metadata_csum_seed only with metadata_csum");
		/* D */
		CHECK(!(new_csum && !old_csum) || M.en_uninit == 1, "D descriptor flags become trusted only through enable_uninit_bg");
		CHECK(!(!new_csum && old_csum) || (M.dis_uninit == 1 && M.dis_ok == 1),
		      "D descriptor flags stop being trusted only through a successful disable_uninit_bg");
		CHECK(M.dis_uninit == M.dis_ok, "D a failing disable_uninit_bg fails the request");
		CHECK(!(!new_csum && old_csum) || M.dis_flag == (OLD_RO(GDT) ? GDT : MCSUM), "D disable_uninit_bg is told which feature went away");
		CHECK((new_csum != old_csum) || (M.en_uninit == 0 && M.dis_uninit == 0) || CHANGED(s_feature_ro_compat, ANY_CSUM),
		      "D no descriptor rewrite without a change of the checksum features");
		CHECK(!CHANGED(s_feature_ro_compat, ANY_CSUM) || unmounted, "D/E checksum features are not switched on a mounted filesystem");
		/* E */
		if (CHANGED(s_feature_ro_compat, MCSUM)) {
			CHECK(M.fsck_checks >= 1, "E metadata_csum switched: check_fsck_needed was consulted");
			CHECK(rewrite_checksums == REWRITE_ALL, "E metadata_csum switched: every checksum is scheduled for rewrite");
			REACH("mcsum-switched");
		}
		if (TURNED_OFF(s_feature_ro_compat, MCSUM)) {
			CHECK(SB.s_checksum_seed == 0 && !(SB.s_feature_incompat & EXT4_FEATURE_INCOMPAT_CSUM_SEED),
			      "E metadata_csum off: the stored seed goes away");
			if (HAS_RO(GDT)) REACH("mcsum-off-uninit-on");
			if (!HAS_RO(GDT)) REACH("mcsum-off-uninit-off");
		}
		if (TURNED_ON(s_feature_ro_compat, MCSUM) && OLD_RO(GDT)) REACH("mcsum-on-over-uninit");
		/* F */
		if (TURNED_ON(s_feature_incompat, EXT4_FEATURE_INCOMPAT_CSUM_SEED)) {
			CHECK(HAS_RO(MCSUM), "F metadata_csum_seed on: only with metadata_csum");
			CHECK(SB.s_checksum_seed == IN.csum_seed, "F metadata_csum_seed on: the seed in use is stored (no checksum changes)");
			REACH("seed-on");
		}
		if (TURNED_OFF(s_feature_incompat, EXT4_FEATURE_INCOMPAT_CSUM_SEED) && SB.s_checksum_seed != IN.uuid_crc) {
			CHECK(!(IN.mflags & (EXT2_MF_BUSY | EXT2_MF_MOUNTED)) && M.fsck_checks >= 1 && rewrite_checksums == REWRITE_ALL,
			      "F metadata_csum_seed off with a foreign seed: unmounted, fsck gate, full rewrite");
			REACH("seed-off-foreign");
		}
		/* G */
		if (TURNED_OFF(s_feature_compat, EXT3_FEATURE_COMPAT_HAS_JOURNAL)) {
			CHECK(!((IN.mflags & EXT2_MF_MOUNTED) && !(IN.mflags & EXT2_MF_READONLY)), "G has_journal off: not mounted read-write");
			CHECK(!(IN.sb.s_feature_incompat & EXT3_FEATURE_INCOMPAT_RECOVER) || IN.fflag >= 2, "G has_journal off: not with needs_recovery");
			CHECK(M.rm_jinode == (IN.sb.s_journal_inum != 0), "G has_journal off: the journal inode is removed iff there is one");
			CHECK(!(IN.sb.s_journal_dev != 0) || M.rm_jdev == 1, "G has_journal off: the journal device is released");
			REACH("journal-off");
		} else {
			CHECK(M.rm_jinode == 0 && M.rm_jdev == 0, "G no journal removal without ^has_journal");
		}
		if (!(IN.sb.s_feature_compat & EXT3_FEATURE_COMPAT_HAS_JOURNAL)) {
			CHECK(!(SB.s_feature_compat & EXT3_FEATURE_COMPAT_HAS_JOURNAL), "G has_journal on: the bit is left to add_journal");
			if (IN.newf[0] & EXT3_FEATURE_COMPAT_HAS_JOURNAL) {
				CHECK(journal_size != 0, "G has_journal on: main() is told to add a journal");
				REACH("journal-on");
			}
		}
		CHECK(!CHANGED(s_feature_incompat, EXT4_FEATURE_INCOMPAT_64BIT), "G 64bit is never toggled here (resize2fs does)");
		CHECK((feature_64bit != 0) == ((IN.sb.s_feature_incompat ^ IN.newf[1]) & EXT4_FEATURE_INCOMPAT_64BIT ? 1 : 0),
		      "G a 64bit request is passed on");
		CHECK(!TURNED_ON(s_feature_ro_compat, EXT4_FEATURE_RO_COMPAT_QUOTA), "G quota on: the bit is left to handle_quota_options");
		if (!(IN.sb.s_feature_ro_compat & EXT4_FEATURE_RO_COMPAT_QUOTA) && (IN.newf[2] & EXT4_FEATURE_RO_COMPAT_QUOTA))
			CHECK(Q_flag != 0, "G quota on: main() is told");
		/* I */
		CHECK(M.req_fsck == 0 || (FS.flags & EXT2_FLAG_DIRTY), "I e2fsck requested: the superblock (not-clean state) will be written");
		CHECK((SB.s_feature_compat == IN.sb.s_feature_compat && SB.s_feature_incompat == IN.sb.s_feature_incompat &&
		       SB.s_feature_ro_compat == IN.sb.s_feature_ro_compat) || (FS.flags & EXT2_FLAG_DIRTY),
		      "I feature words changed: superblock dirty");
		if (M.req_fsck) REACH("fsck-requested");
		/* J */
		if (TURNED_OFF(s_feature_compat, EXT2_FEATURE_COMPAT_DIR_INDEX) && OLD_RO(MCSUM) && HAS_RO(MCSUM)) {
			CHECK(M.fsck_checks >= 1 && (rewrite_checksums & REWRITE_DIR_FL) && unmounted,
			      "J dir_index off under metadata_csum: fsck gate, directories rewritten, unmounted");
			REACH("dir-index-off");
		}
		if (TURNED_OFF(s_feature_incompat, EXT4_FEATURE_INCOMPAT_CASEFOLD)) {
			CHECK(unmounted && M.casefold_scans == 1 && IN.ret_casefold == 0, "J casefold off: unmounted, no inode carries the flag");
			REACH("casefold-off");
		}
		CHECK(!TURNED_ON(s_feature_incompat, EXT4_FEATURE_INCOMPAT_CASEFOLD) || unmounted, "J casefold on: unmounted");
		CHECK(!TURNED_ON(s_feature_ro_compat, EXT4_FEATURE_RO_COMPAT_PROJECT) || IN.sb.s_inode_size != EXT2_GOOD_OLD_INODE_SIZE,
		      "J project on: not with 128-byte inodes");
		CHECK(!TURNED_ON(s_feature_ro_compat, EXT2_FEATURE_RO_COMPAT_SPARSE_SUPER) || !(SB.s_feature_incompat & EXT2_FEATURE_INCOMPAT_META_BG),
		      "J sparse_super on: not with meta_bg");
		CHECK(!TURNED_OFF(s_feature_incompat, EXT4_FEATURE_INCOMPAT_FLEX_BG) || IN.ret_checkdesc == 0,
		      "J flex_bg off: only if the descriptors are consistent without it");
		CHECK(!TURNED_OFF(s_feature_ro_compat, EXT4_FEATURE_RO_COMPAT_HUGE_FILE) ||
		      !((IN.mflags & EXT2_MF_MOUNTED) && !(IN.mflags & EXT2_MF_READONLY)), "J huge_file off: not mounted read-write");
		CHECK(!TURNED_ON(s_feature_compat, EXT4_FEATURE_COMPAT_ORPHAN_FILE) ||
		      ((IN.newf[0] & EXT3_FEATURE_COMPAT_HAS_JOURNAL) && orphan_file_blocks > 0),
		      "J orphan_file on: only with a journal, and main() is told to create the file");
		REACH("success");
		if (SB.s_feature_compat == IN.sb.s_feature_compat && SB.s_feature_incompat == IN.sb.s_feature_incompat &&
		    SB.s_feature_ro_compat == IN.sb.s_feature_ro_compat) REACH("success-no-change");
		if (!old_csum && HAS_RO(GDT)) REACH("uninit-on");
		if (OLD_RO(GDT) && !new_csum) REACH("uninit-off");
	} else {
		if (M.fsck_refused) REACH("fsck-refused");
		if (M.dis_uninit != M.dis_ok) REACH("disable-failed");
	}
	REACH("end");
}
