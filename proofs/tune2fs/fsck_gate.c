/*
 * C11, mechanism "dangerous operations require a freshly checked filesystem and mark it not-valid":
 * misc/tune2fs.c:check_fsck_needed, request_fsck_afterwards, request_dir_fsck_afterwards.
 *
 * Specification, from the property text / the format (s_state bits, 40-bit superblock time stamps: low word + _hi byte):
 *  G1 check_fsck_needed(fs) answers 0 ("go on") ONLY IF the filesystem is marked clean (EXT2_VALID_FS set), carries no
 *     EXT2_ERROR_FS and its last check is not older than its last mount (s_lastcheck[_hi] >= s_mtime[_hi]); otherwise it
 *     answers non-zero WITHOUT asking anybody (a question cannot waive the requirement);
 *  G2 it changes nothing: superblock bytes and fs->flags as on entry;
 *  G3 the administrator is asked (proceed_question(5)) only on a terminal or under TUNE2FS_FORCE_PROMPT, and only after G1's
 *     test has passed.
 *  F1 request_fsck_afterwards / request_dir_fsck_afterwards: after the FIRST call EXT2_VALID_FS is clear in the in-memory
 *     superblock (a plain `e2fsck -p` will then do the full check that completes the conversion) and fsck_requested > 0;
 *  F2 nothing else in the superblock changes, ever; later calls change nothing at all (the message is printed once);
 *  F3 they do not mark the superblock dirty themselves: callers must (checked at the callers: tune_update_feature_set_*
 *     obligation "fsck requested => superblock dirty", rewrite_metadata_checksums).
 * No loops.  Contracts are not enforced (3700-line TU): harness CHECKs on the real functions.
 */
/* VERIF-UNIT
{
 "name": "tune_check_fsck_needed",
 "props": ["C11"],
 "level": "U",
 "tier": "quick",
 "harness": "h_check_fsck_needed",
 "includes": ["misc", "lib/support"],
 "unwind": 6,
 "cbmc_flags": ["--object-bits", "12"],
 "unwind_reason": "check_fsck_needed is loop-free (the superblock is compared at ONE arbitrary byte index); the bound only serves the DFCC library loops",
 "functions": ["misc/tune2fs.c:check_fsck_needed"],
 "assumes": [
  "superblock content, fs->flags, mount_flags, the answers of getenv()/isatty() arbitrary; proceed_question() is a stub that either returns or does not return (exit(1) on 'no'), arbitrary",
  "time_t is 64 bits (this build): the 40-bit time stamps are compared in full",
  "puts/printf diagnostics have no effect on the state"
 ],
 "native": false
}
*/
/* VERIF-UNIT
{
 "name": "tune_request_fsck",
 "props": ["C11"],
 "level": "U",
 "tier": "quick",
 "harness": "h_request_fsck",
 "includes": ["misc", "lib/support"],
 "static_keep": ["{REPO}/misc/tune2fs.c:request_fsck_afterwards::1::requested", "{REPO}/misc/tune2fs.c:request_dir_fsck_afterwards::1::requested",
                 "{REPO}/misc/tune2fs.c:request_fsck_afterwards::1::requested", "{REPO}/misc/tune2fs.c:request_dir_fsck_afterwards::1::requested"],
 "unwind": 6,
 "cbmc_flags": ["--object-bits", "12"],
 "unwind_reason": "loop-free; the bound serves the DFCC library loops",
 "functions": ["misc/tune2fs.c:request_fsck_afterwards", "misc/tune2fs.c:request_dir_fsck_afterwards"],
 "assumes": [
  "the function-local statics `requested` start at their initialiser 0 (program start; kept via static_keep, which for function-local statics needs the FILE-QUALIFIED name '<tree>/misc/tune2fs.c:<function>::1::requested': the driver substitutes {REPO} by the tree under check) — nothing else in the program can reach them",
  "between the calls the harness lets the superblock change arbitrarily EXCEPT that EXT2_VALID_FS is not set again (unit tune_resize_inode_protocol shows the one place in tune2fs.c that does set it)",
  "superblock content, mount_flags arbitrary; fsck_requested < INT_MAX - 2"
 ],
 "native": false
}
*/
#include "verif.h"

#include "config.h"
#include "ext2fs/ext2_fs.h"

struct in_s {
	struct ext2_super_block sb, sb2;
	int fs_flags, mflags;
	unsigned int j;
	int env_set, tty0, tty1, answer_yes;
	int fsck_requested0;
	int first_is_dir;
};
struct in_s IN;
#include "verif_in.h"

#include <stdio.h>
#include "et/com_err.h"
#define com_err(...) ((void)0)
#define fprintf(...) ((void)0)
#define main tune2fs_real_main
#include "misc/tune2fs.c"
#undef main
#undef com_err
#undef fprintf

static struct struct_ext2_filsys FS;
static struct ext2_super_block SB;
static struct { unsigned int asked, asked_delay; } M;
static char ENV_VAL[2];

char *gettext(const char *msgid) { return (char *)msgid; }
char *getenv(const char *name) { if (IN.env_set) return &ENV_VAL[0]; return (char *)0; }
int isatty(int fd) { return fd == 0 ? IN.tty0 : IN.tty1; }
void proceed_question(int delay)
{
	M.asked++;
	M.asked_delay = delay;
	ASSUME(IN.answer_yes);	/* "no" ends the program (misc/util.c: exit(1)) */
}

/* the 40-bit time stamps of the format */
#define T40(lo, hi) (((unsigned long long)(hi) << 32) | (lo))

void h_check_fsck_needed(void)
{
	int r, fresh;

	LOAD_IN();
	memset(&M, 0, sizeof(M));
	ENV_VAL[0] = '1'; ENV_VAL[1] = 0;
	memset(&FS, 0, sizeof(FS));
	SB = IN.sb;
	FS.super = &SB;
	FS.flags = IN.fs_flags;
	mount_flags = IN.mflags;
	ASSUME(IN.j < sizeof(SB));

	r = check_fsck_needed(&FS, "prompt");

	fresh = (IN.sb.s_state & EXT2_VALID_FS) && !(IN.sb.s_state & EXT2_ERROR_FS) &&
		T40(IN.sb.s_lastcheck, IN.sb.s_lastcheck_hi) >= T40(IN.sb.s_mtime, IN.sb.s_mtime_hi);
	CHECK(r != 0 || fresh, "G1 'go on' only for a clean, error-free filesystem checked since its last mount");
	CHECK(fresh || (r != 0 && M.asked == 0), "G1 otherwise: refused, and nobody is asked");
	CHECK(!fresh || r == 0, "a freshly checked filesystem is accepted");
	CHECK(((unsigned char *)&SB)[IN.j] == ((unsigned char *)&IN.sb)[IN.j] && FS.flags == IN.fs_flags && FS.super == &SB,
	      "G2 nothing is changed");
	CHECK(M.asked == (fresh && (IN.env_set || (IN.tty0 && IN.tty1))), "G3 the administrator is asked on a terminal / when forced, once");
	CHECK(M.asked == 0 || M.asked_delay == 5, "G3 with the 5 second time-out");
	if (r == 0) REACH("accepted");
	if (r == 0 && M.asked) REACH("accepted-after-question");
	if (r != 0 && IN.sb.s_lastcheck_hi < IN.sb.s_mtime_hi && (IN.sb.s_state & EXT2_VALID_FS)) REACH("refused-stale-check-hi");
	REACH("end");
}

void h_request_fsck(void)
{

	LOAD_IN();
	memset(&FS, 0, sizeof(FS));
	SB = IN.sb;
	FS.super = &SB;
	FS.flags = IN.fs_flags;
	mount_flags = IN.mflags;
	fsck_requested = IN.fsck_requested0;
	ASSUME(IN.fsck_requested0 >= 0 && IN.fsck_requested0 < 1000);
	ASSUME(IN.j < sizeof(SB));

	/* first call of either function */
	if (IN.first_is_dir)
		request_dir_fsck_afterwards(&FS);
	else
		request_fsck_afterwards(&FS);

	CHECK(!(SB.s_state & EXT2_VALID_FS), "F1 first call: EXT2_VALID_FS cleared");
	CHECK(fsck_requested == IN.fsck_requested0 + 1, "F1 first call: fsck_requested counted");
	CHECK(SB.s_state == (IN.sb.s_state & ~EXT2_VALID_FS), "F2 no other state bit touched");
	SB.s_state = IN.sb.s_state;	/* compare the rest bytewise */
	CHECK(((unsigned char *)&SB)[IN.j] == ((unsigned char *)&IN.sb)[IN.j], "F2 nothing else in the superblock changes");
	CHECK(FS.flags == IN.fs_flags, "F3 fs->flags untouched (the callers mark the superblock dirty)");

	/* the program goes on: arbitrary superblock, but VALID_FS is not set again */
	SB = IN.sb2;
	ASSUME(!(IN.sb2.s_state & EXT2_VALID_FS));

	/* second call of the same function */
	if (IN.first_is_dir)
		request_dir_fsck_afterwards(&FS);
	else
		request_fsck_afterwards(&FS);
	CHECK(((unsigned char *)&SB)[IN.j] == ((unsigned char *)&IN.sb2)[IN.j] && FS.flags == IN.fs_flags,
	      "F2 later calls change nothing");
	CHECK(fsck_requested == IN.fsck_requested0 + 1, "F2 later calls do not count again");
	CHECK(!(SB.s_state & EXT2_VALID_FS), "F1 still not valid");

	/* the OTHER function's first call still counts and still clears */
	if (IN.first_is_dir)
		request_fsck_afterwards(&FS);
	else
		request_dir_fsck_afterwards(&FS);
	CHECK(fsck_requested == IN.fsck_requested0 + 2 && !(SB.s_state & EXT2_VALID_FS), "F1 for the other request function");
	if (IN.first_is_dir) REACH("dir-first");
	REACH("end");
}
