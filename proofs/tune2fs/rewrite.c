/*
 * C11, mechanism "all checksums are rewritten when the checksum scheme, seed or UUID changes":
 * misc/tune2fs.c: rewrite_metadata_checksums -> rewrite_inodes -> rewrite_inodes_pass -> rewrite_one_inode.
 * The checksum functions themselves are C14's business (proofs/csum); here the library writers
 * (ext2fs_write_inode_full, ext2fs_write_ext_attr3, ext2fs_group_desc_csum_set, ...) are monitor stubs: each of them
 * recomputes the checksum of what it is given, so the local necessary conditions are about WHAT is handed to them, WHEN,
 * and that nothing else changes ("keeps every file unchanged").
 *
 * rewrite_one_inode(ctx, ino, inode)                                                      [unit tune_rewrite_one_inode, P]
 *  O1 inode not in use: an all-zero slot is left alone; anything else is wiped and written as inode_size zero bytes;
 *  O2 inode in use: written at least once with the full inode size; the LAST image written equals the buffer on return (the
 *     checksum on disk covers the final body: hash updates of the body come before the write, whoever changes the body later
 *     writes it again);  bytes 0..127 except i_flags (directory index flag) and, for an EA inode, i_atime (= the EA hash) are
 *     as delivered;
 *  O3 order: EA-inode hash and in-inode xattr hashes -> write -> extent tree -> directory blocks (directories with blocks
 *     only) -> xattr block read / rehash / written back to the SAME block for the same inode;
 *  O4 every failure of a callee ends the program (exit(1)); there is no silent skip.
 * rewrite_inodes_pass(ctx, flags)                                                    [tune_rewrite_inodes_pass, U/iter]
 *  P1 every inode the scan delivers is classified (EA inode / directory / other) and handed to rewrite_one_inode iff its
 *     class is selected by flags, exactly once, before the next inode is fetched; P2 scan closed, buffer released.
 * rewrite_inodes(fs, flags)                                                                   [tune_rewrite_inodes, P]
 *  N1 EA inodes first (their hash is the input of the referencing entries' hashes), in a pass of their own, then everything
 *     else; N2 the comparison inode is inode_size zero bytes; N3 nothing for Hurd filesystems (no inode checksums there).
 * rewrite_metadata_checksums(fs, flags)                                         [tune_rewrite_metadata_checksums, P/U]
 *  M1 the checksum seed is re-derived (ext2fs_init_csum_seed) BEFORE the first checksum is computed; M2 every group
 *     descriptor gets a new checksum (loop closed by its loop contract); M3 bitmaps loaded and both marked dirty (their
 *     checksums live in the descriptors and are recomputed when written); M4 MMP block rewritten; M5 on success: checksum
 *     errors are no longer ignored, SUPER_ONLY cleared (descriptors reach the disk), s_checksum_type = crc32c iff
 *     metadata_csum, superblock dirty; while the inodes are rewritten checksum errors ARE ignored (stale checksums are
 *     expected).
 */
/* VERIF-UNIT
{
 "name": "tune_rewrite_one_inode",
 "props": ["C11"],
 "level": "P",
 "tier": "quick",
 "harness": "h_rewrite_one_inode",
 "replace": ["update_ea_inode_hash", "update_inline_xattr_hashes", "update_block_xattr_hashes", "rewrite_directory"],
 "includes": ["misc", "lib/support"],
 "unwind": 6,
 "cbmc_flags": ["--object-bits", "12"],
 "unwind_reason": "rewrite_one_inode is loop-free; memset over the inode (literal sizes 128 / 256) is a built-in; DFCC library loops",
 "functions": ["misc/tune2fs.c:rewrite_one_inode"],
 "assumes": [
  "no contract enforced; monitor stubs for ext2fs_write_inode_full, ext2fs_fix_extents_checksums, ext2fs_read_ext_attr3, ext2fs_write_ext_attr3, ext2fs_file_acl_block, ext2fs_inode_has_valid_blocks2, ext2fs_test_generic_bmap (arbitrary answers)",
  "same-file helpers by contract: update_ea_inode_hash (may change i_atime only), update_inline_xattr_hashes (nothing if i_extra_isize == 0, else may change bytes from offset 132 on only), update_block_xattr_hashes (the xattr buffer only), rewrite_directory (leaves the inode alone, or clears EXT2_INDEX_FL and has then written the inode: proved by tune_rewrite_directory)",
  "inode size 128 or 256 (literals of the two harness calls; larger sizes only lengthen the tail that update_inline_xattr_hashes owns)",
  "memcmp against the zero inode is a specification stub: result arbitrary, and 0 only if the two buffers agree at the ghost byte index",
  "inode content, inode number, every callee result arbitrary; com_err()/fprintf() compiled out; exit() does not return"
 ],
 "native": false
}
*/
/* VERIF-UNIT
{
 "name": "tune_rewrite_inodes_pass",
 "props": ["C11"],
 "level": "U/iter",
 "tier": "quick",
 "tier_after_hooks": "quick",
 "harness": "h_rewrite_inodes_pass",
 "backend": "cadical",
 "defines": ["EXT2_CUSTOM_MEMORY_ROUTINES"],
 "replace": ["rewrite_one_inode"],
 "loop_contracts": true,
 "includes": ["misc", "lib/support"],
 "unwind": 6,
 "cbmc_flags": ["--object-bits", "12"],
 "unwind_reason": "the scan loop is cut by its in-place loop contract (named anchor VERIF_INV_REWRITE_INODES_PASS); DFCC library loops",
 "functions": ["misc/tune2fs.c:rewrite_inodes_pass"],
 "assumes": [
  "NEEDS the hooks in hooks-pending/tune.diff",
  "no contract enforced; rewrite_one_inode by contract (monitor only: it is entered only for the inode just delivered, only if its class is selected, at most once)",
  "ext2fs_get_next_inode_full delivers an arbitrary inode number and arbitrary inode content per call and may fail; ext2fs_get_mem / ext2fs_open_inode_scan may fail (fatal: exit)",
  "inode size 128 or 256; flags arbitrary",
  "U/iter: termination is the scan's business"
 ],
 "native": false
}
*/
/* VERIF-UNIT
{
 "name": "tune_rewrite_inodes",
 "props": ["C11"],
 "level": "P",
 "tier": "quick",
 "harness": "h_rewrite_inodes",
 "defines": ["EXT2_CUSTOM_MEMORY_ROUTINES"],
 "replace": ["rewrite_inodes_pass"],
 "includes": ["misc", "lib/support"],
 "unwind": 6,
 "cbmc_flags": ["--object-bits", "12"],
 "unwind_reason": "loop-free; DFCC library loops",
 "functions": ["misc/tune2fs.c:rewrite_inodes"],
 "assumes": [
  "no contract enforced; rewrite_inodes_pass by contract (monitor); allocation stubs may fail (fatal: exit); the 64 KiB xattr buffer is represented by a 16-byte object (rewrite_inodes only passes it on)",
  "superblock (features, creator OS, revision, inode size 128..1024) and flags arbitrary"
 ],
 "native": false
}
*/
/* VERIF-UNIT
{
 "name": "tune_rewrite_metadata_checksums",
 "props": ["C11"],
 "level": "P",
 "tier": "quick",
 "tier_after_hooks": "quick",
 "harness": "h_rewrite_metadata_checksums",
 "replace": ["rewrite_inodes"],
 "loop_contracts": true,
 "includes": ["misc", "lib/support"],
 "unwind": 6,
 "cbmc_flags": ["--object-bits", "12"],
 "unwind_reason": "the loop over the groups is closed by its in-place loop contract (named anchor VERIF_INV_REWRITE_CSUMS_GROUPS, with decreases clause); DFCC library loops",
 "functions": ["misc/tune2fs.c:rewrite_metadata_checksums"],
 "assumes": [
  "NEEDS the hooks in hooks-pending/tune.diff",
  "no contract enforced; rewrite_inodes by contract (monitor: entered with checksum errors ignored, seed initialised, bitmaps loaded); ext2fs_init_csum_seed, ext2fs_group_desc_csum_set, ext2fs_read_bitmaps, ext2fs_mmp_update2 are monitor stubs with arbitrary results",
  "any number of groups; one arbitrary group verif_k is tracked"
 ],
 "native": false
}
*/
#include "verif.h"

unsigned long long verif_k;
int verif_old_bit;
/* ghost registers used inside the cut loops:
 *  rewrite_inodes_pass:  verif_g1 inode number delivered last, verif_g2 1 iff its class is selected by flags,
 *                        verif_g3 1 iff an inode is pending, verif_g4 number of rewrite_one_inode calls for it
 *  rewrite_metadata_checksums: verif_g0 1 iff ext2fs_group_desc_csum_set ran for group verif_k, verif_g6 1 iff some checksum
 *                        was computed before the seed was initialised */
unsigned long long verif_g0, verif_g1, verif_g2, verif_g3, verif_g4, verif_g5, verif_g6, verif_g7;
const unsigned char *verif_p0, *verif_p1, *verif_p2, *verif_p3;

#include "config.h"
#include "ext2fs/ext2_fs.h"

struct in_s {
	unsigned char inode[256];
	unsigned int ino, j, flags, groups, k;
	int in_use, has_blocks, zero_cmp;
	unsigned long long acl;
	long ret_write, ret_ext, ret_dir, ret_rd, ret_wr, ret_open, ret_mem, ret_rb, ret_mmp;
	unsigned int feat_incompat, feat_ro, creator_os, rev, inode_size;
	int fs_flags;
	int dir_clears_index;
};
struct in_s IN;
#include "verif_in.h"

#ifndef VERIF_NATIVE
long nondet_long(void);
unsigned int nondet_uint(void);
#endif

#define VERIF_INV_REWRITE_INODES_PASS \
	__CPROVER_assigns(retval, ino, rewrite, __CPROVER_object_whole(inode), verif_g1, verif_g2, verif_g3, verif_g4) \
	__CPROVER_loop_invariant(verif_g3 == 0 || verif_g4 == verif_g2)

#define VERIF_INV_REWRITE_CSUMS_GROUPS \
	__CPROVER_assigns(i, verif_g0, verif_g6) \
	__CPROVER_loop_invariant(i <= fs->group_desc_count) \
	__CPROVER_loop_invariant(verif_g6 == 0) \
	__CPROVER_loop_invariant(!(verif_k < i) || verif_g0 == 1) \
	__CPROVER_decreases(fs->group_desc_count - i)

#include <stdio.h>
#include "et/com_err.h"
#ifdef EXT2_CUSTOM_MEMORY_ROUTINES
errcode_t ext2fs_get_mem(unsigned long size, void *ptr);
errcode_t ext2fs_get_memzero(unsigned long size, void *ptr);
errcode_t ext2fs_get_array(unsigned long count, unsigned long size, void *ptr);
errcode_t ext2fs_free_mem(void *ptr);
#endif
#define com_err(...) ((void)0)
#define fprintf(...) ((void)0)
#define main tune2fs_real_main
#include "misc/tune2fs.c"
#undef main
#undef com_err
#undef fprintf

static struct struct_ext2_filsys FS;
static struct ext2_super_block SB;
static char IMAP_OBJ;
static unsigned char INODE_BUF[256], ZERO_BUF[256], EA_BUF[16];
static struct rewrite_context CTX;

static struct {
	unsigned int seq;		/* order counter */
	unsigned int writes, w_seq, w_size;
	unsigned int w_flags; unsigned char w_j;	/* image written last: i_flags and the ghost byte */
	unsigned int ea_hash_seq, inline_seq, ext_seq, dir_seq, rd_seq, blk_seq, wr_seq;
	unsigned long long rd_blk, wr_blk;
	/* rewrite_inodes */
	unsigned int passes, pf0, pf1, allocs, frees;
	void *zero_p, *ea_p, *inode_p;
	/* rewrite_inodes_pass */
	unsigned int opens, closes;
	/* rewrite_metadata_checksums */
	unsigned int seed_seq, rb_seq, ri_seq, mmp_seq, ri_ignore, ri_flags;
} M;

#define INODE ((struct ext2_inode *)INODE_BUF)
#define GHOST_IN_FLAGS (IN.j >= 32 && IN.j < 36)
#define GHOST_IN_ATIME (IN.j >= 8 && IN.j < 12)

/* ---- same file, by contract (declared after the include: struct rewrite_context lives in tune2fs.c) ---- */
static void update_ea_inode_hash(struct rewrite_context *ctx, ext2_ino_t ino, struct ext2_inode *inode)
	REQUIRES(ctx == &CTX && ino == IN.ino && inode == INODE && (inode->i_flags & EXT4_EA_INODE_FL) && M.writes == 0)
	ASSIGNS(inode->i_atime, M.seq, M.ea_hash_seq)
	ENSURES(M.seq == OLD(M.seq) + 1 && M.ea_hash_seq == M.seq);
static void update_inline_xattr_hashes(struct rewrite_context *ctx, struct ext2_inode_large *inode)
	REQUIRES(ctx == &CTX && (void *)inode == (void *)INODE_BUF && ctx->inode_size == 256 && M.writes == 0)
	/* no extra fields (i_extra_isize == 0): no in-inode xattrs, nothing to refresh; else entry hashes somewhere behind the fixed fields */
	ASSIGNS(inode->i_extra_isize != 0: __CPROVER_object_from(INODE_BUF + 132); M.seq, M.inline_seq)
	ENSURES(M.seq == OLD(M.seq) + 1 && M.inline_seq == M.seq);
static void update_block_xattr_hashes(struct rewrite_context *ctx, char *block_buf)
	REQUIRES(ctx == &CTX && (void *)block_buf == (void *)EA_BUF && M.rd_seq != 0 && M.wr_seq == 0)
	ASSIGNS(__CPROVER_object_whole(EA_BUF), M.seq, M.blk_seq)
	ENSURES(M.seq == OLD(M.seq) + 1 && M.blk_seq == M.seq);
static errcode_t rewrite_directory(ext2_filsys fs, ext2_ino_t dir, struct ext2_inode *inode)
	REQUIRES(fs == &FS && dir == IN.ino && inode == INODE && M.writes >= 1)
	ASSIGNS(inode->i_flags, M.seq, M.dir_seq, M.w_flags, M.writes)
	ENSURES(M.seq == OLD(M.seq) + 1 && M.dir_seq == M.seq && RET == IN.ret_dir)
	/* leaves the inode alone, or clears the index flag and has written the inode again */
	ENSURES((inode->i_flags == OLD(inode->i_flags) && M.w_flags == OLD(M.w_flags) && M.writes == OLD(M.writes)) ||
		(inode->i_flags == (OLD(inode->i_flags) & ~EXT2_INDEX_FL) && M.w_flags == inode->i_flags && M.writes == OLD(M.writes) + 1));

static void rewrite_one_inode(struct rewrite_context *ctx, ext2_ino_t ino, struct ext2_inode *inode)
	/* P1: only the inode just delivered, only if selected, only once */
	REQUIRES(ctx == &CTX && verif_g3 == 1 && ino == verif_g1 && verif_g2 == 1 && verif_g4 == 0 && (void *)inode == M.inode_p)
	ASSIGNS(verif_g4)
	ENSURES(verif_g4 == 1);

static void rewrite_inodes_pass(struct rewrite_context *ctx, unsigned int flags)
	REQUIRES(ctx->fs == &FS && M.passes < 2)
	/* N2: the comparison inode is all zero (ghost byte), sizes agree */
	REQUIRES(ctx->inode_size == (int)IN.inode_size && (void *)ctx->zero_inode == M.zero_p && M.zero_p != 0 &&
		 (void *)ctx->ea_buf == M.ea_p && M.ea_p != 0)
	REQUIRES(!(IN.j < IN.inode_size) || ((unsigned char *)ctx->zero_inode)[IN.j] == 0)
	ASSIGNS(M.passes, M.pf0, M.pf1)
	ENSURES(M.passes == OLD(M.passes) + 1)
	ENSURES(OLD(M.passes) == 0 ? (M.pf0 == flags && M.pf1 == OLD(M.pf1)) : (M.pf1 == flags && M.pf0 == OLD(M.pf0)));

static void rewrite_inodes(ext2_filsys fs, unsigned int flags)
	REQUIRES(fs == &FS && M.seed_seq != 0 && M.rb_seq != 0 && M.ri_seq == 0)
	ASSIGNS(M.seq, M.ri_seq, M.ri_ignore, M.ri_flags)
	ENSURES(M.seq == OLD(M.seq) + 1 && M.ri_seq == M.seq && M.ri_flags == flags &&
		M.ri_ignore == ((fs->flags & EXT2_FLAG_IGNORE_CSUM_ERRORS) != 0));

/* ---- libc / libext2fs ---- */
char *gettext(const char *msgid) { return (char *)msgid; }
void exit(int status)
{
	CHECK(status != 0, "giving up is reported by a non-zero exit status");
	REACH("exit");
	ASSUME(0);
}
int memcmp(const void *a, const void *b, size_t n)
{
	/* specification stub: equal buffers agree at the ghost byte */
	if (IN.zero_cmp == 0 && IN.j < n)
		ASSUME(((const unsigned char *)a)[IN.j] == ((const unsigned char *)b)[IN.j]);
	return IN.zero_cmp;
}
int ext2fs_test_generic_bmap(ext2fs_generic_bitmap bitmap, blk64_t bitno)
{
	CHECK((void *)bitmap == (void *)&IMAP_OBJ && bitno == IN.ino, "the inode bitmap is asked about this inode");
	return IN.in_use;
}
errcode_t ext2fs_write_inode_full(ext2_filsys fs, ext2_ino_t ino, struct ext2_inode *inode, int bufsize)
{
	CHECK(fs == &FS && ino == IN.ino && inode == INODE, "the inode handed in is written under its own number");
	CHECK(bufsize == CTX.inode_size, "O2 the whole on-disk inode is written");
	M.seq++;
	M.writes++;
	M.w_seq = M.seq;
	M.w_flags = inode->i_flags;
	M.w_j = INODE_BUF[IN.j];
	return IN.ret_write;
}
errcode_t ext2fs_fix_extents_checksums(ext2_filsys fs, ext2_ino_t ino, struct ext2_inode *inode)
{
	CHECK(M.writes >= 1 && ino == IN.ino && inode == INODE, "O3 extent blocks after the inode itself");
	M.seq++;
	M.ext_seq = M.seq;
	return IN.ret_ext;
}
int ext2fs_inode_has_valid_blocks2(ext2_filsys fs, struct ext2_inode *inode) { return IN.has_blocks; }
blk64_t ext2fs_file_acl_block(ext2_filsys fs, const struct ext2_inode *inode) { return IN.acl; }
errcode_t ext2fs_read_ext_attr3(ext2_filsys fs, blk64_t block, void *buf, ext2_ino_t inum)
{
	CHECK(block == IN.acl && IN.acl != 0 && buf == (void *)EA_BUF && inum == IN.ino, "O3 the inode's xattr block is read");
	M.seq++;
	M.rd_seq = M.seq;
	M.rd_blk = block;
	return IN.ret_rd;
}
errcode_t ext2fs_write_ext_attr3(ext2_filsys fs, blk64_t block, void *buf, ext2_ino_t inum)
{
	CHECK(M.rd_seq != 0 && block == M.rd_blk && buf == (void *)EA_BUF && inum == IN.ino, "O3 the xattr block goes back where it came from");
	CHECK(M.blk_seq > M.rd_seq, "O3 entry hashes are refreshed between read and write");
	M.seq++;
	M.wr_seq = M.seq;
	M.wr_blk = block;
	return IN.ret_wr;
}

static void setup_fs(void)
{
	memset(&M, 0, sizeof(M));
	memset(&FS, 0, sizeof(FS));
	memset(&SB, 0, sizeof(SB));
	FS.super = &SB;
	FS.inode_map = (ext2fs_inode_bitmap)(void *)&IMAP_OBJ;
	FS.flags = IN.fs_flags;
	FS.group_desc_count = IN.groups;
	SB.s_feature_incompat = IN.feat_incompat;
	SB.s_feature_ro_compat = IN.feat_ro;
	SB.s_creator_os = IN.creator_os;
	SB.s_rev_level = IN.rev;
	SB.s_inode_size = IN.inode_size;
	verif_k = IN.k;
	verif_g0 = verif_g1 = verif_g2 = verif_g3 = verif_g4 = verif_g5 = verif_g6 = 0;
}

static void one_inode(int isize)
{
	int dir;

	memset(&CTX, 0, sizeof(CTX));
	CTX.fs = &FS;
	CTX.zero_inode = (struct ext2_inode *)ZERO_BUF;
	CTX.ea_buf = (char *)EA_BUF;
	CTX.inode_size = isize;
	memset(ZERO_BUF, 0, sizeof(ZERO_BUF));
	memcpy(INODE_BUF, IN.inode, 256);
	ASSUME(IN.j < (unsigned int)isize);
	dir = LINUX_S_ISDIR(INODE->i_mode);

	rewrite_one_inode(&CTX, IN.ino, INODE);

	/* normal return */
	if (!IN.in_use) {
		if (IN.zero_cmp == 0) {
			CHECK(M.seq == 0 && INODE_BUF[IN.j] == 0, "O1 an unused all-zero slot is left alone");
			REACH("unused-zero");
		} else {
			CHECK(M.writes == 1 && M.w_j == 0 && M.w_flags == 0 && INODE_BUF[IN.j] == 0, "O1 an unused slot with content is wiped and written");
			CHECK(M.dir_seq == 0 && M.ea_hash_seq == 0, "O1 a wiped slot is neither a directory nor an EA inode");
			REACH("unused-wiped");
		}
		return;
	}
	CHECK(M.writes >= 1, "O2 an inode in use is written");
	CHECK(IN.ret_write == 0 && IN.ret_ext == 0, "O4 write / extent errors are fatal");
	CHECK(M.w_flags == INODE->i_flags && (GHOST_IN_FLAGS || M.w_j == INODE_BUF[IN.j]), "O2 the image written last is the buffer on return");
	CHECK(IN.j >= 128 || GHOST_IN_FLAGS || (GHOST_IN_ATIME && M.ea_hash_seq) || INODE_BUF[IN.j] == IN.inode[IN.j],
	      "O2 the first 128 bytes are as delivered (but i_flags, and i_atime of an EA inode)");
	CHECK((INODE->i_flags | EXT2_INDEX_FL) == (((struct ext2_inode *)IN.inode)->i_flags | EXT2_INDEX_FL), "O2 i_flags: at most the index flag goes");
	CHECK((M.ea_hash_seq != 0) == ((((struct ext2_inode *)IN.inode)->i_flags & EXT4_EA_INODE_FL) != 0), "O3 EA hash refreshed iff EA inode");
	CHECK((M.inline_seq != 0) == (isize != EXT2_GOOD_OLD_INODE_SIZE), "O3 in-inode xattr hashes refreshed iff there is room for them");
	CHECK(M.ext_seq != 0, "O3 the extent tree is visited");
	CHECK((M.dir_seq != 0) == (dir && IN.has_blocks), "O3 directory blocks rewritten iff a directory with blocks");
	CHECK(M.dir_seq == 0 || (M.dir_seq > M.ext_seq && IN.ret_dir == 0), "O3/O4 directory after extents; errors fatal");
	CHECK((M.rd_seq != 0) == (IN.acl != 0) && M.wr_seq != 0 == (IN.acl != 0), "O3 xattr block rewritten iff there is one");
	CHECK(IN.acl == 0 || (IN.ret_rd == 0 && IN.ret_wr == 0 && M.wr_blk == IN.acl), "O4 xattr block errors are fatal");
	REACH("in-use");
	if (M.dir_seq && INODE->i_flags != ((struct ext2_inode *)IN.inode)->i_flags) REACH("index-flag-cleared");
	if (M.wr_seq) REACH("xattr-block");
}

void h_rewrite_one_inode(void)
{
	LOAD_IN();
	setup_fs();
	if (IN.inode_size == 128)
		one_inode(128);
	else
		one_inode(256);
	REACH("end");
}

/* ---- rewrite_inodes_pass ---- */
static struct { int dummy; } SCAN_OBJ;
#ifdef EXT2_CUSTOM_MEMORY_ROUTINES
errcode_t ext2fs_get_mem(unsigned long size, void *ptr)
{
	void *pp;
	if (nondet_long())
		return EXT2_ET_NO_MEMORY;
	if (size == 64 * 1024) {
		pp = malloc(16);	/* the xattr buffer: only passed on */
		ASSUME(pp != 0);
		M.ea_p = pp;
	} else {
		pp = malloc(size);
		ASSUME(pp != 0);
		M.inode_p = pp;
	}
	M.allocs++;
	*(void **)ptr = pp;
	return 0;
}
errcode_t ext2fs_get_memzero(unsigned long size, void *ptr)
{
	void *pp;
	if (nondet_long())
		return EXT2_ET_NO_MEMORY;
	CHECK(size == IN.inode_size, "N2 the comparison inode has the on-disk inode size");
	pp = calloc(1, size);
	ASSUME(pp != 0);
	M.zero_p = pp;
	M.allocs++;
	*(void **)ptr = pp;
	return 0;
}
errcode_t ext2fs_free_mem(void *ptr)
{
	void *p = *(void **)ptr;
	if (p)
		M.frees++;
	free(p);
	*(void **)ptr = 0;
	return 0;
}
#endif
errcode_t ext2fs_open_inode_scan(ext2_filsys fs, int buffer_blocks, ext2_inode_scan *ret_scan)
{
	if (IN.ret_open)
		return IN.ret_open;
	M.opens++;
	*ret_scan = (ext2_inode_scan)(void *)&SCAN_OBJ;
	return 0;
}
void ext2fs_close_inode_scan(ext2_inode_scan scan)
{
	CHECK((void *)scan == (void *)&SCAN_OBJ && M.opens == 1, "P2 the scan that was opened is closed");
	M.closes++;
}
errcode_t ext2fs_get_next_inode_full(ext2_inode_scan scan, ext2_ino_t *ino, struct ext2_inode *inode, int bufsize)
{
	long r = nondet_long();
	unsigned int fl;
	CHECK((void *)scan == (void *)&SCAN_OBJ && (void *)inode == M.inode_p && bufsize == (int)IN.inode_size, "scan called on the buffer");
	CHECK(verif_g3 == 0 || verif_g4 == verif_g2, "P1 the inode delivered before was rewritten iff its class is selected");
	verif_g3 = verif_g4 = 0;
	if (r)
		return r;
	{
		unsigned char nd[256];	/* uninitialised: arbitrary inode content */
		memcpy(inode, nd, IN.inode_size);
	}
	*ino = nondet_uint();
	verif_g1 = *ino;
	fl = IN.flags;
	/* the documented meaning of the flags: REWRITE_EA_FL EA inodes, REWRITE_DIR_FL directories, REWRITE_NONDIR_FL the rest */
	if (inode->i_flags & EXT4_EA_INODE_FL)
		verif_g2 = (fl & REWRITE_EA_FL) != 0;
	else if ((inode->i_mode & 0170000) == 0040000)
		verif_g2 = (fl & REWRITE_DIR_FL) != 0;
	else
		verif_g2 = (fl & REWRITE_NONDIR_FL) != 0;
	verif_g3 = (*ino != 0);
	return 0;
}

void h_rewrite_inodes_pass(void)
{
	LOAD_IN();
	setup_fs();
	memset(&CTX, 0, sizeof(CTX));
	CTX.fs = &FS;
	CTX.zero_inode = (struct ext2_inode *)ZERO_BUF;
	CTX.ea_buf = (char *)EA_BUF;
	/* literal sizes: a symbolic allocation size is expensive */
	if (IN.inode_size == 128) {
		IN.inode_size = 128;
		CTX.inode_size = 128;
		rewrite_inodes_pass(&CTX, IN.flags);
	} else {
		IN.inode_size = 256;
		CTX.inode_size = 256;
		rewrite_inodes_pass(&CTX, IN.flags);
	}

	CHECK(IN.ret_open == 0, "a scan that cannot be opened is fatal");
	CHECK(verif_g3 == 0, "P1 the pass ends when the scan is exhausted");
	CHECK(M.opens == 1 && M.closes == 1, "P2 scan closed");
	CHECK(M.allocs == 1 && M.frees == 1, "P2 buffer released");
	REACH("end");
}

/* ---- rewrite_inodes ---- */
void h_rewrite_inodes(void)
{
	unsigned int want;

	LOAD_IN();
	setup_fs();
	ASSUME(IN.inode_size == 128 || IN.inode_size == 256 || IN.inode_size == 512 || IN.inode_size == 1024);
	ASSUME(IN.rev >= 1);

	rewrite_inodes(&FS, IN.flags);

	if (IN.creator_os == EXT2_OS_HURD) {
		CHECK(M.passes == 0 && M.allocs == 0, "N3 nothing to do for Hurd");
		REACH("hurd");
	} else {
		want = (IN.feat_incompat & EXT4_FEATURE_INCOMPAT_EA_INODE) && (IN.flags & REWRITE_EA_FL);
		CHECK(M.passes == 1 + want, "N1 one pass, two if EA inodes exist and are selected");
		CHECK(!want || M.pf0 == REWRITE_EA_FL, "N1 the first pass rewrites EA inodes and nothing else");
		CHECK((want ? M.pf1 : M.pf0) == (IN.flags & ~REWRITE_EA_FL), "N1 the last pass rewrites every other selected class");
		CHECK(M.allocs == 2 && M.frees == 2, "buffers released");
		if (want) REACH("two-passes");
	}
	REACH("end");
}

/* ---- rewrite_metadata_checksums ---- */
void ext2fs_init_csum_seed(ext2_filsys fs)
{
	M.seq++;
	M.seed_seq = M.seq;
}
void ext2fs_group_desc_csum_set(ext2_filsys fs, dgrp_t group)
{
	if (M.seed_seq == 0)
		verif_g6 = 1;
	if (group == IN.k)
		verif_g0 = 1;
}
errcode_t ext2fs_read_bitmaps(ext2_filsys fs)
{
	M.seq++;
	M.rb_seq = M.seq;
	return IN.ret_rb;
}
errcode_t ext2fs_mmp_update2(ext2_filsys fs, int immediately)
{
	CHECK(M.ri_seq != 0 && immediately, "M4 MMP block rewritten after the inodes, at once");
	M.seq++;
	M.mmp_seq = M.seq;
	return IN.ret_mmp;
}

void h_rewrite_metadata_checksums(void)
{
	errcode_t r;

	LOAD_IN();
	setup_fs();
	ASSUME(IN.groups >= 1);

	r = rewrite_metadata_checksums(&FS, IN.flags);

	CHECK(IN.ret_rb == 0, "bitmaps that cannot be loaded are fatal");
	CHECK(M.seed_seq == 1 && verif_g6 == 0, "M1 the seed is derived before the first checksum is computed");
	CHECK(!(IN.k < IN.groups) || verif_g0 == 1, "M2 every group descriptor gets a new checksum");
	CHECK(M.rb_seq != 0 && M.ri_seq > M.rb_seq && M.ri_flags == IN.flags, "M3 bitmaps loaded, then the inodes rewritten with the caller's selection");
	CHECK(M.ri_ignore, "M5 checksum errors are ignored while the inodes are rewritten");
	CHECK((FS.flags & EXT2_FLAG_IB_DIRTY) && (FS.flags & EXT2_FLAG_BB_DIRTY), "M3 both bitmaps dirty");
	CHECK((r != 0) == (IN.ret_mmp != 0), "an MMP failure is reported");
	if (r == 0) {
		CHECK(!(FS.flags & EXT2_FLAG_IGNORE_CSUM_ERRORS), "M5 checksum errors no longer ignored afterwards");
		CHECK(!(FS.flags & EXT2_FLAG_SUPER_ONLY) && (FS.flags & EXT2_FLAG_DIRTY), "M5 superblock dirty, descriptors will be written");
		CHECK(SB.s_checksum_type == ((IN.feat_ro & EXT4_FEATURE_RO_COMPAT_METADATA_CSUM) ? EXT2_CRC32C_CHKSUM : 0),
		      "M5 s_checksum_type says crc32c iff metadata_csum");
		REACH("success");
		if (IN.groups > 5 && IN.k == 4) REACH("group-4");
	} else
		REACH("mmp-failed");
	REACH("end");
}
