/*
 * C11 "tune2fs conversions preserve data and consistency" — local necessary conditions of the uninit_bg conversions
 * (misc/tune2fs.c:disable_uninit_bg, enable_uninit_bg), stated from the on-disk format and from what libext2fs does
 * with the group-descriptor-checksum feature, not from the code of these two functions:
 *
 *  format: bg_flags EXT2_BG_BLOCK_UNINIT / EXT2_BG_INODE_UNINIT and bg_itable_unused are only MEANINGFUL while
 *  RO_COMPAT_GDT_CSUM or RO_COMPAT_METADATA_CSUM is set.  A group flagged INODE_UNINIT (or the bg_itable_unused tail of its
 *  inode table) was never written; a group flagged BLOCK_UNINIT has no block bitmap on disk.  Once the feature is cleared
 *  kernel and e2fsck trust every bitmap block and every inode-table block.  Hence
 *
 *  disable_uninit_bg(fs, F) returning 0 must have
 *   D1  loaded the bitmaps while the feature was still visible in fs->super (lib/ext2fs/rw_bitmaps.c:332,398,435 synthesises
 *       the bitmap of an UNINIT group only when ext2fs_has_group_desc_csum(fs)) and marked both bitmaps dirty, so that
 *       ext2fs_close writes a real bitmap for every group;
 *   D2  when only uninit_bg is turned off (F == GDT_CSUM; nobody rewrites the inodes later): run zero_empty_inodes, and run it
 *       while NO group-descriptor-checksum feature is visible in fs->super — libext2fs's inode scan
 *       (lib/ext2fs/inode.c:198-208, 228-229, 294-304, 639-642) skips INODE_UNINIT groups and the bg_itable_unused tail
 *       whenever ext2fs_has_group_desc_csum(fs); this is the REQUIRES of the zero_empty_inodes contract, an obligation at the
 *       real call site;  (F == METADATA_CSUM: rewrite_metadata_checksums scans all inodes later, main());
 *   D3  feature word: F cleared, every other feature bit as on entry;
 *   D4  every group k: BLOCK_UNINIT and INODE_UNINIT cleared, bg_itable_unused == 0, descriptor checksum recomputed AFTER
 *       the last change of the descriptor, the group's bitmap blocks marked in use in fs->block_map;
 *   D5  superblock dirty, EXT2_FLAG_SUPER_ONLY cleared (ext2fs_flush writes group descriptors only then, closefs.c);
 *  and, returning non-zero (main() then exits without ext2fs_close): no group descriptor changed, the superblock not marked
 *  dirty by this function, a full e2fsck requested.
 *
 *  enable_uninit_bg(fs): once the feature is on, the flags ARE trusted, so whatever stale bits bg_flags / bg_itable_unused held
 *  while they were meaningless must be gone:
 *   E1  every group k: neither UNINIT flag set, bg_itable_unused == 0 (all inodes count as possibly in use), checksum
 *       recomputed after the last change; E2 SUPER_ONLY cleared so that the descriptors reach the disk.
 *
 * The loops over the groups are cut by in-place named loop anchors (hooks-pending/tune.diff); group descriptor k (verif_k,
 * arbitrary) is its own object, all other groups share scratch descriptors.
 */
/* VERIF-UNIT
{
 "name": "tune_disable_uninit_bg_gdt",
 "props": ["C11"],
 "level": "U",
 "tier": "quick",
 "tier_after_hooks": "quick",
 "harness": "h_disable_uninit_bg",
 "defines": ["CFG_FLAG=EXT4_FEATURE_RO_COMPAT_GDT_CSUM"],
 "replace": ["zero_empty_inodes", "request_fsck_afterwards"],
 "loop_contracts": true,
 "includes": ["misc", "lib/support"],
 "unwind": 6,
 "cbmc_flags": ["--object-bits", "12"],
 "unwind_reason": "the loop over the groups is closed by its in-place loop contract (invariant + decreases clause, named anchor VERIF_INV_DISABLE_UNINIT_BG_GROUPS); the bound serves the DFCC library loops",
 "functions": ["misc/tune2fs.c:disable_uninit_bg"],
 "assumes": [
  "NEEDS the hooks in hooks-pending/tune.diff (named loop anchors in misc/tune2fs.c)",
  "no contract enforced (3700-line TU): harness CHECKs + obligations inside the stubs / replaced contracts",
  "call-site facts (update_feature_set, both call sites): the feature bit passed in is already clear in fs->super and the OTHER group-descriptor-checksum feature is clear too (a consistent filesystem never carries uninit_bg and metadata_csum together: e2fsck PR_0_META_AND_GDT_CSUM_SET); everything else in the superblock arbitrary",
  "libext2fs callees are stubs with arbitrary results: ext2fs_read_bitmaps, ext2fs_block_bitmap_loc / ext2fs_inode_bitmap_loc (same answer for the same group), ext2fs_super_and_bgd_loc2 (arbitrary answer every call), ext2fs_mark_generic_bmap and ext2fs_group_desc_csum_set (monitor only); ext2fs_group_desc hands out one object for the arbitrary group verif_k and shared scratch objects for all other groups",
  "zero_empty_inodes and request_fsck_afterwards (same file) by contract; their own units: tune_zero_empty_inodes, tune_request_fsck",
  "com_err()/fprintf() diagnostics compiled out by macro",
  "any number of groups (1 .. 2^32-1)"
 ],
 "native": false,
 "timeout": 600
}
*/
/* VERIF-UNIT
{
 "name": "tune_disable_uninit_bg_mcsum",
 "props": ["C11"],
 "level": "U",
 "tier": "quick",
 "tier_after_hooks": "quick",
 "harness": "h_disable_uninit_bg",
 "defines": ["CFG_FLAG=EXT4_FEATURE_RO_COMPAT_METADATA_CSUM"],
 "replace": ["zero_empty_inodes", "request_fsck_afterwards"],
 "loop_contracts": true,
 "includes": ["misc", "lib/support"],
 "unwind": 6,
 "cbmc_flags": ["--object-bits", "12"],
 "unwind_reason": "as tune_disable_uninit_bg_gdt",
 "functions": ["misc/tune2fs.c:disable_uninit_bg"],
 "assumes": [
  "as tune_disable_uninit_bg_gdt, with the metadata_csum bit as the feature being removed (call site: ^metadata_csum together with ^uninit_bg); zero_empty_inodes must NOT be needed here: main() runs rewrite_metadata_checksums afterwards, whose inode scan then sees no checksum feature and bg_itable_unused == 0 everywhere (D4)"
 ],
 "native": false,
 "timeout": 600
}
*/
/* VERIF-UNIT
{
 "name": "tune_enable_uninit_bg",
 "props": ["C11"],
 "level": "U",
 "tier": "quick",
 "tier_after_hooks": "quick",
 "harness": "h_enable_uninit_bg",
 "loop_contracts": true,
 "includes": ["misc", "lib/support"],
 "unwind": 6,
 "cbmc_flags": ["--object-bits", "12"],
 "unwind_reason": "the loop over the groups is closed by its in-place loop contract (named anchor VERIF_INV_ENABLE_UNINIT_BG_GROUPS); the bound serves the DFCC library loops",
 "functions": ["misc/tune2fs.c:enable_uninit_bg"],
 "assumes": [
  "NEEDS the hooks in hooks-pending/tune.diff",
  "no contract enforced; ext2fs_group_desc / ext2fs_group_desc_csum_set as in tune_disable_uninit_bg_gdt; superblock and old descriptor contents arbitrary; any number of groups"
 ],
 "native": false,
 "timeout": 600
}
*/
#include "verif.h"

unsigned long long verif_k;
int verif_old_bit;
/* ghost registers (they are the only globals the stubs called inside the cut loops write):
 *  verif_g0  1 iff ext2fs_group_desc_csum_set(fs, k) has been called for the arbitrary group k
 *  verif_g1  bg_flags | bg_itable_unused << 16 of descriptor k at the time of the LAST such call
 *  verif_g2  bit 0: block-bitmap block of group k marked in fs->block_map, bit 1: inode-bitmap block of group k marked
 *  verif_g4  1 iff request_fsck_afterwards was called
 *  verif_g5  number of descriptor look-ups for group k (writes go through these pointers) */
unsigned long long verif_g0, verif_g1, verif_g2, verif_g3, verif_g4, verif_g5, verif_g6, verif_g7;
const unsigned char *verif_p0, *verif_p1, *verif_p2, *verif_p3;

#include "config.h"
#include "ext2fs/ext2_fs.h"

#ifndef CFG_FLAG
#define CFG_FLAG EXT4_FEATURE_RO_COMPAT_GDT_CSUM
#endif

struct in_s {
	unsigned int k, groups;
	struct ext4_group_desc gd_k;		/* descriptor k on entry */
	unsigned long long bb_k, ib_k;		/* its bitmap locations */
	unsigned long long bb_o[4], ib_o[4];	/* other groups */
	unsigned int feat_compat, feat_incompat, feat_ro;
	unsigned short s_state;
	int fs_flags;
	long ret_read_bitmaps, ret_zero;
};
struct in_s IN;
#include "verif_in.h"

#ifndef VERIF_NATIVE
long nondet_long(void);
unsigned long long nondet_ull(void);
#endif

/* descriptor of the arbitrary group, scratch descriptors for all the others */
static struct ext4_group_desc GD_K, GD_O[4];

#define UNINIT_FLAGS (EXT2_BG_BLOCK_UNINIT | EXT2_BG_INODE_UNINIT)
#define GDK_WORD ((unsigned long long)GD_K.bg_flags | ((unsigned long long)GD_K.bg_itable_unused << 16))

#define VERIF_INV_DISABLE_UNINIT_BG_GROUPS \
	__CPROVER_assigns(i, b, c, d, retval, gd, __CPROVER_object_whole(&GD_K), __CPROVER_object_whole(GD_O), \
			  verif_g0, verif_g1, verif_g2, verif_g4, verif_g5) \
	__CPROVER_loop_invariant(i <= fs->group_desc_count) \
	__CPROVER_loop_invariant(verif_g4 <= 1 && verif_g4 >= __CPROVER_loop_entry(verif_g4)) \
	/* group k done: final content, checksum computed over it */ \
	__CPROVER_loop_invariant(!(verif_k < i) || (GD_K.bg_flags == 0 && GD_K.bg_itable_unused == 0 && \
				  verif_g0 == 1 && verif_g1 == 0 && (verif_g2 & 3) == 3)) \
	/* group k not yet reached: untouched */ \
	__CPROVER_loop_invariant((verif_k < i) || (GD_K.bg_flags == IN.gd_k.bg_flags && \
				  GD_K.bg_itable_unused == IN.gd_k.bg_itable_unused && verif_g0 == 0)) \
	__CPROVER_decreases(fs->group_desc_count - i)

#define VERIF_INV_ENABLE_UNINIT_BG_GROUPS \
	__CPROVER_assigns(i, gd, __CPROVER_object_whole(&GD_K), __CPROVER_object_whole(GD_O), verif_g0, verif_g1, verif_g5) \
	__CPROVER_loop_invariant(i <= fs->group_desc_count) \
	__CPROVER_loop_invariant(!(verif_k < i) || ((GD_K.bg_flags & UNINIT_FLAGS) == 0 && GD_K.bg_itable_unused == 0 && \
				  verif_g0 == 1 && verif_g1 == GD_K.bg_flags)) \
	__CPROVER_loop_invariant((verif_k < i) || verif_g0 == 0) \
	__CPROVER_decreases(fs->group_desc_count - i)

/* diagnostics: the variadic com_err()/fprintf() calls are compiled out (no effect on the state) */
#include <stdio.h>
#include "et/com_err.h"
#define com_err(...) ((void)0)
#define fprintf(...) ((void)0)
#define main tune2fs_real_main
#include "misc/tune2fs.c"
#undef main
#undef com_err
#undef fprintf

static struct struct_ext2_filsys FS;
static struct ext2_super_block SB;
static char BMAP_OBJ;

static struct {
	unsigned int rb_calls, rb_saw_csum, rb_gd_untouched;
	unsigned int zero_calls;
} M;

/* ---- same file, by contract ---- */
static errcode_t zero_empty_inodes(ext2_filsys fs)
	/* D2: the scan must not skip anything */
	REQUIRES(fs == &FS && !ext2fs_has_feature_gdt_csum(fs->super) && !ext2fs_has_feature_metadata_csum(fs->super))
	/* the inode bitmap it consults has been loaded */
	REQUIRES(M.rb_calls == 1 && IN.ret_read_bitmaps == 0)
	ASSIGNS(M.zero_calls)
	ENSURES(M.zero_calls == OLD(M.zero_calls) + 1 && RET == IN.ret_zero);

static void request_fsck_afterwards(ext2_filsys fs)
	REQUIRES(fs == &FS)
	ASSIGNS(verif_g4)
	ENSURES(verif_g4 == 1);

/* ---- libext2fs ---- */
char *gettext(const char *msgid) { return (char *)msgid; }

errcode_t ext2fs_read_bitmaps(ext2_filsys fs)
{
	M.rb_calls++;
	M.rb_saw_csum = ext2fs_has_group_desc_csum(fs);
	M.rb_gd_untouched = (GD_K.bg_flags == IN.gd_k.bg_flags && GD_K.bg_itable_unused == IN.gd_k.bg_itable_unused);
	return IN.ret_read_bitmaps;
}
blk64_t ext2fs_block_bitmap_loc(ext2_filsys fs, dgrp_t group) { return group == IN.k ? IN.bb_k : IN.bb_o[group & 3]; }
blk64_t ext2fs_inode_bitmap_loc(ext2_filsys fs, dgrp_t group) { return group == IN.k ? IN.ib_k : IN.ib_o[group & 3]; }
errcode_t ext2fs_super_and_bgd_loc2(ext2_filsys fs, dgrp_t group, blk64_t *ret_super_blk, blk64_t *ret_old_desc_blk,
				    blk64_t *ret_new_desc_blk, blk_t *ret_used_blks)
{
	*ret_super_blk = nondet_ull();
	*ret_old_desc_blk = nondet_ull();
	*ret_new_desc_blk = nondet_ull();
	return nondet_long();
}
int ext2fs_mark_generic_bmap(ext2fs_generic_bitmap bitmap, blk64_t bitno)
{
	if ((void *)bitmap == (void *)&BMAP_OBJ) {
		if (bitno == IN.bb_k)
			verif_g2 |= 1;
		if (bitno == IN.ib_k)
			verif_g2 |= 2;
	}
	return 0;
}
struct ext2_group_desc *ext2fs_group_desc(ext2_filsys fs, struct opaque_ext2_group_desc *gdp, dgrp_t group)
{
	if (group == IN.k) {
		verif_g5++;
		return (struct ext2_group_desc *)&GD_K;
	}
	return (struct ext2_group_desc *)&GD_O[group & 3];
}
void ext2fs_group_desc_csum_set(ext2_filsys fs, dgrp_t group)
{
	if (group == IN.k) {
		verif_g0 = 1;
		verif_g1 = GDK_WORD;
	}
}

static void setup(void)
{
	LOAD_IN();
	ASSUME(IN.groups >= 1);
	verif_k = IN.k;
	verif_g0 = verif_g1 = verif_g2 = verif_g4 = verif_g5 = 0;
	memset(&M, 0, sizeof(M));
	GD_K = IN.gd_k;
	memset(&FS, 0, sizeof(FS));
	memset(&SB, 0, sizeof(SB));
	FS.super = &SB;
	FS.group_desc_count = IN.groups;
	FS.group_desc = (struct opaque_ext2_group_desc *)GD_O;
	FS.block_map = (ext2fs_block_bitmap)(void *)&BMAP_OBJ;
	FS.flags = IN.fs_flags;
	SB.s_feature_compat = IN.feat_compat;
	SB.s_feature_incompat = IN.feat_incompat;
	SB.s_feature_ro_compat = IN.feat_ro;
	SB.s_state = IN.s_state;
	mount_flags = 0;
}

void h_disable_uninit_bg(void)
{
	errcode_t r;

	setup();
	/* call-site facts: see "assumes" */
	ASSUME(!(IN.feat_ro & (EXT4_FEATURE_RO_COMPAT_GDT_CSUM | EXT4_FEATURE_RO_COMPAT_METADATA_CSUM)));

	r = disable_uninit_bg(&FS, CFG_FLAG);

	CHECK(M.rb_calls == 1, "D1 the bitmaps are loaded exactly once");
	CHECK(M.rb_saw_csum, "D1 the bitmaps are loaded while the checksum feature is visible (uninit groups get synthesised bitmaps)");
	CHECK(M.rb_gd_untouched, "D1 the bitmaps are loaded before any descriptor loses its UNINIT flags");
	CHECK(SB.s_feature_compat == IN.feat_compat && SB.s_feature_incompat == IN.feat_incompat &&
	      SB.s_feature_ro_compat == IN.feat_ro, "D3 feature words: the flag stays cleared, nothing else changes");
	if (r == 0) {
		CHECK(IN.ret_read_bitmaps == 0, "success only if the bitmaps could be loaded");
		CHECK(M.zero_calls == (CFG_FLAG == EXT4_FEATURE_RO_COMPAT_GDT_CSUM),
		      "D2 zero_empty_inodes runs iff only uninit_bg is being turned off");
		CHECK(M.zero_calls == 0 || IN.ret_zero == 0, "success only if every unused inode could be zeroed");
		CHECK((FS.flags & EXT2_FLAG_IB_DIRTY) && (FS.flags & EXT2_FLAG_BB_DIRTY), "D1 both bitmaps dirty");
		CHECK((FS.flags & EXT2_FLAG_DIRTY) && !(FS.flags & EXT2_FLAG_SUPER_ONLY),
		      "D5 superblock dirty and the group descriptors will be written");
		if (IN.k < IN.groups) {
			CHECK((GD_K.bg_flags & UNINIT_FLAGS) == 0, "D4 group k: UNINIT flags cleared");
			CHECK(GD_K.bg_itable_unused == 0, "D4 group k: bg_itable_unused == 0");
			CHECK(verif_g0 == 1 && verif_g1 == GDK_WORD, "D4 group k: checksum recomputed after the last change");
			CHECK((verif_g2 & 3) == 3, "D4 group k: bitmap blocks marked in use");
			REACH("group-k");
		}
		if (IN.groups > 1000 && IN.k == 999) REACH("many-groups");
	} else {
		CHECK(GD_K.bg_flags == IN.gd_k.bg_flags && GD_K.bg_itable_unused == IN.gd_k.bg_itable_unused && verif_g0 == 0,
		      "failure: no descriptor changed");
		CHECK((FS.flags & EXT2_FLAG_DIRTY) == (IN.fs_flags & EXT2_FLAG_DIRTY) &&
		      (FS.flags & EXT2_FLAG_SUPER_ONLY) == (IN.fs_flags & EXT2_FLAG_SUPER_ONLY),
		      "failure: superblock not marked dirty here");
		CHECK(verif_g4 == 1, "failure: a full e2fsck is requested");
		REACH("failed");
#if CFG_FLAG == EXT4_FEATURE_RO_COMPAT_GDT_CSUM
		if (IN.ret_read_bitmaps == 0) REACH("failed-zeroing");
#endif
	}
	REACH("end");
}

void h_enable_uninit_bg(void)
{
	setup();

	enable_uninit_bg(&FS);

	CHECK(!(FS.flags & EXT2_FLAG_SUPER_ONLY), "E2 the group descriptors will be written");
	CHECK((FS.flags | EXT2_FLAG_SUPER_ONLY) == (IN.fs_flags | EXT2_FLAG_SUPER_ONLY), "no other flag touched");
	CHECK(SB.s_feature_compat == IN.feat_compat && SB.s_feature_incompat == IN.feat_incompat &&
	      SB.s_feature_ro_compat == IN.feat_ro, "feature words untouched");
	if (IN.k < IN.groups) {
		CHECK((GD_K.bg_flags & UNINIT_FLAGS) == 0, "E1 group k: no stale UNINIT flag survives");
		CHECK(GD_K.bg_itable_unused == 0, "E1 group k: bg_itable_unused == 0");
		CHECK(verif_g0 == 1 && verif_g1 == GD_K.bg_flags, "E1 group k: checksum recomputed after the last change");
		if (IN.gd_k.bg_flags & EXT2_BG_INODE_UNINIT) REACH("stale-flag");
		REACH("group-k");
	}
	REACH("end");
}
