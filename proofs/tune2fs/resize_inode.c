/*
 * C11, mechanism "dangerous operations ... mark it not-valid while running" / "inode size change moves blocks out of the way
 * and expands inode tables": misc/tune2fs.c:resize_inode as an ordering protocol (level P).
 * The five static workers (get_move_bitmaps, move_block, inode_scan_and_fix, group_desc_scan_and_fix, expand_inode_table)
 * are replaced by contracts that move a ghost stage counter and report an arbitrary result; libext2fs callees are stubs.
 *
 * Obligations (property text + s_state semantics; written before looking at what resize_inode restores):
 *  I1 order: both bitmaps are loaded first; the workers run in the order  get_move_bitmaps -> move_block ->
 *     inode_scan_and_fix -> group_desc_scan_and_fix -> expand_inode_table, each only after the previous one succeeded
 *     (worker preconditions); ext2fs_calculate_summary_stats only after expand_inode_table;
 *  I2 while a worker that modifies the filesystem runs (move_block onwards) EXT2_VALID_FS is clear in the in-memory
 *     superblock (worker preconditions): whatever reaches the disk before the end says "not clean";
 *  I3 success: superblock and block bitmap marked dirty; failure: EXT2_VALID_FS is NOT set again by resize_inode once it was
 *     cleared, and nothing is marked dirty by resize_inode;
 *  I4 the "blocks to be moved" bitmap is freed exactly once on every path behind its allocation, never otherwise;
 *  I5 (unit tune_resize_inode_valid_fs) "when tune2fs asks for a follow-up e2fsck ...": tune2fs asks by clearing
 *     EXT2_VALID_FS (request_fsck_afterwards earlier in the same run: -O ^large_file / ^huge_file / filetype / sparse_super
 *     ..., or main()'s -s 1).  resize_inode must therefore leave the bit as it FOUND it: success => s_state == s_state on
 *     entry.  FAILS on the tree: resize_inode sets EXT2_VALID_FS unconditionally on success, the request is lost
 *     (findings/C11_resize_inode_revalidates).
 */
/* VERIF-UNIT
{
 "name": "tune_resize_inode_protocol",
 "props": ["C11"],
 "level": "P",
 "tier": "quick",
 "harness": "h_resize_inode",
 "replace": ["get_move_bitmaps", "move_block", "inode_scan_and_fix", "group_desc_scan_and_fix", "expand_inode_table"],
 "includes": ["misc", "lib/support"],
 "unwind": 6,
 "unwindset": {"free_blk_move_list.0": 2},
 "cbmc_flags": ["--object-bits", "12"],
 "unwind_reason": "resize_inode has no loop; free_blk_move_list walks the move list, which is empty here because move_block (the only function that adds to it) is replaced by its contract: unwinding assertion on; DFCC library loops",
 "functions": ["misc/tune2fs.c:resize_inode"],
 "assumes": [
  "ordering protocol only: the five static workers are replaced by ghost-stage contracts (arbitrary result; frame = the stage counter: they are ASSUMED not to touch s_state, fs->flags or the move list), libext2fs callees are stubs with arbitrary results",
  "literal geometry (s_inodes_per_group 8192, block size 4096, new inode size 256): the values only feed ext2fs_div_ceil, whose result is handed to a replaced worker",
  "entry s_state and fs->flags arbitrary",
  "error codes returned by libext2fs fit into an int (EXT2_ET_BASE + n, errno): resize_inode hands its errcode_t back through an int"
 ],
 "native": false
}
*/
/* VERIF-UNIT
{
 "name": "tune_resize_inode_valid_fs",
 "props": ["C11"],
 "level": "P",
 "tier": "quick",
 "harness": "h_resize_inode",
 "defines": ["CHECK_I5=1"],
 "replace": ["get_move_bitmaps", "move_block", "inode_scan_and_fix", "group_desc_scan_and_fix", "expand_inode_table"],
 "includes": ["misc", "lib/support"],
 "unwind": 6,
 "unwindset": {"free_blk_move_list.0": 2},
 "cbmc_flags": ["--object-bits", "12"],
 "unwind_reason": "as tune_resize_inode_protocol",
 "functions": ["misc/tune2fs.c:resize_inode"],
 "assumes": [
  "as tune_resize_inode_protocol, plus obligation I5 (success => s_state as on entry)",
  "EXPECTED TO FAIL until findings/C11_resize_inode_revalidates/proposed-fix.patch is applied"
 ],
 "native": false
}
*/
#include "verif.h"

#include "config.h"
#include "ext2fs/ext2_fs.h"

struct in_s {
	unsigned short s_state;
	int fs_flags;
	long ret_rib, ret_rbb, ret_alloc;
	int ret_w[5];
};
struct in_s IN;
#include "verif_in.h"

#include <stdio.h>
#include "et/com_err.h"
#define com_err(...) ((void)0)
#define fprintf(...) ((void)0)
#define main tune2fs_real_main
#include "misc/tune2fs.c"
#undef main
#undef com_err
#undef fprintf

static struct struct_ext2_filsys FS;
static struct ext2_super_block SB;
static char MOVE_BMAP;

/* stage: 0 start, 1 inode bitmap read, 2 block bitmap read, 3 move bitmap allocated, 4.. = workers done */
static struct { unsigned int stage, bmap_allocs, bmap_frees, stats_calls, dynrev; } G;

#define NOT_VALID(fs) (!((fs)->super->s_state & EXT2_VALID_FS))
#define WORKER(n, modifies) \
	REQUIRES(fs == &FS && (void *)bmap == (void *)&MOVE_BMAP && G.stage == 3 + (n) && G.bmap_frees == 0) \
	REQUIRES(!(modifies) || NOT_VALID(fs)) \
	ASSIGNS(G.stage) \
	ENSURES(RET == IN.ret_w[n] && G.stage == (RET ? 100 : 4 + (n)))

static int get_move_bitmaps(ext2_filsys fs, int new_ino_blks_per_grp, ext2fs_block_bitmap bmap) WORKER(0, 1);
static int move_block(ext2_filsys fs, ext2fs_block_bitmap bmap) WORKER(1, 1);
static int inode_scan_and_fix(ext2_filsys fs, ext2fs_block_bitmap bmap) WORKER(2, 1);
static int group_desc_scan_and_fix(ext2_filsys fs, ext2fs_block_bitmap bmap) WORKER(3, 1);
static int expand_inode_table(ext2_filsys fs, unsigned long new_ino_size)
	REQUIRES(fs == &FS && G.stage == 7 && G.bmap_frees == 0 && NOT_VALID(fs) && new_ino_size == 256)
	ASSIGNS(G.stage)
	ENSURES(RET == IN.ret_w[4] && G.stage == (RET ? 100 : 8));

char *gettext(const char *msgid) { return (char *)msgid; }
int fputs(const char *s, FILE *f) { return 0; }
void ext2fs_update_dynamic_rev(ext2_filsys fs) { G.dynrev++; }
errcode_t ext2fs_read_inode_bitmap(ext2_filsys fs)
{
	CHECK(G.stage == 0, "I1 inode bitmap first");
	if (IN.ret_rib == 0)
		G.stage = 1;
	return IN.ret_rib;
}
errcode_t ext2fs_read_block_bitmap(ext2_filsys fs)
{
	CHECK(G.stage == 1, "I1 block bitmap second");
	if (IN.ret_rbb == 0)
		G.stage = 2;
	return IN.ret_rbb;
}
errcode_t ext2fs_allocate_block_bitmap(ext2_filsys fs, const char *descr, ext2fs_block_bitmap *ret)
{
	CHECK(G.stage == 2, "I1 the move bitmap is allocated after both bitmaps were read");
	if (IN.ret_alloc)
		return IN.ret_alloc;
	G.stage = 3;
	G.bmap_allocs++;
	*ret = (ext2fs_block_bitmap)(void *)&MOVE_BMAP;
	return 0;
}
void ext2fs_free_block_bitmap(ext2fs_block_bitmap bitmap)
{
	CHECK((void *)bitmap == (void *)&MOVE_BMAP && G.bmap_allocs == 1 && G.bmap_frees == 0, "I4 the move bitmap is freed once, nothing else");
	G.bmap_frees++;
}
errcode_t ext2fs_calculate_summary_stats(ext2_filsys fs, int super_only)
{
	CHECK(G.stage == 8, "I1 summary statistics only after the inode tables were expanded");
	G.stats_calls++;
	return 0;
}

void h_resize_inode(void)
{
	int r;

	LOAD_IN();
	memset(&G, 0, sizeof(G));
	memset(&FS, 0, sizeof(FS));
	memset(&SB, 0, sizeof(SB));
	FS.super = &SB;
	FS.flags = IN.fs_flags;
	FS.blocksize = 4096;
	SB.s_inodes_per_group = 8192;
	SB.s_state = IN.s_state;
	INIT_LIST_HEAD(&blk_move_list);
	/* resize_inode returns its errcode_t through an int: error codes of libext2fs / errno fit into 32 bits */
	ASSUME(IN.ret_rib == (int)IN.ret_rib && IN.ret_rbb == (int)IN.ret_rbb && IN.ret_alloc == (int)IN.ret_alloc);

	r = resize_inode(&FS, 256);

	CHECK(G.bmap_frees == G.bmap_allocs, "I4 the move bitmap is freed on every path behind its allocation");
	if (r == 0) {
		CHECK(G.stage == 8 && G.stats_calls == 1, "success: every worker ran and succeeded");
		CHECK((FS.flags & EXT2_FLAG_DIRTY) && (FS.flags & EXT2_FLAG_BB_DIRTY), "I3 success: superblock and block bitmap dirty");
		CHECK((SB.s_state & ~EXT2_VALID_FS) == (IN.s_state & ~EXT2_VALID_FS), "no other state bit touched");
#ifdef CHECK_I5
		CHECK(SB.s_state == IN.s_state, "I5 success: EXT2_VALID_FS as found on entry (an earlier request for e2fsck survives)");
#endif
		REACH("success");
		if (!(IN.s_state & EXT2_VALID_FS)) REACH("success-fsck-was-requested");
	} else {
		CHECK(G.stage != 8, "failure: some step failed");
		CHECK(G.stage < 3 || NOT_VALID(&FS), "I3 failure: EXT2_VALID_FS not set again");
		CHECK(G.stage >= 2 || SB.s_state == IN.s_state, "failure while loading the bitmaps: state as on entry");
		CHECK((FS.flags & (EXT2_FLAG_DIRTY | EXT2_FLAG_BB_DIRTY)) == (IN.fs_flags & (EXT2_FLAG_DIRTY | EXT2_FLAG_BB_DIRTY)),
		      "I3 failure: nothing marked dirty");
		REACH("failure");
		if (G.stage == 100) REACH("worker-failed");
	}
	REACH("end");
}
