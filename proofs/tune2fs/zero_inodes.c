/*
 * C11 — misc/tune2fs.c:zero_empty_inodes, the pass that makes "uninit_bg off" safe (see uninit_bg.c, D2).
 * Local necessary conditions, from the property text and the format:
 *  Z1 "keeps every file unchanged": an inode whose bit is set in the inode bitmap is NEVER written;
 *  Z2 an inode the scan delivers whose bit is clear is written back as EXT2_INODE_SIZE zero bytes (the whole on-disk slot,
 *     extra fields included: the kernel trusts the whole slot once the feature is off) — before the next inode is fetched;
 *  Z3 success is reported only if the scan came to its end and no write failed; an error from the scan or from a write is
 *     returned at once;
 *  Z4 the scan that was opened is closed exactly once, nothing else is closed, the buffer is released.
 * Level U/iter: the do-loop is cut by its named anchor; one iteration is proved from an arbitrary state satisfying the
 * invariant "the inode delivered last has been dealt with".
 *
 * Units:  tune_zero_empty_inodes        the scan can be opened (everything else may fail)              green
 *         tune_zero_empty_inodes_open   ext2fs_open_inode_scan may fail as well                        FAILS on the tree:
 *         `goto out` then hands the UNINITIALISED local `scan` to ext2fs_close_inode_scan (which dereferences it):
 *         findings/C11_zero_empty_inodes_uninit_scan
 */
/* VERIF-UNIT
{
 "name": "tune_zero_empty_inodes",
 "props": ["C11"],
 "level": "U/iter",
 "tier": "quick",
 "tier_after_hooks": "quick",
 "harness": "h_zero_empty_inodes",
 "defines": ["EXT2_CUSTOM_MEMORY_ROUTINES"],
 "loop_contracts": true,
 "includes": ["misc", "lib/support"],
 "unwind": 6,
 "cbmc_flags": ["--object-bits", "12"],
 "unwind_reason": "the scan loop is cut by its in-place loop contract (named anchor VERIF_INV_ZERO_EMPTY_INODES); the bound serves the DFCC library loops",
 "functions": ["misc/tune2fs.c:zero_empty_inodes"],
 "assumes": [
  "NEEDS the hooks in hooks-pending/tune.diff",
  "no contract enforced; obligations are CHECKs inside the stubs (hold at every call) and in the harness",
  "ext2fs_open_inode_scan succeeds (the failing case is unit tune_zero_empty_inodes_open)",
  "inode size: 128 for revision 0, else s_inode_size a power of two 128..1024 (cap of the symbolic memset; the format allows up to the block size)",
  "stubs with arbitrary results: ext2fs_get_next_inode_full (arbitrary inode number and arbitrary buffer content per call, may fail), ext2fs_write_inode_full (may fail), ext2fs_get_mem (may fail); ext2fs_test_generic_bmap answers an arbitrary but fixed in-use oracle (uninterpreted function of the inode number)",
  "U/iter: termination of the scan loop is the scan's business (ext2fs_get_next_inode_full delivers 0 at the end)"
 ],
 "native": false,
 "timeout": 600
}
*/
/* VERIF-UNIT
{
 "name": "tune_zero_empty_inodes_open",
 "props": ["C11", "C06"],
 "level": "U/iter",
 "tier": "quick",
 "harness": "h_zero_empty_inodes",
 "defines": ["EXT2_CUSTOM_MEMORY_ROUTINES", "OPEN_MAY_FAIL=1"],
 "loop_contracts": true,
 "includes": ["misc", "lib/support"],
 "unwind": 6,
 "cbmc_flags": ["--object-bits", "12"],
 "unwind_reason": "as tune_zero_empty_inodes",
 "functions": ["misc/tune2fs.c:zero_empty_inodes"],
 "assumes": [
  "as tune_zero_empty_inodes, but ext2fs_open_inode_scan may fail (EXT2_ET_GDESC_BAD_INODE_TABLE, no memory, bad-blocks inode unreadable); it then leaves *ret_scan alone, as the real one does",
  "EXPECTED TO FAIL until findings/C11_zero_empty_inodes_uninit_scan/proposed-fix.patch is applied: Z4 'only the scan that was opened is closed'"
 ],
 "native": false,
 "timeout": 600
}
*/
#include "verif.h"

unsigned long long verif_k;
int verif_old_bit;
/* ghost registers:
 *  verif_g1  inode number delivered last        verif_g2  1 iff that inode is in use (oracle)
 *  verif_g3  1 iff an inode is pending (delivered, non-zero)    verif_g4  1 iff the pending inode has been written
 *  verif_g5  1 iff a callee reported an error   verif_g6  number of inodes written */
unsigned long long verif_g0, verif_g1, verif_g2, verif_g3, verif_g4, verif_g5, verif_g6, verif_g7;
const unsigned char *verif_p0, *verif_p1, *verif_p2, *verif_p3;

#include "config.h"
#include "ext2fs/ext2_fs.h"

struct in_s {
	unsigned int rev, inode_size;
	unsigned int j;			/* ghost byte index into the inode */
	long ret_open, ret_mem;
};
struct in_s IN;
#include "verif_in.h"

#ifndef VERIF_NATIVE
long nondet_long(void);
unsigned int nondet_uint(void);
int __CPROVER_uninterpreted_inuse(unsigned int);
#endif

#define VERIF_INV_ZERO_EMPTY_INODES \
	__CPROVER_assigns(retval, ino, __CPROVER_object_whole(inode), verif_g1, verif_g2, verif_g3, verif_g4, verif_g5, verif_g6) \
	/* Z2: when the next inode is fetched the previous one has been dealt with */ \
	__CPROVER_loop_invariant(verif_g3 == 0 || verif_g2 == 1 || verif_g4 == 1) \
	__CPROVER_loop_invariant(verif_g5 == 0)

#include <stdio.h>
#include "et/com_err.h"
/* EXT2_CUSTOM_MEMORY_ROUTINES removes the inline allocator of ext2fs.h (it moves pointers with memcpy); typed versions below */
errcode_t ext2fs_get_mem(unsigned long size, void *ptr);
errcode_t ext2fs_get_memzero(unsigned long size, void *ptr);
errcode_t ext2fs_get_array(unsigned long count, unsigned long size, void *ptr);
errcode_t ext2fs_free_mem(void *ptr);
#define com_err(...) ((void)0)
#define fprintf(...) ((void)0)
#define main tune2fs_real_main
#include "misc/tune2fs.c"
#undef main
#undef com_err
#undef fprintf

static struct struct_ext2_filsys FS;
static struct ext2_super_block SB;
static char IMAP_OBJ;
static struct { int dummy; } SCAN_OBJ;	/* ext2_inode_scan is opaque for tune2fs.c */
static struct {
	unsigned int opens, closes, allocs, frees;
	void *buf;
	unsigned int len;
} M;

char *gettext(const char *msgid) { return (char *)msgid; }

errcode_t ext2fs_get_mem(unsigned long size, void *ptr)
{
	void *pp;
	if (IN.ret_mem)
		return EXT2_ET_NO_MEMORY;
	CHECK(size == M.len, "Z2 the buffer holds one whole on-disk inode");
	pp = malloc(size);
	ASSUME(pp != 0);
	M.buf = pp;
	M.allocs++;
	*(void **)ptr = pp;
	return 0;
}
errcode_t ext2fs_free_mem(void *ptr)
{
	void *p = *(void **)ptr;
	if (p) {
		CHECK(p == M.buf, "only the inode buffer is freed");
		M.frees++;
	}
	free(p);
	*(void **)ptr = 0;
	return 0;
}
errcode_t ext2fs_open_inode_scan(ext2_filsys fs, int buffer_blocks, ext2_inode_scan *ret_scan)
{
#ifdef OPEN_MAY_FAIL
	if (IN.ret_open)
		return IN.ret_open;	/* *ret_scan untouched, as in lib/ext2fs/inode.c */
#endif
	M.opens++;
	*ret_scan = (ext2_inode_scan)(void *)&SCAN_OBJ;
	return 0;
}
void ext2fs_close_inode_scan(ext2_inode_scan scan)
{
	if (!scan)
		return;		/* a null handle is accepted and ignored (lib/ext2fs/inode.c) */
	CHECK((void *)scan == (void *)&SCAN_OBJ && M.opens == 1, "Z4 only the scan that was opened is closed");
	M.closes++;
}
errcode_t ext2fs_get_next_inode_full(ext2_inode_scan scan, ext2_ino_t *ino, struct ext2_inode *inode, int bufsize)
{
	long r = nondet_long();
	CHECK((void *)scan == (void *)&SCAN_OBJ && (void *)inode == M.buf && bufsize == (int)M.len, "scan called on the buffer");
	CHECK(verif_g3 == 0 || verif_g2 == 1 || verif_g4 == 1, "Z2 an unused inode is zeroed before the next one is fetched");
	verif_g3 = verif_g4 = 0;
	if (r) {
		verif_g5 = 1;
		return r;
	}
	__CPROVER_havoc_slice(inode, M.len);
	*ino = nondet_uint();
	verif_g1 = *ino;
	verif_g2 = __CPROVER_uninterpreted_inuse(*ino) != 0;
	verif_g3 = (*ino != 0);
	return 0;
}
int ext2fs_test_generic_bmap(ext2fs_generic_bitmap bitmap, blk64_t bitno)
{
	if ((void *)bitmap != (void *)&IMAP_OBJ)
		return nondet_uint() & 1;
	return __CPROVER_uninterpreted_inuse((unsigned int)bitno) != 0;
}
errcode_t ext2fs_write_inode_full(ext2_filsys fs, ext2_ino_t ino, struct ext2_inode *inode, int bufsize)
{
	long r = nondet_long();
	CHECK(verif_g3 == 1 && ino == verif_g1, "only the inode just delivered is written");
	CHECK(verif_g2 == 0, "Z1 an inode in use is never written");
	CHECK(bufsize == (int)M.len, "Z2 the whole on-disk inode is written");
	CHECK(!(IN.j < M.len) || ((const unsigned char *)inode)[IN.j] == 0, "Z2 every byte written is zero");
	if (r) {
		verif_g5 = 1;
		return r;
	}
	verif_g4 = 1;
	verif_g6++;
	return 0;
}

void h_zero_empty_inodes(void)
{
	errcode_t r;

	LOAD_IN();
	verif_g1 = verif_g2 = verif_g3 = verif_g4 = verif_g5 = verif_g6 = 0;
	memset(&M, 0, sizeof(M));
	memset(&FS, 0, sizeof(FS));
	memset(&SB, 0, sizeof(SB));
	FS.super = &SB;
	FS.inode_map = (ext2fs_inode_bitmap)(void *)&IMAP_OBJ;
	SB.s_rev_level = IN.rev;
	SB.s_inode_size = IN.inode_size;
	ASSUME(IN.inode_size == 128 || IN.inode_size == 256 || IN.inode_size == 512 || IN.inode_size == 1024);
	M.len = IN.rev == EXT2_GOOD_OLD_REV ? 128 : IN.inode_size;

	r = zero_empty_inodes(&FS);

	CHECK(M.closes == M.opens, "Z4 the scan is closed iff it was opened");
	CHECK(M.frees == M.allocs, "Z4 the buffer is released");
	CHECK(!verif_g5 || r != 0, "Z3 an error of the scan or of a write is reported");
	CHECK(r != 0 || (M.opens == 1 && M.allocs == 1 && verif_g3 == 0), "Z3 success: the scan came to its end");
	CHECK(r != 0 || verif_g5 == 0, "Z3 success: no callee failed");
	if (r == 0) REACH("success");
	if (r == 0 && verif_g6 > 0) REACH("success-after-zeroing");
	if (verif_g5) REACH("callee-error");
	if (IN.ret_mem) REACH("no-memory");
#ifdef OPEN_MAY_FAIL
	if (IN.ret_open) REACH("open-failed");
#endif
	REACH("end");
}
