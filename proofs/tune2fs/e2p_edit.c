/*
 * C11, mechanism "feature edits are validated against ok/clear-ok masks": lib/e2p/feature.c:e2p_edit_feature2, the function
 * that applies the user's -O string to the three feature words for tune2fs.
 *
 * Contract (from the function's own header comment: "The ok_array, if set, allows the application to limit what features the
 * user is allowed to set or clear using this function.  If clear_ok_array is set, then use it [to] tell whether or not it is
 * OK to clear a filesystem feature" — and from what tune2fs relies on, unit tune_update_feature_set), for a caller that
 * passes BOTH masks (tune2fs is the only one):
 *   E1  RET == 0  =>  for each of the three words: bits turned on lie in ok_array[t], bits turned off in clear_ok_array[t];
 *   E2  RET != 0 for a bit outside the masks: *type_err / *mask_err name the offending feature (type | NEGATE for a clear).
 * Level U/iter: the loop over the comma separated words is cut by its in-place loop contract (named anchor); what one word
 * does is proved from an arbitrary state satisfying the invariant E1-so-far.  e2p_string2feature (same file) is replaced by a
 * contract that names an ARBITRARY feature (any word, any mask) or rejects the word; strcasecmp is an arbitrary stub, so
 * every word may or may not be the keyword "none"/"clear".
 *
 * Units:  tune_e2p_edit_feature2_words   no word is the keyword none/clear                        green
 *         tune_e2p_edit_feature2         any word                                                FAILS on the tree: the keyword
 *         zeroes all three words without consulting clear_ok_array -> `tune2fs -O none` clears extent, sparse_super, ext_attr
 *         ... although `tune2fs -O ^extent` is refused (findings/C11_feature_none_bypasses_clear_mask).
 */
/* VERIF-UNIT
{
 "name": "tune_e2p_edit_feature2_words",
 "props": ["C11"],
 "level": "U/iter",
 "tier": "wip",
 "tier_after_hooks": "quick",
 "harness": "h_edit_feature2",
 "defines": ["NO_KEYWORD=1"],
 "replace": ["e2p_string2feature", "skip_over_blanks", "skip_over_word"],
 "loop_contracts": true,
 "unwind": 10,
 "cbmc_flags": ["--object-bits", "10"],
 "unwind_reason": "the word loop is cut by its in-place loop contract (named anchor VERIF_INV_E2P_EDIT_FEATURE2_WORDS); strlen/strcpy run over the request string, capped at 7 characters (see assumes); DFCC library loops",
 "functions": ["lib/e2p/feature.c:e2p_edit_feature2"],
 "assumes": [
  "NEEDS the hook in hooks-pending/tune.diff (named loop anchor in lib/e2p/feature.c)",
  "request string of exactly 7 characters, arbitrary content incl. blanks and commas (shorter requests: pad with separators) (the cap only bounds strlen/strcpy of the private copy; where words end and which feature a word names is decided arbitrarily by the replaced helpers)",
  "both masks given (non-null), arbitrary content; feature words arbitrary; type_err / mask_err given",
  "no word equals the keyword none/clear (strcasecmp against a string literal answers 'different'); unit tune_e2p_edit_feature2 drops this",
  "skip_over_blanks / skip_over_word (same file) by contract: they return SOME position between their argument and the terminating NUL of the request copy (over-approximation of every classification of characters)",
  "malloc succeeds (a failing malloc returns 1 before anything is touched)"
 ],
 "native": false,
 "timeout": 600
}
*/
/* VERIF-UNIT
{
 "name": "tune_e2p_edit_feature2",
 "props": ["C11"],
 "level": "U/iter",
 "tier": "wip",
 "harness": "h_edit_feature2",
 "replace": ["e2p_string2feature", "skip_over_blanks", "skip_over_word"],
 "loop_contracts": true,
 "unwind": 10,
 "cbmc_flags": ["--object-bits", "10"],
 "unwind_reason": "as tune_e2p_edit_feature2_words",
 "functions": ["lib/e2p/feature.c:e2p_edit_feature2"],
 "assumes": [
  "as tune_e2p_edit_feature2_words without the keyword assumption",
  "EXPECTED TO FAIL until findings/C11_feature_none_bypasses_clear_mask/proposed-fix.patch is applied (invariant step: the keyword none/clear clears bits outside clear_ok_array)"
 ],
 "native": false,
 "timeout": 600
}
*/
#include "verif.h"

unsigned long long verif_k;
int verif_old_bit;
/* verif_g0 = length of the request string; verif_g1..g3 = feature words on entry */
unsigned long long verif_g0, verif_g1, verif_g2, verif_g3, verif_g4, verif_g5, verif_g6, verif_g7;
const unsigned char *verif_p0, *verif_p1, *verif_p2, *verif_p3;

struct in_s {
	char str[8];
	unsigned int feat[3], ok[3], clear_ok[3];
	int s2f_ret[4], s2f_type[4];
	unsigned int s2f_mask[4];
};
struct in_s IN;
#include "verif_in.h"

#ifndef VERIF_NATIVE
int nondet_int(void);
unsigned int nondet_uint(void);
#endif

#define E1_WORD(t, entry) \
	(((compat_array[t] & ~(unsigned int)(entry)) & ~ok_array[t]) == 0 && \
	 (((unsigned int)(entry) & ~compat_array[t]) & ~clear_ok_array[t]) == 0)

#define VERIF_INV_E2P_EDIT_FEATURE2_WORDS \
	__CPROVER_assigns(cp, next, neg, mask, compat_type, rc, __CPROVER_object_whole(buf), \
			  __CPROVER_object_whole(compat_array), *type_err, *mask_err, verif_g4, verif_g5) \
	__CPROVER_loop_invariant(cp == 0 || (__CPROVER_same_object(cp, buf) && __CPROVER_POINTER_OFFSET(cp) <= verif_g0)) \
	__CPROVER_loop_invariant(buf[verif_g0] == 0) \
	__CPROVER_loop_invariant(rc == 0 && *type_err == 0 && *mask_err == 0) \
	__CPROVER_loop_invariant(E1_WORD(0, verif_g1) && E1_WORD(1, verif_g2) && E1_WORD(2, verif_g3))

int e2p_string2feature(char *string, int *compat_type, unsigned int *mask);
static char *skip_over_blanks(char *cp);
static char *skip_over_word(char *cp);

#include "lib/e2p/feature.c"

/* word boundaries: some position between cp and the terminating NUL of the request copy (verif_g5 = distance, arbitrary);
 * the content of the words is irrelevant here (e2p_string2feature and strcasecmp answer arbitrarily) */
#define SKIP_CONTRACT \
	REQUIRES(__CPROVER_POINTER_OFFSET(cp) <= verif_g0 && __CPROVER_OBJECT_SIZE(cp) == verif_g0 + 1) \
	ASSIGNS(verif_g5) \
	ENSURES(verif_g5 <= verif_g0 - __CPROVER_POINTER_OFFSET(cp) && __CPROVER_pointer_equals(RET, cp + verif_g5))
static char *skip_over_blanks(char *cp) SKIP_CONTRACT;
static char *skip_over_word(char *cp) SKIP_CONTRACT;

/* arbitrary feature, or "no such word"; verif_g4 counts the calls (independent draws inside the cut loop) */
int e2p_string2feature(char *string, int *compat_type, unsigned int *mask)
	ASSIGNS(*compat_type, *mask, verif_g4)
	ENSURES(RET != 0 || (*compat_type >= 0 && *compat_type <= 2));

int strcasecmp(const char *s1, const char *s2)
{
#ifdef NO_KEYWORD
	return 1;	/* the only two comparisons e2p_edit_feature2 makes itself are against "none" and "clear" */
#else
	return nondet_int();
#endif
}
#ifndef VERIF_NATIVE
void *malloc(size_t n) { return __CPROVER_allocate(n, 0); }
#endif
/* the request string has exactly 7 characters (harness): a literal length keeps the private copy a fixed-size object */
size_t strlen(const char *s) { return 7; }

void h_edit_feature2(void)
{
	unsigned int feat[3], ok[3], clear_ok[3];
	int type_err, r, t;
	unsigned int mask_err;
	char str[8];

	LOAD_IN();
	for (t = 0; t < 8; t++)
		str[t] = IN.str[t];
	str[7] = 0;
	for (t = 0; t < 7; t++)
		ASSUME(str[t] != 0);
	for (t = 0; t < 3; t++) {
		feat[t] = IN.feat[t];
		ok[t] = IN.ok[t];
		clear_ok[t] = IN.clear_ok[t];
	}
	verif_g0 = 7;
	verif_g1 = feat[0]; verif_g2 = feat[1]; verif_g3 = feat[2];
	verif_g4 = verif_g5 = 0;
	type_err = -1;
	mask_err = 0;

	r = e2p_edit_feature2(str, feat, ok, clear_ok, &type_err, &mask_err);

	if (r == 0) {
		for (t = 0; t < 3; t++) {
			CHECK(((feat[t] & ~IN.feat[t]) & ~IN.ok[t]) == 0, "E1 every bit turned on is in the ok mask");
			CHECK(((IN.feat[t] & ~feat[t]) & ~IN.clear_ok[t]) == 0, "E1 every bit turned off is in the clear-ok mask");
		}
		CHECK(type_err == 0 && mask_err == 0, "success: no offending feature reported");
		REACH("accepted");
		if (feat[0] != IN.feat[0]) REACH("accepted-change");
	} else {
		CHECK(mask_err == 0 || type_err == (type_err & (E2P_FEATURE_TYPE_MASK | E2P_FEATURE_NEGATE_FLAG)), "E2 type_err is a word index, possibly negated");
		CHECK(mask_err == 0 || (type_err & E2P_FEATURE_TYPE_MASK) <= 2, "E2 word index 0..2");
		if (mask_err) {
			t = type_err & E2P_FEATURE_TYPE_MASK;
			CHECK(t > 2 || !(((type_err & E2P_FEATURE_NEGATE_FLAG) ? IN.clear_ok[t] : IN.ok[t]) & mask_err),
			      "E2 the feature reported is outside the mask that applies");
		}
		REACH("refused");
		if (mask_err && (type_err & E2P_FEATURE_NEGATE_FLAG)) REACH("refused-clear");
	}
	for (t = 0; t < 3; t++)
		CHECK(ok[t] == IN.ok[t] && clear_ok[t] == IN.clear_ok[t], "the masks are not written");
	REACH("end");
}
