/*
 * C11, mechanism "feature edits are validated against ok/clear-ok masks": lib/e2p/feature.c:e2p_edit_feature2, the function
 * that applies the user's -O string to the three feature words for tune2fs.
 *
 * Contract (from the function's own header comment: "The ok_array, if set, allows the application to limit what features the
 * user is allowed to set or clear using this function.  If clear_ok_array is set, then use it [to] tell whether or not it is
 * OK to clear a filesystem feature" — and from what tune2fs relies on, unit tune_update_feature_set), for a caller that
 * passes BOTH masks (tune2fs is the only one), O = the feature words at the time of the call:
 *   E1  RET == 0  =>  for each of the three words: bits turned on (vs. O) lie in ok_array[t], bits turned off in
 *       clear_ok_array[t];
 *   E2  RET != 0 for a bit outside the masks: *type_err / *mask_err name a feature that really is outside the mask that
 *       applies (type | NEGATE for a clear).
 * Level U/iter, without a hook: E1 is an inductive invariant of the loop over the comma separated words.  The harness hands
 * the real function a request of exactly ONE word (optionally prefixed by ^ - +) together with ARBITRARY current feature
 * words S and ARBITRARY original words O such that E1(S, O) holds, and checks E1(S', O) afterwards: that is the induction
 * step for an arbitrary word at an arbitrary position of an arbitrary request (base: E1(O, O)).  Which feature the word names
 * is decided by e2p_string2feature (same file), replaced by a contract that answers an arbitrary word index / mask or
 * "unknown"; strcasecmp is an arbitrary stub, so the word may or may not be the keyword "none"/"clear".
 *
 * Units:  tune_e2p_edit_feature2_words   the word is not the keyword none/clear                   green
 *         tune_e2p_edit_feature2         any word                                                FAILS on the tree: the keyword
 *         zeroes all three words without consulting clear_ok_array -> `tune2fs -O none` clears extent, sparse_super, ext_attr
 *         ... although `tune2fs -O ^extent` is refused (findings/C11_feature_none_bypasses_clear_mask).
 */
/* VERIF-UNIT
{
 "name": "tune_e2p_edit_feature2_words",
 "props": ["C11"],
 "level": "U/iter",
 "tier": "quick",
 "harness": "h_edit_feature2",
 "defines": ["NO_KEYWORD=1"],
 "replace": ["e2p_string2feature"],
 "unwind": 6,
 "cbmc_flags": ["--object-bits", "8"],
 "unwind_reason": "one-word request of at most 2 characters: the word loop runs once (second test leaves it), skip_over_blanks / skip_over_word / strlen / strcpy walk at most 3 characters (unwinding assertions on); DFCC library loops",
 "functions": ["lib/e2p/feature.c:e2p_edit_feature2"],
 "assumes": [
  "U/iter: induction step of the invariant E1 for ONE word from arbitrary current feature words S related to arbitrary original words O by E1; the word is 'a', '^a', '-a' or '+a' — its letters are irrelevant because e2p_string2feature (replaced by contract: arbitrary word index 0..2 and an arbitrary single-bit mask, or 'unknown') and strcasecmp (arbitrary) are the only readers",
  "both masks given (non-null), arbitrary content; type_err / mask_err given",
  "the word is not the keyword none/clear (strcasecmp answers 'different'); unit tune_e2p_edit_feature2 drops this",
  "strlen() of the 2-character request is the literal 2 (stub; keeps the private copy a fixed-size object); isspace() false for the four characters used (glibc table stub); malloc may fail (e2p_edit_feature2 then returns 1 before anything is touched)"
 ],
 "native": false
}
*/
/* VERIF-UNIT
{
 "name": "tune_e2p_edit_feature2",
 "props": ["C11"],
 "level": "U/iter",
 "tier": "quick",
 "harness": "h_edit_feature2",
 "replace": ["e2p_string2feature"],
 "unwind": 6,
 "cbmc_flags": ["--object-bits", "8"],
 "unwind_reason": "as tune_e2p_edit_feature2_words",
 "functions": ["lib/e2p/feature.c:e2p_edit_feature2"],
 "assumes": [
  "as tune_e2p_edit_feature2_words without the keyword assumption",
  "EXPECTED TO FAIL until findings/C11_feature_none_bypasses_clear_mask/proposed-fix.patch is applied (E1: the keyword none/clear clears bits outside clear_ok_array)"
 ],
 "native": false
}
*/
/* VERIF-UNIT
{
 "name": "tune_e2p_feature_list_single_bit",
 "props": ["C11"],
 "level": "U",
 "tier": "quick",
 "harness": "h_feature_list",
 "static_keep": ["feature_list"],
 "unwind": 6,
 "cbmc_flags": ["--object-bits", "8"],
 "unwind_reason": "no loop (one arbitrary table index); DFCC library loops",
 "functions": ["lib/e2p/feature.c:feature_list"],
 "assumes": [
  "backs the contract used for e2p_string2feature in tune_e2p_edit_feature2*: every entry of the name table feature_list[] (kept with its initialiser) carries a word index 0..2 and a mask of exactly one bit; the table ends with a null name.  The FEATURE_xNN spelling yields 1 << NN by construction (not covered: the table look-up loop itself)"
 ],
 "native": false
}
*/
#include "verif.h"

struct in_s {
	unsigned int k;
	char c0;
	unsigned int feat[3], orig[3], ok[3], clear_ok[3];
};
struct in_s IN;
#include "verif_in.h"

#ifndef VERIF_NATIVE
int nondet_int(void);
#endif

int e2p_string2feature(char *string, int *compat_type, unsigned int *mask);

#include "lib/e2p/feature.c"

/* an arbitrary feature, or "no such word" */
int e2p_string2feature(char *string, int *compat_type, unsigned int *mask)
	ASSIGNS(*compat_type, *mask)
	ENSURES(RET != 0 || (*compat_type >= 0 && *compat_type <= 2))
	/* ONE feature bit: every entry of feature_list[] is a single-bit macro (unit tune_e2p_feature_list_single_bit), FEATURE_xNN
	 * gives 1 << NN */
	ENSURES(RET != 0 || (*mask != 0 && (*mask & (*mask - 1)) == 0));

/* glibc's isspace(): table look-up */
static unsigned short CT[384];
static const unsigned short *CTP;
const unsigned short **__ctype_b_loc(void) { return &CTP; }

/* the request always has exactly two characters (harness): a literal keeps the private copy a fixed-size object */
size_t strlen(const char *s) { return 2; }
static int KEYWORD_SEEN;
int strcasecmp(const char *s1, const char *s2)
{
#ifdef NO_KEYWORD
	return 1;	/* the only two comparisons e2p_edit_feature2 makes itself are against "none" and "clear" */
#else
	int r = nondet_int();
	if (r == 0)
		KEYWORD_SEEN = 1;
	return r;
#endif
}

void h_feature_list(void)
{
	unsigned int n = sizeof(feature_list) / sizeof(feature_list[0]);

	LOAD_IN();
	ASSUME(IN.k < n - 1);
	CHECK(feature_list[IN.k].string != 0, "only the last entry has a null name");
	CHECK(feature_list[IN.k].compat >= 0 && feature_list[IN.k].compat <= 2, "word index 0..2");
	CHECK(feature_list[IN.k].mask != 0 && (feature_list[IN.k].mask & (feature_list[IN.k].mask - 1)) == 0, "exactly one feature bit");
	CHECK(feature_list[n - 1].string == 0, "terminator");
	if (IN.k == 40) REACH("entry-40");
	REACH("end");
}

#define E1(s, o, t) ((((s)[t] & ~(o)[t]) & ~IN.ok[t]) == 0 && (((o)[t] & ~(s)[t]) & ~IN.clear_ok[t]) == 0)

void h_edit_feature2(void)
{
	unsigned int feat[3], ok[3], clear_ok[3];
	int type_err, r, t;
	unsigned int mask_err;
	char str[3];

	LOAD_IN();
	ASSUME(IN.c0 == '^' || IN.c0 == '-' || IN.c0 == '+' || IN.c0 == 'a');
	str[0] = IN.c0; str[1] = 'a'; str[2] = 0;
	CTP = CT + 128;
	CT[128 + '^'] = CT[128 + '-'] = CT[128 + '+'] = CT[128 + 'a'] = CT[128] = 0;
	for (t = 0; t < 3; t++) {
		feat[t] = IN.feat[t];
		ok[t] = IN.ok[t];
		clear_ok[t] = IN.clear_ok[t];
		/* induction hypothesis: the words processed so far kept E1 with respect to the original words */
		ASSUME(E1(IN.feat, IN.orig, t));
	}
	type_err = -1;
	mask_err = 0;
	KEYWORD_SEEN = 0;

	r = e2p_edit_feature2(str, feat, ok, clear_ok, &type_err, &mask_err);

	if (r == 0) {
		for (t = 0; t < 3; t++) {
			CHECK(((feat[t] & ~IN.orig[t]) & ~IN.ok[t]) == 0, "E1 every bit turned on is in the ok mask");
			CHECK(((IN.orig[t] & ~feat[t]) & ~IN.clear_ok[t]) == 0, "E1 every bit turned off is in the clear-ok mask");
		}
		CHECK(type_err == 0 && mask_err == 0, "success: no offending feature reported");
		REACH("accepted");
		if (feat[0] != IN.feat[0]) REACH("accepted-change");
		if (feat[2] != IN.feat[2] && IN.c0 == '^') REACH("accepted-clear");
	} else {
		if (mask_err) {
			t = type_err & E2P_FEATURE_TYPE_MASK;
			CHECK(type_err == (type_err & (E2P_FEATURE_TYPE_MASK | E2P_FEATURE_NEGATE_FLAG)) && t <= 2, "E2 type_err is a word index, possibly negated");
			CHECK(t > 2 || !(((type_err & E2P_FEATURE_NEGATE_FLAG) ? IN.clear_ok[t] : IN.ok[t]) & mask_err),
			      "E2 the feature reported is outside the mask that applies");
			CHECK(KEYWORD_SEEN || !(type_err & E2P_FEATURE_NEGATE_FLAG) == (IN.c0 == '+' || IN.c0 == 'a'),
			      "E2 NEGATE reported iff the word asked for a clear");
		}
		for (t = 0; t < 3; t++)
			CHECK(feat[t] == IN.feat[t], "a refused word changes nothing itself");
		REACH("refused");
		if (mask_err && (type_err & E2P_FEATURE_NEGATE_FLAG)) REACH("refused-clear");
		if (!mask_err) REACH("refused-unknown-word");
	}
	for (t = 0; t < 3; t++)
		CHECK(ok[t] == IN.ok[t] && clear_ok[t] == IN.clear_ok[t], "the masks are not written");
	REACH("end");
}
