/*
 * C11, mechanism "all checksums are rewritten ...": the directory part, misc/tune2fs.c:rewrite_directory and its per-block
 * worker rewrite_dir_block.  The block checksum itself is computed inside ext2fs_write_dir_block4 (C14, proofs/csum); what
 * tune2fs must get right is the SHAPE of the block it hands over, because the checksum of a leaf block lives in a 12-byte
 * fake entry at the end of the block and the checksum of an htree node in an 8-byte tail behind the count/limit array
 * (ext4 on-disk format; kernel ext4_check_dir_entry / ext4_initialize_dirent_tail / dx_node_limit):
 *
 * rewrite_directory(fs, dir, inode)                                                          [tune_rewrite_directory, P]
 *  R1 the directory's blocks are visited read-only (BLOCK_FLAG_READ_ONLY: no block pointer changes - "keeps every file
 *     unchanged") and data blocks only, with rewrite_dir_block, a block-sized buffer, the directory's number and
 *     is_htree = EXT2_INDEX_FL, clear_htree = !dir_index;  R2 the buffer is released on every path;
 *  R3 the inode is touched only to drop EXT2_INDEX_FL, only when the feature is gone and every block was visited, and is then
 *     written (the shape rewrite_one_inode's unit relies on); R4 errors of the iterator, of the inode write and of the worker
 *     are returned.
 * rewrite_dir_block, leaf block, metadata_csum ON                                  [tune_rewrite_dir_block_leaf_csum, U/k]
 *  L1 block with a slot for the tail (last entry unused, 12 bytes): the slot becomes the tail (name_len 0, file type 0xDE);
 *  L2 block whose last entry has slack behind its name: the entry is shortened by 12, still holds its name, a fresh tail is
 *     put into the last 12 bytes; L3 otherwise nothing is changed or written and a directory fsck is requested;
 *  L4 in L1/L2 the block handed to ext2fs_write_dir_block4 is a well-formed chain ending in a valid tail, every byte outside
 *     the last entry's rec_len field and the last 12 bytes is as read, and nothing is modified after the write.
 * rewrite_dir_block, leaf block, metadata_csum OFF                               [tune_rewrite_dir_block_leaf_nocsum, U/k]
 *  N1 a trailing 12-byte unused nameless entry (a former tail) is merged into the entry before it and the block is written;
 *  N2 any other block is neither changed nor written; the chain stays well formed, entries keep inode / name.
 * rewrite_dir_block, htree node (root or interior)                                       [tune_rewrite_dir_block_dx, U]
 *  X1 csum ON: a full node (count == limit) cannot give up a slot for the tail: untouched, directory fsck requested;
 *     otherwise limit = (blocksize - (offset + 8)) / 8 and the block is written;
 *  X2 csum OFF: limit = (blocksize - offset) / 8, written iff that changed it;  X3 nothing but the limit field changes.
 */
/* VERIF-UNIT
{
 "name": "tune_rewrite_directory",
 "props": ["C11"],
 "level": "P",
 "tier": "quick",
 "harness": "h_rewrite_directory",
 "defines": ["EXT2_CUSTOM_MEMORY_ROUTINES"],
 "includes": ["misc", "lib/support"],
 "unwind": 6,
 "cbmc_flags": ["--object-bits", "12"],
 "unwind_reason": "loop-free; DFCC library loops",
 "functions": ["misc/tune2fs.c:rewrite_directory"],
 "assumes": [
  "no contract enforced; ext2fs_block_iterate3 is a monitor stub (it does not call the worker: arbitrary result and arbitrary worker error code), ext2fs_write_inode and the allocator are stubs with arbitrary results",
  "inode content, features, block size (a 16-byte object stands for the block buffer: rewrite_directory only passes it on) arbitrary"
 ],
 "native": false
}
*/
/* VERIF-UNIT
{
 "name": "tune_rewrite_dir_block_leaf_csum",
 "props": ["C11"],
 "level": "U/k",
 "tier": "quick",
 "harness": "h_dir_block_leaf",
 "defines": ["CFG_CSUM=1"],
 "replace": ["request_dir_fsck_afterwards"],
 "sources": ["lib/ext2fs/dir_iterate.c", "lib/ext2fs/csum.c"],
 "includes": ["misc", "lib/support"],
 "unwind": 7,
 "cbmc_flags": ["--object-bits", "12"],
 "unwind_reason": "the walk over the entries of a 64-byte block with entries of at least 12 bytes visits at most 5 entries (unwinding assertions on); DFCC library loops",
 "functions": ["misc/tune2fs.c:rewrite_dir_block"],
 "assumes": [
  "block size 64 stands for the real block sizes (cap of the symbolic-offset accesses; rewrite_dir_block uses the block size only as the end of the buffer; the 64 KiB rec_len encoding of ext2fs_get/set_rec_len is therefore not covered)",
  "the block read is a consistent leaf block (precondition: the filesystem passed e2fsck): a chain of entries from offset 0 to exactly the end, each with rec_len >= 12, a multiple of 4, >= 8 + name_len rounded up to 4 (kernel ext4_check_dir_entry); content otherwise arbitrary",
  "ext2fs_get_rec_len / ext2fs_set_rec_len / ext2fs_initialize_dirent_tail are the real functions (lib/ext2fs/dir_iterate.c, csum.c); ext2fs_read_dir_block4 delivers the arbitrary block or fails; ext2fs_write_dir_block4 records the image it is given (its checksum computation is C14's) and may fail; request_dir_fsck_afterwards by contract",
  "not an htree node (is_htree clear, or clear_htree set); metadata_csum on"
 ],
 "native": false,
 "timeout": 900
}
*/
/* VERIF-UNIT
{
 "name": "tune_rewrite_dir_block_leaf_csum_128",
 "props": ["C11"],
 "level": "U/k",
 "tier": "thorough",
 "harness": "h_dir_block_leaf",
 "defines": ["CFG_CSUM=1", "CFG_BS=128"],
 "replace": ["request_dir_fsck_afterwards"],
 "sources": ["lib/ext2fs/dir_iterate.c", "lib/ext2fs/csum.c"],
 "includes": ["misc", "lib/support"],
 "unwind": 13,
 "cbmc_flags": ["--object-bits", "12"],
 "unwind_reason": "128-byte block, entries of at least 12 bytes: at most 10 entries (unwinding assertions on); DFCC library loops",
 "functions": ["misc/tune2fs.c:rewrite_dir_block"],
 "assumes": [
  "as tune_rewrite_dir_block_leaf_csum with a 128-byte stand-in block (256 bytes: no answer within 10 minutes)"
 ],
 "native": false,
 "timeout": 900
}
*/
/* VERIF-UNIT
{
 "name": "tune_rewrite_dir_block_leaf_nocsum",
 "props": ["C11"],
 "level": "U/k",
 "tier": "quick",
 "harness": "h_dir_block_leaf",
 "defines": ["CFG_CSUM=0"],
 "replace": ["request_dir_fsck_afterwards"],
 "sources": ["lib/ext2fs/dir_iterate.c", "lib/ext2fs/csum.c"],
 "includes": ["misc", "lib/support"],
 "unwind": 7,
 "cbmc_flags": ["--object-bits", "12"],
 "unwind_reason": "as tune_rewrite_dir_block_leaf_csum",
 "functions": ["misc/tune2fs.c:rewrite_dir_block"],
 "assumes": [
  "as tune_rewrite_dir_block_leaf_csum, with metadata_csum off"
 ],
 "native": false,
 "timeout": 900
}
*/
/* VERIF-UNIT
{
 "name": "tune_rewrite_dir_block_dx",
 "props": ["C11"],
 "level": "U",
 "tier": "quick",
 "harness": "h_dir_block_dx",
 "replace": ["request_dir_fsck_afterwards"],
 "sources": ["lib/ext2fs/dir_iterate.c", "lib/ext2fs/csum.c"],
 "includes": ["misc", "lib/support"],
 "unwind": 7,
 "cbmc_flags": ["--object-bits", "12"],
 "unwind_reason": "no loop on the htree-node path; DFCC library loops",
 "functions": ["misc/tune2fs.c:rewrite_dir_block"],
 "assumes": [
  "block size 64 stands for the real block sizes (as tune_rewrite_dir_block_leaf_csum)",
  "the block read is an htree node as the real ext2fs_get_dx_countlimit (lib/ext2fs/csum.c) recognises it: interior node (fake entry spanning the block, count/limit at offset 8) or root ('.' of 12 bytes, '..' spanning the rest, dx_root_info, count/limit at offset 32), count and limit within the block; content otherwise arbitrary; is_htree set, clear_htree clear; metadata_csum on or off",
  "ext2fs_read_dir_block4 / ext2fs_write_dir_block4 / request_dir_fsck_afterwards as in tune_rewrite_dir_block_leaf_csum"
 ],
 "native": false,
 "timeout": 900
}
*/
#include "verif.h"

#include "config.h"
#include "ext2fs/ext2_fs.h"

#ifndef CFG_BS
#define CFG_BS 64
#endif
#define BS CFG_BS

struct in_s {
	unsigned char block[BS];
	unsigned int j;
	unsigned long long blk;
	unsigned int dir;
	long ret_read, ret_write, ret_iter, ret_mem, ret_wino, cb_err;
	int csum, is_htree, clear_htree;
	unsigned int i_flags, feat_compat;
	unsigned int blocksize;
};
struct in_s IN;
#include "verif_in.h"

#include <stdio.h>
#include "et/com_err.h"
#ifdef EXT2_CUSTOM_MEMORY_ROUTINES
errcode_t ext2fs_get_mem(unsigned long size, void *ptr);
errcode_t ext2fs_get_memzero(unsigned long size, void *ptr);
errcode_t ext2fs_get_array(unsigned long count, unsigned long size, void *ptr);
errcode_t ext2fs_free_mem(void *ptr);
#endif
#define com_err(...) ((void)0)
#define fprintf(...) ((void)0)
#define main tune2fs_real_main
#include "misc/tune2fs.c"
#undef main
#undef com_err
#undef fprintf

static struct struct_ext2_filsys FS;
static struct ext2_super_block SB;
static unsigned char BUF[BS];
static struct rewrite_dir_context DCTX;
static struct ext2_inode DINODE;

static struct {
	unsigned int reads, writes, fsck_req;
	unsigned char written[BS];
	/* rewrite_directory */
	unsigned int iter_calls, allocs, frees, ino_writes;
	unsigned int w_flags;
	void *bufp;
} M;

static void request_dir_fsck_afterwards(ext2_filsys fs)
	REQUIRES(fs == &FS)
	ASSIGNS(M.fsck_req)
	ENSURES(M.fsck_req == OLD(M.fsck_req) + 1);

char *gettext(const char *msgid) { return (char *)msgid; }

errcode_t ext2fs_read_dir_block4(ext2_filsys fs, blk64_t block, void *buf, int flags, ext2_ino_t ino)
{
	CHECK(fs == &FS && block == IN.blk && buf == (void *)BUF && ino == IN.dir, "the directory's block is read into the context buffer");
	M.reads++;
	if (IN.ret_read)
		return IN.ret_read;
	memcpy(BUF, IN.block, BS);
	return 0;
}
errcode_t ext2fs_write_dir_block4(ext2_filsys fs, blk64_t block, void *buf, int flags, ext2_ino_t ino)
{
	CHECK(fs == &FS && block == IN.blk && buf == (void *)BUF && ino == IN.dir && M.reads == 1, "the block goes back where it came from, for the same directory");
	M.writes++;
	memcpy(M.written, BUF, BS);
	return IN.ret_write;
}

/* ---- the format, written independently of rewrite_dir_block ---- */
#define LE16(p) ((unsigned int)(p)[0] | ((unsigned int)(p)[1] << 8))
#define LE32(p) ((unsigned int)(p)[0] | ((unsigned int)(p)[1] << 8) | ((unsigned int)(p)[2] << 16) | ((unsigned int)(p)[3] << 24))
#define D_INODE(b, o) LE32((b) + (o))
#define D_RECLEN(b, o) LE16((b) + (o) + 4)
#define D_NAMELEN(b, o) ((unsigned int)(b)[(o) + 6])
#define D_FTYPE(b, o) ((unsigned int)(b)[(o) + 7])
#define PAD4(n) (((n) + 3u) & ~3u)

/* kernel ext4_check_dir_entry on the entry at offset o */
static int entry_ok(const unsigned char *b, unsigned int o)
{
	unsigned int rl = D_RECLEN(b, o);
	return o + 8 <= BS && rl >= 12 && (rl & 3) == 0 && rl >= 8 + PAD4(D_NAMELEN(b, o)) && o + rl <= BS;
}
/* walks the chain; returns 1 iff it is well formed and ends exactly at `end`; *last / *prev = offsets of the last entry and the
 * one before it (BS = none) */
static int chain_ok(const unsigned char *b, unsigned int end, unsigned int *last, unsigned int *prev)
{
	unsigned int o = 0, n;
	*last = *prev = BS;
	for (n = 0; n < BS / 12 + 1 && o < end; n++) {
		if (!entry_ok(b, o) || o + D_RECLEN(b, o) > end)
			return 0;
		*prev = *last;
		*last = o;
		o += D_RECLEN(b, o);
	}
	return o == end;
}
static int tail_ok(const unsigned char *b)
{
	return D_INODE(b, BS - 12) == 0 && D_RECLEN(b, BS - 12) == 12 && D_NAMELEN(b, BS - 12) == 0 && D_FTYPE(b, BS - 12) == 0xDE;
}

static void setup_block(void)
{
	LOAD_IN();
	memset(&M, 0, sizeof(M));
	memset(&FS, 0, sizeof(FS));
	memset(&SB, 0, sizeof(SB));
	memset(&DCTX, 0, sizeof(DCTX));
	FS.super = &SB;
	FS.blocksize = BS;
	DCTX.buf = (char *)BUF;
	DCTX.dir = IN.dir;
	DCTX.errcode = 0;
	ASSUME(IN.j < BS);
}

#ifndef CFG_CSUM
#define CFG_CSUM 1
#endif

void h_dir_block_leaf(void)
{
	unsigned int last, prev, l2, p2, rl, nl;
	blk64_t blk;
	int r, slot, room;

	setup_block();
	SB.s_feature_ro_compat = CFG_CSUM ? EXT4_FEATURE_RO_COMPAT_METADATA_CSUM : 0;
	/* not treated as an htree node */
	if (IN.is_htree) { DCTX.is_htree = 1; DCTX.clear_htree = 1; } else { DCTX.is_htree = 0; DCTX.clear_htree = IN.clear_htree != 0; }
	/* consistent leaf block */
	ASSUME(chain_ok(IN.block, BS, &last, &prev));
	rl = D_RECLEN(IN.block, last);
	nl = D_NAMELEN(IN.block, last);
	blk = IN.blk;

	r = rewrite_dir_block(&FS, &blk, 0, 0, 0, &DCTX);

	CHECK(blk == IN.blk, "the block pointer is not changed");
	CHECK(M.reads == 1, "the block is read once");
	if (IN.ret_read) {
		CHECK(r == BLOCK_ABORT && DCTX.errcode == IN.ret_read && M.writes == 0, "a read error stops the walk, nothing written");
		REACH("read-error");
		return;
	}
	CHECK(M.writes <= 1, "at most one write");
	CHECK(M.writes == 0 || M.written[IN.j] == BUF[IN.j], "L4/N2 nothing is modified after the write");
	if (M.writes && IN.ret_write) {
		CHECK(r == BLOCK_ABORT && DCTX.errcode == IN.ret_write, "a write error stops the walk");
		REACH("write-error");
	} else
		CHECK(r == 0 && DCTX.errcode == 0, "otherwise the walk goes on");
#if CFG_CSUM
	slot = D_INODE(IN.block, last) == 0 && rl == 12;
	room = rl > 8 + PAD4(nl) + 12;
	if (slot) {
		CHECK(M.writes == 1 && M.fsck_req == 0, "L1 a block with a tail slot is completed and written");
		CHECK(tail_ok(M.written), "L1/L4 valid tail");
		CHECK(chain_ok(M.written, BS, &l2, &p2) && l2 == BS - 12, "L4 well-formed chain ending in the tail");
		CHECK(IN.j >= BS - 12 || M.written[IN.j] == IN.block[IN.j], "L4 every byte in front of the tail as read");
		REACH("tail-slot");
	} else if (room) {
		CHECK(M.writes == 1 && M.fsck_req == 0, "L2 a block with slack gets a tail and is written");
		CHECK(tail_ok(M.written), "L2/L4 valid tail");
		CHECK(chain_ok(M.written, BS, &l2, &p2) && l2 == BS - 12 && p2 == last, "L4 well-formed chain: the old last entry, then the tail");
		CHECK(D_RECLEN(M.written, last) == rl - 12 && rl - 12 >= 8 + PAD4(nl), "L2 the last entry is 12 bytes shorter and still holds its name");
		CHECK(IN.j >= BS - 12 || (IN.j >= last + 4 && IN.j < last + 6) || M.written[IN.j] == IN.block[IN.j],
		      "L4 every byte outside the last rec_len field and the tail as read");
		REACH("tail-inserted");
	} else {
		CHECK(M.writes == 0 && M.fsck_req == 1 && BUF[IN.j] == IN.block[IN.j], "L3 no room: untouched, directory fsck requested");
		REACH("no-room");
	}
#else
	slot = prev != BS && D_INODE(IN.block, last) == 0 && nl == 0 && rl == 12;
	CHECK(M.fsck_req == 0, "no fsck needed to drop a tail");
	if (slot) {
		CHECK(M.writes == 1, "N1 a former tail is merged away and the block written");
		CHECK(chain_ok(M.written, BS, &l2, &p2) && l2 == prev, "N1 well-formed chain ending with the entry that was next to last");
		CHECK(D_RECLEN(M.written, prev) == D_RECLEN(IN.block, prev) + 12, "N1 it grew by the 12 bytes of the tail");
		CHECK((IN.j >= prev + 4 && IN.j < prev + 6) || M.written[IN.j] == IN.block[IN.j], "N1 every byte outside that rec_len field as read");
		REACH("tail-dropped");
	} else {
		CHECK(M.writes == 0 && BUF[IN.j] == IN.block[IN.j], "N2 no tail: neither changed nor written");
		REACH("no-tail");
	}
#endif
	REACH("end");
}

void h_dir_block_dx(void)
{
	unsigned int off, count, limit, newlimit;
	blk64_t blk;
	int r, csum;

	setup_block();
	csum = IN.csum != 0;
	SB.s_feature_ro_compat = csum ? EXT4_FEATURE_RO_COMPAT_METADATA_CSUM : 0;
	DCTX.is_htree = 1;
	DCTX.clear_htree = 0;
	/* an htree node: interior (fake entry spans the block) or root ('.', '..', dx_root_info) */
	if (D_RECLEN(IN.block, 0) == BS && D_NAMELEN(IN.block, 0) == 0 && D_FTYPE(IN.block, 0) == 0)
		off = 8;
	else {
		ASSUME(D_RECLEN(IN.block, 0) == 12 && D_RECLEN(IN.block, 12) == BS - 12);
		ASSUME(LE32(IN.block + 24) == 0 && IN.block[29] == 8);	/* dx_root_info: reserved_zero, info_length */
		off = 32;
	}
	count = LE16(IN.block + off + 2);
	limit = LE16(IN.block + off);
	ASSUME(limit <= (BS - off) / 8 && count <= (BS - off) / 8);
	blk = IN.blk;

	r = rewrite_dir_block(&FS, &blk, 0, 0, 0, &DCTX);

	CHECK(blk == IN.blk && M.reads == 1, "read once, block pointer untouched");
	if (IN.ret_read) {
		CHECK(r == BLOCK_ABORT && M.writes == 0, "a read error stops the walk");
		return;
	}
	CHECK(M.writes == 0 || M.written[IN.j] == BUF[IN.j], "nothing is modified after the write");
	CHECK((IN.j >= off && IN.j < off + 2) || BUF[IN.j] == IN.block[IN.j], "X3 nothing but the limit field changes");
	if (csum) {
		newlimit = (BS - (off + 8)) / 8;
		if (count == limit) {
			CHECK(M.writes == 0 && M.fsck_req == 1 && BUF[IN.j] == IN.block[IN.j] && r == 0, "X1 full node: untouched, directory fsck requested");
			REACH("dx-full");
		} else {
			CHECK(M.writes == 1 && M.fsck_req == 0 && LE16(M.written + off) == newlimit, "X1 limit leaves room for the 8-byte tail; block written");
			REACH("dx-csum");
			if (off == 32) REACH("dx-root");
		}
	} else {
		newlimit = (BS - off) / 8;
		CHECK(LE16(BUF + off) == newlimit && M.fsck_req == 0, "X2 limit is the whole rest of the block");
		CHECK(M.writes == (limit != newlimit), "X2 written iff changed");
		REACH("dx-nocsum");
	}
	REACH("end");
}

/* ---- rewrite_directory ---- */
#ifdef EXT2_CUSTOM_MEMORY_ROUTINES
errcode_t ext2fs_get_mem(unsigned long size, void *ptr)
{
	void *pp;
	if (IN.ret_mem)
		return IN.ret_mem;
	CHECK(size == IN.blocksize, "R1 the buffer holds one block");
	pp = malloc(16);
	ASSUME(pp != 0);
	M.bufp = pp;
	M.allocs++;
	*(void **)ptr = pp;
	return 0;
}
errcode_t ext2fs_free_mem(void *ptr)
{
	void *p = *(void **)ptr;
	if (p) {
		CHECK(p == M.bufp, "only the block buffer is freed");
		M.frees++;
	}
	free(p);
	*(void **)ptr = 0;
	return 0;
}
#endif
errcode_t ext2fs_block_iterate3(ext2_filsys fs, ext2_ino_t ino, int flags, char *block_buf,
				int (*func)(ext2_filsys fs, blk64_t *blocknr, e2_blkcnt_t blockcnt, blk64_t ref_blk, int ref_offset, void *priv_data),
				void *priv_data)
{
	struct rewrite_dir_context *c = priv_data;
	CHECK(fs == &FS && ino == IN.dir, "R1 the directory's own blocks");
	CHECK((flags & BLOCK_FLAG_READ_ONLY) && (flags & BLOCK_FLAG_DATA_ONLY), "R1 read-only walk over data blocks");
	CHECK(func == rewrite_dir_block, "R1 worker");
	CHECK((void *)c->buf == M.bufp && M.bufp != 0 && M.frees == 0 && c->dir == IN.dir && c->errcode == 0, "R1 context: buffer, directory, no error yet");
	CHECK((c->is_htree != 0) == ((IN.i_flags & EXT2_INDEX_FL) != 0), "R1 is_htree says whether the directory is indexed");
	CHECK((c->clear_htree != 0) == !(IN.feat_compat & EXT2_FEATURE_COMPAT_DIR_INDEX), "R1 clear_htree says whether the feature is gone");
	CHECK(DINODE.i_flags == IN.i_flags, "R3 the inode is untouched while the blocks are visited");
	M.iter_calls++;
	c->errcode = IN.cb_err;
	return IN.ret_iter;
}
errcode_t ext2fs_write_inode(ext2_filsys fs, ext2_ino_t ino, struct ext2_inode *inode)
{
	CHECK(fs == &FS && ino == IN.dir && inode == &DINODE && M.iter_calls == 1, "R3 the directory inode is written after the walk");
	M.ino_writes++;
	M.w_flags = inode->i_flags;
	return IN.ret_wino;
}

void h_rewrite_directory(void)
{
	errcode_t r;
	int drop;

	LOAD_IN();
	memset(&M, 0, sizeof(M));
	memset(&FS, 0, sizeof(FS));
	memset(&SB, 0, sizeof(SB));
	memset(&DINODE, 0, sizeof(DINODE));
	FS.super = &SB;
	FS.blocksize = IN.blocksize;
	SB.s_feature_compat = IN.feat_compat;
	DINODE.i_flags = IN.i_flags;

	r = rewrite_directory(&FS, IN.dir, &DINODE);

	CHECK(M.frees == M.allocs, "R2 the buffer is released");
	if (IN.ret_mem) {
		CHECK(r == IN.ret_mem && M.iter_calls == 0 && M.ino_writes == 0 && DINODE.i_flags == IN.i_flags, "no buffer: nothing done");
		REACH("no-memory");
		return;
	}
	CHECK(M.iter_calls == 1, "R1 one walk");
	drop = (IN.i_flags & EXT2_INDEX_FL) && !(IN.feat_compat & EXT2_FEATURE_COMPAT_DIR_INDEX) && IN.ret_iter == 0;
	CHECK(M.ino_writes == (drop ? 1 : 0), "R3 the inode is written iff the index flag is dropped");
	CHECK(DINODE.i_flags == (drop ? (IN.i_flags & ~EXT2_INDEX_FL) : IN.i_flags), "R3 only EXT2_INDEX_FL goes, only then");
	CHECK(!drop || M.w_flags == DINODE.i_flags, "R3 the image written carries the change");
	CHECK(r == (IN.ret_iter ? IN.ret_iter : (drop && IN.ret_wino) ? IN.ret_wino : IN.cb_err), "R4 errors are returned");
	if (drop) REACH("index-flag-dropped");
	if (r == 0) REACH("success");
	REACH("end");
}
