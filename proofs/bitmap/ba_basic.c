/* VERIF-UNIT
{
 "name": "ba_mark_unmark_test",
 "props": ["C16"],
 "level": "U",
 "tier": "quick",
 "harness": "h_ba_single",
 "enforce": ["ba_mark_bmap", "ba_unmark_bmap", "ba_test_bmap"],
 "sources": ["lib/ext2fs/bitops.c"],
 "functions": ["lib/ext2fs/blkmap64_ba.c:ba_mark_bmap", "lib/ext2fs/blkmap64_ba.c:ba_unmark_bmap", "lib/ext2fs/blkmap64_ba.c:ba_test_bmap", "lib/ext2fs/bitops.c:ext2fs_set_bit64", "lib/ext2fs/bitops.c:ext2fs_clear_bit64", "lib/ext2fs/bitops.c:ext2fs_test_bit64"],
 "assumes": ["bit array capped at 2^20 bits (object-size cap); geometry otherwise symbolic"],
 "native": true
}
*/
/* VERIF-UNIT
{
 "name": "ba_mark_extent",
 "props": ["C16"],
 "level": "U",
 "tier": "quick",
 "harness": "h_ba_mark_extent",
 "enforce": ["ba_mark_bmap_extent"],
 "loop_contracts": true,
 "sources": ["lib/ext2fs/bitops.c"],
 "functions": ["lib/ext2fs/blkmap64_ba.c:ba_mark_bmap_extent"],
 "assumes": ["bit array capped at 2^20 bits (object-size cap); geometry otherwise symbolic"],
 "native": true
}
*/
/* VERIF-UNIT
{
 "name": "ba_unmark_extent",
 "props": ["C16"],
 "level": "U",
 "tier": "quick",
 "harness": "h_ba_unmark_extent",
 "enforce": ["ba_unmark_bmap_extent"],
 "loop_contracts": true,
 "sources": ["lib/ext2fs/bitops.c"],
 "functions": ["lib/ext2fs/blkmap64_ba.c:ba_unmark_bmap_extent"],
 "assumes": ["bit array capped at 2^20 bits (object-size cap); geometry otherwise symbolic"],
 "native": true
}
*/
#include "ba_common.h"

int verif_old_argbit;	/* ghost: membership of arg on entry */

/* set semantics for one arbitrary bit k (ghost index): contracts taken from the property text */
static int ba_mark_bmap(ext2fs_generic_bitmap_64 bitmap, __u64 arg)
	REQUIRES(arg >= bitmap->start && arg <= bitmap->real_end)
	REQUIRES(verif_old_argbit == BIT(((ext2fs_ba_private)bitmap->private)->bitarray, arg - bitmap->start))
	ENSURES((RET != 0) == (verif_old_argbit != 0))
	ENSURES(BIT(((ext2fs_ba_private)bitmap->private)->bitarray, verif_k) == (verif_old_bit || verif_k == arg - bitmap->start))
	ASSIGNS(__CPROVER_object_whole(((ext2fs_ba_private)bitmap->private)->bitarray));

static int ba_unmark_bmap(ext2fs_generic_bitmap_64 bitmap, __u64 arg)
	REQUIRES(arg >= bitmap->start && arg <= bitmap->real_end)
	REQUIRES(verif_old_argbit == BIT(((ext2fs_ba_private)bitmap->private)->bitarray, arg - bitmap->start))
	ENSURES((RET != 0) == (verif_old_argbit != 0))
	ENSURES(BIT(((ext2fs_ba_private)bitmap->private)->bitarray, verif_k) == (verif_old_bit && verif_k != arg - bitmap->start))
	ASSIGNS(__CPROVER_object_whole(((ext2fs_ba_private)bitmap->private)->bitarray));

static int ba_test_bmap(ext2fs_generic_bitmap_64 bitmap, __u64 arg)
	REQUIRES(arg >= bitmap->start && arg <= bitmap->real_end)
	ENSURES((RET != 0) == (BIT(((ext2fs_ba_private)bitmap->private)->bitarray, arg - bitmap->start) != 0))
	ASSIGNS();

static void ba_mark_bmap_extent(ext2fs_generic_bitmap_64 bitmap, __u64 arg, unsigned int num)
	REQUIRES(arg >= bitmap->start && num > 0 && arg + num - 1 >= arg && arg + num - 1 <= bitmap->real_end)
	ENSURES(BIT(((ext2fs_ba_private)bitmap->private)->bitarray, verif_k) ==
		(verif_old_bit || (verif_k >= arg - bitmap->start && verif_k < arg - bitmap->start + num)))
	ASSIGNS(__CPROVER_object_whole(((ext2fs_ba_private)bitmap->private)->bitarray));

static void ba_unmark_bmap_extent(ext2fs_generic_bitmap_64 bitmap, __u64 arg, unsigned int num)
	REQUIRES(arg >= bitmap->start && num > 0 && arg + num - 1 >= arg && arg + num - 1 <= bitmap->real_end)
	ENSURES(BIT(((ext2fs_ba_private)bitmap->private)->bitarray, verif_k) ==
		(verif_old_bit && !(verif_k >= arg - bitmap->start && verif_k < arg - bitmap->start + num)))
	ASSIGNS(__CPROVER_object_whole(((ext2fs_ba_private)bitmap->private)->bitarray));

void h_ba_single(void)
{
	build_bitmap();
	ASSUME(IN.arg >= IN.start && IN.arg <= IN.real_end);
	unsigned long long a = IN.arg - IN.start;
	int was = BIT(BP.bitarray, a);
	verif_old_argbit = was;
	int r;
	if (IN.num % 3 == 0) {
		r = ba_mark_bmap(&BM, IN.arg);
		CHECK((r != 0) == (was != 0), "mark returns the old membership");
		CHECK(BIT(BP.bitarray, verif_k) == (verif_old_bit || verif_k == a), "mark: the set gains exactly arg");
		REACH("mark");
	} else if (IN.num % 3 == 1) {
		r = ba_unmark_bmap(&BM, IN.arg);
		CHECK((r != 0) == (was != 0), "unmark returns the old membership");
		CHECK(BIT(BP.bitarray, verif_k) == (verif_old_bit && verif_k != a), "unmark: the set loses exactly arg");
		REACH("unmark");
	} else {
		r = ba_test_bmap(&BM, IN.arg);
		CHECK((r != 0) == (was != 0), "test returns membership");
		CHECK(BIT(BP.bitarray, verif_k) == verif_old_bit, "test changes nothing");
		REACH("test");
	}
}

void h_ba_mark_extent(void)
{
	build_bitmap();
	ASSUME(IN.arg >= IN.start && IN.num > 0 && IN.arg + IN.num - 1 >= IN.arg && IN.arg + IN.num - 1 <= IN.real_end);
	unsigned long long a = IN.arg - IN.start;
	ba_mark_bmap_extent(&BM, IN.arg, IN.num);
	CHECK(BIT(BP.bitarray, verif_k) == (verif_old_bit || (verif_k >= a && verif_k < a + IN.num)),
	      "mark_extent: the set gains exactly [arg, arg+num)");
	REACH("end");
}

void h_ba_unmark_extent(void)
{
	build_bitmap();
	ASSUME(IN.arg >= IN.start && IN.num > 0 && IN.arg + IN.num - 1 >= IN.arg && IN.arg + IN.num - 1 <= IN.real_end);
	unsigned long long a = IN.arg - IN.start;
	ba_unmark_bmap_extent(&BM, IN.arg, IN.num);
	CHECK(BIT(BP.bitarray, verif_k) == (verif_old_bit && !(verif_k >= a && verif_k < a + IN.num)),
	      "unmark_extent: the set loses exactly [arg, arg+num)");
	REACH("end");
}
