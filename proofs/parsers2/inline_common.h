/*
 * inline_common.h — stubs shared by the inline-data units (lib/ext2fs/inline_data.c and its consumer lib/ext2fs/namei.c).
 *
 * The extended-attribute layer (lib/ext2fs/ext_attr.c, decided by the xattr group) is replaced by stubs that hand the
 * inline-data code an EA "system.data" of ARBITRARY claimed size: ext2fs_xattr_get allocates an object of exactly
 * IN.ea_size bytes (contents arbitrary) and reports that size, so any access past the value is a bounds violation.
 * The unit that includes this header defines `struct in_inl IN` first.
 */
#ifndef INLINE_COMMON_H
#define INLINE_COMMON_H

#ifndef EXT2_CUSTOM_MEMORY_ROUTINES
#error "the inline-data units are built with -DEXT2_CUSTOM_MEMORY_ROUTINES"
#endif

#ifndef VERIF_NATIVE
void *malloc(__CPROVER_size_t n) { return __CPROVER_allocate(n, 0); }
#endif

/* EXT2_CUSTOM_MEMORY_ROUTINES: same behaviour as the inline wrappers of ext2fs.h, the pointer is moved by a typed store */
unsigned int g_mem_allocs, g_mem_frees;
errcode_t ext2fs_get_mem(unsigned long size, void *ptr)
{
	g_mem_allocs++;
	*(void **)ptr = malloc(size);
	return 0;
}
errcode_t ext2fs_get_memzero(unsigned long size, void *ptr)
{
	void *p = malloc(size);
	g_mem_allocs++;
	memset(p, 0, size);
	*(void **)ptr = p;
	return 0;
}
errcode_t ext2fs_free_mem(void *ptr)
{
	void **pp = (void **)ptr;
	if (*pp)
		g_mem_frees++;
	free(*pp);
	*pp = 0;
	return 0;
}

/* the xattr handle is opaque outside ext_attr.c */
struct ext2_xattr_handle { int tag; };
static struct ext2_xattr_handle XH;
unsigned int g_xopen, g_xclose, g_xset_calls, g_xremove_calls;
unsigned long g_xset_len;
const void *g_xset_value;
unsigned char g_ea_byte;	/* ghost: byte IN.k - 60 of the EA value handed out (when in range) */

static int key_is_system_data(const char *k)
{
	return k[0] == 's' && k[1] == 'y' && k[2] == 's' && k[3] == 't' && k[4] == 'e' && k[5] == 'm' && k[6] == '.' &&
	       k[7] == 'd' && k[8] == 'a' && k[9] == 't' && k[10] == 'a' && k[11] == 0;
}

errcode_t ext2fs_xattrs_open(ext2_filsys fs, ext2_ino_t ino, struct ext2_xattr_handle **handle)
{
	if (IN.xopen_err)
		return EXT2_ET_NO_MEMORY;
	g_xopen++;
	*handle = &XH;
	return 0;
}
errcode_t ext2fs_xattrs_read(struct ext2_xattr_handle *handle)
{
	CHECK(handle == &XH, "xattrs_read on the open handle");
	return IN.xread_err ? EXT2_ET_EA_BAD_VALUE_OFFSET : 0;
}
errcode_t ext2fs_xattr_get(struct ext2_xattr_handle *h, const char *key, void **value, size_t *value_len)
{
	unsigned char *p;
	CHECK(h == &XH && key_is_system_data(key), "xattr_get(\"system.data\") on the open handle");
	if (IN.xget_sel == 1)
		return EXT2_ET_EA_KEY_NOT_FOUND;
	if (IN.xget_sel >= 2)
		return EXT2_ET_EA_BAD_VALUE_SIZE;
	p = malloc(IN.ea_size);		/* exactly the claimed size, contents arbitrary */
	if (IN.k >= 60 && IN.k - 60 < IN.ea_size)
		g_ea_byte = p[IN.k - 60];
	*value = p;
	*value_len = IN.ea_size;
	return 0;
}
errcode_t ext2fs_xattr_set(struct ext2_xattr_handle *h, const char *key, const void *value, size_t value_len)
{
	CHECK(h == &XH && key_is_system_data(key), "xattr_set(\"system.data\") on the open handle");
#ifndef VERIF_NATIVE
	CHECK(value_len == 0 || __CPROVER_r_ok(value, value_len), "xattr_set: the value is readable for its whole claimed length");
#endif
	g_xset_calls++;
	g_xset_len = value_len;
	g_xset_value = value;
	return IN.xset_err ? EXT2_ET_EA_NO_SPACE : 0;
}
errcode_t ext2fs_xattr_remove(struct ext2_xattr_handle *h, const char *key)
{
	CHECK(h == &XH && key_is_system_data(key), "xattr_remove(\"system.data\") on the open handle");
	g_xremove_calls++;
	return 0;
}
errcode_t ext2fs_xattrs_close(struct ext2_xattr_handle **handle)
{
	CHECK(*handle == &XH, "xattrs_close on the open handle");
	g_xclose++;
	*handle = 0;
	return 0;
}
errcode_t ext2fs_xattr_inode_max_size(ext2_filsys fs, ext2_ino_t ino, size_t *size)
{
	if (IN.xmax_err)
		return EXT2_ET_NO_MEMORY;
	*size = IN.xmax;
	return 0;
}

#define INL_RESET() do { g_mem_allocs = g_mem_frees = g_xopen = g_xclose = g_xset_calls = g_xremove_calls = 0; \
			 g_xset_len = 0; g_xset_value = 0; g_ea_byte = 0; } while (0)

#endif
