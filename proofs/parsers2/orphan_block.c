/*
 * C06 / lib/ext2fs/orphan.c — parsing of one orphan-file block with arbitrary bytes.
 *
 * Format (Documentation/filesystems/ext4, "Orphan file"): every block of the orphan file is an array of little-endian
 * 32-bit inode numbers followed, in the LAST 8 bytes of the block, by struct ext4_orphan_block_tail
 * { le32 ob_magic = 0x0b10ca04; le32 ob_checksum; }.  With metadata_csum the checksum is
 * crc32c(seed, le32 ino | le32 generation | le64 physical block | the (blocksize-8) bytes of inode numbers).
 *
 * Checked: for every block size 1 KiB .. 64 KiB and a buffer of EXACTLY one block, the tail is read/written inside the
 * buffer, the checksummed region is [buf, buf + blocksize - 8), verify answers "stored == computed", set stores the
 * computed value in the tail and nowhere else.  ext2fs_crc32c_le (decided by the crc group) is a stub that checks that
 * the region it is handed is readable and returns an arbitrary-but-fixed function of the call number.
 */
/* VERIF-UNIT
{
 "name": "orphan_block_csum",
 "props": ["C06"],
 "level": "U",
 "tier": "quick",
 "harness": "h_orphan_csum",
 "unwind": 6,
 "unwind_reason": "loop-free real code; the bound serves library loops",
 "functions": ["lib/ext2fs/orphan.c:ext2fs_orphan_file_block_csum_verify", "lib/ext2fs/orphan.c:ext2fs_orphan_file_block_csum_set", "lib/ext2fs/orphan.c:ext2fs_do_orphan_file_block_csum"],
 "assumes": ["the block buffer has exactly fs->blocksize bytes, 1024 <= blocksize <= 65536 (ext2fs_open2 limits, unit open2_super_validation), contents arbitrary",
	     "ext2fs_crc32c_le is a stub: checks its region is readable, result arbitrary per call; ext2fs_read_inode a stub delivering an arbitrary generation or failing",
	     "little-endian host"],
 "native": false
}
*/
/* VERIF-UNIT
{
 "name": "orphan_default_blocks",
 "props": ["C06"],
 "level": "U",
 "tier": "quick",
 "harness": "h_orphan_default",
 "sources": ["lib/ext2fs/blknum.c"],
 "unwind": 6,
 "unwind_reason": "loop-free",
 "functions": ["lib/ext2fs/orphan.c:ext2fs_default_orphan_file_blocks"],
 "assumes": ["blocks count arbitrary (64 bit), cluster_ratio_bits 0..19 (unit open2_super_validation)"],
 "native": false
}
*/
#include "verif.h"
#include "config.h"
#include <stdio.h>
#include <string.h>
#include <stdlib.h>
#include "ext2_fs.h"
#include "ext2fs.h"

struct in_orp {
	unsigned int blocksize, ino, gen, seed;
	unsigned long long blk;
	unsigned int crc[4];
	unsigned char csum_feature, rd_err, do_set;
	unsigned int k;				/* ghost byte index */
	unsigned int blocks_lo, blocks_hi, ratio_bits;
	unsigned char is64;
};
struct in_orp IN;
#include "verif_in.h"

unsigned int g_crc_calls;
const unsigned char *g_crc_buf[4];
unsigned long g_crc_len[4];
unsigned int g_crc_in[4];

#include "lib/ext2fs/orphan.c"

#ifndef VERIF_NATIVE
void *malloc(__CPROVER_size_t n) { return __CPROVER_allocate(n, 0); }
#endif

__u32 ext2fs_crc32c_le(__u32 crc, unsigned char const *p, size_t len)
{
	unsigned int n = g_crc_calls & 3;
#ifndef VERIF_NATIVE
	CHECK(__CPROVER_r_ok(p, len), "crc32c: the checksummed region is readable for its whole length");
#endif
	g_crc_buf[n] = p;
	g_crc_len[n] = len;
	g_crc_in[n] = crc;
	g_crc_calls++;
	return IN.crc[n];
}
errcode_t ext2fs_read_inode(ext2_filsys fs, ext2_ino_t ino, struct ext2_inode *inode)
{
	if (IN.rd_err)
		return EXT2_ET_SHORT_READ;
	memset(inode, 0, sizeof(*inode));
	inode->i_generation = IN.gen;
	return 0;
}

static struct struct_ext2_filsys FS;
static struct ext2_super_block SB;

void h_orphan_csum(void)
{
	LOAD_IN();
	g_crc_calls = 0;
	ASSUME(IN.blocksize >= 1024 && IN.blocksize <= 65536 && (IN.blocksize & (IN.blocksize - 1)) == 0);
	memset(&FS, 0, sizeof(FS));
	memset(&SB, 0, sizeof(SB));
	FS.magic = EXT2_ET_MAGIC_EXT2FS_FILSYS;
	FS.super = &SB;
	FS.blocksize = IN.blocksize;
	FS.csum_seed = IN.seed;
	if (IN.csum_feature)
		SB.s_feature_ro_compat |= EXT4_FEATURE_RO_COMPAT_METADATA_CSUM;
	unsigned char *buf = malloc(IN.blocksize);	/* exactly one block, contents arbitrary */
	ASSUME(IN.k < IN.blocksize);
	unsigned char old_k = buf[IN.k];
	unsigned int stored = *(unsigned int *)(buf + IN.blocksize - 4);	/* ob_checksum: last 4 bytes */
	if (IN.do_set) {
		errcode_t r = ext2fs_orphan_file_block_csum_set(&FS, IN.ino, IN.blk, (char *) buf);
		CHECK(r == 0, "csum_set never fails");
		if (IN.csum_feature && !IN.rd_err) {
			CHECK(*(unsigned int *)(buf + IN.blocksize - 4) == IN.crc[3], "set: the tail's ob_checksum is the computed checksum");
			REACH("set");
		} else {
			CHECK(*(unsigned int *)(buf + IN.blocksize - 4) == stored, "set: without metadata_csum (or when the inode is unreadable) the block is untouched");
		}
		if (IN.k < IN.blocksize - 4)
			CHECK(buf[IN.k] == old_k, "set: nothing but ob_checksum is written");
	} else {
		int ok = ext2fs_orphan_file_block_csum_verify(&FS, IN.ino, IN.blk, (char *) buf);
		if (!IN.csum_feature)
			CHECK(ok == 1, "verify: always true without metadata_csum");
		else if (IN.rd_err)
			CHECK(ok == 0, "verify: false when the orphan inode cannot be read");
		else {
			CHECK((ok != 0) == (stored == IN.crc[3]), "verify: stored ob_checksum == computed checksum");
			REACH("verify");
		}
		CHECK(buf[IN.k] == old_k, "verify: read-only");
	}
	if (IN.csum_feature && !IN.rd_err) {
		CHECK(g_crc_calls == 4, "checksum = crc over ino, generation, block number, inode-number array");
		CHECK(g_crc_in[0] == IN.seed && g_crc_len[0] == 4 && g_crc_len[1] == 4 && g_crc_len[2] == 8, "seeded with the fs seed; le32 ino, le32 generation, le64 block");
		CHECK(g_crc_in[1] == IN.crc[0] && g_crc_in[2] == IN.crc[1] && g_crc_in[3] == IN.crc[2], "the four pieces are chained");
		CHECK(g_crc_buf[3] == buf && g_crc_len[3] == IN.blocksize - 8, "the data piece is the block without its 8-byte tail");
	}
	REACH("end");
}

void h_orphan_default(void)
{
	LOAD_IN();
	memset(&FS, 0, sizeof(FS));
	memset(&SB, 0, sizeof(SB));
	FS.super = &SB;
	ASSUME(IN.ratio_bits <= 19);
	FS.cluster_ratio_bits = IN.ratio_bits;
	SB.s_blocks_count = IN.blocks_lo;
	SB.s_blocks_count_hi = IN.blocks_hi;
	if (IN.is64)
		SB.s_feature_incompat |= EXT4_FEATURE_INCOMPAT_64BIT;
	unsigned long long n = (unsigned long long) IN.blocks_lo | (IN.is64 ? (unsigned long long) IN.blocks_hi << 32 : 0);
	e2_blkcnt_t b = ext2fs_default_orphan_file_blocks(&FS);
	unsigned long long mask = (1ull << IN.ratio_bits) - 1;
	/* "between 32 and 512 blocks, not more than 1/4096 of the file system unless it is really small", rounded up to a cluster */
	unsigned long long want = n < 128 * 1024 ? 32 : (n < 2 * 1024 * 1024 ? n / 4096 : 512);
	CHECK(b >= 32 && (unsigned long long) b <= 512 + mask, "between 32 and 512 blocks (plus cluster rounding)");
	CHECK(((unsigned long long) b & mask) == 0, "a whole number of clusters");
	CHECK((unsigned long long) b >= want && (unsigned long long) b - want <= mask, "the documented size, rounded up to a cluster");
	REACH("end");
}
