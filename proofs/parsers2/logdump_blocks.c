/*
 * C06 / debugfs/logdump.c — `debugfs -R "logdump ..."` (read-only) walking one journal block of arbitrary bytes.
 *
 * Format (Documentation/filesystems/ext4/journal.rst; kernel include/linux/jbd2.h):
 *  - descriptor block: 12-byte journal header, then block tags.  A tag is 8 bytes (32-bit block numbers), 12 (64BIT),
 *    +2 with CSUM_V2, or the 16-byte journal_block_tag3 with CSUM_V3; unless JBD2_FLAG_SAME_UUID (2) is set in
 *    t_flags it is followed by a 16-byte UUID; JBD2_FLAG_LAST_TAG (8) ends the list; with CSUM_V2/V3 the last 4 bytes
 *    of the block are the jbd2_journal_block_tail.
 *  - revoke block: header + be32 r_count (bytes used in this block, header included), then be32 or (64BIT) be64 block
 *    numbers up to byte r_count.
 *
 * Checked: for arbitrary block bytes and arbitrary journal-superblock feature bits, every tag / revoke record that is
 * read lies inside the first `blocksize` bytes of the buffer, and both walks terminate (the cursor grows every round).
 */
/* VERIF-UNIT
{
 "name": "logdump_descriptor_block",
 "props": ["C06"],
 "level": "U/iter",
 "tier": "quick",
 "harness": "h_logdump_desc",
 "includes": ["debugfs", "lib/ss", "misc", "e2fsck"],
 "defines": ["DEBUGFS"],
 "replace": ["dump_metadata_block"],
 "loop_contracts": true,
 "unwind": 8,
 "unwind_reason": "the tag walk is cut by its in-place loop contract (named anchor VERIF_INV_LOGDUMP_DESC_WALK, hooks-pending/c06b.diff); the bound serves DFCC library loops",
 "functions": ["debugfs/logdump.c:dump_descriptor_block"],
 "assumes": ["PRECONDITION from dump_journal: blocksize is the file system's block size (1024 here; with a file system open dump_journal demands s_blocksize == current_fs->blocksize) and the buffer holds that many valid bytes - the harness gives a buffer of EXACTLY blocksize bytes. OBSERVATION: without an open file system (`logdump -f file`) dump_journal accepts every power of two 1..65536; for blocksize < 4 with CSUM_V2/V3 `blocksize - csum_size` wraps and the walk is no longer bounded by the block (not demonstrated natively)",
	     "dump_metadata_block (reads another journal block through the file layer and prints it) is replaced by a contract with no effect; journal superblock feature words, maxlen, s_first arbitrary",
	     "needs the VERIF_LOOP hooks hooks-pending/c06b.diff"],
 "exclude": [{"match": "pointer relation: pointer outside object bounds", "reason": "forming/comparing a pointer past the object without access is outside C06 (out-of-bounds ACCESS); see parsers/dirent_tail.c"}],
 "native": false
}
*/
/* VERIF-UNIT
{
 "name": "logdump_revoke_block",
 "props": ["C06"],
 "level": "U/iter",
 "tier": "quick",
 "harness": "h_logdump_revoke",
 "includes": ["debugfs", "lib/ss", "misc", "e2fsck"],
 "defines": ["DEBUGFS"],
 "loop_contracts": true,
 "unwind": 8,
 "unwind_reason": "the record walk is cut by its in-place loop contract (named anchor VERIF_INV_LOGDUMP_REVOKE_WALK, hooks-pending/c06b.diff); the bound serves DFCC library loops",
 "functions": ["debugfs/logdump.c:dump_revoke_block"],
 "assumes": ["blocksize 1024, 4096 or 65536 (enumerated; the code needs a multiple of 8 >= 16), buffer of exactly blocksize bytes, contents and feature bits arbitrary",
	     "needs the VERIF_LOOP hooks hooks-pending/c06b.diff"],
 "native": false
}
*/
#include "verif.h"
#include "config.h"
#include <stdio.h>
#include <string.h>
#include <stdlib.h>
#include "et/com_err.h"

struct in_ld {
	unsigned char blk[1024];
	unsigned int incompat_be, first_be, blocktype_be, maxlen, blocknr, tid, bs_sel;
	unsigned char dump_all_f;
	unsigned long long to_dump;
};
struct in_ld IN;
#include "verif_in.h"

#define fprintf(f, ...)		((void)(0, __VA_ARGS__), 0)
#define com_err(w, c, ...)	((void)(0, __VA_ARGS__))

#if defined(VERIF_UNIT_logdump_descriptor_block)
extern unsigned int g_meta_calls;
/* the cursor points behind the header and grows; a tag is only looked at when it ends inside the block (less its tail) */
#define VERIF_INV_LOGDUMP_DESC_WALK \
	__CPROVER_assigns(tagp, tag, offset, tag_block, tag_flags, blocknr, wrapped_flag, g_meta_calls) \
	__CPROVER_loop_invariant(offset >= 12 && offset <= blocksize - csum_size + 16 && g_meta_calls <= (offset - 12) / 8) \
	__CPROVER_decreases(blocksize + 32 - offset)
#endif
#if defined(VERIF_UNIT_logdump_revoke_block)
#define VERIF_INV_LOGDUMP_REVOKE_WALK \
	__CPROVER_assigns(offset, rblock) \
	__CPROVER_loop_invariant(offset >= 16 && offset <= max + 8 && ((offset - 16) % (unsigned) tag_size) == 0 && max <= blocksize) \
	__CPROVER_decreases(max + 8 - offset)
#endif

#include "debugfs/logdump.c"
#undef fprintf

#ifndef VERIF_NATIVE
void *malloc(__CPROVER_size_t n) { return __CPROVER_allocate(n, 0); }
#endif

ext2_filsys current_fs;
unsigned int g_meta_calls;

#if defined(VERIF_UNIT_logdump_descriptor_block)
static void dump_metadata_block(FILE *out_file, struct journal_source *source, journal_superblock_t *jsb,
				unsigned int log_blocknr, unsigned int fs_blocknr, unsigned int log_tag_flags,
				unsigned int blocksize, tid_t transaction)
	ASSIGNS(g_meta_calls)
	ENSURES(g_meta_calls == OLD(g_meta_calls) + 1);
#endif

static journal_superblock_t JSB;

void h_logdump_desc(void)
{
#if defined(VERIF_UNIT_logdump_descriptor_block)
	LOAD_IN();
	g_meta_calls = 0;
	memset(&JSB, 0, sizeof(JSB));
	JSB.s_feature_incompat = IN.incompat_be;	/* big-endian on disk: every bit pattern */
	JSB.s_header.h_blocktype = IN.blocktype_be;	/* V1 superblocks have no feature words */
	JSB.s_first = IN.first_be;
	dump_all = IN.dump_all_f;
	wrapped_flag = 0;
	char *buf = malloc(1024);		/* exactly one block */
	memcpy(buf, IN.blk, 1024);
	unsigned int blocknr = IN.blocknr;
	dump_descriptor_block((FILE *) 0, (struct journal_source *) 0, buf, &JSB, &blocknr, 1024, IN.maxlen, IN.tid);
	CHECK(g_meta_calls <= 128, "every tag takes at least 8 bytes of the block: at most 128 tags");
	if (g_meta_calls >= 2) REACH("several tags");
	REACH("end");
#endif
}

void h_logdump_revoke(void)
{
#if defined(VERIF_UNIT_logdump_revoke_block)
	LOAD_IN();
	memset(&JSB, 0, sizeof(JSB));
	JSB.s_feature_incompat = IN.incompat_be;
	JSB.s_header.h_blocktype = IN.blocktype_be;
	dump_all = IN.dump_all_f;
	block_to_dump = IN.to_dump;
	unsigned int bs = IN.bs_sel == 0 ? 1024 : (IN.bs_sel == 1 ? 4096 : 65536);
	char *buf;
	if (IN.bs_sel == 0) buf = malloc(1024); else if (IN.bs_sel == 1) buf = malloc(4096); else buf = malloc(65536);
	memcpy(buf, IN.blk, 16);		/* header incl. r_count arbitrary; the rest of the block stays unconstrained */
	dump_revoke_block((FILE *) 0, buf, &JSB, IN.blocknr, bs, IN.tid);
	REACH("end");
#endif
}
