/*
 * C06 / lib/ext2fs/openfs.c:ext2fs_open2() — the superblock validation block, from the superblock read up to (not including)
 * the group-descriptor read, on COMPLETELY ARBITRARY superblock bytes.
 *
 * What is checked
 *  (a) CBMC's built-in checks (division by zero, undefined shift, signed overflow, bounds, pointer validity) on the real
 *      code of ext2fs_open2 with the 1024 superblock bytes, the e2image header bytes, the flags, the superblock number and
 *      the block size unconstrained;
 *  (b) "bound violated => error before the descriptor read": the CUT POINT is the allocation of the descriptor array
 *      (ext2fs_get_array stub, the statement right in front of the first descriptor read; it always fails, so nothing
 *      behind it is explored) or, with EXT2_FLAG_SUPER_ONLY, the code behind skip_read_bg (ext2fs_mmp_start stub / return 0).
 *      At every cut point each format bound of specs/parsers2_super_spec.h (written from the ext4 disk-layout
 *      documentation) holds for the bytes the device delivered, and the quantities the function derived
 *      (blocksize, cluster_ratio_bits, allocation size) have the values the format defines;
 *  (c) the return value: 0 only through a cut point (or for an external-journal superblock), otherwise one of the
 *      documented error codes; a superblock violating a bound is answered by an error of the expected family.
 *
 * The device is a stub manager: read_blk delivers arbitrary bytes for the superblock and the e2image header; any read with
 * a positive block count would be a descriptor read and is flagged.
 */
/* VERIF-UNIT
{
 "name": "open2_super_validation",
 "props": ["C06"],
 "level": "P",
 "tier": "quick",
 "harness": "h_open2_super",
 "sources": ["lib/ext2fs/io_manager.c", "lib/ext2fs/blknum.c"],
 "defines": ["EXT2_CUSTOM_MEMORY_ROUTINES"],
 "replace": ["io_channel_set_options"],
 "unwind": 5,
 "unwind_reason": "the only loop in the explored prefix is the `goto retry` re-read of the superblock, bounded by csum_retries++ < 3 (4 reads); strlen/strcpy/strchr run over the 1-character device name; the descriptor loops lie behind the cut",
 "cbmc_flags": ["--object-bits", "10"],
 "functions": ["lib/ext2fs/openfs.c:ext2fs_open2"],
 "timeout": 600,
 "assumes": ["PREFIX: the allocation of the descriptor array (ext2fs_get_array, directly in front of the first descriptor read) always fails, so the descriptor reads and everything behind them are not explored; with EXT2_FLAG_SUPER_ONLY the tail behind skip_read_bg runs with ext2fs_mmp_start failing and ext2fs_hashmap_create / ext2fs_load_nls_table as stubs",
	     "device name fixed \"d\", io_options NULL (option parsing is not the topic; see readonly/open2_ro)",
	     "superblock bytes (independent for each of the up to 4 reads; the bounds are stated for the bytes delivered last), e2image header bytes, flags, superblock, block_size arbitrary",
	     "ext2fs_verify_csum_type / ext2fs_superblock_csum_verify are stubs with arbitrary answers per read (over-approximation); ext2fs_init_csum_seed, ext2fs_free are counting stubs; ext2fs_safe_getenv returns NULL; each memory allocation succeeds (static object of exactly the requested size) or fails arbitrarily",
	     "little-endian host (WORDS_BIGENDIAN off): the byte-swapping branches are not compiled"],
 "native": false
}
*/
/* VERIF-UNIT
{
 "name": "open2_super_desc_min",
 "props": ["C06"],
 "level": "P",
 "tier": "quick",
 "harness": "h_open2_super",
 "sources": ["lib/ext2fs/io_manager.c", "lib/ext2fs/blknum.c"],
 "defines": ["EXT2_CUSTOM_MEMORY_ROUTINES"],
 "replace": ["io_channel_set_options"],
 "unwind": 5,
 "unwind_reason": "as open2_super_validation",
 "cbmc_flags": ["--object-bits", "10"],
 "functions": ["lib/ext2fs/openfs.c:ext2fs_open2"],
 "timeout": 600,
 "assumes": ["as open2_super_validation; adds: at the cut a 64bit superblock has s_desc_size >= 64 = sizeof(struct ext4_group_desc) whatever the flags (the descriptor accessors of blknum.c read and write the whole structure at stride s_desc_size & ~7 inside an array of desc_blocks * blocksize bytes)",
	     "FAILS on the unchanged tree: FINDING findings/C06_open2_desc_size_ignore_sb (with EXT2_FLAG_IGNORE_SB_ERRORS any non-zero s_desc_size is accepted); green with its proposed-fix.patch"],
 "native": false
}
*/
/* VERIF-UNIT
{
 "name": "open2_super_itable_blocks",
 "props": ["C06"],
 "level": "P",
 "tier": "quick",
 "harness": "h_open2_super",
 "sources": ["lib/ext2fs/io_manager.c", "lib/ext2fs/blknum.c"],
 "defines": ["EXT2_CUSTOM_MEMORY_ROUTINES"],
 "replace": ["io_channel_set_options"],
 "unwind": 5,
 "unwind_reason": "as open2_super_validation",
 "cbmc_flags": ["--object-bits", "10"],
 "functions": ["lib/ext2fs/openfs.c:ext2fs_open2"],
 "timeout": 900,
 "assumes": ["as open2_super_validation; adds: at the cut B10 (inodes per group <= 8 * blocksize) and fs->inode_blocks_per_group = ceil(inodes_per_group * inode_size / blocksize) computed without 32-bit wrap (the inode scan of lib/ext2fs/inode.c relies on inodes_per_group inodes fitting into inode_blocks_per_group blocks)",
	     "FAILS on the unchanged tree: FINDING findings/C06_open2_itable_blocks_wrap; green with its proposed-fix.patch"],
 "native": false
}
*/
/* VERIF-UNIT
{
 "name": "open2_super_format_obs",
 "props": ["C06"],
 "level": "P",
 "tier": "obs",
 "harness": "h_open2_super",
 "sources": ["lib/ext2fs/io_manager.c", "lib/ext2fs/blknum.c"],
 "defines": ["EXT2_CUSTOM_MEMORY_ROUTINES"],
 "replace": ["io_channel_set_options"],
 "unwind": 5,
 "unwind_reason": "as open2_super_validation",
 "cbmc_flags": ["--object-bits", "10"],
 "functions": ["lib/ext2fs/openfs.c:ext2fs_open2"],
 "timeout": 600,
 "assumes": ["OBSERVATION unit (states more than C06 demands, fails on the tree): format bounds ext2fs_open2 does not enforce and that are caught at first use elsewhere (read_bitmaps refuses clusters_per_group/8 > blocksize, e2fsck check_super_block): B8 clusters per group <= 8*blocksize, B9 exact (the code compares modulo 2^32: clusters_per_group << ratio wraps), blocks per group <= 8*blocksize*ratio (the code allows 65528*ratio), blocks per group multiple of 8; no memory-safety consequence found (valgrind runs of e2fsck -n, dumpe2fs, debugfs [-c], e2image, e2freefrag, resize2fs -P)"],
 "native": false
}
*/
#include "verif.h"
#include "config.h"
#include <stdio.h>
#include <string.h>
#include <stdlib.h>
#include "ext2_fs.h"
#include "ext2fs.h"
/* -DEXT2_CUSTOM_MEMORY_ROUTINES: ext2fs.h leaves its inline allocation wrappers out; the unit supplies them (below) */
errcode_t ext2fs_get_mem(unsigned long size, void *ptr);
errcode_t ext2fs_get_array(unsigned long count, unsigned long size, void *ptr);
errcode_t ext2fs_free_mem(void *ptr);

struct in_o2 {
	int flags, superblock;
	unsigned int block_size;
	struct ext2_super_block sb0, sb1, sb2, sb3;	/* sizeof == 1024 == SUPERBLOCK_SIZE: the raw bytes of each of the up to 4 reads, typed by the on-disk layout */
	unsigned char hdr[512];		/* the e2image header bytes (struct ext2_image_hdr is smaller) */
	unsigned char csum_type_ok[4], csum_ok[4];
	unsigned char alloc_fail[8];
};
struct in_o2 IN;
#include "verif_in.h"
#include "parsers2_super_spec.h"

/* ghost monitor */
unsigned int g_sb_reads, g_hdr_reads, g_desc_reads, g_other_methods, g_cuts, g_allocs, g_free_calls, g_seed_calls;
unsigned int g_pool_fs, g_pool_name, g_pool_sb, g_pool_hdr;

/*
 * The device name "d" contains no '?' and io_options is NULL, so ext2fs_open2 never parses io options: the contract
 * REQUIRES(0) turns "never called" into a checked call-site obligation and keeps the parser's body (malloc of a symbolic
 * size, string loops) out of the formula.  (Option parsing on arbitrary names: readonly/open2_ro.)
 */
errcode_t io_channel_set_options(io_channel channel, const char *opts)
	REQUIRES(0)
	ASSIGNS();

#include "lib/ext2fs/openfs.c"

static struct ext2_super_block G_SBV;	/* ghost: the superblock bytes the device delivered LAST */
#define G_SB (&G_SBV)

/*
 * EXT2_CUSTOM_MEMORY_ROUTINES: allocation stubs.  The prefix allocates exactly five objects (handle, device name, superblock
 * buffer, copy of the primary superblock, e2image header); each request is served from a static object of EXACTLY the
 * requested size (so an access past the request is still a bounds violation) - static objects keep pointers constant for
 * the symbolic execution.  Each request may also fail.
 */
static struct struct_ext2_filsys POOL_FS;
static char POOL_NAME[2];
static struct ext2_super_block POOL_SB0, POOL_SB1;	/* SUPERBLOCK_SIZE bytes each */
static struct ext2_image_hdr POOL_HDR;
typedef char verif_hdr_fits[sizeof(struct ext2_image_hdr) <= 512 ? 1 : -1];

errcode_t ext2fs_get_mem(unsigned long size, void *ptr)
{
	if (g_allocs < 8 && IN.alloc_fail[g_allocs++])
		return EXT2_ET_NO_MEMORY;
	if (size == sizeof(struct struct_ext2_filsys) && g_pool_fs == 0) {
		g_pool_fs = 1;
		*(void **)ptr = &POOL_FS;
		return 0;
	}
	if (size == 2 && g_pool_name == 0) {
		g_pool_name = 1;
		*(void **)ptr = POOL_NAME;
		return 0;
	}
	if (size == SUPERBLOCK_SIZE && g_pool_sb == 0) {
		g_pool_sb = 1;
		*(void **)ptr = &POOL_SB0;
		return 0;
	}
	if (size == SUPERBLOCK_SIZE && g_pool_sb == 1) {
		g_pool_sb = 2;
		*(void **)ptr = &POOL_SB1;
		return 0;
	}
	if (size == sizeof(struct ext2_image_hdr) && g_pool_hdr == 0) {
		g_pool_hdr = 1;
		*(void **)ptr = &POOL_HDR;
		return 0;
	}
	CHECK(0, "allocation pool: only the five requests of the prefix occur");
	return EXT2_ET_NO_MEMORY;
}
errcode_t ext2fs_free_mem(void *ptr)
{
	*(void **)ptr = 0;
	return 0;
}

/* the statements the format makes at a cut point */
static void mon_validated(int geometry)
{
	const struct ext2_super_block *sb = G_SB;
	const struct struct_ext2_filsys *fs = &POOL_FS;
	CHECK(g_sb_reads >= 1 && g_pool_fs == 1, "cut: a superblock has been read");
	CHECK(SBS_MAGIC_OK(sb), "cut: B1 magic");
	CHECK(SBS_REV_OK(sb), "cut: B2 revision");
	CHECK(SBS_LOG_BLOCK_OK(sb), "cut: B3 block size 1 KiB..64 KiB");
	CHECK(SBS_LOG_CLUSTER_OK(sb), "cut: B4 cluster size >= block size, equal without bigalloc, bounded");
	CHECK(SBS_FLEX_OK(sb), "cut: B5 log_groups_per_flex is a defined shift");
	CHECK(SBS_INODE_SIZE_OK(sb), "cut: B6 inode size power of two in [128, blocksize]");
	CHECK((IN.flags & EXT2_FLAG_IGNORE_SB_ERRORS) || SBS_DESC_SIZE_OK(sb), "cut: B7 descriptor size power of two in [64,1024] with 64bit");
	CHECK(SBS_BPG_CONSISTENT32(sb), "cut: B9 blocks per group = clusters per group * cluster ratio (mod 2^32; the exact statement is in the obs unit)");
	CHECK(fs->blocksize == SBS_BLOCK_SIZE(sb), "cut: fs->blocksize is the format's block size");
	CHECK(fs->cluster_ratio_bits == (int)SBS_RATIO_BITS(sb), "cut: fs->cluster_ratio_bits is log2(cluster/block)");
	if (!geometry)
		return;
	CHECK(SBS_DESC_FITS_BLOCK(sb), "cut: B7' at least one descriptor per block (no division by zero)");
	CHECK(SBS_BPG_MIN8(sb), "cut: B9 blocks per group >= 8");
	CHECK(SBS_IPG_NONZERO(sb), "cut: B10 inodes per group non-zero");
	CHECK(SBS_FDB_OK(sb), "cut: B11 first data block < blocks count");
	CHECK(fs->group_desc_count >= 1, "cut: at least one group");
#ifdef VERIF_UNIT_open2_super_desc_min
	CHECK(SBS_DESC_HOLDS_STRUCT(sb), "cut: B7'' 64bit: s_desc_size >= sizeof(struct ext4_group_desc) = 64, whatever the flags");
#endif
#ifdef VERIF_UNIT_open2_super_itable_blocks
	CHECK(SBS_IPG_MAX_OK(sb), "cut: B10 inodes per group <= 8 * blocksize");
	CHECK(fs->inode_blocks_per_group == SBS_ITABLE_BLOCKS(sb), "cut: fs->inode_blocks_per_group = ceil(inodes_per_group * inode_size / blocksize), no 32-bit wrap");
#endif
#ifdef VERIF_UNIT_open2_super_format_obs
	CHECK(SBS_CPG_OK(sb), "obs: B8 clusters per group <= 8 * blocksize");
	CHECK(SBS_BPG_CONSISTENT(sb), "obs: B9 blocks per group = clusters per group * ratio, exactly");
	CHECK(SBS_BPG_MAX_OK(sb), "obs: B9 blocks per group <= 8 * blocksize * ratio");
	CHECK(SBS_BPG_MULT8(sb), "obs: B9 blocks per group multiple of 8");
#endif
	CHECK(fs->desc_blocks >= 1 && fs->desc_blocks <= fs->group_desc_count, "cut: 1 <= descriptor blocks <= groups");
	CHECK((IN.flags & EXT2_FLAG_IGNORE_SB_ERRORS) || SBS_FIRST_META_BG_OK(sb, fs->desc_blocks), "cut: B14 first_meta_bg <= descriptor blocks");
}

errcode_t ext2fs_get_array(unsigned long count, unsigned long size, void *ptr)
{
	/* CUT POINT: the descriptor array, allocated right before the descriptor read */
	g_cuts++;
	mon_validated(1);
	CHECK(count == POOL_FS.desc_blocks && size == POOL_FS.blocksize, "cut: the descriptor array is desc_blocks * blocksize");
	CHECK(count <= 0xffffffffUL && size <= 65536, "cut: allocation size cannot wrap");
	return EXT2_ET_NO_MEMORY;	/* a CONSTANT: everything behind `if (retval) goto cleanup` is dropped */
}

/* stub manager */
static struct struct_io_manager MGR;
static struct struct_io_channel CHAN;

static errcode_t st_open(const char *name, int io_flags, io_channel *channel)
{
	memset(&CHAN, 0, sizeof(CHAN));
	CHAN.magic = EXT2_ET_MAGIC_IO_CHANNEL;
	CHAN.manager = &MGR;
	CHAN.block_size = 1024;
	CHAN.align = 0;
	*channel = &CHAN;
	return 0;
}
static errcode_t st_close(io_channel ch) { g_other_methods++; return 0; }
static errcode_t st_set_blksize(io_channel ch, int bs) { ch->block_size = bs; return 0; }
static errcode_t st_read_blk(io_channel ch, unsigned long block, int count, void *buf)
{
	if (count == -SUPERBLOCK_SIZE) {
		CHECK(g_sb_reads < 4, "at most 4 superblock reads");
		CHECK(block == 1 || (IN.superblock != 0 && !(IN.flags & EXT2_FLAG_IMAGE_FILE) && block == (unsigned long) IN.superblock), "the superblock is read where the caller said");
		if (g_sb_reads >= 4)
			return EXT2_ET_SHORT_READ;
		/* buf smaller than a superblock => bounds violation in the memcpy */
		switch (g_sb_reads) {
		case 0: memcpy(buf, &IN.sb0, SUPERBLOCK_SIZE); G_SBV = IN.sb0; break;
		case 1: memcpy(buf, &IN.sb1, SUPERBLOCK_SIZE); G_SBV = IN.sb1; break;
		case 2: memcpy(buf, &IN.sb2, SUPERBLOCK_SIZE); G_SBV = IN.sb2; break;
		default: memcpy(buf, &IN.sb3, SUPERBLOCK_SIZE); G_SBV = IN.sb3; break;
		}
		g_sb_reads++;
		return 0;
	}
	if (count == -(int)sizeof(struct ext2_image_hdr)) {
		CHECK(g_hdr_reads == 0 && g_sb_reads == 0 && (IN.flags & EXT2_FLAG_IMAGE_FILE), "the e2image header is read once, first, only for image files");
		memcpy(buf, IN.hdr, sizeof(struct ext2_image_hdr));
		g_hdr_reads++;
		return 0;
	}
	g_desc_reads++;
	CHECK(0, "no other read in front of the cut");
	return EXT2_ET_SHORT_READ;
}
static errcode_t st_read_blk64(io_channel ch, unsigned long long block, int count, void *buf)
{
	g_desc_reads++;
	CHECK(0, "no read_blk64 in front of the cut");
	return EXT2_ET_SHORT_READ;
}
static errcode_t st_write_blk(io_channel ch, unsigned long block, int count, const void *buf) { g_other_methods++; return 0; }
static errcode_t st_write_blk64(io_channel ch, unsigned long long block, int count, const void *buf) { g_other_methods++; return 0; }
static errcode_t st_write_byte(io_channel ch, unsigned long offset, int count, const void *buf) { g_other_methods++; return 0; }
static errcode_t st_flush(io_channel ch) { g_other_methods++; return 0; }

/* callees from other files */
char *ext2fs_safe_getenv(const char *arg) { return 0; }
void ext2fs_free(ext2_filsys fs) { g_free_calls++; }
int ext2fs_verify_csum_type(ext2_filsys fs, struct ext2_super_block *sb) { return IN.csum_type_ok[(g_sb_reads - 1) & 3] != 0; }
int ext2fs_superblock_csum_verify(ext2_filsys fs, struct ext2_super_block *sb) { return IN.csum_ok[(g_sb_reads - 1) & 3] != 0; }
void ext2fs_init_csum_seed(ext2_filsys fs) { g_seed_calls++; }
errcode_t ext2fs_mmp_start(ext2_filsys fs)
{
	g_cuts++;
	mon_validated(1);
	return EXT2_ET_MMP_FAILED;
}
errcode_t ext2fs_mmp_stop(ext2_filsys fs) { return 0; }
struct ext2fs_hashmap *ext2fs_hashmap_create(uint32_t (*hash_fct)(const void *, size_t), void (*free_fct)(void *), size_t size) { return 0; }
uint32_t ext2fs_djb2_hash(const void *str, size_t size) { return 0; }
const struct ext2fs_nls_table *ext2fs_load_nls_table(int encoding) { return 0; }

static int is_documented_error(errcode_t r)
{
	return r == EXT2_ET_NO_MEMORY || r == EXT2_ET_MAGIC_E2IMAGE || r == EXT2_ET_INVALID_ARGUMENT ||
	       r == EXT2_ET_UNKNOWN_CSUM || r == EXT2_ET_SB_CSUM_INVALID || r == EXT2_ET_UNIMPLEMENTED ||
	       r == EXT2_ET_BAD_MAGIC || r == EXT2_ET_REV_TOO_HIGH || r == EXT2_ET_UNSUPP_FEATURE ||
	       r == EXT2_ET_RO_UNSUPP_FEATURE || r == EXT2_ET_CORRUPT_SUPERBLOCK || r == EXT2_ET_CANT_USE_LEGACY_BITMAPS ||
	       r == EXT2_ET_BAD_DESC_SIZE || r == EXT2_ET_UNEXPECTED_BLOCK_SIZE || r == EXT2_ET_MMP_FAILED;
}

void h_open2_super(void)
{
	LOAD_IN();
	g_sb_reads = g_hdr_reads = g_desc_reads = g_other_methods = g_cuts = g_allocs = g_free_calls = g_seed_calls = 0;
	g_pool_fs = g_pool_name = g_pool_sb = g_pool_hdr = 0;
	memset(&MGR, 0, sizeof(MGR));
	MGR.magic = EXT2_ET_MAGIC_IO_MANAGER;
	MGR.open = st_open;
	MGR.close = st_close;
	MGR.set_blksize = st_set_blksize;
	MGR.read_blk = st_read_blk;
	MGR.read_blk64 = st_read_blk64;
	MGR.write_blk = st_write_blk;
	MGR.write_blk64 = st_write_blk64;
	MGR.write_byte = st_write_byte;
	MGR.flush = st_flush;
	ext2_filsys fs = (ext2_filsys) &MGR;	/* poison */
	/* ext2fs_free is a stub, so the handle object survives an error return and the monitor can still look at it */
	errcode_t r = ext2fs_open2("d", (char *) 0, IN.flags, IN.superblock, IN.block_size, &MGR, &fs);

	CHECK(g_desc_reads == 0, "no descriptor read in the explored prefix");
	CHECK(g_other_methods == 0, "no write/flush/close on the device");
	CHECK(r == 0 || is_documented_error(r), "the result is 0 or a documented error code");
	if (r == 0) {
		const struct ext2_super_block *sb = G_SB;
		CHECK(fs == &POOL_FS, "success hands back the handle");
		if (SBS_HAS_JOURNAL_DEV(sb)) {
			CHECK(IN.flags & (EXT2_FLAG_JOURNAL_DEV_OK | EXT2_FLAG_FORCE), "journal device superblock only when the caller allows it");
			mon_validated(0);
			CHECK(POOL_FS.group_desc_count == 0, "journal device: no groups");
			REACH("journal-dev");
		} else {
			CHECK(IN.flags & EXT2_FLAG_SUPER_ONLY, "success without the descriptor read only with SUPER_ONLY");
			mon_validated(1);
			REACH("super-only success");
		}
	}
	if (g_sb_reads >= 1) {
		const struct ext2_super_block *sb = G_SB;
		int refused = (r == EXT2_ET_CORRUPT_SUPERBLOCK || r == EXT2_ET_BAD_DESC_SIZE || r == EXT2_ET_UNEXPECTED_BLOCK_SIZE);
		int early = (r == EXT2_ET_UNKNOWN_CSUM || r == EXT2_ET_SB_CSUM_INVALID || r == EXT2_ET_UNIMPLEMENTED || r == EXT2_ET_NO_MEMORY);
		int feat = (r == EXT2_ET_UNSUPP_FEATURE || r == EXT2_ET_RO_UNSUPP_FEATURE || r == EXT2_ET_CANT_USE_LEGACY_BITMAPS || r == EXT2_ET_REV_TOO_HIGH);
		/* bound violated => refused, with an error of the expected family (checks in front of it may answer first) */
		if (!SBS_MAGIC_OK(sb)) {
			CHECK(r == EXT2_ET_BAD_MAGIC || early, "B1 bad magic => BAD_MAGIC (or a checksum verdict)");
			REACH("bad magic");
		} else if (!SBS_REV_OK(sb)) {
			CHECK(r == EXT2_ET_REV_TOO_HIGH || early, "B2 revision too high => REV_TOO_HIGH");
		} else if (!SBS_LOG_BLOCK_OK(sb) || !SBS_LOG_CLUSTER_OK(sb) || !SBS_FLEX_OK(sb)) {
			CHECK(r == EXT2_ET_CORRUPT_SUPERBLOCK || early || feat,
			      "B3/B4/B5 block/cluster/flex log out of range => CORRUPT_SUPERBLOCK (or an unsupported-feature verdict)");
			REACH("bad logs");
		} else if (!SBS_INODE_SIZE_OK(sb)) {
			CHECK(r == EXT2_ET_CORRUPT_SUPERBLOCK || early || feat, "B6 bad inode size => CORRUPT_SUPERBLOCK (or an unsupported-feature verdict)");
			REACH("bad inode size");
		} else if (!SBS_DESC_SIZE_OK(sb) && !(IN.flags & EXT2_FLAG_IGNORE_SB_ERRORS)) {
			CHECK(r == EXT2_ET_BAD_DESC_SIZE || r == EXT2_ET_CORRUPT_SUPERBLOCK || early || feat, "B7 bad descriptor size => BAD_DESC_SIZE (or CORRUPT_SUPERBLOCK from a stricter check in front of it)");
			REACH("bad desc size");
		} else if (!SBS_BPG_CONSISTENT32(sb)) {
			CHECK(refused || early || feat, "B9 blocks per group inconsistent with clusters per group => CORRUPT_SUPERBLOCK");
		} else if (!SBS_HAS_JOURNAL_DEV(sb) &&
			   (!SBS_DESC_FITS_BLOCK(sb) || !SBS_BPG_MIN8(sb) || !SBS_IPG_NONZERO(sb) || !SBS_FDB_OK(sb))) {
			CHECK(refused || early || feat, "B7'/B9/B10/B11 violated => CORRUPT_SUPERBLOCK in front of the cut");
			CHECK(g_cuts == 0, "B7'/B9/B10/B11 violated => cut not reached");
			REACH("bad geometry");
		}
	}
	if (g_cuts) {
		CHECK(r == EXT2_ET_NO_MEMORY || r == EXT2_ET_MMP_FAILED, "after a cut the stub's error is propagated");
		REACH("cut reached");
	}
	CHECK((IN.flags & EXT2_FLAG_NOFREE_ON_ERROR) || r == 0 || r == EXT2_ET_MAGIC_E2IMAGE || g_pool_fs == 0 || (g_free_calls == 1 && fs == 0), "error: handle freed and NULL returned");
	REACH("end");
}
