/*
 * C06 / lib/e2p/ljs.c:e2p_list_journal_super() — printing helper of dumpe2fs / debugfs logdump -S / e2fsck on the RAW 1024
 * bytes of a journal superblock (arbitrary bytes).
 *
 * Format (journal.rst, "Super Block"): 1024 bytes; s_nr_users (be32 at 0x40) counts the 16-byte UUIDs in s_users[] at
 * 0x100, at most 48 (16 * 48 = 768 bytes, up to the end of the superblock).
 *
 * Checked: every read stays inside the 1024 bytes - in particular the user list is clamped to 48 entries whatever
 * s_nr_users says (regression test d_corrupt_journal_nr_users) - and the three feature words are walked bit by bit.
 */
/* VERIF-UNIT
{
 "name": "e2p_list_journal_super",
 "props": ["C06"],
 "level": "U/k",
 "tier": "obs",
 "harness": "h_ljs",
 "unwind": 50,
 "unwind_reason": "constants of the code/format: 3 feature words x 32 bits, at most JBD2_USERS_MAX = 48 user UUIDs (unwinding assertions on)",
 "functions": ["lib/e2p/ljs.c:e2p_list_journal_super"],
 "assumes": ["the buffer has exactly 1024 bytes (all callers hand in a journal superblock buffer of that size), contents, exp_block_size and flags arbitrary",
	     "FAILS on the unchanged tree: FINDING findings/C06_e2p_ljs_signed_overflow (journal_blks + num_fc_blks overflows int for s_num_fc_blks >= 2^31; UBSan); green with its proposed-fix.patch",
	     "e2p_jrnl_feature2string, e2p_uuid2str, e2p_is_null_uuid are stubs (the UUID stubs check that 16 bytes are readable); output functions are evaluation-only macros"],
 "native": false
}
*/
#include "verif.h"
#include "config.h"
#include <stdio.h>
#include <string.h>
#include <stdlib.h>

struct in_ljs {
	unsigned char jsb[1024];
	int exp_block_size, flags;
	unsigned char null_uuid;
};
struct in_ljs IN;
#include "verif_in.h"

#define fprintf(f, ...)	((void)(0, __VA_ARGS__), 0)
#define printf(...)	((void)(0, __VA_ARGS__), 0)
#define fputc(c, f)	((void)(c), 0)
#define fputs(s, f)	((void)(s), 0)

unsigned int g_users;

#include "lib/e2p/ljs.c"
#undef fprintf
#undef printf

#ifndef VERIF_NATIVE
void *malloc(__CPROVER_size_t n) { return __CPROVER_allocate(n, 0); }
#endif

const char *e2p_jrnl_feature2string(int compat, unsigned int mask)
{
	CHECK(compat >= 0 && compat <= 2 && mask != 0 && (mask & (mask - 1)) == 0, "feature2string: word 0..2, a single bit");
	return "f";
}
const char *e2p_uuid2str(void *uu)
{
#ifndef VERIF_NATIVE
	CHECK(__CPROVER_r_ok(uu, 16), "uuid2str: 16 readable bytes");
#endif
	g_users++;
	return "u";
}
int e2p_is_null_uuid(void *uu)
{
#ifndef VERIF_NATIVE
	CHECK(__CPROVER_r_ok(uu, 16), "is_null_uuid: 16 readable bytes");
#endif
	return IN.null_uuid;
}

void h_ljs(void)
{
	LOAD_IN();
	g_users = 0;
	char *buf = malloc(1024);		/* exactly a journal superblock */
	memcpy(buf, IN.jsb, 1024);
	unsigned int nr = ((unsigned int) IN.jsb[0x40] << 24) | (IN.jsb[0x41] << 16) | (IN.jsb[0x42] << 8) | IN.jsb[0x43];
	if (nr > 48) REACH("more users claimed than the superblock can hold");
	e2p_list_journal_super((FILE *) 0, buf, IN.exp_block_size, IN.flags);
	CHECK(g_users <= 48, "at most 48 users are listed");
	CHECK(g_users == 0 || g_users == (nr < 48 ? nr : 48), "the list has min(s_nr_users, 48) entries");
	REACH("end");
}
