/*
 * C06 / lib/ext2fs/namei.c:follow_link() — a consumer of ext2fs_inline_data_get: the buffers that receive / hold the
 * target of a symlink are big enough for what is copied into them and for what is read from them afterwards.
 *
 *   ext2fs_inline_data_get(fs, ino, inode, buf, size) copies 60 + (size of the EA system.data) bytes into buf
 *       (postcondition established by unit inline_data_get; its precondition is "buf has that many bytes");
 *   open_namei(fs, root, base, pathname, pathlen, ...) / dir_namei read pathname[0 .. pathlen-1]
 *       (dir_namei: `for (len=0; --pathlen >= 0; len++) c = *(pathname++)`).
 *
 * follow_link is the only caller that sizes the buffer from the (arbitrary, on-disk) i_size instead of
 * ext2fs_inline_data_size, and that passes i_size as the length of a one-block buffer.
 *
 * CALL-SITE CENSUS of ext2fs_inline_data_get (rg over lib/ e2fsck/ debugfs/ misc/):
 *   debugfs/debugfs.c:813        buffer = ext2fs_inline_data_size() bytes                                   ok
 *   lib/ext2fs/fileio.c:269,352  file->buf = 3 * blocksize bytes; needs 60 + EA <= 3 * blocksize            residual (EA-inode values up to 64 KiB)
 *   e2fsck/pass2.c:1176          buf = 2 * blocksize; `memset(buf, 0, blocksize - inline_data_size)` in front wraps when the
 *                                inline size exceeds a block                                                FINDING C06_pass2_inline_size_underflow
 *   lib/ext2fs/namei.c:60        buffer = i_size bytes                                                      FINDING C06_follow_link_symlink_buffers [this unit]
 */
/* VERIF-UNIT
{
 "name": "follow_link_buffers",
 "props": ["C06"],
 "level": "U",
 "tier": "quick",
 "harness": "h_follow_link",
 "defines": ["EXT2_CUSTOM_MEMORY_ROUTINES", "INL_CAP=66000"],
 "sources": ["lib/ext2fs/symlink.c", "lib/ext2fs/io_manager.c"],
 "replace": ["open_namei"],
 "unwind": 14,
 "unwind_reason": "loop-free real code (open_namei, the recursion partner, is replaced by its contract); the bound serves library loops",
 "functions": ["lib/ext2fs/namei.c:follow_link", "lib/ext2fs/namei.c:ext2fs_follow_link"],
 "assumes": ["open_namei is replaced by a contract whose PRECONDITION is the statement: pathname is readable for pathlen bytes (what dir_namei reads); its result is arbitrary (dir_namei itself is not verified here)",
	     "ext2fs_inline_data_get is a stub whose CHECK is its precondition (buffer writable for 60 + EA size bytes); ext2fs_inline_data_size a stub with the postcondition of unit inline_data_size; ext2fs_read_inode delivers arbitrary inode bytes; ext2fs_bmap2 and the device read are stubs (the read checks that the buffer holds a block)",
	     "i_size and EA size at most 66000 (tractability of the zeroing memset); blocksize 1024..65536",
	     "FAILS on the unchanged tree: FINDING findings/C06_follow_link_symlink_buffers (inline-data symlink: buffer of i_size bytes receives 60 + EA bytes; block symlink: i_size bytes are read from a one-block buffer); green with its proposed-fix.patch"],
 "native": false
}
*/
#include "verif.h"
#include "config.h"
#include <stdio.h>
#include <string.h>
#include <stdlib.h>
#include "ext2_fs.h"
#include "ext2fs.h"
errcode_t ext2fs_get_mem(unsigned long size, void *ptr);
errcode_t ext2fs_get_memzero(unsigned long size, void *ptr);
errcode_t ext2fs_free_mem(void *ptr);

struct in_inl {
	struct ext2_inode inode;
	unsigned long ea_size;
	unsigned long k;
	unsigned long xmax;
	unsigned int blocksize, ino;
	unsigned char xopen_err, xread_err, xget_sel, xset_err, xmax_err, rd_err, wr_err;
	unsigned char inl_err, bmap_err, io_err;
	unsigned long long blk;
	long on_ret;
	unsigned int on_ino;
};
struct in_inl IN;
#include "verif_in.h"

unsigned int g_on_calls, g_inl_get_calls, g_io_reads;

static errcode_t open_namei(ext2_filsys fs, ext2_ino_t root, ext2_ino_t base,
			    const char *pathname, size_t pathlen, int follow,
			    int link_count, char *buf, ext2_ino_t *res_inode)
	REQUIRES(__CPROVER_r_ok(pathname, pathlen))
	REQUIRES(link_count >= 1 && link_count <= 8)	/* EXT2FS_MAX_NESTED_LINKS */
	ASSIGNS(g_on_calls, *res_inode)
	ENSURES(g_on_calls == OLD(g_on_calls) + 1 && RET == IN.on_ret);

#include "lib/ext2fs/namei.c"
#include "inline_common.h"

errcode_t ext2fs_read_inode(ext2_filsys fs, ext2_ino_t ino, struct ext2_inode *inode)
{
	if (IN.rd_err)
		return EXT2_ET_SHORT_READ;
	*inode = IN.inode;
	return 0;
}
/* postcondition of ext2fs_inline_data_size (unit inline_data_size) */
errcode_t ext2fs_inline_data_size(ext2_filsys fs, ext2_ino_t ino, size_t *size)
{
	if (IN.inl_err || !(IN.inode.i_flags & EXT4_INLINE_DATA_FL))
		return EXT2_ET_NO_INLINE_DATA;
	*size = 60 + IN.ea_size;
	return 0;
}
/* precondition of ext2fs_inline_data_get (unit inline_data_get): the buffer takes 60 + EA size bytes */
errcode_t ext2fs_inline_data_get(ext2_filsys fs, ext2_ino_t ino, struct ext2_inode *inode, void *buf, size_t *size)
{
	g_inl_get_calls++;
	if (IN.inl_err)
		return EXT2_ET_NO_INLINE_DATA;
#ifndef VERIF_NATIVE
	CHECK(__CPROVER_w_ok(buf, 60 + IN.ea_size), "ext2fs_inline_data_get: the caller's buffer takes 60 + EA size bytes");
#endif
	if (size)
		*size = 60 + IN.ea_size;
	return 0;
}
errcode_t ext2fs_bmap2(ext2_filsys fs, ext2_ino_t ino, struct ext2_inode *inode, char *block_buf, int bmap_flags,
		       blk64_t block, int *ret_flags, blk64_t *phys_blk)
{
	if (IN.bmap_err)
		return EXT2_ET_SHORT_READ;
	*phys_blk = IN.blk;
	return 0;
}
errcode_t ext2fs_lookup(ext2_filsys fs, ext2_ino_t dir, const char *name, int namelen, char *buf, ext2_ino_t *inode)
{
	CHECK(0, "unreachable: open_namei / dir_namei are cut off");
	return EXT2_ET_FILE_NOT_FOUND;
}

static struct struct_ext2_filsys FS;
static struct ext2_super_block SB;
static struct struct_io_channel CHAN;
static struct struct_io_manager MGR;
static errcode_t st_read_blk64(io_channel ch, unsigned long long block, int count, void *buf)
{
	g_io_reads++;
#ifndef VERIF_NATIVE
	CHECK(count == 1 && __CPROVER_w_ok(buf, IN.blocksize), "the symlink block is read into a buffer of one block");
#endif
	return IN.io_err ? EXT2_ET_SHORT_READ : 0;
}

void h_follow_link(void)
{
	LOAD_IN();
	INL_RESET();
	g_on_calls = g_inl_get_calls = g_io_reads = 0;
	ASSUME(IN.ea_size <= INL_CAP);
	ASSUME(IN.inode.i_size <= INL_CAP);
	ASSUME(IN.blocksize >= 1024 && IN.blocksize <= 65536);
	memset(&FS, 0, sizeof(FS));
	memset(&SB, 0, sizeof(SB));
	memset(&CHAN, 0, sizeof(CHAN));
	memset(&MGR, 0, sizeof(MGR));
	FS.magic = EXT2_ET_MAGIC_EXT2FS_FILSYS;
	FS.super = &SB;
	FS.blocksize = IN.blocksize;
	FS.io = &CHAN;
	CHAN.magic = EXT2_ET_MAGIC_IO_CHANNEL;
	CHAN.manager = &MGR;
	MGR.magic = EXT2_ET_MAGIC_IO_MANAGER;
	MGR.read_blk64 = st_read_blk64;
	ext2_ino_t res = 0;
	errcode_t r = ext2fs_follow_link(&FS, 2, 2, IN.ino, &res);
	CHECK(g_mem_allocs == g_mem_frees, "every buffer allocated on the way is freed again");
	if (g_on_calls) {
		CHECK(r == IN.on_ret, "the result of resolving the target is the result");
		CHECK(LINUX_S_ISLNK(IN.inode.i_mode), "only symlinks are followed");
		if (g_inl_get_calls) REACH("inline-data symlink resolved");
		if (g_io_reads) REACH("block symlink resolved");
		if (!g_inl_get_calls && !g_io_reads) REACH("fast symlink resolved");
	} else if (r == 0) {
		CHECK(!LINUX_S_ISLNK(IN.inode.i_mode) && res == IN.ino, "not a symlink: the inode itself");
		REACH("not a symlink");
	}
	REACH("end");
}
