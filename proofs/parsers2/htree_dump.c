/*
 * C06 / debugfs/htree.c — `debugfs -R "htree_dump <dir>"` (a read-only command) on arbitrary directory / index block bytes.
 *
 * Format (Documentation/filesystems/ext4, "Hash Tree Directories"): an index block is a fake dirent (8 bytes; the root has
 * "." and ".." and a dx_root_info, 32 bytes in all) followed by struct dx_countlimit { le16 limit; le16 count } that
 * occupies the first of `limit` 8-byte dx_entry slots; all slots (and an 8-byte dx_tail with metadata_csum) lie inside
 * the block, count <= limit.  A leaf block is a chain of dirents: 8-byte header, rec_len a multiple of 4 >= 8 + name_len,
 * ending exactly at the block end.
 *
 * Checked: with block contents completely arbitrary, htree_dump_int_node reads count/limit slots only inside the block
 * buffer it was given, and htree_dump_leaf_node reads every entry header and name inside the block, copies at most 255
 * name bytes into name[256] and terminates (rec_len >= 8 on every round).
 * Output: fprintf / com_err are mapped to a macro that still EVALUATES every argument (the reads inside the argument lists
 * are the obligations of interest); snprintf is a stub that checks its bound against the destination and writes a short string.
 */
/* VERIF-UNIT
{
 "name": "htree_dump_int_node",
 "props": ["C06"],
 "level": "U/iter",
 "tier": "quick",
 "harness": "h_htree_int",
 "includes": ["debugfs", "lib/ss", "misc"],
 "replace": ["htree_dump_int_block", "htree_dump_leaf_node"],
 "loop_contracts": true,
 "unwind": 8,
 "unwind_reason": "the two `for (i < count)` loops are cut by in-place loop contracts (named anchors VERIF_INV_HTREE_INT_PRINT / _DESCEND, hooks-pending/c06b.diff): the reads of slot i are checked for an arbitrary i in [0, count); the bound serves library loops",
 "functions": ["debugfs/htree.c:htree_dump_int_node"],
 "assumes": ["blocksize 1024 (the function uses it only as a number; the slot arithmetic is linear in it); the block buffer is what the two call sites give: interior block = exactly one block, entries at byte 8; root = first half of a 2-block buffer, entries at byte 24 + info_length (info_length arbitrary 0..255)",
	     "needs the VERIF_LOOP hooks hooks-pending/c06b.diff",
	     "the recursion partners htree_dump_int_block / htree_dump_leaf_node are replaced by contracts with arbitrary-effect-free bodies (the leaf walk is unit htree_dump_leaf_node); output functions are evaluation-only macros",
	     "FAILS on the unchanged tree: FINDING findings/C06_htree_dump_bounds (count and limit are not compared with the block size: ent[i] is read up to 512 KiB behind the buffer); green with its proposed-fix.patch"],
 "native": false
}
*/
/* VERIF-UNIT
{
 "name": "htree_dump_leaf_node",
 "props": ["C06"],
 "level": "U/iter",
 "tier": "quick",
 "harness": "h_htree_leaf",
 "includes": ["debugfs", "lib/ss", "misc"],
 "sources": ["lib/ext2fs/dir_iterate.c"],
 "loop_contracts": true,
 "unwind": 8,
 "unwind_reason": "the entry walk is cut by its in-place loop contract (named anchor VERIF_INV_HTREE_LEAF_WALK, hooks-pending/c06b.diff); the bound serves DFCC library loops; strncpy / strlen inside the contracted loop are loop-free stand-ins (strncpy: source readable and destination writable for n bytes, contents arbitrary)",
 "functions": ["debugfs/htree.c:htree_dump_leaf_node"],
 "assumes": ["blocksize 1024; the leaf buffer has exactly one block (htree_dump_int_block: cbuf = malloc(blocksize)), contents arbitrary as delivered by the ext2fs_read_dir_block4 stub",
	     "ext2fs_bmap2, ext2fs_read_dir_block4, ext2fs_dirhash2 are stubs (dirhash2 checks that the name is readable for its length); strncpy of the name is the library model",
	     "needs the VERIF_LOOP hook hooks-pending/c06b.diff",
	     "FAILS on the unchanged tree: FINDING findings/C06_htree_dump_bounds (an entry starting 4 bytes before the block end: rec_len / name_len are read behind the buffer); green with its proposed-fix.patch"],
 "native": false
}
*/
#include "verif.h"
#include "config.h"
#include <stdio.h>
#include <string.h>
#include <stdlib.h>
#include "et/com_err.h"

struct in_ht {
	unsigned char blk[2048];
	unsigned char info_length, is_root, level, csum_feature, bmap_err, rd_err, flags_unsigned;
	unsigned int ino, crc;
	unsigned long long lblk;
};
struct in_ht IN;
#include "verif_in.h"

/* evaluation-only output: every argument expression is still evaluated (comma operator), nothing is printed */
#define fprintf(f, ...)		((void)(0, __VA_ARGS__), 0)
#define com_err(w, c, ...)	((void)(0, __VA_ARGS__))
#define fputc(c, f)		((void)(c), 0)
int verif_snprintf(char *s, unsigned long n);
#define snprintf(s, n, ...)	((void)(0, __VA_ARGS__), verif_snprintf((s), (n)))

#if defined(VERIF_UNIT_htree_dump_int_node)
extern unsigned int g_leaf_calls, g_intblk_calls;
#define VERIF_INV_HTREE_INT_PRINT \
	__CPROVER_assigns(i, hash) \
	__CPROVER_loop_invariant(i >= 0 && i <= count) \
	__CPROVER_decreases(count - i)
#define VERIF_INV_HTREE_INT_DESCEND \
	__CPROVER_assigns(i, g_leaf_calls, g_intblk_calls) \
	__CPROVER_loop_invariant(i >= 0 && i <= count && g_leaf_calls + g_intblk_calls == (unsigned int) i) \
	__CPROVER_loop_invariant(level ? g_leaf_calls == 0 : g_intblk_calls == 0) \
	__CPROVER_decreases(count - i)
#endif
#if defined(VERIF_UNIT_htree_dump_leaf_node)
/* loop contract of the entry walk: the cursor is a multiple of 4 inside the block; progress >= 8 bytes per round */
#define VERIF_INV_HTREE_LEAF_WALK \
	__CPROVER_assigns(dirent, errcode, rec_len, thislen, col, offset, hash, minor_hash, __CPROVER_object_whole(name), __CPROVER_object_whole(tmp)) \
	__CPROVER_loop_invariant(offset <= fs->blocksize && col >= 0 && col <= 400) \
	__CPROVER_decreases(fs->blocksize - offset)
/* library loops are not allowed inside a contracted loop (their locals are outside its write set): loop-free stand-ins */
char *verif_strncpy(char *d, const char *s, unsigned long n);
unsigned long verif_strlen(const char *s);
#define strncpy(d, s, n) verif_strncpy((d), (s), (n))
#define strlen(s) verif_strlen(s)
#endif

#include "debugfs/htree.c"

#undef fprintf
#undef snprintf
#undef strncpy
#undef strlen

#ifndef VERIF_NATIVE
void *malloc(__CPROVER_size_t n) { return __CPROVER_allocate(n, 0); }
#endif

ext2_filsys current_fs;
unsigned int g_sn_calls, g_leaf_calls, g_intblk_calls, g_hash_calls;

int verif_snprintf(char *s, unsigned long n)
{
#ifndef VERIF_NATIVE
	CHECK(n >= 2 && __CPROVER_w_ok(s, n), "snprintf: the bound is the size of the destination");
#endif
	s[0] = 'x';
	s[1] = 0;
	return 1;
}

/* strncpy(d, s, n): reads at most n bytes of s, writes exactly n bytes of d (contents left arbitrary here) */
char *verif_strncpy(char *d, const char *s, unsigned long n)
{
#ifndef VERIF_NATIVE
	CHECK(n == 0 || __CPROVER_r_ok(s, n), "strncpy: the name is readable for name_len bytes");
	CHECK(n == 0 || __CPROVER_w_ok(d, n), "strncpy: the destination takes name_len bytes");
	if (n)
		__CPROVER_havoc_slice(d, n);
#endif
	return d;
}
/* strlen of the string the snprintf stand-in left in tmp[] */
unsigned long verif_strlen(const char *s)
{
	CHECK(s[1] == 0, "strlen: a terminated string");
	return 1;
}

static struct struct_ext2_filsys FS;
static struct ext2_super_block SB;

#if defined(VERIF_UNIT_htree_dump_int_node)
static void htree_dump_int_block(ext2_filsys fs, ext2_ino_t ino, struct ext2_inode *inode, struct ext2_dx_root_info *rootnode,
				 blk64_t blk, char *buf, int level)
	REQUIRES(level >= 0)
	ASSIGNS(g_intblk_calls)
	ENSURES(g_intblk_calls == OLD(g_intblk_calls) + 1);
static void htree_dump_leaf_node(ext2_filsys fs, ext2_ino_t ino, struct ext2_inode *inode, struct ext2_dx_root_info *rootnode,
				 blk64_t blk, char *buf)
	ASSIGNS(g_leaf_calls)
	ENSURES(g_leaf_calls == OLD(g_leaf_calls) + 1);
#endif

errcode_t ext2fs_bmap2(ext2_filsys fs, ext2_ino_t ino, struct ext2_inode *inode, char *block_buf, int bmap_flags,
		       blk64_t block, int *ret_flags, blk64_t *phys_blk)
{
	if (IN.bmap_err)
		return EXT2_ET_SHORT_READ;
	*phys_blk = 77;
	return 0;
}
errcode_t ext2fs_read_dir_block4(ext2_filsys fs, blk64_t block, void *buf, int flags, ext2_ino_t ino)
{
	if (IN.rd_err)
		return EXT2_ET_SHORT_READ;
	memcpy(buf, IN.blk, 1024);	/* arbitrary bytes; a buffer smaller than a block is a bounds violation here */
	return 0;
}
errcode_t ext2fs_dirhash2(int version, const char *name, int len, const struct ext2fs_nls_table *charset, int hash_flags,
			  const __u32 *seed, ext2_dirhash_t *ret_hash, ext2_dirhash_t *ret_minor_hash)
{
#ifndef VERIF_NATIVE
	CHECK(len >= 0 && len <= 255 && __CPROVER_r_ok(name, (unsigned long) len + 1) && name[len] == 0, "dirhash: the name is a NUL-terminated string of at most 255 bytes");
#endif
	*ret_hash = IN.crc;
	if (ret_minor_hash)
		*ret_minor_hash = IN.crc ^ 5;
	return 0;
}
#if !defined(VERIF_UNIT_htree_dump_leaf_node)
errcode_t ext2fs_get_rec_len(ext2_filsys fs, struct ext2_dir_entry *dirent, unsigned int *rec_len) { CHECK(0, "unreachable"); return 0; }
#endif

static void setup(void)
{
	g_sn_calls = g_leaf_calls = g_intblk_calls = g_hash_calls = 0;
	memset(&FS, 0, sizeof(FS));
	memset(&SB, 0, sizeof(SB));
	FS.magic = EXT2_ET_MAGIC_EXT2FS_FILSYS;
	FS.super = &SB;
	FS.blocksize = 1024;
	current_fs = &FS;
	pager = (FILE *) 0;
	if (IN.csum_feature)
		SB.s_feature_ro_compat |= EXT4_FEATURE_RO_COMPAT_METADATA_CSUM;
	if (IN.flags_unsigned)
		SB.s_flags |= EXT2_FLAGS_UNSIGNED_HASH;
}

void h_htree_int(void)
{
#if defined(VERIF_UNIT_htree_dump_int_node)
	LOAD_IN();
	setup();
	struct ext2_inode inode;
	memset(&inode, 0, sizeof(inode));
	char *cbuf = malloc(1024);
	if (IN.is_root) {
		/* do_htree_dump: buf = malloc(2 * blocksize); root block in the first half; child buffer = second half */
		unsigned char *buf = malloc(2048);
		memcpy(buf, IN.blk, 2048);
		struct ext2_dx_root_info *rootnode = (struct ext2_dx_root_info *)(buf + 24);
		struct ext2_dx_entry *ent = (struct ext2_dx_entry *)((char *) rootnode + rootnode->info_length);
		htree_dump_int_node(&FS, IN.ino, &inode, rootnode, ent, IN.crc, (char *) buf + 1024, IN.level);
		REACH("root");
	} else {
		/* htree_dump_int_block: buf holds exactly the block read; entries at byte 8 */
		unsigned char *buf = malloc(1024);
		struct ext2_dx_root_info root;
		memcpy(buf, IN.blk, 1024);
		memset(&root, 0, sizeof(root));
		htree_dump_int_node(&FS, IN.ino, &inode, &root, (struct ext2_dx_entry *)(buf + 8), IN.crc, cbuf, IN.level);
		REACH("interior");
	}
	CHECK(g_leaf_calls + g_intblk_calls <= 127, "at most one child per slot of the block");
	CHECK(IN.level ? g_leaf_calls == 0 : g_intblk_calls == 0, "children are leaves exactly at level 0");
	REACH("end");
#endif
}

void h_htree_leaf(void)
{
#if defined(VERIF_UNIT_htree_dump_leaf_node)
	LOAD_IN();
	setup();
	struct ext2_inode inode;
	struct ext2_dx_root_info root;
	memset(&inode, 0, sizeof(inode));
	memset(&root, 0, sizeof(root));
	root.hash_version = IN.level;
	char *cbuf = malloc(1024);	/* htree_dump_int_block: cbuf = malloc(fs->blocksize) */
	htree_dump_leaf_node(&FS, IN.ino, &inode, &root, IN.lblk, cbuf);
	if (!IN.bmap_err && !IN.rd_err) REACH("block walked");
	REACH("end");
#endif
}
