/*
 * C06 / lib/ext2fs/inline_data.c — the consumers of ext2fs_inline_data_ea_get on an EA "system.data" of ARBITRARY claimed
 * size: every memcpy stays inside its source (i_block: 60 bytes; the EA value: exactly ea_size bytes) and its destination.
 *
 * Inline data = the 60 bytes of i_block followed by the value of the EA "system.data" (Documentation/filesystems/ext4,
 * "Inline Data"); for a directory the first 4 bytes of i_block are the parent inode number, entries start at byte 4.
 * The xattr layer is a stub (inline_common.h) handing out a value object of exactly the claimed size.
 */
/* VERIF-UNIT
{
 "name": "inline_data_get",
 "props": ["C06"],
 "level": "U",
 "tier": "quick",
 "harness": "h_inl_get",
 "defines": ["EXT2_CUSTOM_MEMORY_ROUTINES", "INL_CAP=66000"],
 "unwind": 14,
 "unwind_reason": "loop-free real code; the bound serves the 12-character key comparison of the stub",
 "functions": ["lib/ext2fs/inline_data.c:ext2fs_inline_data_get", "lib/ext2fs/inline_data.c:ext2fs_inline_data_ea_get"],
 "assumes": ["PRECONDITION (header comment of the function; call-site census in the unit file): the caller's buffer has at least 60 + (size of the EA system.data) bytes - the harness gives exactly that many; follow_link (namei.c) violates it: unit follow_link_buffers",
	     "EA value size arbitrary up to 66000 bytes (read_xattrs_from_buffer caps values at 64 KiB = 65536), contents arbitrary; xattr layer, ext2fs_read_inode are stubs with arbitrary results; allocation succeeds"],
 "native": false
}
*/
/* VERIF-UNIT
{
 "name": "inline_data_size",
 "props": ["C06"],
 "level": "U",
 "tier": "quick",
 "harness": "h_inl_size",
 "defines": ["EXT2_CUSTOM_MEMORY_ROUTINES"],
 "unwind": 14,
 "unwind_reason": "loop-free real code; the bound serves the 12-character key comparison of the stub",
 "functions": ["lib/ext2fs/inline_data.c:ext2fs_inline_data_size"],
 "assumes": ["EA value size arbitrary (full size_t range would wrap 60 + ea_size; the xattr layer cannot produce more than 64 KiB, the harness allows up to 1 MiB)"],
 "native": false
}
*/
/* VERIF-UNIT
{
 "name": "inline_data_set",
 "props": ["C06"],
 "level": "U",
 "tier": "quick",
 "harness": "h_inl_set",
 "defines": ["EXT2_CUSTOM_MEMORY_ROUTINES"],
 "unwind": 14,
 "unwind_reason": "loop-free real code; the bound serves the 12-character key comparison of the stub",
 "functions": ["lib/ext2fs/inline_data.c:ext2fs_inline_data_set", "lib/ext2fs/inline_data.c:ext2fs_inline_data_ea_set"],
 "assumes": ["PRECONDITION: buf has (at least) size bytes - the harness gives exactly size bytes, size arbitrary up to 1 MiB",
	     "existing EA size and ext2fs_xattr_inode_max_size arbitrary; xattr layer, read/write_inode stubs"],
 "native": false
}
*/
/* VERIF-UNIT
{
 "name": "inline_data_dir_iterate",
 "props": ["C06"],
 "level": "U",
 "tier": "quick",
 "harness": "h_inl_dir_iterate",
 "defines": ["EXT2_CUSTOM_MEMORY_ROUTINES"],
 "sources": ["lib/ext2fs/dir_iterate.c"],
 "replace": ["ext2fs_process_dir_block"],
 "unwind": 14,
 "unwind_reason": "loop-free real code; the bound serves the 12-character key comparison of the stub",
 "functions": ["lib/ext2fs/inline_data.c:ext2fs_inline_data_dir_iterate"],
 "assumes": ["ext2fs_process_dir_block (dir_iterate.c; entry walk decided by parsers/validate_entry_*) is replaced by a contract whose PRECONDITION is the statement: ctx->buf is readable for ctx->buflen bytes and is, in order, the synthetic '.' entry (12 bytes), the synthetic '..' entry (12 bytes, inode = i_block[0]), i_block+4 (56 bytes), the EA value (ea_size bytes, only if non-empty); its result is arbitrary; it does not model the callback's writes into the buffer",
	     "inode bytes arbitrary (must be a directory with EXT4_INLINE_DATA_FL to get past the type checks), EA size arbitrary up to 1 MiB, blocksize 1024..65536"],
 "native": false
}
*/
/* VERIF-UNIT
{
 "name": "inline_data_expand_sizes",
 "props": ["C06"],
 "level": "U",
 "tier": "quick",
 "harness": "h_inl_expand",
 "defines": ["EXT2_CUSTOM_MEMORY_ROUTINES", "INL_CAP=66000"],
 "replace": ["ext2fs_inline_data_dir_expand", "ext2fs_inline_data_file_expand"],
 "unwind": 14,
 "unwind_reason": "loop-free real code; the bound serves the 12-character key comparison of the stub",
 "functions": ["lib/ext2fs/inline_data.c:ext2fs_inline_data_expand"],
 "assumes": ["the two back ends (dir_expand / file_expand) are replaced by contracts whose PRECONDITION is the statement: buf is readable for size bytes and size = 60 + EA size; their result is arbitrary",
	     "EA size arbitrary up to 66000 bytes (the xattr layer caps values at 64 KiB); inode bytes arbitrary; the inode re-read after the EA removal delivers independent arbitrary bytes"],
 "native": false
}
*/
/* VERIF-UNIT
{
 "name": "inline_data_convert_dir",
 "props": ["C06"],
 "level": "U/iter",
 "tier": "quick",
 "harness": "h_inl_convert_dir",
 "defines": ["EXT2_CUSTOM_MEMORY_ROUTINES", "INL_CAP=1100"],
 "sources": ["lib/ext2fs/dir_iterate.c"],
 "loop_contracts": true,
 "unwind": 14,
 "unwind_reason": "the entry walk of ext2fs_inline_data_convert_dir is cut by its in-place loop contract (named anchor VERIF_INV_INLINE_CONVERT_DIR_WALK, hooks-pending/c06b.diff); the bound serves library loops",
 "functions": ["lib/ext2fs/inline_data.c:ext2fs_inline_data_convert_dir"],
 "assumes": ["call site ext2fs_inline_data_dir_expand: bbuf = zeroed block of fs->blocksize bytes, ibuf = the inline data, size = 60 + EA size bytes exactly, contents arbitrary; blocksize 1024 (the function uses it only as a number), EA size up to 1100 (more than a block)",
	     "ext2fs_initialize_dirent_tail (csum.c) is a stub that checks it is handed the last 12 bytes of the block",
	     "needs the VERIF_LOOP hook hooks-pending/c06b.diff",
	     "FAILS on the unchanged tree: FINDING findings/C06_inline_expand_oversize (memcpy of size-4 bytes to bbuf+24 without a bound; entry walk reads headers past the data and never ends on rec_len 0); green with its proposed-fix.patch"],
 "native": false
}
*/
#include "verif.h"
#include "config.h"
#include <stdio.h>
#include <string.h>
#include <stdlib.h>
#include "ext2_fs.h"
#include "ext2fs.h"
errcode_t ext2fs_get_mem(unsigned long size, void *ptr);
errcode_t ext2fs_get_memzero(unsigned long size, void *ptr);
errcode_t ext2fs_free_mem(void *ptr);

struct in_inl {
	struct ext2_inode inode, inode2;	/* what ext2fs_read_inode delivers (first / later reads) */
	unsigned long ea_size;			/* claimed size of the EA system.data */
	unsigned long k;			/* ghost index into the inline data */
	unsigned long set_size, xmax;
	unsigned int blocksize, ino;
	unsigned char xopen_err, xread_err, xget_sel, xset_err, xmax_err, rd_err, wr_err;
	unsigned char pass_inode, want_size;
	int pdb_ret[4];
	long exp_ret;
};
struct in_inl IN;
#include "verif_in.h"

#ifndef INL_CAP
#define INL_CAP (1ul << 20)
#endif

unsigned int g_rd_calls, g_wr_calls, g_pdb_calls, g_exp_calls;
unsigned char g_wr_byte;	/* ghost: byte IN.k of i_block in the inode written last (k < 60) */
unsigned int g_wr_iblock0;

#if defined(VERIF_UNIT_inline_data_expand_sizes)
static errcode_t ext2fs_inline_data_dir_expand(ext2_filsys fs, ext2_ino_t ino, struct ext2_inode *inode, char *buf, size_t size)
	REQUIRES(__CPROVER_r_ok(buf, size))
	REQUIRES(size == 60 + (IN.xget_sel == 0 ? IN.ea_size : 0))
	REQUIRES(LINUX_S_ISDIR(inode->i_mode))
	ASSIGNS(g_exp_calls)
	ENSURES(g_exp_calls == OLD(g_exp_calls) + 1 && RET == IN.exp_ret);
static errcode_t ext2fs_inline_data_file_expand(ext2_filsys fs, ext2_ino_t ino, struct ext2_inode *inode, char *buf, size_t size)
	REQUIRES(__CPROVER_r_ok(buf, size))
	REQUIRES(size == 60 + (IN.xget_sel == 0 ? IN.ea_size : 0))
	REQUIRES(!LINUX_S_ISDIR(inode->i_mode))
	ASSIGNS(g_exp_calls)
	ENSURES(g_exp_calls == OLD(g_exp_calls) + 1 && RET == IN.exp_ret);
#endif

#if defined(VERIF_UNIT_inline_data_convert_dir)
/*
 * loop contract of the entry walk (do { } while (offset < size)): the cursor stays inside the inline data, which fits
 * the block; an entry header (8 bytes) is only read when it lies inside; progress by at least 8 bytes per round.
 */
#define VERIF_INV_INLINE_CONVERT_DIR_WALK \
	__CPROVER_assigns(dir, dir2, retval, rec_len, offset) \
	__CPROVER_loop_invariant(offset >= 24 && offset < size && size <= (int)fs->blocksize - csum_size) \
	__CPROVER_loop_invariant(__CPROVER_same_object(dir, bbuf) && (char *)dir == bbuf + offset) \
	__CPROVER_decreases(size - offset)
unsigned int g_tail_calls;
#endif

#include "lib/ext2fs/inline_data.c"
#include "inline_common.h"

/* inode I/O stubs */
errcode_t ext2fs_read_inode(ext2_filsys fs, ext2_ino_t ino, struct ext2_inode *inode)
{
	if (IN.rd_err)
		return EXT2_ET_SHORT_READ;
	*inode = g_rd_calls ? IN.inode2 : IN.inode;
	g_rd_calls++;
	return 0;
}
errcode_t ext2fs_write_inode(ext2_filsys fs, ext2_ino_t ino, struct ext2_inode *inode)
{
	g_wr_calls++;
	if (IN.k < 60)
		g_wr_byte = ((unsigned char *)inode->i_block)[IN.k];
	g_wr_iblock0 = inode->i_block[0];
	return IN.wr_err ? EXT2_ET_SHORT_WRITE : 0;
}
#if !defined(VERIF_UNIT_inline_data_dir_iterate) && !defined(VERIF_UNIT_inline_data_convert_dir)
/* not reachable from the functions of the other units; keeps the link closed */
errcode_t ext2fs_get_rec_len(ext2_filsys fs, struct ext2_dir_entry *dirent, unsigned int *rec_len) { CHECK(0, "unreachable"); return 0; }
errcode_t ext2fs_set_rec_len(ext2_filsys fs, unsigned int len, struct ext2_dir_entry *dirent) { CHECK(0, "unreachable"); return 0; }
int ext2fs_process_dir_block(ext2_filsys fs, blk64_t *blocknr, e2_blkcnt_t blockcnt, blk64_t ref_block, int ref_offset, void *priv_data) { CHECK(0, "unreachable"); return 0; }
#endif

static struct struct_ext2_filsys FS;
static struct ext2_super_block SB;

static void setup(void)
{
	INL_RESET();
	g_rd_calls = g_wr_calls = g_pdb_calls = g_exp_calls = 0;
	g_wr_byte = 0;
	g_wr_iblock0 = 0;
	ASSUME(IN.ea_size <= INL_CAP);
	ASSUME(IN.blocksize >= 1024 && IN.blocksize <= 65536);
	memset(&FS, 0, sizeof(FS));
	memset(&SB, 0, sizeof(SB));
	FS.magic = EXT2_ET_MAGIC_EXT2FS_FILSYS;
	FS.super = &SB;
	FS.blocksize = IN.blocksize;
}
#define EA_LEN (IN.xget_sel == 0 ? IN.ea_size : 0ul)

/* ------------------------------------------------------------------ get */
void h_inl_get(void)
{
	LOAD_IN();
	setup();
	unsigned long need = 60 + IN.ea_size;	/* what ext2fs_inline_data_size reports (checked in h_inl_size) */
	unsigned char *buf = malloc(need);		/* exactly: one byte more copied is a bounds violation */
	struct ext2_inode ino_copy = IN.inode;
	size_t sz = 77;
	errcode_t r = ext2fs_inline_data_get(&FS, IN.ino, IN.pass_inode ? &ino_copy : 0, buf, IN.want_size ? &sz : 0);
	CHECK(g_xopen == g_xclose, "the xattr handle is closed again");
	if (r == 0) {
		CHECK(!IN.want_size || sz == 60 + EA_LEN, "*size = 60 + size of the EA");
		if (IN.k < 60)
			CHECK(buf[IN.k] == ((unsigned char *)IN.inode.i_block)[IN.k], "bytes 0..59 are i_block");
		else if (IN.k < 60 + EA_LEN)
			CHECK(buf[IN.k] == g_ea_byte, "bytes 60.. are the EA value");
		CHECK(IN.xget_sel != 0 || g_mem_frees == 1, "the EA value handed out is freed");
		if (IN.xget_sel == 0 && IN.ea_size > 900) REACH("big EA");
		if (IN.xget_sel == 1) REACH("no EA");
	} else {
		CHECK(IN.xopen_err || IN.xread_err || IN.xget_sel >= 2 || (!IN.pass_inode && IN.rd_err), "an error has a cause");
		CHECK(!IN.want_size || sz == 77, "error: *size untouched");
	}
	REACH("end");
}

/* ------------------------------------------------------------------ size */
void h_inl_size(void)
{
	LOAD_IN();
	setup();
	size_t sz = 77;
	errcode_t r = ext2fs_inline_data_size(&FS, IN.ino, &sz);
	CHECK(g_xopen == g_xclose, "the xattr handle is closed again");
	if (r == 0) {
		CHECK(IN.inode.i_flags & EXT4_INLINE_DATA_FL, "only for inodes with EXT4_INLINE_DATA_FL");
		CHECK(sz == 60 + EA_LEN, "size = 60 + size of the EA (no wrap)");
		CHECK(IN.xget_sel != 0 || g_mem_frees == 1, "the EA value handed out is freed");
		REACH("ok");
	} else {
		CHECK(sz == 77, "error: *size untouched");
		CHECK(r != EXT2_ET_NO_INLINE_DATA || !(IN.inode.i_flags & EXT4_INLINE_DATA_FL), "NO_INLINE_DATA iff the flag is missing");
	}
	REACH("end");
}

/* ------------------------------------------------------------------ set */
void h_inl_set(void)
{
	LOAD_IN();
	setup();
	ASSUME(IN.set_size <= INL_CAP);
	unsigned char *buf = malloc(IN.set_size);	/* exactly size bytes */
	unsigned char want = (IN.k < IN.set_size && IN.k < 60) ? buf[IN.k] : 0;
	struct ext2_inode ino_copy = IN.inode;
	errcode_t r = ext2fs_inline_data_set(&FS, IN.ino, IN.pass_inode ? &ino_copy : 0, buf, IN.set_size);
	CHECK(g_xopen == g_xclose, "every xattr handle is closed again");
	if (r == 0) {
		CHECK(g_wr_calls == 1 && g_xset_calls == 1, "success: inode written once, EA set once");
		CHECK(g_xset_len == (IN.set_size > 60 ? IN.set_size - 60 : 0), "EA length = size - 60 (0 for small data)");
		CHECK(IN.set_size <= 60 || g_xset_value == buf + 60, "EA value = bytes 60.. of the caller's buffer");
		if (IN.k < IN.set_size && IN.k < 60)
			CHECK(g_wr_byte == want, "i_block receives bytes 0..59 of the data");
		if (IN.set_size > 60) REACH("uses EA");
		if (IN.set_size <= 60) REACH("fits i_block");
	} else if (r == EXT2_ET_INLINE_DATA_NO_SPACE) {
		CHECK(IN.set_size > 60 && g_wr_calls == 0 && g_xset_calls == 0, "NO_SPACE: nothing written");
		REACH("no space");
	}
	REACH("end");
}

/* ------------------------------------------------------------------ dir_iterate */
#if defined(VERIF_UNIT_inline_data_dir_iterate)
static int pdb_pre(e2_blkcnt_t blockcnt, void *priv_data)
{
	struct dir_context *ctx = (struct dir_context *) priv_data;
	struct ext2_dir_entry *d = (struct ext2_dir_entry *) ctx->buf;
	if (!(ctx->flags & DIRENT_FLAG_INCLUDE_INLINE_DATA))
		return 0;
	if (!__CPROVER_r_ok(ctx->buf, ctx->buflen))
		return 0;
	switch (blockcnt) {
	case 0: return ctx->buflen == 12 && d->inode == IN.ino && (d->name_len & 0xff) == 1 && d->rec_len == 12 && d->name[0] == '.';
	case 1: return ctx->buflen == 12 && d->inode == IN.inode.i_block[0] && (d->name_len & 0xff) == 2 && d->rec_len == 12 && d->name[0] == '.' && d->name[1] == '.';
	case 2: return ctx->buflen == 56 && ((unsigned char *)ctx->buf)[0] == ((unsigned char *)IN.inode.i_block)[4];
	case 3: return IN.xget_sel == 0 && IN.ea_size > 0 && ctx->buflen == IN.ea_size;
	}
	return 0;
}
int ext2fs_process_dir_block(ext2_filsys fs, blk64_t *blocknr, e2_blkcnt_t blockcnt, blk64_t ref_block, int ref_offset, void *priv_data)
	REQUIRES(blockcnt == g_pdb_calls)
	REQUIRES(pdb_pre(blockcnt, priv_data))
	ASSIGNS(g_pdb_calls)
	ENSURES(g_pdb_calls == OLD(g_pdb_calls) + 1 && RET == IN.pdb_ret[blockcnt & 3]);
#endif

void h_inl_dir_iterate(void)
{
#if defined(VERIF_UNIT_inline_data_dir_iterate)
	LOAD_IN();
	setup();
	struct dir_context ctx;
	char dummy[4];
	memset(&ctx, 0, sizeof(ctx));
	ctx.dir = IN.ino;
	ctx.buf = dummy;
	ctx.buflen = 4;
	ctx.flags = 0;
	int ret = ext2fs_inline_data_dir_iterate(&FS, IN.ino, &ctx);
	CHECK(ctx.buf == dummy && ctx.buflen == 4 && ctx.flags == 0, "the caller's buffer, length and flags are restored");
	CHECK(!(ret & (BLOCK_ABORT | BLOCK_INLINE_DATA_CHANGED)), "internal result bits are not handed out");
	CHECK(g_xopen == g_xclose, "every xattr handle is closed again");
	CHECK(g_pdb_calls <= 4, "at most four pieces: '.', '..', i_block+4, EA");
	if (g_pdb_calls == 4) {
		CHECK(g_mem_frees == 1, "the EA value handed out is freed");
		REACH("all four pieces");
	}
	if (g_pdb_calls == 3 && !IN.rd_err && ctx.errcode == 0) REACH("no EA piece");
	if (g_pdb_calls == 0) {
		CHECK(IN.rd_err || !(IN.inode.i_flags & EXT4_INLINE_DATA_FL) || !LINUX_S_ISDIR(IN.inode.i_mode), "nothing iterated only for a non-inline / non-directory inode");
		CHECK(ctx.errcode != 0, "and an error is recorded");
	}
	REACH("end");
#endif
}

/* ------------------------------------------------------------------ expand */
void h_inl_expand(void)
{
#if defined(VERIF_UNIT_inline_data_expand_sizes)
	LOAD_IN();
	setup();
	errcode_t r = ext2fs_inline_data_expand(&FS, IN.ino);
	CHECK(g_xopen == g_xclose, "every xattr handle is closed again");
	CHECK(g_exp_calls <= 1, "at most one back end");
	if (g_exp_calls == 1) {
		CHECK(r == IN.exp_ret, "the back end's result is the result");
		CHECK(g_wr_calls == 1 && g_xremove_calls == 1, "before the back end: inode written once with an empty i_block, EA removed once");
		if (IN.k < 60)
			CHECK(g_wr_byte == 0, "the inode written has an all-zero i_block");
		CHECK(g_mem_allocs == 1 && g_mem_frees == (IN.xget_sel == 0 ? 2u : 1u), "the inline buffer and the EA value are freed");
		if (IN.ea_size > 65536 && IN.xget_sel == 0) REACH("huge EA reaches the back end");
		REACH("back end called");
	}
	REACH("end");
#endif
}

/* ------------------------------------------------------------------ convert_dir */
#if defined(VERIF_UNIT_inline_data_convert_dir)
static char *g_bbuf;
static char BBUF[1024];
void ext2fs_initialize_dirent_tail(ext2_filsys fs, struct ext2_dir_entry_tail *t)
{
	g_tail_calls++;
	CHECK((char *)t == g_bbuf + fs->blocksize - 12, "the checksum tail is the last 12 bytes of the block");
	memset(t, 0, sizeof(*t));
}
#endif
void h_inl_convert_dir(void)
{
#if defined(VERIF_UNIT_inline_data_convert_dir)
	LOAD_IN();
	setup();
	g_tail_calls = 0;
	FS.blocksize = 1024;
	if (IN.pass_inode)
		SB.s_feature_ro_compat |= EXT4_FEATURE_RO_COMPAT_METADATA_CSUM;
	if (IN.want_size)
		SB.s_feature_incompat |= EXT2_FEATURE_INCOMPAT_FILETYPE;
	int size = 60 + (int) IN.ea_size;
	char *bbuf, *ibuf = malloc(size);		/* exactly the inline data */
	bbuf = BBUF;				/* one block, zeroed (ext2fs_get_memzero at the call site) */
	memset(BBUF, 0, 1024);
	g_bbuf = bbuf;
	unsigned int parent = *(unsigned int *) ibuf;
	errcode_t r = ext2fs_inline_data_convert_dir(&FS, IN.ino, bbuf, ibuf, size);
	if (r == 0) {
		struct ext2_dir_entry *d0 = (struct ext2_dir_entry *) bbuf, *d1 = (struct ext2_dir_entry *) (bbuf + 12);
		CHECK(d0->inode == IN.ino && d0->rec_len == 12 && (d0->name_len & 0xff) == 1 && d0->name[0] == '.', "block starts with '.' -> the directory itself");
		CHECK(d1->inode == parent && d1->rec_len == 12 && (d1->name_len & 0xff) == 2 && d1->name[0] == '.' && d1->name[1] == '.', "then '..' -> the parent stored in i_block[0]");
		CHECK(g_tail_calls == (IN.pass_inode ? 1u : 0u), "checksum tail iff metadata_csum");
		CHECK((unsigned int) size + 20 <= 1024 - (IN.pass_inode ? 12u : 0u), "accepted only if the entries fit the block");
		REACH("converted");
	}
	if (IN.ea_size > 1024) REACH("inline data bigger than a block");
	REACH("end");
#endif
}
