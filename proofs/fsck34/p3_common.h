/*
 * p3_common.h — shared world of the units on e2fsck/pass3.c (check_root, check_directory, e2fsck_reconnect_file,
 * e2fsck_adjust_inode_count, fix_dotdot_proc).  Included by pass3_logic.c AFTER it has declared IN and the contracts
 * and included the real e2fsck/pass3.c.
 *
 * Everything pass3.c calls outside its own file is a stub here.  Stubs take their answers from IN (IN.choice[] consumed
 * in order) and record what they are asked in ghost monitors; bitmaps and icount tables are opaque tagged handles whose
 * contents at the ONE inode the harness is about are ghost variables.
 */
#ifndef P3_COMMON_H
#define P3_COMMON_H

static struct struct_ext2_filsys FS;
static struct ext2_super_block SB;
static struct e2fsck_struct CTX;

/* ---- choices ---- */
unsigned int p3_nchoice;
static unsigned char p3_next(void)
{
	unsigned char v = p3_nchoice < P3_NCHOICE ? IN.choice[p3_nchoice] : 0;
	p3_nchoice++;
	return v;
}
#define P3_ERR() ((errcode_t) (p3_next() & 1 ? 0 : (long) (0x7F2BB700L + (p3_next() & 63))))

/* ---- problem log ---- */
/* the log arrays are defined in pass3_logic.c (the loop contract names them) */

int fix_problem(e2fsck_t ctx, problem_t code, struct problem_context *pctx)
{
	int a = p3_next() & 1;

	(void) ctx;
	if (p3_nlog < P3_LOG) {
		p3_code[p3_nlog] = code;
		p3_ans[p3_nlog] = (unsigned char) a;
		p3_pino[p3_nlog] = pctx ? pctx->ino : 0;
		p3_pdir[p3_nlog] = pctx ? pctx->dir : 0;
		p3_pino2[p3_nlog] = pctx ? pctx->ino2 : 0;
	}
	p3_nlog++;
	if (g_after_loop) {
		if (code == PR_3_BAD_DOT_DOT) {
			dd_raised++; dd_ans = (unsigned char) a;
			dd_ino = pctx->ino; dd_ino2 = pctx->ino2; dd_dir = pctx->dir;
		} else
			al_other++;
	} else {
		it_probs++; it_code = code; it_ans = (unsigned char) a;
		it_pino = pctx ? pctx->ino : 0; it_pdir = pctx ? pctx->dir : 0;
	}
	return a;
}
static unsigned int p3_raised(problem_t code)
{
	unsigned int i, n = 0;

	for (i = 0; i < P3_LOG; i++)
		if (i < p3_nlog && p3_code[i] == code)
			n++;
	return n;
}
void clear_problem_context(struct problem_context *pctx)
{
	memset(pctx, 0, sizeof(*pctx));
	pctx->blkcount = -1;
	pctx->group = -1;
}

/* ---- event counter for ordering statements ---- */
unsigned int p3_ev;

/* ---- bitmaps ---- */
unsigned char g_root_used, g_root_dir;			/* bits of EXT2_ROOT_INO in inode_used_map / inode_dir_map */
unsigned int p3_mark_used, p3_mark_dir, p3_mark_imap;	/* marks of EXT2_ROOT_INO */
unsigned int p3_mark_found, p3_mark_bmap, p3_mark_other;
blk64_t p3_mark_found_blk, p3_mark_bmap_blk;
/* check_directory: the ghost inode k of the done map / the loop-detection map */
ext2_ino_t g_k;
unsigned char g_k_done, g_k_done_before, g_k_marked_here, g_k_loop;
unsigned int p3_done_marks;

int ext2fs_test_generic_bmap(ext2fs_generic_bitmap bitmap, __u64 arg)
{
	if (bitmap == (ext2fs_generic_bitmap) H_USED && arg == EXT2_ROOT_INO)
		return g_root_used;
	if (bitmap == (ext2fs_generic_bitmap) H_DIRMAP && arg == EXT2_ROOT_INO)
		return g_root_dir;
	if (bitmap == (ext2fs_generic_bitmap) H_LOOP) {
		int r = arg == g_k ? g_k_loop : (p3_next() & 1);

		CHECK(g_loop_pass, "the loop-detection map is only consulted in the loop-detection pass");
		if (arg == it_parent)
			it_parent_seen = (unsigned char) r;
		return r;
	}
	return p3_next() & 1;
}
int ext2fs_mark_generic_bmap(ext2fs_generic_bitmap bitmap, __u64 arg)
{
	if (bitmap == (ext2fs_generic_bitmap) H_USED && arg == EXT2_ROOT_INO) {
		int o = g_root_used; g_root_used = 1; p3_mark_used++; return o;
	}
	if (bitmap == (ext2fs_generic_bitmap) H_DIRMAP && arg == EXT2_ROOT_INO) {
		int o = g_root_dir; g_root_dir = 1; p3_mark_dir++; return o;
	}
	if (bitmap == (ext2fs_generic_bitmap) H_IMAP && arg == EXT2_ROOT_INO) {
		p3_mark_imap++; return p3_next() & 1;
	}
	if (bitmap == (ext2fs_generic_bitmap) H_FOUND) {
		p3_mark_found++; p3_mark_found_blk = arg; return p3_next() & 1;
	}
	if (bitmap == (ext2fs_generic_bitmap) H_BMAP) {
		p3_mark_bmap++; p3_mark_bmap_blk = arg; return p3_next() & 1;
	}
	if (bitmap == (ext2fs_generic_bitmap) H_DONE) {
		p3_done_marks++;
		it_valid = 0;		/* top of a step: the monitors of the previous step are void */
		CHECK(arg != 0, "the walk never steps to inode 0");
		if (arg == g_k) {
			int o = g_k_done;
			if (g_cycle_obs && o)
				CHECK(!g_k_marked_here, "the walk ends silently at a 'done' inode only if that inode was done BEFORE this walk (verified connected or already offered) — not if this very walk marked it (a cycle detached from the root)");
			if (!o)
				g_k_marked_here = 1;
			g_k_done = 1;
			return o;
		}
		return p3_next() & 1;
	}
	if (bitmap == (ext2fs_generic_bitmap) H_LOOP) {
		if (arg == g_k) {
			int o = g_k_loop; g_k_loop = 1; return o;
		}
		return p3_next() & 1;
	}
	p3_mark_other++;
	return p3_next() & 1;
}

/* ---- allocation / writers used by check_root ---- */
void e2fsck_read_bitmaps(e2fsck_t ctx) { (void) ctx; }
unsigned int p3_newblk_calls; blk64_t p3_newblk;
errcode_t ext2fs_new_block2(ext2_filsys fs, blk64_t goal, ext2fs_block_bitmap map, blk64_t *ret)
{
	errcode_t e = P3_ERR();

	(void) fs; (void) goal;
	p3_newblk_calls++;
	CHECK(map == H_FOUND, "new blocks are searched in e2fsck's own map of blocks in use (block_found_map)");
	if (e)
		return e;
	*ret = IN.new_block;
	p3_newblk = IN.new_block;
	return 0;
}
unsigned int p3_iblk_set; blk64_t p3_iblk_val;
errcode_t ext2fs_iblk_set(ext2_filsys fs, struct ext2_inode *inode, blk64_t b)
{
	(void) fs; (void) inode;
	p3_iblk_set++; p3_iblk_val = b;
	return 0;
}
unsigned int p3_wni, p3_wni_ev; ext2_ino_t p3_wni_ino; struct ext2_inode p3_wni_inode;
errcode_t ext2fs_write_new_inode(ext2_filsys fs, ext2_ino_t ino, struct ext2_inode *inode)
{
	(void) fs;
	p3_wni++; p3_wni_ino = ino; p3_wni_inode = *inode; p3_wni_ev = ++p3_ev;
	return P3_ERR();
}
unsigned int p3_ndb; ext2_ino_t p3_ndb_ino, p3_ndb_parent;
errcode_t ext2fs_new_dir_block(ext2_filsys fs, ext2_ino_t dir_ino, ext2_ino_t parent_ino, char **block)
{
	errcode_t e = P3_ERR();

	(void) fs;
	p3_ndb++; p3_ndb_ino = dir_ino; p3_ndb_parent = parent_ino;
	if (e)
		return e;
	*block = malloc(16);
	ASSUME(*block != 0);
	return 0;
}
unsigned int p3_wdb, p3_wdb_ev; blk64_t p3_wdb_blk; ext2_ino_t p3_wdb_ino;
errcode_t ext2fs_write_dir_block4(ext2_filsys fs, blk64_t block, void *buf, int flags, ext2_ino_t ino)
{
	(void) fs; (void) buf; (void) flags;
	p3_wdb++; p3_wdb_blk = block; p3_wdb_ino = ino; p3_wdb_ev = ++p3_ev;
	return P3_ERR();
}
/* since the fix: commit that makes a re-created root / lost+found extent mapped, pass3.c maps the new block with
 * ext2fs_bmap2(BMAP_SET) on file systems with the extents feature (statement about the mapping: units fscklpf/...) */
unsigned int p3_bmap2, p3_bmap2_ev; ext2_ino_t p3_bmap2_ino; blk64_t p3_bmap2_blk;
errcode_t ext2fs_bmap2(ext2_filsys fs, ext2_ino_t ino, struct ext2_inode *inode, char *block_buf, int bmap_flags,
		       blk64_t block, int *ret_flags, blk64_t *phys_blk)
{
	(void) fs; (void) inode; (void) block_buf; (void) bmap_flags; (void) block; (void) ret_flags;
	p3_bmap2++; p3_bmap2_ino = ino; p3_bmap2_blk = phys_blk ? *phys_blk : 0; p3_bmap2_ev = ++p3_ev;
	return P3_ERR();
}
unsigned int p3_adi; ext2_ino_t p3_adi_ino, p3_adi_parent;
void e2fsck_add_dir_info(e2fsck_t ctx, ext2_ino_t ino, ext2_ino_t parent)
{
	(void) ctx;
	p3_adi++; p3_adi_ino = ino; p3_adi_parent = parent;
}
unsigned int p3_store[2]; __u16 p3_store_val[2]; ext2_ino_t p3_store_ino[2];
errcode_t ext2fs_icount_store(ext2_icount_t icount, ext2_ino_t ino, __u16 count)
{
	int w = icount == H_LINKINFO;

	p3_store[w]++; p3_store_val[w] = count; p3_store_ino[w] = ino;
	return 0;
}
void quota_data_add(quota_ctx_t qctx, struct ext2_inode_large *inode, ext2_ino_t ino, qsize_t space)
{ (void) qctx; (void) inode; (void) ino; (void) space; }
void quota_data_inodes(quota_ctx_t qctx, struct ext2_inode_large *inode, ext2_ino_t ino, int adjust)
{ (void) qctx; (void) inode; (void) ino; (void) adjust; }

/* ---- inode access used by e2fsck_adjust_inode_count / e2fsck_reconnect_file ---- */
unsigned int p3_ri; ext2_ino_t p3_ri_ino; unsigned char p3_ri_failed;
struct ext2_inode g_inode;		/* the inode handed out by ext2fs_read_inode */
errcode_t ext2fs_read_inode(ext2_filsys fs, ext2_ino_t ino, struct ext2_inode *inode)
{
	errcode_t e = P3_ERR();

	(void) fs;
	p3_ri++; p3_ri_ino = ino;
	*inode = g_inode;		/* the real one may leave garbage on error: contents given in both cases */
	p3_ri_failed = e != 0;
	return e;
}
unsigned int p3_wi; ext2_ino_t p3_wi_ino; struct ext2_inode p3_wi_inode;
errcode_t ext2fs_write_inode(ext2_filsys fs, ext2_ino_t ino, struct ext2_inode *inode)
{
	(void) fs;
	p3_wi++; p3_wi_ino = ino; p3_wi_inode = *inode;
	return P3_ERR();
}
/* icount monitors: index 0 = ctx->inode_count (references counted in pass 2), 1 = ctx->inode_link_info (i_links_count) */
unsigned int p3_inc[2], p3_dec[2]; ext2_ino_t p3_cnt_ino; unsigned char p3_cnt_ino_bad;
static void p3_cnt(ext2_ino_t ino)
{
	if (p3_inc[0] + p3_inc[1] + p3_dec[0] + p3_dec[1] == 0)
		p3_cnt_ino = ino;
	else if (p3_cnt_ino != ino)
		p3_cnt_ino_bad = 1;
}
errcode_t ext2fs_icount_increment(ext2_icount_t icount, ext2_ino_t ino, __u16 *ret)
{
	(void) ret;
	p3_cnt(ino); p3_inc[icount == H_LINKINFO]++;
	return 0;
}
errcode_t ext2fs_icount_decrement(ext2_icount_t icount, ext2_ino_t ino, __u16 *ret)
{
	(void) ret;
	p3_cnt(ino); p3_dec[icount == H_LINKINFO]++;
	return 0;
}

/* ---- ext2fs_link / expansion used by e2fsck_reconnect_file ---- */
#define P3_LINKS 3u
unsigned int p3_nlink, p3_link_ok;
ext2_ino_t p3_link_dir[P3_LINKS], p3_link_ino[P3_LINKS]; int p3_link_flags[P3_LINKS]; char p3_link_name[P3_LINKS][16];
errcode_t p3_link_ret[P3_LINKS];
unsigned int p3_adj_at_link[P3_LINKS];
errcode_t ext2fs_link(ext2_filsys fs, ext2_ino_t dir, const char *name, ext2_ino_t ino, int flags)
{
	errcode_t e;
	unsigned char c = p3_next();
	unsigned int i;

	(void) fs;
	e = (c & 3) == 0 ? 0 : (c & 3) == 1 ? EXT2_ET_DIR_NO_SPACE : P3_ERR();
	if (p3_nlink < P3_LINKS) {
		p3_link_dir[p3_nlink] = dir; p3_link_ino[p3_nlink] = ino; p3_link_flags[p3_nlink] = flags;
		for (i = 0; i < 6; i++)
			p3_link_name[p3_nlink][i] = name[i];	/* char name[80] in the caller */
		p3_link_ret[p3_nlink] = e;
		p3_adj_at_link[p3_nlink] = p3_adj_calls;
	}
	p3_nlink++;
	if (!e)
		p3_link_ok++;
	return e;
}
unsigned int p3_ft_calls, p3_ft_mode;
int ext2_file_type(unsigned int mode)
{
	p3_ft_calls++; p3_ft_mode = mode;
	return IN.ft;			/* e2fsck/util.c: a pure function of the mode; any value, passed through */
}
/* sprintf(name, "#%u", ino): variadic — mapped to this fixed-arity stand-in.  The decimal conversion itself is the C
 * library's business (and "print then parse back" over 10 digits is a hard SAT problem): the stand-in checks the format
 * string, records the argument and writes an injective encoding of it ('#', the four bytes of the value, NUL). */
unsigned int p3_spf_calls, p3_spf_val;
static int p3_sprintf_u(char *buf, const char *fmt, unsigned int v)
{
	CHECK(fmt[0] == '#' && fmt[1] == '%' && fmt[2] == 'u' && fmt[3] == 0, "sprintf stand-in: format is \"#%u\"");
	p3_spf_calls++; p3_spf_val = v;
	buf[0] = '#';
	buf[1] = (char) (v & 255); buf[2] = (char) ((v >> 8) & 255); buf[3] = (char) ((v >> 16) & 255); buf[4] = (char) (v >> 24);
	buf[5] = 0;
	return 6;
}

/* ---- dirinfo used by check_directory ---- */
ext2_ino_t g_parent_of_k; unsigned char g_k_noinfo;	/* dirinfo of the ghost inode */
unsigned int p3_gp_calls;
int e2fsck_dir_info_get_parent(e2fsck_t ctx, ext2_ino_t ino, ext2_ino_t *parent)
{
	int fail;
	ext2_ino_t par;

	(void) ctx;
	p3_gp_calls++;
	if (ino == g_k) {
		fail = g_k_noinfo;
		par = g_parent_of_k;
	} else {
		fail = p3_next() & 1;
		par = IN.other_parent[p3_next() & 3];
	}
	if (g_after_loop) {
		al_gp_ok = !fail; al_parent = par;
	}
	if (!g_after_loop) {		/* top of a step of the walk: new per-step monitors */
		it_valid = 1; it_ino = ino; it_noinfo = (unsigned char) fail; it_parent = par;
		it_probs = 0; it_code = 0; it_ans = 0; it_pino = it_pdir = 0; it_parent_seen = 0;
	}
	if (fail)
		return 1;
	*parent = par;
	return 0;
}
int e2fsck_dir_info_get_dotdot(e2fsck_t ctx, ext2_ino_t ino, ext2_ino_t *dotdot)
{
	(void) ctx; (void) ino;
	g_after_loop = 1;
	al_dd_ok = 0;
	if (p3_next() & 1)
		return 1;
	al_dd_ok = 1;
	*dotdot = IN.dotdot;
	return 0;
}
int e2fsck_dir_info_set_dotdot(e2fsck_t ctx, ext2_ino_t ino, ext2_ino_t dotdot)
{ (void) ctx; (void) ino; (void) dotdot; return p3_next() & 1; }
int e2fsck_dir_info_set_parent(e2fsck_t ctx, ext2_ino_t ino, ext2_ino_t parent)
{ (void) ctx; (void) ino; (void) parent; return p3_next() & 1; }
errcode_t ext2fs_lookup(ext2_filsys fs, ext2_ino_t dir, const char *name, int namelen, char *buf, ext2_ino_t *inode)
{
	(void) fs; (void) dir; (void) name; (void) namelen; (void) buf;
	if (p3_next() & 1)
		return EXT2_ET_FILE_NOT_FOUND;
	*inode = IN.dotdot;
	return 0;
}
void ext2fs_clear_inode_bitmap(ext2fs_inode_bitmap bitmap)
{
	if (bitmap == H_LOOP) {
		g_k_loop = 0;
		g_loop_pass = 1;
	}
}
errcode_t e2fsck_allocate_inode_bitmap(ext2_filsys fs, const char *descr, int deftype, const char *name,
				       ext2fs_inode_bitmap *ret)
{
	errcode_t e = P3_ERR();

	(void) fs; (void) descr; (void) deftype; (void) name;
	if (e)
		return e;
	*ret = H_LOOP;
	g_k_loop = 0;
	g_loop_pass = 1;
	return 0;
}
char *gettext(const char *msgid) { return (char *) msgid; }
int e2fsck_dir_will_be_rehashed(e2fsck_t ctx, ext2_ino_t ino) { (void) ctx; (void) ino; return p3_next() & 1; }

static void p3_world(void)
{
	p3_nchoice = p3_nlog = p3_ev = 0;
	p3_bmap2 = 0; p3_bmap2_ev = 0; p3_bmap2_ino = 0; p3_bmap2_blk = 0;
	p3_mark_used = p3_mark_dir = p3_mark_imap = p3_mark_found = p3_mark_bmap = p3_mark_other = 0;
	p3_mark_found_blk = p3_mark_bmap_blk = 0;
	p3_newblk_calls = 0; p3_newblk = 0; p3_iblk_set = 0; p3_iblk_val = 0;
	p3_wni = p3_wni_ev = 0; p3_wni_ino = 0; p3_ndb = 0; p3_ndb_ino = p3_ndb_parent = 0;
	p3_wdb = p3_wdb_ev = 0; p3_wdb_blk = 0; p3_wdb_ino = 0; p3_adi = 0; p3_adi_ino = p3_adi_parent = 0;
	p3_store[0] = p3_store[1] = 0; p3_store_val[0] = p3_store_val[1] = 0; p3_store_ino[0] = p3_store_ino[1] = 0;
	p3_ri = 0; p3_ri_ino = 0; p3_ri_failed = 0; p3_wi = 0; p3_wi_ino = 0;
	p3_inc[0] = p3_inc[1] = p3_dec[0] = p3_dec[1] = 0; p3_cnt_ino = 0; p3_cnt_ino_bad = 0;
	p3_nlink = p3_link_ok = 0;
	p3_ft_calls = p3_ft_mode = 0; p3_spf_calls = p3_spf_val = 0; p3_gp_calls = 0; p3_done_marks = 0;
	g_root_used = IN.root_used & 1; g_root_dir = IN.root_dir & 1;
	g_k = IN.k; g_k_done = g_k_done_before = IN.k_done & 1; g_k_marked_here = 0; g_k_loop = IN.k_loop & 1;
	g_parent_of_k = IN.parent_of_k; g_k_noinfo = IN.k_noinfo & 1;
	memcpy(&g_inode, IN.inode, sizeof(g_inode));
	memset(&SB, 0, sizeof(SB));
	SB.s_feature_incompat = IN.feature_incompat;
	SB.s_log_cluster_size = 0;
	memset(&FS, 0, sizeof(FS));
	FS.super = &SB;
	FS.blocksize = IN.blocksize;
	FS.flags = IN.fsflags;
	FS.block_map = H_BMAP;
	FS.inode_map = H_IMAP;
	memset(&CTX, 0, sizeof(CTX));
	CTX.fs = &FS;
	CTX.options = IN.options;
	CTX.flags = IN.ctxflags;
	CTX.now = IN.now;
	CTX.inode_used_map = H_USED;
	CTX.inode_dir_map = H_DIRMAP;
	CTX.block_found_map = H_FOUND;
	CTX.inode_count = H_ICOUNT;
	CTX.inode_link_info = H_LINKINFO;
	CTX.root_repair_block = IN.root_repair_block;
	CTX.lost_and_found = IN.lost_and_found;
	CTX.bad_lost_and_found = IN.bad_lnf;
}
#endif
