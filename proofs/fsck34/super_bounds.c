/* VERIF-UNIT
{
 "name": "p34_csb_value_bounds",
 "props": ["C02", "C05"],
 "level": "U/k",
 "tier": "quick",
 "harness": "h_csb_bounds",
 "replace": ["release_orphan_inodes"],
 "includes": ["e2fsck"],
 "sources": ["lib/uuid/isnull.c"],
 "unwind": 17,
 "unwind_reason": "uuid_is_null: 16 bytes; the per-group loops run fs->group_desc_count == 1 times (assumption); the harness compares 8 name bytes; unwinding assertions on",
 "cbmc_flags": ["--object-bits", "10"],
 "timeout": 600,
 "functions": ["e2fsck/super.c:check_super_block", "e2fsck/super.c:check_super_value", "e2fsck/super.c:check_super_value64"],
 "assumes": ["call-site guarantees of ext2fs_open2 (lib/ext2fs/openfs.c, the only way e2fsck obtains ctx->fs) that check_super_block needs for its first statements to be defined: s_log_block_size <= 6 and s_log_block_size <= s_log_cluster_size <= 19 (shift distances of EXT2_BLOCK_SIZE / EXT2FS_CLUSTER_RATIO), EXT2_INODE_SIZE != 0 (divisor of EXT2_INODES_PER_BLOCK), s_first_data_block != s_blocks_count (openfs rejects >=; check_super_block itself only rejects >), with 64bit s_desc_size != 0 (openfs: EXT2_ET_BAD_DESC_SIZE unconditionally; check_super_block's power-of-two test lets 0 pass); fs->blocksize = EXT2_BLOCK_SIZE(sb), fs->cluster_ratio_bits = s_log_cluster_size - s_log_block_size as ext2fs_open2 sets them; the bounds on the two log fields are therefore preconditions here and their call sites of check_super_value are not exercised",
	     "s_log_cluster_size <= 17: with 18 or 19 the expression `8 * EXT2_BLOCK_SIZE(sb) * EXT2FS_CLUSTER_RATIO(fs)` (bpg_max) overflows int (undefined behaviour, in practice a wrap that makes the blocks_per_group check fire) — side observation, excluded",
	     "fs->group_desc_count == 1 (the statement is about the value checks in front of the group loop; should_be = inodes_per_group * group_desc_count is a product with a constant); every other superblock byte, ctx->options/flags/now/num_blocks, the group descriptor and all callee answers are arbitrary",
	     "fix_problem is a stub: answers arbitrarily, counts the PR_0 codes, remembers the field name of PR_0_MISC_CORRUPT_SUPER; the real one ends the process on the PR_FATAL codes, here it returns and the code's own E2F_FLAG_ABORT + return is checked",
	     "callees from other files are stubs as in readonly/super_ro.c (group-descriptor accessors answer arbitrarily); release_orphan_inodes replaced by a counting contract; no frame enforcement",
	     "bounds that check_super_block does NOT state and that are therefore not claimed here: s_rev_level, s_log_groups_per_flex (both ext2fs_open2), desc_size >= 64 with 64bit (ext2fs_open2), inodes_per_group <= 8 * blocksize (inode bitmap fits its block: only enforced later by ext2fs_read_bitmaps)"],
 "backend": "cadical",
 "native": false
}
*/
/* VERIF-UNIT
{
 "name": "p34_check_resize_inode",
 "props": ["C02", "C01", "C05"],
 "level": "U/k",
 "tier": "quick",
 "harness": "h_resize",
 "includes": ["e2fsck"],
 "unwind": 3,
 "unwindset": {"check_resize_inode.0": 16, "check_resize_inode.1": 16, "h_resize.0": 16, "e2fsck_write_inode.0": 16},
 "unwind_reason": "loops .0/.1 (and the harness / e2fsck_write_inode stub scans): EXT2_N_BLOCKS = 15 i_block slots; reserved-gdt loop: s_reserved_gdt_blocks / 4 <= 1 iterations, group loop: j = 1 .. group_desc_count - 1 <= 1 iteration (assumptions); the backward goto resize_inode_invalid leaves through cleanup; unwinding assertions check all of them",
 "cbmc_flags": ["--object-bits", "10"],
 "timeout": 600,
 "functions": ["e2fsck/super.c:check_resize_inode"],
 "assumes": ["block size 1 KiB, s_first_data_block = 1, s_reserved_gdt_blocks < 8, group_desc_count <= 2 (bounds the two verification loops), fs->desc_blocks = 1; no 64bit",
	     "ext2fs_read_inode / ext2fs_read_ind_block / ext2fs_bg_has_super are stubs: the resize inode and the two indirect block images are arbitrary (IN), reads may fail",
	     "healthy resize inode (independent reading of the format, 'resize_inode' in the ext4 documentation and lib/ext2fs/res_gdt.c): a regular file with at least one link whose only mapped block is the double-indirect one, inside the filesystem; its slot (desc_blocks + i) mod (blocksize/4) holds the i-th reserved GDT block of group 0 = first_data_block + 1 + desc_blocks + i, and that block lists the same block of every backup group",
	     "fix_problem answers arbitrarily; no frame enforcement"],
 "backend": "cadical",
 "native": false
}
*/
/* VERIF-UNIT
{
 "name": "p34_fix_dirhash_hint",
 "props": ["C01", "C05"],
 "level": "U",
 "tier": "quick",
 "harness": "h_dirhash",
 "includes": ["e2fsck"],
 "unwind": 3,
 "unwind_reason": "e2fsck_fix_dirhash_hint is loop-free",
 "functions": ["e2fsck/super.c:e2fsck_fix_dirhash_hint"],
 "assumes": ["the superblock is arbitrary; fix_problem answers arbitrarily; `char` is signed on the verified platform (x86_64: the hint written is EXT2_FLAGS_SIGNED_HASH)"],
 "backend": "cadical",
 "native": false
}
*/
/*
 * e2fsck/super.c — value checks of check_super_block, check_resize_inode, e2fsck_fix_dirhash_hint.
 *
 * check_super_block (C02 "superblock fields in range"; C05):
 *   for every NECESSARY bound B of specs/fsck34_super_bounds.h:  B violated  =>  a fatal superblock problem is raised
 *   (PR_0_MISC_CORRUPT_SUPER; PR_0_FIRST_DATA_BLOCK for the 1 KiB rule; PR_0_INODE_COUNT_BIG / PR_0_INODE_COUNT_WRONG
 *   for the total), E2F_FLAG_ABORT is set and the function returns before it looks at a group descriptor — unless the
 *   problem is the repairable inode total and the repair was accepted (then s_inodes_count holds the product);
 *   exactly ONE bound violated => PR_0_MISC_CORRUPT_SUPER names that field;
 *   FSCK34_SB_HEALTHY  =>  none of these problems is raised, E2F_FLAG_ABORT is not set by the value checks and the
 *   geometry fields of the superblock are unchanged (C05).
 *
 * check_resize_inode: see the assumes of the unit; healthy => nothing raised, nothing written, flags unchanged;
 *   structurally damaged resize inode => PR_0_RESIZE_INODE_INVALID raised; accepted => the inode is written zeroed and
 *   E2F_FLAG_RESIZE_INODE set (it is re-created at the end of the run); not read-only => the filesystem loses
 *   EXT2_VALID_FS; feature off: any mapped block => PR_0_CLEAR_RESIZE_INODE, s_reserved_gdt_blocks != 0 =>
 *   PR_0_NONZERO_RESERVED_GDT_BLOCKS.
 *
 * e2fsck_fix_dirhash_hint: only when not read-only, dir_index on and neither hint set: PR_0_DIRHASH_HINT raised;
 *   accepted => exactly one of the two hint flags is set (the one matching the platform's char) and the superblock is
 *   dirty; otherwise s_flags untouched.
 */
#include "verif.h"

#define SB_NCHOICE 48u
struct in_sb {
	int options, ctx_flags;
	unsigned int fs_flags;
	unsigned char sb[1024];
	unsigned char gd[64];
	unsigned char rinode[128];
	unsigned int ind[512];
	unsigned int group_desc_count;
	long long now;
	unsigned long long num_blocks;
	unsigned long long choice[SB_NCHOICE];
};
struct in_sb IN;
#include "verif_in.h"
#include "fsck34_super_bounds.h"

static unsigned int sb_nchoice;
static unsigned long long sb_choice(void)
{
	unsigned long long v = sb_nchoice < SB_NCHOICE ? IN.choice[sb_nchoice] : 0;
	sb_nchoice++;
	return v;
}
#define SB_ERR() ((errcode_t)(long)(sb_choice() & 0x7fffffffULL))

unsigned int g_orphan_calls;
unsigned long long verif_k;

#include "config.h"
#include "e2fsck.h"
static int release_orphan_inodes(e2fsck_t ctx)
	ASSIGNS(g_orphan_calls)
	ENSURES(g_orphan_calls == OLD(g_orphan_calls) + 1);

#include "e2fsck/super.c"

static struct struct_io_manager MGR;
static struct struct_io_channel FSCH;
static struct struct_ext2_filsys FS;
static struct ext2_super_block SB;
static struct e2fsck_struct CTX;
static struct ext2_group_desc GD[2];

/* ---- monitors ---- */
unsigned int n_misc, n_fdb, n_cnt_big, n_cnt_wrong, n_other, n_gd_seen, n_fs_size;
unsigned char a_cnt_wrong, a_fs_size;
const char *misc_str; unsigned long long misc_num;
unsigned int n_resize_invalid, n_clear_resize, n_nonzero_rgdt, n_disable_resize, n_dirhash;
unsigned char a_resize_invalid, a_clear_resize, a_nonzero_rgdt, a_disable_resize, a_dirhash;
unsigned int n_write_inode; unsigned char wi_zero; ext2_ino_t wi_ino;

int fix_problem(e2fsck_t ctx, problem_t code, struct problem_context *pctx)
{
	int a = (int) (sb_choice() & 1);

	(void) ctx;
	switch (code) {
	case PR_0_MISC_CORRUPT_SUPER: n_misc++; misc_str = pctx->str; misc_num = pctx->num; break;
	case PR_0_FIRST_DATA_BLOCK: n_fdb++; break;
	case PR_0_INODE_COUNT_BIG: n_cnt_big++; break;
	case PR_0_INODE_COUNT_WRONG: n_cnt_wrong++; a_cnt_wrong = (unsigned char) a; break;
	case PR_0_FS_SIZE_WRONG: n_fs_size++; a_fs_size = (unsigned char) a; break;
	case PR_0_RESIZE_INODE_INVALID: n_resize_invalid++; a_resize_invalid = (unsigned char) a; break;
	case PR_0_CLEAR_RESIZE_INODE: n_clear_resize++; a_clear_resize = (unsigned char) a; break;
	case PR_0_NONZERO_RESERVED_GDT_BLOCKS: n_nonzero_rgdt++; a_nonzero_rgdt = (unsigned char) a; break;
	case PR_0_DISABLE_RESIZE_INODE: n_disable_resize++; a_disable_resize = (unsigned char) a; break;
	case PR_0_DIRHASH_HINT: n_dirhash++; a_dirhash = (unsigned char) a; break;
	default: n_other++; break;
	}
	return a;
}
void clear_problem_context(struct problem_context *pctx)
{
	memset(pctx, 0, sizeof(*pctx));
	pctx->blkcount = -1;
	pctx->group = -1;
}
void *e2fsck_allocate_memory(e2fsck_t ctx, unsigned long size, const char *description)
{
	void *p = malloc(size);

	(void) ctx; (void) description;
	ASSUME(p != 0);
	memset(p, 0, size);
	return p;
}
void com_err(const char *whoami, errcode_t code, const char *fmt, ...) { (void) whoami; (void) code; (void) fmt; }
char *gettext(const char *msgid) { return (char *) msgid; }
errcode_t profile_get_boolean(profile_t profile, const char *name, const char *subname, const char *subsubname,
			      int def_val, int *ret_boolean)
{ (void) profile; (void) name; (void) subname; (void) subsubname; (void) def_val; *ret_boolean = (int) (sb_choice() & 1); return 0; }
int fs_proc_check(const char *fs_name) { (void) fs_name; return (int) (sb_choice() & 1); }
int check_for_modules(const char *fs_name) { (void) fs_name; return (int) (sb_choice() & 1); }
int ext2fs_group_desc_csum_verify(ext2_filsys fs, dgrp_t group) { (void) fs; (void) group; return (int) (sb_choice() & 1); }
__u16 ext2fs_group_desc_csum(ext2_filsys fs, dgrp_t group) { (void) fs; (void) group; return (__u16) sb_choice(); }
void ext2fs_group_desc_csum_set(ext2_filsys fs, dgrp_t group) { (void) fs; (void) group; }
void uuid_generate(uuid_t out) { (void) out; }
void ext2fs_init_csum_seed(ext2_filsys fs) { (void) fs; }
void ext2fs_update_dynamic_rev(ext2_filsys fs) { (void) fs; }
void e2fsck_write_inode(e2fsck_t ctx, unsigned long ino, struct ext2_inode *inode, const char *proc)
{
	unsigned int i;
	unsigned char z = 1;

	(void) ctx; (void) proc;
	n_write_inode++; wi_ino = (ext2_ino_t) ino;
	if (inode->i_mode || inode->i_links_count || inode->i_size || inode->i_blocks || inode->i_flags)
		z = 0;
	for (i = 0; i < EXT2_N_BLOCKS; i++)
		if (inode->i_block[i])
			z = 0;
	wi_zero = z;
}
void e2fsck_validate_quota_inodes(e2fsck_t ctx) { (void) ctx; }
void e2fsck_move_ext3_journal(e2fsck_t ctx) { (void) ctx; }
int e2fsck_fix_ext3_journal_hint(e2fsck_t ctx) { (void) ctx; return 0; }
void e2fsck_hide_quota(e2fsck_t ctx) { (void) ctx; }
/* group-descriptor accessors (lib/ext2fs/blknum.c): arbitrary answers; a first call marks "the group loop was reached" */
blk64_t ext2fs_group_first_block2(ext2_filsys fs, dgrp_t group) { (void) fs; (void) group; n_gd_seen++; return sb_choice(); }
blk64_t ext2fs_group_last_block2(ext2_filsys fs, dgrp_t group) { (void) fs; (void) group; n_gd_seen++; return sb_choice(); }
blk64_t ext2fs_block_bitmap_loc(ext2_filsys fs, dgrp_t group) { (void) fs; (void) group; n_gd_seen++; return sb_choice(); }
blk64_t ext2fs_inode_bitmap_loc(ext2_filsys fs, dgrp_t group) { (void) fs; (void) group; n_gd_seen++; return sb_choice(); }
blk64_t ext2fs_inode_table_loc(ext2_filsys fs, dgrp_t group) { (void) fs; (void) group; n_gd_seen++; return sb_choice(); }
void ext2fs_block_bitmap_loc_set(ext2_filsys fs, dgrp_t group, blk64_t blk) { (void) fs; (void) group; (void) blk; }
void ext2fs_inode_bitmap_loc_set(ext2_filsys fs, dgrp_t group, blk64_t blk) { (void) fs; (void) group; (void) blk; }
void ext2fs_inode_table_loc_set(ext2_filsys fs, dgrp_t group, blk64_t blk) { (void) fs; (void) group; (void) blk; }
__u32 ext2fs_bg_free_blocks_count(ext2_filsys fs, dgrp_t group) { (void) fs; (void) group; return (__u32) sb_choice(); }
__u32 ext2fs_bg_free_inodes_count(ext2_filsys fs, dgrp_t group) { (void) fs; (void) group; return (__u32) sb_choice(); }
__u32 ext2fs_bg_used_dirs_count(ext2_filsys fs, dgrp_t group) { (void) fs; (void) group; return (__u32) sb_choice(); }
__u32 ext2fs_bg_itable_unused(ext2_filsys fs, dgrp_t group) { (void) fs; (void) group; return (__u32) sb_choice(); }
void ext2fs_bg_itable_unused_set(ext2_filsys fs, dgrp_t group, __u32 n) { (void) fs; (void) group; (void) n; }
int ext2fs_bg_flags_test(ext2_filsys fs, dgrp_t group, __u16 bg_flag) { (void) fs; (void) group; (void) bg_flag; return (int) (sb_choice() & 1); }
void ext2fs_bg_flags_clear(ext2_filsys fs, dgrp_t group, __u16 bg_flags) { (void) fs; (void) group; (void) bg_flags; }
__u16 ext2fs_bg_checksum(ext2_filsys fs, dgrp_t group) { (void) fs; (void) group; return (__u16) sb_choice(); }
int ext2fs_has_group_desc_csum(ext2_filsys fs) { (void) fs; return (int) (sb_choice() & 1); }
/* 64-bit superblock counters (blknum.c): transcribed from the format: _hi only counts with the 64bit feature */
blk64_t ext2fs_blocks_count(struct ext2_super_block *super)
{ return super->s_blocks_count | ((super->s_feature_incompat & EXT4_FEATURE_INCOMPAT_64BIT) ? (__u64) super->s_blocks_count_hi << 32 : 0); }
blk64_t ext2fs_r_blocks_count(struct ext2_super_block *super)
{ return super->s_r_blocks_count | ((super->s_feature_incompat & EXT4_FEATURE_INCOMPAT_64BIT) ? (__u64) super->s_r_blocks_count_hi << 32 : 0); }
blk64_t ext2fs_free_blocks_count(struct ext2_super_block *super)
{ return super->s_free_blocks_count | ((super->s_feature_incompat & EXT4_FEATURE_INCOMPAT_64BIT) ? (__u64) super->s_free_blocks_hi << 32 : 0); }
/* check_resize_inode */
unsigned char g_ri_failed, g_ind_failed;
errcode_t ext2fs_read_inode(ext2_filsys fs, ext2_ino_t ino, struct ext2_inode *inode)
{
	errcode_t e = (sb_choice() & 1) ? SB_ERR() : 0;

	(void) fs; (void) ino;
	memcpy(inode, IN.rinode, sizeof(*inode));
	g_ri_failed = e != 0;
	return e;
}
unsigned int n_ind_reads; blk_t ind_blk[2];
errcode_t ext2fs_read_ind_block(ext2_filsys fs, blk_t blk, void *buf)
{
	errcode_t e = (sb_choice() & 1) ? SB_ERR() : 0;

	(void) fs;
	if (n_ind_reads < 2)
		ind_blk[n_ind_reads] = blk;
	/* first read: the double-indirect block, second: the one reserved GDT block */
	memcpy(buf, n_ind_reads == 0 ? &IN.ind[0] : &IN.ind[256], 1024);
	n_ind_reads++;
	if (e)
		g_ind_failed = 1;
	return e;
}
unsigned char g_has_super;
int ext2fs_bg_has_super(ext2_filsys fs, dgrp_t group) { (void) fs; (void) group; return g_has_super; }

static void build(void)
{
	sb_nchoice = 0;
	g_orphan_calls = 0;
	n_misc = n_fdb = n_cnt_big = n_cnt_wrong = n_other = n_gd_seen = n_fs_size = 0; a_cnt_wrong = a_fs_size = 0; misc_str = 0; misc_num = 0;
	n_resize_invalid = n_clear_resize = n_nonzero_rgdt = n_disable_resize = n_dirhash = 0;
	a_resize_invalid = a_clear_resize = a_nonzero_rgdt = a_disable_resize = a_dirhash = 0;
	n_write_inode = 0; wi_zero = 0; wi_ino = 0; g_ri_failed = g_ind_failed = 0; n_ind_reads = 0; ind_blk[0] = ind_blk[1] = 0;
	memset(&MGR, 0, sizeof(MGR));
	memset(&FSCH, 0, sizeof(FSCH));
	FSCH.manager = &MGR;
	memcpy(&SB, IN.sb, sizeof(SB));
	memcpy(GD, IN.gd, sizeof(GD));
	memset(&FS, 0, sizeof(FS));
	FS.magic = EXT2_ET_MAGIC_EXT2FS_FILSYS;
	FS.io = &FSCH;
	FS.super = &SB;
	FS.group_desc = (struct opaque_ext2_group_desc *) GD;
	FS.flags = IN.fs_flags;
	memset(&CTX, 0, sizeof(CTX));
	CTX.fs = &FS;
	CTX.options = IN.options;
	CTX.flags = IN.ctx_flags;
	CTX.now = IN.now;
	CTX.num_blocks = IN.num_blocks;
}

static int name8(const char *s, const char *lit)
{
	return s && s[0] == lit[0] && s[1] == lit[1] && s[2] == lit[2] && s[3] == lit[3] && s[4] == lit[4] &&
	       s[5] == lit[5] && s[6] == lit[6] && s[7] == lit[7];
}

/* ================= check_super_block: value bounds ================= */
void h_csb_bounds(void)
{
	struct fsck34_sbv v, v0;
	struct ext2_super_block sb0;
	unsigned int nh;
	int fatal, early;

	LOAD_IN();
	build();
	/* ext2fs_open2 guarantees (see assumes) */
	ASSUME(SB.s_log_block_size <= 6);
	ASSUME(SB.s_log_cluster_size >= SB.s_log_block_size && SB.s_log_cluster_size <= 17);
	ASSUME(EXT2_INODE_SIZE(&SB) != 0);
	FS.blocksize = 1024u << SB.s_log_block_size;
	FS.cluster_ratio_bits = (int) (SB.s_log_cluster_size - SB.s_log_block_size);
	FS.group_desc_count = 1;
	FS.desc_blocks = 1;
	FS.inode_blocks_per_group = (unsigned int) sb_choice();
	/* independent reading of the superblock into plain values */
	v.has_64bit = (SB.s_feature_incompat & 0x0080) != 0;
	v.blocks_count = SB.s_blocks_count | (v.has_64bit ? (unsigned long long) SB.s_blocks_count_hi << 32 : 0);
	v.r_blocks_count = SB.s_r_blocks_count | (v.has_64bit ? (unsigned long long) SB.s_r_blocks_count_hi << 32 : 0);
	v.inodes_count = SB.s_inodes_count; v.first_data_block = SB.s_first_data_block;
	v.log_block_size = SB.s_log_block_size; v.log_cluster_size = SB.s_log_cluster_size;
	v.clusters_per_group = SB.s_clusters_per_group; v.blocks_per_group = SB.s_blocks_per_group;
	v.inodes_per_group = SB.s_inodes_per_group; v.reserved_gdt_blocks = SB.s_reserved_gdt_blocks;
	v.desc_size = SB.s_desc_size; v.rev_level = SB.s_rev_level; v.first_ino = SB.s_first_ino;
	v.inode_size = SB.s_rev_level == 0 ? 128 : SB.s_inode_size;
	v.groups = 1;
	ASSUME(v.first_data_block != v.blocks_count);
	ASSUME(!v.has_64bit || v.desc_size != 0);
	sb0 = SB;

	check_super_block(&CTX);

	/* the device is smaller than the filesystem and the user agreed to stop (PR_0_FS_SIZE_WRONG): the run ends there too */
	fatal = n_misc + n_fdb + n_cnt_big + (n_cnt_wrong && !a_cnt_wrong) + (n_fs_size && a_fs_size) != 0;
	v0 = v;
	if (n_cnt_wrong && a_cnt_wrong)		/* accepted repair of the total: later bounds are about the repaired value */
		v.inodes_count = v.inodes_per_group * v.groups;
	early = n_gd_seen == 0 && (CTX.flags & E2F_FLAG_ABORT);
	CHECK(!fatal || early, "a fatal superblock problem ends the function before any group descriptor is looked at, with E2F_FLAG_ABORT");
	CHECK(n_misc <= 1 && n_fdb <= 1 && n_cnt_big <= 1 && n_cnt_wrong <= 1, "each reported at most once");

#define VIOL(bound, text) \
	if (!bound(v)) { REACH(text); CHECK(fatal, "violated => fatal superblock problem raised: " text); }
	VIOL(FSCK34_SBV_INODES_COUNT, "inodes_count >= 1")
	VIOL(FSCK34_SBV_BLOCKS_COUNT, "1 <= blocks_count <= max for the address width / 2^32 groups")
	VIOL(FSCK34_SBV_FIRST_DATA_LT, "first_data_block < blocks_count")
	VIOL(FSCK34_SBV_CPG, "8 <= clusters_per_group <= min(8 * blocksize, 65528)")
	VIOL(FSCK34_SBV_BPG, "8 <= blocks_per_group <= min(8 * blocksize, 65528) * ratio")
	VIOL(FSCK34_SBV_BPG_IS_CPG, "blocks_per_group == clusters_per_group * ratio")
	VIOL(FSCK34_SBV_INODE_SIZE, "inode size a power of two in [128, blocksize]")
	VIOL(FSCK34_SBV_IPG, "inodes_per_block <= inodes_per_group <= 65536 - inodes_per_block")
	VIOL(FSCK34_SBV_R_BLOCKS, "r_blocks_count <= blocks_count")
	VIOL(FSCK34_SBV_RESERVED_GDT, "reserved_gdt_blocks <= blocksize / 4")
	VIOL(FSCK34_SBV_DESC_SIZE, "64bit: desc_size a power of two <= 1024")
	VIOL(FSCK34_SBV_FIRST_INO, "dynamic revision: 11 <= first_ino <= inodes_count")
	if (!FSCK34_SBV_FIRST_DATA_1K(v)) {
		REACH("1 KiB blocks: first_data_block >= 1");
		CHECK(fatal, "violated => fatal superblock problem raised: 1 KiB blocks need first_data_block >= 1");
	}
	if ((unsigned long long) sb0.s_inodes_count != (unsigned long long) v.inodes_per_group * v.groups) {
		REACH("inodes_count == inodes_per_group * groups");
		CHECK(fatal || (n_cnt_wrong == 1 && a_cnt_wrong && SB.s_inodes_count == v.inodes_per_group * v.groups &&
				(FS.flags & EXT2_FLAG_DIRTY)),
		      "wrong inode total: fatal, or PR_0_INODE_COUNT_WRONG accepted and the product stored");
	}
	/* exactly one component of the HEALTHY reading fails: the report names that field */
	nh = !FSCK34_SBV_INODES_COUNT(v0) + !FSCK34_SBV_BLOCKS_COUNT(v0) + !FSCK34_H_FIRST_DATA(v0) + !FSCK34_SBV_CPG(v0) +
	     !FSCK34_SBV_BPG_IS_CPG(v0) + !FSCK34_SBV_INODE_SIZE(v0) + !FSCK34_H_IPG(v0) + !FSCK34_H_R_BLOCKS(v0) +
	     !FSCK34_SBV_RESERVED_GDT(v0) + !FSCK34_H_DESC_SIZE(v0) + !FSCK34_SBV_INODES_TOTAL(v0) + !FSCK34_SBV_FIRST_INO(v0);
	if (nh == 1 && !(n_fs_size && a_fs_size)) {
		if (!FSCK34_SBV_CPG(v0)) {
			REACH("only clusters_per_group out of range");
			CHECK(n_misc == 1 && name8(misc_str, "clusters_per_group") && misc_num == v.clusters_per_group, "named: clusters_per_group");
		}
		if (!FSCK34_SBV_RESERVED_GDT(v0))
			CHECK(n_misc == 1 && name8(misc_str, "reserved_gdt_blocks") && misc_num == v.reserved_gdt_blocks, "named: reserved_gdt_blocks");
		if (!FSCK34_H_DESC_SIZE(v0))
			CHECK(n_misc == 1 && name8(misc_str, "desc_size") && misc_num == v.desc_size, "named: desc_size");
		if (!FSCK34_SBV_FIRST_INO(v0))
			CHECK(n_misc == 1 && name8(misc_str, "first_ino") && misc_num == v.first_ino, "named: first_ino");
		if (!FSCK34_H_R_BLOCKS(v0))
			CHECK(n_misc == 1 && name8(misc_str, "r_blocks_count") && misc_num == v.r_blocks_count, "named: r_blocks_count");
		if (!FSCK34_H_IPG(v0))
			CHECK(n_misc == 1 && name8(misc_str, "inodes_per_group") && misc_num == v.inodes_per_group, "named: inodes_per_group");
		if (!FSCK34_SBV_INODE_SIZE(v0) && FSCK34_IPB(v0) != 0)
			CHECK(n_misc == 1 && (name8(misc_str, "inode_size") || name8(misc_str, "inodes_per_group")), "named: inode_size (or, through inodes per block, inodes_per_group)");
		if (!FSCK34_H_FIRST_DATA(v0) && FSCK34_SBV_FIRST_DATA_LT(v0))
			CHECK(n_fdb == 1 && n_misc == 0, "named: PR_0_FIRST_DATA_BLOCK");
	}
	if (FSCK34_SB_HEALTHY(v0) && !((IN.ctx_flags & E2F_FLAG_GOT_DEVSIZE) && IN.num_blocks < v0.blocks_count)) {
		REACH("healthy superblock");
		CHECK(!fatal && n_cnt_wrong == 0, "healthy geometry: none of the fatal superblock problems is raised (C05)");
		CHECK(n_gd_seen != 0, "healthy geometry: the function goes on to the group descriptors");
		CHECK(SB.s_inodes_count == sb0.s_inodes_count && SB.s_blocks_count == sb0.s_blocks_count &&
		      SB.s_blocks_per_group == sb0.s_blocks_per_group && SB.s_clusters_per_group == sb0.s_clusters_per_group &&
		      SB.s_inodes_per_group == sb0.s_inodes_per_group && SB.s_first_data_block == sb0.s_first_data_block &&
		      SB.s_log_block_size == sb0.s_log_block_size && SB.s_log_cluster_size == sb0.s_log_cluster_size &&
		      SB.s_inode_size == sb0.s_inode_size && SB.s_first_ino == sb0.s_first_ino && SB.s_desc_size == sb0.s_desc_size &&
		      SB.s_r_blocks_count == sb0.s_r_blocks_count && SB.s_rev_level == sb0.s_rev_level,
		      "healthy geometry: the geometry fields are unchanged (C05)");
	}
	REACH("end");
}

/* ================= check_resize_inode ================= */
void h_resize(void)
{
	struct ext2_inode ri;
	struct ext2_super_block sb0;
	unsigned int i, others = 0;
	int structural_ok, feature, rgdt_iter;

	LOAD_IN();
	build();
	ASSUME(SB.s_reserved_gdt_blocks < 8);
	ASSUME(IN.group_desc_count >= 1 && IN.group_desc_count <= 2);
	SB.s_log_block_size = 0; SB.s_log_cluster_size = 0; SB.s_first_data_block = 1;
	SB.s_feature_incompat &= ~(EXT4_FEATURE_INCOMPAT_64BIT);
	FS.blocksize = 1024;
	FS.group_desc_count = IN.group_desc_count;
	FS.desc_blocks = 1;
	g_has_super = (unsigned char) (sb_choice() & 1);
	memcpy(&ri, IN.rinode, sizeof(ri));
	sb0 = SB;

	check_resize_inode(&CTX);

	/* what the function sees after the possible PR_0_DISABLE_RESIZE_INODE repair */
	feature = (SB.s_feature_compat & EXT2_FEATURE_COMPAT_RESIZE_INODE) != 0;
	if ((sb0.s_feature_compat & EXT2_FEATURE_COMPAT_RESIZE_INODE) && (sb0.s_feature_incompat & EXT2_FEATURE_INCOMPAT_META_BG)) {
		REACH("resize_inode together with meta_bg");
		CHECK(n_disable_resize == 1, "resize_inode and meta_bg exclude each other: reported");
		CHECK(a_disable_resize ? (!feature && SB.s_reserved_gdt_blocks == 0 && (FS.flags & EXT2_FLAG_DIRTY)) : feature,
		      "accepted: feature cleared, no reserved GDT blocks");
	} else
		CHECK(n_disable_resize == 0 && feature == ((sb0.s_feature_compat & EXT2_FEATURE_COMPAT_RESIZE_INODE) != 0), "feature untouched");
	for (i = 0; i < EXT2_N_BLOCKS; i++)
		if (i != EXT2_DIND_BLOCK && ri.i_block[i])
			others++;
	if (!feature) {
		unsigned int rg = (n_disable_resize && a_disable_resize) ? 0 : sb0.s_reserved_gdt_blocks;

		CHECK(n_nonzero_rgdt == (rg != 0), "feature off: s_reserved_gdt_blocks != 0 <=> reported");
		if (n_nonzero_rgdt && a_nonzero_rgdt)
			CHECK(SB.s_reserved_gdt_blocks == 0 && (FS.flags & EXT2_FLAG_DIRTY), "accepted: zeroed");
		if (!g_ri_failed) {
			int mapped = others != 0 || ri.i_block[EXT2_DIND_BLOCK] != 0;

			REACH("feature off");
			CHECK(n_clear_resize == (mapped ? 1u : 0u), "feature off: a resize inode that maps blocks <=> PR_0_CLEAR_RESIZE_INODE");
			CHECK(n_write_inode == ((n_clear_resize && a_clear_resize) ? 1u : 0u), "written only when accepted");
			if (n_write_inode)
				CHECK(wi_zero && wi_ino == EXT2_RESIZE_INO, "accepted: the resize inode is zeroed");
		}
		CHECK(n_resize_invalid == 0, "feature off: never 'invalid'");
	} else if (g_ri_failed) {
		CHECK((CTX.flags & E2F_FLAG_RESIZE_INODE) && n_write_inode == 0, "unreadable resize inode: flagged for re-creation");
	} else {
		blk_t dind = ri.i_block[EXT2_DIND_BLOCK];
		unsigned long long blocks = SB.s_blocks_count;

		structural_ok = others == 0 && dind != 0 && ri.i_links_count != 0 && (ri.i_mode & 0100000) &&
				dind >= SB.s_first_data_block && dind < blocks;
		rgdt_iter = SB.s_reserved_gdt_blocks / 4;	/* 0 or 1 (assumption) */
		if (!structural_ok) {
			REACH("structurally damaged resize inode");
			CHECK(n_resize_invalid == 1, "C02: a resize inode that is not 'regular file, linked, only the double-indirect block, inside the filesystem' is reported");
		} else {
			/* contents (format): dind slot (desc_blocks + i) mod 256 -> block first_data_block + 1 + desc_blocks + i,
			 * whose slot n names the copy in the n-th backup group */
			int content_ok = 1;

			if (g_ind_failed)
				content_ok = 0;
			else if (rgdt_iter == 1) {
				unsigned int pblk = 1 + 1 + 1;
				if (IN.ind[1] != pblk)
					content_ok = 0;
				else if (IN.group_desc_count == 2 && g_has_super && IN.ind[256] != pblk + SB.s_blocks_per_group)
					content_ok = 0;
			}
			if (!content_ok && !g_ind_failed) {
				REACH("wrong contents");
				CHECK(n_resize_invalid == 1, "C02: reserved GDT blocks not where the format puts them: reported");
			}
			if (content_ok) {
				REACH("healthy resize inode");
				CHECK(n_resize_invalid == 0 && n_write_inode == 0 && CTX.flags == IN.ctx_flags &&
				      SB.s_state == sb0.s_state && !(FS.flags & ~IN.fs_flags & EXT2_FLAG_DIRTY) || n_disable_resize,
				      "C05: a healthy resize inode: nothing reported, nothing written, no flag changes");
			}
		}
		if (n_resize_invalid) {
			CHECK(n_resize_invalid == 1, "reported once");
			if (a_resize_invalid)
				CHECK(n_write_inode == 1 && wi_zero && wi_ino == EXT2_RESIZE_INO && (CTX.flags & E2F_FLAG_RESIZE_INODE),
				      "C01: accepted: the inode is cleared and flagged for re-creation");
			else
				CHECK(n_write_inode == 0, "declined: not written");
			if (!(IN.options & E2F_OPT_READONLY))
				CHECK(!(SB.s_state & EXT2_VALID_FS) && (FS.flags & EXT2_FLAG_DIRTY), "not read-only: the filesystem is no longer marked valid");
		}
	}
	REACH("end");
}

/* ================= e2fsck_fix_dirhash_hint ================= */
void h_dirhash(void)
{
	unsigned int flags0, both = EXT2_FLAGS_SIGNED_HASH | EXT2_FLAGS_UNSIGNED_HASH;
	int due;

	LOAD_IN();
	build();
	flags0 = SB.s_flags;
	due = !(IN.options & E2F_OPT_READONLY) && (SB.s_feature_compat & EXT2_FEATURE_COMPAT_DIR_INDEX) && !(flags0 & both);

	e2fsck_fix_dirhash_hint(&CTX);

	CHECK(n_dirhash == (due ? 1u : 0u), "hint missing on a writable dir_index filesystem <=> PR_0_DIRHASH_HINT raised");
	if (due && a_dirhash) {
		REACH("hint added");
		CHECK(SB.s_flags == (flags0 | ((char) 255 < 0 ? EXT2_FLAGS_SIGNED_HASH : EXT2_FLAGS_UNSIGNED_HASH)) && (FS.flags & EXT2_FLAG_DIRTY),
		      "accepted: exactly the hint of this platform's char signedness is added, superblock dirty");
	} else {
		REACH("untouched");
		CHECK(SB.s_flags == flags0 && FS.flags == IN.fs_flags, "otherwise the superblock is untouched");
	}
	REACH("end");
}
